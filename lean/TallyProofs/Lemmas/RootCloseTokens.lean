import TallyProofs.Lemmas.RootCloseLemmas
/-!
# Log-shape and token-accounting invariant of the root-Close model (C08)
-/
namespace Tally.RootClose

/-! ## list facts -/

theorem count_flatten_set {α : Type} [BEq α] (a : α) (l : List (List α)) (i : Nat) (x y : List α)
    (h : l[i]? = some x) :
    List.count a (l.set i y).flatten + List.count a x = List.count a l.flatten + List.count a y := by
  induction l generalizing i with
  | nil => simp at h
  | cons z l ih =>
    cases i with
    | zero =>
      simp only [List.getElem?_cons_zero, Option.some.injEq] at h; subst h
      simp only [List.set_cons_zero, List.flatten_cons, List.count_append]; omega
    | succ i =>
      simp only [List.getElem?_cons_succ] at h
      have := ih i h
      simp only [List.set_cons_succ, List.flatten_cons, List.count_append]; omega

theorem flatten_map_nil {α β : Type} (l : List β) : (l.map fun _ => ([] : List α)).flatten = [] := by
  induction l with
  | nil => rfl
  | cons z l ih => simp [ih]

def NoPre (l : List Token) : Prop := ∀ tok ∈ l, tok.pre = false

/-- the cells whose index satisfies `P` hold no token recorded before Close (`P` = "visited by the
winner's final pass": the visiting order is arbitrary, so this is a set, not a prefix) -/
def CleanOn (cells : List (List Token)) (P : Nat → Prop) : Prop :=
  ∀ j c, P j → cells[j]? = some c → NoPre c

theorem CleanOn.mono {cells : List (List Token)} {P Q : Nat → Prop} (h : CleanOn cells P)
    (hq : ∀ j, j < cells.length → Q j → P j) : CleanOn cells Q := by
  intro j c hj hc
  have hlt : j < cells.length := by
    apply Classical.byContradiction; intro hn
    have : cells[j]? = none := List.getElem?_eq_none (by omega)
    rw [this] at hc; cases hc
  exact h j c (hq j hlt hj) hc

theorem CleanOn.empty (cells : List (List Token)) {P : Nat → Prop} (hp : ∀ j, ¬ P j) : CleanOn cells P :=
  fun j _ hj _ => absurd hj (hp j)

theorem CleanOn.set_nil {cells : List (List Token)} {P : Nat → Prop} (h : CleanOn cells P) (i : Nat) :
    CleanOn (cells.set i []) P := by
  intro j c hj hc
  rw [List.getElem?_set] at hc
  split at hc
  · split at hc
    · simp only [Option.some.injEq] at hc; subst hc; intro tok ht; cases ht
    · cases hc
  · exact h j c hj hc

/-- the visit of cell `i` that swaps its content out -/
theorem CleanOn.set_nil_insert {cells : List (List Token)} {i : Nat} {vis : List Nat}
    (h : CleanOn cells (fun j => j ∈ vis)) : CleanOn (cells.set i []) (fun j => j ∈ i :: vis) := by
  intro j c hj hc
  rw [List.getElem?_set] at hc
  split at hc
  · split at hc
    · simp only [Option.some.injEq] at hc; subst hc; intro tok ht; cases ht
    · cases hc
  · next hne =>
    simp only [List.mem_cons] at hj
    rcases hj with hj | hj
    · exact absurd hj.symm hne
    · exact h j c hj hc

/-- the visit of cell `i` that finds nothing unreported -/
theorem CleanOn.insert_of_nil {cells : List (List Token)} {i : Nat} {vis : List Nat}
    (h : CleanOn cells (fun j => j ∈ vis)) (hi : cells[i]? = some []) : CleanOn cells (fun j => j ∈ i :: vis) := by
  intro j c hj hc
  simp only [List.mem_cons] at hj
  rcases hj with hj | hj
  · subst hj; rw [hi] at hc; simp only [Option.some.injEq] at hc; subst hc; intro tok ht; cases ht
  · exact h j c hj hc

theorem CleanOn.set_cons {cells : List (List Token)} {P : Nat → Prop} (h : CleanOn cells P) (i : Nat) (tok : Token)
    (x : List Token) (hi : cells[i]? = some x) (hp : P i → tok.pre = false) :
    CleanOn (cells.set i (tok :: x)) P := by
  intro j c hj hc
  rw [List.getElem?_set] at hc
  split at hc
  · next hij =>
    subst hij
    split at hc
    · simp only [Option.some.injEq] at hc; subst hc
      intro t ht
      simp only [List.mem_cons] at ht
      rcases ht with rfl | ht
      · exact hp hj
      · exact h i x hj hi t ht
    · cases hc
  · exact h j c hj hc

theorem CleanOn.map_nil (cells : List (List Token)) (P : Nat → Prop) : CleanOn (cells.map fun _ => []) P := by
  intro j c _ hc
  simp only [List.getElem?_map, Option.map_eq_some_iff] at hc
  obtain ⟨_, _, rfl⟩ := hc
  intro tok ht; cases ht

theorem CleanOn.flatten {cells : List (List Token)} (h : CleanOn cells (fun _ => True)) : NoPre cells.flatten := by
  intro tok ht
  obtain ⟨c, hc, htc⟩ := List.mem_flatten.mp ht
  obtain ⟨j, hj, hjc⟩ := List.mem_iff_getElem.mp hc
  exact h j c trivial (by rw [List.getElem?_eq_getElem hj, hjc]) tok htc

/-! ## classifiers -/

/-- the cells a pass at this pc has visited already (`flush`: all of them) -/
def PassPc.visited : PassPc → Nat → Prop
  | .begin => fun _ => False
  | .pick vis => fun j => j ∈ vis
  | .deliver _ _ vis => fun j => j ∈ vis
  | .flush => fun _ => True

/-- which cells are already free of `pre` tokens, by the winner's progress -/
def cleanSet : CPc → Nat → Prop
  | .pass p => p.visited
  | .purgePc => fun _ => True
  | .flushPc => fun _ => True
  | .reporterClose => fun _ => True
  | .returned _ => fun _ => True
  | _ => fun _ => False

def optPend : Option PassPc → List Token
  | some q => q.pend
  | none => []

def optVisited : Option PassPc → Nat → Prop
  | some q => q.visited
  | none => fun _ => True

def lastFlushed : List LogEv → Bool
  | .flush :: _ => true
  | _ => false

/-- the log ends with the final flush followed — iff the reporter is closable — by its close -/
def endsRight (closable : Bool) : List LogEv → Bool
  | .reporterClose :: .flush :: _ => closable
  | .flush :: _ => !closable
  | _ => false

theorem cleanSet_afterPass (oq : Option PassPc) : cleanSet (afterPass oq) = optVisited oq := by
  cases oq with
  | none => rfl
  | some q => cases q <;> rfl

theorem pend_afterPass (oq : Option PassPc) : (afterPass oq).pend = optPend oq := by
  cases oq with
  | none => rfl
  | some q => cases q <;> rfl

theorem cleanSet_pos {p : CPc} {j : Nat} (h : cleanSet p j) : 3 ≤ ph p := by
  cases p <;> simp [cleanSet, ph] at h ⊢

/-! ## what one pass step does -/

section
variable {s : State} {ch : Nat} {p : PassPc} {s1 : State} {oq : Option PassPc}

theorem passStep_cons (h : passStep s ch p = some (s1, oq)) (tok : Token) :
    List.count tok (delivered s1.log) + List.count tok (optPend oq) + List.count tok s1.cells.flatten
    = List.count tok (delivered s.log) + List.count tok p.pend + List.count tok s.cells.flatten := by
  cases passStep_rel h with
  | begin => simp [delivered, optPend, PassPc.pend]
  | take vis x r hc hv hx =>
    have := count_flatten_set tok s.cells ch (x :: r) [] hx
    simp only [optPend, PassPc.pend, List.count_nil] at this ⊢
    omega
  | skip vis hc hv hx => simp [optPend, PassPc.pend]
  | over vis hc hall => simp [optPend, PassPc.pend]
  | deliver i pend vis => simp [delivered, optPend, PassPc.pend, List.count_append]; omega
  | flush => simp [delivered, optPend, PassPc.pend]

theorem passStep_countRC (h : passStep s ch p = some (s1, oq)) : countRC s1.log = countRC s.log := by
  cases passStep_rel h <;> rfl

theorem passStep_flushed (h : passStep s ch p = some (s1, oq)) (hn : oq = none) : lastFlushed s1.log = true := by
  cases passStep_rel h <;> first | rfl | cases hn

/-- a pass of another thread never puts a `pre` token back -/
theorem passStep_clean_frame (h : passStep s ch p = some (s1, oq)) (P : Nat → Prop) (hcl : CleanOn s.cells P) :
    CleanOn s1.cells P := by
  cases passStep_rel h with
  | take vis x r hc hv hx => exact hcl.set_nil ch
  | _ => exact hcl

/-- the winner's final pass extends the clean set as it walks, whatever the visiting order -/
theorem passStep_clean (h : passStep s ch p = some (s1, oq)) (hcl : CleanOn s.cells p.visited) :
    CleanOn s1.cells (optVisited oq) := by
  cases passStep_rel h with
  | begin => exact CleanOn.empty _ (fun j hj => by simp [optVisited, PassPc.visited] at hj)
  | take vis x r hc hv hx => exact CleanOn.set_nil_insert hcl
  | skip vis hc hv hx => exact CleanOn.insert_of_nil hcl hx
  | over vis hc hall => exact CleanOn.mono hcl (fun j hj _ => hall j hj)
  | deliver i pend vis => exact hcl
  | flush => exact hcl

end

/-! ## the invariant -/

structure Tok (s : State) : Prop where
  rc : countRC s.log = if ph (wpc s) = 7 ∧ s.closable = true then 1 else 0
  tail6 : ph (wpc s) = 6 → lastFlushed s.log = true
  tail7 : ph (wpc s) = 7 → endsRight s.closable s.log = true
  dropNoPre : NoPre s.dropped
  clean : CleanOn s.cells (cleanSet (wpc s))
  cons : ∀ tok, List.count tok (delivered s.log) + List.count tok s.loop.pend + List.count tok (wpc s).pend
      + List.count tok s.cells.flatten + List.count tok s.dropped = List.count tok s.issued
  fresh : ∀ tok ∈ s.issued, tok.id < s.nextId
  nodup : s.issued.Nodup

theorem tok_init (k : Nat) (hl cl : Bool) (er : Option Nat) : Tok (init k hl cl er) := by
  refine ⟨?_, ?_, ?_, ?_, ?_, ?_, ?_, ?_⟩
  · simp [init, wpc, ph, countRC]
  · simp [init, wpc, ph]
  · simp [init, wpc, ph]
  · intro tok h; simp [init] at h
  · exact CleanOn.empty _ (fun j hj => by simp [init, wpc, cleanSet] at hj)
  · intro tok
    have : (List.replicate k ([] : List Token)).flatten = [] := by
      induction k with
      | zero => rfl
      | succ n ih => simp [List.replicate_succ, ih]
    simp [init, wpc, delivered, CPc.pend, this]
    cases hl <;> simp [LoopPc.pend]
  · intro tok h; simp [init] at h
  · simp [init]

theorem Ctl.closed_of_ph {s : State} (h : Ctl s) (hp : 1 ≤ ph (wpc s)) : s.closed = true := by
  rw [h.closed_iff]
  cases hw : s.winner with
  | none => simp [wpc, hw, ph] at hp
  | some w => rfl

theorem fresh_cons {issued : List Token} {n : Nat} (tok : Token) (hid : tok.id = n)
    (hf : ∀ t ∈ issued, t.id < n) : ∀ t ∈ tok :: issued, t.id < n + 1 := by
  intro t ht
  simp only [List.mem_cons] at ht
  rcases ht with rfl | ht
  · omega
  · have := hf t ht; omega

theorem nodup_cons_fresh {issued : List Token} {n : Nat} (tok : Token) (hid : tok.id = n)
    (hf : ∀ t ∈ issued, t.id < n) (hn : issued.Nodup) : (tok :: issued).Nodup := by
  refine List.nodup_cons.mpr ⟨?_, hn⟩
  intro hm; have := hf tok hm; omega

/-- steps that leave the winner's pc, the log, the cells and the token ghosts alone -/
theorem Tok.frame {s s' : State} (h : Tok s) (hw : wpc s' = wpc s) (hlog : s'.log = s.log)
    (hcl : s'.closable = s.closable) (hc : s'.cells = s.cells) (hd : s'.dropped = s.dropped)
    (hi : s'.issued = s.issued) (hn : s'.nextId = s.nextId) (hp : s'.loop.pend = s.loop.pend) : Tok s' := by
  refine ⟨?_, ?_, ?_, ?_, ?_, ?_, ?_, ?_⟩
  · rw [hw, hlog, hcl]; exact h.rc
  · rw [hw, hlog]; exact h.tail6
  · rw [hw, hlog, hcl]; exact h.tail7
  · rw [hd]; exact h.dropNoPre
  · rw [hw, hc]; exact h.clean
  · rw [hw, hlog, hc, hd, hi, hp]; exact h.cons
  · rw [hi, hn]; exact h.fresh
  · rw [hi]; exact h.nodup

theorem wpc_eq {s s' : State} (h1 : s'.winner = s.winner) (h2 : s'.closers = s.closers) : wpc s' = wpc s := by
  simp [wpc, h1, h2]

structure PassSame (s s1 : State) : Prop where
  winner : s1.winner = s.winner
  closers : s1.closers = s.closers
  dropped : s1.dropped = s.dropped
  issued : s1.issued = s.issued
  nextId : s1.nextId = s.nextId
  closable : s1.closable = s.closable
  loop : s1.loop = s.loop

theorem passStep_same {s : State} {ch : Nat} {p : PassPc} {s1 : State} {oq : Option PassPc}
    (h : passStep s ch p = some (s1, oq)) : PassSame s s1 := by
  obtain ⟨c, l, rfl⟩ := passStep_frame h
  exact ⟨rfl, rfl, rfl, rfl, rfl, rfl, rfl⟩

/-- a step of a periodic pass (the loop has not exited, so the winner — if any — is still before its wait) -/
theorem Tok.loop_pass {s : State} (h : Ctl s) (h2 : Tok s) {ch : Nat} {p : PassPc} {s1 : State} {oq : Option PassPc}
    (hl : s.loop = .pass p) (hp : passStep s ch p = some (s1, oq)) (lp : LoopPc)
    (hlp : lp.pend = optPend oq) : Tok { s1 with loop := lp } := by
  have hsame := passStep_same hp
  have hw : wpc { s1 with loop := lp } = wpc s := wpc_eq hsame.winner hsame.closers
  have hph : ph (wpc s) < 3 := by
    apply Classical.byContradiction; intro hn
    have := h.loopEx (by omega); rw [hl] at this; cases this
  refine ⟨?_, ?_, ?_, ?_, ?_, ?_, ?_, ?_⟩
  · rw [hw]
    show countRC s1.log = _
    rw [passStep_countRC hp, h2.rc]
    have : ¬ (ph (wpc s) = 7) := by omega
    simp [this]
  · rw [hw]; intro h6; omega
  · rw [hw]; intro h7; omega
  · show NoPre s1.dropped
    rw [hsame.dropped]; exact h2.dropNoPre
  · rw [hw]
    intro j c hj _
    have := cleanSet_pos hj; omega
  · intro tok
    rw [hw]
    show List.count tok (delivered s1.log) + List.count tok lp.pend + List.count tok (wpc s).pend
      + List.count tok s1.cells.flatten + List.count tok s1.dropped
      = List.count tok s1.issued
    have h1 := h2.cons tok
    have h3 := passStep_cons hp tok
    rw [hl] at h1
    simp only [LoopPc.pend] at h1
    rw [hlp, hsame.dropped, hsame.issued]
    omega
  · show ∀ tok ∈ s1.issued, tok.id < s1.nextId
    rw [hsame.issued, hsame.nextId]; exact h2.fresh
  · show s1.issued.Nodup
    rw [hsame.issued]; exact h2.nodup

/-- the winner moves between pcs before its final pass -/
theorem Tok.wmove {s s' : State} (h : Tok s) (hlog : s'.log = s.log) (hc : s'.cells = s.cells) (hd : s'.dropped = s.dropped)
    (hi : s'.issued = s.issued) (hn : s'.nextId = s.nextId) (hp : s'.loop.pend = s.loop.pend)
    (hpend : (wpc s').pend = (wpc s).pend) (hph : ph (wpc s') < 4) (hph0 : ph (wpc s) < 7)
    (hb : ∀ j, ¬ cleanSet (wpc s') j) : Tok s' := by
  refine ⟨?_, ?_, ?_, ?_, ?_, ?_, ?_, ?_⟩
  · rw [hlog, h.rc]
    have a : ¬ (ph (wpc s) = 7) := by omega
    have b : ¬ (ph (wpc s') = 7) := by omega
    simp [a, b]
  · intro h6; omega
  · intro h7; omega
  · rw [hd]; exact h.dropNoPre
  · exact CleanOn.empty _ hb
  · rw [hpend, hlog, hc, hd, hi, hp]; exact h.cons
  · rw [hi, hn]; exact h.fresh
  · rw [hi]; exact h.nodup

/-- a step of the winner's final pass -/
theorem Tok.final_pass {s : State} (h : Ctl s) (h2 : Tok s) (t : Nat) {ch : Nat} {p : PassPc} {s1 : State}
    {oq : Option PassPc} (hw : s.winner = some t)
    (hpc : s.closers t = .pass p) (hp : passStep s ch p = some (s1, oq)) :
    Tok (setC s1 t (afterPass oq)) := by
  generalize hp' : afterPass oq = p'
  have hpend : p'.pend = optPend oq := by rw [← hp']; exact pend_afterPass oq
  have hph : ph p' = 3 ∨ ph p' = 4 := by rw [← hp']; exact ph_afterPass oq
  have hb : cleanSet p' = optVisited oq := by rw [← hp']; exact cleanSet_afterPass oq
  have hsame := passStep_same hp
  have hw0 : wpc s = .pass p := by rw [wpc_of_winner hw, hpc]
  have hw1 : wpc (setC s1 t p') = p' := by simp [wpc, setC, hsame.winner, hw]
  have hex : s.loop = .exited := h.loopEx (by rw [hw0]; simp [ph])
  refine ⟨?_, ?_, ?_, ?_, ?_, ?_, ?_, ?_⟩
  · rw [hw1]
    show countRC s1.log = _
    rw [passStep_countRC hp, h2.rc, hw0]
    have a : ¬ (ph (CPc.pass p) = 7) := by simp [ph]
    have b : ¬ (ph p' = 7) := by omega
    rw [if_neg (fun hh => a hh.1), if_neg (fun hh => b hh.1)]
  · rw [hw1]; intro h6; omega
  · rw [hw1]; intro h7; omega
  · show NoPre s1.dropped
    rw [hsame.dropped]; exact h2.dropNoPre
  · rw [hw1]
    show CleanOn s1.cells (cleanSet p')
    rw [hb]
    apply passStep_clean hp
    have := h2.clean; rw [hw0] at this; exact this
  · intro tok
    rw [hw1]
    show List.count tok (delivered s1.log) + List.count tok s1.loop.pend
      + List.count tok p'.pend
      + List.count tok s1.cells.flatten + List.count tok s1.dropped
      = List.count tok s1.issued
    have h1 := h2.cons tok
    have h3 := passStep_cons hp tok
    rw [hw0] at h1
    simp only [CPc.pend] at h1
    rw [hpend, hsame.dropped, hsame.issued, hsame.loop]
    omega
  · show ∀ tok ∈ s1.issued, tok.id < s1.nextId
    rw [hsame.issued, hsame.nextId]; exact h2.fresh
  · show s1.issued.Nodup
    rw [hsame.issued]; exact h2.nodup

theorem tok_step (s s' : State) (e : Ev) (h : Ctl s) (h2 : Tok s) (hs : step s e = some s') : Tok s' := by
  cases e with
  | record c =>
    simp only [step] at hs
    split at hs
    · cases hs
    · next x hx =>
      split at hs <;> (simp only [Option.some.injEq] at hs; subst hs)
      · next hpg =>
        have hcl : s.closed = true := by
          apply h.closed_of_ph
          have := h.purged_iff; rw [hpg] at this; simp at this; omega
        refine ⟨h2.rc, h2.tail6, h2.tail7, ?_, h2.clean, ?_, fresh_cons _ rfl h2.fresh,
          nodup_cons_fresh _ rfl h2.fresh h2.nodup⟩
        · intro t ht
          simp only [List.mem_cons] at ht
          rcases ht with rfl | ht
          · simp [hcl]
          · exact h2.dropNoPre t ht
        · intro tok
          have := h2.cons tok
          show List.count tok (delivered s.log) + List.count tok s.loop.pend + List.count tok (wpc s).pend
            + List.count tok s.cells.flatten + List.count tok (_ :: s.dropped) = List.count tok (_ :: s.issued)
          simp only [List.count_cons] at this ⊢
          omega
      · next hpg =>
        refine ⟨h2.rc, h2.tail6, h2.tail7, h2.dropNoPre, ?_, ?_, fresh_cons _ rfl h2.fresh,
          nodup_cons_fresh _ rfl h2.fresh h2.nodup⟩
        · refine h2.clean.set_cons c _ x hx ?_
          intro hpos
          have := h.closed_of_ph (by have := cleanSet_pos hpos; omega)
          simp [this]
        · intro tok
          have h1 := h2.cons tok
          have h3 := count_flatten_set tok s.cells c x ({ id := s.nextId, cell := c, pre := !s.closed } :: x) hx
          show List.count tok (delivered s.log) + List.count tok s.loop.pend + List.count tok (wpc s).pend
            + List.count tok (s.cells.set c _).flatten + List.count tok s.dropped = List.count tok (_ :: s.issued)
          simp only [List.count_cons] at h1 h3 ⊢
          omega
  | obtain c =>
    simp only [step] at hs
    split at hs
    · simp only [Option.some.injEq] at hs; subst hs
      exact h2.frame rfl rfl rfl rfl rfl rfl rfl rfl
    · split at hs
      · simp only [Option.some.injEq] at hs; subst hs
        exact h2.frame rfl rfl rfl rfl rfl rfl rfl rfl
      · cases hs
  | tick =>
    simp only [step] at hs
    split at hs
    · next hl =>
      simp only [Option.some.injEq] at hs; subst hs
      exact h2.frame rfl rfl rfl rfl rfl rfl rfl (by simp [hl, LoopPc.pend])
    · cases hs
  | exit =>
    simp only [step] at hs
    split at hs
    · next hl =>
      split at hs
      · simp only [Option.some.injEq] at hs; subst hs
        exact h2.frame rfl rfl rfl rfl rfl rfl rfl (by simp [hl, LoopPc.pend])
      · cases hs
    · cases hs
  | loop ch =>
    simp only [step] at hs
    split at hs
    · next hl =>
      split at hs <;> (simp only [Option.some.injEq] at hs; subst hs)
      · exact h2.frame rfl rfl rfl rfl rfl rfl rfl (by simp [hl, LoopPc.pend])
      · exact h2.frame rfl rfl rfl rfl rfl rfl rfl (by simp [hl, LoopPc.pend, PassPc.pend])
    · next p hl =>
      split at hs
      · next s1 q hp =>
        simp only [Option.some.injEq] at hs; subst hs
        exact Tok.loop_pass h h2 hl hp (.pass q) rfl
      · next s1 hp =>
        simp only [Option.some.injEq] at hs; subst hs
        exact Tok.loop_pass h h2 hl hp .waiting rfl
      · cases hs
    · cases hs
  | closer t ch =>
    simp only [step] at hs
    split at hs
    · next hpc =>
      have hnw : s.winner ≠ some t := fun hw => by have := h.wne t hw; rw [hpc] at this; simp [ph] at this
      split at hs <;> (simp only [Option.some.injEq] at hs; subst hs)
      · have hwp : wpc (setC s t .waitWinner) = wpc s := by
          simp only [wpc, setC]; split
          · rfl
          · next w hw => have : w ≠ t := fun e => hnw (e ▸ hw); simp [this]
        exact h2.frame hwp rfl rfl rfl rfl rfl rfl rfl
      · next hcl =>
        have hwn : s.winner = none := by
          have := h.closed_iff; cases hw : s.winner <;> simp_all
        have hw0 : wpc s = .start := by simp [wpc, hwn]
        have hw1 : wpc { setC s t .won with closed := true, winner := some t } = .won := by simp [wpc, setC]
        exact h2.wmove rfl rfl rfl rfl rfl rfl (by rw [hw0, hw1]; rfl) (by rw [hw1]; simp [ph])
          (by rw [hw0]; simp [ph]) (by rw [hw1]; exact fun _ hj => hj)
    · next hpc =>
      have hw := h.winner_of t (by rw [hpc]; simp [ph])
      simp only [Option.some.injEq] at hs; subst hs
      have hw0 : wpc s = .won := by rw [wpc_of_winner hw, hpc]
      have hw1 : wpc { setC s t .doneClosedPc with doneClosed := true } = .doneClosedPc := by simp [wpc, setC, hw]
      exact h2.wmove rfl rfl rfl rfl rfl rfl (by rw [hw0, hw1]; rfl) (by rw [hw1]; simp [ph])
        (by rw [hw0]; simp [ph]) (by rw [hw1]; exact fun _ hj => hj)
    · next hpc =>
      have hw := h.winner_of t (by rw [hpc]; simp [ph])
      split at hs
      · simp only [Option.some.injEq] at hs; subst hs
        have hw0 : wpc s = .doneClosedPc := by rw [wpc_of_winner hw, hpc]
        have hw1 : wpc (setC s t (.pass .begin)) = .pass .begin := by simp [wpc, setC, hw]
        exact h2.wmove rfl rfl rfl rfl rfl rfl (by rw [hw0, hw1]; rfl) (by rw [hw1]; simp [ph])
          (by rw [hw0]; simp [ph]) (by rw [hw1]; exact fun _ hj => hj)
      · cases hs
    · next p hpc =>
      have hw := h.winner_of t (by rw [hpc]; simp [ph])
      split at hs
      · next s1 oq hp =>
        simp only [Option.some.injEq] at hs; subst hs
        exact Tok.final_pass h h2 t hw hpc hp
      · cases hs
    · next hpc =>
      have hw := h.winner_of t (by rw [hpc]; simp [ph])
      simp only [Option.some.injEq] at hs; subst hs
      have hw0 : wpc s = .purgePc := by rw [wpc_of_winner hw, hpc]
      have hw1 : wpc (setC (purgeAll s) t .flushPc) = .flushPc := by simp [wpc, setC, purgeAll, hw]
      have hex : s.loop = .exited := h.loopEx (by rw [hw0]; simp [ph])
      have hclean := h2.clean; rw [hw0] at hclean
      refine ⟨?_, ?_, ?_, ?_, ?_, ?_, h2.fresh, h2.nodup⟩
      · rw [hw1]; have := h2.rc; rw [hw0] at this; simp [ph] at this ⊢; exact this
      · rw [hw1]; intro h6; simp [ph] at h6
      · rw [hw1]; intro h7; simp [ph] at h7
      · -- the purge comes before the final flush, but after the final pass: every cell was swapped, nothing `pre` is left
        show NoPre (s.cells.flatten ++ s.dropped)
        intro tok ht
        rcases List.mem_append.mp ht with ht | ht
        · exact hclean.flatten tok ht
        · exact h2.dropNoPre tok ht
      · exact CleanOn.map_nil _ _
      · intro tok
        rw [hw1]
        show List.count tok (delivered s.log) + List.count tok s.loop.pend + List.count tok CPc.flushPc.pend
          + List.count tok (s.cells.map fun _ => []).flatten + List.count tok (s.cells.flatten ++ s.dropped)
          = List.count tok s.issued
        have h1 := h2.cons tok
        rw [hw0] at h1
        rw [flatten_map_nil, List.count_append]
        simp only [CPc.pend, List.count_nil] at h1 ⊢
        omega
    · next hpc =>
      -- the final flush (after the purge)
      have hw := h.winner_of t (by rw [hpc]; simp [ph])
      simp only [Option.some.injEq] at hs; subst hs
      have hw0 : wpc s = .flushPc := by rw [wpc_of_winner hw, hpc]
      have hw1 : wpc { setC s t .reporterClose with log := .flush :: s.log } = .reporterClose := by simp [wpc, setC, hw]
      have hclean := h2.clean; rw [hw0] at hclean
      have hcons := h2.cons; rw [hw0] at hcons
      refine ⟨?_, ?_, ?_, h2.dropNoPre, ?_, ?_, h2.fresh, h2.nodup⟩
      · rw [hw1]; have := h2.rc; rw [hw0] at this; simp [ph] at this ⊢
        show countRC (.flush :: s.log) = 0
        exact this
      · intro _; rfl
      · rw [hw1]; intro h7; simp [ph] at h7
      · rw [hw1]; exact hclean
      · rw [hw1]; exact hcons
    · next hpc =>
      have hw := h.winner_of t (by rw [hpc]; simp [ph])
      have hw0 : wpc s = .reporterClose := by rw [wpc_of_winner hw, hpc]
      have hfl := h2.tail6 (by rw [hw0]; simp [ph])
      have hrc := h2.rc; rw [hw0] at hrc; simp [ph] at hrc
      have hclean := h2.clean; rw [hw0] at hclean
      have hcons := h2.cons; rw [hw0] at hcons
      split at hs
      · next hcl =>
        simp only [Option.some.injEq] at hs; subst hs
        have hw1 : wpc { setC s t (.returned s.err) with log := .reporterClose :: s.log, returns := (t, s.err) :: s.returns,
                                                         closeDone := true } = .returned s.err := by
          simp [wpc, setC, hw]
        refine ⟨?_, ?_, ?_, h2.dropNoPre, ?_, ?_, h2.fresh, h2.nodup⟩
        · rw [hw1]
          show countRC (.reporterClose :: s.log) = if ph (.returned s.err) = 7 ∧ s.closable = true then 1 else 0
          simp [countRC, hrc, ph, hcl]
        · rw [hw1]; intro h6; simp [ph] at h6
        · intro _
          show endsRight s.closable (.reporterClose :: s.log) = true
          cases hlog : s.log with
          | nil => rw [hlog] at hfl; simp [lastFlushed] at hfl
          | cons a l => rw [hlog] at hfl; cases a <;> simp [lastFlushed] at hfl; simp [endsRight, hcl]
        · rw [hw1]; exact hclean
        · rw [hw1]; exact hcons
      · next hcl =>
        simp only [Option.some.injEq] at hs; subst hs
        have hw1 : wpc { setC s t (.returned none) with returns := (t, none) :: s.returns, closeDone := true } = .returned none := by
          simp [wpc, setC, hw]
        refine ⟨?_, ?_, ?_, h2.dropNoPre, ?_, ?_, h2.fresh, h2.nodup⟩
        · rw [hw1]
          show countRC s.log = if ph (.returned none) = 7 ∧ s.closable = true then 1 else 0
          simp [hrc, hcl]
        · rw [hw1]; intro h6; simp [ph] at h6
        · intro _
          show endsRight s.closable s.log = true
          cases hlog : s.log with
          | nil => rw [hlog] at hfl; simp [lastFlushed] at hfl
          | cons a l => rw [hlog] at hfl; cases a <;> simp [lastFlushed] at hfl; simp [endsRight, hcl]
        · rw [hw1]; exact hclean
        · rw [hw1]; exact hcons
    · cases hs
    · cases hs
    · next hpc =>
      have hnw : s.winner ≠ some t := fun hw => by have := h.wne t hw; rw [hpc] at this; simp [ph] at this
      split at hs
      · simp only [Option.some.injEq] at hs; subst hs
        have hwp : wpc { setC s t .returnedNil with returns := (t, none) :: s.returns } = wpc s := by
          simp only [wpc, setC]; split
          · rfl
          · next w hw => have : w ≠ t := fun e => hnw (e ▸ hw); simp [this]
        exact h2.frame hwp rfl rfl rfl rfl rfl rfl rfl
      · cases hs

theorem tok_run (s s' : State) (es : List Ev) (h : Ctl s) (h2 : Tok s) (hr : run s es = some s') : Tok s' := by
  induction es generalizing s with
  | nil => simp only [run, Option.some.injEq] at hr; subst hr; exact h2
  | cons e es ih =>
    simp only [run] at hr
    split at hr
    · cases hr
    · next s1 h1 => exact ih s1 (ctl_step s s1 e h h1) (tok_step s s1 e h h2 h1) hr

end Tally.RootClose
