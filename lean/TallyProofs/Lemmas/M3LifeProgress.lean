import TallyProofs.Lemmas.M3LifeStep
/-!
Progress lemmas for the M3 life-cycle model: frame facts, the termination measure, and
"an unfinished call implies an enabled step".
-/
set_option linter.unusedSimpArgs false
set_option linter.unusedVariables false
namespace Tally.M3Life

theorem step_act_eq (s : State) (t : Nat) (pc pc' : Pc) (a : Act)
    (ht : s.thr[t]? = some pc) (hn : next s.done s.nInternal t pc = some (a, pc')) :
    step s (.act t) = (match applyAct s a with
      | .ok s' => .ok { s' with thr := s'.thr.set t pc' }
      | o => o) := by
  simp only [step, ht, hn]
  cases applyAct s a <;> rfl

theorem step_bail_eq (s : State) (t : Nat) (pc pc' : Pc)
    (ht : s.thr[t]? = some pc) (hn : nextBail pc = some pc') :
    step s (.bail t) = (match applyAct s .bail with
      | .ok s' => .ok { s' with thr := s'.thr.set t pc' }
      | o => o) := by
  simp only [step, ht, hn]
  cases applyAct s .bail <;> rfl

/-- what an action leaves alone -/
theorem applyAct_frame (s s1 : State) (a : Act) (h : applyAct s a = .ok s1) :
    s1.thr = s.thr ∧ s1.nInternal = s.nInternal ∧ s1.cap = s.cap ∧ s1.cons = s.cons ∧ s1.clock = s.clock
      ∧ s1.consumed = s.consumed ∧ s1.queue.length ≤ s.queue.length + 1 := by
  cases a <;> simp only [applyAct] at h
  case inc => cases h; simp
  case load => cases h; simp
  case send it =>
    split at h
    · cases h
    · split at h
      · cases h; simp
      · cases h
  case bail => split at h <;> cases h; simp
  case dec => cases h; simp
  case cas => cases h; simp
  case spin => split at h <;> cases h; simp
  case closeDonech => split at h <;> cases h; simp
  case closeMetch => split at h <;> cases h; simp
  case wait => split at h <;> cases h; simp

/-! ## termination measure -/

def remP : PPc → Nat
  | .start => 4 | .afterInc => 3 | .afterCheck => 2 | .finishing => 1 | .returned => 0
def remN : NPc → Nat
  | .start => 4 | .afterInc => 3 | .afterCheck => 2 | .finishing => 1

/-- an upper bound on the number of actions the call still has to execute -/
def rem (nInt : Nat) : Pc → Nat
  | .prod p => remP p
  | .fStart => 4 * nInt + 4
  | .fAfterInc => 4 * nInt + 3
  | .fNested n p => remN p + 4 * (n - 1) + 2
  | .fSending => 2
  | .fFinishing => 1
  | .fReturned => 0
  | .cStart => 5 | .cAfterCas => 4 | .cSpun => 3 | .cClosedDonech => 2 | .cClosedMetch => 1
  | .cReturned _ => 0

def wrem : WPc → Nat
  | .running => 1
  | .exited => 0

/-- every step that is not the arrival of a new call decreases this -/
def measure (s : State) : Nat :=
  2 * sumOf (rem s.nInternal) s.thr + s.queue.length + wrem s.cons + wrem s.clock

theorem rem_nextNested (nInt n : Nat) : rem nInt (nextNested n) ≤ 4 * n + 2 := by
  unfold nextNested; split
  · simp [rem]
  · simp only [rem, remN]; omega

theorem next_rem (done : Bool) (nInt t : Nat) (pc pc' : Pc) (a : Act)
    (h : next done nInt t pc = some (a, pc')) : rem nInt pc' + 1 ≤ rem nInt pc := by
  cases pc with
  | prod p =>
    cases p <;> simp only [next, Option.some.injEq, Prod.mk.injEq, reduceCtorEq] at h <;> obtain ⟨rfl, rfl⟩ := h
    · simp [rem, remP]
    · cases done <;> simp [rem, remP]
    · simp [rem, remP]
    · simp [rem, remP]
  | fStart =>
    simp only [next, Option.some.injEq, Prod.mk.injEq] at h; obtain ⟨rfl, rfl⟩ := h
    simp [rem]
  | fAfterInc =>
    simp only [next, Option.some.injEq, Prod.mk.injEq] at h; obtain ⟨rfl, rfl⟩ := h
    have := rem_nextNested nInt nInt
    have e1 : rem nInt .fAfterInc = 4 * nInt + 3 := rfl
    have e2 : rem nInt .fFinishing = 1 := rfl
    cases done
    · simp only [Bool.false_eq_true, if_false]; omega
    · simp only [if_true]; omega
  | fNested n p =>
    cases p <;> simp only [next, Option.some.injEq, Prod.mk.injEq] at h <;> obtain ⟨rfl, rfl⟩ := h
    · simp only [rem, remN]; omega
    · cases done <;> simp only [rem, remN, if_true, if_false, Bool.false_eq_true] <;> omega
    · simp only [rem, remN]; omega
    · have := rem_nextNested nInt (n - 1)
      have e1 : rem nInt (.fNested n .finishing) = 1 + 4 * (n - 1) + 2 := rfl
      omega
  | fSending =>
    simp only [next, Option.some.injEq, Prod.mk.injEq] at h; obtain ⟨rfl, rfl⟩ := h
    simp [rem]
  | fFinishing =>
    simp only [next, Option.some.injEq, Prod.mk.injEq] at h; obtain ⟨rfl, rfl⟩ := h
    simp [rem]
  | fReturned => simp [next] at h
  | cStart =>
    simp only [next, Option.some.injEq, Prod.mk.injEq] at h; obtain ⟨rfl, rfl⟩ := h
    cases done <;> simp [rem]
  | cAfterCas =>
    simp only [next, Option.some.injEq, Prod.mk.injEq] at h; obtain ⟨rfl, rfl⟩ := h
    simp [rem]
  | cSpun =>
    simp only [next, Option.some.injEq, Prod.mk.injEq] at h; obtain ⟨rfl, rfl⟩ := h
    simp [rem]
  | cClosedDonech =>
    simp only [next, Option.some.injEq, Prod.mk.injEq] at h; obtain ⟨rfl, rfl⟩ := h
    simp [rem]
  | cClosedMetch =>
    simp only [next, Option.some.injEq, Prod.mk.injEq] at h; obtain ⟨rfl, rfl⟩ := h
    simp [rem]
  | cReturned e => simp [next] at h

theorem nextBail_rem (nInt : Nat) (pc pc' : Pc) (h : nextBail pc = some pc') : rem nInt pc' + 1 ≤ rem nInt pc := by
  cases pc <;> simp only [nextBail, reduceCtorEq] at h
  case prod p =>
    cases p <;> simp only [nextBail, Option.some.injEq, reduceCtorEq] at h
    subst h; simp [rem, remP]
  case fNested n p =>
    cases p <;> simp only [nextBail, Option.some.injEq, reduceCtorEq] at h
    subst h; simp only [rem, remN]; omega

theorem measure_thread_step (s s1 : State) (t : Nat) (pc pc' : Pc)
    (ht : s.thr[t]? = some pc) (hrem : rem s.nInternal pc' + 1 ≤ rem s.nInternal pc)
    (hf : s1.thr = s.thr ∧ s1.nInternal = s.nInternal ∧ s1.cap = s.cap ∧ s1.cons = s.cons ∧ s1.clock = s.clock
      ∧ s1.consumed = s.consumed ∧ s1.queue.length ≤ s.queue.length + 1) :
    measure { s1 with thr := s1.thr.set t pc' } + 1 ≤ measure s := by
  obtain ⟨f1, f2, f3, f4, f5, f6, f7⟩ := hf
  obtain ⟨A, B, hthr, hset⟩ := split_at s.thr t pc ht
  simp only [measure, f1, f2, f4, f5, hset]
  rw [hthr]
  simp only [sumOf_append, sumOf_cons]
  omega

theorem step_frame (s s' : State) (e : Ev) (h : step s e = .ok s') :
    s'.cap = s.cap ∧ s'.nInternal = s.nInternal := by
  cases e with
  | spawn k => simp only [step, Outcome.ok.injEq] at h; subst h; simp
  | act t =>
    rcases step_act_cases s t with hd | ⟨pc, a, pc', ht, hn, hs⟩
    · rw [hd] at h; cases h
    · rw [hs] at h
      cases ha : applyAct s a with
      | ok s1 =>
        rw [ha] at h; simp only [Outcome.ok.injEq] at h; subst h
        obtain ⟨f1, f2, f3, _⟩ := applyAct_frame s s1 a ha
        exact ⟨f3, f2⟩
      | disabled => rw [ha] at h; cases h
      | panic w => rw [ha] at h; cases h
  | bail t =>
    rcases step_bail_cases s t with hd | ⟨pc, pc', ht, hn, hs⟩
    · rw [hd] at h; cases h
    · rw [hs] at h
      cases ha : applyAct s .bail with
      | ok s1 =>
        rw [ha] at h; simp only [Outcome.ok.injEq] at h; subst h
        obtain ⟨f1, f2, f3, _⟩ := applyAct_frame s s1 _ ha
        exact ⟨f3, f2⟩
      | disabled => rw [ha] at h; cases h
      | panic w => rw [ha] at h; cases h
  | consume =>
    simp only [step] at h
    split at h
    · simp only [Outcome.ok.injEq] at h; subst h; simp
    · cases h
  | consExit =>
    simp only [step] at h
    split at h
    · simp only [Outcome.ok.injEq] at h; subst h; simp
    · cases h
  | clockExit =>
    simp only [step] at h
    split at h
    · simp only [Outcome.ok.injEq] at h; subst h; simp
    · cases h

/-- **variant**: every step other than the arrival of a new call strictly decreases `measure` -/
theorem step_measure (s s' : State) (e : Ev) (hsp : isSpawn e = false) (h : step s e = .ok s') :
    measure s' + 1 ≤ measure s := by
  cases e with
  | spawn k => simp [isSpawn] at hsp
  | act t =>
    rcases step_act_cases s t with hd | ⟨pc, a, pc', ht, hn, hs⟩
    · rw [hd] at h; cases h
    · rw [hs] at h
      cases ha : applyAct s a with
      | ok s1 =>
        rw [ha] at h; simp only [Outcome.ok.injEq] at h; subst h
        exact measure_thread_step s s1 t pc pc' ht (next_rem _ _ _ _ _ _ hn) (applyAct_frame s s1 a ha)
      | disabled => rw [ha] at h; cases h
      | panic w => rw [ha] at h; cases h
  | bail t =>
    rcases step_bail_cases s t with hd | ⟨pc, pc', ht, hn, hs⟩
    · rw [hd] at h; cases h
    · rw [hs] at h
      cases ha : applyAct s .bail with
      | ok s1 =>
        rw [ha] at h; simp only [Outcome.ok.injEq] at h; subst h
        exact measure_thread_step s s1 t pc pc' ht (nextBail_rem _ _ _ hn) (applyAct_frame s s1 _ ha)
      | disabled => rw [ha] at h; cases h
      | panic w => rw [ha] at h; cases h
  | consume =>
    simp only [step] at h
    split at h
    · next it q hc hq =>
      simp only [Outcome.ok.injEq] at h; subst h
      simp only [measure, hq, List.length_cons]; omega
    · cases h
  | consExit =>
    simp only [step] at h
    split at h
    · next hc =>
      simp only [Outcome.ok.injEq] at h; subst h
      simp only [measure, hc.1, wrem]; omega
    · cases h
  | clockExit =>
    simp only [step] at h
    split at h
    · next hc =>
      simp only [Outcome.ok.injEq] at h; subst h
      simp only [measure, hc.1, wrem]; omega
    · cases h

/-! ## an unfinished call implies an enabled step -/

theorem unfinished_has_next (done : Bool) (nInt t : Nat) (pc : Pc) (h : finished pc = false) :
    ∃ a pc', next done nInt t pc = some (a, pc') := by
  cases pc <;> simp [finished] at h <;> try (simp [next])
  case prod p => cases p <;> simp [finished] at h <;> simp [next]
  case fNested n p => cases p <;> simp [next]

theorem hold_unfinished (pc : Pc) (h : hold pc ≥ 1) : finished pc = false := by
  cases pc <;> simp [hold] at h <;> try (simp [finished])
  case prod p => cases p <;> simp [holdP] at h <;> simp [finished]

theorem exists_unfinished (l : List Pc) (h : l.all finished = false) :
    ∃ (t : Nat) (pc : Pc), l[t]? = some pc ∧ finished pc = false := by
  induction l with
  | nil => simp at h
  | cons x l ih =>
    by_cases hx : finished x = false
    · exact ⟨(0 : Nat), x, by simp, hx⟩
    · have hx' : finished x = true := by simpa using hx
      simp only [List.all_cons, hx', Bool.true_and] at h
      obtain ⟨t, pc, ht, hp⟩ := ih h
      exact ⟨(t + 1 : Nat), pc, by simpa using ht, hp⟩

/-- with the queue empty and the workers not able to move, every action except a spin on a non-zero
`pending` is enabled -/
theorem act_enabled (s : State) (hI : Inv s) (t : Nat) (pc pc' : Pc) (a : Act)
    (ht : s.thr[t]? = some pc) (hn : next s.done s.nInternal t pc = some (a, pc'))
    (hq : s.queue = []) (hcap : 1 ≤ s.cap)
    (hclk : s.done = true → s.clock = .exited) (hcons : s.metChClosed = true → s.cons = .exited)
    (hspin : a = .spin → s.pending = 0) : ∃ s', step s (.act t) = .ok s' := by
  have hl := next_local _ _ _ _ _ _ hn
  obtain ⟨np, _⟩ := inv_act s hI t pc pc' a ht hl
  rw [step_act_eq s t pc pc' a ht hn]
  suffices h : ∃ s1, applyAct s a = .ok s1 by
    obtain ⟨s1, h1⟩ := h
    rw [h1]; exact ⟨_, rfl⟩
  obtain ⟨A, B, C⟩ := mkCtx s hI t pc pc' ht
  obtain ⟨hthr, hset, pend, win, dcl, mcl, quiet, waited, a1, a2, a3, a4, a5, b1, b2, b3, b4, b5,
    p1, p2, p3, p4, p5, q1, q2, q3, q4, q5, d1, d2, d3⟩ := C
  cases a with
  | inc => exact ⟨_, rfl⟩
  | load => exact ⟨_, rfl⟩
  | dec => exact ⟨_, rfl⟩
  | cas => exact ⟨_, rfl⟩
  | bail => exact absurd hl (by simp [Local])
  | send it =>
    obtain ⟨l1, l2, l2', l3, l4, l5, l6, l7, l8⟩ := hl
    have hopen : s.metChClosed = false := by
      cases hm : s.metChClosed with
      | false => rfl
      | true => have := b2n_true hm; omega
    have hroom : s.queue.length < s.cap := by rw [hq]; simp; omega
    simp only [applyAct, hopen, Bool.false_eq_true, if_false, hroom, if_true]
    exact ⟨_, rfl⟩
  | spin =>
    simp only [applyAct, hspin rfl, if_true]
    exact ⟨_, rfl⟩
  | closeDonech =>
    cases hm : s.donechClosed with
    | false => simp only [applyAct, hm, Bool.false_eq_true, if_false]; exact ⟨_, rfl⟩
    | true => exact absurd (by simp [applyAct, hm]) (np "close of closed channel")
  | closeMetch =>
    cases hm : s.metChClosed with
    | false => simp only [applyAct, hm, Bool.false_eq_true, if_false]; exact ⟨_, rfl⟩
    | true => exact absurd (by simp [applyAct, hm]) (np "close of closed channel")
  | wait =>
    obtain ⟨⟨h1', h2', h3', h4'⟩, l1, l2, l3, l4, l5, l6, l7, l8, l9, l10⟩ := hl
    have hm : s.metChClosed = true := by apply b2n_eq_one; omega
    have hd : s.done = true := by apply b2n_eq_one; omega
    simp only [applyAct, hcons hm, hclk hd, and_self, if_true]
    exact ⟨_, rfl⟩

theorem consume_enabled (s : State) (it : Item) (q : List Item) (hc : s.cons = .running) (hq : s.queue = it :: q) :
    ∃ s', step s .consume = .ok s' := by
  cases s
  simp only at hc hq
  subst hc hq
  exact ⟨_, rfl⟩

/-- **no deadlock** (state form): if some call has not returned, a step other than the arrival of a
new call is enabled -/
theorem progress (s : State) (hI : Inv s) (hcap : 1 ≤ s.cap) (hun : allReturned s = false) :
    ∃ e s', isSpawn e = false ∧ step s e = .ok s' := by
  by_cases h1 : s.cons = .running ∧ s.queue ≠ []
  · obtain ⟨hc, hq⟩ := h1
    cases hql : s.queue with
    | nil => exact absurd hql hq
    | cons it q =>
      obtain ⟨s', hs'⟩ := consume_enabled s it q hc hql
      exact ⟨.consume, s', rfl, hs'⟩
  by_cases h2 : s.clock = .running ∧ s.done = true
  · exact ⟨.clockExit, _, rfl, by simp only [step]; rw [if_pos ⟨h2.1, Or.inl h2.2⟩]⟩
  have hq : s.queue = [] := by
    cases hc : s.cons with
    | running =>
      cases hql : s.queue with
      | nil => rfl
      | cons it q => exact absurd ⟨hc, by rw [hql]; simp⟩ h1
    | exited => exact (hI.consEx hc).2
  by_cases h3 : s.cons = .running ∧ s.metChClosed = true
  · exact ⟨.consExit, _, rfl, by simp only [step]; rw [if_pos ⟨h3.1, h3.2, hq⟩]⟩
  have hclk : s.done = true → s.clock = .exited := by
    intro hd
    cases hc : s.clock with
    | running => exact absurd ⟨hc, hd⟩ h2
    | exited => rfl
  have hcons : s.metChClosed = true → s.cons = .exited := by
    intro hm
    cases hc : s.cons with
    | running => exact absurd ⟨hc, hm⟩ h3
    | exited => rfl
  obtain ⟨t, pc, ht, hf⟩ := exists_unfinished s.thr hun
  obtain ⟨a, pc', hn⟩ := unfinished_has_next s.done s.nInternal t pc hf
  by_cases hsp : a = .spin ∧ s.pending ≠ 0
  · -- the closer spins: some other call holds `pending`, and that call can move
    have hpos : sumOf hold s.thr ≥ 1 := by have := hI.pend; omega
    obtain ⟨t2, pc2, ht2, hh2⟩ := exists_pos_of_sum_pos hold s.thr hpos
    obtain ⟨a2, pc2', hn2⟩ := unfinished_has_next s.done s.nInternal t2 pc2 (hold_unfinished pc2 hh2)
    have hns : a2 = .spin → s.pending = 0 := by
      intro ha2
      have hl2 := next_local _ _ _ _ _ _ hn2
      subst ha2
      obtain ⟨⟨_, h0, _, _⟩, _⟩ := hl2
      omega
    obtain ⟨s', hs'⟩ := act_enabled s hI t2 pc2 pc2' a2 ht2 hn2 hq hcap hclk hcons hns
    exact ⟨.act t2, s', rfl, hs'⟩
  · have hns : a = .spin → s.pending = 0 := by
      intro ha
      cases hp : s.pending with
      | zero => rfl
      | succ k => exact absurd ⟨ha, by omega⟩ hsp
    obtain ⟨s', hs'⟩ := act_enabled s hI t pc pc' a ht hn hq hcap hclk hcons hns
    exact ⟨.act t, s', rfl, hs'⟩

/-! ## small list facts used by the property theorems -/

theorem mem_le_sum (f : Pc → Nat) (l : List Pc) (p : Pc) (h : p ∈ l) : f p ≤ sumOf f l := by
  induction l with
  | nil => cases h
  | cons x l ih =>
    simp only [sumOf_cons]
    rcases List.mem_cons.mp h with rfl | h'
    · omega
    · have := ih h'; omega

theorem sumOf_eq_map_sum (f : Pc → Nat) (l : List Pc) : (l.map f).sum = sumOf f l := rfl

theorem filter_unfinished_nil (l : List Pc) (h : l.all finished = true) :
    (l.filter (fun p => !finished p)).length = 0 := by
  induction l with
  | nil => rfl
  | cons x l ih =>
    simp only [List.all_cons, Bool.and_eq_true] at h
    simp [List.filter, h.1, ih h.2]

/-- once the consumer has exited nothing is consumed any more and it stays exited -/
theorem step_after_exit (s s' : State) (e : Ev) (hc : s.cons = .exited) (h : step s e = .ok s') :
    s'.cons = .exited ∧ s'.consumed = s.consumed := by
  cases e with
  | spawn k => simp only [step, Outcome.ok.injEq] at h; subst h; exact ⟨hc, rfl⟩
  | act t =>
    rcases step_act_cases s t with hd | ⟨pc, a, pc', ht, hn, hs⟩
    · rw [hd] at h; cases h
    · rw [hs] at h
      cases ha : applyAct s a with
      | ok s1 =>
        rw [ha] at h; simp only [Outcome.ok.injEq] at h; subst h
        obtain ⟨f1, f2, f3, f4, f5, f6, f7⟩ := applyAct_frame s s1 a ha
        exact ⟨by simp [f4, hc], by simp [f6]⟩
      | disabled => rw [ha] at h; cases h
      | panic w => rw [ha] at h; cases h
  | bail t =>
    rcases step_bail_cases s t with hd | ⟨pc, pc', ht, hn, hs⟩
    · rw [hd] at h; cases h
    · rw [hs] at h
      cases ha : applyAct s .bail with
      | ok s1 =>
        rw [ha] at h; simp only [Outcome.ok.injEq] at h; subst h
        obtain ⟨f1, f2, f3, f4, f5, f6, f7⟩ := applyAct_frame s s1 _ ha
        exact ⟨by simp [f4, hc], by simp [f6]⟩
      | disabled => rw [ha] at h; cases h
      | panic w => rw [ha] at h; cases h
  | consume =>
    simp only [step] at h
    split at h
    · next it q hc' hq => rw [hc] at hc'; cases hc'
    · cases h
  | consExit =>
    simp only [step] at h
    split at h
    · next hc' => rw [hc] at hc'; cases hc'.1
    · cases h
  | clockExit =>
    simp only [step] at h
    split at h
    · simp only [Outcome.ok.injEq] at h; subst h; exact ⟨hc, rfl⟩
    · cases h

end Tally.M3Life
