import Tally.Model.Statsd
import Tally.Spec.C18
import TallyProofs.Lemmas.Digits
import TallyProofs.Lemmas.Statsd
/-!
`time.Duration.String` (model `durationString`) against the spec's Go-duration parser
(`parseDuration`): the text has the bound shape and parses back to exactly the duration, for every
integer.  Consequently the renderer is injective.
-/
namespace Tally.Lemmas.Duration
open Tally Tally.Statsd Tally.Spec.C18 Tally.Lemmas.Digits Tally.Lemmas.Statsd

/-! ### fixed-width digits: what `fmtFrac`'s loop emits once it prints -/

def fixedWidth : Nat → Nat → Bytes
  | 0, _ => []
  | i + 1, v => fixedWidth i (v / 10) ++ [digitByte v]

theorem digitByte_mod (v : Nat) : digitByte (v % 10) = digitByte v := by
  unfold digitByte; rw [Nat.mod_mod]

theorem fixedWidth_length (i v : Nat) : (fixedWidth i v).length = i := by
  induction i generalizing v with
  | zero => rfl
  | succ i ih => simp [fixedWidth, ih]

theorem fixedWidth_all_digit (i v : Nat) : ∀ b ∈ fixedWidth i v, isDigit b = true := by
  induction i generalizing v with
  | zero => intro b hb; simp [fixedWidth] at hb
  | succ i ih =>
    intro b hb
    simp only [fixedWidth, List.mem_append, List.mem_singleton] at hb
    rcases hb with hb | hb
    · exact ih _ b hb
    · subst hb; exact digitByte_isDigit v

theorem mod_pow_succ (v i : Nat) : v % 10 ^ (i + 1) = (v / 10 % 10 ^ i) * 10 + v % 10 := by
  rw [Nat.pow_succ, Nat.mul_comm (10 ^ i) 10, Nat.mod_mul]
  omega

theorem parse_fixedWidth (i v k : Nat) : parseDigitsAux (fixedWidth i v) k = some (k * 10 ^ i + v % 10 ^ i) := by
  induction i generalizing v k with
  | zero => simp [fixedWidth, parseDigitsAux, Nat.mod_one]
  | succ i ih =>
    rw [fixedWidth, parseDigitsAux_append_digit, ih, mod_pow_succ]
    simp only [Option.map_some, Option.some.injEq]
    rw [Nat.pow_succ, Nat.add_mul, Nat.mul_assoc]
    omega

theorem fracLoop_true (i v : Nat) (acc : Bytes) :
    fracLoop i v true acc = (fixedWidth i v ++ acc, v / 10 ^ i, true) := by
  induction i generalizing v acc with
  | zero => simp [fracLoop, fixedWidth]
  | succ i ih =>
    rw [fracLoop]
    simp only [Bool.true_or, if_true]
    rw [ih, digitByte_mod, fixedWidth, Nat.div_div_eq_div_mul, Nat.pow_succ, Nat.mul_comm (10 ^ i) 10]
    simp

/-- the fraction text `ds` (digits after the point, trailing zeros dropped) of a remainder `r < 10^i` -/
def FracText (ds : Bytes) (i r : Nat) : Prop :=
  (r = 0 ∧ ds = []) ∨
  (ds ≠ [] ∧ (∀ b ∈ ds, isDigit b = true) ∧ ds.length ≤ i ∧
    ∃ k, parseDigitsAux ds 0 = some k ∧ k * 10 ^ (i - ds.length) = r)

theorem fracLoop_false (i v : Nat) :
    ∃ ds, fracLoop i v false [] = (ds, v / 10 ^ i, !ds.isEmpty) ∧ FracText ds i (v % 10 ^ i) := by
  induction i generalizing v with
  | zero => exact ⟨[], by simp [fracLoop], Or.inl ⟨by simp [Nat.mod_one], rfl⟩⟩
  | succ i ih =>
    rw [fracLoop]
    by_cases hd : v % 10 = 0
    · obtain ⟨ds, h1, h2⟩ := ih (v / 10)
      refine ⟨ds, ?_, ?_⟩
      · simp only [hd, Bool.false_or, bne_self_eq_false, Bool.false_eq_true, if_false]
        rw [h1, Nat.div_div_eq_div_mul, Nat.pow_succ, Nat.mul_comm (10 ^ i) 10]
      · rw [mod_pow_succ, hd]
        rcases h2 with ⟨h0, hn⟩ | ⟨hne, hdig, hlen, k, hk, hv⟩
        · exact Or.inl ⟨by omega, hn⟩
        · refine Or.inr ⟨hne, hdig, by omega, k, hk, ?_⟩
          rw [show i + 1 - ds.length = (i - ds.length) + 1 by omega, Nat.pow_succ, ← Nat.mul_assoc, hv]
          omega
    · have hne : (v % 10 != 0) = true := by simp [hd]
      simp only [hne, Bool.or_true, if_true]
      rw [fracLoop_true]
      refine ⟨fixedWidth i (v / 10) ++ [digitByte (v % 10)], ?_, Or.inr ⟨by simp, ?_, ?_, ?_⟩⟩
      · rw [Nat.div_div_eq_div_mul, Nat.pow_succ, Nat.mul_comm (10 ^ i) 10]
        simp
      · rw [digitByte_mod]; exact fixedWidth_all_digit (i + 1) v
      · simp [fixedWidth_length]
      · refine ⟨v % 10 ^ (i + 1), ?_, ?_⟩
        · rw [digitByte_mod]
          have := parse_fixedWidth (i + 1) v 0
          simpa [fixedWidth] using this
        · simp [fixedWidth_length]

/-- the text `fmtFrac` produces: nothing, or a point followed by the fraction digits -/
def fracBytes (ds : Bytes) : Bytes := if ds.isEmpty then [] else bDot :: ds

theorem fmtFrac_spec (v p : Nat) :
    ∃ ds, fmtFrac v p = (fracBytes ds, v / 10 ^ p) ∧ FracText ds p (v % 10 ^ p) := by
  obtain ⟨ds, h1, h2⟩ := fracLoop_false p v
  refine ⟨ds, ?_, h2⟩
  unfold fmtFrac fracBytes
  rw [h1]
  cases ds <;> simp

/-! ### units -/

theorem parseUnit_ns (r : Bytes) : parseUnit (uN :: uS :: r) = some (1, r) := by
  simp [parseUnit, uN, uS]

theorem parseUnit_us (r : Bytes) : parseUnit (uMicro ++ uS :: r) = some (1000, r) := by
  simp [parseUnit, uMicro, uS]

theorem parseUnit_ms (r : Bytes) : parseUnit (uM :: uS :: r) = some (1000000, r) := by
  simp [parseUnit, uM, uS]

theorem parseUnit_s (r : Bytes) : parseUnit (uS :: r) = some (1000000000, r) := by
  simp [parseUnit, uS]

theorem parseUnit_h (r : Bytes) : parseUnit (uH :: r) = some (3600000000000, r) := by
  simp [parseUnit, uH]

theorem parseUnit_m (b : UInt8) (t : Bytes) (hb : isDigit b = true) :
    parseUnit (uM :: b :: t) = some (60000000000, b :: t) := by
  have h115 : b ≠ 115 := isDigit_ne hb 115 (Or.inr (by decide))
  unfold parseUnit
  split <;> simp_all [uM]

/-! ### one `ddd(.ddd)?unit` segment -/

theorem parseFrac_nodot (b : UInt8) (l : Bytes) (hb : b ≠ dot) : parseFrac (b :: l) = some ([], b :: l) := by
  unfold parseFrac
  split
  · next r' heq =>
    simp only [List.cons.injEq] at heq
    exact absurd heq.1 hb
  · rfl

theorem pow_split (k p len : Nat) (hlen : len ≤ p) : k * 10 ^ p = k * 10 ^ (p - len) * 10 ^ len := by
  rw [Nat.mul_assoc, ← Nat.pow_add, Nat.sub_add_cancel hlen]

/-- value of one segment: what `parseSegs` does on `digits(a) ++ frac ++ unit ++ rest` -/
theorem parseSegs_seg (fuel a p U : Nat) (ds : Bytes) (r : Nat) (b : UInt8) (t rest : Bytes) (acc : Nat)
    (hfuel : 0 < fuel)
    (hf : FracText ds p r) (hU : ds = [] ∨ U = 10 ^ p)
    (hb : isDigit b = false) (hbd : b ≠ dot)
    (hu : parseUnit (b :: t ++ rest) = some (U, rest)) :
    parseSegs fuel (natDigits a ++ (fracBytes ds ++ (b :: t ++ rest))) acc =
      if rest.isEmpty then some (acc + a * U + r) else parseSegs (fuel - 1) rest (acc + a * U + r) := by
  obtain ⟨f, rfl⟩ : ∃ f, fuel = f + 1 := ⟨fuel - 1, by omega⟩
  have hdig : ∀ x ∈ natDigits a, isDigit x = true := natDigits_all_digit a
  rw [parseSegs]
  rcases hf with ⟨hr, hds⟩ | ⟨hne, hdd, hlen, k, hk, hv⟩
  · subst hds
    have hsp := span_stop (p := isDigit) (natDigits a) b (t ++ rest) hdig hb
    simp only [fracBytes, List.isEmpty_nil, if_true, List.nil_append, List.cons_append] at hsp ⊢
    rw [hsp.1, hsp.2, parseDigits_natDigits, parseFrac_nodot b _ hbd]
    simp only [List.cons_append] at hu
    simp only [hu, parseDigitsAux, Option.getD_some, List.length_nil, Nat.pow_zero, Nat.zero_mul,
      Nat.zero_mod, bne_self_eq_false, Bool.false_eq_true, if_false, Nat.zero_div, Nat.add_zero, hr,
      Nat.add_sub_cancel]
  · have hU' : U = 10 ^ p := by
      rcases hU with h | h
      · exact absurd h hne
      · exact h
    have hfb : fracBytes ds = dot :: ds := by
      unfold fracBytes
      cases ds with
      | nil => exact absurd rfl hne
      | cons _ _ => rfl
    have hdot : isDigit dot = false := by decide
    have hsp := span_stop (p := isDigit) (natDigits a) dot (ds ++ (b :: t ++ rest)) hdig hdot
    have hsp2 := span_stop (p := isDigit) ds b (t ++ rest) hdd hb
    rw [hfb]
    simp only [List.cons_append] at hsp hsp2 hu ⊢
    rw [hsp.1, hsp.2, parseDigits_natDigits]
    have hpf : parseFrac (dot :: (ds ++ b :: (t ++ rest))) = some (ds, b :: (t ++ rest)) := by
      have : (46 : UInt8) = dot := rfl
      unfold parseFrac
      simp only [dot, hsp2.1, hsp2.2]
      cases ds with
      | nil => exact absurd rfl hne
      | cons _ _ => rfl
    rw [hpf]
    have hpos : 0 < 10 ^ ds.length := Nat.pow_pos (by decide)
    have hsplit := pow_split k p ds.length hlen
    simp only [hu, hk, Option.getD_some, hU']
    rw [hsplit, Nat.mul_mod_left, Nat.mul_div_cancel _ hpos, hv]
    simp

/-! ### whole texts -/

theorem subsec (fuel u p : Nat) (b : UInt8) (t : Bytes) (acc : Nat) (hfuel : 0 < fuel)
    (hb : isDigit b = false) (hbd : b ≠ dot) (hu : parseUnit (b :: t) = some (10 ^ p, [])) :
    parseSegs fuel (let (f, v) := fmtFrac u p; natDigits v ++ f ++ (b :: t)) acc = some (acc + u) := by
  obtain ⟨ds, hfm, hft⟩ := fmtFrac_spec u p
  simp only [hfm]
  have := parseSegs_seg fuel (u / 10 ^ p) p (10 ^ p) ds (u % 10 ^ p) b t [] acc
    hfuel hft (Or.inr rfl) hb hbd (by simpa using hu)
  simp only [List.append_nil, List.isEmpty_nil, if_true] at this
  rw [List.append_assoc, this]
  have := Nat.div_add_mod u (10 ^ p)
  rw [Nat.mul_comm] at this
  simp only [Option.some.injEq]
  omega

theorem seg_secs (fuel a r : Nat) (ds : Bytes) (acc : Nat) (hfuel : 0 < fuel) (hft : FracText ds 9 r) :
    parseSegs fuel (natDigits a ++ fracBytes ds ++ [uS]) acc = some (acc + a * 1000000000 + r) := by
  have := parseSegs_seg fuel a 9 (10 ^ 9) ds r uS [] [] acc hfuel hft (Or.inr rfl) (by decide) (by decide)
    (by simpa using parseUnit_s [])
  simp only [List.append_nil, List.isEmpty_nil, if_true] at this
  rw [List.append_assoc, this]

theorem seg_plain (fuel a U : Nat) (b : UInt8) (rest : Bytes) (acc : Nat) (hfuel : 0 < fuel)
    (hb : isDigit b = false) (hbd : b ≠ dot) (hrest : rest ≠ [])
    (hu : parseUnit (b :: rest) = some (U, rest)) :
    parseSegs fuel (natDigits a ++ [b] ++ rest) acc = parseSegs (fuel - 1) rest (acc + a * U) := by
  have := parseSegs_seg fuel a 0 U [] 0 b [] rest acc hfuel (Or.inl ⟨rfl, rfl⟩) (Or.inl rfl) hb hbd
    (by simpa using hu)
  have hne : rest.isEmpty = false := by cases rest <;> simp_all
  simp only [fracBytes, List.isEmpty_nil, if_true, List.nil_append, List.cons_append, hne,
    Bool.false_eq_true, if_false, Nat.add_zero] at this
  rw [List.append_assoc]
  simpa using this

theorem hms (fuel u : Nat) (hu : 1000000000 ≤ u) (hfuel : (durationMag u).length ≤ fuel) :
    parseSegs fuel (durationMag u) 0 = some u := by
  obtain ⟨ds, hfm, hft⟩ := fmtFrac_spec u 9
  unfold durationMag at hfuel ⊢
  simp only [show ¬ u < 1000000000 by omega, if_false, hfm] at hfuel ⊢
  have hdm := Nat.div_add_mod u (10 ^ 9)
  generalize u / 10 ^ 9 = v at *
  generalize u % 10 ^ 9 = r at *
  have hsecs : ∀ x, (natDigits x ++ fracBytes ds ++ [uS]) ≠ [] ∧
      ∃ b t, natDigits x ++ fracBytes ds ++ [uS] = b :: t ∧ isDigit b = true := by
    intro x
    cases hx : natDigits x with
    | nil => exact absurd hx (natDigits_ne_nil x)
    | cons b t =>
      have : isDigit b = true := natDigits_all_digit x b (by simp [hx])
      exact ⟨by simp, b, t ++ fracBytes ds ++ [uS], by simp, this⟩
  have hl1 := natDigits_length_pos (v / 60 / 60)
  have hl2 := natDigits_length_pos (v / 60 % 60)
  have hl3 := natDigits_length_pos (v % 60)
  by_cases h1 : v / 60 > 0
  · by_cases h2 : v / 60 / 60 > 0
    · simp only [h1, h2, if_true, List.length_append, List.length_cons, List.length_nil] at hfuel ⊢
      obtain ⟨b, t, hbt, hbd⟩ := (hsecs (v % 60)).2
      have hm : ∀ x, ∃ b' t', natDigits x ++ [uM] ++ (natDigits (v % 60) ++ fracBytes ds ++ [uS]) = b' :: t' := by
        intro x
        cases hx : natDigits x with
        | nil => exact absurd hx (natDigits_ne_nil x)
        | cons b' t' => exact ⟨b', t' ++ [uM] ++ (natDigits (v % 60) ++ fracBytes ds ++ [uS]), by simp⟩
      rw [seg_plain fuel _ 3600000000000 uH _ 0 (by omega) (by decide) (by decide)
        (by obtain ⟨b', t', h⟩ := hm (v / 60 % 60); rw [h]; simp) (parseUnit_h _)]
      rw [seg_plain (fuel - 1) _ 60000000000 uM _ _ (by omega) (by decide) (by decide) (hsecs _).1
        (by rw [hbt]; exact parseUnit_m b t hbd)]
      rw [seg_secs _ _ r ds _ (by omega) hft]
      simp only [Option.some.injEq]
      simp only [Nat.reducePow] at hdm
      omega
    · simp only [h1, h2, if_true, if_false, List.length_append, List.length_cons, List.length_nil] at hfuel ⊢
      obtain ⟨b, t, hbt, hbd⟩ := (hsecs (v % 60)).2
      rw [seg_plain fuel _ 60000000000 uM _ _ (by omega) (by decide) (by decide) (hsecs _).1
        (by rw [hbt]; exact parseUnit_m b t hbd)]
      rw [seg_secs _ _ r ds _ (by omega) hft]
      simp only [Option.some.injEq]
      simp only [Nat.reducePow] at hdm
      omega
  · simp only [h1, if_false, List.length_append, List.length_cons, List.length_nil] at hfuel ⊢
    rw [seg_secs _ _ r ds _ (by omega) hft]
    simp only [Option.some.injEq]
    simp only [Nat.reducePow] at hdm
    omega

/-! ### shape of the magnitude text -/

theorem fracBytes_noDash {ds : Bytes} {p r : Nat} (h : FracText ds p r) : noDash (fracBytes ds) := by
  unfold fracBytes
  split
  · exact noDash_nil
  · rcases h with ⟨_, hn⟩ | ⟨_, hd, _⟩
    · subst hn; exact noDash_cons (by decide) noDash_nil
    · exact noDash_cons (by decide) (fun b hb => digit_ne_dash (hd b hb))

theorem fmtFrac_noDash (v p : Nat) : noDash (fmtFrac v p).1 := by
  obtain ⟨ds, h1, h2⟩ := fmtFrac_spec v p
  rw [h1]; exact fracBytes_noDash h2

theorem noDash_list (l : Bytes) (h : l.all (· != dash) = true) : noDash l := by
  intro b hb
  have := List.all_eq_true.mp h b hb
  simpa using this

/-- the magnitude text starts with a digit and contains no `-` -/
theorem durationMag_shape (u : Nat) :
    noDash (durationMag u) ∧ ∃ b t, durationMag u = b :: t ∧ isDigit b = true := by
  have hd : ∀ x (rest : Bytes), ∃ b t, natDigits x ++ rest = b :: t ∧ isDigit b = true := by
    intro x rest
    cases hx : natDigits x with
    | nil => exact absurd hx (natDigits_ne_nil x)
    | cons b t => exact ⟨b, t ++ rest, by simp, natDigits_all_digit x b (by simp [hx])⟩
  have hU : noDash [uS] := noDash_list _ (by decide)
  unfold durationMag
  split
  · split
    · exact ⟨noDash_list _ (by decide), 48, [uS], rfl, by decide⟩
    · split
      · have := fmtFrac_noDash u 0
        constructor
        · exact noDash_append (noDash_append (natDigits_noDash _) this) (noDash_list _ (by decide))
        · simp only [List.append_assoc]; exact hd _ _
      · split
        · have := fmtFrac_noDash u 3
          constructor
          · exact noDash_append (noDash_append (noDash_append (natDigits_noDash _) this)
              (noDash_list _ (by decide))) hU
          · simp only [List.append_assoc]; exact hd _ _
        · have := fmtFrac_noDash u 6
          constructor
          · exact noDash_append (noDash_append (natDigits_noDash _) this) (noDash_list _ (by decide))
          · simp only [List.append_assoc]; exact hd _ _
  · have hf := fmtFrac_noDash u 9
    have hM : noDash [uM] := noDash_list _ (by decide)
    have hH : noDash [uH] := noDash_list _ (by decide)
    have hs : noDash (natDigits ((fmtFrac u 9).2 % 60) ++ (fmtFrac u 9).1 ++ [uS]) :=
      noDash_append (noDash_append (natDigits_noDash _) hf) hU
    simp only
    split
    · split
      · constructor
        · exact noDash_append (noDash_append (natDigits_noDash _) hH)
            (noDash_append (noDash_append (natDigits_noDash _) hM) hs)
        · simp only [List.append_assoc]; exact hd _ _
      · constructor
        · exact noDash_append (noDash_append (natDigits_noDash _) hM) hs
        · simp only [List.append_assoc]; exact hd _ _
    · exact ⟨hs, by simp only [List.append_assoc]; exact hd _ _⟩

theorem parse_durationMag (fuel u : Nat) (hfuel : (durationMag u).length ≤ fuel) :
    parseSegs fuel (durationMag u) 0 = some u := by
  have hpos : 0 < fuel := by
    obtain ⟨_, b, t, h, _⟩ := durationMag_shape u
    rw [h] at hfuel; simp at hfuel; omega
  by_cases h9 : 1000000000 ≤ u
  · exact hms fuel u h9 hfuel
  · unfold durationMag at hfuel ⊢
    simp only [show u < 1000000000 by omega, if_true] at hfuel ⊢
    by_cases h0 : u = 0
    · subst h0
      obtain ⟨f, rfl⟩ : ∃ f, fuel = f + 1 := ⟨fuel - 1, by omega⟩
      simp [parseSegs, parseDigits, parseDigitsAux, parseFrac, parseUnit, uS, isDigit]
    · simp only [h0, if_false] at hfuel ⊢
      split
      · have := subsec fuel u 0 uN [uS] 0 hpos (by decide) (by decide) (by simpa using parseUnit_ns [])
        simpa using this
      · split
        · have := subsec fuel u 3 0xC2 [0xB5, uS] 0 hpos (by decide) (by decide) (by simpa [uMicro] using parseUnit_us [])
          simpa [uMicro] using this
        · have := subsec fuel u 6 uM [uS] 0 hpos (by decide) (by decide) (by simpa using parseUnit_ms [])
          simpa using this

/-- **`Duration.String` parses back** to the duration, for every integer -/
theorem parseDuration_durationString (d : Int) : parseDuration (durationString d) = some d := by
  obtain ⟨_, b, t, hbt, hb⟩ := durationMag_shape d.natAbs
  unfold durationString
  split
  · next hneg =>
    have : parseDuration (bDash :: durationMag d.natAbs)
        = (parseSegs (durationMag d.natAbs).length (durationMag d.natAbs) 0).map fun (n : Nat) => -(n : Int) := rfl
    rw [this, parse_durationMag _ _ (Nat.le_refl _)]
    simp
    omega
  · next hpos =>
    have hb45 : b ≠ 45 := isDigit_ne hb 45 (Or.inl (by decide))
    have : parseDuration (durationMag d.natAbs)
        = (parseSegs (durationMag d.natAbs).length (durationMag d.natAbs) 0).map fun (n : Nat) => (n : Int) := by
      rw [hbt]
      unfold parseDuration
      split
      · next t' heq => simp only [List.cons.injEq] at heq; exact absurd heq.1 hb45
      · rfl
    rw [this, parse_durationMag _ _ (Nat.le_refl _)]
    simp
    omega

/-- **shape of `Duration.String`** -/
theorem durationString_shape (d : Int) : shapeOk (durationString d) = true := by
  obtain ⟨hnd, b, t, hbt, _⟩ := durationMag_shape d.natAbs
  have hne : durationMag d.natAbs ≠ [] := by rw [hbt]; simp
  unfold durationString
  split
  · exact shapeOk_dash_cons hne hnd
  · exact shapeOk_of_noDash hne hnd

end Tally.Lemmas.Duration
