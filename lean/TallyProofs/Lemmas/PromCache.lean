import TallyProofs.Lemmas.Prom
/-! The reporter's caches only grow, and a cached vector of the right flavour makes every later
first use with the same name and tag keys succeed. -/
namespace Tally.Prom
open Tally

structure Grows (r r' : Reporter) : Prop where
  counters : ∀ key f, lookupKey r.counters key = some f → lookupKey r'.counters key = some f
  gauges : ∀ key f, lookupKey r.gauges key = some f → lookupKey r'.gauges key = some f
  timers : ∀ key e, lookupKey r.timers key = some e → lookupKey r'.timers key = some e

theorem Grows.refl (r : Reporter) : Grows r r := ⟨fun _ _ h => h, fun _ _ h => h, fun _ _ h => h⟩

theorem Grows.trans {a b c : Reporter} (h1 : Grows a b) (h2 : Grows b c) : Grows a c :=
  ⟨fun k f h => h2.counters k f (h1.counters k f h), fun k f h => h2.gauges k f (h1.gauges k f h),
   fun k e h => h2.timers k e (h1.timers k e h)⟩

theorem Grows.of_static {a b : Reporter} (h : SameStatic b a) : Grows a b :=
  ⟨by rw [h.counters]; exact fun _ _ h => h, by rw [h.gauges]; exact fun _ _ h => h,
   by rw [h.timers]; exact fun _ _ h => h⟩

theorem lookup_cons_stable (l : List (MetricKey × α)) (k0 : MetricKey) (a0 : α) (hnone : lookupKey l k0 = none)
    (key : MetricKey) (a : α) (h : lookupKey l key = some a) : lookupKey ((k0, a0) :: l) key = some a := by
  rw [lookupKey_cons]
  split
  · next hk => subst hk; rw [hnone] at h; cases h
  · exact h

theorem counterVec_grows (r : Reporter) (name : Bytes) (keys : List Bytes) : Grows r (counterVec r name keys).1 := by
  unfold counterVec
  split
  · exact Grows.refl r
  · next hnone =>
    dsimp only
    split
    · exact Grows.refl r
    · exact ⟨fun key f h => lookup_cons_stable _ _ _ hnone key f h, fun _ _ h => h, fun _ _ h => h⟩

theorem counterVecD_grows (r : Reporter) (name : Bytes) (keys : List Bytes) (desc : Bytes) :
    Grows r (counterVecD r name keys desc).1 := by
  unfold counterVecD
  split
  · exact Grows.refl r
  · next hnone =>
    dsimp only
    split
    · exact Grows.refl r
    · exact ⟨fun key f h => lookup_cons_stable _ _ _ hnone key f h, fun _ _ h => h, fun _ _ h => h⟩

theorem gaugeVec_grows (r : Reporter) (name : Bytes) (keys : List Bytes) : Grows r (gaugeVec r name keys).1 := by
  unfold gaugeVec
  split
  · exact Grows.refl r
  · next hnone =>
    dsimp only
    split
    · exact Grows.refl r
    · exact ⟨fun _ _ h => h, fun key f h => lookup_cons_stable _ _ _ hnone key f h, fun _ _ h => h⟩

theorem gaugeVecD_grows (r : Reporter) (name : Bytes) (keys : List Bytes) (desc : Bytes) :
    Grows r (gaugeVecD r name keys desc).1 := by
  unfold gaugeVecD
  split
  · exact Grows.refl r
  · next hnone =>
    dsimp only
    split
    · exact Grows.refl r
    · exact ⟨fun _ _ h => h, fun key f h => lookup_cons_stable _ _ _ hnone key f h, fun _ _ h => h⟩

theorem summaryVec_grows (v : Variant) (r : Reporter) (name : Bytes) (keys : List Bytes) :
    Grows r (summaryVec v r name keys).1 := by
  unfold summaryVec
  split
  · exact Grows.refl r
  · next hnone =>
    dsimp only
    split
    · exact Grows.refl r
    · exact ⟨fun _ _ h => h, fun _ _ h => h, fun key f h => lookup_cons_stable _ _ _ hnone key f h⟩

theorem histogramVec_grows (v : Variant) (r : Reporter) (name : Bytes) (keys : List Bytes) (bs : List F64) :
    Grows r (histogramVec v r name keys bs).1 := by
  unfold histogramVec
  split
  · exact Grows.refl r
  · next hnone =>
    dsimp only
    split
    · exact Grows.refl r
    · exact ⟨fun _ _ h => h, fun _ _ h => h, fun key f h => lookup_cons_stable _ _ _ hnone key f h⟩

theorem vecFor_grows (cfg : Cfg) (r : Reporter) (kind : UseKind) (name : Bytes) (keys : List Bytes) :
    Grows r (vecFor cfg r kind name keys).1 := by
  cases kind with
  | counter => exact counterVec_grows r name keys
  | gauge => exact gaugeVec_grows r name keys
  | timer =>
    simp only [vecFor]
    split
    · exact histogramVec_grows _ r name keys _
    · exact summaryVec_grows _ r name keys
  | timerAs h =>
    cases h
    · exact summaryVec_grows _ r name keys
    · exact histogramVec_grows _ r name keys _
  | histogram spec => exact histogramVec_grows _ r name keys _
  | counterAs => exact counterVec_grows r name keys
  | gaugeAs => exact gaugeVec_grows r name keys
  | counterAsD desc => exact counterVecD_grows r name keys desc
  | gaugeAsD desc => exact gaugeVecD_grows r name keys desc

theorem finish_static_alloc (cfg : Cfg) (p : Reporter × VecResult) (tags : Tags) : Grows p.1 (finishAlloc cfg p tags).1 := by
  obtain ⟨r1, res⟩ := p
  cases res with
  | err e => exact ⟨fun _ _ h => h, fun _ _ h => h, fun _ _ h => h⟩
  | vec o =>
    cases o with
    | none => exact Grows.refl _
    | some f => exact Grows.of_static (withSeries_static r1 f tags)

theorem finish_static_register (p : Reporter × VecResult) (tags : Tags) : Grows p.1 (finishRegister p tags).1 := by
  obtain ⟨r1, res⟩ := p
  cases res with
  | err e => exact Grows.refl _
  | vec o =>
    cases o with
    | none => exact Grows.refl _
    | some f => exact Grows.of_static (withSeries_static r1 f tags)

theorem useMetric_grows (cfg : Cfg) (r : Reporter) (kind : UseKind) (name : Bytes) (tags : Tags) :
    Grows r (useMetric cfg r kind name tags).1 := by
  rw [useMetric_eq]
  split
  · exact (vecFor_grows cfg r kind name _).trans (finish_static_register _ tags)
  · exact (vecFor_grows cfg r kind name _).trans (finish_static_alloc cfg _ tags)

theorem step_grows (cfg : Cfg) (w : World) (ev : Ev) : Grows w.rep (step cfg w ev).rep := by
  cases ev with
  | op i e =>
    simp only [step]
    split
    · exact Grows.refl _
    · exact Grows.of_static (apply_static w i e)
  | pass => exact Grows.of_static (passFrom_static w _)
  | use kind name tags => exact useMetric_grows cfg w.rep kind name tags

theorem foldl_grows (cfg : Cfg) (evs : List Ev) (w : World) : Grows w.rep (evs.foldl (step cfg) w).rep := by
  induction evs generalizing w with
  | nil => exact Grows.refl _
  | cons e t ih => exact (step_grows cfg w e).trans (ih _)

/-- the cache holds a vector of the flavour a first use of this kind asks for -/
def Hit (cfg : Cfg) (r : Reporter) (kind : UseKind) (key : MetricKey) : Prop :=
  match Spec.C17.typeOf cfg.histTimers kind with
  | .counter => ∃ f, lookupKey r.counters key = some f
  | .gauge => ∃ f, lookupKey r.gauges key = some f
  | .summary => ∃ e f, lookupKey r.timers key = some e ∧ e.summary = some f
  | .histogram => ∃ e f, lookupKey r.timers key = some e ∧ e.histogram = some f

theorem Hit.grows {cfg : Cfg} {r r' : Reporter} {kind : UseKind} {key : MetricKey} (h : Hit cfg r kind key)
    (g : Grows r r') : Hit cfg r' kind key := by
  unfold Hit at h ⊢
  split at h
  · obtain ⟨f, hf⟩ := h; exact ⟨f, g.counters _ _ hf⟩
  · obtain ⟨f, hf⟩ := h; exact ⟨f, g.gauges _ _ hf⟩
  · obtain ⟨e, f, he, hf⟩ := h; exact ⟨e, f, g.timers _ _ he, hf⟩
  · obtain ⟨e, f, he, hf⟩ := h; exact ⟨e, f, g.timers _ _ he, hf⟩

theorem hitResult_of_some (v : Variant) (f : Family) : hitResult v (some f) = .vec (some f) := by
  cases v <;> rfl

/-- what a vector getter returns on a hit of the right flavour, and that a usable result leaves one -/
theorem vecFor_hit (cfg : Cfg) (r : Reporter) (kind : UseKind) (name : Bytes) (keys : List Bytes)
    (h : Hit cfg r kind (name, keys)) : ∃ f, vecFor cfg r kind name keys = (r, .vec (some f)) := by
  unfold Hit at h
  cases kind with
  | counter =>
    simp only [Spec.C17.typeOf] at h
    obtain ⟨f, hf⟩ := h
    exact ⟨f, by simp [vecFor, counterVec, hf]⟩
  | gauge =>
    simp only [Spec.C17.typeOf] at h
    obtain ⟨f, hf⟩ := h
    exact ⟨f, by simp [vecFor, gaugeVec, hf]⟩
  | timer =>
    simp only [Spec.C17.typeOf] at h
    cases hh : cfg.histTimers with
    | true =>
      simp only [hh, if_true] at h
      obtain ⟨e, f, he, hf⟩ := h
      exact ⟨f, by simp [vecFor, hh, histogramVec, he, hf, hitResult_of_some]⟩
    | false =>
      simp only [hh] at h
      obtain ⟨e, f, he, hf⟩ := h
      exact ⟨f, by simp [vecFor, hh, summaryVec, he, hf, hitResult_of_some]⟩
  | timerAs b =>
    cases b with
    | true =>
      simp only [Spec.C17.typeOf, if_true] at h
      obtain ⟨e, f, he, hf⟩ := h
      exact ⟨f, by simp [vecFor, histogramVec, he, hf, hitResult_of_some]⟩
    | false =>
      simp only [Spec.C17.typeOf] at h
      obtain ⟨e, f, he, hf⟩ := h
      exact ⟨f, by simp [vecFor, summaryVec, he, hf, hitResult_of_some]⟩
  | histogram spec =>
    simp only [Spec.C17.typeOf] at h
    obtain ⟨e, f, he, hf⟩ := h
    exact ⟨f, by simp [vecFor, histogramVec, he, hf, hitResult_of_some]⟩
  | counterAs =>
    simp only [Spec.C17.typeOf] at h
    obtain ⟨f, hf⟩ := h
    exact ⟨f, by simp [vecFor, counterVec, hf]⟩
  | gaugeAs =>
    simp only [Spec.C17.typeOf] at h
    obtain ⟨f, hf⟩ := h
    exact ⟨f, by simp [vecFor, gaugeVec, hf]⟩
  | counterAsD desc =>
    simp only [Spec.C17.typeOf] at h
    obtain ⟨f, hf⟩ := h
    exact ⟨f, by simp [vecFor, counterVecD, hf]⟩
  | gaugeAsD desc =>
    simp only [Spec.C17.typeOf] at h
    obtain ⟨f, hf⟩ := h
    exact ⟨f, by simp [vecFor, gaugeVecD, hf]⟩

theorem hit_usable (cfg : Cfg) (r : Reporter) (kind : UseKind) (name : Bytes) (tags : Tags)
    (h : Hit cfg r kind (name, keysOf tags)) : ∃ k, (useMetric cfg r kind name tags).2 = .usable k := by
  obtain ⟨f, hf⟩ := vecFor_hit cfg r kind name _ h
  rw [useMetric_eq, hf]
  split
  · exact ⟨_, rfl⟩
  · exact ⟨_, rfl⟩


theorem counterVec_some_hit (r : Reporter) (name : Bytes) (keys : List Bytes) (f : Family)
    (h : (counterVec r name keys).2 = .vec (some f)) : ∃ f', lookupKey (counterVec r name keys).1.counters (name, keys) = some f' := by
  cases hl : lookupKey r.counters (name, keys) with
  | some f0 => exact ⟨f0, by simp [counterVec, hl]⟩
  | none =>
    cases hr : register r.reg (mkFamily name keys .counter []) with
    | err e => simp [counterVec, hl, hr] at h
    | ok reg' => exact ⟨mkFamily name keys .counter [], by simp [counterVec, hl, hr, lookupKey_cons]⟩

theorem counterVecD_some_hit (r : Reporter) (name : Bytes) (keys : List Bytes) (desc : Bytes) (f : Family)
    (h : (counterVecD r name keys desc).2 = .vec (some f)) :
    ∃ f', lookupKey (counterVecD r name keys desc).1.counters (name, keys) = some f' := by
  cases hl : lookupKey r.counters (name, keys) with
  | some f0 => exact ⟨f0, by simp [counterVecD, hl]⟩
  | none =>
    cases hr : register r.reg (mkFamilyD name keys .counter [] desc) with
    | err e => simp [counterVecD, hl, hr] at h
    | ok reg' => exact ⟨mkFamilyD name keys .counter [] desc, by simp [counterVecD, hl, hr, lookupKey_cons]⟩

theorem gaugeVec_some_hit (r : Reporter) (name : Bytes) (keys : List Bytes) (f : Family)
    (h : (gaugeVec r name keys).2 = .vec (some f)) : ∃ f', lookupKey (gaugeVec r name keys).1.gauges (name, keys) = some f' := by
  cases hl : lookupKey r.gauges (name, keys) with
  | some f0 => exact ⟨f0, by simp [gaugeVec, hl]⟩
  | none =>
    cases hr : register r.reg (mkFamily name keys .gauge []) with
    | err e => simp [gaugeVec, hl, hr] at h
    | ok reg' => exact ⟨mkFamily name keys .gauge [], by simp [gaugeVec, hl, hr, lookupKey_cons]⟩

theorem gaugeVecD_some_hit (r : Reporter) (name : Bytes) (keys : List Bytes) (desc : Bytes) (f : Family)
    (h : (gaugeVecD r name keys desc).2 = .vec (some f)) :
    ∃ f', lookupKey (gaugeVecD r name keys desc).1.gauges (name, keys) = some f' := by
  cases hl : lookupKey r.gauges (name, keys) with
  | some f0 => exact ⟨f0, by simp [gaugeVecD, hl]⟩
  | none =>
    cases hr : register r.reg (mkFamilyD name keys .gauge [] desc) with
    | err e => simp [gaugeVecD, hl, hr] at h
    | ok reg' => exact ⟨mkFamilyD name keys .gauge [] desc, by simp [gaugeVecD, hl, hr, lookupKey_cons]⟩

theorem summaryVec_some_hit (v : Variant) (r : Reporter) (name : Bytes) (keys : List Bytes) (f : Family)
    (h : (summaryVec v r name keys).2 = .vec (some f)) :
    ∃ e f', lookupKey (summaryVec v r name keys).1.timers (name, keys) = some e ∧ e.summary = some f' := by
  cases hl : lookupKey r.timers (name, keys) with
  | some e =>
    simp only [summaryVec, hl] at h
    exact ⟨e, f, by simp [summaryVec, hl], hitResult_some _ _ _ h⟩
  | none =>
    cases hr : register r.reg (mkFamily name keys .summary []) with
    | err e => simp [summaryVec, hl, hr] at h
    | ok reg' => exact ⟨{ summary := some (mkFamily name keys .summary []), histogram := none }, mkFamily name keys .summary [],
        by simp [summaryVec, hl, hr, lookupKey_cons], rfl⟩

theorem histogramVec_some_hit (v : Variant) (r : Reporter) (name : Bytes) (keys : List Bytes) (bs : List F64) (f : Family)
    (h : (histogramVec v r name keys bs).2 = .vec (some f)) :
    ∃ e f', lookupKey (histogramVec v r name keys bs).1.timers (name, keys) = some e ∧ e.histogram = some f' := by
  cases hl : lookupKey r.timers (name, keys) with
  | some e =>
    simp only [histogramVec, hl] at h
    exact ⟨e, f, by simp [histogramVec, hl], hitResult_some _ _ _ h⟩
  | none =>
    cases hr : register r.reg (mkFamily name keys .histogram bs) with
    | err e => simp [histogramVec, hl, hr] at h
    | ok reg' => exact ⟨{ summary := none, histogram := some (mkFamily name keys .histogram bs) }, mkFamily name keys .histogram bs,
        by simp [histogramVec, hl, hr, lookupKey_cons], rfl⟩

theorem vecFor_some_hit (cfg : Cfg) (r : Reporter) (kind : UseKind) (name : Bytes) (keys : List Bytes) (f : Family)
    (h : (vecFor cfg r kind name keys).2 = .vec (some f)) : Hit cfg (vecFor cfg r kind name keys).1 kind (name, keys) := by
  unfold Hit
  cases kind with
  | counter => simpa [Spec.C17.typeOf, vecFor] using counterVec_some_hit r name keys f h
  | gauge => simpa [Spec.C17.typeOf, vecFor] using gaugeVec_some_hit r name keys f h
  | timer =>
    cases hh : cfg.histTimers with
    | true =>
      simp only [vecFor, hh, if_true] at h ⊢
      simpa [Spec.C17.typeOf, hh] using histogramVec_some_hit _ r name keys _ f h
    | false =>
      simp only [vecFor, hh] at h ⊢
      simpa [Spec.C17.typeOf, hh] using summaryVec_some_hit _ r name keys f h
  | timerAs b =>
    cases b with
    | true => simpa [Spec.C17.typeOf, vecFor] using histogramVec_some_hit _ r name keys _ f h
    | false => simpa [Spec.C17.typeOf, vecFor] using summaryVec_some_hit _ r name keys f h
  | histogram spec => simpa [Spec.C17.typeOf, vecFor] using histogramVec_some_hit _ r name keys _ f h
  | counterAs => simpa [Spec.C17.typeOf, vecFor] using counterVec_some_hit r name keys f h
  | gaugeAs => simpa [Spec.C17.typeOf, vecFor] using gaugeVec_some_hit r name keys f h
  | counterAsD desc => simpa [Spec.C17.typeOf, vecFor] using counterVecD_some_hit r name keys desc f h
  | gaugeAsD desc => simpa [Spec.C17.typeOf, vecFor] using gaugeVecD_some_hit r name keys desc f h

/-- a first use that returned a usable metric leaves a cached vector of its flavour behind -/
theorem usable_hit (cfg : Cfg) (r : Reporter) (kind : UseKind) (name : Bytes) (tags : Tags)
    (h : ∃ k, (useMetric cfg r kind name tags).2 = .usable k) :
    Hit cfg (useMetric cfg r kind name tags).1 kind (name, keysOf tags) := by
  obtain ⟨k, hk⟩ := h
  rw [useMetric_eq] at hk ⊢
  have key : ∀ p : Reporter × VecResult, p = vecFor cfg r kind name (keysOf tags) →
      ((finishRegister p tags).2 = .usable k ∨ (finishAlloc cfg p tags).2 = .usable k) → ∃ f, p.2 = .vec (some f) := by
    intro p _ hp
    obtain ⟨r1, res⟩ := p
    cases res with
    | err e =>
      rcases hp with hp | hp
      · cases hp
      · simp only [finishAlloc] at hp; split at hp <;> cases hp
    | vec o =>
      cases o with
      | none => rcases hp with hp | hp <;> cases hp
      | some f => exact ⟨f, rfl⟩
  split at hk
  · next hreg =>
    obtain ⟨f, hf⟩ := key _ rfl (Or.inl hk)
    simp only [hreg, if_true]
    exact (vecFor_some_hit cfg r kind name _ f hf).grows (finish_static_register _ tags)
  · next hreg =>
    obtain ⟨f, hf⟩ := key _ rfl (Or.inr hk)
    simp only [hreg]
    exact (vecFor_some_hit cfg r kind name _ f hf).grows (finish_static_alloc cfg _ tags)

/-! ### a vector pre-registered through `RegisterCounter` / `RegisterGauge` is the one `Allocate*` finds -/

theorem counterVec_cached (r : Reporter) (name : Bytes) (keys : List Bytes) (f : Family)
    (h : (counterVec r name keys).2 = .vec (some f)) :
    lookupKey (counterVec r name keys).1.counters (name, keys) = some f := by
  cases hl : lookupKey r.counters (name, keys) with
  | some f0 =>
    simp only [counterVec, hl] at h ⊢
    injection h
  | none =>
    cases hr : register r.reg (mkFamily name keys .counter []) with
    | err e => simp [counterVec, hl, hr] at h
    | ok reg' =>
      simp only [counterVec, hl, hr, VecResult.vec.injEq, Option.some.injEq] at h ⊢
      simp [lookupKey_cons, h]

theorem counterVecD_cached (r : Reporter) (name : Bytes) (keys : List Bytes) (desc : Bytes) (f : Family)
    (h : (counterVecD r name keys desc).2 = .vec (some f)) :
    lookupKey (counterVecD r name keys desc).1.counters (name, keys) = some f := by
  cases hl : lookupKey r.counters (name, keys) with
  | some f0 =>
    simp only [counterVecD, hl] at h ⊢
    injection h
  | none =>
    cases hr : register r.reg (mkFamilyD name keys .counter [] desc) with
    | err e => simp [counterVecD, hl, hr] at h
    | ok reg' =>
      simp only [counterVecD, hl, hr, VecResult.vec.injEq, Option.some.injEq] at h ⊢
      simp [lookupKey_cons, h]

theorem gaugeVec_cached (r : Reporter) (name : Bytes) (keys : List Bytes) (f : Family)
    (h : (gaugeVec r name keys).2 = .vec (some f)) :
    lookupKey (gaugeVec r name keys).1.gauges (name, keys) = some f := by
  cases hl : lookupKey r.gauges (name, keys) with
  | some f0 =>
    simp only [gaugeVec, hl] at h ⊢
    injection h
  | none =>
    cases hr : register r.reg (mkFamily name keys .gauge []) with
    | err e => simp [gaugeVec, hl, hr] at h
    | ok reg' =>
      simp only [gaugeVec, hl, hr, VecResult.vec.injEq, Option.some.injEq] at h ⊢
      simp [lookupKey_cons, h]

theorem gaugeVecD_cached (r : Reporter) (name : Bytes) (keys : List Bytes) (desc : Bytes) (f : Family)
    (h : (gaugeVecD r name keys desc).2 = .vec (some f)) :
    lookupKey (gaugeVecD r name keys desc).1.gauges (name, keys) = some f := by
  cases hl : lookupKey r.gauges (name, keys) with
  | some f0 =>
    simp only [gaugeVecD, hl] at h ⊢
    injection h
  | none =>
    cases hr : register r.reg (mkFamilyD name keys .gauge [] desc) with
    | err e => simp [gaugeVecD, hl, hr] at h
    | ok reg' =>
      simp only [gaugeVecD, hl, hr, VecResult.vec.injEq, Option.some.injEq] at h ⊢
      simp [lookupKey_cons, h]

/-- a usable result of `Register*` + `With(tags)`: the vector came back, its series key is `k`, and
`With` left the caches alone -/
theorem finishRegister_usable (p : Reporter × VecResult) (tags : Tags) (k : SeriesKey)
    (h : (finishRegister p tags).2 = .usable k) :
    ∃ f, p.2 = .vec (some f) ∧ k = ⟨f.name, tags⟩ ∧ SameStatic (finishRegister p tags).1 p.1 := by
  obtain ⟨r1, res⟩ := p
  cases res with
  | err e => cases h
  | vec o =>
    cases o with
    | none => cases h
    | some f =>
      simp only [finishRegister, Outcome.usable.injEq] at h
      exact ⟨f, rfl, h.symm, withSeries_static r1 f tags⟩

/-- `AllocateCounter` on a cached vector: no registration, no error, the vector's series -/
theorem counter_use_of_cached (cfg : Cfg) (r : Reporter) (name : Bytes) (tags : Tags) (f : Family)
    (h : lookupKey r.counters (name, keysOf tags) = some f) :
    useMetric cfg r .counter name tags = (withSeries r f tags, .usable ⟨f.name, tags⟩) := by
  simp [useMetric, counterVec, h, finishAlloc]

theorem gauge_use_of_cached (cfg : Cfg) (r : Reporter) (name : Bytes) (tags : Tags) (f : Family)
    (h : lookupKey r.gauges (name, keysOf tags) = some f) :
    useMetric cfg r .gauge name tags = (withSeries r f tags, .usable ⟨f.name, tags⟩) := by
  simp [useMetric, gaugeVec, h, finishAlloc]

end Tally.Prom
