import TallyProofs.Lemmas.Prom
import TallyProofs.Lemmas.PromLocal
import TallyProofs.Lemmas.PromCache
/-! Two tally metric objects reporting into ONE Prometheus series (the same `(kind, name, tags)`
first-used twice): the joint life of the two objects and their series (`localRun2`), its simulation
inside a run (`sim2`, `life2`), and what it computes for counters and gauges. -/
namespace Tally.Prom
open Tally

/-! ### the joint life of two objects and one series -/

/-- events on a pair of metric objects sharing a series: an event on the first (the one with the
smaller index), an event on the second, a report pass (first object, then second object) -/
inductive LEv2
  | fst (e : LEv)
  | snd (e : LEv)
  | pass
  deriving DecidableEq, Repr

def localRun2 (mi mj : Metric) (v : Val) : List LEv2 → Metric × Metric × Val
  | [] => (mi, mj, v)
  | .fst e :: t => localRun2 (localStep mi v e).1 mj (localStep mi v e).2 t
  | .snd e :: t => localRun2 mi (localStep mj v e).1 (localStep mj v e).2 t
  | .pass :: t =>
    localRun2 (localStep mi v .pass).1 (localStep mj (localStep mi v .pass).2 .pass).1
      (localStep mj (localStep mi v .pass).2 .pass).2 t

theorem localRun2_append (mi mj : Metric) (v : Val) (a b : List LEv2) :
    localRun2 mi mj v (a ++ b)
      = localRun2 (localRun2 mi mj v a).1 (localRun2 mi mj v a).2.1 (localRun2 mi mj v a).2.2 b := by
  induction a generalizing mi mj v with
  | nil => rfl
  | cons e t ih => cases e <;> simp only [List.cons_append, localRun2, ih]

/-- an event of one object's own life seen as an event of the pair (it is the first object's) -/
def lift1 : LEv → LEv2
  | .pass => .pass
  | e => .fst e

/-- while the second object is fresh (a pass delivers nothing from it), the pair lives the first
object's life -/
theorem localRun2_lift1 (mi mj : Metric) (v : Val) (l : List LEv)
    (hfresh : ∀ v', localStep mj v' .pass = (mj, v')) :
    localRun2 mi mj v (l.map lift1) = ((localRun mi v l).1, mj, (localRun mi v l).2) := by
  induction l generalizing mi v with
  | nil => rfl
  | cons e t ih =>
    cases e with
    | pass => simp only [List.map_cons, lift1, localRun2, localRun, hfresh, ih]
    | inc n => simp only [List.map_cons, lift1, localRun2, localRun, ih]
    | update n => simp only [List.map_cons, lift1, localRun2, localRun, ih]
    | record n => simp only [List.map_cons, lift1, localRun2, localRun, ih]
    | sample n => simp only [List.map_cons, lift1, localRun2, localRun, ih]

/-- the events of a history that concern the objects `i` (first) and `j` (second), in order -/
def proj2 (i j : Nat) : List Ev → List LEv2
  | [] => []
  | .op a e :: t =>
    if e = .pass then proj2 i j t
    else if a = i then .fst e :: proj2 i j t
    else if a = j then .snd e :: proj2 i j t
    else proj2 i j t
  | .pass :: t => .pass :: proj2 i j t
  | .use _ _ _ :: t => proj2 i j t

theorem proj2_append (i j : Nat) (a b : List Ev) : proj2 i j (a ++ b) = proj2 i j a ++ proj2 i j b := by
  induction a with
  | nil => rfl
  | cons e t ih =>
    cases e with
    | use _ _ _ => simpa [proj2] using ih
    | op a e =>
      simp only [List.cons_append, proj2]
      split
      · exact ih
      · split
        · simp [ih]
        · split
          · simp [ih]
          · exact ih
    | pass => simp [proj2, ih]

/-- the joint history of the pair: object `i` alone during `mid` (object `j` does not exist yet),
both during `post` -/
def joint (i j : Nat) (mid post : List Ev) : List LEv2 := (proj i mid).map lift1 ++ proj2 i j post

theorem joint_append (i j : Nat) (mid a b : List Ev) : joint i j mid (a ++ b) = joint i j mid a ++ proj2 i j b := by
  unfold joint
  rw [proj2_append, List.append_assoc]

/-! ### frame properties -/

theorem apply_metrics_other (w : World) (i a : Nat) (e : LEv) (h : a ≠ i) :
    (w.apply i e).metrics[a]? = w.metrics[a]? := by
  have h' : ¬ i = a := fun e' => h e'.symm
  unfold World.apply
  split
  · rfl
  · split
    · split
      · simp only
        rw [setAt_get]; simp [h']
      · rfl
    · simp only
      rw [setAt_get]; simp [h']

/-- no metric object other than `i` and `j` reports into series `k` -/
def Owns2 (w : World) (i j : Nat) (k : SeriesKey) : Prop :=
  ∀ a, a ≠ i → a ≠ j → (w.metrics[a]?).map Metric.handle ≠ some (.series k)

theorem owns2_apply (w : World) (i j a : Nat) (e : LEv) (k : SeriesKey) (h : Owns2 w i j k) :
    Owns2 (w.apply a e) i j k := by
  intro a' h1 h2
  rw [apply_handle]
  exact h a' h1 h2

theorem owns2_passFrom (w : World) (l : List Nat) (i j : Nat) (k : SeriesKey) (h : Owns2 w i j k) :
    Owns2 (w.passFrom l) i j k := by
  intro a' h1 h2
  rw [passFrom_handle]
  exact h a' h1 h2

/-- a pass over increasing indices delivers object `i`, then object `j` -/
theorem passFrom_sim2 (l : List Nat) (hs : l.Pairwise (· < ·)) (i j : Nat) (hij : i < j) (k : SeriesKey) :
    ∀ (w : World) (mi mj : Metric) (v : Val),
      w.metrics[i]? = some mi → w.metrics[j]? = some mj → mi.handle = .series k → mj.handle = .series k →
      getS w.rep.series k = some v → Owns2 w i j k →
      (w.passFrom l).metrics[i]? = some (if i ∈ l then (localStep mi v .pass).1 else mi)
      ∧ (w.passFrom l).metrics[j]?
          = some (if j ∈ l then (localStep mj (if i ∈ l then (localStep mi v .pass).2 else v) .pass).1 else mj)
      ∧ getS (w.passFrom l).rep.series k
          = some (if j ∈ l then (localStep mj (if i ∈ l then (localStep mi v .pass).2 else v) .pass).2
                  else (if i ∈ l then (localStep mi v .pass).2 else v)) := by
  have hne : i ≠ j := Nat.ne_of_lt hij
  induction l with
  | nil => intro w mi mj v hmi hmj _ _ hv _; simp [World.passFrom, hmi, hmj, hv]
  | cons a t ih =>
    intro w mi mj v hmi hmj hhi hhj hv hown
    obtain ⟨hlt, hs'⟩ := List.pairwise_cons.mp hs
    simp only [World.passFrom]
    by_cases hai : a = i
    · subst hai
      have hnt : a ∉ t := fun hm => Nat.lt_irrefl _ (hlt a hm)
      obtain ⟨h1, h2⟩ := apply_self w a .pass mi k v hmi hhi hv
      have h3 : (w.apply a .pass).metrics[j]? = some mj := by
        rw [apply_metrics_other w a j .pass (fun e => hne e.symm)]; exact hmj
      have := ih hs' (w.apply a .pass) _ mj _ h1 h3 (by rw [localStep_handle]; exact hhi) hhj h2
        (owns2_apply w a j a .pass k hown)
      have hja : ¬ j = a := fun e => hne e.symm
      simpa [hnt, hja] using this
    · by_cases haj : a = j
      · subst haj
        have hnt : a ∉ t := fun hm => Nat.lt_irrefl _ (hlt a hm)
        have hit : i ∉ t := fun hm => Nat.lt_asymm hij (hlt i hm)
        obtain ⟨h1, h2⟩ := apply_self w a .pass mj k v hmj hhj hv
        have h3 : (w.apply a .pass).metrics[i]? = some mi := by
          rw [apply_metrics_other w a i .pass hne]; exact hmi
        have := ih hs' (w.apply a .pass) mi _ _ h3 h1 hhi (by rw [localStep_handle]; exact hhj) h2
          (owns2_apply w i a a .pass k hown)
        simpa [hnt, hit, hne] using this
      · obtain ⟨h1, h2⟩ := apply_other w i a .pass k hai (hown a hai haj)
        obtain ⟨h3, _⟩ := apply_other w j a .pass k haj (hown a hai haj)
        have := ih hs' (w.apply a .pass) mi mj v (by rw [h1]; exact hmi) (by rw [h3]; exact hmj) hhi hhj
          (by rw [h2]; exact hv) (owns2_apply w i j a .pass k hown)
        have hia : ¬ i = a := fun e => hai e.symm
        have hja : ¬ j = a := fun e => haj e.symm
        simpa [hia, hja] using this

/-- a first use of another `(name, tags)` appends one object that does not report into `k` and
leaves the series `k` alone -/
theorem step_use_frame (cfg : Cfg) (us : List Use) (w : World) (kind : UseKind) (name : Bytes) (tags : Tags)
    (k : SeriesKey) (hinv : Inv cfg us w) (hkne : (⟨name, tags⟩ : SeriesKey) ≠ k) :
    ∃ m', (step cfg w (.use kind name tags)).metrics = w.metrics ++ [m'] ∧ m'.handle ≠ .series k
      ∧ getS (step cfg w (.use kind name tags)).rep.series k = getS w.rep.series k := by
  have hc : CacheOk cfg (us ++ [(kind, name, tags)]) w.rep := hinv.cache.mono (fun u hu => List.mem_append_left _ hu)
  have hs := useMetric_spec cfg (us ++ [(kind, name, tags)]) w.rep kind name tags (by simp) hc
  simp only [step]
  generalize useMetric cfg w.rep kind name tags = p at hs
  obtain ⟨r', o⟩ := p
  refine ⟨_, rfl, ?_, ?_⟩
  · cases o with
    | usable k' =>
      obtain ⟨hkk, _⟩ := hs.usable k' rfl
      intro e
      have : Handle.series k' = Handle.series k := by
        rw [← e]; cases kind <;> rfl
      injection this with this
      exact hkne (by rw [← hkk]; exact this)
    | noop => intro e; cases kind <;> cases e
    | callbackPanic => intro e; cases e
    | regError e' => intro e; cases e
    | nilDeref => intro e; cases e
  · simp only
    by_cases hu : ∃ k', o = .usable k'
    · obtain ⟨k', hk'⟩ := hu
      obtain ⟨hkk, f, _, _, hser⟩ := hs.usable k' hk'
      simp only at hser
      rw [hser, seriesAfter_get_other _ _ _ _ hkne]
    · have := hs.other (fun k' e => hu ⟨k', e⟩)
      simp only at this
      rw [this]

/-- a further first use of a `(name, tags)` whose series exists, if usable, appends one fresh
object reporting into that series and leaves all series as they are -/
theorem step_use_again (cfg : Cfg) (us : List Use) (w : World) (kind : UseKind) (name : Bytes) (tags : Tags)
    (v : Val) (k0 : SeriesKey) (hinv : Inv cfg us w) (hv : getS w.rep.series ⟨name, tags⟩ = some v)
    (hk0 : (useMetric cfg w.rep kind name tags).2 = .usable k0) :
    (step cfg w (.use kind name tags)).metrics = w.metrics ++ [newMetric kind (.series ⟨name, tags⟩)]
    ∧ (step cfg w (.use kind name tags)).rep.series = w.rep.series := by
  have hc : CacheOk cfg (us ++ [(kind, name, tags)]) w.rep := hinv.cache.mono (fun u hu => List.mem_append_left _ hu)
  have hs := useMetric_spec cfg (us ++ [(kind, name, tags)]) w.rep kind name tags (by simp) hc
  obtain ⟨hk, f, _, _, hser⟩ := hs.usable k0 hk0
  subst hk
  constructor
  · simp only [step, hk0]
  · have : (step cfg w (.use kind name tags)).rep = (useMetric cfg w.rep kind name tags).1 := rfl
    rw [this, hser]
    unfold seriesAfter
    rw [hv]

/-! ### simulation -/

theorem sim2 (cfg : Cfg) (i j : Nat) (hij : i < j) (k : SeriesKey) (post : List Ev) :
    ∀ (us : List Use) (w : World) (mi mj : Metric) (v : Val),
      Inv cfg us w → w.metrics[i]? = some mi → w.metrics[j]? = some mj →
      mi.handle = .series k → mj.handle = .series k → getS w.rep.series k = some v → Owns2 w i j k →
      (∀ kind name tags, Ev.use kind name tags ∈ post → (⟨name, tags⟩ : SeriesKey) ≠ k) →
      (post.foldl (step cfg) w).metrics[i]? = some (localRun2 mi mj v (proj2 i j post)).1
        ∧ (post.foldl (step cfg) w).metrics[j]? = some (localRun2 mi mj v (proj2 i j post)).2.1
        ∧ getS (post.foldl (step cfg) w).rep.series k = some (localRun2 mi mj v (proj2 i j post)).2.2 := by
  have hne : i ≠ j := Nat.ne_of_lt hij
  induction post with
  | nil => intro us w mi mj v _ hmi hmj _ _ hv _ _; exact ⟨hmi, hmj, hv⟩
  | cons ev t ih =>
    intro us w mi mj v hinv hmi hmj hhi hhj hv hown hnu
    have hinv' := inv_step cfg us w ev hinv
    have hnu' : ∀ kind name tags, Ev.use kind name tags ∈ t → (⟨name, tags⟩ : SeriesKey) ≠ k :=
      fun kind name tags hmem => hnu kind name tags (List.mem_cons_of_mem _ hmem)
    have hi : i < w.metrics.length := by
      rcases Nat.lt_or_ge i w.metrics.length with h | h
      · exact h
      · rw [List.getElem?_eq_none h] at hmi; cases hmi
    have hj : j < w.metrics.length := by
      rcases Nat.lt_or_ge j w.metrics.length with h | h
      · exact h
      · rw [List.getElem?_eq_none h] at hmj; cases hmj
    simp only [List.foldl_cons]
    cases ev with
    | op a e =>
      simp only [proj2]
      by_cases hp : e = .pass
      · subst hp
        simp only [step, if_true] at hinv' ⊢
        exact ih _ w mi mj v hinv' hmi hmj hhi hhj hv hown hnu'
      · simp only [step, hp, if_false] at hinv' ⊢
        by_cases hai : a = i
        · subst hai
          simp only [if_true, localRun2]
          obtain ⟨h1, h2⟩ := apply_self w a e mi k v hmi hhi hv
          have h3 : (w.apply a e).metrics[j]? = some mj := by
            rw [apply_metrics_other w a j e (fun e' => hne e'.symm)]; exact hmj
          exact ih _ (w.apply a e) _ mj _ hinv' h1 h3 (by rw [localStep_handle]; exact hhi) hhj h2
            (owns2_apply w a j a e k hown) hnu'
        · by_cases haj : a = j
          · subst haj
            simp only [hai, if_false, if_true, localRun2]
            obtain ⟨h1, h2⟩ := apply_self w a e mj k v hmj hhj hv
            have h3 : (w.apply a e).metrics[i]? = some mi := by
              rw [apply_metrics_other w a i e hne]; exact hmi
            exact ih _ (w.apply a e) mi _ _ hinv' h3 h1 hhi (by rw [localStep_handle]; exact hhj) h2
              (owns2_apply w i a a e k hown) hnu'
          · simp only [hai, haj, if_false]
            obtain ⟨h1, h2⟩ := apply_other w i a e k hai (hown a hai haj)
            obtain ⟨h3, _⟩ := apply_other w j a e k haj (hown a hai haj)
            exact ih _ (w.apply a e) mi mj v hinv' (by rw [h1]; exact hmi) (by rw [h3]; exact hmj) hhi hhj
              (by rw [h2]; exact hv) (owns2_apply w i j a e k hown) hnu'
    | pass =>
      simp only [proj2, localRun2, step] at hinv' ⊢
      obtain ⟨h1, h2, h3⟩ := passFrom_sim2 (List.range w.metrics.length) List.pairwise_lt_range i j hij k w mi mj v
        hmi hmj hhi hhj hv hown
      have hmi' : i ∈ List.range w.metrics.length := List.mem_range.mpr hi
      have hmj' : j ∈ List.range w.metrics.length := List.mem_range.mpr hj
      simp only [hmi', hmj', if_true] at h1 h2 h3
      exact ih _ _ _ _ _ hinv' h1 h2 (by rw [localStep_handle]; exact hhi) (by rw [localStep_handle]; exact hhj) h3
        (owns2_passFrom w _ i j k hown) hnu'
    | use kind name tags =>
      simp only [proj2]
      have hkne : (⟨name, tags⟩ : SeriesKey) ≠ k := hnu kind name tags (List.mem_cons_self ..)
      obtain ⟨m', hmet, hh', hser⟩ := step_use_frame cfg us w kind name tags k hinv hkne
      apply ih _ _ mi mj v hinv'
      · rw [hmet, List.getElem?_append_left hi]; exact hmi
      · rw [hmet, List.getElem?_append_left hj]; exact hmj
      · exact hhi
      · exact hhj
      · rw [hser]; exact hv
      · intro a ha1 ha2
        rw [hmet]
        rcases Nat.lt_or_ge a w.metrics.length with hal | hal
        · rw [List.getElem?_append_left hal]; exact hown a ha1 ha2
        · rw [List.getElem?_append_right hal]
          rcases Nat.eq_zero_or_pos (a - w.metrics.length) with h0 | h0
          · rw [h0]
            simp only [List.getElem?_cons_zero, Option.map_some, ne_eq, Option.some.injEq]
            exact hh'
          · rw [List.getElem?_eq_none (by simp; omega)]; simp
      · exact hnu'

theorem localRun_handle (m : Metric) (v : Val) (l : List LEv) (h : Handle) (hm : m.handle = h) :
    (localRun m v l).1.handle = h := by
  induction l generalizing m v with
  | nil => exact hm
  | cons e t ih => exact ih _ _ (by rw [localStep_handle]; exact hm)

/-- in a world whose first uses so far have distinct `(name, tags)`, only the object of a first use
reports into that use's series -/
theorem owns_of_inv (cfg : Cfg) (us : List Use) (w : World) (i : Nat) (u : Use) (hinv : Inv cfg us w)
    (hnd : (us.map (·.2)).Nodup) (hu : us[i]? = some u) : Owns w i ⟨u.2.1, u.2.2⟩ := by
  intro a ha e
  cases hm : w.metrics[a]? with
  | none => rw [hm] at e; cases e
  | some m =>
    rw [hm] at e
    simp only [Option.map_some, Option.some.injEq] at e
    rcases hinv.handles a m hm with h | ⟨u', hu', h⟩
    · rw [h] at e; cases e
    · rw [h] at e
      injection e with e
      injection e with e1 e2
      have hal : a < (us.map (·.2)).length := by
        rw [List.length_map]
        rcases Nat.lt_or_ge a us.length with h' | h'
        · exact h'
        · rw [List.getElem?_eq_none h'] at hu'; cases hu'
      have heq : (us.map (·.2))[a]? = (us.map (·.2))[i]? := by
        rw [List.getElem?_map, List.getElem?_map, hu', hu]
        simp only [Option.map_some, Option.some.injEq]
        exact Prod.ext e1 e2
      exact ha ((List.getElem?_inj hal hnd).mp heq)

/-- **simulation for an aliased pair**: the `(kind, name, tags)` first-used after `pre` (usable) is
first-used once more after `mid`; no other first use has this `(name, tags)`.  The second first use
is usable as well, both objects report into the one series, and the series lives the joint life
`localRun2` describes, starting from the zero series of the vector's family. -/
theorem life2 (cfg : Cfg) (pre mid post : List Ev) (kind : UseKind) (name : Bytes) (tags : Tags)
    (hfresh : ∀ v', localStep (newMetric kind (.series ⟨name, tags⟩)) v' .pass
      = (newMetric kind (.series ⟨name, tags⟩), v'))
    (hd : ((usesOf (pre ++ [.use kind name tags] ++ mid ++ post)).map (·.2)).Nodup)
    (hu : ∃ k, (useMetric cfg (run cfg pre).rep kind name tags).2 = .usable k) :
    (∃ k, (useMetric cfg (run cfg (pre ++ [.use kind name tags] ++ mid)).rep kind name tags).2 = .usable k)
    ∧ ∃ f : Family, f.kind = Spec.C17.typeOf cfg.histTimers kind
      ∧ getS (run cfg (pre ++ [.use kind name tags] ++ mid ++ [.use kind name tags] ++ post)).rep.series ⟨name, tags⟩
        = some (localRun2 (newMetric kind (.series ⟨name, tags⟩)) (newMetric kind (.series ⟨name, tags⟩)) (Val.zero f)
            (joint (usesOf pre).length (usesOf (pre ++ [.use kind name tags] ++ mid)).length mid post)).2.2 := by
  -- the second first use finds the cached vector
  have hu2 : ∃ k, (useMetric cfg (run cfg (pre ++ [.use kind name tags] ++ mid)).rep kind name tags).2 = .usable k := by
    apply hit_usable
    have h1 : Hit cfg (step cfg (run cfg pre) (.use kind name tags)).rep kind (name, keysOf tags) := by
      simp only [step]
      exact usable_hit cfg (run cfg pre).rep kind name tags hu
    rw [run_append, run_append]
    simp only [List.foldl_cons, List.foldl_nil]
    exact h1.grows (foldl_grows cfg mid _)
  refine ⟨hu2, ?_⟩
  -- up to the second first use: one object, one series
  have hd0 : ((usesOf (pre ++ [.use kind name tags] ++ mid)).map (·.2) ++ (usesOf post).map (·.2)).Nodup := by
    rw [← List.map_append, ← usesOf_append]; exact hd
  have hd1 : ((usesOf (pre ++ [.use kind name tags] ++ mid)).map (·.2)).Nodup := (List.nodup_append.mp hd0).1
  obtain ⟨f, hfk, _, hmi, hser⟩ := life cfg pre mid kind name tags hd1 hu
  have hinv1 := inv_run cfg (pre ++ [.use kind name tags] ++ mid)
  have hui : (usesOf (pre ++ [.use kind name tags] ++ mid))[(usesOf pre).length]? = some (kind, name, tags) := by
    simp [usesOf_append, usesOf]
  have hown1 := owns_of_inv cfg _ _ (usesOf pre).length _ hinv1 hd1 hui
  simp only at hown1
  -- the second first use
  obtain ⟨k0, hk0⟩ := hu2
  obtain ⟨hmet, hser2⟩ := step_use_again cfg _ _ kind name tags _ k0 hinv1 hser hk0
  have hinv2 := inv_step cfg _ _ (.use kind name tags) hinv1
  have hlen := hinv1.len
  have hilt : (usesOf pre).length < (usesOf (pre ++ [.use kind name tags] ++ mid)).length := by
    simp [usesOf_append, usesOf]
  refine ⟨f, hfk, ?_⟩
  have hrun : run cfg (pre ++ [.use kind name tags] ++ mid ++ [.use kind name tags] ++ post)
      = post.foldl (step cfg) (step cfg (run cfg (pre ++ [.use kind name tags] ++ mid)) (.use kind name tags)) := by
    rw [run_append, run_append]; rfl
  rw [hrun]
  have hpost : ∀ kind' name' tags', Ev.use kind' name' tags' ∈ post → (⟨name', tags'⟩ : SeriesKey) ≠ ⟨name, tags⟩ := by
    intro kind' name' tags' hmem e
    have h1 := mem_usesOf _ _ _ _ hmem
    have h2 : (name, tags) ∈ (usesOf (pre ++ [.use kind name tags] ++ mid)).map (·.2) :=
      List.mem_map.mpr ⟨_, List.mem_of_getElem? hui, rfl⟩
    have h3 : (name', tags') ∈ (usesOf post).map (·.2) := List.mem_map.mpr ⟨_, h1, rfl⟩
    injection e with e1 e2
    exact (List.nodup_append.mp hd0).2.2 _ h2 _ h3 (by rw [e1, e2])
  have hnm : (newMetric kind (.series ⟨name, tags⟩)).handle = .series ⟨name, tags⟩ := by cases kind <;> rfl
  have hA : (step cfg (run cfg (pre ++ [.use kind name tags] ++ mid)) (.use kind name tags)).metrics[(usesOf pre).length]?
      = some (localRun (newMetric kind (.series ⟨name, tags⟩)) (Val.zero f) (proj (usesOf pre).length mid)).1 := by
    rw [hmet, List.getElem?_append_left (by rw [hlen]; exact hilt)]; exact hmi
  have hB : (step cfg (run cfg (pre ++ [.use kind name tags] ++ mid)) (.use kind name tags)).metrics[
        (usesOf (pre ++ [.use kind name tags] ++ mid)).length]? = some (newMetric kind (.series ⟨name, tags⟩)) := by
    rw [hmet, ← hlen, List.getElem?_append_right (Nat.le_refl _)]; simp
  have hC : getS (step cfg (run cfg (pre ++ [.use kind name tags] ++ mid)) (.use kind name tags)).rep.series ⟨name, tags⟩
      = some (localRun (newMetric kind (.series ⟨name, tags⟩)) (Val.zero f) (proj (usesOf pre).length mid)).2 := by
    rw [hser2]; exact hser
  have hD : Owns2 (step cfg (run cfg (pre ++ [.use kind name tags] ++ mid)) (.use kind name tags)) (usesOf pre).length
      (usesOf (pre ++ [.use kind name tags] ++ mid)).length ⟨name, tags⟩ := by
    intro a ha1 ha2
    rw [hmet]
    rcases Nat.lt_or_ge a (run cfg (pre ++ [.use kind name tags] ++ mid)).metrics.length with hal | hal
    · rw [List.getElem?_append_left hal]; exact hown1 a ha1
    · rw [List.getElem?_append_right hal]
      rcases Nat.eq_zero_or_pos (a - (run cfg (pre ++ [.use kind name tags] ++ mid)).metrics.length) with h0 | h0
      · exact absurd (by omega) ha2
      · rw [List.getElem?_eq_none (by simp only [List.length_cons, List.length_nil]; omega)]; simp
  obtain ⟨_, _, h3⟩ := sim2 cfg (usesOf pre).length (usesOf (pre ++ [.use kind name tags] ++ mid)).length hilt
    ⟨name, tags⟩ post _ _ _ _ _ hinv2 hA hB (localRun_handle _ _ _ _ hnm) hnm hC hD hpost
  rw [h3]
  unfold joint
  rw [localRun2_append, localRun2_lift1 _ _ _ _ hfresh]

/-! ### two counters, one series -/

def incOf : LEv → Nat
  | .inc n => n
  | _ => 0

/-- sum of the increments made through either object -/
def incSum2 : List LEv2 → Nat
  | [] => 0
  | .fst e :: t => incOf e + incSum2 t
  | .snd e :: t => incOf e + incSum2 t
  | .pass :: t => incSum2 t

theorem incSum_cons (e : LEv) (t : List LEv) : Spec.C17.incSum (e :: t) = incOf e + Spec.C17.incSum t := by
  cases e <;> simp [Spec.C17.incSum, incOf]

theorem incSum_append (a b : List LEv) : Spec.C17.incSum (a ++ b) = Spec.C17.incSum a + Spec.C17.incSum b := by
  induction a with
  | nil => simp [Spec.C17.incSum]
  | cons e t ih => rw [List.cons_append, incSum_cons, incSum_cons, ih]; omega

theorem incSum2_append (a b : List LEv2) : incSum2 (a ++ b) = incSum2 a + incSum2 b := by
  induction a with
  | nil => simp [incSum2]
  | cons e t ih => cases e <;> simp only [List.cons_append, incSum2, ih] <;> omega

theorem incSum2_lift1 (l : List LEv) : incSum2 (l.map lift1) = Spec.C17.incSum l := by
  induction l with
  | nil => rfl
  | cons e t ih => cases e <;> simp [lift1, incSum2, incOf, Spec.C17.incSum, ih]

theorem incSum2_proj2 (i j : Nat) (hne : i ≠ j) (l : List Ev) :
    incSum2 (proj2 i j l) = Spec.C17.incSum (proj i l) + Spec.C17.incSum (proj j l) := by
  induction l with
  | nil => rfl
  | cons ev t ih =>
    cases ev with
    | use _ _ _ => simpa [proj2, proj] using ih
    | pass => simpa [proj2, proj, incSum2, Spec.C17.incSum] using ih
    | op a e =>
      simp only [proj2, proj]
      by_cases hp : e = .pass
      · simp only [hp, if_true, ne_eq, not_true_eq_false, and_false, if_false]; exact ih
      · simp only [hp, if_false, ne_eq, not_false_eq_true, and_true]
        by_cases hai : a = i
        · have haj : ¬ a = j := fun e' => hne (hai.symm.trans e')
          simp only [hai, if_true, incSum2, incSum_cons, ih]
          have hij : ¬ i = j := hne
          simp only [hij, if_false]; omega
        · by_cases haj : a = j
          · have hji : ¬ j = i := fun e' => hne e'.symm
            simp only [haj, hji, if_false, if_true, incSum2, incSum_cons, ih]; omega
          · simp only [hai, haj, if_false]; exact ih

theorem incSum2_joint (i j : Nat) (hne : i ≠ j) (mid post : List Ev) :
    incSum2 (joint i j mid post)
      = Spec.C17.incSum (proj i mid) + Spec.C17.incSum (proj i post) + Spec.C17.incSum (proj j post) := by
  unfold joint
  rw [incSum2_append, incSum2_lift1, incSum2_proj2 i j hne]; omega

/-- one event on one counter object: delivered + pending grows by the increment; a pass empties
the pending delta -/
theorem localStep_counter (h : Handle) (p n : Nat) (e : LEv) : ∃ p' n',
    localStep (.counter h p) (.counter n) e = (.counter h p', .counter n')
      ∧ n' + p' = n + p + incOf e ∧ (e = .pass → p' = 0) := by
  cases e with
  | inc k => exact ⟨p + k, n, rfl, by simp only [incOf]; omega, fun e => by cases e⟩
  | pass =>
    by_cases hp : p = 0
    · exact ⟨p, n, by simp [localStep, hp], by simp [incOf], fun _ => hp⟩
    · exact ⟨0, n + p, by simp [localStep, hp, Val.add], by simp [incOf], fun _ => rfl⟩
  | update b => exact ⟨p, n, rfl, by simp [incOf], fun e => by cases e⟩
  | record b => exact ⟨p, n, rfl, by simp [incOf], fun e => by cases e⟩
  | sample b => exact ⟨p, n, rfl, by simp [incOf], fun e => by cases e⟩

theorem localRun2_counter (h : Handle) (l : List LEv2) : ∀ pi pj n, ∃ pi' pj' n',
    localRun2 (.counter h pi) (.counter h pj) (.counter n) l = (.counter h pi', .counter h pj', .counter n')
      ∧ n' + pi' + pj' = n + pi + pj + incSum2 l := by
  induction l with
  | nil => intro pi pj n; exact ⟨pi, pj, n, rfl, by simp [incSum2]⟩
  | cons ev t ih =>
    intro pi pj n
    cases ev with
    | fst e =>
      obtain ⟨p', n', h1, h2, _⟩ := localStep_counter h pi n e
      obtain ⟨pi', pj', n'', h3, h4⟩ := ih p' pj n'
      refine ⟨pi', pj', n'', ?_, ?_⟩
      · simp only [localRun2, h1]; exact h3
      · simp only [incSum2]; omega
    | snd e =>
      obtain ⟨p', n', h1, h2, _⟩ := localStep_counter h pj n e
      obtain ⟨pi', pj', n'', h3, h4⟩ := ih pi p' n'
      refine ⟨pi', pj', n'', ?_, ?_⟩
      · simp only [localRun2, h1]; exact h3
      · simp only [incSum2]; omega
    | pass =>
      obtain ⟨p1, n1, h1, h2, _⟩ := localStep_counter h pi n .pass
      obtain ⟨p2, n2, h1', h2', _⟩ := localStep_counter h pj n1 .pass
      obtain ⟨pi', pj', n'', h3, h4⟩ := ih p1 p2 n2
      refine ⟨pi', pj', n'', ?_, ?_⟩
      · simp only [localRun2, h1, h1']; exact h3
      · simp only [incSum2, incOf] at h2 h2' ⊢; omega

/-- after a final pass the shared counter series holds the sum of the increments made through
both objects -/
theorem counter2_final (h : Handle) (l : List LEv2) :
    (localRun2 (.counter h 0) (.counter h 0) (.counter 0) (l ++ [.pass])).2.2 = .counter (incSum2 l) := by
  rw [localRun2_append]
  obtain ⟨pi', pj', n', h1, h2⟩ := localRun2_counter h l 0 0 0
  rw [h1]
  obtain ⟨p1, n1, h3, h4, h5⟩ := localStep_counter h pi' n' .pass
  obtain ⟨p2, n2, h3', h4', h5'⟩ := localStep_counter h pj' n1 .pass
  simp only [localRun2, h3, h3']
  have := h5 rfl
  have := h5' rfl
  simp only [incOf] at h4 h4'
  congr 1; omega

/-! ### two gauges, one series -/

/-- all events of the pair in history order -/
def flat : List LEv2 → List LEv
  | [] => []
  | .fst e :: t => e :: flat t
  | .snd e :: t => e :: flat t
  | .pass :: t => .pass :: flat t

theorem flat_append (a b : List LEv2) : flat (a ++ b) = flat a ++ flat b := by
  induction a with
  | nil => rfl
  | cons e t ih => cases e <;> simp [flat, ih]

theorem flat_lift1 (l : List LEv) : flat (l.map lift1) = l := by
  induction l with
  | nil => rfl
  | cons e t ih => cases e <;> simp [lift1, flat, ih]

/-- the events of a history on object `i` or on object `j`, and the report passes, in order -/
def projEither (i j : Nat) : List Ev → List LEv
  | [] => []
  | .op a e :: t => if (a = i ∨ a = j) ∧ e ≠ .pass then e :: projEither i j t else projEither i j t
  | .pass :: t => .pass :: projEither i j t
  | .use _ _ _ :: t => projEither i j t

theorem flat_proj2 (i j : Nat) (l : List Ev) : flat (proj2 i j l) = projEither i j l := by
  induction l with
  | nil => rfl
  | cons ev t ih =>
    cases ev with
    | use _ _ _ => simpa [proj2, projEither] using ih
    | pass => simpa [proj2, projEither, flat] using ih
    | op a e =>
      simp only [proj2, projEither]
      by_cases hp : e = .pass
      · simp only [hp, if_true, ne_eq, not_true_eq_false, and_false, if_false]; exact ih
      · simp only [hp, if_false, ne_eq, not_false_eq_true, and_true]
        by_cases hai : a = i
        · simp only [hai, if_true, true_or, flat, ih]
        · by_cases haj : a = j
          · have hji : ¬ j = i := fun e' => hai (haj.trans e')
            simp only [haj, hji, if_false, if_true, or_true, flat, ih]
          · simp only [hai, haj, if_false, or_self]; exact ih

theorem flat_joint (i j : Nat) (mid post : List Ev) :
    flat (joint i j mid post) = proj i mid ++ projEither i j post := by
  unfold joint
  rw [flat_append, flat_lift1, flat_proj2]

/-- within one report interval the first object (smaller index, delivered first by a pass) is not
updated after the second one was; the flag says whether the second object is dirty.  (`fst pass` /
`snd pass` — a delivery of one object alone — do not occur in a `joint` history.) -/
def okOrderFrom : Bool → List LEv2 → Bool
  | _, [] => true
  | d, .fst e :: t =>
    (match e with
     | .update _ => !d && okOrderFrom d t
     | .pass => false
     | _ => okOrderFrom d t)
  | d, .snd e :: t =>
    (match e with
     | .update _ => okOrderFrom true t
     | .pass => false
     | _ => okOrderFrom d t)
  | _, .pass :: t => okOrderFrom false t

/-- within one report interval at most one of the two objects is updated; the flags say which of
them is dirty -/
def noDoubleDirtyFrom : Bool → Bool → List LEv2 → Bool
  | _, _, [] => true
  | di, dj, .fst e :: t =>
    (match e with
     | .update _ => !dj && noDoubleDirtyFrom true dj t
     | .pass => false
     | _ => noDoubleDirtyFrom di dj t)
  | di, dj, .snd e :: t =>
    (match e with
     | .update _ => !di && noDoubleDirtyFrom di true t
     | .pass => false
     | _ => noDoubleDirtyFrom di dj t)
  | _, _, .pass :: t => noDoubleDirtyFrom false false t

theorem okOrderFrom_of_noDoubleDirtyFrom (l : List LEv2) : ∀ di dj, noDoubleDirtyFrom di dj l = true → okOrderFrom dj l = true := by
  induction l with
  | nil => intro _ _ _; rfl
  | cons ev t ih =>
    intro di dj h
    cases ev with
    | pass => simp only [noDoubleDirtyFrom, okOrderFrom] at h ⊢; exact ih _ _ h
    | fst e =>
      cases e with
      | update x =>
        simp only [noDoubleDirtyFrom, okOrderFrom, Bool.and_eq_true] at h ⊢
        exact ⟨h.1, ih _ _ h.2⟩
      | pass => simp [noDoubleDirtyFrom] at h
      | inc n => simp only [noDoubleDirtyFrom, okOrderFrom] at h ⊢; exact ih _ _ h
      | record n => simp only [noDoubleDirtyFrom, okOrderFrom] at h ⊢; exact ih _ _ h
      | sample n => simp only [noDoubleDirtyFrom, okOrderFrom] at h ⊢; exact ih _ _ h
    | snd e =>
      cases e with
      | update x =>
        simp only [noDoubleDirtyFrom, okOrderFrom, Bool.and_eq_true] at h ⊢
        exact ih _ _ h.2
      | pass => simp [noDoubleDirtyFrom] at h
      | inc n => simp only [noDoubleDirtyFrom, okOrderFrom] at h ⊢; exact ih _ _ h
      | record n => simp only [noDoubleDirtyFrom, okOrderFrom] at h ⊢; exact ih _ _ h
      | sample n => simp only [noDoubleDirtyFrom, okOrderFrom] at h ⊢; exact ih _ _ h

/-- the value the series will show after the next pass: the second object's if it is dirty, else
the first object's if it is dirty, else what the series holds -/
def eff (ci : F64) (ui : Bool) (cj : F64) (uj : Bool) (b : F64) : F64 :=
  if uj then cj else if ui then ci else b

theorem gauge_pass (h : Handle) (c : F64) (u : Bool) (b : F64) :
    localStep (.gauge h c u) (.gauge b) .pass = (.gauge h c false, .gauge (if u then c else b)) := by
  cases u <;> rfl

theorem localRun2_gauge (h : Handle) (l : List LEv2) : ∀ ci ui cj uj b, okOrderFrom uj l = true →
    ∃ ci' ui' cj' uj' b',
      localRun2 (.gauge h ci ui) (.gauge h cj uj) (.gauge b) l = (.gauge h ci' ui', .gauge h cj' uj', .gauge b')
        ∧ eff ci' ui' cj' uj' b' = Spec.C17.lastUpdate (flat l) (eff ci ui cj uj b) := by
  induction l with
  | nil => intro ci ui cj uj b _; exact ⟨ci, ui, cj, uj, b, rfl, rfl⟩
  | cons ev t ih =>
    intro ci ui cj uj b hok
    cases ev with
    | pass =>
      simp only [okOrderFrom] at hok
      obtain ⟨ci', ui', cj', uj', b', h1, h2⟩ := ih ci false cj false (if uj then cj else if ui then ci else b) hok
      refine ⟨ci', ui', cj', uj', b', ?_, ?_⟩
      · simp only [localRun2, gauge_pass]; exact h1
      · rw [h2]; simp [flat, Spec.C17.lastUpdate, eff]
    | fst e =>
      cases e with
      | update x =>
        simp only [okOrderFrom, Bool.and_eq_true, Bool.not_eq_true'] at hok
        obtain ⟨hd, hok'⟩ := hok
        subst hd
        obtain ⟨ci', ui', cj', uj', b', h1, h2⟩ := ih x true cj false b hok'
        refine ⟨ci', ui', cj', uj', b', ?_, ?_⟩
        · simp only [localRun2, localStep]; exact h1
        · rw [h2]; simp [flat, Spec.C17.lastUpdate, eff]
      | pass => simp [okOrderFrom] at hok
      | inc n =>
        simp only [okOrderFrom] at hok
        obtain ⟨ci', ui', cj', uj', b', h1, h2⟩ := ih ci ui cj uj b hok
        exact ⟨ci', ui', cj', uj', b', by simp only [localRun2, localStep]; exact h1,
          by rw [h2]; simp [flat, Spec.C17.lastUpdate]⟩
      | record n =>
        simp only [okOrderFrom] at hok
        obtain ⟨ci', ui', cj', uj', b', h1, h2⟩ := ih ci ui cj uj b hok
        exact ⟨ci', ui', cj', uj', b', by simp only [localRun2, localStep]; exact h1,
          by rw [h2]; simp [flat, Spec.C17.lastUpdate]⟩
      | sample n =>
        simp only [okOrderFrom] at hok
        obtain ⟨ci', ui', cj', uj', b', h1, h2⟩ := ih ci ui cj uj b hok
        exact ⟨ci', ui', cj', uj', b', by simp only [localRun2, localStep]; exact h1,
          by rw [h2]; simp [flat, Spec.C17.lastUpdate]⟩
    | snd e =>
      cases e with
      | update x =>
        simp only [okOrderFrom] at hok
        obtain ⟨ci', ui', cj', uj', b', h1, h2⟩ := ih ci ui x true b hok
        refine ⟨ci', ui', cj', uj', b', ?_, ?_⟩
        · simp only [localRun2, localStep]; exact h1
        · rw [h2]; simp [flat, Spec.C17.lastUpdate, eff]
      | pass => simp [okOrderFrom] at hok
      | inc n =>
        simp only [okOrderFrom] at hok
        obtain ⟨ci', ui', cj', uj', b', h1, h2⟩ := ih ci ui cj uj b hok
        exact ⟨ci', ui', cj', uj', b', by simp only [localRun2, localStep]; exact h1,
          by rw [h2]; simp [flat, Spec.C17.lastUpdate]⟩
      | record n =>
        simp only [okOrderFrom] at hok
        obtain ⟨ci', ui', cj', uj', b', h1, h2⟩ := ih ci ui cj uj b hok
        exact ⟨ci', ui', cj', uj', b', by simp only [localRun2, localStep]; exact h1,
          by rw [h2]; simp [flat, Spec.C17.lastUpdate]⟩
      | sample n =>
        simp only [okOrderFrom] at hok
        obtain ⟨ci', ui', cj', uj', b', h1, h2⟩ := ih ci ui cj uj b hok
        exact ⟨ci', ui', cj', uj', b', by simp only [localRun2, localStep]; exact h1,
          by rw [h2]; simp [flat, Spec.C17.lastUpdate]⟩

/-- after a final pass the shared gauge series holds the last update made through either object
(`+0` if there was none), provided the first object is never updated after the second one within a
report interval -/
theorem gauge2_final (h : Handle) (l : List LEv2) (hok : okOrderFrom false l = true) :
    (localRun2 (.gauge h 0 false) (.gauge h 0 false) (.gauge 0) (l ++ [.pass])).2.2
      = .gauge (Spec.C17.lastUpdate (flat l) 0) := by
  rw [localRun2_append]
  obtain ⟨ci', ui', cj', uj', b', h1, h2⟩ := localRun2_gauge h l 0 false 0 false 0 hok
  rw [h1]
  simp only [localRun2, gauge_pass]
  rw [← show eff 0 false 0 false 0 = (0 : F64) from rfl, ← h2]
  simp [eff]

end Tally.Prom
