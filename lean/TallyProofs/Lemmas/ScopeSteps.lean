import TallyProofs.Lemmas.ScopeLemmas
/-!
# Every `step` of the scope model is a composition of primitive transitions
-/
namespace Tally.Scope
open Tally Tally.KeyGen

/-! ## without a sanitizer -/

theorem sanName_none {c : Cfg} (h : c.san = none) (s : Bytes) : sanName c s = s := by
  simp [sanName, h]

theorem sanMap_none {c : Cfg} (h : c.san = none) (m : TagMap) : sanMap c m = canon [m] := by
  have : (m.map fun (k, v) => (sanKey c k, sanValue c v)) = m := by
    simp [sanKey, sanValue, h]
  unfold sanMap
  rw [this]

/-! ## reporting keeps the metric signatures -/

theorem reportMetric_sig (sep : Bytes) (s : ScopeS) (m : Metric) :
    metricKind (reportMetric sep s m).1 = metricKind m ∧
    metricName (reportMetric sep s m).1 = metricName m := by
  cases m <;> exact ⟨rfl, rfl⟩

theorem reportScope_fst (sep : Bytes) (s : ScopeS) :
    (reportScope sep s).1 = { s with metrics := (reportScope sep s).1.metrics } := rfl

theorem reportScope_sigs (sep : Bytes) (s : ScopeS) :
    (reportScope sep s).1.metrics.map msig = s.metrics.map msig := by
  simp only [reportScope, List.map_map]
  apply List.map_congr_left
  intro x _
  obtain ⟨i, m⟩ := x
  simp [msig, (reportMetric_sig sep s m).1, (reportMetric_sig sep s m).2]

theorem passEntries_cons_none {st : St} {sh : Nat} {k : Bytes} {sid : Nat}
    (rest : List ((Nat × Bytes) × Nat)) (h : getScope st sid = none) :
    passEntries st (((sh, k), sid) :: rest) = passEntries st rest := by
  rw [passEntries]; simp only [h]

theorem passEntries_cons_some {st : St} {sh : Nat} {k : Bytes} {sid : Nat} {s : ScopeS}
    (rest : List ((Nat × Bytes) × Nat)) (h : getScope st sid = some s) :
    (passEntries st (((sh, k), sid) :: rest)).1 =
      (passEntries
        (if s.closed then
          setScope (regRemove (setScope st sid (reportScope st.sep s).1) sh k sid) sid
            { (reportScope st.sep s).1 with metrics := [] }
         else setScope st sid (reportScope st.sep s).1) rest).1 := by
  rw [passEntries]; simp only [h]

theorem passEntries_prims (sem semD : Prop) (ok : Bytes → Nat → Prop) :
    ∀ (entries : List ((Nat × Bytes) × Nat)) (st : St), Prims sem semD ok st (passEntries st entries).1
  | [], st => .refl st
  | ((sh, k), sid) :: rest, st => by
    cases hg : getScope st sid with
    | none => rw [passEntries_cons_none rest hg]; exact passEntries_prims sem semD ok rest st
    | some s =>
      rw [passEntries_cons_some rest hg]
      have h1 : Prim sem semD ok st (setScope st sid (reportScope st.sep s).1) := by
        rw [reportScope_fst]
        exact .setMetrics st sid s _ hg (by rw [reportScope_sigs]; exact List.Sublist.refl _)
          (fun _ => reportScope_sigs _ _)
      cases hc : s.closed with
      | false =>
        simp only [Bool.false_eq_true, if_false]
        exact (Prims.one h1).trans (passEntries_prims sem semD ok rest _)
      | true =>
        simp only [if_true]
        have hg1 : getScope (setScope st sid (reportScope st.sep s).1) sid
            = some (reportScope st.sep s).1 := getScope_setScope_self hg _
        have h2 : Prim sem semD ok (setScope st sid (reportScope st.sep s).1)
            (regRemove (setScope st sid (reportScope st.sep s).1) sh k sid) :=
          .regRemove _ sh k sid _ hg1 hc
        have h3 : Prim sem semD ok (regRemove (setScope st sid (reportScope st.sep s).1) sh k sid)
            (setScope (regRemove (setScope st sid (reportScope st.sep s).1) sh k sid) sid
              { (reportScope st.sep s).1 with metrics := [] }) :=
          .setMetrics _ sid _ [] hg1 (List.nil_sublist _)
            (fun h => by rw [show (reportScope st.sep s).1.closed = s.closed from rfl, hc] at h; cases h)
        exact (((Prims.one h1).tail h2).tail h3).trans (passEntries_prims sem semD ok rest _)

theorem reportPass_prims (sem semD : Prop) (ok : Bytes → Nat → Prop) (st : St) :
    Prims sem semD ok st (reportPass st).1 := by
  unfold reportPass
  split
  · exact .refl st
  · exact passEntries_prims sem semD ok st.reg st

/-! ## metric operations -/

theorem getMetric_prims (sem semD : Prop) (ok : Bytes → Nat → Prop) (st : St) (sid : Nat) (kind : String)
    (n : Bytes) (mk : Bytes → Metric) : Prims sem semD ok st (getMetric st sid kind n mk).1 := by
  unfold getMetric
  cases hg : getScope st sid with
  | none => exact .refl st
  | some s =>
    simp only
    split
    · exact .refl st
    · exact .one (.addMetric st sid s _ hg)

theorem updMetric_go_spec (mid : Nat) (f : ScopeS → Metric → Metric × List Event)
    (hf : ∀ s m, metricKind (f s m).1 = metricKind m ∧ metricName (f s m).1 = metricName m) :
    ∀ (scs : List ScopeS) (j i : Nat) (s' : ScopeS) (evs : List Event),
      (∀ s ∈ scs, (ids s).Nodup) →
      updMetric.go mid f j scs = some (i, s', evs) →
      ∃ s ms, j ≤ i ∧ scs[i - j]? = some s ∧ s' = { s with metrics := ms } ∧
        ms.map msig = s.metrics.map msig
  | [], j, i, s', evs, _, h => by simp [updMetric.go] at h
  | s :: rest, j, i, s', evs, hnd, h => by
    unfold updMetric.go at h
    split at h
    · next x m hfind =>
      simp only [Option.some.injEq, Prod.mk.injEq] at h
      obtain ⟨rfl, rfl, -⟩ := h
      refine ⟨s, _, Nat.le_refl _, by simp, rfl, ?_⟩
      have hx := List.find?_some hfind
      have hmem := List.mem_of_find?_eq_some hfind
      simp only [beq_iff_eq] at hx
      subst hx
      simp only [List.map_map]
      apply List.map_congr_left
      intro y hy
      obtain ⟨a, b⟩ := y
      simp only [Function.comp]
      split
      · next hab =>
        simp only [beq_iff_eq] at hab
        subst hab
        have : b = m := entry_unique (hnd s List.mem_cons_self) hy hmem
        subst this
        simp only [msig]
        rw [(hf s b).1, (hf s b).2]
      · rfl
    · obtain ⟨s0, ms, hle, hget, hs, hm⟩ :=
        updMetric_go_spec mid f hf rest (j + 1) i s' evs
          (fun s hs => hnd s (List.mem_cons_of_mem _ hs)) h
      refine ⟨s0, ms, by omega, ?_, hs, hm⟩
      have : i - j = (i - (j + 1)) + 1 := by omega
      rw [this, List.getElem?_cons_succ]
      exact hget

theorem updMetric_prims (sem semD : Prop) (ok : Bytes → Nat → Prop) (st : St) (hmet : MetInv st) (mid : Nat)
    (f : ScopeS → Metric → Metric × List Event)
    (hf : ∀ s m, metricKind (f s m).1 = metricKind m ∧ metricName (f s m).1 = metricName m) :
    Prims sem semD ok st (updMetric st mid f).1 := by
  unfold updMetric
  split
  · next i s' evs hgo =>
    have hnd : ∀ s ∈ st.scopes, (ids s).Nodup := by
      intro s hs
      obtain ⟨j, hj⟩ := List.mem_iff_getElem?.mp hs
      exact hmet.ids_nodup (sid := j) hj
    obtain ⟨s, ms, _, hget, rfl, hm⟩ := updMetric_go_spec mid f hf st.scopes 0 i s' evs hnd hgo
    exact .one (.setMetrics st i s ms hget (by rw [hm]; exact List.Sublist.refl _) (fun _ => hm))
  · exact .refl st

/-! ## `subscope` in three named stages -/

/-- read-locked probe under the raw key -/
def probeF (st : St) (sh : Nat) (rawKey sKey : Bytes) : Option (St × List Event) × Option Nat :=
  match regLookup st sh rawKey with
  | some sid =>
    match getScope st sid with
    | some s =>
      if !s.closed || st.cfg.kind == .none then (none, some sid)
      else
        let (s', evs) := if st.cfg.kind == .none then (s, []) else reportScope st.sep s
        let st1 := setScope st sid { s' with metrics := [] }
        (some (regRemove (regRemove st1 sh rawKey sid) sh sKey sid, evs), none)
    | none => (some (st, []), none)
  | none => (some (st, []), none)

/-- write-locked re-lookup under the sanitized key -/
def relookF (st1 : St) (sh : Nat) (rawKey sKey : Bytes) : Option Nat × St × List Event :=
  match regLookup st1 sh sKey with
  | some sid =>
    match getScope st1 sid with
    | some s =>
      if !s.closed || st1.cfg.kind == .none then (some sid, regAdd st1 sh rawKey sid, [])
      else
        let (s', evs) := reportScope st1.sep s
        let st2 := setScope st1 sid { s' with metrics := [] }
        (none, regRemove (regRemove st2 sh sKey sid) sh rawKey sid, evs)
    | none => (none, st1, [])
  | none => (none, st1, [])

/-- creation of the new scope, registered under both keys -/
def createF (st2 : St) (ns : ScopeS) (sh : Nat) (rawKey sKey : Bytes) : St :=
  regAdd (regAdd { st2 with scopes := st2.scopes ++ [ns] } sh sKey st2.scopes.length) sh rawKey
    st2.scopes.length

theorem subscope_eq (st : St) (parent : Nat) (pfx : Bytes) (tags : TagMap) (sh : Nat) :
    subscope st parent pfx tags sh =
      match getScope st parent with
      | none => (st, .scope none [])
      | some p =>
        if st.rootClosed || p.closed then (st, .scope none []) else
        match probeF st sh (key pfx [p.tags, tags]) (key pfx [p.tags, sanMap st.cfg tags]) with
        | (_, some sid) => (st, .scope (some sid) [])
        | (none, none) => (st, .scope none [])
        | (some (st1, evs1), none) =>
          match relookF st1 sh (key pfx [p.tags, tags]) (key pfx [p.tags, sanMap st.cfg tags]) with
          | (some sid, st2, evs2) => (st2, .scope (some sid) (evs1 ++ evs2))
          | (none, st2, evs2) =>
            (createF st2 { pfx := pfx, tags := mergeTags p.tags (sanMap st.cfg tags), closed := false,
                           isRoot := false, metrics := [] } sh
                (key pfx [p.tags, tags]) (key pfx [p.tags, sanMap st.cfg tags]),
              .scope (some st2.scopes.length) (evs1 ++ evs2)) := by
  unfold subscope probeF relookF createF
  rfl

theorem probeF_cases (st : St) (sh : Nat) (rawKey sKey : Bytes) :
    (∃ sid s, regLookup st sh rawKey = some sid ∧ getScope st sid = some s ∧
        (s.closed = false ∨ st.cfg.kind = .none) ∧ probeF st sh rawKey sKey = (none, some sid)) ∨
    (∃ sid s evs, regLookup st sh rawKey = some sid ∧ getScope st sid = some s ∧ s.closed = true ∧
        (∀ e ∈ evs, e ∈ (reportScope st.sep s).2) ∧
        probeF st sh rawKey sKey =
          (some (regRemove (regRemove (setScope st sid { s with metrics := [] }) sh rawKey sid) sh sKey sid,
            evs), none)) ∨
    ((regLookup st sh rawKey = none ∨ ∃ sid, regLookup st sh rawKey = some sid ∧ getScope st sid = none) ∧
        probeF st sh rawKey sKey = (some (st, []), none)) := by
  cases hl : regLookup st sh rawKey with
  | none => exact .inr (.inr ⟨.inl rfl, by simp only [probeF, hl]⟩)
  | some sid =>
    cases hg : getScope st sid with
    | none => exact .inr (.inr ⟨.inr ⟨sid, rfl, hg⟩, by simp only [probeF, hl, hg]⟩)
    | some s =>
      cases hc : (!s.closed || st.cfg.kind == .none)
      · right; left
        have hcl : s.closed = true := by
          cases h : s.closed with
          | true => rfl
          | false => simp [h] at hc
        refine ⟨sid, s, (if st.cfg.kind == .none then (s, []) else reportScope st.sep s).2, rfl, hg, hcl,
          ?_, ?_⟩
        · intro e he
          split at he
          · cases he
          · exact he
        simp only [probeF, hl, hg, hc, Bool.false_eq_true, if_false]
        split <;> rfl
      · left
        refine ⟨sid, s, rfl, hg, ?_, by simp only [probeF, hl, hg, hc, if_true]⟩
        cases h : s.closed with
        | false => exact .inl rfl
        | true =>
          right
          simp only [h, Bool.not_true, Bool.false_or, beq_iff_eq] at hc
          exact hc

theorem relookF_cases (st1 : St) (sh : Nat) (rawKey sKey : Bytes) :
    (∃ sid s, regLookup st1 sh sKey = some sid ∧ getScope st1 sid = some s ∧
        relookF st1 sh rawKey sKey = (some sid, regAdd st1 sh rawKey sid, [])) ∨
    (∃ sid s evs, regLookup st1 sh sKey = some sid ∧ getScope st1 sid = some s ∧ s.closed = true ∧
        (∀ e ∈ evs, e ∈ (reportScope st1.sep s).2) ∧
        relookF st1 sh rawKey sKey =
          (none, regRemove (regRemove (setScope st1 sid { s with metrics := [] }) sh sKey sid) sh rawKey sid,
            evs)) ∨
    ((regLookup st1 sh sKey = none ∨ ∃ sid, regLookup st1 sh sKey = some sid ∧ getScope st1 sid = none) ∧
        relookF st1 sh rawKey sKey = (none, st1, [])) := by
  cases hl : regLookup st1 sh sKey with
  | none => exact .inr (.inr ⟨.inl rfl, by simp only [relookF, hl]⟩)
  | some sid =>
    cases hg : getScope st1 sid with
    | none => exact .inr (.inr ⟨.inr ⟨sid, rfl, hg⟩, by simp only [relookF, hl, hg]⟩)
    | some s =>
      cases hc : (!s.closed || st1.cfg.kind == .none)
      · right; left
        have hcl : s.closed = true := by
          cases h : s.closed with
          | true => rfl
          | false => simp [h] at hc
        refine ⟨sid, s, (reportScope st1.sep s).2, rfl, hg, hcl, fun _ h => h, ?_⟩
        simp only [relookF, hl, hg, hc, Bool.false_eq_true, if_false]
        rfl
      · left
        exact ⟨sid, s, rfl, hg, by simp only [relookF, hl, hg, hc, if_true]⟩

/-- clearing a closed scope and removing two of its registry entries -/
theorem clearRemove_prims (sem semD : Prop) (ok : Bytes → Nat → Prop) {st : St} {sid : Nat} {s : ScopeS}
    (hg : getScope st sid = some s) (hc : s.closed = true) (sh : Nat) (k1 k2 : Bytes) :
    Prims sem semD ok st
      (regRemove (regRemove (setScope st sid { s with metrics := [] }) sh k1 sid) sh k2 sid) := by
  have h1 : Prim sem semD ok st (setScope st sid { s with metrics := [] }) :=
    .setMetrics st sid s [] hg (List.nil_sublist _) (fun h => by rw [hc] at h; cases h)
  have hg1 : getScope (setScope st sid { s with metrics := [] }) sid = some { s with metrics := [] } :=
    getScope_setScope_self hg _
  have h2 := Prim.regRemove (sem := sem) (semD := semD) (ok := ok) _ sh k1 sid _ hg1 hc
  have h3 := Prim.regRemove (sem := sem) (semD := semD) (ok := ok)
    (regRemove (setScope st sid { s with metrics := [] }) sh k1 sid) sh k2 sid _ hg1 hc
  exact ((Prims.one h1).tail h2).tail h3

theorem create_spec (sem semD : Prop) (ok : Bytes → Nat → Prop) (st2 : St) (ns : ScopeS) (sh : Nat)
    (rawKey sKey : Bytes) (hc : ns.closed = false) (hr : ns.isRoot = false) (hm : ns.metrics = [])
    (hsem : sem → sKey = key ns.pfx [ns.tags] ∧ rawKey = sKey ∧ Canonical ns.tags ∧
      st2.reg.lookup (sh, sKey) = none ∧ ok sKey sh)
    (hsemD : semD → Canonical ns.tags ∧ FixedTags st2.cfg ns.tags ∧ ScopeKey st2.cfg sKey ns ∧
      ScopeKey st2.cfg rawKey ns) :
    Prims sem semD ok st2 (createF st2 ns sh rawKey sKey) ∧
      getScope (createF st2 ns sh rawKey sKey) st2.scopes.length = some ns := by
  have hget : getScope (regAdd { st2 with scopes := st2.scopes ++ [ns] } sh sKey st2.scopes.length)
      st2.scopes.length = some ns := by
    rw [getScope_regAdd]; exact getScope_append_new st2 ns
  refine ⟨?_, ?_⟩
  · have h1 : Prim sem semD ok st2 (regAdd { st2 with scopes := st2.scopes ++ [ns] } sh sKey st2.scopes.length) :=
      .create st2 sh sKey ns hc hr hm (fun h => by
        obtain ⟨a, _, c, d, e⟩ := hsem h
        exact ⟨c, a, d, e⟩) (fun h => ⟨(hsemD h).1, (hsemD h).2.1, (hsemD h).2.2.1⟩)
    have h2 := Prim.regAdd (sem := sem) (semD := semD) (ok := ok) _ sh rawKey st2.scopes.length ns hget
      (fun h => by
        obtain ⟨a, b, _⟩ := hsem h
        rw [b]; exact a)
      (fun h => by rw [regAdd_cfg]; exact (hsemD h).2.2.2)
    exact (Prims.one h1).tail h2
  · unfold createF
    rw [getScope_regAdd]; exact hget

theorem relook_spec (sem semD : Prop) (ok : Bytes → Nat → Prop) (st1 : St) (pfx : Bytes)
    (ptags tags tagsS : TagMap) (sh : Nat)
    (hsem : sem → Inv st1 ∧ tagsS = canon [tags]) (hok : sem → ok (key pfx [ptags, tags]) sh)
    (hsemD : semD → InvD st1 ∧ tagsS = sanMap st1.cfg tags ∧ SanDistinct st1.cfg tags ∧
      FixedTags st1.cfg ptags) :
    (∀ sid st2 evs2, relookF st1 sh (key pfx [ptags, tags]) (key pfx [ptags, tagsS]) = (some sid, st2, evs2) →
      Prims sem semD ok st1 st2 ∧
      (sem → ∃ s, getScope st2 sid = some s ∧ s.pfx = pfx ∧ s.tags = canon [ptags, tags]) ∧
      (semD → ∃ s, getScope st2 sid = some s ∧ s.pfx = pfx ∧ s.tags = canon [ptags, tagsS])) ∧
    (∀ st2 evs2, relookF st1 sh (key pfx [ptags, tags]) (key pfx [ptags, tagsS]) = (none, st2, evs2) →
      Prims sem semD ok st1
        (createF st2 { pfx := pfx, tags := mergeTags ptags tagsS, closed := false, isRoot := false,
                       metrics := [] } sh (key pfx [ptags, tags]) (key pfx [ptags, tagsS])) ∧
      (sem → ∃ s, getScope
          (createF st2 { pfx := pfx, tags := mergeTags ptags tagsS, closed := false, isRoot := false,
                         metrics := [] } sh (key pfx [ptags, tags]) (key pfx [ptags, tagsS]))
          st2.scopes.length = some s ∧ s.pfx = pfx ∧ s.tags = canon [ptags, tags]) ∧
      (semD → ∃ s, getScope
          (createF st2 { pfx := pfx, tags := mergeTags ptags tagsS, closed := false, isRoot := false,
                         metrics := [] } sh (key pfx [ptags, tags]) (key pfx [ptags, tagsS]))
          st2.scopes.length = some s ∧ s.pfx = pfx ∧ s.tags = canon [ptags, tagsS])) := by
  have hkeys : sem → key pfx [ptags, tagsS] = key pfx [ptags, tags] := by
    intro h
    rw [(hsem h).2]
    exact key_congr pfx (canon_pair_canon_right ptags tags)
  have htags : sem → canon [ptags, tagsS] = canon [ptags, tags] := by
    intro h
    rw [(hsem h).2]
    exact canon_pair_canon_right ptags tags
  -- creation from a state in which the key is free
  have hcreate : ∀ st2, Prims sem semD ok st1 st2 →
      (sem → st2.reg.lookup (sh, key pfx [ptags, tagsS]) = none) →
      Prims sem semD ok st1
        (createF st2 { pfx := pfx, tags := mergeTags ptags tagsS, closed := false, isRoot := false,
                       metrics := [] } sh (key pfx [ptags, tags]) (key pfx [ptags, tagsS])) ∧
      (sem → ∃ s, getScope
          (createF st2 { pfx := pfx, tags := mergeTags ptags tagsS, closed := false, isRoot := false,
                         metrics := [] } sh (key pfx [ptags, tags]) (key pfx [ptags, tagsS]))
          st2.scopes.length = some s ∧ s.pfx = pfx ∧ s.tags = canon [ptags, tags]) ∧
      (semD → ∃ s, getScope
          (createF st2 { pfx := pfx, tags := mergeTags ptags tagsS, closed := false, isRoot := false,
                         metrics := [] } sh (key pfx [ptags, tags]) (key pfx [ptags, tagsS]))
          st2.scopes.length = some s ∧ s.pfx = pfx ∧ s.tags = canon [ptags, tagsS]) := by
    intro st2 hp hfree
    have hcfg2 : st2.cfg = st1.cfg := (prims_ext hp).cfg
    obtain ⟨c1, c2⟩ := create_spec sem semD ok st2
      { pfx := pfx, tags := mergeTags ptags tagsS, closed := false, isRoot := false, metrics := [] }
      sh (key pfx [ptags, tags]) (key pfx [ptags, tagsS]) rfl rfl rfl (fun h =>
        ⟨key_pair_eq pfx ptags tagsS, (hkeys h).symm, canonical_canon _, hfree h, by
          rw [hkeys h]; exact hok h⟩)
      (fun h => by
        obtain ⟨_, hts, hdist, hpt⟩ := hsemD h
        rw [hcfg2]
        refine ⟨canonical_canon _, fixedTags_pair hpt (by rw [hts]; exact fixedTags_sanMap _ _),
          .inl (key_pair_eq pfx ptags tagsS), .inr ⟨ptags, tags, hpt, hdist, rfl, ?_⟩⟩
        rw [← hts]; rfl)
    exact ⟨hp.trans c1, fun h => ⟨_, c2, rfl, htags h⟩, fun _ => ⟨_, c2, rfl, rfl⟩⟩
  rcases relookF_cases st1 sh (key pfx [ptags, tags]) (key pfx [ptags, tagsS]) with
    ⟨sid, s, hl, hg, he⟩ | ⟨sid, s, evs, hl, hg, hc, -, he⟩ | ⟨hl, he⟩
  · -- live hit under the sanitized key
    refine ⟨?_, ?_⟩
    · intro sid' st2 evs2 h
      rw [he] at h
      simp only [Prod.mk.injEq, Option.some.injEq] at h
      obtain ⟨rfl, rfl, -⟩ := h
      have hentry : sem → key pfx [ptags, tagsS] = key s.pfx [s.tags] := by
        intro hs
        obtain ⟨s0, hg0, hk0⟩ := (hsem hs).1.reg sh _ sid (mem_of_lookup_eq_some hl)
        rw [hg] at hg0; cases hg0
        exact hk0
      have hhit : semD → s.pfx = pfx ∧ s.tags = canon [ptags, tagsS] := by
        intro hs
        obtain ⟨hinv, hts, _, hpt⟩ := hsemD hs
        have := hinv.hit hl hg hpt (m := tagsS) (by rw [hts]; exact sanDistinct_sanMap _ _) rfl
        rw [hts, sanMap_sanMap, ← hts] at this
        exact this
      refine ⟨.one (.regAdd st1 sh _ sid s hg (fun hs => by rw [← hkeys hs]; exact hentry hs)
        (fun hs => by
          obtain ⟨_, hts, hdist, hpt⟩ := hsemD hs
          refine .inr ⟨ptags, tags, hpt, hdist, by rw [(hhit hs).1], ?_⟩
          rw [(hhit hs).2, hts])), ?_, ?_⟩
      · intro hs
        refine ⟨s, by rw [getScope_regAdd]; exact hg, ?_, ?_⟩
        · exact (key_inj' (hentry hs)).1.symm
        · have := (key_inj' (hentry hs)).2
          rw [(hsem hs).1.canon sid s hg, htags hs] at this
          exact this.symm
      · intro hs
        exact ⟨s, by rw [getScope_regAdd]; exact hg, hhit hs⟩
    · intro st2 evs2 h
      rw [he] at h
      simp at h
  · -- closed hit: cleared, unregistered, a new scope is created
    refine ⟨?_, ?_⟩
    · intro sid' st2 evs2 h
      rw [he] at h
      simp at h
    · intro st2 evs2 h
      rw [he] at h
      simp only [Prod.mk.injEq, true_and] at h
      obtain ⟨rfl, -⟩ := h
      apply hcreate _ (clearRemove_prims sem semD ok hg hc sh _ _)
      intro hs
      rw [regRemove_reg, regRemove_reg]
      apply lookup_filter_none
      exact lookup_filter_self _ _ _ (hsem hs).1.nodup hl
  · -- miss
    refine ⟨?_, ?_⟩
    · intro sid' st2 evs2 h
      rw [he] at h
      simp at h
    · intro st2 evs2 h
      rw [he] at h
      simp only [Prod.mk.injEq, true_and] at h
      obtain ⟨rfl, -⟩ := h
      apply hcreate _ (.refl _)
      intro hs
      rcases hl with hl | ⟨sid, hl, hg⟩
      · exact hl
      · obtain ⟨s0, hg0, _⟩ := (hsem hs).1.reg sh _ sid (mem_of_lookup_eq_some hl)
        rw [hg] at hg0; cases hg0

/-- `subscope` is a composition of primitive transitions and the returned scope has the requested
identity: under `sem` (the sanitizer leaves the tag map unchanged) the tags are the parent's overlaid by the
map; under `semD` (generalised invariant, the map keeps its sanitized keys distinct) the tags are the
parent's overlaid by the sanitized map -/
theorem subscope_spec (sem semD : Prop) (ok : Bytes → Nat → Prop) (st : St) (parent : Nat) (pfx : Bytes)
    (tags : TagMap) (sh : Nat) (hsem : sem → Inv st ∧ sanMap st.cfg tags = canon [tags])
    (hok : sem → ∀ p, getScope st parent = some p → ok (key pfx [p.tags, tags]) sh)
    (hsemD : semD → InvD st ∧ SanDistinct st.cfg tags) :
    Prims sem semD ok st (subscope st parent pfx tags sh).1 ∧
    (sem → ∀ p id evs, getScope st parent = some p →
      (subscope st parent pfx tags sh).2 = .scope (some id) evs →
      p.closed = false ∧ st.rootClosed = false ∧
      ∃ s, getScope (subscope st parent pfx tags sh).1 id = some s ∧ s.pfx = pfx ∧
        s.tags = canon [p.tags, tags]) ∧
    (semD → ∀ p id evs, getScope st parent = some p →
      (subscope st parent pfx tags sh).2 = .scope (some id) evs →
      p.closed = false ∧ st.rootClosed = false ∧
      ∃ s, getScope (subscope st parent pfx tags sh).1 id = some s ∧ s.pfx = pfx ∧
        s.tags = canon [p.tags, sanMap st.cfg tags]) := by
  rw [subscope_eq]
  cases hp : getScope st parent with
  | none => exact ⟨.refl st, fun _ p id evs h => (by cases h), fun _ p id evs h => (by cases h)⟩
  | some p =>
    simp only
    cases hcl : (st.rootClosed || p.closed)
    · simp only [Bool.false_eq_true, if_false]
      have hlive : p.closed = false ∧ st.rootClosed = false := by
        cases h1 : p.closed <;> cases h2 : st.rootClosed <;> simp_all
      -- the part after a probe miss
      have hrest : ∀ st1 evs1, Prims sem semD ok st st1 → (sem → Inv st1) → (semD → InvD st1) →
          st1.cfg = st.cfg →
          Prims sem semD ok st
            (match relookF st1 sh (key pfx [p.tags, tags]) (key pfx [p.tags, sanMap st.cfg tags]) with
              | (some sid, st2, evs2) => (st2, Out.scope (some sid) (evs1 ++ evs2))
              | (none, st2, evs2) =>
                (createF st2 { pfx := pfx, tags := mergeTags p.tags (sanMap st.cfg tags), closed := false,
                               isRoot := false, metrics := [] } sh
                    (key pfx [p.tags, tags]) (key pfx [p.tags, sanMap st.cfg tags]),
                  Out.scope (some st2.scopes.length) (evs1 ++ evs2))).1 ∧
          (sem → ∀ p' id evs, some p = some p' →
            (match relookF st1 sh (key pfx [p.tags, tags]) (key pfx [p.tags, sanMap st.cfg tags]) with
              | (some sid, st2, evs2) => (st2, Out.scope (some sid) (evs1 ++ evs2))
              | (none, st2, evs2) =>
                (createF st2 { pfx := pfx, tags := mergeTags p.tags (sanMap st.cfg tags), closed := false,
                               isRoot := false, metrics := [] } sh
                    (key pfx [p.tags, tags]) (key pfx [p.tags, sanMap st.cfg tags]),
                  Out.scope (some st2.scopes.length) (evs1 ++ evs2))).2 = .scope (some id) evs →
            p'.closed = false ∧ st.rootClosed = false ∧
            ∃ s, getScope
              (match relookF st1 sh (key pfx [p.tags, tags]) (key pfx [p.tags, sanMap st.cfg tags]) with
              | (some sid, st2, evs2) => (st2, Out.scope (some sid) (evs1 ++ evs2))
              | (none, st2, evs2) =>
                (createF st2 { pfx := pfx, tags := mergeTags p.tags (sanMap st.cfg tags), closed := false,
                               isRoot := false, metrics := [] } sh
                    (key pfx [p.tags, tags]) (key pfx [p.tags, sanMap st.cfg tags]),
                  Out.scope (some st2.scopes.length) (evs1 ++ evs2))).1 id = some s ∧ s.pfx = pfx ∧
              s.tags = canon [p'.tags, tags]) ∧
          (semD → ∀ p' id evs, some p = some p' →
            (match relookF st1 sh (key pfx [p.tags, tags]) (key pfx [p.tags, sanMap st.cfg tags]) with
              | (some sid, st2, evs2) => (st2, Out.scope (some sid) (evs1 ++ evs2))
              | (none, st2, evs2) =>
                (createF st2 { pfx := pfx, tags := mergeTags p.tags (sanMap st.cfg tags), closed := false,
                               isRoot := false, metrics := [] } sh
                    (key pfx [p.tags, tags]) (key pfx [p.tags, sanMap st.cfg tags]),
                  Out.scope (some st2.scopes.length) (evs1 ++ evs2))).2 = .scope (some id) evs →
            p'.closed = false ∧ st.rootClosed = false ∧
            ∃ s, getScope
              (match relookF st1 sh (key pfx [p.tags, tags]) (key pfx [p.tags, sanMap st.cfg tags]) with
              | (some sid, st2, evs2) => (st2, Out.scope (some sid) (evs1 ++ evs2))
              | (none, st2, evs2) =>
                (createF st2 { pfx := pfx, tags := mergeTags p.tags (sanMap st.cfg tags), closed := false,
                               isRoot := false, metrics := [] } sh
                    (key pfx [p.tags, tags]) (key pfx [p.tags, sanMap st.cfg tags]),
                  Out.scope (some st2.scopes.length) (evs1 ++ evs2))).1 id = some s ∧ s.pfx = pfx ∧
              s.tags = canon [p'.tags, sanMap st.cfg tags]) := by
        intro st1 evs1 hp1 hinv1 hinvD1 hcfg
        obtain ⟨r1, r2⟩ := relook_spec sem semD ok st1 pfx p.tags tags (sanMap st.cfg tags) sh
          (fun h => ⟨hinv1 h, (hsem h).2⟩) (fun h => hok h p hp)
          (fun h => ⟨hinvD1 h, by rw [hcfg], by rw [hcfg]; exact (hsemD h).2,
            by rw [hcfg]; exact (hsemD h).1.fixed parent p hp⟩)
        rcases hr : relookF st1 sh (key pfx [p.tags, tags]) (key pfx [p.tags, sanMap st.cfg tags]) with
          ⟨_ | sid, st2, evs2⟩
        · obtain ⟨a, b, c⟩ := r2 st2 evs2 hr
          refine ⟨hp1.trans a, ?_, ?_⟩
          · intro hs p' id evs e1 e2
            cases e1
            simp only [Out.scope.injEq, Option.some.injEq] at e2
            obtain ⟨rfl, -⟩ := e2
            exact ⟨hlive.1, hlive.2, b hs⟩
          · intro hs p' id evs e1 e2
            cases e1
            simp only [Out.scope.injEq, Option.some.injEq] at e2
            obtain ⟨rfl, -⟩ := e2
            exact ⟨hlive.1, hlive.2, c hs⟩
        · obtain ⟨a, b, c⟩ := r1 sid st2 evs2 hr
          refine ⟨hp1.trans a, ?_, ?_⟩
          · intro hs p' id evs e1 e2
            cases e1
            simp only [Out.scope.injEq, Option.some.injEq] at e2
            obtain ⟨rfl, -⟩ := e2
            exact ⟨hlive.1, hlive.2, b hs⟩
          · intro hs p' id evs e1 e2
            cases e1
            simp only [Out.scope.injEq, Option.some.injEq] at e2
            obtain ⟨rfl, -⟩ := e2
            exact ⟨hlive.1, hlive.2, c hs⟩
      rcases probeF_cases st sh (key pfx [p.tags, tags]) (key pfx [p.tags, sanMap st.cfg tags]) with
        ⟨sid, s, hl, hg, _, he⟩ | ⟨sid, s, evs, hl, hg, hc, -, he⟩ | ⟨_, he⟩
      · -- live hit under the raw key
        rw [he]
        refine ⟨.refl st, ?_, ?_⟩
        · intro hs p' id evs e1 e2
          cases e1
          simp only [Out.scope.injEq, Option.some.injEq] at e2
          obtain ⟨rfl, -⟩ := e2
          obtain ⟨s0, hg0, hk0⟩ := (hsem hs).1.reg sh _ sid (mem_of_lookup_eq_some hl)
          rw [hg] at hg0; cases hg0
          refine ⟨hlive.1, hlive.2, s, hg, (key_inj' hk0).1.symm, ?_⟩
          have := (key_inj' hk0).2
          rw [(hsem hs).1.canon sid s hg] at this
          exact this.symm
        · intro hs p' id evs e1 e2
          cases e1
          simp only [Out.scope.injEq, Option.some.injEq] at e2
          obtain ⟨rfl, -⟩ := e2
          exact ⟨hlive.1, hlive.2, s, hg,
            (hsemD hs).1.hit hl hg ((hsemD hs).1.fixed parent p hp) (hsemD hs).2 rfl⟩
      · rw [he]
        have hp1 := clearRemove_prims sem semD ok hg hc sh (key pfx [p.tags, tags])
          (key pfx [p.tags, sanMap st.cfg tags])
        exact hrest _ evs hp1 (fun h => prims_inv h hp1 (hsem h).1)
          (fun h => prims_invD h hp1 (hsemD h).1) rfl
      · rw [he]
        exact hrest st [] (.refl st) (fun h => (hsem h).1) (fun h => (hsemD h).1) rfl
    · simp only [if_true]
      exact ⟨.refl st, fun _ p id evs _ h => (by cases h), fun _ p id evs _ h => (by cases h)⟩

/-! ## every operation -/

theorem sanMap_nil (c : Cfg) : sanMap c [] = canon [[]] := rfl

/-- the sanitizer leaves the tag map of a `Tagged` request unchanged (always so without a sanitizer) -/
def SanFixed (cfg : Cfg) : Op → Prop
  | .tagged _ m _ => sanMap cfg m = canon [m]
  | _ => True

theorem sanFixed_of_none {cfg : Cfg} (h : cfg.san = none) (op : Op) : SanFixed cfg op := by
  cases op <;> simp only [SanFixed]
  exact sanMap_none h _

/-- the tag map of a `Tagged` request keeps its sanitized keys distinct -/
def SanDistinctOp (cfg : Cfg) : Op → Prop
  | .tagged _ m _ => SanDistinct cfg m
  | _ => True

/-- the shard carried by a sub/tagged request is acceptable for its raw key -/
def WellSharded (ok : Bytes → Nat → Prop) (st : St) : Op → Prop
  | .sub p name sh => ∀ ps, getScope st p = some ps →
      ok (key (fqn st.sep ps.pfx (sanName st.cfg name)) [ps.tags, []]) sh
  | .tagged p tags sh => ∀ ps, getScope st p = some ps → ok (key ps.pfx [ps.tags, tags]) sh
  | _ => True

theorem timer_prims (sem semD : Prop) (ok : Bytes → Nat → Prop) (st : St) (s : Nat) (n : Bytes) :
    Prims sem semD ok st (step st (.timer s n)).1 := by
  have h1 := getMetric_prims sem semD ok st s "timer" n (fun n => .timer n [])
  have he := prims_ext h1
  simp only [step]
  split
  · next id evs sc hout hsc =>
    split
    · exact h1
    · next hnone =>
      refine h1.tail (.setTimers _ _ ?_ ?_)
      · intro id' v hl
        rw [List.lookup_cons]
        cases hb : id' == id
        · exact hl
        · simp only [beq_iff_eq] at hb
          subst hb
          rw [hl] at hnone
          simp at hnone
      · intro id' nm tg hm
        rcases List.mem_cons.mp hm with e | e
        · right
          simp only [Prod.mk.injEq] at e
          obtain ⟨-, rfl, rfl⟩ := e
          obtain ⟨sc', hg', hp, htg, _⟩ := he.scope s sc hsc
          exact ⟨s, sc', n, hg', by rw [he.sep, he.cfg, hp], htg.symm⟩
        · exact .inl e
  · exact h1

theorem close_prims (sem semD : Prop) (ok : Bytes → Nat → Prop) (st : St) (sid : Nat) :
    Prims sem semD ok st (step st (.close sid)).1 := by
  simp only [step]
  cases hg : getScope st sid with
  | none => exact .refl st
  | some s =>
    simp only
    split
    · exact .refl st
    · have h1 : Prims sem semD ok st (setScope st sid { s with closed := true }) := .one (.closeScope st sid s hg)
      split
      · exact h1
      · have h2 : Prims sem semD ok st { setScope st sid { s with closed := true } with rootClosed := true } :=
          h1.tail (.rootClosed _)
        split
        · exact h2
        · exact (h2.trans (reportPass_prims sem semD ok _)).tail (Prim.purge _ _)

/-- the operations that update a metric through its handle -/
def IsUpd : Op → Prop
  | .inc .. | .upd .. | .record .. | .recv .. | .recd .. => True
  | _ => False

theorem step_prims (sem semD : Prop) (ok : Bytes → Nat → Prop) (st : St) (op : Op)
    (hmet : IsUpd op → MetInv st)
    (hsem : sem → Inv st ∧ SanFixed st.cfg op ∧ WellSharded ok st op)
    (hsemD : semD → InvD st ∧ SanDistinctOp st.cfg op) :
    Prims sem semD ok st (step st op).1 := by
  cases op with
  | sub p name sh =>
    simp only [step]
    cases hg : getScope st p with
    | none => exact .refl st
    | some ps =>
      refine (subscope_spec sem semD ok st p _ [] sh (fun h => ⟨(hsem h).1, sanMap_nil _⟩) ?_
        (fun h => ⟨(hsemD h).1, sanDistinct_nil _⟩)).1
      intro h p' hp'
      rw [hg] at hp'; cases hp'
      exact (hsem h).2.2 ps hg
  | tagged p tags sh =>
    simp only [step]
    cases hg : getScope st p with
    | none => exact .refl st
    | some ps =>
      refine (subscope_spec sem semD ok st p _ tags sh (fun h => ⟨(hsem h).1, (hsem h).2.1⟩) ?_
        (fun h => ⟨(hsemD h).1, (hsemD h).2⟩)).1
      intro h p' hp'
      rw [hg] at hp'; cases hp'
      exact (hsem h).2.2 ps hg
  | counter s n => exact getMetric_prims sem semD ok st s _ n _
  | gauge s n => exact getMetric_prims sem semD ok st s _ n _
  | timer s n => exact timer_prims sem semD ok st s n
  | hist s n spec => exact getMetric_prims sem semD ok st s _ n _
  | inc m v =>
    refine updMetric_prims sem semD ok st (hmet trivial) m _ ?_
    intro s x; cases x <;> exact ⟨rfl, rfl⟩
  | upd m v =>
    refine updMetric_prims sem semD ok st (hmet trivial) m _ ?_
    intro s x; cases x <;> exact ⟨rfl, rfl⟩
  | record m d =>
    simp only [step]
    split
    · refine updMetric_prims sem semD ok st (hmet trivial) m _ ?_
      intro s x; cases x <;> exact ⟨rfl, rfl⟩
    · split <;> exact .refl st
  | recv m v =>
    refine updMetric_prims sem semD ok st (hmet trivial) m _ ?_
    intro s x
    cases x with
    | hist n h => simp only; split <;> exact ⟨rfl, rfl⟩
    | _ => exact ⟨rfl, rfl⟩
  | recd m d =>
    refine updMetric_prims sem semD ok st (hmet trivial) m _ ?_
    intro s x
    cases x with
    | hist n h => simp only; split <;> exact ⟨rfl, rfl⟩
    | _ => exact ⟨rfl, rfl⟩
  | report =>
    simp only [step]
    split
    · exact .refl st
    · exact reportPass_prims sem semD ok st
  | close sid => exact close_prims sem semD ok st sid

/-! ## the root state and reachable states -/

theorem getScope_mkRoot {cfg : Cfg} {pfx sep : Bytes} {tags : TagMap} {sid : Nat} {s : ScopeS}
    (h : getScope (mkRoot cfg pfx sep tags) sid = some s) :
    sid = 0 ∧ s = { pfx := sanName cfg pfx, tags := sanMap cfg tags, closed := false, isRoot := true,
                    metrics := [] } := by
  unfold getScope mkRoot at h
  cases sid with
  | zero => simp at h; exact ⟨rfl, h.symm⟩
  | succ n => simp at h

theorem mkRoot_keys_nodup (n : Nat) (k : Bytes) :
    (((List.range n).map fun sh => (((sh, k), 0) : (Nat × Bytes) × Nat)).map (·.1)).Nodup := by
  rw [List.map_map]
  unfold List.Nodup
  rw [List.pairwise_map]
  refine List.Pairwise.imp ?_ List.nodup_range
  intro a b hab h
  simp only [Function.comp, Prod.mk.injEq] at h
  exact hab h.1

theorem mkRoot_inv (cfg : Cfg) (pfx sep : Bytes) (tags : TagMap) : Inv (mkRoot cfg pfx sep tags) := by
  refine ⟨?_, ?_, ?_⟩
  · intro sh k sid hm
    simp only [mkRoot, List.mem_map, List.mem_range, Prod.mk.injEq] at hm
    obtain ⟨a, _, ⟨-, rfl⟩, rfl⟩ := hm
    exact ⟨_, rfl, rfl⟩
  · intro sid s h
    obtain ⟨_, rfl⟩ := getScope_mkRoot h
    exact canonical_canon _
  · exact mkRoot_keys_nodup _ _

theorem mkRoot_metInv (cfg : Cfg) (pfx sep : Bytes) (tags : TagMap) : MetInv (mkRoot cfg pfx sep tags) := by
  have : allIds (mkRoot cfg pfx sep tags) = [] := by simp [allIds, mkRoot, ids]
  exact ⟨by rw [this]; simp, fun i h => by rw [this] at h; cases h⟩

theorem mkRoot_liveReg (f : Bytes → Nat) (cfg : Cfg) (pfx sep : Bytes) (tags : TagMap) :
    LiveReg f (mkRoot cfg pfx sep tags) := by
  intro sid s h hc sh _ h2
  obtain ⟨rfl, rfl⟩ := getScope_mkRoot h
  apply lookup_of_mem_nodup (mkRoot_keys_nodup _ _)
  have hlt : sh < max cfg.shards 1 := h2 rfl
  show ((sh, key (sanName cfg pfx) [sanMap cfg tags]), 0) ∈
    (List.range (max cfg.shards 1)).map fun sh => ((sh, key (sanName cfg pfx) [sanMap cfg tags]), 0)
  exact List.mem_map.mpr ⟨sh, List.mem_range.mpr hlt, rfl⟩

theorem runOps_induction {P : St → Prop} (hstep : ∀ st op, P st → P (step st op).1) :
    ∀ (ops : List Op) (st : St), P st → P (runOps st ops)
  | [], _, h => h
  | op :: ops, st, h => runOps_induction hstep ops _ (hstep st op h)

/-- unconditional decomposition (any configuration) -/
theorem step_prims_any (st : St) (op : Op) (hmet : MetInv st) :
    Prims False False (fun _ _ => True) st (step st op).1 :=
  step_prims False False _ st op (fun _ => hmet) (fun h => h.elim) (fun h => h.elim)

theorem step_metInv (st : St) (op : Op) (h : MetInv st) : MetInv (step st op).1 :=
  prims_metInv (step_prims_any st op h) h

theorem step_ext (st : St) (op : Op) (h : MetInv st) : Ext st (step st op).1 :=
  prims_ext (step_prims_any st op h)

theorem runOps_metInv (st : St) (ops : List Op) (h : MetInv st) : MetInv (runOps st ops) :=
  runOps_induction (P := MetInv) step_metInv ops st h

theorem runOps_ext : ∀ (ops : List Op) (st : St), MetInv st → Ext st (runOps st ops)
  | [], st, _ => Ext.refl st
  | op :: ops, st, h => (step_ext st op h).trans (runOps_ext ops _ (step_metInv st op h))

theorem reach_metInv {cfg : Cfg} {pfx sep : Bytes} {tags : TagMap} {st : St}
    (h : Reach cfg pfx sep tags st) : MetInv st := by
  obtain ⟨ops, rfl⟩ := h
  exact runOps_metInv _ ops (mkRoot_metInv cfg pfx sep tags)

theorem reach_ext {cfg : Cfg} {pfx sep : Bytes} {tags : TagMap} {st : St}
    (h : Reach cfg pfx sep tags st) : Ext (mkRoot cfg pfx sep tags) st := by
  obtain ⟨ops, rfl⟩ := h
  exact runOps_ext ops _ (mkRoot_metInv cfg pfx sep tags)

theorem reach_cfg {cfg : Cfg} {pfx sep : Bytes} {tags : TagMap} {st : St}
    (h : Reach cfg pfx sep tags st) : st.cfg = cfg := (reach_ext h).cfg

theorem reach_timerInv {cfg : Cfg} {pfx sep : Bytes} {tags : TagMap} {st : St}
    (h : Reach cfg pfx sep tags st) : TimerInv st := by
  obtain ⟨ops, rfl⟩ := h
  have := runOps_induction (P := fun st => MetInv st ∧ TimerInv st)
    (fun st op ⟨h1, h2⟩ => ⟨step_metInv st op h1, prims_timerInv (step_prims_any st op h1) h2⟩) ops _
    ⟨mkRoot_metInv cfg pfx sep tags, fun id nm tg hm => by simp [mkRoot] at hm⟩
  exact this.2

/-- decomposition with the semantic side conditions -/
theorem step_prims_sem (st : St) (op : Op) (hmet : MetInv st) (hinv : Inv st)
    (hfix : SanFixed st.cfg op) : Prims True False (fun _ _ => True) st (step st op).1 :=
  step_prims True False _ st op (fun _ => hmet) (fun _ => ⟨hinv, hfix, by cases op <;> simp [WellSharded]⟩)
    (fun h => h.elim)

theorem step_inv (st : St) (op : Op) (hmet : MetInv st) (hinv : Inv st) (hfix : SanFixed st.cfg op) :
    Inv (step st op).1 :=
  prims_inv trivial (step_prims_sem st op hmet hinv hfix) hinv

/-- programs all of whose `Tagged` maps are left unchanged by the sanitizer -/
def FixedOps (cfg : Cfg) (ops : List Op) : Prop := ∀ op ∈ ops, SanFixed cfg op

/-- states reachable by such programs -/
def ReachF (cfg : Cfg) (pfx sep : Bytes) (tags : TagMap) (st : St) : Prop :=
  ∃ ops, FixedOps cfg ops ∧ st = runOps (mkRoot cfg pfx sep tags) ops

theorem ReachF.reach {cfg : Cfg} {pfx sep : Bytes} {tags : TagMap} {st : St}
    (h : ReachF cfg pfx sep tags st) : Reach cfg pfx sep tags st := by
  obtain ⟨ops, _, e⟩ := h
  exact ⟨ops, e⟩

theorem Reach.toF {cfg : Cfg} {pfx sep : Bytes} {tags : TagMap} {st : St}
    (h : Reach cfg pfx sep tags st) (hns : cfg.san = none) : ReachF cfg pfx sep tags st := by
  obtain ⟨ops, e⟩ := h
  exact ⟨ops, fun op _ => sanFixed_of_none hns op, e⟩

theorem ReachF.root (cfg : Cfg) (pfx sep : Bytes) (tags : TagMap) :
    ReachF cfg pfx sep tags (mkRoot cfg pfx sep tags) :=
  ⟨[], fun _ h => (by cases h), rfl⟩

theorem ReachF.run {cfg : Cfg} {pfx sep : Bytes} {tags : TagMap} {st : St}
    (h : ReachF cfg pfx sep tags st) {ops : List Op} (hf : FixedOps cfg ops) :
    ReachF cfg pfx sep tags (runOps st ops) := by
  obtain ⟨o, ho, rfl⟩ := h
  refine ⟨o ++ ops, ?_, (runOps_append _ _ _).symm⟩
  intro op hop
  rcases List.mem_append.mp hop with h1 | h1
  · exact ho op h1
  · exact hf op h1

theorem ReachF.step {cfg : Cfg} {pfx sep : Bytes} {tags : TagMap} {st : St}
    (h : ReachF cfg pfx sep tags st) {op : Op} (hf : SanFixed cfg op) :
    ReachF cfg pfx sep tags (step st op).1 :=
  h.run (ops := [op]) (fun o ho => by simp only [List.mem_singleton] at ho; subst ho; exact hf)

theorem runOps_inv : ∀ (ops : List Op) (st : St), MetInv st → Inv st → FixedOps st.cfg ops →
    Inv (runOps st ops)
  | [], _, _, h, _ => h
  | op :: ops, st, h1, h2, h3 =>
    runOps_inv ops _ (step_metInv st op h1) (step_inv st op h1 h2 (h3 op List.mem_cons_self))
      (by rw [(step_ext st op h1).cfg]; exact fun o ho => h3 o (List.mem_cons_of_mem _ ho))

theorem reachF_inv {cfg : Cfg} {pfx sep : Bytes} {tags : TagMap} {st : St}
    (h : ReachF cfg pfx sep tags st) : Inv st := by
  obtain ⟨ops, hf, rfl⟩ := h
  exact runOps_inv ops _ (mkRoot_metInv cfg pfx sep tags) (mkRoot_inv cfg pfx sep tags) hf

theorem reach_inv {cfg : Cfg} {pfx sep : Bytes} {tags : TagMap} {st : St} (hns : cfg.san = none)
    (h : Reach cfg pfx sep tags st) : Inv st := reachF_inv (h.toF hns)

/-! ## the generalised invariant: programs all of whose `Tagged` maps keep their sanitized keys distinct -/

theorem mkRoot_invD (cfg : Cfg) (pfx sep : Bytes) (tags : TagMap) : InvD (mkRoot cfg pfx sep tags) := by
  refine ⟨?_, (mkRoot_inv cfg pfx sep tags).canon, ?_⟩
  · intro sh k sid hm
    simp only [mkRoot, List.mem_map, List.mem_range, Prod.mk.injEq] at hm
    obtain ⟨a, _, ⟨-, rfl⟩, rfl⟩ := hm
    exact ⟨_, rfl, .inl rfl⟩
  · intro sid s h
    obtain ⟨_, rfl⟩ := getScope_mkRoot h
    exact fixedTags_sanMap cfg tags

/-- decomposition with the side conditions of the generalised invariant -/
theorem step_prims_semD (st : St) (op : Op) (hmet : MetInv st) (hinv : InvD st)
    (hd : SanDistinctOp st.cfg op) : Prims False True (fun _ _ => True) st (step st op).1 :=
  step_prims False True _ st op (fun _ => hmet) (fun h => h.elim) (fun _ => ⟨hinv, hd⟩)

/-- every operation preserves the generalised invariant -/
theorem step_invD (st : St) (op : Op) (hmet : MetInv st) (hinv : InvD st)
    (hd : SanDistinctOp st.cfg op) : InvD (step st op).1 :=
  prims_invD trivial (step_prims_semD st op hmet hinv hd) hinv

/-- programs all of whose `Tagged` maps keep their sanitized keys distinct -/
def DistinctOps (cfg : Cfg) (ops : List Op) : Prop := ∀ op ∈ ops, SanDistinctOp cfg op

/-- states reachable by such programs -/
def ReachD (cfg : Cfg) (pfx sep : Bytes) (tags : TagMap) (st : St) : Prop :=
  ∃ ops, DistinctOps cfg ops ∧ st = runOps (mkRoot cfg pfx sep tags) ops

theorem ReachD.reach {cfg : Cfg} {pfx sep : Bytes} {tags : TagMap} {st : St}
    (h : ReachD cfg pfx sep tags st) : Reach cfg pfx sep tags st := by
  obtain ⟨ops, _, e⟩ := h
  exact ⟨ops, e⟩

theorem ReachD.root (cfg : Cfg) (pfx sep : Bytes) (tags : TagMap) :
    ReachD cfg pfx sep tags (mkRoot cfg pfx sep tags) :=
  ⟨[], fun _ h => (by cases h), rfl⟩

theorem ReachD.run {cfg : Cfg} {pfx sep : Bytes} {tags : TagMap} {st : St}
    (h : ReachD cfg pfx sep tags st) {ops : List Op} (hf : DistinctOps cfg ops) :
    ReachD cfg pfx sep tags (runOps st ops) := by
  obtain ⟨o, ho, rfl⟩ := h
  refine ⟨o ++ ops, ?_, (runOps_append _ _ _).symm⟩
  intro op hop
  rcases List.mem_append.mp hop with h1 | h1
  · exact ho op h1
  · exact hf op h1

theorem ReachD.step {cfg : Cfg} {pfx sep : Bytes} {tags : TagMap} {st : St}
    (h : ReachD cfg pfx sep tags st) {op : Op} (hf : SanDistinctOp cfg op) :
    ReachD cfg pfx sep tags (step st op).1 :=
  h.run (ops := [op]) (fun o ho => by simp only [List.mem_singleton] at ho; subst ho; exact hf)

/-- without a sanitizer: maps with distinct keys -/
theorem sanDistinct_of_none {cfg : Cfg} (h : cfg.san = none) {m : TagMap} (hm : (m.map (·.1)).Nodup) :
    SanDistinct cfg m := by
  have : (m.map fun kv => sanKey cfg kv.1) = m.map (·.1) := by
    apply List.map_congr_left
    intro kv _
    simp [sanKey, h]
  unfold SanDistinct
  rw [this]; exact hm

theorem runOps_invD : ∀ (ops : List Op) (st : St), MetInv st → InvD st → DistinctOps st.cfg ops →
    InvD (runOps st ops)
  | [], _, _, h, _ => h
  | op :: ops, st, h1, h2, h3 =>
    runOps_invD ops _ (step_metInv st op h1) (step_invD st op h1 h2 (h3 op List.mem_cons_self))
      (by rw [(step_ext st op h1).cfg]; exact fun o ho => h3 o (List.mem_cons_of_mem _ ho))

theorem reachD_invD {cfg : Cfg} {pfx sep : Bytes} {tags : TagMap} {st : St}
    (h : ReachD cfg pfx sep tags st) : InvD st := by
  obtain ⟨ops, hf, rfl⟩ := h
  exact runOps_invD ops _ (mkRoot_metInv cfg pfx sep tags) (mkRoot_invD cfg pfx sep tags) hf

/-! ## programs whose shard is a function of the raw key -/

/-- every sub/tagged request of the program carries `shardOf rawKey` -/
def ShardedOps (shardOf : Bytes → Nat) : St → List Op → Prop
  | _, [] => True
  | st, op :: ops => WellSharded (fun k sh => sh = shardOf k) st op ∧ ShardedOps shardOf (step st op).1 ops

/-- states reachable by such programs -/
def ReachS (shardOf : Bytes → Nat) (cfg : Cfg) (pfx sep : Bytes) (tags : TagMap) (st : St) : Prop :=
  ∃ ops, ShardedOps shardOf (mkRoot cfg pfx sep tags) ops ∧ st = runOps (mkRoot cfg pfx sep tags) ops

theorem ReachS.reach {shardOf : Bytes → Nat} {cfg : Cfg} {pfx sep : Bytes} {tags : TagMap} {st : St}
    (h : ReachS shardOf cfg pfx sep tags st) : Reach cfg pfx sep tags st := by
  obtain ⟨ops, _, e⟩ := h
  exact ⟨ops, e⟩

theorem step_liveReg (f : Bytes → Nat) (st : St) (op : Op) (hmet : MetInv st) (hinv : Inv st)
    (hfix : SanFixed st.cfg op) (hws : WellSharded (fun k sh => sh = f k) st op) (hl : LiveReg f st) :
    LiveReg f (step st op).1 :=
  prims_liveReg trivial (step_prims True False _ st op (fun _ => hmet) (fun _ => ⟨hinv, hfix, hws⟩)
    (fun h => h.elim)) hl

theorem runOps_liveReg (f : Bytes → Nat) : ∀ (ops : List Op) (st : St), MetInv st → Inv st →
    FixedOps st.cfg ops → ShardedOps f st ops → LiveReg f st → LiveReg f (runOps st ops)
  | [], _, _, _, _, _, h => h
  | op :: ops, st, h1, h2, h3, h4, h5 =>
    runOps_liveReg f ops _ (step_metInv st op h1) (step_inv st op h1 h2 (h3 op List.mem_cons_self))
      (by rw [(step_ext st op h1).cfg]; exact fun o ho => h3 o (List.mem_cons_of_mem _ ho)) h4.2
      (step_liveReg f st op h1 h2 (h3 op List.mem_cons_self) h4.1 h5)

/-- states reachable by programs with sanitizer-fixed `Tagged` maps and key-determined shards -/
def ReachSF (shardOf : Bytes → Nat) (cfg : Cfg) (pfx sep : Bytes) (tags : TagMap) (st : St) : Prop :=
  ∃ ops, FixedOps cfg ops ∧ ShardedOps shardOf (mkRoot cfg pfx sep tags) ops ∧
    st = runOps (mkRoot cfg pfx sep tags) ops

theorem ReachSF.reachF {f : Bytes → Nat} {cfg : Cfg} {pfx sep : Bytes} {tags : TagMap} {st : St}
    (h : ReachSF f cfg pfx sep tags st) : ReachF cfg pfx sep tags st := by
  obtain ⟨ops, hf, _, e⟩ := h
  exact ⟨ops, hf, e⟩

theorem ReachS.toSF {f : Bytes → Nat} {cfg : Cfg} {pfx sep : Bytes} {tags : TagMap} {st : St}
    (h : ReachS f cfg pfx sep tags st) (hns : cfg.san = none) : ReachSF f cfg pfx sep tags st := by
  obtain ⟨ops, hs, e⟩ := h
  exact ⟨ops, fun op _ => sanFixed_of_none hns op, hs, e⟩

theorem reachSF_liveReg {f : Bytes → Nat} {cfg : Cfg} {pfx sep : Bytes} {tags : TagMap} {st : St}
    (h : ReachSF f cfg pfx sep tags st) : LiveReg f st := by
  obtain ⟨ops, hf, hs, rfl⟩ := h
  exact runOps_liveReg f ops _ (mkRoot_metInv _ _ _ _) (mkRoot_inv _ _ _ _) hf hs
    (mkRoot_liveReg f _ _ _ _)

theorem reachS_liveReg {f : Bytes → Nat} {cfg : Cfg} {pfx sep : Bytes} {tags : TagMap} {st : St}
    (hns : cfg.san = none) (h : ReachS f cfg pfx sep tags st) : LiveReg f st :=
  reachSF_liveReg (h.toSF hns)

theorem ShardedOps.append {f : Bytes → Nat} : ∀ {st : St} {a b : List Op},
    ShardedOps f st a → ShardedOps f (runOps st a) b → ShardedOps f st (a ++ b)
  | _, [], _, _, h => h
  | st, op :: _, _, h1, h2 => ⟨h1.1, ShardedOps.append (st := (step st op).1) h1.2 h2⟩

theorem ReachS.run {f : Bytes → Nat} {cfg : Cfg} {pfx sep : Bytes} {tags : TagMap} {st : St}
    (h : ReachS f cfg pfx sep tags st) {ops : List Op} (hs : ShardedOps f st ops) :
    ReachS f cfg pfx sep tags (runOps st ops) := by
  obtain ⟨o, ho, rfl⟩ := h
  exact ⟨o ++ ops, ho.append hs, (runOps_append _ _ _).symm⟩

theorem ReachSF.run {f : Bytes → Nat} {cfg : Cfg} {pfx sep : Bytes} {tags : TagMap} {st : St}
    (h : ReachSF f cfg pfx sep tags st) {ops : List Op} (hf : FixedOps cfg ops)
    (hs : ShardedOps f st ops) : ReachSF f cfg pfx sep tags (runOps st ops) := by
  obtain ⟨o, hfo, ho, rfl⟩ := h
  refine ⟨o ++ ops, ?_, ho.append hs, (runOps_append _ _ _).symm⟩
  intro op hop
  rcases List.mem_append.mp hop with h1 | h1
  · exact hfo op h1
  · exact hf op h1

/-! ## identity of existing scopes, for arbitrary (also unreachable) states -/

/-- scopes are only appended and keep prefix, tags and root flag; a closed scope stays closed -/
def SameId (st st' : St) : Prop :=
  st.scopes.length ≤ st'.scopes.length ∧
  ∀ sid s, getScope st sid = some s → ∃ s', getScope st' sid = some s' ∧ s'.pfx = s.pfx ∧
    s'.tags = s.tags ∧ s'.isRoot = s.isRoot ∧ (s.closed = true → s'.closed = true)

theorem SameId.refl (st : St) : SameId st st :=
  ⟨Nat.le_refl _, fun _ s h => ⟨s, h, rfl, rfl, rfl, id⟩⟩

theorem sameId_of_ext {st st' : St} (h : Ext st st') : SameId st st' :=
  ⟨h.len, fun sid s hg => by
    obtain ⟨s', a, b, c, d, e, _⟩ := h.scope sid s hg
    exact ⟨s', a, b, c, d, e⟩⟩

theorem updMetric_go_shape (mid : Nat) (f : ScopeS → Metric → Metric × List Event) :
    ∀ (scs : List ScopeS) (j i : Nat) (s' : ScopeS) (evs : List Event),
      updMetric.go mid f j scs = some (i, s', evs) →
      ∃ s ms, j ≤ i ∧ scs[i - j]? = some s ∧ s' = { s with metrics := ms }
  | [], j, i, s', evs, h => by simp [updMetric.go] at h
  | s :: rest, j, i, s', evs, h => by
    unfold updMetric.go at h
    split at h
    · simp only [Option.some.injEq, Prod.mk.injEq] at h
      obtain ⟨rfl, rfl, -⟩ := h
      exact ⟨s, _, Nat.le_refl _, by simp, rfl⟩
    · obtain ⟨s0, ms, hle, hget, hs⟩ := updMetric_go_shape mid f rest (j + 1) i s' evs h
      refine ⟨s0, ms, by omega, ?_, hs⟩
      have : i - j = (i - (j + 1)) + 1 := by omega
      rw [this, List.getElem?_cons_succ]
      exact hget

theorem updMetric_sameId (st : St) (mid : Nat) (f : ScopeS → Metric → Metric × List Event) :
    SameId st (updMetric st mid f).1 := by
  unfold updMetric
  split
  · next i s' evs hgo =>
    obtain ⟨s, ms, _, hget, rfl⟩ := updMetric_go_shape mid f st.scopes 0 i s' evs hgo
    have hg : getScope st i = some s := hget
    refine ⟨by simp [setScope], ?_⟩
    intro j sj hj
    by_cases e : i = j
    · subst e
      rw [hg] at hj; cases hj
      exact ⟨_, getScope_setScope_self hg _, rfl, rfl, rfl, id⟩
    · exact ⟨sj, by rw [getScope_setScope_ne st e]; exact hj, rfl, rfl, rfl, id⟩
  · exact SameId.refl st

theorem step_sameId (st : St) (op : Op) : SameId st (step st op).1 := by
  have hgen : (IsUpd op → False) → SameId st (step st op).1 := fun h =>
    sameId_of_ext (prims_ext (step_prims False False (fun _ _ => True) st op (fun x => (h x).elim)
      (fun x => x.elim) (fun x => x.elim)))
  cases op with
  | inc m v => exact updMetric_sameId st m _
  | upd m v => exact updMetric_sameId st m _
  | recv m v => exact updMetric_sameId st m _
  | recd m v => exact updMetric_sameId st m _
  | record m d =>
    simp only [step]
    split
    · exact updMetric_sameId st m _
    · split <;> exact SameId.refl st
  | sub p n sh => exact hgen id
  | tagged p t sh => exact hgen id
  | counter s n => exact hgen id
  | gauge s n => exact hgen id
  | timer s n => exact hgen id
  | hist s n sp => exact hgen id
  | report => exact hgen id
  | close s => exact hgen id

/-! ## get-or-create of a metric -/

theorem findMetric_eq_sigs (s : ScopeS) (kind : String) (n : Bytes) :
    findMetric s (fun m => metricKind m == kind && metricName m == n)
      = ((sigs s).find? (fun x => x.2.1 == kind && x.2.2 == n)).map (·.1) := by
  unfold findMetric sigs
  induction s.metrics with
  | nil => rfl
  | cons x l ih =>
    obtain ⟨i, m⟩ := x
    simp only [List.find?_cons, List.map_cons, msig]
    cases h : (metricKind m == kind && metricName m == n)
    · simpa using ih
    · simp

theorem find?_of_prefix {α : Type} {p : α → Bool} {l l' : List α} {x : α} (h : l <+: l')
    (hf : l.find? p = some x) : l'.find? p = some x := by
  obtain ⟨t, rfl⟩ := h
  rw [List.find?_append, hf]; rfl

/-- the result of a get-or-create: the returned id is the first metric of that kind and name -/
theorem getMetric_result (st : St) (sid : Nat) (kind : String) (raw : Bytes) (mk : Bytes → Metric)
    (hmk : ∀ n, metricKind (mk n) = kind ∧ metricName (mk n) = n) (id : Nat) (evs : List Event)
    (h : (getMetric st sid kind raw mk).2 = .metric id evs) :
    ∃ s', getScope (getMetric st sid kind raw mk).1 sid = some s' ∧
      (sigs s').find? (fun x => x.2.1 == kind && x.2.2 == sanName st.cfg raw)
        = some (id, kind, sanName st.cfg raw) := by
  unfold getMetric at h ⊢
  cases hg : getScope st sid with
  | none => simp only [hg] at h; cases h
  | some s =>
    simp only [hg] at h ⊢
    split at h
    · next id' hf =>
      simp only [Out.metric.injEq] at h
      obtain ⟨rfl, -⟩ := h
      refine ⟨s, hg, ?_⟩
      rw [findMetric_eq_sigs, Option.map_eq_some_iff] at hf
      obtain ⟨⟨a, b, c⟩, hx, rfl⟩ := hf
      have := List.find?_some hx
      simp only [Bool.and_eq_true, beq_iff_eq] at this
      obtain ⟨rfl, rfl⟩ := this
      exact hx
    · next hf =>
      simp only [Out.metric.injEq] at h
      obtain ⟨rfl, -⟩ := h
      refine ⟨_, getScope_setScope_self hg _, ?_⟩
      rw [findMetric_eq_sigs, Option.map_eq_none_iff] at hf
      simp only [sigs, List.map_append, List.map_cons, List.map_nil, List.find?_append]
      rw [show List.find? (fun x => x.2.1 == kind && x.2.2 == sanName st.cfg raw)
            (List.map msig s.metrics) = none from hf]
      simp [msig, (hmk (sanName st.cfg raw)).1, (hmk (sanName st.cfg raw)).2]

/-- a get-or-create finds an existing metric -/
theorem getMetric_found (st : St) (sid : Nat) (kind : String) (raw : Bytes) (mk : Bytes → Metric)
    (s : ScopeS) (hg : getScope st sid = some s) (id : Nat)
    (hf : (sigs s).find? (fun x => x.2.1 == kind && x.2.2 == sanName st.cfg raw)
        = some (id, kind, sanName st.cfg raw)) :
    getMetric st sid kind raw mk = (st, .metric id []) := by
  unfold getMetric
  simp only [hg]
  rw [findMetric_eq_sigs, hf]
  rfl

/-- scope, kind and raw name of a metric request -/
def metricOpKey : Op → Option (Nat × String × Bytes)
  | .counter s n => some (s, "counter", n)
  | .gauge s n => some (s, "gauge", n)
  | .timer s n => some (s, "timer", n)
  | .hist s n _ => some (s, "hist", n)
  | _ => none

theorem step_timer_snd (st : St) (s : Nat) (n : Bytes) :
    (step st (.timer s n)).2 = (getMetric st s "timer" n (fun n => .timer n [])).2 := by
  simp only [step]
  split
  · split <;> rfl
  · rfl

theorem step_timer_scopes (st : St) (s : Nat) (n : Bytes) :
    (step st (.timer s n)).1.scopes = (getMetric st s "timer" n (fun n => .timer n [])).1.scopes := by
  simp only [step]
  split
  · split <;> rfl
  · rfl

/-- every metric request is a get-or-create with a constructor of the right kind and name -/
theorem step_metricOp (st : St) (op : Op) (sid : Nat) (kind : String) (raw : Bytes)
    (hk : metricOpKey op = some (sid, kind, raw)) :
    ∃ mk : Bytes → Metric, (∀ n, metricKind (mk n) = kind ∧ metricName (mk n) = n) ∧
      (step st op).2 = (getMetric st sid kind raw mk).2 ∧
      (step st op).1.scopes = (getMetric st sid kind raw mk).1.scopes := by
  cases op with
  | counter s n =>
    simp only [metricOpKey, Option.some.injEq, Prod.mk.injEq] at hk
    obtain ⟨rfl, rfl, rfl⟩ := hk
    exact ⟨_, fun n => ⟨rfl, rfl⟩, rfl, rfl⟩
  | gauge s n =>
    simp only [metricOpKey, Option.some.injEq, Prod.mk.injEq] at hk
    obtain ⟨rfl, rfl, rfl⟩ := hk
    exact ⟨_, fun n => ⟨rfl, rfl⟩, rfl, rfl⟩
  | timer s n =>
    simp only [metricOpKey, Option.some.injEq, Prod.mk.injEq] at hk
    obtain ⟨rfl, rfl, rfl⟩ := hk
    exact ⟨_, fun n => ⟨rfl, rfl⟩, step_timer_snd st s n, step_timer_scopes st s n⟩
  | hist s n sp =>
    simp only [metricOpKey, Option.some.injEq, Prod.mk.injEq] at hk
    obtain ⟨rfl, rfl, rfl⟩ := hk
    exact ⟨_, fun n => ⟨rfl, rfl⟩, rfl, rfl⟩
  | _ => simp [metricOpKey] at hk

/-! ## reporter events carry the identity of a scope -/

/-- name and tags of a reporter event -/
def eventNameTags : Event → Option (Bytes × TagMap)
  | .counter n t _ => some (n, t)
  | .gauge n t _ => some (n, t)
  | .timer n t _ => some (n, t)
  | .hval n t _ _ _ => some (n, t)
  | .hdur n t _ _ _ => some (n, t)
  | .alloc _ n t => some (n, t)
  | .flush => none
  | .close => none

/-- events of an `Out` -/
def outEvents : Out → List Event
  | .scope _ es => es
  | .metric _ es => es
  | .events es => es

theorem reportMetric_events (sep : Bytes) (s : ScopeS) (m : Metric) :
    ∀ e ∈ (reportMetric sep s m).2,
      eventNameTags e = some (fqn sep s.pfx (metricName m), s.tags) := by
  intro e he
  cases m with
  | counter n u =>
    simp only [reportMetric] at he
    split at he
    · cases he
    · simp only [List.mem_singleton] at he; subst he; rfl
  | gauge n c up =>
    simp only [reportMetric] at he
    split at he
    · simp only [List.mem_singleton] at he; subst he; rfl
    · cases he
  | timer n vs => simp [reportMetric] at he
  | hist n h =>
    simp only [reportMetric, histEvents, List.mem_filterMap] at he
    obtain ⟨i, _, hi⟩ := he
    split at hi
    · cases hi
    · split at hi <;> (simp only [Option.some.injEq] at hi; subst hi; rfl)

theorem reportScope_events (sep : Bytes) (s : ScopeS) :
    ∀ e ∈ (reportScope sep s).2, ∃ x ∈ s.metrics,
      eventNameTags e = some (fqn sep s.pfx (metricName x.2), s.tags) := by
  intro e he
  simp only [reportScope, List.map_map, List.mem_flatten, List.mem_map] at he
  obtain ⟨l, ⟨x, hx, rfl⟩, hel⟩ := he
  exact ⟨x, hx, reportMetric_events sep s x.2 e hel⟩

/-- the scopes of `st'` carry identities of scopes of `st`; same separator -/
def BackId (st st' : St) : Prop :=
  st'.sep = st.sep ∧ ∀ sid s', getScope st' sid = some s' →
    ∃ s, getScope st sid = some s ∧ s.pfx = s'.pfx ∧ s.tags = s'.tags

theorem BackId.refl (st : St) : BackId st st := ⟨rfl, fun _ s h => ⟨s, h, rfl, rfl⟩⟩

theorem BackId.trans {a b c : St} (h1 : BackId a b) (h2 : BackId b c) : BackId a c := by
  refine ⟨h2.1.trans h1.1, ?_⟩
  intro sid s'' h
  obtain ⟨s', g1, p1, t1⟩ := h2.2 sid s'' h
  obtain ⟨s, g2, p2, t2⟩ := h1.2 sid s' g1
  exact ⟨s, g2, p2.trans p1, t2.trans t1⟩

theorem backId_setScope {st : St} {sid : Nat} {s : ScopeS} (hg : getScope st sid = some s)
    (s' : ScopeS) (hp : s'.pfx = s.pfx) (ht : s'.tags = s.tags) : BackId st (setScope st sid s') := by
  refine ⟨rfl, ?_⟩
  intro j sj hj
  by_cases e : sid = j
  · subst e
    rw [getScope_setScope_self hg] at hj; cases hj
    exact ⟨s, hg, hp.symm, ht.symm⟩
  · rw [getScope_setScope_ne st e] at hj
    exact ⟨sj, hj, rfl, rfl⟩

theorem passEntries_cons_some_snd {st : St} {sh : Nat} {k : Bytes} {sid : Nat} {s : ScopeS}
    (rest : List ((Nat × Bytes) × Nat)) (h : getScope st sid = some s) :
    (passEntries st (((sh, k), sid) :: rest)).2 =
      (reportScope st.sep s).2 ++ (passEntries
        (if s.closed then
          setScope (regRemove (setScope st sid (reportScope st.sep s).1) sh k sid) sid
            { (reportScope st.sep s).1 with metrics := [] }
         else setScope st sid (reportScope st.sep s).1) rest).2 := by
  rw [passEntries]; simp only [h]

/-- every event of a pass over registry entries carries full name and tags of a scope of the state -/
theorem passEntries_events : ∀ (entries : List ((Nat × Bytes) × Nat)) (st : St),
    ∀ e ∈ (passEntries st entries).2, ∃ sid s n, getScope st sid = some s ∧
      eventNameTags e = some (fqn st.sep s.pfx n, s.tags)
  | [], st, e, he => by simp [passEntries] at he
  | ((sh, k), sid) :: rest, st, e, he => by
    cases hg : getScope st sid with
    | none =>
      rw [passEntries_cons_none rest hg] at he
      exact passEntries_events rest st e he
    | some s =>
      rw [passEntries_cons_some_snd rest hg] at he
      rcases List.mem_append.mp he with h1 | h1
      · obtain ⟨x, _, hx⟩ := reportScope_events st.sep s e h1
        exact ⟨sid, s, _, hg, hx⟩
      · have hb : BackId st (if s.closed then
            setScope (regRemove (setScope st sid (reportScope st.sep s).1) sh k sid) sid
              { (reportScope st.sep s).1 with metrics := [] }
           else setScope st sid (reportScope st.sep s).1) := by
          have hb1 : BackId st (setScope st sid (reportScope st.sep s).1) :=
            backId_setScope hg _ rfl rfl
          split
          · have hg1 : getScope (regRemove (setScope st sid (reportScope st.sep s).1) sh k sid) sid
                = some (reportScope st.sep s).1 := getScope_setScope_self hg _
            exact hb1.trans (backId_setScope hg1 _ rfl rfl)
          · exact hb1
        obtain ⟨j, sj, n, hj, hev⟩ := passEntries_events rest _ e h1
        obtain ⟨s0, hs0, hp0, ht0⟩ := hb.2 j sj hj
        exact ⟨j, s0, n, hs0, by rw [hev, hb.1, hp0, ht0]⟩

theorem reportPass_events (st : St) : ∀ e ∈ (reportPass st).2, e = .flush ∨
    ∃ sid s n, getScope st sid = some s ∧ eventNameTags e = some (fqn st.sep s.pfx n, s.tags) := by
  intro e he
  unfold reportPass at he
  split at he
  · cases he
  · rcases List.mem_append.mp he with h | h
    · exact .inr (passEntries_events st.reg st e h)
    · simp only [List.mem_singleton] at h; exact .inl h

/-- the scope identities behind a list of events -/
def EventsOf (st : St) (evs : List Event) : Prop :=
  ∀ e ∈ evs, ∃ sid s n, getScope st sid = some s ∧ eventNameTags e = some (fqn st.sep s.pfx n, s.tags)

theorem eventsOf_reportScope {st : St} {sid : Nat} {s : ScopeS} (hg : getScope st sid = some s)
    {evs : List Event} (h : ∀ e ∈ evs, e ∈ (reportScope st.sep s).2) : EventsOf st evs := by
  intro e he
  obtain ⟨x, _, hx⟩ := reportScope_events st.sep s e (h e he)
  exact ⟨sid, s, _, hg, hx⟩

theorem eventsOf_back {st st' : St} (hb : BackId st st') {evs : List Event} (h : EventsOf st' evs) :
    EventsOf st evs := by
  intro e he
  obtain ⟨j, sj, n, hj, hev⟩ := h e he
  obtain ⟨s0, hs0, hp0, ht0⟩ := hb.2 j sj hj
  exact ⟨j, s0, n, hs0, by rw [hev, hb.1, hp0, ht0]⟩

theorem eventsOf_append {st : St} {a b : List Event} (ha : EventsOf st a) (hb : EventsOf st b) :
    EventsOf st (a ++ b) := by
  intro e he
  rcases List.mem_append.mp he with h | h
  · exact ha e h
  · exact hb e h

theorem eventsOf_nil (st : St) : EventsOf st [] := fun _ h => by cases h

theorem backId_clearRemove {st : St} {sid : Nat} {s : ScopeS} (hg : getScope st sid = some s)
    (sh : Nat) (k1 k2 : Bytes) :
    BackId st (regRemove (regRemove (setScope st sid { s with metrics := [] }) sh k1 sid) sh k2 sid) :=
  backId_setScope hg _ rfl rfl

/-- the events returned by `subscope` (final reports of closed scopes found in the registry) carry
scope identities -/
theorem subscope_events (st : St) (parent : Nat) (pfx : Bytes) (tags : TagMap) (sh : Nat) :
    EventsOf st (outEvents (subscope st parent pfx tags sh).2) := by
  rw [subscope_eq]
  cases hp : getScope st parent with
  | none => exact eventsOf_nil st
  | some p =>
    simp only
    split
    · exact eventsOf_nil st
    · have hrest : ∀ st1 evs1, BackId st st1 → EventsOf st evs1 →
          EventsOf st (outEvents
            (match relookF st1 sh (key pfx [p.tags, tags]) (key pfx [p.tags, sanMap st.cfg tags]) with
              | (some sid, st2, evs2) => (st2, Out.scope (some sid) (evs1 ++ evs2))
              | (none, st2, evs2) =>
                (createF st2 { pfx := pfx, tags := mergeTags p.tags (sanMap st.cfg tags), closed := false,
                               isRoot := false, metrics := [] } sh
                    (key pfx [p.tags, tags]) (key pfx [p.tags, sanMap st.cfg tags]),
                  Out.scope (some st2.scopes.length) (evs1 ++ evs2))).2) := by
        intro st1 evs1 hb h1
        rcases relookF_cases st1 sh (key pfx [p.tags, tags]) (key pfx [p.tags, sanMap st.cfg tags]) with
          ⟨sid, s, _, _, he⟩ | ⟨sid, s, evs, _, hg, _, hev, he⟩ | ⟨_, he⟩
        · rw [he]; exact eventsOf_append h1 (eventsOf_nil st)
        · rw [he]; exact eventsOf_append h1 (eventsOf_back hb (eventsOf_reportScope hg hev))
        · rw [he]; exact eventsOf_append h1 (eventsOf_nil st)
      rcases probeF_cases st sh (key pfx [p.tags, tags]) (key pfx [p.tags, sanMap st.cfg tags]) with
        ⟨sid, s, _, _, _, he⟩ | ⟨sid, s, evs, _, hg, _, hev, he⟩ | ⟨_, he⟩
      · rw [he]; exact eventsOf_nil st
      · rw [he]
        exact hrest _ evs (backId_clearRemove hg sh _ _) (eventsOf_reportScope hg hev)
      · rw [he]
        exact hrest st [] (BackId.refl st) (eventsOf_nil st)

theorem getMetric_events (st : St) (sid : Nat) (kind : String) (raw : Bytes) (mk : Bytes → Metric) :
    EventsOf st (outEvents (getMetric st sid kind raw mk).2) := by
  unfold getMetric
  cases hg : getScope st sid with
  | none => exact eventsOf_nil st
  | some s =>
    simp only
    split
    · exact eventsOf_nil st
    · simp only [outEvents]
      split
      · intro e he
        simp only [List.mem_singleton] at he
        subst he
        exact ⟨sid, s, _, hg, rfl⟩
      · exact eventsOf_nil st

theorem updMetric_go_events (mid : Nat) (f : ScopeS → Metric → Metric × List Event)
    (hf : ∀ s m, (f s m).2 = []) :
    ∀ (scs : List ScopeS) (j i : Nat) (s' : ScopeS) (evs : List Event),
      updMetric.go mid f j scs = some (i, s', evs) → evs = []
  | [], j, i, s', evs, h => by simp [updMetric.go] at h
  | s :: rest, j, i, s', evs, h => by
    unfold updMetric.go at h
    split at h
    · next x m _ =>
      simp only [Option.some.injEq, Prod.mk.injEq] at h
      obtain ⟨-, -, rfl⟩ := h
      exact hf s m
    · exact updMetric_go_events mid f hf rest (j + 1) i s' evs h

theorem updMetric_events (st : St) (mid : Nat) (f : ScopeS → Metric → Metric × List Event)
    (hf : ∀ s m, (f s m).2 = []) : outEvents (updMetric st mid f).2 = [] := by
  unfold updMetric
  split
  · next i s' evs hgo =>
    have : evs = [] := updMetric_go_events mid f hf st.scopes 0 i s' evs hgo
    subst this; rfl
  · rfl

theorem getScope_congr {a b : St} (h : a.scopes = b.scopes) (j : Nat) : getScope a j = getScope b j := by
  unfold getScope; rw [h]


/-- a probe hit: the registry finds a live scope under the raw key -/
theorem subscope_hit {st : St} {p : Nat} {parent : ScopeS} (hp : getScope st p = some parent)
    (hpl : parent.closed = false) (hrc : st.rootClosed = false) (pf : Bytes) (m : TagMap) (sh id : Nat)
    (s : ScopeS) (hl : st.reg.lookup (sh, key pf [parent.tags, m]) = some id)
    (hs : getScope st id = some s) (hlive : s.closed = false) :
    subscope st p pf m sh = (st, .scope (some id) []) := by
  have hl' : regLookup st sh (key pf [parent.tags, m]) = some id := hl
  rw [subscope_eq]
  simp only [hp, hpl, hrc, probeF, hl', hs, hlive, Bool.or_self, Bool.false_eq_true, if_false,
    Bool.not_false, Bool.true_or, if_true]


theorem getMetric_timers (st : St) (sid : Nat) (kind : String) (raw : Bytes) (mk : Bytes → Metric) :
    (getMetric st sid kind raw mk).1.timers = st.timers := by
  unfold getMetric
  split
  · rfl
  · simp only
    split <;> rfl


end Tally.Scope
