import Tally.Model.Registry
/-!
# Helper lemmas for the registry interleaving model (`Tally.Registry`): the inductive invariant

One invariant `Inv san`, preserved by every atomic step of every thread (`inv_step`), hence true in
every reachable state (`inv_run`).  Every step in fact establishes `Pres san s s'`: the invariant afterwards,
no token lost whatever the selector (`TokMono`), and scopes evolve monotonically (`ScopeLe`: they persist,
keep their identity, stay closed).  The preservation proof is split per *case family* of `step`
(pc-only moves `Inv.move`/`Inv.hand`, read-lock `Inv.acquire`/`Inv.release`, `Inv.swap`, `Inv.deliver`,
removal by identity `Inv.delete`, `Inv.clear`, return with alias `Inv.handAlias`, creation `Inv.fresh`, the D4c
branch `Inv.d4c`, and `inv_record`, `inv_close`), all through two master lemmas `Inv.thread` / `Inv.noPc`; then
one lemma per pc (`inv_passIter` … `inv_obtWantLock`) and `pres_step`.

Sanitizer aliasing: the model is parameterised by `san : Nat → Nat`; `Inv san` carries its idempotence
(`sanIdem`, so that it need not be threaded through every lemma).  The static part `SInv san` says: a live scope
is registered under its identity (`liveReg`), every entry `k ↦ sid` points to a scope of identity `san k`
(`regIdent`: the identity key itself or a raw alias), and no key is registered twice (`regNodup`).
`DoneOk` (a thread at `obtDone r sid` holds a scope of identity `san r`) is a second small invariant on top.
-/
namespace Tally.Registry

variable {san : Nat → Nat}

/-! ## projections of the state-update helpers -/

@[simp] theorem setPc_scopes (s : State) (t : Nat) (p : Pc) : (setPc s t p).scopes = s.scopes := rfl
@[simp] theorem setPc_reg (s : State) (t : Nat) (p : Pc) : (setPc s t p).reg = s.reg := rfl
@[simp] theorem setPc_readers (s : State) (t : Nat) (p : Pc) : (setPc s t p).readers = s.readers := rfl
@[simp] theorem setPc_delivered (s : State) (t : Nat) (p : Pc) : (setPc s t p).delivered = s.delivered := rfl
@[simp] theorem setPc_dropped (s : State) (t : Nat) (p : Pc) : (setPc s t p).dropped = s.dropped := rfl
@[simp] theorem setPc_nextToken (s : State) (t : Nat) (p : Pc) : (setPc s t p).nextToken = s.nextToken := rfl
@[simp] theorem setPc_handedOut (s : State) (t : Nat) (p : Pc) : (setPc s t p).handedOut = s.handedOut := rfl
@[simp] theorem setPc_pcs (s : State) (t : Nat) (p : Pc) :
    (setPc s t p).pcs = (t, p) :: s.pcs.filter (·.1 != t) := rfl
@[simp] theorem scopeOf_setPc (s : State) (t : Nat) (p : Pc) (sid : Nat) :
    scopeOf (setPc s t p) sid = scopeOf s sid := rfl
@[simp] theorem lookup_setPc (s : State) (t : Nat) (p : Pc) (k : Nat) :
    lookup (setPc s t p) k = lookup s k := rfl

@[simp] theorem addReader_scopes (s : State) (t : Nat) : (addReader s t).scopes = s.scopes := rfl
@[simp] theorem addReader_reg (s : State) (t : Nat) : (addReader s t).reg = s.reg := rfl
@[simp] theorem addReader_readers (s : State) (t : Nat) : (addReader s t).readers = t :: s.readers := rfl
@[simp] theorem addReader_pcs (s : State) (t : Nat) : (addReader s t).pcs = s.pcs := rfl
@[simp] theorem delReader_scopes (s : State) (t : Nat) : (delReader s t).scopes = s.scopes := rfl
@[simp] theorem delReader_reg (s : State) (t : Nat) : (delReader s t).reg = s.reg := rfl
@[simp] theorem delReader_readers (s : State) (t : Nat) :
    (delReader s t).readers = s.readers.filter (· != t) := rfl
@[simp] theorem delReader_pcs (s : State) (t : Nat) : (delReader s t).pcs = s.pcs := rfl

@[simp] theorem setScope_scopes (s : State) (sid : Nat) (x : ScopeS) :
    (setScope s sid x).scopes = s.scopes.set sid x := rfl
@[simp] theorem setScope_pcs (s : State) (sid : Nat) (x : ScopeS) : (setScope s sid x).pcs = s.pcs := rfl
@[simp] theorem setScope_reg (s : State) (sid : Nat) (x : ScopeS) : (setScope s sid x).reg = s.reg := rfl
@[simp] theorem setScope_readers (s : State) (sid : Nat) (x : ScopeS) :
    (setScope s sid x).readers = s.readers := rfl

@[simp] theorem addReader_delivered (s : State) (t : Nat) : (addReader s t).delivered = s.delivered := rfl
@[simp] theorem delReader_delivered (s : State) (t : Nat) : (delReader s t).delivered = s.delivered := rfl
@[simp] theorem deleteIfSame_scopes (s : State) (k sid : Nat) : (deleteIfSame s k sid).scopes = s.scopes := rfl
@[simp] theorem deleteIfSame_readers (s : State) (k sid : Nat) : (deleteIfSame s k sid).readers = s.readers := rfl
@[simp] theorem deleteIfSame_delivered (s : State) (k sid : Nat) : (deleteIfSame s k sid).delivered = s.delivered := rfl
@[simp] theorem deleteIfSame_pcs (s : State) (k sid : Nat) : (deleteIfSame s k sid).pcs = s.pcs := rfl
theorem deleteIfSame_reg (s : State) (k sid : Nat) :
    (deleteIfSame s k sid).reg = s.reg.filter fun (k', v) => !(k' == k && v == sid) := rfl
@[simp] theorem clearScope_reg (s : State) (sid : Nat) : (clearScope s sid).reg = s.reg := by
  unfold clearScope; split <;> rfl
@[simp] theorem clearScope_readers (s : State) (sid : Nat) : (clearScope s sid).readers = s.readers := by
  unfold clearScope; split <;> rfl
@[simp] theorem clearScope_delivered (s : State) (sid : Nat) : (clearScope s sid).delivered = s.delivered := by
  unfold clearScope; split <;> rfl
@[simp] theorem clearScope_pcs (s : State) (sid : Nat) : (clearScope s sid).pcs = s.pcs := by
  unfold clearScope; split <;> rfl
theorem clearScope_scopes {s : State} {sid : Nat} {x : ScopeS} (hx : scopeOf s sid = some x) :
    (clearScope s sid).scopes = s.scopes.set sid { x with cleared := true, cell := [] } := by
  simp [clearScope, hx]

theorem addAlias_none {s : State} {r sid : Nat} (h : lookup s r = none) :
    addAlias s r sid = { s with reg := (r, sid) :: s.reg } := by
  simp [addAlias, h]
theorem addAlias_some {s : State} {r sid v : Nat} (h : lookup s r = some v) : addAlias s r sid = s := by
  simp [addAlias, h]
@[simp] theorem addAlias_scopes (s : State) (r sid : Nat) : (addAlias s r sid).scopes = s.scopes := by
  unfold addAlias; split <;> rfl
@[simp] theorem addAlias_pcs (s : State) (r sid : Nat) : (addAlias s r sid).pcs = s.pcs := by
  unfold addAlias; split <;> rfl
@[simp] theorem addAlias_readers (s : State) (r sid : Nat) : (addAlias s r sid).readers = s.readers := by
  unfold addAlias; split <;> rfl
@[simp] theorem addAlias_delivered (s : State) (r sid : Nat) : (addAlias s r sid).delivered = s.delivered := by
  unfold addAlias; split <;> rfl
@[simp] theorem addAlias_dropped (s : State) (r sid : Nat) : (addAlias s r sid).dropped = s.dropped := by
  unfold addAlias; split <;> rfl
@[simp] theorem addAlias_nextToken (s : State) (r sid : Nat) : (addAlias s r sid).nextToken = s.nextToken := by
  unfold addAlias; split <;> rfl
@[simp] theorem addAlias_handedOut (s : State) (r sid : Nat) : (addAlias s r sid).handedOut = s.handedOut := by
  unfold addAlias; split <;> rfl
@[simp] theorem scopeOf_addAlias (s : State) (r sid sid' : Nat) : scopeOf (addAlias s r sid) sid' = scopeOf s sid' := by
  simp [scopeOf]
/-- adding an alias never changes what a registered key points to -/
theorem lookup_addAlias {s : State} {r sid k v : Nat} (h : lookup s k = some v) :
    lookup (addAlias s r sid) k = some v := by
  cases hl : lookup s r with
  | some w => rw [addAlias_some hl]; exact h
  | none =>
    rw [addAlias_none hl]
    have hne : k ≠ r := by intro e; rw [e, hl] at h; cases h
    have : (k == r) = false := by simp [hne]
    show List.lookup k ((r, sid) :: s.reg) = some v
    simp only [List.lookup, this]; exact h

theorem pcOf_setPc (s : State) (t t' : Nat) (p : Pc) :
    pcOf (setPc s t p) t' = if t' = t then p else pcOf s t' := by
  unfold pcOf
  simp only [setPc_pcs, List.lookup]
  by_cases h : t' = t
  · subst h; simp
  · have hb : (t' == t) = false := by simp [h]
    simp only [hb, h, if_false]
    congr 1
    generalize s.pcs = l
    induction l with
    | nil => rfl
    | cons q l ih =>
      obtain ⟨k, v⟩ := q
      by_cases hk : k = t
      · subst hk
        have : (t' == k) = false := by simp [h]
        simp [List.filter, List.lookup, this, ih]
      · have hkt : (k != t) = true := by simp [hk]
        simp only [List.filter, hkt, List.lookup]
        split <;> simp_all

@[simp] theorem pcOf_setPc_self (s : State) (t : Nat) (p : Pc) : pcOf (setPc s t p) t = p := by
  simp [pcOf_setPc]

theorem pcOf_setPc_ne (s : State) (t t' : Nat) (p : Pc) (h : t' ≠ t) :
    pcOf (setPc s t p) t' = pcOf s t' := by
  simp [pcOf_setPc, h]

/-! ## classification of program counters -/

/-- does a thread at this pc hold the shard's read lock? -/
def holdsR : Pc → Bool
  | .passIter _ | .passSwap .. | .passDeliver .. | .passAfter .. | .passClear .. => true
  | .obtSwap .. | .obtDeliver .. | .obtAfter .. | .obtAfter2 .. | .obtClear .. | .obtRelease .. => true
  | _ => false

/-- the scope a thread at this pc refers to -/
def pcScope : Pc → Option Nat
  | .passSwap _ _ sid _ | .passDeliver _ _ sid _ _ | .passAfter _ _ sid _ => some sid
  | .passUnlocked _ _ sid | .passRelock _ _ sid | .passClear _ _ sid => some sid
  | .obtSwap _ sid | .obtDeliver _ sid _ | .obtAfter _ sid | .obtUnlocked _ sid => some sid
  | .obtRelock _ sid | .obtAfter2 _ sid | .obtUnlocked2 _ sid | .obtRelock2 _ sid => some sid
  | .obtClear _ sid | .obtDone _ sid => some sid
  | _ => none

/-- the thread has read the scope's closed flag as `true` (and is going to drop the scope) -/
def pcClosed : Pc → Bool
  | .passSwap _ _ _ c | .passDeliver _ _ _ c _ | .passAfter _ _ _ c => c
  | .passUnlocked .. | .passRelock .. | .passClear .. => true
  | .obtSwap .. | .obtDeliver .. | .obtAfter .. | .obtUnlocked .. | .obtRelock .. | .obtClear .. => true
  | .obtAfter2 .. | .obtUnlocked2 .. | .obtRelock2 .. => true
  | _ => false

/-- the thread has already swapped the scope's cell in this visit -/
def pcSwapped : Pc → Bool
  | .passDeliver .. | .passAfter .. | .passUnlocked .. | .passRelock .. | .passClear .. => true
  | .obtDeliver .. | .obtAfter .. | .obtUnlocked .. | .obtRelock .. | .obtClear .. => true
  | .obtAfter2 .. | .obtUnlocked2 .. | .obtRelock2 .. => true
  | _ => false

/-- the thread is inside a visit of `sid` (the body of `visiting`) -/
def visits (p : Pc) (sid : Nat) : Bool :=
  match p with
  | .passSwap _ _ x _ => x == sid
  | .passDeliver _ _ x _ _ => x == sid
  | .obtSwap _ x => x == sid
  | .obtDeliver _ x _ => x == sid
  | _ => false

theorem visiting_eq (s : State) (sid : Nat) : visiting s sid = s.pcs.any fun q => visits q.2 sid := by
  unfold visiting
  rfl

def NoPre (l : List Token) : Prop := ∀ tok ∈ l, tok.pre = false

theorem NoPre_nil : NoPre [] := by intro _ h; cases h

/-- what a thread at pc `p` knows about the scope it refers to: it exists; if the thread read the
closed flag as true the scope is closed; and if moreover it has swapped the cell since, the cell holds
no `pre` token any more (the flag never goes back and `pre` tokens are only minted while it is clear). -/
def PcInv (s : State) (p : Pc) : Prop :=
  ∀ sid, pcScope p = some sid → ∃ x, scopeOf s sid = some x ∧
    (pcClosed p = true → x.closed = true ∧ (pcSwapped p = true → NoPre x.cell))

/-- monotone evolution of scopes: they persist, stay closed, and a closed scope's cell never regains
a `pre` token -/
def ScopeLe (s s' : State) : Prop :=
  ∀ sid x, scopeOf s sid = some x → ∃ x', scopeOf s' sid = some x' ∧ x'.ident = x.ident ∧
    (x.closed = true → x'.closed = true ∧ (NoPre x.cell → NoPre x'.cell))

theorem ScopeLe.refl' (s s' : State) (h : s'.scopes = s.scopes) : ScopeLe s s' := by
  intro sid x hx
  exact ⟨x, by simpa [scopeOf, h] using hx, rfl, fun hc => ⟨hc, id⟩⟩

theorem ScopeLe.trans {a b c : State} (h1 : ScopeLe a b) (h2 : ScopeLe b c) : ScopeLe a c := by
  intro sid x hx
  obtain ⟨x1, hx1, hi1, hc1⟩ := h1 sid x hx
  obtain ⟨x2, hx2, hi2, hc2⟩ := h2 sid x1 hx1
  refine ⟨x2, hx2, hi2.trans hi1, fun hc => ?_⟩
  obtain ⟨h3, h4⟩ := hc1 hc
  obtain ⟨h5, h6⟩ := hc2 h3
  exact ⟨h5, fun hn => h6 (h4 hn)⟩

theorem PcInv.mono {s s' : State} {p : Pc} (hle : ScopeLe s s') (h : PcInv s p) : PcInv s' p := by
  intro sid hs
  obtain ⟨x, hx, hc⟩ := h sid hs
  obtain ⟨x', hx', _, hc'⟩ := hle sid x hx
  refine ⟨x', hx', fun hp => ?_⟩
  obtain ⟨h1, h2⟩ := hc hp
  obtain ⟨h3, h4⟩ := hc' h1
  exact ⟨h3, fun hsw => h4 (h2 hsw)⟩

theorem scopeOf_setScope (s : State) (sid sid' : Nat) (y : ScopeS) :
    scopeOf (setScope s sid y) sid' =
      if sid = sid' then (if sid < s.scopes.length then some y else none) else scopeOf s sid' := by
  simp only [scopeOf, setScope_scopes, List.getElem?_set]

theorem scopeOf_lt {s : State} {sid : Nat} {x : ScopeS} (h : scopeOf s sid = some x) :
    sid < s.scopes.length := by
  unfold scopeOf at h
  exact (List.getElem?_eq_some_iff.mp h).1

theorem scopeLe_setScope {s : State} {sid : Nat} {x y : ScopeS} (hx : scopeOf s sid = some x)
    (hid : y.ident = x.ident)
    (hy : x.closed = true → y.closed = true ∧ (NoPre x.cell → NoPre y.cell)) :
    ScopeLe s (setScope s sid y) := by
  intro sid' x' hx'
  by_cases h : sid = sid'
  · subst h
    rw [hx] at hx'; cases hx'
    exact ⟨y, by simp [scopeOf_setScope, scopeOf_lt hx], hid, hy⟩
  · exact ⟨x', by simpa [scopeOf_setScope, h] using hx', rfl, fun hc => ⟨hc, id⟩⟩


/-! ## counting tokens by id -/

/-- number of tokens selected by `q` in a list (`q = byId n`: tokens with id `n`) -/
def idc (q : Token → Bool) (l : List Token) : Nat := l.countP q

/-- select tokens by id -/
def byId (n : Nat) : Token → Bool := fun tk => tk.id == n

@[simp] theorem idc_nil (n : Token → Bool) : idc n [] = 0 := rfl
@[simp] theorem idc_cons (n : Token → Bool) (a : Token) (l : List Token) :
    idc n (a :: l) = idc n l + if n a = true then 1 else 0 := by
  simp [idc, List.countP_cons]
@[simp] theorem idc_append (n : Token → Bool) (l l' : List Token) : idc n (l ++ l') = idc n l + idc n l' := by
  simp [idc, List.countP_append]

def cells (scopes : List ScopeS) : List Token := (scopes.map (·.cell)).flatten
def pend (pcs : List (Nat × Pc)) : List Token := (pcs.map fun q => pendingOf q.2).flatten

theorem allCells_eq (s : State) : allCells s = cells s.scopes := rfl
theorem allPending_eq (s : State) : allPending s = pend s.pcs := rfl

@[simp] theorem cells_nil : cells [] = [] := rfl
@[simp] theorem cells_cons (x : ScopeS) (l : List ScopeS) : cells (x :: l) = x.cell ++ cells l := rfl
@[simp] theorem pend_nil : pend [] = [] := rfl
@[simp] theorem pend_cons (q : Nat × Pc) (l : List (Nat × Pc)) : pend (q :: l) = pendingOf q.2 ++ pend l := rfl

theorem cells_append (l l' : List ScopeS) : cells (l ++ l') = cells l ++ cells l' := by
  simp [cells]

theorem idc_cells_set (n : Token → Bool) (scopes : List ScopeS) (sid : Nat) (x y : ScopeS)
    (h : scopes[sid]? = some x) :
    idc n x.cell + idc n (cells (scopes.set sid y)) = idc n y.cell + idc n (cells scopes) := by
  induction scopes generalizing sid with
  | nil => simp at h
  | cons a l ih =>
    cases sid with
    | zero =>
      simp only [List.getElem?_cons_zero, Option.some.injEq] at h; subst h
      simp only [List.set_cons_zero, cells_cons, idc_append]; omega
    | succ m =>
      simp only [List.getElem?_cons_succ] at h
      have := ih m h
      simp only [List.set_cons_succ, cells_cons, idc_append]; omega

theorem mem_cells {scopes : List ScopeS} {tok : Token} :
    tok ∈ cells scopes ↔ ∃ (sid : Nat) (x : ScopeS), scopes[sid]? = some x ∧ tok ∈ x.cell := by
  constructor
  · intro h
    simp only [cells, List.mem_flatten, List.mem_map] at h
    obtain ⟨l, ⟨x, hx, rfl⟩, ht⟩ := h
    obtain ⟨i, hi, he⟩ := List.getElem_of_mem hx
    exact ⟨i, x, by simp [List.getElem?_eq_getElem hi, he], ht⟩
  · rintro ⟨sid, x, hx, ht⟩
    simp only [cells, List.mem_flatten, List.mem_map]
    exact ⟨x.cell, ⟨x, List.mem_of_getElem? hx, rfl⟩, ht⟩

theorem filter_ne_self_of_not_mem (l : List (Nat × Pc)) (t : Nat) (h : t ∉ l.map (·.1)) :
    l.filter (·.1 != t) = l := by
  apply List.filter_eq_self.mpr
  intro q hq
  simp only [bne_iff_ne, ne_eq]
  intro he
  exact h (he ▸ List.mem_map_of_mem hq)

theorem lookup_none_of_not_mem (l : List (Nat × Pc)) (t : Nat) (h : t ∉ l.map (·.1)) :
    l.lookup t = none := by
  induction l with
  | nil => rfl
  | cons q l ih =>
    obtain ⟨k, v⟩ := q
    simp only [List.map_cons, List.mem_cons, not_or] at h
    have : (t == k) = false := by simp [h.1]
    simp only [List.lookup, this]
    exact ih h.2

theorem idc_pend_split (n : Token → Bool) (pcs : List (Nat × Pc)) (t : Nat) (hnd : (pcs.map (·.1)).Nodup) :
    idc n (pend pcs) = idc n (pendingOf ((pcs.lookup t).getD .idle)) + idc n (pend (pcs.filter (·.1 != t))) := by
  induction pcs with
  | nil => simp [pendingOf]
  | cons q l ih =>
    obtain ⟨k, v⟩ := q
    simp only [List.map_cons, List.nodup_cons] at hnd
    by_cases hk : k = t
    · subst hk
      simp [List.lookup, List.filter, filter_ne_self_of_not_mem l k hnd.1]
    · have hkt : (k != t) = true := by simp [hk]
      have htk : (t == k) = false := by simp; exact fun e => hk e.symm
      simp only [List.lookup, htk, List.filter, hkt, pend_cons, idc_append, ih hnd.2]
      omega

theorem nodup_setPc_keys (pcs : List (Nat × Pc)) (t : Nat) (p : Pc) (h : (pcs.map (·.1)).Nodup) :
    (((t, p) :: pcs.filter (·.1 != t)).map (·.1)).Nodup := by
  simp only [List.map_cons, List.nodup_cons]
  constructor
  · intro hm
    obtain ⟨q, hq, he⟩ := List.mem_map.mp hm
    have := (List.mem_filter.mp hq).2
    simp [he] at this
  · exact (List.filter_sublist.map _).nodup h

/-! ## the invariant -/

/-- the part of the invariant that only talks about scopes, the map, the ghost list of results and
the dropped tokens -/
structure SInv (san : Nat → Nat) (scopes : List ScopeS) (reg : List (Nat × Nat)) (ho : List (Nat × Nat))
    (dropped : List Token) : Prop where
  cellScope : ∀ (sid : Nat) (x : ScopeS), scopes[sid]? = some x → ∀ tok ∈ x.cell, tok.scope = sid
  clearedOk : ∀ (sid : Nat) (x : ScopeS), scopes[sid]? = some x → x.cleared = true → x.closed = true ∧ x.cell = []
  liveReg : ∀ (sid : Nat) (x : ScopeS), scopes[sid]? = some x → x.closed = false → reg.lookup x.ident = some sid
  regIdent : ∀ k v, (k, v) ∈ reg → ∃ x : ScopeS, scopes[v]? = some x ∧ x.ident = san k
  regNodup : (reg.map (·.1)).Nodup
  handed : ∀ t sid, (t, sid) ∈ ho → sid < scopes.length
  droppedNoPre : NoPre dropped

def allTokens (s : State) : List Token := s.delivered ++ allCells s ++ allPending s ++ s.dropped

structure Inv (san : Nat → Nat) (s : State) : Prop where
  sanIdem : ∀ k, san (san k) = san k
  nodup : (s.pcs.map (·.1)).Nodup
  readersOk : ∀ t, t ∈ s.readers ↔ holdsR (pcOf s t) = true
  pcInv : ∀ t, PcInv s (pcOf s t)
  static : SInv san s.scopes s.reg s.handedOut s.dropped
  tokens : ∀ n, idc (byId n) (allTokens s) = if n < s.nextToken then 1 else 0


/-! ## association-list facts -/

theorem mem_of_lookup {reg : List (Nat × Nat)} {k v : Nat} (h : reg.lookup k = some v) : (k, v) ∈ reg := by
  induction reg with
  | nil => simp [List.lookup] at h
  | cons q l ih =>
    obtain ⟨a, b⟩ := q
    by_cases hk : k = a
    · subst hk
      simp only [List.lookup, beq_self_eq_true, Option.some.injEq] at h
      subst h; exact List.mem_cons_self ..
    · have : (k == a) = false := by simp [hk]
      simp only [List.lookup, this] at h
      exact List.mem_cons_of_mem _ (ih h)

theorem lookup_filter_keep {reg : List (Nat × Nat)} {k v : Nat} (p : Nat × Nat → Bool)
    (h : reg.lookup k = some v) (hp : p (k, v) = true) : (reg.filter p).lookup k = some v := by
  induction reg with
  | nil => simp [List.lookup] at h
  | cons q l ih =>
    obtain ⟨a, b⟩ := q
    by_cases hk : k = a
    · subst hk
      simp only [List.lookup, beq_self_eq_true, Option.some.injEq] at h
      subst h
      simp [List.filter, hp]
    · have hka : (k == a) = false := by simp [hk]
      simp only [List.lookup, hka] at h
      simp only [List.filter]
      split
      · simp only [List.lookup, hka]; exact ih h
      · exact ih h

theorem lookup_filter_ne (reg : List (Nat × Nat)) (i k : Nat) (h : k ≠ i) :
    (reg.filter (·.1 != i)).lookup k = reg.lookup k := by
  induction reg with
  | nil => rfl
  | cons q l ih =>
    obtain ⟨a, b⟩ := q
    by_cases ha : a = i
    · subst ha
      have : (k == a) = false := by simp [h]
      simp [List.filter, List.lookup, this, ih]
    · have hai : (a != i) = true := by simp [ha]
      simp only [List.filter, hai, List.lookup]
      split <;> simp_all

theorem lookup_none_iff {reg : List (Nat × Nat)} {k : Nat} :
    reg.lookup k = none ↔ ∀ v, (k, v) ∉ reg := by
  induction reg with
  | nil => simp [List.lookup]
  | cons q l ih =>
    obtain ⟨a, b⟩ := q
    by_cases hk : k = a
    · subst hk
      simp only [List.lookup, beq_self_eq_true, List.mem_cons, not_or]
      constructor
      · intro h; cases h
      · intro h; exact absurd rfl (h b).1
    · have hka : (k == a) = false := by simp [hk]
      simp only [List.lookup, hka, ih, List.mem_cons, Prod.mk.injEq, not_or, not_and]
      constructor
      · intro h v; exact ⟨fun e => absurd e hk, h v⟩
      · intro h v; exact (h v).2

/-! ## preservation of the static part -/

theorem SInv.set {scopes reg ho dropped} (h : SInv san scopes reg ho dropped) {sid : Nat} {x y : ScopeS}
    (hx : scopes[sid]? = some x) (hid : y.ident = x.ident) (hcl : x.closed = true → y.closed = true)
    (hcell : ∀ tok ∈ y.cell, tok.scope = sid) (hclr : y.cleared = true → y.closed = true ∧ y.cell = []) :
    SInv san (scopes.set sid y) reg ho dropped := by
  have hlt : sid < scopes.length := (List.getElem?_eq_some_iff.mp hx).1
  have key : ∀ (sid' : Nat) (x' : ScopeS), (scopes.set sid y)[sid']? = some x' →
      (sid' = sid ∧ x' = y) ∨ (sid' ≠ sid ∧ scopes[sid']? = some x') := by
    intro sid' x' h'
    rw [List.getElem?_set] at h'
    by_cases he : sid = sid'
    · subst he; simp only [if_true, hlt] at h'; left; exact ⟨rfl, by cases h'; rfl⟩
    · simp only [he, if_false] at h'; right; exact ⟨fun e => he e.symm, h'⟩
  refine ⟨?_, ?_, ?_, ?_, h.regNodup, ?_, h.droppedNoPre⟩
  · intro sid' x' h'
    rcases key sid' x' h' with ⟨rfl, rfl⟩ | ⟨_, h''⟩
    · exact hcell
    · exact h.cellScope sid' x' h''
  · intro sid' x' h'
    rcases key sid' x' h' with ⟨rfl, rfl⟩ | ⟨_, h''⟩
    · exact hclr
    · exact h.clearedOk sid' x' h''
  · intro sid' x' h' hc
    rcases key sid' x' h' with ⟨rfl, rfl⟩ | ⟨_, h''⟩
    · rw [hid]
      apply h.liveReg _ x hx
      cases hxc : x.closed with
      | false => rfl
      | true => rw [hcl hxc] at hc; cases hc
    · exact h.liveReg sid' x' h'' hc
  · intro k v hkv
    obtain ⟨x', hx', hk⟩ := h.regIdent k v hkv
    by_cases he : v = sid
    · subst he
      rw [hx] at hx'; cases hx'
      exact ⟨y, by simp [hlt], by rw [hid, hk]⟩
    · have hne : ¬ sid = v := fun e => he e.symm
      exact ⟨x', by rw [List.getElem?_set]; simp only [hne, if_false]; exact hx', hk⟩
  · intro t sid' hm
    simpa using h.handed t sid' hm

theorem SInv.drop {scopes reg ho dropped} (h : SInv san scopes reg ho dropped) {d : List Token} (hd : NoPre d) :
    SInv san scopes reg ho d :=
  ⟨h.cellScope, h.clearedOk, h.liveReg, h.regIdent, h.regNodup, h.handed, hd⟩

theorem SInv.hand {scopes reg ho dropped} (h : SInv san scopes reg ho dropped) {t sid : Nat}
    (hs : sid < scopes.length) : SInv san scopes reg ((t, sid) :: ho) dropped := by
  refine ⟨h.cellScope, h.clearedOk, h.liveReg, h.regIdent, h.regNodup, ?_, h.droppedNoPre⟩
  intro t' sid' hm
  rcases List.mem_cons.mp hm with he | hm
  · cases he; exact hs
  · exact h.handed t' sid' hm

/-- removal by identity of a closed scope -/
theorem SInv.delete {scopes reg ho dropped} (h : SInv san scopes reg ho dropped) {k sid : Nat} {x : ScopeS}
    (hx : scopes[sid]? = some x) (hc : x.closed = true) :
    SInv san scopes (reg.filter fun (k', v) => !(k' == k && v == sid)) ho dropped := by
  refine ⟨h.cellScope, h.clearedOk, ?_, ?_, (List.filter_sublist.map _).nodup h.regNodup, h.handed, h.droppedNoPre⟩
  · intro sid' x' hx' hc'
    apply lookup_filter_keep _ (h.liveReg sid' x' hx' hc')
    have : sid' ≠ sid := by
      intro e; subst e; rw [hx] at hx'; cases hx'; rw [hc] at hc'; cases hc'
    simp [this]
  · intro k' v hm
    exact h.regIdent k' v (List.mem_filter.mp hm).1

/-- creation of a fresh scope for the (sanitized) identity `i`, replacing whatever the map held for `i`; allowed when
no live scope has identity `i` -/
theorem SInv.create {scopes reg ho dropped} (h : SInv san scopes reg ho dropped) (i : Nat) (hi : san i = i)
    (hno : ∀ (sid : Nat) (x : ScopeS), scopes[sid]? = some x → x.ident = i → x.closed = true) :
    SInv san (scopes ++ [{ ident := i, closed := false, cleared := false, cell := [] }])
      ((i, scopes.length) :: reg.filter (·.1 != i)) ho dropped := by
  have key : ∀ (sid' : Nat) (x' : ScopeS),
      (scopes ++ [({ ident := i, closed := false, cleared := false, cell := [] } : ScopeS)])[sid']? = some x' →
      (sid' = scopes.length ∧ x' = { ident := i, closed := false, cleared := false, cell := [] })
        ∨ (sid' < scopes.length ∧ scopes[sid']? = some x') := by
    intro sid' x' h'
    by_cases hl : sid' < scopes.length
    · right; rw [List.getElem?_append_left hl] at h'; exact ⟨hl, h'⟩
    · left
      rw [List.getElem?_append_right (by omega)] at h'
      have hz : sid' - scopes.length = 0 := by
        cases hh : sid' - scopes.length with
        | zero => rfl
        | succ m => rw [hh] at h'; simp at h'
      rw [hz] at h'
      simp only [List.getElem?_cons_zero, Option.some.injEq] at h'
      exact ⟨by omega, h'.symm⟩
  refine ⟨?_, ?_, ?_, ?_, ?_, ?_, h.droppedNoPre⟩
  · intro sid' x' h'
    rcases key sid' x' h' with ⟨rfl, rfl⟩ | ⟨_, h''⟩
    · intro tok ht; cases ht
    · exact h.cellScope sid' x' h''
  · intro sid' x' h'
    rcases key sid' x' h' with ⟨rfl, rfl⟩ | ⟨_, h''⟩
    · intro hc; cases hc
    · exact h.clearedOk sid' x' h''
  · intro sid' x' h' hc
    rcases key sid' x' h' with ⟨rfl, rfl⟩ | ⟨_, h''⟩
    · simp [List.lookup]
    · have hne : x'.ident ≠ i := by
        intro e; rw [hno sid' x' h'' e] at hc; cases hc
      have : (x'.ident == i) = false := by simp [hne]
      simp only [List.lookup, this]
      rw [lookup_filter_ne _ _ _ hne]
      exact h.liveReg sid' x' h'' hc
  · intro k v hm
    rcases List.mem_cons.mp hm with he | hm
    · cases he
      exact ⟨{ ident := i, closed := false, cleared := false, cell := [] }, by simp, hi.symm⟩
    · obtain ⟨x', hx', hk⟩ := h.regIdent k v (List.mem_filter.mp hm).1
      have hl : v < scopes.length := (List.getElem?_eq_some_iff.mp hx').1
      exact ⟨x', by rw [List.getElem?_append_left hl]; exact hx', hk⟩
  · simp only [List.map_cons, List.nodup_cons]
    constructor
    · intro hm
      obtain ⟨q, hq, he⟩ := List.mem_map.mp hm
      have := (List.mem_filter.mp hq).2
      simp [he] at this
    · exact (List.filter_sublist.map _).nodup h.regNodup
  · intro t' sid' hm
    simp only [List.length_append, List.length_cons, List.length_nil]
    have := h.handed t' sid' hm; omega

/-- registration of the so far unregistered raw key `r` as an alias of a scope of identity `san r` -/
theorem SInv.alias {scopes reg ho dropped} (h : SInv san scopes reg ho dropped) {r sid : Nat} {x : ScopeS}
    (hr : reg.lookup r = none) (hx : scopes[sid]? = some x) (hi : x.ident = san r) :
    SInv san scopes ((r, sid) :: reg) ho dropped := by
  refine ⟨h.cellScope, h.clearedOk, ?_, ?_, ?_, h.handed, h.droppedNoPre⟩
  · intro sid' x' hx' hc
    have hl := h.liveReg sid' x' hx' hc
    have hne : x'.ident ≠ r := by intro e; rw [e, hr] at hl; cases hl
    have : (x'.ident == r) = false := by simp [hne]
    simp only [List.lookup, this]; exact hl
  · intro k v hm
    rcases List.mem_cons.mp hm with he | hm
    · cases he; exact ⟨x, hx, hi⟩
    · exact h.regIdent k v hm
  · simp only [List.map_cons, List.nodup_cons]
    refine ⟨?_, h.regNodup⟩
    intro hm
    obtain ⟨⟨a, b⟩, hq, he⟩ := List.mem_map.mp hm
    simp only at he; subst he
    exact lookup_none_iff.mp hr b hq

/-- in a state satisfying the static invariant, if the map has nothing for `i`, or what it has is a closed
scope, then no live scope has identity `i` -/
theorem SInv.no_live {scopes reg ho dropped} (h : SInv san scopes reg ho dropped) (i : Nat)
    (hl : reg.lookup i = none ∨ ∃ (sid : Nat) (x : ScopeS), reg.lookup i = some sid ∧ scopes[sid]? = some x ∧ x.closed = true) :
    ∀ (sid : Nat) (x : ScopeS), scopes[sid]? = some x → x.ident = i → x.closed = true := by
  intro sid x hx hi
  cases hc : x.closed with
  | true => rfl
  | false =>
    have := h.liveReg sid x hx hc
    rw [hi] at this
    rcases hl with hl | ⟨sid', x', hl, hx', hc'⟩
    · rw [hl] at this; cases this
    · rw [hl] at this; cases this
      rw [hx] at hx'; cases hx'
      rw [hc] at hc'; cases hc'


/-! ## the master preservation lemma for steps of a thread `t` -/

theorem pcOf_congr {s s0 : State} (h : s0.pcs = s.pcs) (t : Nat) : pcOf s0 t = pcOf s t := by
  simp [pcOf, h]

theorem allTokens_idc (n : Token → Bool) (s : State) :
    idc n (allTokens s) = idc n s.delivered + idc n (cells s.scopes) + idc n (pend s.pcs) + idc n s.dropped := by
  simp only [allTokens, allCells_eq, allPending_eq, idc_append]

/-- tokens never vanish: whatever selector, a step never lowers the count -/
def TokMono (s s' : State) : Prop := ∀ q, idc q (allTokens s) ≤ idc q (allTokens s')

theorem TokMono.trans {a b c : State} (h1 : TokMono a b) (h2 : TokMono b c) : TokMono a c :=
  fun q => Nat.le_trans (h1 q) (h2 q)

/-- what every step establishes: the invariant afterwards, and no token lost -/
def Pres (san : Nat → Nat) (s s' : State) : Prop := Inv san s' ∧ TokMono s s' ∧ ScopeLe s s'

theorem Inv.thread {s s0 : State} (h : Inv san s) (t : Nat) (p' : Pc)
    (hpcs : s0.pcs = s.pcs)
    (hle : ScopeLe s s0)
    (hp' : PcInv s0 p')
    (hrd : ∀ t', t' ∈ s0.readers ↔ if t' = t then holdsR p' = true else t' ∈ s.readers)
    (hst : SInv san s0.scopes s0.reg s0.handedOut s0.dropped)
    (hnt : s0.nextToken = s.nextToken)
    (htok : ∀ n, idc n s0.delivered + idc n (cells s0.scopes) + idc n s0.dropped + idc n (pendingOf p')
        = idc n s.delivered + idc n (cells s.scopes) + idc n s.dropped + idc n (pendingOf (pcOf s t))) :
    Pres san s (setPc s0 t p') := by
  refine ⟨⟨h.sanIdem, ?_, ?_, ?_, hst, ?_⟩, ?_, hle⟩
  rotate_right
  · intro q
    rw [allTokens_idc, allTokens_idc]
    have h2 := idc_pend_split q s.pcs t h.nodup
    have h3 := htok q
    simp only [setPc_pcs, setPc_delivered, setPc_scopes, setPc_dropped, pend_cons,
      idc_append, hpcs]
    unfold pcOf at h3
    omega
  · rw [setPc_pcs, hpcs]; exact nodup_setPc_keys _ _ _ h.nodup
  · intro t'
    rw [pcOf_setPc, setPc_readers, hrd t']
    by_cases he : t' = t
    · simp [he]
    · simp only [he, if_false]
      rw [pcOf_congr hpcs]; exact h.readersOk t'
  · intro t'
    rw [pcOf_setPc]
    by_cases he : t' = t
    · simp only [he, if_true]; exact hp'
    · simp only [he, if_false]
      rw [pcOf_congr hpcs]
      exact PcInv.mono (s' := s0) hle (h.pcInv t')
  · intro n
    have h1 := h.tokens n
    rw [allTokens_idc] at h1 ⊢
    have h2 := idc_pend_split (byId n) s.pcs t h.nodup
    have h3 := htok (byId n)
    simp only [setPc_pcs, setPc_delivered, setPc_scopes, setPc_dropped, setPc_nextToken, pend_cons,
      idc_append, hpcs, hnt]
    unfold pcOf at h3
    omega

/-- events that do not touch any thread's pc (record, close); `nt` = the token minted, if any -/
theorem Inv.noPc {s s' : State} (h : Inv san s)
    (hpcs : s'.pcs = s.pcs) (hrd : s'.readers = s.readers)
    (hle : ScopeLe s s')
    (hst : SInv san s'.scopes s'.reg s'.handedOut s'.dropped)
    (nt : List Token)
    (htok : ∀ q, idc q s'.delivered + idc q (cells s'.scopes) + idc q s'.dropped
        = idc q s.delivered + idc q (cells s.scopes) + idc q s.dropped + idc q nt)
    (hnt : (nt = [] ∧ s'.nextToken = s.nextToken)
      ∨ (∃ tok, nt = [tok] ∧ tok.id = s.nextToken ∧ s'.nextToken = s.nextToken + 1)) :
    Pres san s s' := by
  refine ⟨⟨h.sanIdem, by rw [hpcs]; exact h.nodup, ?_, ?_, hst, ?_⟩, ?_, hle⟩
  · intro t; rw [hrd, pcOf_congr hpcs]; exact h.readersOk t
  · intro t; rw [pcOf_congr hpcs]; exact PcInv.mono hle (h.pcInv t)
  · intro n
    have h1 := h.tokens n
    rw [allTokens_idc] at h1 ⊢
    have h3 := htok (byId n)
    rw [hpcs]
    rcases hnt with ⟨rfl, hnt⟩ | ⟨tok, rfl, hid, hnt⟩
    · rw [idc_nil] at h3
      rw [hnt]; omega
    · simp only [idc_cons, idc_nil, byId, hid, beq_iff_eq] at h3
      by_cases hn : s.nextToken = n
      · have h1' : ¬ n < s.nextToken := by omega
        have h2' : n < s'.nextToken := by omega
        rw [if_pos hn] at h3
        rw [if_neg h1'] at h1
        rw [if_pos h2']; omega
      · rw [if_neg hn] at h3
        by_cases hlt : n < s.nextToken
        · have h2' : n < s'.nextToken := by omega
          rw [if_pos hlt] at h1
          rw [if_pos h2']; omega
        · have h2' : ¬ n < s'.nextToken := by omega
          rw [if_neg hlt] at h1
          rw [if_neg h2']; omega
  · intro q
    rw [allTokens_idc, allTokens_idc, hpcs]
    have := htok q
    omega

/-! ## case families -/

theorem PcInv.of_none {s : State} {p : Pc} (h : pcScope p = none) : PcInv s p := by
  intro sid hs; rw [h] at hs; cases hs

/-- family: the thread only moves its pc (no lock, no data) -/
theorem Inv.move {s : State} (h : Inv san s) (t : Nat) (p' : Pc)
    (hh : holdsR p' = holdsR (pcOf s t)) (hp : pendingOf (pcOf s t) = []) (hp' : pendingOf p' = [])
    (hi : PcInv s p') : Pres san s (setPc s t p') := by
  refine h.thread t p' rfl (ScopeLe.refl' _ _ rfl) hi ?_ h.static rfl ?_
  · intro t'
    by_cases he : t' = t
    · subst he; simp only [if_true, hh]; exact h.readersOk t'
    · simp [he]
  · intro n; rw [hp, hp']

/-- family: `obtain` returns a scope (pc move + ghost result list) -/
theorem Inv.hand {s : State} (h : Inv san s) (t i sid : Nat) {x : ScopeS} (hx : scopeOf s sid = some x)
    (hh : holdsR (pcOf s t) = false) (hp : pendingOf (pcOf s t) = []) :
    Pres san s (handOut s t i sid) := by
  refine Inv.thread (s0 := { s with handedOut := (t, sid) :: s.handedOut }) h t (.obtDone i sid) rfl
    (ScopeLe.refl' _ _ rfl) ?_ ?_ (h.static.hand (scopeOf_lt hx)) rfl ?_
  · intro sid' hs
    simp only [pcScope, Option.some.injEq] at hs; subst hs
    exact ⟨x, hx, fun hc => by simp [pcClosed] at hc⟩
  · intro t'
    by_cases he : t' = t
    · subst he; simp only [if_true, holdsR]
      rw [h.readersOk t', hh]
    · simp [he]
  · intro n; rw [hp]; rfl

/-- family: the thread takes the read lock -/
theorem Inv.acquire {s : State} (h : Inv san s) (t : Nat) (p' : Pc)
    (hh' : holdsR p' = true) (hp : pendingOf (pcOf s t) = []) (hp' : pendingOf p' = [])
    (hi : PcInv s p') : Pres san s (setPc (addReader s t) t p') := by
  refine h.thread t p' rfl (ScopeLe.refl' _ _ rfl) hi ?_ h.static rfl ?_
  · intro t'
    by_cases he : t' = t
    · subst he; simp [hh']
    · simp [he]
  · intro n; rw [hp, hp']; rfl

/-- family: the thread releases the read lock -/
theorem Inv.release {s : State} (h : Inv san s) (t : Nat) (p' : Pc)
    (hh' : holdsR p' = false) (hp : pendingOf (pcOf s t) = []) (hp' : pendingOf p' = [])
    (hi : PcInv s p') : Pres san s (setPc (delReader s t) t p') := by
  refine h.thread t p' rfl (ScopeLe.refl' _ _ rfl) hi ?_ h.static rfl ?_
  · intro t'
    by_cases he : t' = t
    · subst he; simp [hh']
    · simp [he]
  · intro n; rw [hp, hp']; rfl

/-- family: the visit swaps the scope's cell out -/
theorem Inv.swap {s : State} (h : Inv san s) (t sid : Nat) (p' : Pc) {x : ScopeS} (hx : scopeOf s sid = some x)
    (hh : holdsR p' = holdsR (pcOf s t)) (hp : pendingOf (pcOf s t) = []) (hp' : pendingOf p' = x.cell)
    (hsc : pcScope (pcOf s t) = some sid) (hsc' : pcScope p' = some sid)
    (hcl : pcClosed p' = pcClosed (pcOf s t)) :
    Pres san s (setPc (setScope s sid { x with cell := [] }) t p') := by
  have hx' : s.scopes[sid]? = some x := hx
  refine h.thread t p' rfl (scopeLe_setScope hx rfl fun hc => ⟨hc, fun _ => NoPre_nil⟩) ?_ ?_
    (h.static.set hx' rfl id (by intro _ hm; cases hm) (fun hc => ?_)) rfl ?_
  · intro sid' hs
    rw [hsc'] at hs; cases hs
    refine ⟨{ x with cell := [] }, by simp [scopeOf_setScope, scopeOf_lt hx], fun hc => ⟨?_, fun _ => NoPre_nil⟩⟩
    obtain ⟨x0, hx0, hc0⟩ := h.pcInv t sid hsc
    rw [hx] at hx0; cases hx0
    exact (hc0 (hcl ▸ hc)).1
  · intro t'
    by_cases he : t' = t
    · subst he; simp only [if_true, hh]; exact h.readersOk t'
    · simp [he]
  · exact ⟨(h.static.clearedOk sid x hx' hc).1, rfl⟩
  · intro n
    have := idc_cells_set n s.scopes sid x { x with cell := [] } hx'
    simp only [setScope_scopes, hp, hp', idc_nil] at this ⊢
    show idc n s.delivered + idc n (cells (s.scopes.set sid { x with cell := [] })) + idc n s.dropped + idc n x.cell = _
    omega

/-- family: the visit hands its pending delta to the reporter -/
theorem Inv.deliver {s : State} (h : Inv san s) (t : Nat) (p' : Pc) (pd : List Token)
    (hh : holdsR p' = holdsR (pcOf s t)) (hp : pendingOf (pcOf s t) = pd) (hp' : pendingOf p' = [])
    (hi : PcInv s p') : Pres san s (setPc { s with delivered := pd ++ s.delivered } t p') := by
  refine Inv.thread (s0 := { s with delivered := pd ++ s.delivered }) h t p' rfl
    (ScopeLe.refl' _ _ rfl) hi ?_ h.static rfl ?_
  · intro t'
    by_cases he : t' = t
    · subst he; simp only [if_true, hh]; exact h.readersOk t'
    · simp [he]
  · intro n; rw [hp, hp']; simp only [idc_append, idc_nil]; omega

/-- family: removal by identity, under the write lock, of a scope the thread knows to be closed -/
theorem Inv.delete {s : State} (h : Inv san s) (t k sid : Nat) (p' : Pc)
    (hh : holdsR (pcOf s t) = false) (hh' : holdsR p' = false)
    (hp : pendingOf (pcOf s t) = []) (hp' : pendingOf p' = [])
    (hsc : pcScope (pcOf s t) = some sid) (hcl : pcClosed (pcOf s t) = true)
    (hi : PcInv s p') : Pres san s (setPc (deleteIfSame s k sid) t p') := by
  obtain ⟨x, hx, hc⟩ := h.pcInv t sid hsc
  refine h.thread t p' rfl (ScopeLe.refl' _ _ rfl) hi ?_ (h.static.delete (k := k) hx (hc hcl).1) rfl ?_
  · intro t'
    by_cases he : t' = t
    · subst he; simp only [if_true, hh']; rw [← hh]; exact h.readersOk t'
    · simp [he]
  · intro n; rw [hp, hp']; rfl

theorem clearScope_eq {s : State} {sid : Nat} {x : ScopeS} (hx : scopeOf s sid = some x) :
    clearScope s sid = { setScope s sid { x with cleared := true, cell := [] } with dropped := x.cell ++ s.dropped } := by
  simp [clearScope, hx]

/-- family: the thread clears the metrics of a scope it knows to be closed and has reported since -/
theorem Inv.clear {s : State} (h : Inv san s) (t sid : Nat) (p' : Pc)
    (hh : holdsR p' = holdsR (pcOf s t))
    (hp : pendingOf (pcOf s t) = []) (hp' : pendingOf p' = [])
    (hsc : pcScope (pcOf s t) = some sid) (hcl : pcClosed (pcOf s t) = true) (hsw : pcSwapped (pcOf s t) = true)
    (hsc' : pcScope p' = none) : Pres san s (setPc (clearScope s sid) t p') := by
  obtain ⟨x, hx, hc⟩ := h.pcInv t sid hsc
  obtain ⟨hxc, hnp⟩ := hc hcl
  have hnp := hnp hsw
  have hx' : s.scopes[sid]? = some x := hx
  rw [clearScope_eq hx]
  refine Inv.thread (s0 := { setScope s sid { x with cleared := true, cell := [] } with dropped := x.cell ++ s.dropped })
    h t p' rfl ?_ (PcInv.of_none hsc') ?_ ?_ rfl ?_
  · have := scopeLe_setScope (y := { x with cleared := true, cell := [] }) hx rfl fun hc => ⟨hc, fun _ => NoPre_nil⟩
    intro sid' x' h'
    exact this sid' x' h'
  · intro t'
    by_cases he : t' = t
    · subst he; simp only [if_true, hh]; exact h.readersOk t'
    · simp [he]
  · refine (h.static.set (y := { x with cleared := true, cell := [] }) hx' rfl id (by intro _ hm; cases hm) (fun _ => ⟨hxc, rfl⟩)).drop ?_
    intro tok hm
    rcases List.mem_append.mp hm with hm | hm
    · exact hnp tok hm
    · exact h.static.droppedNoPre tok hm
  · intro n
    have := idc_cells_set n s.scopes sid x { x with cleared := true, cell := [] } hx'
    simp only [hp, hp', idc_nil] at this ⊢
    show idc n s.delivered + idc n (cells (s.scopes.set sid { x with cleared := true, cell := [] }))
      + idc n (x.cell ++ s.dropped) + 0 = _
    rw [idc_append]; omega

theorem SInv.addAlias {s : State} {ho : List (Nat × Nat)} {d : List Token} (h : SInv san s.scopes s.reg ho d)
    {r sid : Nat} {x : ScopeS} (hx : scopeOf s sid = some x) (hi : x.ident = san r) :
    SInv san (addAlias s r sid).scopes (addAlias s r sid).reg ho d := by
  cases hl : lookup s r with
  | some w => rw [addAlias_some hl]; exact h
  | none => rw [addAlias_none hl]; exact h.alias hl hx hi

/-- family: `obtain` returns a scope found under the sanitized key, registering the raw key as an alias of it -/
theorem Inv.handAlias {s : State} (h : Inv san s) (t r sid : Nat) {x : ScopeS} (hx : scopeOf s sid = some x)
    (hi : x.ident = san r) (hh : holdsR (pcOf s t) = false) (hp : pendingOf (pcOf s t) = []) :
    Pres san s (handOut (addAlias s r sid) t r sid) := by
  refine Inv.thread (s0 := { addAlias s r sid with handedOut := (t, sid) :: (addAlias s r sid).handedOut }) h t (.obtDone r sid)
    (addAlias_pcs ..) (ScopeLe.refl' _ _ (addAlias_scopes ..)) ?_ ?_ ?_ (addAlias_nextToken ..) ?_
  · intro sid' hs
    simp only [pcScope, Option.some.injEq] at hs; subst hs
    exact ⟨x, by simpa [scopeOf] using hx, fun hc => by simp [pcClosed] at hc⟩
  · intro t'
    show t' ∈ (addAlias s r sid).readers ↔ _
    rw [addAlias_readers]
    by_cases he : t' = t
    · subst he; simp only [if_true, holdsR]
      rw [h.readersOk t', hh]
    · simp [he]
  · show SInv san (addAlias s r sid).scopes (addAlias s r sid).reg ((t, sid) :: (addAlias s r sid).handedOut)
      (addAlias s r sid).dropped
    rw [addAlias_handedOut, addAlias_dropped]
    exact (h.static.addAlias hx hi).hand (by simpa using scopeOf_lt hx)
  · intro n; rw [hp]
    show idc n (addAlias s r sid).delivered + idc n (cells (addAlias s r sid).scopes)
      + idc n (addAlias s r sid).dropped + idc n (pendingOf (.obtDone r sid)) = _
    simp [pendingOf]

theorem scopeOf_createScope_new (s : State) (i : Nat) :
    scopeOf (createScope s i) s.scopes.length = some { ident := i, closed := false, cleared := false, cell := [] } := by
  show (s.scopes ++ _)[s.scopes.length]? = _
  simp

/-- family: creation (sanitized key absent, or after the D4c report-and-drop prefix) -/
theorem Inv.fresh {s : State} (h : Inv san s) (t r : Nat)
    (hh : holdsR (pcOf s t) = false) (hp : pendingOf (pcOf s t) = [])
    (hno : ∀ (sid : Nat) (x : ScopeS), s.scopes[sid]? = some x → x.ident = san r → x.closed = true) :
    Pres san s (freshS s t r (san r)) := by
  have hst : SInv san (createScope s (san r)).scopes (createScope s (san r)).reg s.handedOut s.dropped :=
    h.static.create (san r) (h.sanIdem r) hno
  refine Inv.thread (s0 := { addAlias (createScope s (san r)) r s.scopes.length with
      handedOut := (t, s.scopes.length) :: (addAlias (createScope s (san r)) r s.scopes.length).handedOut })
    h t (.obtDone r s.scopes.length) (addAlias_pcs ..) ?_ ?_ ?_ ?_ (addAlias_nextToken ..) ?_
  · intro sid x hx
    refine ⟨x, ?_, rfl, fun hc => ⟨hc, id⟩⟩
    show (addAlias (createScope s (san r)) r s.scopes.length).scopes[sid]? = some x
    rw [addAlias_scopes]
    show (s.scopes ++ _)[sid]? = some x
    rw [List.getElem?_append_left (scopeOf_lt hx)]; exact hx
  · intro sid hs
    simp only [pcScope, Option.some.injEq] at hs; subst hs
    refine ⟨{ ident := san r, closed := false, cleared := false, cell := [] }, ?_, fun hc => by simp [pcClosed] at hc⟩
    show (addAlias (createScope s (san r)) r s.scopes.length).scopes[s.scopes.length]? = _
    rw [addAlias_scopes]
    exact scopeOf_createScope_new s (san r)
  · intro t'
    show t' ∈ (addAlias (createScope s (san r)) r s.scopes.length).readers ↔ _
    rw [addAlias_readers]
    show t' ∈ s.readers ↔ _
    by_cases he : t' = t
    · subst he; simp only [if_true, holdsR]; rw [h.readersOk t', hh]
    · simp [he]
  · show SInv san (addAlias (createScope s (san r)) r s.scopes.length).scopes
      (addAlias (createScope s (san r)) r s.scopes.length).reg
      ((t, s.scopes.length) :: (addAlias (createScope s (san r)) r s.scopes.length).handedOut)
      (addAlias (createScope s (san r)) r s.scopes.length).dropped
    rw [addAlias_handedOut, addAlias_dropped]
    refine (hst.addAlias (scopeOf_createScope_new s (san r)) rfl).hand ?_
    rw [addAlias_scopes]
    show s.scopes.length < (s.scopes ++ _).length
    simp
  · intro n
    rw [hp]
    show idc n (addAlias (createScope s (san r)) r s.scopes.length).delivered
      + idc n (cells (addAlias (createScope s (san r)) r s.scopes.length).scopes)
      + idc n (addAlias (createScope s (san r)) r s.scopes.length).dropped
      + idc n (pendingOf (.obtDone r s.scopes.length)) = _
    rw [addAlias_delivered, addAlias_scopes, addAlias_dropped]
    show idc n s.delivered + idc n (cells (s.scopes ++ _)) + idc n s.dropped + _ = _
    rw [cells_append]; simp [pendingOf]

/-- the D4c prefix, spelled out: report the closed scope still registered under the sanitized key `i`, unregister
it under `i` and under the raw key `r`, clear it -/
theorem d4cS_eq {s : State} {r i sid : Nat} {x : ScopeS} (hx : scopeOf s sid = some x) :
    d4cS s r i sid x =
      { s with scopes := s.scopes.set sid { x with cleared := true, cell := [] },
               reg := (s.reg.filter fun (k', v) => !(k' == i && v == sid)).filter fun (k', v) => !(k' == r && v == sid),
               delivered := x.cell ++ s.delivered } := by
  have hlt := scopeOf_lt hx
  simp [d4cS, clearScope, scopeOf, deleteIfSame, setScope, hlt]

theorem step_obtWantLock_blocked {s : State} {t c r : Nat} (hpc : pcOf s t = .obtWantLock r)
    (hr : s.readers ≠ []) : step san s (.step t c) = none := by
  have : (!s.readers.isEmpty) = true := by cases hh : s.readers <;> simp_all
  simp only [step, hpc, this, if_true]

theorem step_obtWantLock_none {s : State} {t c r : Nat} (hpc : pcOf s t = .obtWantLock r)
    (hr : s.readers = []) (hl : lookup s (san r) = none) :
    step san s (.step t c) = some (freshS s t r (san r)) := by
  have he : (!s.readers.isEmpty) = false := by simp [hr]
  simp only [step, hpc, he, hl, Bool.false_eq_true, if_false]

theorem step_obtWantLock_some {s : State} {t c r sid : Nat} {x : ScopeS} (hpc : pcOf s t = .obtWantLock r)
    (hr : s.readers = []) (hl : lookup s (san r) = some sid) (hx : scopeOf s sid = some x) :
    step san s (.step t c) =
      if !x.closed then some (handOut (addAlias s r sid) t r sid)
      else if visiting s sid then none else some (freshS (d4cS s r (san r) sid x) t r (san r)) := by
  have he : (!s.readers.isEmpty) = false := by simp [hr]
  simp only [step, hpc, he, hl, hx, Bool.false_eq_true, if_false]

theorem step_obtWantLock_noscope {s : State} {t c r sid : Nat} (hpc : pcOf s t = .obtWantLock r)
    (hl : lookup s (san r) = some sid) (hx : scopeOf s sid = none) : step san s (.step t c) = none := by
  simp only [step, hpc, hl, hx]; split <;> rfl

theorem Inv.d4cPre {s : State} (h : Inv san s) (r i sid : Nat) {x : ScopeS} (hx : scopeOf s sid = some x)
    (hc : x.closed = true) : Pres san s (d4cS s r i sid x) := by
  have hx' : s.scopes[sid]? = some x := hx
  have hlt := scopeOf_lt hx
  rw [d4cS_eq hx]
  refine h.noPc rfl rfl ?_ ?_ [] ?_ (Or.inl ⟨rfl, rfl⟩)
  · have := scopeLe_setScope (y := { x with cleared := true, cell := [] }) hx rfl fun hc => ⟨hc, fun _ => NoPre_nil⟩
    intro sid' x' h'
    exact this sid' x' h'
  · have h1 := h.static.set (y := { x with cleared := true, cell := [] }) hx' rfl id
      (by intro _ hm; cases hm) (fun _ => ⟨hc, rfl⟩)
    have h2 := h1.delete (k := i) (sid := sid) (x := { x with cleared := true, cell := [] })
      (by simp [hlt]) hc
    exact h2.delete (k := r) (sid := sid) (x := { x with cleared := true, cell := [] })
      (by simp [hlt]) hc
  · intro n
    have := idc_cells_set n s.scopes sid x { x with cleared := true, cell := [] } hx'
    show idc n (x.cell ++ s.delivered) + idc n (cells (s.scopes.set sid { x with cleared := true, cell := [] }))
      + idc n s.dropped = _
    simp only [idc_append, idc_nil] at this ⊢
    omega

@[simp] theorem pcOf_d4cS (s : State) (r i sid : Nat) (x : ScopeS) (t' : Nat) :
    pcOf (d4cS s r i sid x) t' = pcOf s t' := by
  unfold d4cS clearScope; split <;> rfl

/-- family: the D4c branch (report, drop and re-create inside one write-locked step) -/
theorem Inv.d4c {s : State} (h : Inv san s) (t r sid : Nat) {x : ScopeS}
    (hh : holdsR (pcOf s t) = false) (hp : pendingOf (pcOf s t) = [])
    (hl : lookup s (san r) = some sid) (hx : scopeOf s sid = some x) (hc : x.closed = true) :
    Pres san s (freshS (d4cS s r (san r) sid x) t r (san r)) := by
  have hlt := scopeOf_lt hx
  have hno := h.static.no_live (san r) (Or.inr ⟨sid, x, hl, hx, hc⟩)
  have hpre := h.d4cPre r (san r) sid hx hc
  have hfr : Pres san (d4cS s r (san r) sid x) (freshS (d4cS s r (san r) sid x) t r (san r)) := by
    refine hpre.1.fresh t r (by rw [pcOf_d4cS]; exact hh) (by rw [pcOf_d4cS]; exact hp) ?_
    intro sid' x' hx' hi
    rw [d4cS_eq hx] at hx'
    have hx'' : (s.scopes.set sid { x with cleared := true, cell := [] })[sid']? = some x' := hx'
    rw [List.getElem?_set] at hx''
    by_cases he : sid = sid'
    · simp only [he, if_true] at hx''
      subst he
      simp only [hlt, if_true, Option.some.injEq] at hx''
      rw [← hx'']; exact hc
    · simp only [he, if_false] at hx''
      exact hno sid' x' hx'' hi
  exact ⟨hfr.1, hpre.2.1.trans hfr.2.1, hpre.2.2.trans hfr.2.2⟩

theorem PcInv.of_same {s : State} {p p' : Pc} (h : PcInv s p) (hs : pcScope p' = pcScope p)
    (hc : pcClosed p' = true → pcClosed p = true)
    (hw : pcClosed p' = true → pcSwapped p' = true → pcSwapped p = true) : PcInv s p' := by
  intro sid hsid
  obtain ⟨x, hx, hcx⟩ := h sid (hs ▸ hsid)
  exact ⟨x, hx, fun hc' => ⟨(hcx (hc hc')).1, fun hw' => (hcx (hc hc')).2 (hw hc' hw')⟩⟩

/-! ## preservation, event by event -/

theorem inv_record {s s' : State} {sid : Nat} (h : Inv san s) (hs : step san s (.record sid) = some s') : Pres san s s' := by
  simp only [step] at hs
  split at hs
  · cases hs
  · next x hx =>
    have hx' : s.scopes[sid]? = some x := hx
    split at hs
    · next hcl =>
      cases hs
      refine h.noPc rfl rfl (ScopeLe.refl' _ _ rfl) ?_ [{ id := s.nextToken, scope := sid, pre := !x.closed }] ?_
        (Or.inr ⟨_, rfl, rfl, rfl⟩)
      · refine h.static.drop ?_
        intro tok hm
        rcases List.mem_cons.mp hm with rfl | hm
        · simp [(h.static.clearedOk sid x hx' hcl).1]
        · exact h.static.droppedNoPre tok hm
      · intro n
        simp only [idc_cons, idc_nil]
        omega
    · next hcl =>
      cases hs
      refine h.noPc rfl rfl ?_ ?_ [{ id := s.nextToken, scope := sid, pre := !x.closed }] ?_
        (Or.inr ⟨_, rfl, rfl, rfl⟩)
      · have := scopeLe_setScope (y := { x with cell := { id := s.nextToken, scope := sid, pre := !x.closed } :: x.cell })
          hx rfl (fun hc => ⟨hc, fun hnp tok hm => ?_⟩)
        · intro sid' x' h'; exact this sid' x' h'
        · rcases List.mem_cons.mp hm with rfl | hm
          · simp [hc]
          · exact hnp tok hm
      · refine h.static.set (y := { x with cell := { id := s.nextToken, scope := sid, pre := !x.closed } :: x.cell })
          hx' rfl id ?_ ?_
        · intro tok hm
          rcases List.mem_cons.mp hm with rfl | hm
          · rfl
          · exact h.static.cellScope sid x hx' tok hm
        · intro hc; exact absurd hc hcl
      · intro n
        have := idc_cells_set n s.scopes sid x
          { x with cell := { id := s.nextToken, scope := sid, pre := !x.closed } :: x.cell } hx'
        show idc n s.delivered + idc n (cells (s.scopes.set sid _)) + idc n s.dropped = _
        simp only [idc_cons, idc_nil] at this ⊢
        omega

theorem inv_close {s s' : State} {sid : Nat} (h : Inv san s) (hs : step san s (.close sid) = some s') : Pres san s s' := by
  simp only [step] at hs
  split at hs
  · cases hs
  · next x hx =>
    have hx' : s.scopes[sid]? = some x := hx
    cases hs
    refine h.noPc rfl rfl (scopeLe_setScope hx rfl fun _ => ⟨rfl, id⟩) ?_ [] ?_ (Or.inl ⟨rfl, rfl⟩)
    · exact h.static.set (y := { x with closed := true }) hx' rfl (fun _ => rfl)
        (h.static.cellScope sid x hx') (fun hc => ⟨rfl, (h.static.clearedOk sid x hx' hc).2⟩)
    · intro n
      have := idc_cells_set n s.scopes sid x { x with closed := true } hx'
      show idc n s.delivered + idc n (cells (s.scopes.set sid _)) + idc n s.dropped = _
      dsimp only at this
      rw [idc_nil]
      omega

theorem pcOf_idle_of {s : State} {t : Nat} (h : ¬ (pcOf s t != .idle) = true) : pcOf s t = .idle := by
  simpa using h

theorem inv_obtain {s s' : State} {t i : Nat} (h : Inv san s) (hs : step san s (.obtain t i) = some s') : Pres san s s' := by
  simp only [step] at hs
  split at hs
  · cases hs
  · next hi =>
    have hpc := pcOf_idle_of hi
    cases hs
    exact h.move t _ (by rw [hpc]; rfl) (by rw [hpc]; rfl) rfl (PcInv.of_none rfl)

theorem inv_passBegin {s s' : State} {t : Nat} (h : Inv san s) (hs : step san s (.passBegin t) = some s') : Pres san s s' := by
  simp only [step] at hs
  split at hs
  · cases hs
  · next hi =>
    have hpc := pcOf_idle_of hi
    cases hs
    exact h.acquire t _ rfl (by rw [hpc]; rfl) rfl (PcInv.of_none rfl)

theorem inv_passEndHint {s s' : State} {t : Nat} (h : Inv san s) (hs : step san s (.passEndHint t) = some s') : Pres san s s' := by
  simp only [step] at hs
  split at hs
  · next v hpc =>
    cases hs
    exact h.release t _ rfl (by rw [hpc]; rfl) rfl (PcInv.of_none rfl)
  · cases hs


section threadSteps
variable {s s' : State} {t c : Nat}

theorem inv_passIter {v : List (Nat × Nat)} (h : Inv san s) (hpc : pcOf s t = .passIter v)
    (hs : step san s (.step t c) = some s') : Pres san s s' := by
  simp only [step, hpc] at hs
  split at hs
  · cases hs
  · next sid hl =>
    split at hs
    · cases hs
    · split at hs
      · cases hs
      · next x hx =>
        cases hs
        refine h.move t _ (by rw [hpc]; rfl) (by rw [hpc]; rfl) rfl ?_
        intro sid' hs'
        simp only [pcScope, Option.some.injEq] at hs'; subst hs'
        exact ⟨x, hx, fun hc => ⟨by simpa [pcClosed] using hc, fun hsw => by simp [pcSwapped] at hsw⟩⟩

theorem inv_passSwap {v : List (Nat × Nat)} {k sid : Nat} {cl : Bool} (h : Inv san s) (hpc : pcOf s t = .passSwap v k sid cl)
    (hs : step san s (.step t c) = some s') : Pres san s s' := by
  simp only [step, hpc] at hs
  split at hs
  · cases hs
  · next x hx =>
    cases hs
    refine h.swap t sid _ hx ?_ (by rw [hpc]; rfl) ?_ (by rw [hpc]; rfl) ?_ ?_
    · rw [hpc]; split <;> rfl
    · split
      · next he => simp only [pendingOf]; exact (List.isEmpty_iff.mp he).symm
      · rfl
    · split <;> rfl
    · rw [hpc]; split <;> rfl

theorem inv_passDeliver {v : List (Nat × Nat)} {k sid : Nat} {cl : Bool} {pd : List Token} (h : Inv san s)
    (hpc : pcOf s t = .passDeliver v k sid cl pd) (hs : step san s (.step t c) = some s') : Pres san s s' := by
  simp only [step, hpc] at hs
  cases hs
  refine h.deliver t _ pd (by rw [hpc]; rfl) (by rw [hpc]; rfl) rfl ?_
  exact (hpc ▸ h.pcInv t : PcInv s (.passDeliver v k sid cl pd)).of_same rfl id (fun _ _ => rfl)

theorem inv_passAfter {v : List (Nat × Nat)} {k sid : Nat} {cl : Bool} (h : Inv san s)
    (hpc : pcOf s t = .passAfter v k sid cl) (hs : step san s (.step t c) = some s') : Pres san s s' := by
  simp only [step, hpc] at hs
  split at hs
  · next hcl =>
    cases hs
    refine h.release t _ rfl (by rw [hpc]; rfl) rfl ?_
    exact (hpc ▸ h.pcInv t : PcInv s (.passAfter v k sid cl)).of_same rfl (fun _ => hcl) (fun _ _ => rfl)
  · cases hs
    exact h.move t _ (by rw [hpc]; rfl) (by rw [hpc]; rfl) rfl (PcInv.of_none rfl)

theorem isEmpty_of_not_not {l : List Nat} (h : ¬ (!l.isEmpty) = true) : l = [] := by
  cases l with
  | nil => rfl
  | cons a l => simp at h

theorem inv_passUnlocked {v : List (Nat × Nat)} {k sid : Nat} (h : Inv san s)
    (hpc : pcOf s t = .passUnlocked v k sid) (hs : step san s (.step t c) = some s') : Pres san s s' := by
  simp only [step, hpc] at hs
  split at hs
  · cases hs
  · cases hs
    refine h.delete t k sid _ (by rw [hpc]; rfl) rfl (by rw [hpc]; rfl) rfl (by rw [hpc]; rfl) (by rw [hpc]; rfl) ?_
    exact (hpc ▸ h.pcInv t : PcInv s (.passUnlocked v k sid)).of_same rfl id (fun _ _ => rfl)

theorem inv_passRelock {v : List (Nat × Nat)} {k sid : Nat} (h : Inv san s)
    (hpc : pcOf s t = .passRelock v k sid) (hs : step san s (.step t c) = some s') : Pres san s s' := by
  simp only [step, hpc] at hs
  cases hs
  refine h.acquire t _ rfl (by rw [hpc]; rfl) rfl ?_
  exact (hpc ▸ h.pcInv t : PcInv s (.passRelock v k sid)).of_same rfl id (fun _ _ => rfl)

theorem inv_passClear {v : List (Nat × Nat)} {k sid : Nat} (h : Inv san s)
    (hpc : pcOf s t = .passClear v k sid) (hs : step san s (.step t c) = some s') : Pres san s s' := by
  simp only [step, hpc] at hs
  split at hs
  · cases hs
  · cases hs
    exact h.clear t sid _ (by rw [hpc]; rfl) (by rw [hpc]; rfl) rfl (by rw [hpc]; rfl) (by rw [hpc]; rfl)
      (by rw [hpc]; rfl) rfl

theorem inv_obtProbe {i : Nat} (h : Inv san s)
    (hpc : pcOf s t = .obtProbe i) (hs : step san s (.step t c) = some s') : Pres san s s' := by
  simp only [step, hpc] at hs
  split at hs
  · cases hs
    exact h.move t _ (by rw [hpc]; rfl) (by rw [hpc]; rfl) rfl (PcInv.of_none rfl)
  · next sid hl =>
    split at hs
    · cases hs
    · next x hx =>
      split at hs
      · cases hs
        exact h.hand t i sid hx (by rw [hpc]; rfl) (by rw [hpc]; rfl)
      · next hcl =>
        cases hs
        refine h.acquire t _ rfl (by rw [hpc]; rfl) rfl ?_
        intro sid' hs'
        simp only [pcScope, Option.some.injEq] at hs'; subst hs'
        exact ⟨x, hx, fun _ => ⟨by simpa using hcl, fun hsw => by simp [pcSwapped] at hsw⟩⟩

theorem inv_obtSwap {i sid : Nat} (h : Inv san s) (hpc : pcOf s t = .obtSwap i sid)
    (hs : step san s (.step t c) = some s') : Pres san s s' := by
  simp only [step, hpc] at hs
  split at hs
  · cases hs
  · next x hx =>
    cases hs
    refine h.swap t sid _ hx ?_ (by rw [hpc]; rfl) ?_ (by rw [hpc]; rfl) ?_ ?_
    · rw [hpc]; split <;> rfl
    · split
      · next he => simp only [pendingOf]; exact (List.isEmpty_iff.mp he).symm
      · rfl
    · split <;> rfl
    · rw [hpc]; split <;> rfl

theorem inv_obtDeliver {i sid : Nat} {pd : List Token} (h : Inv san s)
    (hpc : pcOf s t = .obtDeliver i sid pd) (hs : step san s (.step t c) = some s') : Pres san s s' := by
  simp only [step, hpc] at hs
  cases hs
  refine h.deliver t _ pd (by rw [hpc]; rfl) (by rw [hpc]; rfl) rfl ?_
  exact (hpc ▸ h.pcInv t : PcInv s (.obtDeliver i sid pd)).of_same rfl id (fun _ _ => rfl)

theorem inv_obtAfter {i sid : Nat} (h : Inv san s)
    (hpc : pcOf s t = .obtAfter i sid) (hs : step san s (.step t c) = some s') : Pres san s s' := by
  simp only [step, hpc] at hs
  cases hs
  refine h.release t _ rfl (by rw [hpc]; rfl) rfl ?_
  exact (hpc ▸ h.pcInv t : PcInv s (.obtAfter i sid)).of_same rfl id (fun _ _ => rfl)

theorem inv_obtUnlocked {i sid : Nat} (h : Inv san s)
    (hpc : pcOf s t = .obtUnlocked i sid) (hs : step san s (.step t c) = some s') : Pres san s s' := by
  simp only [step, hpc] at hs
  split at hs
  · cases hs
  · cases hs
    refine h.delete t i sid _ (by rw [hpc]; rfl) rfl (by rw [hpc]; rfl) rfl (by rw [hpc]; rfl) (by rw [hpc]; rfl) ?_
    exact (hpc ▸ h.pcInv t : PcInv s (.obtUnlocked i sid)).of_same rfl id (fun _ _ => rfl)

theorem inv_obtRelock {i sid : Nat} (h : Inv san s)
    (hpc : pcOf s t = .obtRelock i sid) (hs : step san s (.step t c) = some s') : Pres san s s' := by
  simp only [step, hpc] at hs
  cases hs
  refine h.acquire t _ rfl (by rw [hpc]; rfl) rfl ?_
  exact (hpc ▸ h.pcInv t : PcInv s (.obtRelock i sid)).of_same rfl id (fun _ _ => rfl)

theorem inv_obtClear {i sid : Nat} (h : Inv san s)
    (hpc : pcOf s t = .obtClear i sid) (hs : step san s (.step t c) = some s') : Pres san s s' := by
  simp only [step, hpc] at hs
  split at hs
  · cases hs
  · cases hs
    exact h.clear t sid _ (by rw [hpc]; rfl) (by rw [hpc]; rfl) rfl (by rw [hpc]; rfl) (by rw [hpc]; rfl)
      (by rw [hpc]; rfl) rfl

theorem inv_obtRelease {i sid : Nat} (h : Inv san s)
    (hpc : pcOf s t = .obtRelease i sid) (hs : step san s (.step t c) = some s') : Pres san s s' := by
  simp only [step, hpc] at hs
  cases hs
  exact h.release t _ rfl (by rw [hpc]; rfl) rfl (PcInv.of_none rfl)

theorem inv_obtDone {i sid : Nat} (h : Inv san s)
    (hpc : pcOf s t = .obtDone i sid) (hs : step san s (.step t c) = some s') : Pres san s s' := by
  simp only [step, hpc] at hs
  cases hs
  exact h.move t _ (by rw [hpc]; rfl) (by rw [hpc]; rfl) rfl (PcInv.of_none rfl)

theorem inv_obtAfter2 {i sid : Nat} (h : Inv san s)
    (hpc : pcOf s t = .obtAfter2 i sid) (hs : step san s (.step t c) = some s') : Pres san s s' := by
  simp only [step, hpc] at hs
  cases hs
  refine h.release t _ rfl (by rw [hpc]; rfl) rfl ?_
  exact (hpc ▸ h.pcInv t : PcInv s (.obtAfter2 i sid)).of_same rfl id (fun _ _ => rfl)

theorem inv_obtUnlocked2 {i sid : Nat} (h : Inv san s)
    (hpc : pcOf s t = .obtUnlocked2 i sid) (hs : step san s (.step t c) = some s') : Pres san s s' := by
  simp only [step, hpc] at hs
  split at hs
  · cases hs
  · cases hs
    refine h.delete t (san i) sid _ (by rw [hpc]; rfl) rfl (by rw [hpc]; rfl) rfl (by rw [hpc]; rfl) (by rw [hpc]; rfl) ?_
    exact (hpc ▸ h.pcInv t : PcInv s (.obtUnlocked2 i sid)).of_same rfl id (fun _ _ => rfl)

theorem inv_obtRelock2 {i sid : Nat} (h : Inv san s)
    (hpc : pcOf s t = .obtRelock2 i sid) (hs : step san s (.step t c) = some s') : Pres san s s' := by
  simp only [step, hpc] at hs
  cases hs
  refine h.acquire t _ rfl (by rw [hpc]; rfl) rfl ?_
  exact (hpc ▸ h.pcInv t : PcInv s (.obtRelock2 i sid)).of_same rfl id (fun _ _ => rfl)

theorem inv_obtWantLock {r : Nat} (h : Inv san s)
    (hpc : pcOf s t = .obtWantLock r) (hs : step san s (.step t c) = some s') : Pres san s s' := by
  by_cases hr : s.readers = []
  · cases hl : lookup s (san r) with
    | none =>
      rw [step_obtWantLock_none hpc hr hl] at hs
      cases hs
      exact h.fresh t r (by rw [hpc]; rfl) (by rw [hpc]; rfl) (h.static.no_live (san r) (Or.inl hl))
    | some sid =>
      cases hx : scopeOf s sid with
      | none => rw [step_obtWantLock_noscope hpc hl hx] at hs; cases hs
      | some x =>
        rw [step_obtWantLock_some hpc hr hl hx] at hs
        split at hs
        · cases hs
          obtain ⟨x', hx', hi⟩ := h.static.regIdent (san r) sid (mem_of_lookup hl)
          have hx0 : s.scopes[sid]? = some x := hx
          rw [hx0] at hx'; cases hx'
          exact h.handAlias t r sid hx (by rw [hi, h.sanIdem]) (by rw [hpc]; rfl) (by rw [hpc]; rfl)
        · next hcl =>
          split at hs
          · cases hs
          · cases hs
            exact h.d4c t r sid (by rw [hpc]; rfl) (by rw [hpc]; rfl) hl hx (by simpa using hcl)
  · rw [step_obtWantLock_blocked hpc hr] at hs; cases hs

end threadSteps

/-- every atomic action of every thread preserves the invariant -/
theorem pres_step {s s' : State} {e : Ev} (h : Inv san s) (hs : step san s e = some s') : Pres san s s' := by
  cases e with
  | passBegin t => exact inv_passBegin h hs
  | passEndHint t => exact inv_passEndHint h hs
  | obtain t i => exact inv_obtain h hs
  | record sid => exact inv_record h hs
  | close sid => exact inv_close h hs
  | step t c =>
    cases hpc : pcOf s t with
    | idle => simp [step, hpc] at hs
    | passIter v => exact inv_passIter h hpc hs
    | passSwap v k sid cl => exact inv_passSwap h hpc hs
    | passDeliver v k sid cl pd => exact inv_passDeliver h hpc hs
    | passAfter v k sid cl => exact inv_passAfter h hpc hs
    | passUnlocked v k sid => exact inv_passUnlocked h hpc hs
    | passRelock v k sid => exact inv_passRelock h hpc hs
    | passClear v k sid => exact inv_passClear h hpc hs
    | obtProbe i => exact inv_obtProbe h hpc hs
    | obtSwap i sid => exact inv_obtSwap h hpc hs
    | obtDeliver i sid pd => exact inv_obtDeliver h hpc hs
    | obtAfter i sid => exact inv_obtAfter h hpc hs
    | obtUnlocked i sid => exact inv_obtUnlocked h hpc hs
    | obtRelock i sid => exact inv_obtRelock h hpc hs
    | obtAfter2 i sid => exact inv_obtAfter2 h hpc hs
    | obtUnlocked2 i sid => exact inv_obtUnlocked2 h hpc hs
    | obtRelock2 i sid => exact inv_obtRelock2 h hpc hs
    | obtClear i sid => exact inv_obtClear h hpc hs
    | obtRelease i sid => exact inv_obtRelease h hpc hs
    | obtWantLock i => exact inv_obtWantLock h hpc hs
    | obtDone i sid => exact inv_obtDone h hpc hs

theorem inv_step {s s' : State} {e : Ev} (h : Inv san s) (hs : step san s e = some s') : Inv san s' := (pres_step h hs).1

theorem inv_run {s s' : State} {es : List Ev} (h : Inv san s) (hr : run san s es = some s') : Inv san s' := by
  induction es generalizing s with
  | nil => simp only [run, Option.some.injEq] at hr; subst hr; exact h
  | cons e es ih =>
    simp only [run] at hr
    split at hr
    · cases hr
    · next s1 h1 => exact ih (inv_step h h1) hr

theorem inv_init (hsan : ∀ k, san (san k) = san k) : Inv san init := by
  refine ⟨hsan, by simp [init], ?_, ?_, ?_, ?_⟩
  · intro t; simp [init, pcOf, holdsR]
  · intro t; exact PcInv.of_none rfl
  · refine ⟨?_, ?_, ?_, ?_, ?_, ?_, ?_⟩ <;> simp [init, NoPre]
  · intro n; simp [allTokens, init, allCells, allPending]

theorem inv_initRoot (hsan : ∀ k, san (san k) = san k) : Inv san (initRoot san) := by
  refine ⟨hsan, by simp [initRoot, init], ?_, ?_, ?_, ?_⟩
  · intro t; simp [initRoot, init, pcOf, holdsR]
  · intro t; exact PcInv.of_none rfl
  · refine ⟨?_, ?_, ?_, ?_, ?_, ?_, ?_⟩
    · intro sid x hx tok hm
      cases sid with
      | zero => simp [initRoot, init] at hx; subst hx; cases hm
      | succ m => simp [initRoot, init] at hx
    · intro sid x hx hc
      cases sid with
      | zero => simp [initRoot, init] at hx; subst hx; cases hc
      | succ m => simp [initRoot, init] at hx
    · intro sid x hx hc
      cases sid with
      | zero => simp [initRoot, init] at hx; subst hx; simp [initRoot, init]
      | succ m => simp [initRoot, init] at hx
    · intro k v hm
      simp [initRoot, init] at hm
      obtain ⟨rfl, rfl⟩ := hm
      exact ⟨_, rfl, (hsan 0).symm⟩
    · simp [initRoot, init]
    · intro t sid hm; simp [initRoot, init] at hm
    · intro tok hm; simp [initRoot, init] at hm
  · intro n; simp [allTokens, initRoot, init, allCells, allPending]


/-! ## consequences used by the property theorems -/

theorem pres_run {s s' : State} {es : List Ev} (h : Inv san s) (hr : run san s es = some s') : Pres san s s' := by
  induction es generalizing s with
  | nil => simp only [run, Option.some.injEq] at hr; subst hr; exact ⟨h, fun _ => Nat.le_refl _, ScopeLe.refl' _ _ rfl⟩
  | cons e es ih =>
    simp only [run] at hr
    split at hr
    · cases hr
    · next s1 h1 =>
      have p1 := pres_step h h1
      have p2 := ih p1.1 hr
      exact ⟨p2.1, p1.2.1.trans p2.2.1, p1.2.2.trans p2.2.2⟩

/-- a token, once issued, is somewhere (delivered, in a cell, pending or dropped) for ever -/
theorem mem_allTokens_run {s s' : State} {es : List Ev} (h : Inv san s) (hr : run san s es = some s')
    {tok : Token} (hm : tok ∈ allTokens s) : tok ∈ allTokens s' := by
  have := (pres_run h hr).2.1 (fun x => x == tok)
  have h1 : 0 < idc (fun x => x == tok) (allTokens s) :=
    List.countP_pos_iff.mpr ⟨tok, hm, by simp⟩
  have h2 : 0 < idc (fun x => x == tok) (allTokens s') := by omega
  obtain ⟨a, ha, he⟩ := List.countP_pos_iff.mp h2
  have : a = tok := by simpa using he
  exact this ▸ ha

theorem idc_byId_eq_count (n : Nat) (l : List Token) : idc (byId n) l = (l.map (·.id)).count n := by
  induction l with
  | nil => rfl
  | cons a l ih => simp [idc_cons, byId, List.count_cons, ih]

theorem count_range (n N : Nat) : (List.range N).count n = if n < N then 1 else 0 := by
  rw [List.Nodup.count List.nodup_range]
  simp [List.mem_range]

/-- the ids of all tokens are exactly `0 … nextToken-1`, each once -/
theorem Inv.ids_perm {s : State} (h : Inv san s) : ((allTokens s).map (·.id)).Perm (List.range s.nextToken) := by
  rw [List.perm_iff_count]
  intro n
  rw [← idc_byId_eq_count, h.tokens n, count_range]

theorem visiting_iff {s : State} (hnd : (s.pcs.map (·.1)).Nodup) (sid : Nat) :
    visiting s sid = true ↔ ∃ t, visits (pcOf s t) sid = true := by
  rw [visiting_eq, List.any_eq_true]
  constructor
  · rintro ⟨⟨t, p⟩, hm, hv⟩
    refine ⟨t, ?_⟩
    have : s.pcs.lookup t = some p := by
      generalize s.pcs = l at hnd hm
      induction l with
      | nil => cases hm
      | cons q l ih =>
        obtain ⟨k, v⟩ := q
        simp only [List.map_cons, List.nodup_cons] at hnd
        rcases List.mem_cons.mp hm with he | hm'
        · cases he; simp [List.lookup]
        · have hne : t ≠ k := by
            intro e; subst e
            exact hnd.1 (List.mem_map.mpr ⟨(t, p), hm', rfl⟩)
          have : (t == k) = false := by simp [hne]
          simp only [List.lookup, this]
          exact ih hnd.2 hm'
    simp only [pcOf, this, Option.getD_some]; exact hv
  · rintro ⟨t, hv⟩
    cases hl : s.pcs.lookup t with
    | none => simp [pcOf, hl, visits] at hv
    | some p =>
      simp only [pcOf, hl, Option.getD_some] at hv
      refine ⟨(t, p), ?_, hv⟩
      generalize s.pcs = l at hl
      induction l with
      | nil => simp [List.lookup] at hl
      | cons q l ih =>
        obtain ⟨k, v⟩ := q
        by_cases hk : t = k
        · subst hk
          simp only [List.lookup, beq_self_eq_true, Option.some.injEq] at hl
          subst hl; exact List.mem_cons_self ..
        · have : (t == k) = false := by simp [hk]
          simp only [List.lookup, this] at hl
          exact List.mem_cons_of_mem _ (ih hl)

/-! ## frame facts about thread pcs, and what `obtain` returns -/

@[simp] theorem pcOf_addReader (s : State) (t t' : Nat) : pcOf (addReader s t) t' = pcOf s t' := rfl
@[simp] theorem pcOf_delReader (s : State) (t t' : Nat) : pcOf (delReader s t) t' = pcOf s t' := rfl
@[simp] theorem pcOf_setScope (s : State) (sid : Nat) (x : ScopeS) (t' : Nat) : pcOf (setScope s sid x) t' = pcOf s t' := rfl
@[simp] theorem pcOf_deleteIfSame (s : State) (k sid t' : Nat) : pcOf (deleteIfSame s k sid) t' = pcOf s t' := rfl
@[simp] theorem pcOf_clearScope (s : State) (sid t' : Nat) : pcOf (clearScope s sid) t' = pcOf s t' := by
  unfold clearScope; split <;> rfl
@[simp] theorem pcOf_handedOut (s : State) (h : List (Nat × Nat)) (t' : Nat) :
    pcOf { s with handedOut := h } t' = pcOf s t' := rfl
@[simp] theorem pcOf_delivered (s : State) (h : List Token) (t' : Nat) :
    pcOf { s with delivered := h } t' = pcOf s t' := rfl
@[simp] theorem pcOf_addAlias (s : State) (r sid t' : Nat) : pcOf (addAlias s r sid) t' = pcOf s t' := by
  simp [pcOf]
@[simp] theorem pcOf_createScope (s : State) (i t' : Nat) : pcOf (createScope s i) t' = pcOf s t' := rfl
theorem pcOf_handOut (s : State) (t r sid t' : Nat) :
    pcOf (handOut s t r sid) t' = if t' = t then .obtDone r sid else pcOf s t' := by
  show pcOf (setPc s t _) t' = _
  rw [pcOf_setPc]
theorem pcOf_freshS (s : State) (t r i t' : Nat) :
    pcOf (freshS s t r i) t' = if t' = t then .obtDone r s.scopes.length else pcOf s t' := by
  unfold freshS
  rw [pcOf_handOut, pcOf_addAlias, pcOf_createScope]

/-- the thread performing an event, if any -/
def actor : Ev → Option Nat
  | .passBegin t | .step t _ | .passEndHint t | .obtain t _ => some t
  | _ => none

theorem step_pcOf_ne {s s' : State} {e : Ev} {t : Nat} (hs : step san s e = some s') (hne : actor e ≠ some t) :
    pcOf s' t = pcOf s t := by
  cases e with
  | record sid =>
    simp only [step] at hs
    split at hs
    · cases hs
    · split at hs <;> cases hs <;> rfl
  | close sid =>
    simp only [step] at hs
    split at hs <;> cases hs; rfl
  | obtain t' i =>
    have hne' : t ≠ t' := fun e => hne (by rw [e]; rfl)
    simp only [step] at hs
    split at hs <;> cases hs
    simp [pcOf_setPc, hne']
  | passBegin t' =>
    have hne' : t ≠ t' := fun e => hne (by rw [e]; rfl)
    simp only [step] at hs
    split at hs <;> cases hs
    simp [pcOf_setPc, hne']
  | passEndHint t' =>
    have hne' : t ≠ t' := fun e => hne (by rw [e]; rfl)
    simp only [step] at hs
    split at hs <;> cases hs
    simp [pcOf_setPc, hne']
  | step t' c =>
    have hne' : t ≠ t' := fun e => hne (by rw [e]; rfl)
    cases hpc : pcOf s t' with
    | obtWantLock i =>
      by_cases hr : s.readers = []
      · cases hl : lookup s (san i) with
        | none =>
          rw [step_obtWantLock_none hpc hr hl] at hs; cases hs
          simp [pcOf_freshS, hne']
        | some sid =>
          cases hx : scopeOf s sid with
          | none => rw [step_obtWantLock_noscope hpc hl hx] at hs; cases hs
          | some x =>
            rw [step_obtWantLock_some hpc hr hl hx] at hs
            split at hs
            · cases hs; simp [pcOf_handOut, hne']
            · split at hs
              · cases hs
              · cases hs; simp [pcOf_freshS, hne']
      · rw [step_obtWantLock_blocked hpc hr] at hs; cases hs
    | _ =>
      simp only [step, hpc] at hs
      repeat' split at hs
      all_goals first | cases hs | skip
      all_goals first | exact pcOf_setPc_ne s t' t _ hne' | simp [pcOf_setPc, hne']

theorem step_to_obtDone {s s' : State} {e : Ev} {t i sid : Nat} (hs : step san s e = some s')
    (hd : pcOf s' t = .obtDone i sid) :
    pcOf s t = .obtDone i sid ∨ ∃ c, e = .step t c ∧ (pcOf s t = .obtProbe i ∨ pcOf s t = .obtWantLock i) := by
  by_cases ha : actor e = some t
  · cases e with
    | record sid => cases ha
    | close sid => cases ha
    | obtain t' i' =>
      cases ha
      simp only [step] at hs
      split at hs <;> cases hs
      simp at hd
    | passBegin t' =>
      cases ha
      simp only [step] at hs
      split at hs <;> cases hs
      simp at hd
    | passEndHint t' =>
      cases ha
      simp only [step] at hs
      split at hs <;> cases hs
      simp at hd
    | step t' c =>
      cases ha
      right
      refine ⟨c, rfl, ?_⟩
      cases hpc : pcOf s t with
      | obtWantLock i' =>
        by_cases hr : s.readers = []
        · cases hl : lookup s (san i') with
          | none =>
            rw [step_obtWantLock_none hpc hr hl] at hs; cases hs
            simp [pcOf_freshS] at hd
            right; rw [hd.1]
          | some sid' =>
            cases hx : scopeOf s sid' with
            | none => rw [step_obtWantLock_noscope hpc hl hx] at hs; cases hs
            | some x =>
              rw [step_obtWantLock_some hpc hr hl hx] at hs
              split at hs
              · cases hs
                simp [pcOf_handOut] at hd
                right; rw [hd.1]
              · split at hs
                · cases hs
                · cases hs
                  simp [pcOf_freshS] at hd
                  right; rw [hd.1]
        · rw [step_obtWantLock_blocked hpc hr] at hs; cases hs
      | obtProbe i' =>
        simp only [step, hpc] at hs
        repeat' split at hs
        all_goals first | cases hs | skip
        · simp at hd
        · simp [pcOf_handOut] at hd
          left; rw [hd.1]
        · simp at hd
      | _ =>
        simp only [step, hpc] at hs
        repeat' split at hs
        all_goals first | cases hs | skip
        all_goals simp at hd
  · left; rw [← step_pcOf_ne hs ha]; exact hd

theorem scopeOf_freshS_new (s : State) (t r i : Nat) :
    scopeOf (freshS s t r i) s.scopes.length = some { ident := i, closed := false, cleared := false, cell := [] } := by
  show scopeOf (addAlias (createScope s i) r s.scopes.length) s.scopes.length = _
  rw [scopeOf_addAlias]; exact scopeOf_createScope_new s i

theorem lookup_freshS (s : State) (t r i : Nat) : lookup (freshS s t r i) i = some s.scopes.length := by
  show lookup (addAlias (createScope s i) r s.scopes.length) i = _
  apply lookup_addAlias
  show List.lookup i ((i, s.scopes.length) :: _) = _
  simp [List.lookup]

theorem handedOut_freshS (s : State) (t r i : Nat) :
    (freshS s t r i).handedOut = (t, s.scopes.length) :: s.handedOut := by
  show (t, s.scopes.length) :: (addAlias (createScope s i) r s.scopes.length).handedOut = _
  rw [addAlias_handedOut]; rfl

/-- what `obtain` (raw key `r`) returns: a live scope of identity `san r`, registered under `san r` -/
theorem obtain_returns {s s' : State} {t c r sid : Nat} (h : Inv san s) (hs : step san s (.step t c) = some s')
    (hpc : pcOf s t = .obtProbe r ∨ pcOf s t = .obtWantLock r) (hd : pcOf s' t = .obtDone r sid) :
    ∃ x, scopeOf s' sid = some x ∧ x.closed = false ∧ x.ident = san r ∧ lookup s' (san r) = some sid
      ∧ s'.handedOut = (t, sid) :: s.handedOut := by
  rcases hpc with hpc | hpc
  · simp only [step, hpc] at hs
    split at hs
    · cases hs; simp at hd
    · next sid' hl =>
      split at hs
      · cases hs
      · next x hx =>
        split at hs
        · next hc =>
          cases hs
          simp [pcOf_handOut] at hd; subst hd
          obtain ⟨x', hx', hi⟩ := h.static.regIdent r sid' (mem_of_lookup hl)
          have hx0 : s.scopes[sid']? = some x := hx
          rw [hx0] at hx'; cases hx'
          have hcl : x.closed = false := by simpa using hc
          refine ⟨x, hx, hcl, hi, ?_, rfl⟩
          have := h.static.liveReg sid' x hx0 hcl
          rw [hi] at this; exact this
        · cases hs; simp at hd
  · by_cases hr : s.readers = []
    · cases hl : lookup s (san r) with
      | none =>
        rw [step_obtWantLock_none hpc hr hl] at hs; cases hs
        simp [pcOf_freshS] at hd; subst hd
        exact ⟨_, scopeOf_freshS_new s t r (san r), rfl, rfl, lookup_freshS s t r (san r), handedOut_freshS ..⟩
      | some sid' =>
        cases hx : scopeOf s sid' with
        | none => rw [step_obtWantLock_noscope hpc hl hx] at hs; cases hs
        | some x =>
          rw [step_obtWantLock_some hpc hr hl hx] at hs
          split at hs
          · next hc =>
            cases hs
            simp [pcOf_handOut] at hd; subst hd
            obtain ⟨x', hx', hi⟩ := h.static.regIdent (san r) sid' (mem_of_lookup hl)
            have hx0 : s.scopes[sid']? = some x := hx
            rw [hx0] at hx'; cases hx'
            refine ⟨x, ?_, by simpa using hc, by rw [hi, h.sanIdem], ?_, ?_⟩
            · show scopeOf (addAlias s r sid') sid' = some x
              rw [scopeOf_addAlias]; exact hx
            · show lookup (addAlias s r sid') (san r) = some sid'
              exact lookup_addAlias hl
            · show (t, sid') :: (addAlias s r sid').handedOut = _
              rw [addAlias_handedOut]
          · split at hs
            · cases hs
            · cases hs
              have hlen : (d4cS s r (san r) sid' x).scopes.length = s.scopes.length := by
                rw [d4cS_eq hx]; simp
              have hho : (d4cS s r (san r) sid' x).handedOut = s.handedOut := by
                rw [d4cS_eq hx]
              simp [pcOf_freshS] at hd; subst hd
              refine ⟨_, scopeOf_freshS_new _ t r (san r), rfl, rfl, lookup_freshS _ t r (san r), ?_⟩
              rw [handedOut_freshS, hho]
    · rw [step_obtWantLock_blocked hpc hr] at hs; cases hs


/-- a thread that has returned from `obtain r` holds a scope of identity `san r` (a second, small invariant on top
of `Inv`, by `step_to_obtDone` / `obtain_returns` and the persistence of identities) -/
def DoneOk (san : Nat → Nat) (s : State) : Prop :=
  ∀ t r sid, pcOf s t = .obtDone r sid → ∃ x, scopeOf s sid = some x ∧ x.ident = san r

theorem doneOk_step {s s' : State} {e : Ev} (h : Inv san s) (hd : DoneOk san s) (hs : step san s e = some s') :
    DoneOk san s' := by
  intro t r sid hpc
  rcases step_to_obtDone hs hpc with hh | ⟨c, rfl, hpc0⟩
  · obtain ⟨x, hx, hi⟩ := hd t r sid hh
    obtain ⟨x', hx', hi', _⟩ := (pres_step h hs).2.2 sid x hx
    exact ⟨x', hx', hi'.trans hi⟩
  · obtain ⟨x, hx, _, hi, _⟩ := obtain_returns h hs hpc0 hpc
    exact ⟨x, hx, hi⟩

theorem doneOk_run {s s' : State} {es : List Ev} (h : Inv san s) (hd : DoneOk san s) (hr : run san s es = some s') :
    DoneOk san s' := by
  induction es generalizing s with
  | nil => simp only [run, Option.some.injEq] at hr; subst hr; exact hd
  | cons e es ih =>
    simp only [run] at hr
    split at hr
    · cases hr
    · next s1 h1 => exact ih (inv_step h h1) (doneOk_step h hd h1) hr

theorem doneOk_of_no_pcs {s : State} (h : s.pcs = []) : DoneOk san s := by
  intro t r sid hpc
  simp [pcOf, h] at hpc

theorem run_append {a b : State} {xs ys : List Ev} (h : run san a xs = some b) : run san a (xs ++ ys) = run san b ys := by
  induction xs generalizing a with
  | nil => simp only [run, Option.some.injEq] at h; subst h; rfl
  | cons x xs ih =>
    simp only [List.cons_append, run] at h ⊢
    cases h1 : step san a x with
    | none => simp [h1] at h
    | some s1 => simp only [h1] at h ⊢; exact ih h

theorem run_single {a b : State} {e : Ev} (h : step san a e = some b) : run san a [e] = some b := by
  simp [run, h]

/-- the final report, from the invariant: in a state where `sid` is cleared and nobody holds a pending
delta of it, every accounted `pre` token of `sid` is in `delivered` -/
theorem Inv.final_report {s : State} (h : Inv san s) {sid : Nat} {x : ScopeS} (hx : scopeOf s sid = some x)
    (hcl : x.cleared = true) (hp : ∀ tok ∈ allPending s, tok.scope ≠ sid)
    {tok : Token} (hm : tok ∈ allTokens s) (hsc : tok.scope = sid) (hpre : tok.pre = true) :
    tok ∈ s.delivered := by
  simp only [allTokens, List.mem_append] at hm
  rcases hm with ((hm | hm) | hm) | hm
  · exact hm
  · obtain ⟨sid', x', hx', hm'⟩ := mem_cells.mp hm
    have := h.static.cellScope sid' x' hx' tok hm'
    rw [hsc] at this; subst this
    have hx0 : s.scopes[sid]? = some x := hx
    rw [hx0] at hx'; cases hx'
    rw [(h.static.clearedOk sid x hx0 hcl).2] at hm'; cases hm'
  · exact absurd hsc (hp tok hm)
  · have := h.static.droppedNoPre tok hm
    rw [hpre] at this; cases this

/-! ## progress -/

theorem visits_not_idle {p : Pc} {sid : Nat} (h : visits p sid = true) : p ≠ .idle := by
  intro e; subst e; simp [visits] at h

/-- a thread inside a visit always has its next step enabled -/
theorem Inv.visitor_enabled {s : State} (h : Inv san s) {t sid : Nat} (hv : visits (pcOf s t) sid = true) :
    (step san s (.step t 0)).isSome = true := by
  cases hpc : pcOf s t with
  | passSwap v k sid' c =>
    obtain ⟨x, hx, _⟩ := h.pcInv t sid' (by rw [hpc]; rfl)
    simp [step, hpc, hx]
  | passDeliver v k sid' c pd => simp [step, hpc]
  | obtSwap i sid' =>
    obtain ⟨x, hx, _⟩ := h.pcInv t sid' (by rw [hpc]; rfl)
    simp [step, hpc, hx]
  | obtDeliver i sid' pd => simp [step, hpc]
  | _ => rw [hpc] at hv; simp [visits] at hv

/-- **progress**: if some thread is not idle, some non-idle thread has an enabled step -/
theorem Inv.progress {s : State} (h : Inv san s) (hb : ∃ t, pcOf s t ≠ .idle) :
    ∃ t, pcOf s t ≠ .idle ∧ ((∃ c, (step san s (.step t c)).isSome = true) ∨ (step san s (.passEndHint t)).isSome = true) := by
  by_cases hv : ∃ t sid, visits (pcOf s t) sid = true
  · obtain ⟨t, sid, hv⟩ := hv
    exact ⟨t, visits_not_idle hv, Or.inl ⟨0, h.visitor_enabled hv⟩⟩
  · have hnv : ∀ sid, visiting s sid = false := by
      intro sid
      cases hh : visiting s sid with
      | false => rfl
      | true =>
        obtain ⟨t, ht⟩ := (visiting_iff h.nodup sid).mp hh
        exact absurd ⟨t, sid, ht⟩ hv
    cases hrd : s.readers with
    | nil =>
      obtain ⟨t, ht⟩ := hb
      refine ⟨t, ht, Or.inl ⟨0, ?_⟩⟩
      have hnr : holdsR (pcOf s t) = false := by
        cases hh : holdsR (pcOf s t) with
        | false => rfl
        | true => have := (h.readersOk t).mpr hh; rw [hrd] at this; cases this
      cases hpc : pcOf s t with
      | idle => exact absurd hpc ht
      | passUnlocked v k sid => simp [step, hpc, hrd]
      | passRelock v k sid => simp [step, hpc]
      | obtProbe i =>
        cases hl : lookup s i with
        | none => simp [step, hpc, hl]
        | some sid =>
          obtain ⟨x, hx, _⟩ := h.static.regIdent i sid (mem_of_lookup hl)
          have hx' : scopeOf s sid = some x := hx
          simp only [step, hpc, hl, hx']
          split <;> rfl
      | obtUnlocked i sid => simp [step, hpc, hrd]
      | obtRelock i sid => simp [step, hpc]
      | obtUnlocked2 i sid => simp [step, hpc, hrd]
      | obtRelock2 i sid => simp [step, hpc]
      | obtDone i sid => simp [step, hpc]
      | obtWantLock i =>
        cases hl : lookup s (san i) with
        | none => rw [step_obtWantLock_none hpc hrd hl]; rfl
        | some sid =>
          obtain ⟨x, hx, _⟩ := h.static.regIdent (san i) sid (mem_of_lookup hl)
          have hx' : scopeOf s sid = some x := hx
          rw [step_obtWantLock_some hpc hrd hl hx']
          split
          · rfl
          · simp [hnv sid]
      | _ => rw [hpc] at hnr; simp [holdsR] at hnr
    | cons r rs =>
      have hr : holdsR (pcOf s r) = true := (h.readersOk r).mp (by rw [hrd]; exact List.mem_cons_self ..)
      have hne : pcOf s r ≠ .idle := by intro e; rw [e] at hr; simp [holdsR] at hr
      refine ⟨r, hne, ?_⟩
      cases hpc : pcOf s r with
      | passIter v => right; simp [step, hpc]
      | passSwap v k sid c => exact absurd ⟨r, sid, by rw [hpc]; simp [visits]⟩ hv
      | passDeliver v k sid c pd => exact absurd ⟨r, sid, by rw [hpc]; simp [visits]⟩ hv
      | obtSwap i sid => exact absurd ⟨r, sid, by rw [hpc]; simp [visits]⟩ hv
      | obtDeliver i sid pd => exact absurd ⟨r, sid, by rw [hpc]; simp [visits]⟩ hv
      | passAfter v k sid c => left; refine ⟨0, ?_⟩; simp only [step, hpc]; split <;> rfl
      | passClear v k sid => left; exact ⟨0, by simp [step, hpc, hnv sid]⟩
      | obtAfter i sid => left; exact ⟨0, by simp [step, hpc]⟩
      | obtAfter2 i sid => left; exact ⟨0, by simp [step, hpc]⟩
      | obtClear i sid => left; exact ⟨0, by simp [step, hpc, hnv sid]⟩
      | obtRelease i sid => left; exact ⟨0, by simp [step, hpc]⟩
      | _ => rw [hpc] at hr; simp [holdsR] at hr

/-- the thread's next step takes the shard's write lock -/
def wantsWrite : Pc → Bool
  | .passUnlocked .. | .obtUnlocked .. | .obtUnlocked2 .. | .obtWantLock _ => true
  | _ => false

/-- the only reasons for a thread's step to be disabled in a state satisfying the invariant: the thread is
idle; it is a pass at the top of its loop and the chosen key is not registered or its entry `(key, scope id)` has been
visited by this pass already; it needs the
write lock while readers hold the read lock; or it must clear (take the metric write lock of) a scope that
some thread is visiting -/
theorem Inv.blocked_only_on_locks {s : State} (h : Inv san s) {t c : Nat} (hne : pcOf s t ≠ .idle)
    (hni : ∀ v, pcOf s t ≠ .passIter v) (hb : step san s (.step t c) = none) :
    (wantsWrite (pcOf s t) = true ∧ s.readers ≠ [])
    ∨ ∃ sid, visiting s sid = true ∧
        ((∃ v k, pcOf s t = .passClear v k sid) ∨ (∃ i, pcOf s t = .obtClear i sid)
          ∨ (∃ i, pcOf s t = .obtWantLock i ∧ lookup s (san i) = some sid)) := by
  cases hpc : pcOf s t with
  | idle => exact absurd hpc hne
  | passIter v => exact absurd hpc (hni v)
  | passSwap v k sid cl =>
    obtain ⟨x, hx, _⟩ := h.pcInv t sid (by rw [hpc]; rfl)
    simp [step, hpc, hx] at hb
  | passDeliver v k sid cl pd => simp [step, hpc] at hb
  | passAfter v k sid cl => simp only [step, hpc] at hb; split at hb <;> cases hb
  | passUnlocked v k sid =>
    left; refine ⟨rfl, ?_⟩
    intro hr; simp [step, hpc, hr] at hb
  | passRelock v k sid => simp [step, hpc] at hb
  | passClear v k sid =>
    right; refine ⟨sid, ?_, Or.inl ⟨v, k, rfl⟩⟩
    cases hv : visiting s sid with
    | true => rfl
    | false => simp [step, hpc, hv] at hb
  | obtProbe i =>
    cases hl : lookup s i with
    | none => simp [step, hpc, hl] at hb
    | some sid =>
      obtain ⟨x, hx, _⟩ := h.static.regIdent i sid (mem_of_lookup hl)
      have hx' : scopeOf s sid = some x := hx
      simp only [step, hpc, hl, hx'] at hb
      split at hb <;> cases hb
  | obtSwap i sid =>
    obtain ⟨x, hx, _⟩ := h.pcInv t sid (by rw [hpc]; rfl)
    simp [step, hpc, hx] at hb
  | obtDeliver i sid pd => simp [step, hpc] at hb
  | obtAfter i sid => simp [step, hpc] at hb
  | obtUnlocked i sid =>
    left; refine ⟨rfl, ?_⟩
    intro hr; simp [step, hpc, hr] at hb
  | obtRelock i sid => simp [step, hpc] at hb
  | obtAfter2 i sid => simp [step, hpc] at hb
  | obtUnlocked2 i sid =>
    left; refine ⟨rfl, ?_⟩
    intro hr; simp [step, hpc, hr] at hb
  | obtRelock2 i sid => simp [step, hpc] at hb
  | obtClear i sid =>
    right; refine ⟨sid, ?_, Or.inr (Or.inl ⟨i, rfl⟩)⟩
    cases hv : visiting s sid with
    | true => rfl
    | false => simp [step, hpc, hv] at hb
  | obtRelease i sid => simp [step, hpc] at hb
  | obtDone i sid => simp [step, hpc] at hb
  | obtWantLock i =>
    by_cases hr : s.readers = []
    · cases hl : lookup s (san i) with
      | none => rw [step_obtWantLock_none hpc hr hl] at hb; cases hb
      | some sid =>
        obtain ⟨x, hx, _⟩ := h.static.regIdent (san i) sid (mem_of_lookup hl)
        have hx' : scopeOf s sid = some x := hx
        rw [step_obtWantLock_some hpc hr hl hx'] at hb
        split at hb
        · cases hb
        · split at hb
          · next hv => right; exact ⟨sid, hv, Or.inr (Or.inr ⟨i, rfl, hl⟩)⟩
          · cases hb
    · left; exact ⟨rfl, hr⟩

end Tally.Registry
