import Tally.Model.Buckets
import Tally.Model.BucketCache
import Tally.Spec.C20
import TallyProofs.Lemmas.C20Aux
/-! Invariants and helper lemmas for the cache part of C20: what "carries the bounds of the
requested spec" means (`Transparent`), the cache invariant "every entry was built from its stored
spec" (`CacheInv`), the invariant of the concurrent protocol (`ConcInv`) and their preservation. -/
namespace Tally.C20Cache
open Tally Tally.Buckets Tally.BucketCache Tally.C20Aux

theorem pairsD_uppers (caller : List Int) : (pairsD caller).pairs.map (·.2) = durationUppers caller := by
  simp only [pairsD, List.map_map, durationUppers]
  exact range_map_getD _ 0

theorem pairsV_uppers (caller : List F64) : (pairsV caller).pairs.map (·.2) = valueUppers caller := by
  simp only [pairsV, List.map_map, valueUppers]
  exact range_map_getD _ 0

/-- storage `st` carries exactly the bounds of `req`: for durations literally
`sorted req ++ [MaxInt64]`; for values the same through the float key, i.e. up to the sign of a
zero (`bucketsEqual` compares with `==`, and `+0 == -0`). -/
def Transparent (req : BSpec) (st : Storage) : Prop :=
  match req, st.uppers with
  | .dur l, .dur u => u = durationUppers l
  | .val l, .val u => u.map F64.key = (valueUppers l).map F64.key
  | _, _ => False

/-- bit-exact version -/
def TransparentExact (req : BSpec) (st : Storage) : Prop :=
  match req, st.uppers with
  | .dur l, .dur u => u = durationUppers l
  | .val l, .val u => u = valueUppers l
  | _, _ => False

/-- every cache entry's storage was built from the entry's stored spec -/
def CacheInv (c : Cache) : Prop := ∀ id st, c id = some st → st = build st.spec

theorem build_uppers_dur (l : List Int) : (build (.dur l)).uppers = .dur (durationUppers l) := by
  simp only [build]; rw [pairsD_uppers]

theorem build_uppers_val (l : List F64) : (build (.val l)).uppers = .val (valueUppers l) := by
  simp only [build]; rw [pairsV_uppers]

theorem transparentExact_build (req : BSpec) : TransparentExact req (build req) := by
  cases req with
  | dur l => simp [TransparentExact, build_uppers_dur]
  | val l => simp [TransparentExact, build_uppers_val]

theorem transparent_of_exact {req : BSpec} {st : Storage} (h : TransparentExact req st) :
    Transparent req st := by
  unfold TransparentExact at h; unfold Transparent
  split <;> simp_all

theorem transparent_build (req : BSpec) : Transparent req (build req) :=
  transparent_of_exact (transparentExact_build req)

/-- a hit that passes the equality re-check hands out storage with the requested bounds -/
theorem transparent_of_hit (req : BSpec) (st : Storage) (hb : st = build st.spec)
    (he : specEq req st.spec = true) : Transparent req st := by
  rw [hb]
  generalize st.spec = stored at he
  cases req with
  | dur a =>
    cases stored with
    | dur b =>
      have := allEq_int a b he; subst this
      exact transparent_build _
    | val b => simp [specEq] at he
  | val a =>
    cases stored with
    | dur b => simp [specEq] at he
    | val b =>
      have hk := allEq_f64 a b he
      simp only [Transparent, build_uppers_val, valueUppers, List.map_append]
      rw [sortByKey_keys_congr F64.key b a hk.symm]

theorem get_inv (idf : BSpec → UInt64) (c : Cache) (req : BSpec) (hc : CacheInv c) :
    CacheInv (BucketCache.get idf c req).1 ∧ Transparent req (BucketCache.get idf c req).2 := by
  unfold BucketCache.get
  split
  · refine ⟨?_, transparent_build req⟩
    intro id st hst
    simp only [Cache.set] at hst
    split at hst
    · injection hst with hst; subst hst; cases req <;> rfl
    · exact hc id st hst
  · next st hst =>
    split
    · next he => exact ⟨hc, transparent_of_hit req st (hc _ _ hst) he⟩
    · exact ⟨hc, transparent_build req⟩

theorem cacheInv_empty : CacheInv Cache.empty := by
  intro id st h; simp [Cache.empty] at h

theorem getAll_transparent (idf : BSpec → UInt64) (c : Cache) (hc : CacheInv c) (reqs : List BSpec) :
    CacheInv (getAll idf c reqs).1 ∧ (getAll idf c reqs).2.length = reqs.length
    ∧ ∀ p ∈ reqs.zip (getAll idf c reqs).2, Transparent p.1 p.2 := by
  induction reqs generalizing c with
  | nil => exact ⟨hc, rfl, by simp [getAll]⟩
  | cons r rs ih =>
    obtain ⟨h1, h2⟩ := get_inv idf c r hc
    obtain ⟨h3, h4, h5⟩ := ih (BucketCache.get idf c r).1 h1
    simp only [getAll]
    refine ⟨h3, by simp [h4], ?_⟩
    intro p hp
    simp only [List.zip_cons_cons, List.mem_cons] at hp
    rcases hp with rfl | hp
    · exact h2
    · exact h5 p hp

/-- `Transparent` is what the oracle `boundsKept` tests on the bounds a histogram was observed to
use (for value specs whose elements are all finite). -/
theorem boundsKept_of_transparent (req : BSpec) (st : Storage) (h : Transparent req st) :
    Spec.C20.boundsKept req.hiKey req.keys st.uppers.keys = true := by
  unfold Transparent at h
  split at h
  · next l u hu =>
    rw [hu]; subst h
    simp only [BSpec.hiKey, BSpec.keys, Uppers.keys, durationUppers]
    exact boundsKept_of_sorted _ _ _ (sortByKey_perm id l) (by simpa using sortByKey_sorted id l)
  · next l u hu =>
    rw [hu]
    simp only [BSpec.hiKey, BSpec.keys, Uppers.keys, h, valueUppers, List.map_append, List.map_cons, List.map_nil]
    refine boundsKept_of_sorted _ _ _ ((sortByKey_perm F64.key l).map _) ?_
    rw [List.pairwise_map]; exact sortByKey_sorted F64.key l
  · exact h.elim

/-- invariant of the concurrent protocol -/
structure ConcInv (s : Conc.State) : Prop where
  cache : CacheInv s.cache
  hit : ∀ t req st, s.pc t = .hit req st → st = build st.spec
  done : ∀ t req st, s.pc t = .done req st → Transparent req st

theorem concInv_init : ConcInv Conc.init :=
  ⟨cacheInv_empty, by intro t req st h; simp [Conc.init] at h, by intro t req st h; simp [Conc.init] at h⟩

theorem pc_setPc (s : Conc.State) (t t' : Nat) (p : Conc.Pc) :
    (Conc.setPc s t p).pc t' = if t' = t then p else s.pc t' := rfl

theorem cache_setPc (s : Conc.State) (t : Nat) (p : Conc.Pc) : (Conc.setPc s t p).cache = s.cache := rfl

/-- moving one thread to a program counter that satisfies its clause keeps the invariant -/
theorem concInv_setPc (s : Conc.State) (t : Nat) (p : Conc.Pc) (hc : CacheInv s.cache)
    (hh : ∀ t req st, s.pc t = .hit req st → st = build st.spec)
    (hd : ∀ t req st, s.pc t = .done req st → Transparent req st)
    (hp1 : ∀ req st, p = .hit req st → st = build st.spec)
    (hp2 : ∀ req st, p = .done req st → Transparent req st) :
    ConcInv (Conc.setPc s t p) := by
  refine ⟨by rw [cache_setPc]; exact hc, ?_, ?_⟩
  · intro t' req st h
    rw [pc_setPc] at h
    split at h
    · exact hp1 req st h
    · exact hh t' req st h
  · intro t' req st h
    rw [pc_setPc] at h
    split at h
    · exact hp2 req st h
    · exact hd t' req st h

theorem step_inv (idf : BSpec → UInt64) (s s' : Conc.State) (e : Conc.Event) (hi : ConcInv s)
    (hs : Conc.step idf s e = some s') : ConcInv s' := by
  obtain ⟨hc, hh, hd⟩ := hi
  cases e with
  | probe t req =>
    simp only [Conc.step] at hs
    have key : ∀ s'', (match s.cache (idf req) with
          | none => some (Conc.setPc s t (.missed req))
          | some st => some (Conc.setPc s t (.hit req st))) = some s'' → ConcInv s'' := by
      intro s'' h
      split at h
      · injection h with h; subst h
        exact concInv_setPc s t _ hc hh hd (by intro _ _ h; cases h) (by intro _ _ h; cases h)
      · next st hst =>
        injection h with h; subst h
        refine concInv_setPc s t _ hc hh hd ?_ (by intro _ _ h; cases h)
        intro req' st' h; injection h with _ h2; subst h2; exact hc _ _ hst
    split at hs
    · exact key _ hs
    · exact key _ hs
    · cases hs
  | fill t =>
    simp only [Conc.step] at hs
    split at hs
    · next req hpc =>
      injection hs with hs; subst hs
      refine concInv_setPc _ t _ ?_ hh hd (by intro _ _ h; cases h) ?_
      · intro id st hst
        simp only [Cache.set] at hst
        split at hst
        · injection hst with hst; subst hst; cases req <;> rfl
        · exact hc id st hst
      · intro req' st' h; injection h with h1 h2; subst h1; subst h2; exact transparent_build _
    · cases hs
  | compare t =>
    simp only [Conc.step] at hs
    split at hs
    · next req found hpc =>
      injection hs with hs; subst hs
      refine concInv_setPc s t _ hc hh hd (by intro _ _ h; cases h) ?_
      intro req' st' h; injection h with h1 h2; subst h1; subst h2
      split
      · next he => exact transparent_of_hit _ _ (hh t _ _ hpc) he
      · exact transparent_build _
    · cases hs

theorem run_inv (idf : BSpec → UInt64) (s s' : Conc.State) (evs : List Conc.Event) (hi : ConcInv s)
    (hr : Conc.run idf s evs = some s') : ConcInv s' := by
  induction evs generalizing s with
  | nil => simp only [Conc.run] at hr; injection hr with hr; subst hr; exact hi
  | cons e es ih =>
    simp only [Conc.run] at hr
    split at hr
    · next s1 h1 => exact ih s1 (step_inv idf s s1 e hi h1) hr
    · cases hr

/-- bit-exact strengthening for value specs without zeros (and for every duration spec): the
storage handed out has literally the upper bounds `sorted spec ++ [max]`. -/
def NoZero : BSpec → Prop
  | .dur _ => True
  | .val l => ∀ y ∈ l, F64.key y ≠ 0

theorem transparentExact_of_hit (req : BSpec) (st : Storage) (hb : st = build st.spec)
    (he : specEq req st.spec = true) (hz : NoZero st.spec) : TransparentExact req st := by
  rw [hb]
  generalize st.spec = stored at he hz
  cases req with
  | dur a =>
    cases stored with
    | dur b => have := allEq_int a b he; subst this; exact transparentExact_build _
    | val b => simp [specEq] at he
  | val a =>
    cases stored with
    | dur b => simp [specEq] at he
    | val b => have := allEq_f64_exact a b he hz; subst this; exact transparentExact_build _

/-- cache invariant for the bit-exact statement: entries are built from their spec and contain no
zero -/
def CacheInvNZ (c : Cache) : Prop := ∀ id st, c id = some st → st = build st.spec ∧ NoZero st.spec

theorem get_inv_exact (idf : BSpec → UInt64) (c : Cache) (req : BSpec) (hc : CacheInvNZ c)
    (hz : NoZero req) :
    CacheInvNZ (BucketCache.get idf c req).1 ∧ TransparentExact req (BucketCache.get idf c req).2 := by
  unfold BucketCache.get
  split
  · refine ⟨?_, transparentExact_build req⟩
    intro id st hst
    simp only [Cache.set] at hst
    split at hst
    · injection hst with hst; subst hst; cases req <;> exact ⟨rfl, hz⟩
    · exact hc id st hst
  · next st hst =>
    split
    · next he => exact ⟨hc, transparentExact_of_hit req st (hc _ _ hst).1 he (hc _ _ hst).2⟩
    · exact ⟨hc, transparentExact_build req⟩


end Tally.C20Cache
