import Tally.Model.Statsd
import Tally.Spec.C18
import TallyProofs.Lemmas.Digits
/-!
Lemmas relating the StatsD model's renderers to the C18 spec's parsers and judgements:
unique split of `lo-hi`, shape of the rendered bounds, `%.Nf` text parses back to the rounded
integer, the rounding is a nearest-even rounding, `int64(v)` is a truncation.
-/
namespace Tally.Lemmas.Statsd
open Tally Tally.Statsd Tally.Spec.C18 Tally.Lemmas.Digits

/-! ### lists -/

theorem span_stop {p : α → Bool} (l : List α) (x : α) (r : List α)
    (hl : ∀ a ∈ l, p a = true) (hx : p x = false) :
    (l ++ x :: r).takeWhile p = l ∧ (l ++ x :: r).dropWhile p = x :: r := by
  induction l with
  | nil => simp [hx]
  | cons a t ih =>
    have ha : p a = true := hl a (by simp)
    have := ih (fun b hb => hl b (by simp [hb]))
    simp [ha, this.1, this.2]

theorem span_all {p : α → Bool} (l : List α) (hl : ∀ a ∈ l, p a = true) :
    l.takeWhile p = l ∧ l.dropWhile p = [] := by
  induction l with
  | nil => simp
  | cons a t ih =>
    have ha : p a = true := hl a (by simp)
    have := ih (fun b hb => hl b (by simp [hb]))
    simp [ha, this.1, this.2]

theorem stripPrefix_append (n r : Bytes) : stripPrefix n (n ++ r) = some r := by
  induction n with
  | nil => cases r <;> simp [stripPrefix]
  | cons a t ih => simp [stripPrefix, ih]

/-! ### shape and the unique split -/

def noDash (s : Bytes) : Prop := ∀ b ∈ s, b ≠ dash

theorem shapeOk_of_noDash {s : Bytes} (hne : s ≠ []) (h : noDash s) : shapeOk s = true := by
  cases s with
  | nil => exact absurd rfl hne
  | cons b t =>
    unfold shapeOk
    have hb : b ≠ dash := h b (by simp)
    simp only [Bool.and_eq_true, List.all_eq_true, Bool.or_eq_true, bne_iff_ne, ne_eq]
    exact ⟨fun x hx => h x (by simp [hx]), Or.inl hb⟩

theorem shapeOk_dash_cons {s : Bytes} (hne : s ≠ []) (h : noDash s) : shapeOk (dash :: s) = true := by
  unfold shapeOk
  simp only [Bool.and_eq_true, List.all_eq_true, Bool.or_eq_true, bne_iff_ne, ne_eq]
  refine ⟨fun x hx => h x hx, Or.inr ?_⟩
  cases s with
  | nil => exact absurd rfl hne
  | cons _ _ => rfl

/-- **the split is unique**: a well-shaped lower bound followed by `-` and anything is split back
into exactly the two parts. -/
theorem splitBounds_join (lo hi : Bytes) (h : shapeOk lo = true) :
    splitBounds (lo ++ dash :: hi) = some (lo, hi) := by
  cases lo with
  | nil => simp [shapeOk] at h
  | cons b t =>
    unfold shapeOk at h
    simp only [Bool.and_eq_true, List.all_eq_true] at h
    have := span_stop (p := fun x => x != dash) t dash hi h.1 (by simp)
    simp only [List.cons_append, splitBounds]
    rw [this.2, this.1]

theorem bucketBounds_bucketName (n lo hi : Bytes) (h : shapeOk lo = true) :
    bucketBounds n (bucketName n lo hi) = some (lo, hi) := by
  unfold bucketBounds bucketName
  rw [stripPrefix_append]
  exact splitBounds_join lo hi h

/-! ### no `-` (and no `.`) among digits -/

theorem digit_ne_dash {b : UInt8} (h : isDigit b = true) : b ≠ dash :=
  isDigit_ne h dash (Or.inl (by decide))

theorem digit_ne_dot {b : UInt8} (h : isDigit b = true) : b ≠ dot :=
  isDigit_ne h dot (Or.inl (by decide))

theorem natDigits_noDash (n : Nat) : noDash (natDigits n) :=
  fun b hb => digit_ne_dash (natDigits_all_digit n b hb)

theorem noDash_append {a b : Bytes} (ha : noDash a) (hb : noDash b) : noDash (a ++ b) := by
  intro x hx
  rcases List.mem_append.mp hx with h | h
  · exact ha x h
  · exact hb x h

theorem noDash_cons {a : UInt8} {s : Bytes} (ha : a ≠ dash) (hs : noDash s) : noDash (a :: s) := by
  intro x hx
  rcases List.mem_cons.mp hx with h | h
  · subst h; exact ha
  · exact hs x h

theorem noDash_nil : noDash [] := fun _ h => by simp at h

theorem fixedDigits_noDash (N q : Nat) : noDash (fixedDigits N q) := by
  unfold fixedDigits
  apply noDash_append (natDigits_noDash _)
  split
  · exact noDash_nil
  · apply noDash_cons (by decide)
    intro b hb
    exact digit_ne_dash (padLeft0_all_digit N _ b hb)

theorem fixedDigits_ne_nil (N q : Nat) : fixedDigits N q ≠ [] := by
  unfold fixedDigits
  intro h
  have := natDigits_ne_nil (q / 10 ^ N)
  simp at h
  exact this h.1

/-- **shape of `%.Nf`**: for every float64 (finite or not) and every precision the text is
non-empty, has a byte other than a leading `-`, and has no `-` after index 0. -/
theorem fmtFixed_shape (N : Nat) (x : F64) : shapeOk (fmtFixed N x) = true := by
  unfold fmtFixed
  split
  · decide
  · split
    · split <;> decide
    · split
      · exact shapeOk_dash_cons (fixedDigits_ne_nil _ _) (fixedDigits_noDash _ _)
      · simpa using shapeOk_of_noDash (fixedDigits_ne_nil _ _) (fixedDigits_noDash _ _)

/-! ### `%.Nf` parses back -/

theorem canonicalInt_natDigits (a : Nat) : canonicalInt (natDigits a) = true := by
  unfold canonicalInt
  rcases Nat.eq_zero_or_pos a with h | h
  · subst h; decide
  · have := natDigits_head a h
    simp only [Bool.or_eq_true, beq_iff_eq, bne_iff_ne, ne_eq]
    exact Or.inr this

theorem parseFixed_fixedDigits (N q : Nat) (hN : 0 < N) (neg : Bool) :
    parseFixed N ((if neg then [bDash] else []) ++ fixedDigits N q) = some (neg, q) := by
  have hmod : q % 10 ^ N < 10 ^ N := Nat.mod_lt _ (Nat.pow_pos (by decide))
  have hfd : fixedDigits N q = natDigits (q / 10 ^ N) ++ dot :: padLeft0 N (natDigits (q % 10 ^ N)) := by
    unfold fixedDigits
    simp [show N ≠ 0 by omega]; rfl
  have hspan := span_stop (p := fun x => x != dot) (natDigits (q / 10 ^ N)) dot
    (padLeft0 N (natDigits (q % 10 ^ N)))
    (fun b hb => by simpa using digit_ne_dot (natDigits_all_digit _ b hb)) (by simp)
  have hlen := padLeft0_length (natDigits_length_le _ N hmod hN)
  have hq : q / 10 ^ N * 10 ^ N + q % 10 ^ N = q := by
    rw [Nat.mul_comm]; exact Nat.div_add_mod q (10 ^ N)
  have key : ∀ s, s = fixedDigits N q → ∀ ng : Bool, (s.head? == some dash) = false →
      (let body := s
       match body.dropWhile (· != dot) with
       | [] => none
       | _ :: fp =>
         if fp.length != N || !canonicalInt (body.takeWhile (· != dot)) then none
         else match parseDigits (body.takeWhile (· != dot)), parseDigits fp with
           | some a, some b => some (ng, a * 10 ^ N + b)
           | _, _ => none) = some (ng, q) := by
    intro s hs ng _
    subst hs
    simp only [hfd, hspan.1, hspan.2, hlen, canonicalInt_natDigits, parseDigits_natDigits,
      parseDigits_padLeft0 N _ hN hmod, hq]
    simp
  have hhead : ((fixedDigits N q).head? == some dash) = false := by
    rw [hfd]
    cases hd : natDigits (q / 10 ^ N) with
    | nil => exact absurd hd (natDigits_ne_nil _)
    | cons b t =>
      have : b ≠ dash := natDigits_noDash (q / 10 ^ N) b (by simp [hd])
      simp [this]
  cases neg with
  | true =>
    unfold parseFixed
    simp only [if_true, List.cons_append, List.nil_append, List.drop_succ_cons, List.drop_zero]
    exact key _ rfl true hhead
  | false =>
    unfold parseFixed
    simp only [Bool.false_eq_true, if_false, List.nil_append, hhead]
    exact key _ rfl false hhead

/-! ### rounding -/

theorem roundHalfEven_spec (n d : Nat) (hd : 0 < d) :
    2 * (roundHalfEven n d * d) ≤ 2 * n + d ∧ 2 * n ≤ 2 * (roundHalfEven n d * d) + d
    ∧ ((2 * (roundHalfEven n d * d) = 2 * n + d ∨ 2 * n = 2 * (roundHalfEven n d * d) + d)
        → roundHalfEven n d % 2 = 0) := by
  have hdm := Nat.div_add_mod n d
  have hr : n % d < d := Nat.mod_lt _ hd
  have hc : n / d * d = d * (n / d) := Nat.mul_comm _ _
  unfold roundHalfEven
  simp only
  split
  · rw [hc]; omega
  · split
    · rw [Nat.add_mul, hc]; omega
    · rw [Nat.add_mul, hc]
      rcases Nat.mod_two_eq_zero_or_one (n / d) with h | h
      · rw [h]; omega
      · rw [h]; omega

theorem isRounded_scaled (N : Nat) (x : F64) : isRounded N x (scaled N x) = true := by
  have hd : 0 < F64.den x := Nat.pow_pos (by decide)
  obtain ⟨h1, h2, h3⟩ := roundHalfEven_spec (F64.num x * 10 ^ N) (F64.den x) hd
  unfold isRounded scaled
  simp only [Bool.and_eq_true, decide_eq_true_eq, Bool.or_eq_true, bne_iff_ne, ne_eq, beq_iff_eq]
  refine ⟨⟨h1, h2⟩, ?_⟩
  by_cases hc : 2 * (roundHalfEven (F64.num x * 10 ^ N) (F64.den x) * F64.den x) = 2 * (F64.num x * 10 ^ N) + F64.den x
      ∨ 2 * (F64.num x * 10 ^ N) = 2 * (roundHalfEven (F64.num x * 10 ^ N) (F64.den x) * F64.den x) + F64.den x
  · exact Or.inr (h3 hc)
  · exact Or.inl ⟨fun h => hc (Or.inl h), fun h => hc (Or.inr h)⟩

/-! ### truncation -/

theorem isTrunc_truncInt (x : F64) : isTrunc x (truncInt x) = true := by
  have hd : 0 < F64.den x := Nat.pow_pos (by decide)
  have h1 : F64.num x / F64.den x * F64.den x ≤ F64.num x := Nat.div_mul_le_self _ _
  have h2 : F64.num x < (F64.num x / F64.den x + 1) * F64.den x := by
    rw [Nat.mul_comm]; exact Nat.lt_mul_div_succ _ hd
  unfold isTrunc truncInt
  generalize F64.num x / F64.den x = a at *
  simp only
  split
  · simp only [Int.natAbs_neg, Int.natAbs_natCast, Bool.and_eq_true, decide_eq_true_eq]
    exact ⟨⟨h1, h2⟩, by omega⟩
  · simp only [Int.natAbs_natCast, Bool.and_eq_true, decide_eq_true_eq]
    exact ⟨⟨h1, h2⟩, by omega⟩

/-! ### options, finite floats -/

theorem effRate_eq (o : Options) : effRate o = expRate o := rfl
theorem effPrec_eq (o : Options) : effPrec o = expPrec o := rfl
theorem effPrec_pos (o : Options) : 0 < effPrec o := by
  unfold effPrec defaultPrecision; split <;> omega

theorem finite_not_nan_inf {x : F64} (h : F64.isFinite x = true) : F64.isNaN x = false ∧ F64.isInf x = false := by
  unfold F64.isFinite at h; unfold F64.isNaN F64.isInf
  simp only [decide_eq_true_eq] at h
  constructor
  · simp only [decide_eq_false_iff_not]; omega
  · simp only [beq_eq_false_iff_ne, ne_eq]; omega

theorem fmtFixed_finite (N : Nat) {x : F64} (h : F64.isFinite x = true) :
    fmtFixed N x = (if F64.signBit x then [bDash] else []) ++ fixedDigits N (scaled N x) := by
  obtain ⟨h1, h2⟩ := finite_not_nan_inf h
  unfold fmtFixed
  simp [h1, h2]

/-- the text of a finite value bound parses back to its sign and its half-even rounded magnitude -/
theorem parseFixed_fmtFixed (N : Nat) (hN : 0 < N) {x : F64} (h : F64.isFinite x = true) :
    parseFixed N (fmtFixed N x) = some (F64.signBit x, scaled N x) := by
  rw [fmtFixed_finite N h]
  exact parseFixed_fixedDigits N (scaled N x) hN (F64.signBit x)

theorem parseFixed_infinity (N : Nat) : parseFixed N infinity = none ∧ parseFixed N negInfinity = none := by
  constructor <;> rfl

end Tally.Lemmas.Statsd
