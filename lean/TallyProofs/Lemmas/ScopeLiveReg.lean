import TallyProofs.Lemmas.ScopeSteps
import TallyProofs.Lemmas.ScopeRecLemmas
/-!
# Every open scope has a registry entry (any configuration, any shards)

`LR st`: no (shard, key) is registered twice, every entry points to an existing scope, and — as long as
the root has not been closed — every scope that is not closed has at least one registry entry.  Holds at
the root and is kept by every `step`, with or without sanitizer and whatever shards the requests carry.
(The sharper `LiveReg` of `ScopeLemmas` says under WHICH key and needs the sanitizer-free setting.)
-/
namespace Tally.Cons
open Tally Tally.KeyGen Tally.Scope

structure LR (st : St) : Prop where
  nodup : (st.reg.map (·.1)).Nodup
  valid : ∀ e ∈ st.reg, e.2 < st.scopes.length
  live : st.rootClosed = false → ∀ sid s, getScope st sid = some s → s.closed = false → ∃ e ∈ st.reg, e.2 = sid

theorem lr_congr {st st' : St} (h : LR st) (hr : st'.reg = st.reg) (hs : st'.scopes = st.scopes)
    (hc : st'.rootClosed = st.rootClosed) : LR st' := by
  refine ⟨by rw [hr]; exact h.nodup, by rw [hr, hs]; exact h.valid, ?_⟩
  intro hrc sid s hg hcl
  rw [hr]
  exact h.live (hc ▸ hrc) sid s (by unfold getScope at *; rw [← hs]; exact hg) hcl

/-- replacing a scope without re-opening it -/
theorem lr_setScope {st : St} {j : Nat} {s t : ScopeS} (h : LR st) (hg : getScope st j = some s)
    (hc : t.closed = false → s.closed = false) : LR (setScope st j t) := by
  refine ⟨h.nodup, by simpa [setScope] using h.valid, ?_⟩
  intro hrc sid s' hg' hcl
  by_cases e : j = sid
  · subst e
    rw [getScope_setScope_self hg] at hg'; cases hg'
    exact h.live hrc j s hg (hc hcl)
  · rw [getScope_setScope_ne st e] at hg'
    exact h.live hrc sid s' hg' hcl

theorem lr_regRemove {st : St} {j : Nat} {s : ScopeS} (h : LR st) (hg : getScope st j = some s)
    (hc : s.closed = true) (sh : Nat) (k : Bytes) : LR (regRemove st sh k j) := by
  refine ⟨nodup_keys_filter _ _ h.nodup, fun e he => h.valid e (List.mem_filter.mp he).1, ?_⟩
  intro hrc sid s' hg' hcl
  have hg'' : getScope st sid = some s' := hg'
  obtain ⟨e, he, hes⟩ := h.live hrc sid s' hg'' hcl
  refine ⟨e, ?_, hes⟩
  show e ∈ st.reg.filter _
  rw [List.mem_filter]
  refine ⟨he, ?_⟩
  have hne : sid ≠ j := by
    rintro rfl
    rw [hg] at hg''; cases hg''
    rw [hc] at hcl; cases hcl
  obtain ⟨k', v⟩ := e
  simp only at hes; subst hes
  have : (v == j) = false := by simpa using hne
  simp [this]

theorem lr_regAdd {st : St} (h : LR st) (sh : Nat) (k : Bytes) {j : Nat} (hj : j < st.scopes.length) :
    LR (regAdd st sh k j) := by
  refine ⟨regAdd_nodup _ _ _ h.nodup, ?_, ?_⟩
  · intro e he
    rw [regAdd_scopes]
    rcases mem_regAdd he with h1 | rfl
    · exact h.valid e h1
    · exact hj
  · intro hrc sid s hg hcl
    rw [getScope_regAdd] at hg
    obtain ⟨e, he, hes⟩ := h.live (by simpa using hrc) sid s hg hcl
    refine ⟨e, ?_, hes⟩
    unfold regAdd; split
    · exact he
    · exact List.mem_append_left _ he

/-- a new scope registered under a free key -/
theorem lr_create {st : St} (h : LR st) (ns : ScopeS) (sh : Nat) (k : Bytes)
    (hfree : st.reg.lookup (sh, k) = none) :
    LR (regAdd { st with scopes := st.scopes ++ [ns] } sh k st.scopes.length) := by
  have hfree' : ({ st with scopes := st.scopes ++ [ns] } : St).reg.lookup (sh, k) = none := hfree
  refine ⟨regAdd_nodup _ _ _ h.nodup, ?_, ?_⟩
  · intro e he
    rw [regAdd_scopes]
    simp only [List.length_append, List.length_cons, List.length_nil]
    rcases mem_regAdd he with h1 | rfl
    · have := h.valid e h1; omega
    · simp
  · intro hrc sid s hg hcl
    rw [getScope_regAdd] at hg
    rw [regAdd_reg_of_none _ hfree']
    rcases getScope_append_cases ns hg with hg' | ⟨rfl, rfl⟩
    · obtain ⟨e, he, hes⟩ := h.live (by simpa using hrc) sid s hg' hcl
      exact ⟨e, List.mem_append_left _ he, hes⟩
    · exact ⟨((sh, k), st.scopes.length), by simp, rfl⟩

theorem lr_mkRoot (cfg : Cfg) (pfx sep : Bytes) (tags : TagMap) : LR (mkRoot cfg pfx sep tags) := by
  refine ⟨mkRoot_keys_nodup _ _, ?_, ?_⟩
  · intro e he
    simp only [mkRoot, List.mem_map] at he
    obtain ⟨sh, _, rfl⟩ := he
    simp [mkRoot]
  · intro _ sid s hg _
    obtain ⟨rfl, _⟩ := getScope_mkRoot hg
    refine ⟨((0, key (sanName cfg pfx) [sanMap cfg tags]), 0), ?_, rfl⟩
    simp only [mkRoot, List.mem_map, List.mem_range]
    exact ⟨0, by omega, rfl⟩

/-! ## the operations -/

theorem lr_getMetric (st : St) (h : LR st) (sid : Nat) (kind : String) (raw : Bytes) (mk : Bytes → Metric) :
    LR (getMetric st sid kind raw mk).1 := by
  rcases ScopeRec.getMetric_cases st sid kind raw mk with ⟨_, e⟩ | ⟨s, id', _, _, e⟩ | ⟨s, hg, _, e⟩ <;> rw [e]
  · exact h
  · exact h
  · exact lr_congr (lr_setScope (t := { s with metrics := s.metrics ++ [(st.nextMetric, mk (sanName st.cfg raw))] })
      h hg id) rfl rfl rfl

theorem lr_updMetric (st : St) (h : LR st) (mid : Nat) (f : ScopeS → Metric → Metric × List Event) :
    LR (updMetric st mid f).1 := by
  unfold updMetric
  split
  · next i s' evs hgo =>
    obtain ⟨s, j, x, _, hs, _, _, rfl, _⟩ := ScopeRec.go_some mid f _ _ _ _ _ hgo
    simp only [Nat.sub_zero] at hs
    exact lr_setScope h hs id
  · exact h

theorem lr_passEntries : ∀ (es : List ((Nat × Bytes) × Nat)) (st : St), LR st → LR (passEntries st es).1
  | [], _, h => h
  | ((sh, k), sid) :: rest, st, h => by
    cases hg : getScope st sid with
    | none => rw [passEntries_cons_none rest hg]; exact lr_passEntries rest st h
    | some s =>
      rw [passEntries_cons_some rest hg]
      apply lr_passEntries rest
      have h1 : LR (setScope st sid (reportScope st.sep s).1) := lr_setScope h hg id
      have hg1 : getScope (setScope st sid (reportScope st.sep s).1) sid = some (reportScope st.sep s).1 :=
        getScope_setScope_self hg _
      cases hc : s.closed with
      | false => simp only [Bool.false_eq_true, if_false]; exact h1
      | true =>
        simp only [if_true]
        have h2 := lr_regRemove h1 hg1 hc sh k
        exact lr_setScope h2 hg1 (fun e => by cases e.symm.trans hc)

theorem lr_reportPass (st : St) (h : LR st) : LR (reportPass st).1 := by
  unfold reportPass
  split
  · exact h
  · exact lr_passEntries st.reg st h

theorem lr_clearRemove {st : St} {sid : Nat} {s : ScopeS} (h : LR st) (hg : getScope st sid = some s)
    (hc : s.closed = true) (sh : Nat) (k1 k2 : Bytes) :
    LR (regRemove (regRemove (setScope st sid { s with metrics := [] }) sh k1 sid) sh k2 sid) := by
  have h1 : LR (setScope st sid { s with metrics := [] }) := lr_setScope h hg id
  have hg1 : getScope (setScope st sid { s with metrics := [] }) sid = some { s with metrics := [] } :=
    getScope_setScope_self hg _
  exact lr_regRemove (lr_regRemove h1 hg1 hc sh k1) hg1 hc sh k2

theorem lr_createF {st2 : St} (h : LR st2) (ns : ScopeS) (sh : Nat) (rawKey sKey : Bytes)
    (hfree : st2.reg.lookup (sh, sKey) = none) : LR (createF st2 ns sh rawKey sKey) := by
  unfold createF
  apply lr_regAdd (lr_create h ns sh sKey hfree)
  rw [regAdd_scopes]; simp

theorem lr_subscope (st : St) (h : LR st) (parent : Nat) (pfx : Bytes) (tags : TagMap) (sh : Nat) :
    LR (subscope st parent pfx tags sh).1 := by
  rw [subscope_eq]
  cases hp : getScope st parent with
  | none => exact h
  | some p =>
    simp only
    cases hcl : (st.rootClosed || p.closed)
    · simp only [Bool.false_eq_true, if_false]
      have hrest : ∀ (st1 : St) (evs1 : List Event) (ns : ScopeS) (rawKey sKey : Bytes), LR st1 →
          LR (match relookF st1 sh rawKey sKey with
            | (some sid', st2, evs2) => (st2, Out.scope (some sid') (evs1 ++ evs2))
            | (none, st2, evs2) =>
              (createF st2 ns sh rawKey sKey, Out.scope (some st2.scopes.length) (evs1 ++ evs2))).1 := by
        intro st1 evs1 ns rawKey sKey h1
        rcases relookF_cases st1 sh rawKey sKey with ⟨sid', s, _, hg, he⟩ | ⟨sid', s, evs, hl, hg, hc, _, he⟩ |
            ⟨hl, he⟩
        · rw [he]; exact lr_regAdd h1 sh rawKey (getScope_lt hg)
        · rw [he]
          apply lr_createF (lr_clearRemove h1 hg hc sh sKey rawKey)
          show (List.filter _ (List.filter _ st1.reg)).lookup (sh, sKey) = none
          exact lookup_filter_none _ _ _ (lookup_filter_self _ _ _ h1.nodup hl)
        · rw [he]
          apply lr_createF h1
          rcases hl with hl | ⟨sid', hl, hnone⟩
          · exact hl
          · exfalso
            have := h1.valid _ (mem_of_lookup_eq_some hl)
            unfold getScope at hnone
            rw [List.getElem?_eq_getElem this] at hnone
            cases hnone
      rcases probeF_cases st sh (key pfx [p.tags, tags]) (key pfx [p.tags, sanMap st.cfg tags]) with
        ⟨sid', s, _, hg, _, he⟩ | ⟨sid', s, evs, _, hg, hc, _, he⟩ | ⟨_, he⟩
      · rw [he]; exact h
      · rw [he]; exact hrest _ _ _ _ _ (lr_clearRemove h hg hc sh _ _)
      · rw [he]; exact hrest _ _ _ _ _ h
    · simp only [if_true]; exact h

theorem lr_close (st : St) (h : LR st) (sid : Nat) : LR (step st (.close sid)).1 := by
  simp only [step]
  cases hg : getScope st sid with
  | none => exact h
  | some s =>
    simp only
    split
    · exact h
    · have h1 : LR (setScope st sid { s with closed := true }) := lr_setScope h hg (fun e => by cases e)
      split
      · exact h1
      · have h2 : LR { setScope st sid { s with closed := true } with rootClosed := true } :=
          ⟨h1.nodup, h1.valid, fun e => by cases e⟩
        split
        · exact h2
        · have hrc : (reportPass { setScope st sid { s with closed := true } with rootClosed := true }).1.rootClosed
              = true := (prims_ext (reportPass_prims False False (fun _ _ => True) _)).rootClosed rfl
          refine ⟨by show (([] : List ((Nat × Bytes) × Nat)).map (·.1)).Nodup; simp,
            (fun e he => by cases he), ?_⟩
          intro e
          have : (reportPass { setScope st sid { s with closed := true } with rootClosed := true }).1.rootClosed
              = false := e
          rw [hrc] at this; cases this

theorem lr_step (st : St) (h : LR st) (op : Op) : LR (step st op).1 := by
  cases op with
  | sub p name sh =>
    simp only [step]; split
    · exact lr_subscope st h _ _ _ _
    · exact h
  | tagged p tags sh =>
    simp only [step]; split
    · exact lr_subscope st h _ _ _ _
    · exact h
  | counter s n => exact lr_getMetric st h _ _ _ _
  | gauge s n => exact lr_getMetric st h _ _ _ _
  | hist s n spec => exact lr_getMetric st h _ _ _ _
  | timer s n =>
    have h1 := lr_getMetric st h s "timer" n (fun n => .timer n [])
    simp only [step]
    split
    · split
      · exact h1
      · exact lr_congr h1 rfl rfl rfl
    · exact h1
  | inc m v => exact lr_updMetric st h _ _
  | upd m v => exact lr_updMetric st h _ _
  | recv m v => exact lr_updMetric st h _ _
  | recd m v => exact lr_updMetric st h _ _
  | record m d =>
    simp only [step]; split
    · exact lr_updMetric st h _ _
    · split <;> exact h
  | report =>
    simp only [step]; split
    · exact h
    · exact lr_reportPass st h
  | close sid => exact lr_close st h sid

theorem lr_runOps (st : St) (h : LR st) (ops : List Op) : LR (Scope.runOps st ops) :=
  runOps_induction (P := LR) (fun st op h => lr_step st h op) ops st h

/-- **in a reachable state whose root has not been closed every open scope has a registry entry** -/
theorem reach_registered {cfg : Cfg} {pfx sep : Bytes} {tags : TagMap} {st : St}
    (h : Reach cfg pfx sep tags st) (hrc : st.rootClosed = false) {sid : Nat} {s : ScopeS}
    (hs : getScope st sid = some s) (hc : s.closed = false) : ∃ e ∈ st.reg, e.2 = sid := by
  obtain ⟨ops, rfl⟩ := h
  exact (lr_runOps _ (lr_mkRoot cfg pfx sep tags) ops).live hrc sid s hs hc

end Tally.Cons
