import TallyProofs.Lemmas.ScopeLifeCtl
/-!
# Token invariant of the combined model `Tally.ScopeLife`

`TokBase`: the Registry invariant of the SHADOW of the shard (`pre` stamps of dropped tokens erased: the purge clears
away tokens that are `pre` in the Registry sense, so `SInv.droppedNoPre` itself does not survive a purge), what is
dropped is never a barrier token, a scope whose cell holds a `pre` token is registered, and after the purge no
barrier token is in a cell or pending.

`Tok.cover`: during and after the winner's final pass, every scope whose cell still holds a barrier token is
*covered*: during the pass by a snapshot entry the pass has not visited yet (which the range loop must still visit:
`finalPassComplete`) or by a thread that is about to swap that cell; after the pass (the winner is about to purge)
only by such a thread — and such a thread holds the shard's read lock, so there is none when the purge takes the
write lock.  The final `Flush` comes after the purge: by then no cell holds a barrier token (`purgedCold`).
-/
namespace Tally.ScopeLife
open Tally.Registry (Token ScopeS Pc pcOf scopeOf lookup isPassPc step_pcOf_ne actor Inv shadow NoPre allPending
  allTokens swapsNext Fam step_fam shadow_step pres_step)

variable {san : Nat → Nat}

/-- the cell of scope `sid` holds a barrier token -/
def HotB (s : State) (sid : Nat) : Prop :=
  ∃ (x : ScopeS) (tok : Token), s.reg.scopes[sid]? = some x ∧ tok ∈ x.cell ∧ Barrier s tok

/-- some thread's next action swaps the cell of `sid` -/
def Swapper (r : Registry.State) (sid : Nat) : Prop := ∃ t, swapsNext (pcOf r t) sid = true

/-- `sid` is registered under a key of the snapshot, and that snapshot entry `(k, sid)` is one the final pass of call
`w` has not visited -/
def Unvisited (s : State) (w sid : Nat) : Prop :=
  ∃ k, (k, sid) ∈ s.reg.reg ∧ (k, sid) ∈ s.snap ∧ (k, sid) ∉ visitedOf (pcOf s.reg (closerTid w))

def Cov (s : State) (w sid : Nat) : Prop :=
  match s.closers w with
  | .pass => Unvisited s w sid ∨ Swapper s.reg sid
  | .purgePc => Swapper s.reg sid
  | _ => True

structure TokBase (san : Nat → Nat) (s : State) : Prop where
  inv : Inv san (shadow s.reg)
  preLt : ∀ id ∈ s.preRoot, id < s.reg.nextToken
  dropNoPre : s.purged = false → NoPre s.reg.dropped
  dropNoB : ∀ tok ∈ s.reg.dropped, ¬ Barrier s tok
  regIfPre : ∀ (sid : Nat) (x : ScopeS) (tok : Token), s.reg.scopes[sid]? = some x → tok ∈ x.cell → tok.pre = true →
    ∃ k, (k, sid) ∈ s.reg.reg
  pendNoB : s.purged = true → ∀ tok ∈ allPending s.reg, ¬ Barrier s tok
  purgedCold : s.purged = true → ∀ sid, ¬ HotB s sid

structure Tok (san : Nat → Nat) (s : State) : Prop where
  base : TokBase san s
  cover : ∀ w, s.winner = some w → ∀ sid, HotB s sid → Cov s w sid

theorem barrier_congr {s s' : State} (h : s'.preRoot = s.preRoot) (tok : Token) : Barrier s' tok ↔ Barrier s tok := by
  simp [Barrier, h]

theorem hotB_congr {s s' : State} (hp : s'.preRoot = s.preRoot) (hr : s'.reg.scopes = s.reg.scopes) (sid : Nat) :
    HotB s' sid ↔ HotB s sid := by
  simp only [HotB, hr, barrier_congr hp]

/-- the shard, the ghost `preRoot` and the `purged` flag are unchanged -/
theorem TokBase.congr {s s' : State} (h : TokBase san s) (hr : s'.reg = s.reg) (hp : s'.preRoot = s.preRoot)
    (hpu : s'.purged = s.purged) : TokBase san s' := by
  refine ⟨by rw [hr]; exact h.inv, by rw [hp, hr]; exact h.preLt, by rw [hpu, hr]; exact h.dropNoPre, ?_,
    by rw [hr]; exact h.regIfPre, ?_, ?_⟩
  · intro tok hm; rw [barrier_congr hp]; rw [hr] at hm; exact h.dropNoB tok hm
  · intro hpur tok hm; rw [barrier_congr hp]; rw [hr] at hm; exact h.pendNoB (hpu ▸ hpur) tok hm
  · intro hpur sid; rw [hotB_congr hp (by rw [hr])]; exact h.purgedCold (hpu ▸ hpur) sid

/-! ## a step of the shard that is not a `record` -/

section regStep
variable {s s' : State} {r : Registry.State} {e : Registry.Ev}

theorem fam_of_step (h : TokBase san s) (hr : Registry.step san s.reg e = some r) (hne : ∀ sid, e ≠ .record sid) :
    Fam san (shadow s.reg) (Registry.isCloseEv e) (shadow r) :=
  step_fam hne (shadow_step h.inv hr).1

/-- cells only shrink: a scope that is hot afterwards was hot before -/
theorem hot_back (h : TokBase san s) (hr : Registry.step san s.reg e = some r) (hne : ∀ sid, e ≠ .record sid)
    (hreg : s'.reg = r) (hp : s'.preRoot = s.preRoot) {sid : Nat} (hh : HotB s' sid) : HotB s sid := by
  obtain ⟨x', tok, hx', hm, hb⟩ := hh
  rw [hreg] at hx'
  obtain ⟨x, hx, hm'⟩ := (fam_of_step h hr hne).cells_sub sid x' tok hx' hm
  exact ⟨x, tok, hx, hm', (barrier_congr hp tok).mp hb⟩

theorem TokBase.regStep (h : TokBase san s) (hr : Registry.step san s.reg e = some r) (hne : ∀ sid, e ≠ .record sid)
    (hreg : s'.reg = r) (hp : s'.preRoot = s.preRoot) (hpu : s'.purged = s.purged) : TokBase san s' := by
  obtain ⟨hsh, nw, hd, hnw⟩ := shadow_step h.inv hr
  have hf := fam_of_step h hr hne
  have hI' : Inv san (shadow r) := (pres_step h.inv hsh).1
  refine ⟨by rw [hreg]; exact hI', ?_, ?_, ?_, ?_, ?_, ?_⟩
  · intro id hm
    rw [hreg, show r.nextToken = s.reg.nextToken from hf.nextToken]
    exact h.preLt id (hp ▸ hm)
  · intro hpur tok hm
    rw [hreg, hd] at hm
    rcases List.mem_append.mp hm with hm | hm
    · exact hnw tok hm
    · exact h.dropNoPre (hpu ▸ hpur) tok hm
  · intro tok hm hb
    rw [hreg, hd] at hm
    rcases List.mem_append.mp hm with hm | hm
    · have := hnw tok hm; rw [hb.1] at this; cases this
    · exact h.dropNoB tok hm ((barrier_congr hp tok).mp hb)
  · intro sid x' tok hx' hm hpre
    rw [hreg] at hx' ⊢
    obtain ⟨x, hx, hm'⟩ := hf.cells_sub sid x' tok hx' hm
    obtain ⟨k, hk⟩ := h.regIfPre sid x tok hx hm' hpre
    rcases hf.reg_keep h.inv (k := k) (v := sid) hk with hk' | hk'
    · exact ⟨k, hk'⟩
    · have := hk' x' hx' tok hm; rw [hpre] at this; cases this
  · intro hpur tok hm hb
    rw [hreg] at hm
    have hpur0 : s.purged = true := hpu ▸ hpur
    have hb0 := (barrier_congr hp tok).mp hb
    rcases hf.pending_sub (tok := tok) hm with hm' | ⟨sid, x, hx, hm'⟩
    · exact h.pendNoB hpur0 tok hm' hb0
    · exact h.purgedCold hpur0 sid ⟨x, tok, hx, hm', hb0⟩
  · intro hpur sid hh
    exact h.purgedCold (hpu ▸ hpur) sid (hot_back h hr hne hreg hp hh)

/-- a thread about to swap a scope that is still hot afterwards is still about to swap it -/
theorem swapper_keep (h : TokBase san s) (hr : Registry.step san s.reg e = some r) (hne : ∀ sid, e ≠ .record sid)
    (hreg : s'.reg = r) {sid : Nat} (hsw : Swapper s.reg sid) (hh : HotB s' sid) : Swapper r sid := by
  obtain ⟨t, ht⟩ := hsw
  rcases (fam_of_step h hr hne).swapper_keep (t' := t) (sid := sid) ht with h1 | h1
  · exact ⟨t, h1⟩
  · obtain ⟨x', tok, hx', hm, _⟩ := hh
    rw [hreg] at hx'
    rw [h1 x' hx'] at hm; cases hm

/-- an unvisited snapshot entry of a scope that is still hot afterwards is still there and still unvisited, unless the
final pass has just picked it — and then the pass is about to swap the scope -/
theorem unvisited_keep (h : TokBase san s) (hr : Registry.step san s.reg e = some r) (hne : ∀ sid, e ≠ .record sid)
    (hreg : s'.reg = r) (hsnap : s'.snap = s.snap) {w sid : Nat}
    (hact : actor e ≠ some (closerTid w) ∨
      ∃ c, e = .step (closerTid w) c ∧ isPassPc (pcOf s.reg (closerTid w)) = true)
    (hu : Unvisited s w sid) (hh : HotB s' sid) : Unvisited s' w sid ∨ Swapper r sid := by
  obtain ⟨k, hk, hks, hkv⟩ := hu
  have hf := fam_of_step h hr hne
  have hk' : (k, sid) ∈ r.reg := by
    rcases hf.reg_keep h.inv (k := k) (v := sid) hk with hk' | hk'
    · exact hk'
    · obtain ⟨x', tok, hx', hm, hb⟩ := hh
      rw [hreg] at hx'
      have := hk' x' hx' tok hm; rw [hb.1] at this; cases this
  rcases hact with hact | ⟨c, rfl, hpp⟩
  · left
    refine ⟨k, by rw [hreg]; exact hk', by rw [hsnap]; exact hks, ?_⟩
    rw [hreg, step_pcOf_ne hr hact]; exact hkv
  · obtain ⟨_, hv⟩ := Registry.step_pass_kind hr hpp
    rcases hv with hv | ⟨k', sid', cl, hpc', hl⟩
    · left
      refine ⟨k, by rw [hreg]; exact hk', by rw [hsnap]; exact hks, ?_⟩
      rw [hreg, hv]; exact hkv
    · by_cases he : k' = k
      · right
        subst he
        have hl' : s.reg.reg.lookup k' = some sid :=
          Registry.lookup_of_mem_nodup (reg := s.reg.reg) h.inv.static.regNodup hk
        have : sid' = sid := by
          have h2 : s.reg.reg.lookup k' = some sid' := hl
          rw [hl'] at h2; exact (Option.some.inj h2).symm
        subst this
        exact ⟨closerTid w, by rw [hpc']; simp [swapsNext]⟩
      · left
        refine ⟨k, by rw [hreg]; exact hk', by rw [hsnap]; exact hks, ?_⟩
        rw [hreg, hpc']
        simp only [visitedOf, List.mem_cons, not_or]
        exact ⟨fun e => he (congrArg Prod.fst e).symm, hkv⟩

end regStep


/-! ## record -/

theorem record_shape {r0 r : Registry.State} {sid : Nat} (hr : Registry.step san r0 (.record sid) = some r) :
    ∃ x, scopeOf r0 sid = some x ∧ r.reg = r0.reg ∧ r.pcs = r0.pcs ∧ r.nextToken = r0.nextToken + 1 ∧
      (∀ (sid' : Nat) (x' : ScopeS) (tok : Token), r.scopes[sid']? = some x' → tok ∈ x'.cell →
        (∃ x0, r0.scopes[sid']? = some x0 ∧ tok ∈ x0.cell)
          ∨ (sid' = sid ∧ tok = { id := r0.nextToken, scope := sid, pre := !x.closed })) := by
  simp only [Registry.step] at hr
  split at hr
  · cases hr
  · next x hx =>
    refine ⟨x, hx, ?_⟩
    split at hr
    · cases hr
      exact ⟨rfl, rfl, rfl, fun sid' x' tok hx' hm => Or.inl ⟨x', hx', hm⟩⟩
    · cases hr
      refine ⟨rfl, rfl, rfl, ?_⟩
      intro sid' x' tok hx' hm
      have hx'' : (r0.scopes.set sid _)[sid']? = some x' := hx'
      rw [List.getElem?_set] at hx''
      split at hx''
      · next he =>
        subst he
        split at hx''
        · cases hx''
          rcases List.mem_cons.mp hm with rfl | hm
          · exact Or.inr ⟨rfl, rfl⟩
          · exact Or.inl ⟨x, hx, hm⟩
        · cases hx''
      · exact Or.inl ⟨x', hx'', hm⟩

theorem pcOf_of_pcs_eq {r r' : Registry.State} (h : r'.pcs = r.pcs) (t : Nat) : pcOf r' t = pcOf r t :=
  Registry.pcOf_congr h t

theorem allPending_of_pcs_eq {r r' : Registry.State} (h : r'.pcs = r.pcs) : allPending r' = allPending r := by
  simp [Registry.allPending, h]

theorem TokBase.record {s : State} {r : Registry.State} {sid : Nat} (h : TokBase san s)
    (hcp : s.purged = true → s.rootClosed = true)
    (hr : Registry.step san s.reg (.record sid) = some r) :
    TokBase san { s with reg := r,
                         preRoot := if s.rootClosed then s.preRoot else s.reg.nextToken :: s.preRoot } := by
  obtain ⟨hsh, nw, hd, hnw⟩ := shadow_step h.inv hr
  have hI' : Inv san (shadow r) := (pres_step h.inv hsh).1
  obtain ⟨x, hx, hreg, hpcs, hnt, hcells⟩ := record_shape hr
  have hpre_closed : s.rootClosed = true →
      (if s.rootClosed then s.preRoot else s.reg.nextToken :: s.preRoot) = s.preRoot := fun hc => by simp [hc]
  have hnewB : s.rootClosed = true → ¬ Barrier s ({ id := s.reg.nextToken, scope := sid, pre := !x.closed } : Token) := by
    intro _ hb
    exact Nat.lt_irrefl _ (h.preLt _ hb.2)
  refine ⟨hI', ?_, ?_, ?_, ?_, ?_, ?_⟩
  · intro id hm
    show id < r.nextToken
    rw [hnt]
    dsimp only at hm
    split at hm
    · have := h.preLt id hm; omega
    · rcases List.mem_cons.mp hm with rfl | hm
      · omega
      · have := h.preLt id hm; omega
  · intro hpur tok hm
    have hm' : tok ∈ r.dropped := hm
    rw [hd] at hm'
    rcases List.mem_append.mp hm' with hm' | hm'
    · exact hnw tok hm'
    · exact h.dropNoPre hpur tok hm'
  · intro tok hm hb
    have hm' : tok ∈ r.dropped := hm
    rw [hd] at hm'
    rcases List.mem_append.mp hm' with hm' | hm'
    · have := hnw tok hm'; rw [hb.1] at this; cases this
    · cases hpur : s.purged with
      | false => have := h.dropNoPre hpur tok hm'; rw [hb.1] at this; cases this
      | true =>
        have hc := hcp hpur
        refine h.dropNoB tok hm' ⟨hb.1, ?_⟩
        have := hb.2; dsimp only at this; rw [hpre_closed hc] at this; exact this
  · intro sid' x' tok hx' hm hpre
    show ∃ k, (k, sid') ∈ r.reg
    rw [hreg]
    rcases hcells sid' x' tok hx' hm with ⟨x0, hx0, hm0⟩ | ⟨rfl, rfl⟩
    · exact h.regIfPre sid' x0 tok hx0 hm0 hpre
    · have hlive : x.closed = false := by simpa using hpre
      exact ⟨x.ident, Registry.mem_of_lookup (h.inv.static.liveReg sid' x hx hlive)⟩
  · intro hpur tok hm hb
    have hc := hcp hpur
    have hm' : tok ∈ allPending r := hm
    rw [allPending_of_pcs_eq hpcs] at hm'
    refine h.pendNoB hpur tok hm' ⟨hb.1, ?_⟩
    have := hb.2; dsimp only at this; rw [hpre_closed hc] at this; exact this
  · intro hpur sid' hh
    have hc := hcp hpur
    obtain ⟨x', tok, hx', hm, hb⟩ := hh
    have hb0 : Barrier s tok := ⟨hb.1, by have := hb.2; dsimp only at this; rw [hpre_closed hc] at this; exact this⟩
    rcases hcells sid' x' tok hx' hm with ⟨x0, hx0, hm0⟩ | ⟨rfl, rfl⟩
    · exact h.purgedCold hpur sid' ⟨x0, tok, hx0, hm0, hb0⟩
    · exact hnewB hc hb0

/-! ## purge -/

theorem holdsR_of_swapsNext {p : Pc} {sid : Nat} (h : swapsNext p sid = true) : Registry.holdsR p = true := by
  cases p <;> first | rfl | (simp [swapsNext] at h)

theorem no_swapper_of_no_readers {r : Registry.State} (hI : Inv san (shadow r)) (hrd : r.readers = []) (sid : Nat) :
    ¬ Swapper r sid := by
  rintro ⟨t, ht⟩
  have := (hI.readersOk t).mpr (holdsR_of_swapsNext ht)
  have h2 : t ∈ r.readers := this
  rw [hrd] at h2; cases h2

theorem TokBase.purge {s s' : State} (h : TokBase san s) (hcold : ∀ sid, HotB s sid → Swapper s.reg sid)
    (hrd : s.reg.readers = []) (hreg : s'.reg = purgeReg s.reg) (hp : s'.preRoot = s.preRoot)
    (hpu : s'.purged = true) : TokBase san s' := by
  have hnohot : ∀ sid, ¬ HotB s sid := fun sid hh => no_swapper_of_no_readers h.inv hrd sid (hcold sid hh)
  have hcell : ∀ (sid : Nat) (x' : ScopeS) (tok : Token), (purgeReg s.reg).scopes[sid]? = some x' → tok ∈ x'.cell →
      tok.pre = true → False := by
    intro sid x' tok hx' hm hpre
    have := Registry.scopeOf_purgeReg s.reg sid
    rw [show scopeOf (purgeReg s.reg) sid = (purgeReg s.reg).scopes[sid]? from rfl, hx'] at this
    cases hx : scopeOf s.reg sid with
    | none => rw [hx] at this; cases this
    | some x =>
      rw [hx] at this
      simp only [Option.map_some, Option.some.injEq] at this
      subst this
      split at hm
      · cases hm
      · next hnr =>
        obtain ⟨k, hk⟩ := h.regIfPre sid x tok hx hm hpre
        exact hnr (Registry.isReg_iff.mpr ⟨k, hk⟩)
  refine ⟨by rw [hreg]; exact Registry.inv_purge h.inv, ?_, ?_, ?_, ?_, ?_, ?_⟩
  · intro id hm; rw [hreg]; exact h.preLt id (hp ▸ hm)
  · intro hpur; rw [hpu] at hpur; cases hpur
  · intro tok hm hb
    have hb0 := (barrier_congr hp tok).mp hb
    rw [hreg, Registry.purgeReg_dropped] at hm
    rcases List.mem_append.mp hm with hm | hm
    · obtain ⟨j, x, hx, _, hm'⟩ := Registry.mem_purgedToks hm
      exact hnohot j ⟨x, tok, hx, hm', hb0⟩
    · exact h.dropNoB tok hm hb0
  · intro sid x' tok hx' hm hpre
    rw [hreg] at hx'
    exact (hcell sid x' tok hx' hm hpre).elim
  · intro _ tok hm
    rw [hreg] at hm
    have : allPending (purgeReg s.reg) = [] := by
      rw [allPending_of_pcs_eq (r := s.reg) (r' := purgeReg s.reg) rfl]
      exact Registry.pending_nil_of_no_readers (s := shadow s.reg) h.inv hrd
    rw [this] at hm; cases hm
  · intro _ sid hh
    obtain ⟨x', tok, hx', hm, hb⟩ := hh
    rw [hreg] at hx'
    exact hcell sid x' tok hx' hm hb.1

end Tally.ScopeLife
