import Tally.Model.M3Life
/-!
Inductive invariant of the M3 life-cycle model (`Tally.M3Life`), used by `Props/C14.lean`.

All counting facts are sums of per-thread weights over the thread list, so that one action of one
thread changes each sum by the difference of that thread's weight (`split_at`).
-/
set_option linter.unusedSimpArgs false
set_option linter.unusedVariables false
namespace Tally.M3Life

def b2n (b : Bool) : Nat := if b then 1 else 0

theorem b2n_le (b : Bool) : b2n b ≤ 1 := by cases b <;> simp [b2n]
theorem b2n_true {b : Bool} (h : b = true) : b2n b = 1 := by subst h; rfl
theorem b2n_false {b : Bool} (h : b = false) : b2n b = 0 := by subst h; rfl
theorem b2n_eq_one {b : Bool} (h : b2n b = 1) : b = true := by cases b <;> simp [b2n] at h ⊢
theorem b2n_eq_zero {b : Bool} (h : b2n b = 0) : b = false := by cases b <;> simp [b2n] at h ⊢

def sumOf (f : Pc → Nat) (l : List Pc) : Nat := (l.map f).sum

@[simp] theorem sumOf_nil (f : Pc → Nat) : sumOf f [] = 0 := rfl
@[simp] theorem sumOf_cons (f : Pc → Nat) (p : Pc) (l : List Pc) : sumOf f (p :: l) = f p + sumOf f l := by
  simp [sumOf]
@[simp] theorem sumOf_append (f : Pc → Nat) (a b : List Pc) : sumOf f (a ++ b) = sumOf f a + sumOf f b := by
  simp [sumOf]

theorem sumOf_le (f g : Pc → Nat) (h : ∀ p, f p ≤ g p) (l : List Pc) : sumOf f l ≤ sumOf g l := by
  induction l with
  | nil => simp
  | cons p l ih => have := h p; simp only [sumOf_cons]; omega

theorem split_at (l : List Pc) (t : Nat) (pc : Pc) (h : l[t]? = some pc) :
    ∃ a b, l = a ++ pc :: b ∧ ∀ pc', l.set t pc' = a ++ pc' :: b := by
  induction l generalizing t with
  | nil => simp at h
  | cons x l ih =>
    cases t with
    | zero =>
      simp only [List.getElem?_cons_zero, Option.some.injEq] at h
      subst h
      exact ⟨[], l, rfl, fun _ => rfl⟩
    | succ t =>
      simp only [List.getElem?_cons_succ] at h
      obtain ⟨a, b, hl, hs⟩ := ih t h
      refine ⟨x :: a, b, by simp [hl], fun pc' => ?_⟩
      simp [List.set, hs pc']

/-- a positive sum has a positive summand, at some index -/
theorem exists_pos_of_sum_pos (f : Pc → Nat) (l : List Pc) (h : sumOf f l ≥ 1) :
    ∃ (t : Nat) (pc : Pc), l[t]? = some pc ∧ f pc ≥ 1 := by
  induction l with
  | nil => simp at h
  | cons x l ih =>
    simp only [sumOf_cons] at h
    by_cases hx : f x ≥ 1
    · exact ⟨(0 : Nat), x, by simp, hx⟩
    · obtain ⟨t, pc, ht, hp⟩ := ih (by omega)
      exact ⟨(t + 1 : Nat), pc, by simpa using ht, hp⟩

theorem le_sum_of_getElem (f : Pc → Nat) (l : List Pc) (t : Nat) (pc : Pc) (h : l[t]? = some pc) :
    f pc ≤ sumOf f l := by
  obtain ⟨a, b, hl, _⟩ := split_at l t pc h
  subst hl; simp only [sumOf_append, sumOf_cons]; omega

/-! ## per-thread weights -/

def holdP : PPc → Nat
  | .afterInc | .afterCheck | .finishing => 1
  | _ => 0

/-- how many `pending.Inc()` of this thread are not yet matched by a `Dec` -/
def hold : Pc → Nat
  | .prod p => holdP p
  | .fAfterInc | .fSending | .fFinishing => 1
  | .fNested _ .start => 1
  | .fNested _ _ => 2
  | _ => 0

/-- the thread passed a `done` check and may still send -/
def passed : Pc → Nat
  | .prod .afterCheck => 1
  | .fNested _ _ | .fSending => 1
  | _ => 0

/-- the Close call that won the CAS -/
def winner : Pc → Nat
  | .cAfterCas | .cSpun | .cClosedDonech | .cClosedMetch | .cReturned false => 1
  | _ => 0

/-- … and has left the spin loop -/
def past : Pc → Nat
  | .cSpun | .cClosedDonech | .cClosedMetch | .cReturned false => 1
  | _ => 0

/-- … and has closed donech -/
def dCl : Pc → Nat
  | .cClosedDonech | .cClosedMetch | .cReturned false => 1
  | _ => 0

/-- … and has closed metCh -/
def mCl : Pc → Nat
  | .cClosedMetch | .cReturned false => 1
  | _ => 0

theorem passed_le_hold (p : Pc) : passed p ≤ hold p := by
  cases p <;> try (simp [passed, hold])
  case prod q => cases q <;> simp [passed, hold, holdP]
  case fNested n q => cases q <;> simp [passed, hold]
theorem past_le_winner (p : Pc) : past p ≤ winner p := by
  cases p <;> try (simp [past, winner])
  case cReturned e => cases e <;> simp [past, winner]
theorem dCl_le_past (p : Pc) : dCl p ≤ past p := by
  cases p <;> try (simp [dCl, past])
  case cReturned e => cases e <;> simp [dCl, past]
theorem mCl_le_dCl (p : Pc) : mCl p ≤ dCl p := by
  cases p <;> try (simp [dCl, mCl])
  case cReturned e => cases e <;> simp [dCl, mCl]
theorem retOk_le_mCl (p : Pc) : retOk p ≤ mCl p := by
  cases p <;> try (simp [retOk, mCl])
  case cReturned e => cases e <;> simp [retOk, mCl]

/-- closer weights do not change -/
def sameC (pc pc' : Pc) : Prop :=
  winner pc' = winner pc ∧ past pc' = past pc ∧ dCl pc' = dCl pc ∧ mCl pc' = mCl pc ∧ retOk pc' = retOk pc
    ∧ winner pc = 0
/-- caller weights do not change (and are zero: the thread is a Close call) -/
def sameH (pc pc' : Pc) : Prop := hold pc' = 0 ∧ hold pc = 0 ∧ passed pc' = 0 ∧ passed pc = 0

/-- what one action does to the weights of the thread executing it -/
def Local (done : Bool) (pc pc' : Pc) : Act → Prop
  | .inc => hold pc' = hold pc + 1 ∧ passed pc' = passed pc ∧ sameC pc pc'
  | .load => hold pc' = hold pc ∧ passed pc ≤ passed pc' ∧ passed pc' + b2n done ≤ passed pc + 1 ∧ sameC pc pc'
  | .send _ => hold pc' = hold pc ∧ passed pc = 1 ∧ passed pc' ≤ 1 ∧ sameC pc pc'
  | .bail => False
  | .dec => hold pc' + 1 = hold pc ∧ passed pc' = passed pc ∧ sameC pc pc'
  | .cas => sameH pc pc' ∧ winner pc = 0 ∧ winner pc' + b2n done = 1 ∧ past pc = 0 ∧ past pc' = 0
      ∧ dCl pc = 0 ∧ dCl pc' = 0 ∧ mCl pc = 0 ∧ mCl pc' = 0 ∧ retOk pc = 0 ∧ retOk pc' = 0
  | .spin => sameH pc pc' ∧ winner pc = 1 ∧ winner pc' = 1 ∧ past pc = 0 ∧ past pc' = 1
      ∧ dCl pc = 0 ∧ dCl pc' = 0 ∧ mCl pc = 0 ∧ mCl pc' = 0 ∧ retOk pc = 0 ∧ retOk pc' = 0
  | .closeDonech => sameH pc pc' ∧ winner pc = 1 ∧ winner pc' = 1 ∧ past pc = 1 ∧ past pc' = 1
      ∧ dCl pc = 0 ∧ dCl pc' = 1 ∧ mCl pc = 0 ∧ mCl pc' = 0 ∧ retOk pc = 0 ∧ retOk pc' = 0
  | .closeMetch => sameH pc pc' ∧ winner pc = 1 ∧ winner pc' = 1 ∧ past pc = 1 ∧ past pc' = 1
      ∧ dCl pc = 1 ∧ dCl pc' = 1 ∧ mCl pc = 0 ∧ mCl pc' = 1 ∧ retOk pc = 0 ∧ retOk pc' = 0
  | .wait => sameH pc pc' ∧ winner pc = 1 ∧ winner pc' = 1 ∧ past pc = 1 ∧ past pc' = 1
      ∧ dCl pc = 1 ∧ dCl pc' = 1 ∧ mCl pc = 1 ∧ mCl pc' = 1 ∧ retOk pc = 0 ∧ retOk pc' = 1

theorem nextNested_weights (n : Nat) :
    hold (nextNested n) = 1 ∧ passed (nextNested n) = 1 ∧ winner (nextNested n) = 0 ∧ past (nextNested n) = 0
      ∧ dCl (nextNested n) = 0 ∧ mCl (nextNested n) = 0 ∧ retOk (nextNested n) = 0 := by
  unfold nextNested; split <;> simp [hold, passed, winner, past, dCl, mCl, retOk]

theorem next_local (done : Bool) (nInt t : Nat) (pc pc' : Pc) (a : Act)
    (h : next done nInt t pc = some (a, pc')) : Local done pc pc' a := by
  have hn := nextNested_weights
  cases pc with
  | prod p =>
    cases p <;> simp only [next, Option.some.injEq, Prod.mk.injEq, reduceCtorEq] at h <;> obtain ⟨rfl, rfl⟩ := h
    · simp [Local, sameC, hold, holdP, passed, winner, past, dCl, mCl, retOk]
    · cases done <;> simp [Local, sameC, hold, holdP, passed, winner, past, dCl, mCl, retOk, b2n]
    · simp [Local, sameC, hold, holdP, passed, winner, past, dCl, mCl, retOk]
    · simp [Local, sameC, hold, holdP, passed, winner, past, dCl, mCl, retOk]
  | fStart =>
    simp only [next, Option.some.injEq, Prod.mk.injEq] at h; obtain ⟨rfl, rfl⟩ := h
    simp [Local, sameC, hold, passed, winner, past, dCl, mCl, retOk]
  | fAfterInc =>
    simp only [next, Option.some.injEq, Prod.mk.injEq] at h; obtain ⟨rfl, rfl⟩ := h
    obtain ⟨h1, h2, h3, h4, h5, h6, h7⟩ := hn nInt
    cases done <;> simp only [Local, sameC, h1, h2, h3, h4, h5, h6, h7, if_true, if_false, Bool.false_eq_true] <;>
      simp [hold, passed, winner, past, dCl, mCl, retOk, b2n]
  | fNested n p =>
    cases p <;> simp only [next, Option.some.injEq, Prod.mk.injEq] at h <;> obtain ⟨rfl, rfl⟩ := h
    · simp [Local, sameC, hold, passed, winner, past, dCl, mCl, retOk]
    · cases done <;> simp [Local, sameC, hold, passed, winner, past, dCl, mCl, retOk, b2n]
    · simp [Local, sameC, hold, passed, winner, past, dCl, mCl, retOk]
    · obtain ⟨h1, h2, h3, h4, h5, h6, h7⟩ := hn (n - 1)
      simp only [Local, sameC, h1, h2, h3, h4, h5, h6, h7]
      simp [hold, passed, winner, past, dCl, mCl, retOk]
  | fSending =>
    simp only [next, Option.some.injEq, Prod.mk.injEq] at h; obtain ⟨rfl, rfl⟩ := h
    simp [Local, sameC, hold, passed, winner, past, dCl, mCl, retOk]
  | fFinishing =>
    simp only [next, Option.some.injEq, Prod.mk.injEq] at h; obtain ⟨rfl, rfl⟩ := h
    simp [Local, sameC, hold, passed, winner, past, dCl, mCl, retOk]
  | fReturned => simp [next] at h
  | cStart =>
    simp only [next, Option.some.injEq, Prod.mk.injEq] at h; obtain ⟨rfl, rfl⟩ := h
    cases done <;> simp [Local, sameH, hold, passed, winner, past, dCl, mCl, retOk, b2n]
  | cAfterCas =>
    simp only [next, Option.some.injEq, Prod.mk.injEq] at h; obtain ⟨rfl, rfl⟩ := h
    simp [Local, sameH, hold, passed, winner, past, dCl, mCl, retOk]
  | cSpun =>
    simp only [next, Option.some.injEq, Prod.mk.injEq] at h; obtain ⟨rfl, rfl⟩ := h
    simp [Local, sameH, hold, passed, winner, past, dCl, mCl, retOk]
  | cClosedDonech =>
    simp only [next, Option.some.injEq, Prod.mk.injEq] at h; obtain ⟨rfl, rfl⟩ := h
    simp [Local, sameH, hold, passed, winner, past, dCl, mCl, retOk]
  | cClosedMetch =>
    simp only [next, Option.some.injEq, Prod.mk.injEq] at h; obtain ⟨rfl, rfl⟩ := h
    simp [Local, sameH, hold, passed, winner, past, dCl, mCl, retOk]
  | cReturned e => simp [next] at h

theorem nextBail_local (pc pc' : Pc) (h : nextBail pc = some pc') :
    hold pc' = hold pc ∧ passed pc = 1 ∧ passed pc' ≤ 1 ∧ sameC pc pc' := by
  cases pc <;> simp only [nextBail, reduceCtorEq] at h
  case prod p =>
    cases p <;> simp only [nextBail, Option.some.injEq, reduceCtorEq] at h
    subst h; simp [sameC, hold, holdP, passed, winner, past, dCl, mCl, retOk]
  case fNested n p =>
    cases p <;> simp only [nextBail, Option.some.injEq, reduceCtorEq] at h
    subst h; simp [sameC, hold, passed, winner, past, dCl, mCl, retOk]

/-! ## the invariant -/

structure Inv (s : State) : Prop where
  pend : s.pending = sumOf hold s.thr
  win : sumOf winner s.thr = b2n s.done
  dcl : sumOf dCl s.thr = b2n s.donechClosed
  mcl : sumOf mCl s.thr = b2n s.metChClosed
  quiet : sumOf past s.thr ≥ 1 → sumOf passed s.thr = 0
  conserv : s.sent = s.consumed ++ s.queue
  late : s.lateSent = 0
  consEx : s.cons = .exited → s.metChClosed = true ∧ s.queue = []
  clockEx : s.clock = .exited → s.done = true
  waited : sumOf retOk s.thr ≥ 1 → s.cons = .exited ∧ s.clock = .exited
  bound : s.queue.length ≤ s.cap

theorem inv_init (cap n : Nat) : Inv (init cap n) := by
  constructor <;> simp [init, b2n]

@[simp] theorem b2n_lit_true : b2n true = 1 := rfl
@[simp] theorem b2n_lit_false : b2n false = 0 := rfl

theorem start_weights (k : Kind) :
    hold (startPc k) = 0 ∧ passed (startPc k) = 0 ∧ winner (startPc k) = 0 ∧ past (startPc k) = 0
      ∧ dCl (startPc k) = 0 ∧ mCl (startPc k) = 0 ∧ retOk (startPc k) = 0 := by
  cases k <;> simp [startPc, hold, holdP, passed, winner, past, dCl, mCl, retOk]

/-- all the facts about one thread `t` at `pc` and the rest of the thread list `A ++ _ :: B` -/
structure Ctx (s : State) (t : Nat) (pc pc' : Pc) (A B : List Pc) : Prop where
  hthr : s.thr = A ++ pc :: B
  hset : ∀ q, s.thr.set t q = A ++ q :: B
  pend : s.pending = sumOf hold A + (hold pc + sumOf hold B)
  win : sumOf winner A + (winner pc + sumOf winner B) = b2n s.done
  dcl : sumOf dCl A + (dCl pc + sumOf dCl B) = b2n s.donechClosed
  mcl : sumOf mCl A + (mCl pc + sumOf mCl B) = b2n s.metChClosed
  quiet : sumOf past A + (past pc + sumOf past B) ≥ 1 → sumOf passed A + (passed pc + sumOf passed B) = 0
  waited : sumOf retOk A + (retOk pc + sumOf retOk B) ≥ 1 → s.cons = .exited ∧ s.clock = .exited
  a1 : sumOf passed A ≤ sumOf hold A
  a2 : sumOf past A ≤ sumOf winner A
  a3 : sumOf dCl A ≤ sumOf past A
  a4 : sumOf mCl A ≤ sumOf dCl A
  a5 : sumOf retOk A ≤ sumOf mCl A
  b1 : sumOf passed B ≤ sumOf hold B
  b2 : sumOf past B ≤ sumOf winner B
  b3 : sumOf dCl B ≤ sumOf past B
  b4 : sumOf mCl B ≤ sumOf dCl B
  b5 : sumOf retOk B ≤ sumOf mCl B
  p1 : passed pc ≤ hold pc
  p2 : past pc ≤ winner pc
  p3 : dCl pc ≤ past pc
  p4 : mCl pc ≤ dCl pc
  p5 : retOk pc ≤ mCl pc
  q1 : passed pc' ≤ hold pc'
  q2 : past pc' ≤ winner pc'
  q3 : dCl pc' ≤ past pc'
  q4 : mCl pc' ≤ dCl pc'
  q5 : retOk pc' ≤ mCl pc'
  d1 : b2n s.done ≤ 1
  d2 : b2n s.donechClosed ≤ 1
  d3 : b2n s.metChClosed ≤ 1

theorem mkCtx (s : State) (hI : Inv s) (t : Nat) (pc pc' : Pc) (ht : s.thr[t]? = some pc) :
    ∃ A B, Ctx s t pc pc' A B := by
  obtain ⟨A, B, hthr, hset⟩ := split_at s.thr t pc ht
  refine ⟨A, B, ?_⟩
  have e : ∀ f, sumOf f s.thr = sumOf f A + (f pc + sumOf f B) := by
    intro f; rw [hthr]; simp only [sumOf_append, sumOf_cons]
  exact {
    hthr := hthr, hset := hset
    pend := by rw [← e]; exact hI.pend
    win := by rw [← e]; exact hI.win
    dcl := by rw [← e]; exact hI.dcl
    mcl := by rw [← e]; exact hI.mcl
    quiet := by rw [← e, ← e]; exact hI.quiet
    waited := by rw [← e]; exact hI.waited
    a1 := sumOf_le _ _ passed_le_hold A, a2 := sumOf_le _ _ past_le_winner A
    a3 := sumOf_le _ _ dCl_le_past A, a4 := sumOf_le _ _ mCl_le_dCl A, a5 := sumOf_le _ _ retOk_le_mCl A
    b1 := sumOf_le _ _ passed_le_hold B, b2 := sumOf_le _ _ past_le_winner B
    b3 := sumOf_le _ _ dCl_le_past B, b4 := sumOf_le _ _ mCl_le_dCl B, b5 := sumOf_le _ _ retOk_le_mCl B
    p1 := passed_le_hold pc, p2 := past_le_winner pc, p3 := dCl_le_past pc, p4 := mCl_le_dCl pc, p5 := retOk_le_mCl pc
    q1 := passed_le_hold pc', q2 := past_le_winner pc', q3 := dCl_le_past pc', q4 := mCl_le_dCl pc', q5 := retOk_le_mCl pc'
    d1 := b2n_le _, d2 := b2n_le _, d3 := b2n_le _ }

end Tally.M3Life
