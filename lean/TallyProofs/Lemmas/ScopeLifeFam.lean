import TallyProofs.Lemmas.ScopeLifeReg
import Tally.Model.ScopeLife
/-!
# Classification of the effect of a `Registry.step` (other than `record`) and the frame facts that follow

`Fam san s b s'`: the seven shapes `s'` can have after a step of `s` (`b` = the step is a subscope `close`), proved
once by going through `step` (`step_fam`); then, by cases on the shape: cells only shrink (`Fam.cells_sub`), a map
entry is removed only when its scope's cell holds no `pre` token (`Fam.reg_keep`), a thread about to swap a cell
stays so until the swap (`Fam.swapper_keep`), what is pending was pending or has just been swapped out
(`Fam.pending_sub`), `nextToken` and the closed flags are untouched (`Fam.nextToken`, `Fam.closed_same`).
`step_pass_kind` / `step_obt_kind`: a thread inside a pass stays inside a pass under `.step` (and how its visited
list grows), a thread that is idle or inside `Subscope` never enters one.
-/
namespace Tally.Registry

variable {san : Nat → Nat}

/-- the thread's next action swaps the cell of `sid` -/
def swapsNext (p : Pc) (sid : Nat) : Bool :=
  match p with
  | .passSwap _ _ x _ => x == sid
  | .obtSwap _ x => x == sid
  | _ => false

/-- is the event a subscope `Close`? -/
def isCloseEv : Ev → Bool
  | .close _ => true
  | _ => false

/-- the shapes of `s'` after a step of `s` that is not a `record`; the index says whether it is a `close` -/
inductive Fam (san : Nat → Nat) (s : State) : Bool → State → Prop
  /-- pc / lock / ghost moves, deliveries, alias registration: scopes untouched, no entry removed -/
  | frame (t : Nat) (p' : Pc) (s' : State) (hsc : s'.scopes = s.scopes) (hreg : ∀ q ∈ s.reg, q ∈ s'.reg)
      (hpcs : s'.pcs = (t, p') :: s.pcs.filter (·.1 != t)) (hnt : s'.nextToken = s.nextToken)
      (hp' : pendingOf p' = []) (hns : ∀ sid, swapsNext (pcOf s t) sid = false) : Fam san s false s'
  | swap (t sid : Nat) (x : ScopeS) (p' : Pc) (hx : scopeOf s sid = some x) (hp' : pendingOf p' = x.cell)
      (hsw : ∀ sid', swapsNext p' sid' = false) (hsn : ∀ sid', swapsNext (pcOf s t) sid' = true → sid' = sid) :
      Fam san s false (setPc (setScope s sid { x with cell := [] }) t p')
  | delete (t k sid : Nat) (p' : Pc) (hsc : pcScope (pcOf s t) = some sid) (hcl : pcClosed (pcOf s t) = true)
      (hsw : pcSwapped (pcOf s t) = true) (hp' : pendingOf p' = [])
      (hns : ∀ sid', swapsNext (pcOf s t) sid' = false) : Fam san s false (setPc (deleteIfSame s k sid) t p')
  | clear (t sid : Nat) (p' : Pc) (hp' : pendingOf p' = [])
      (hns : ∀ sid', swapsNext (pcOf s t) sid' = false) : Fam san s false (setPc (clearScope s sid) t p')
  | fresh (t r : Nat) (hl : lookup s (san r) = none) (hns : ∀ sid', swapsNext (pcOf s t) sid' = false) :
      Fam san s false (freshS s t r (san r))
  | d4c (t r sid : Nat) (x : ScopeS) (hl : lookup s (san r) = some sid) (hx : scopeOf s sid = some x)
      (hns : ∀ sid', swapsNext (pcOf s t) sid' = false) :
      Fam san s false (freshS (d4cS s r (san r) sid x) t r (san r))
  | close (sid : Nat) (x : ScopeS) (hx : scopeOf s sid = some x) : Fam san s true (setScope s sid { x with closed := true })

theorem Fam.ofSetPc {s s0 : State} (t : Nat) (p' : Pc) (hsc : s0.scopes = s.scopes) (hreg : ∀ q ∈ s.reg, q ∈ s0.reg)
    (hpcs : s0.pcs = s.pcs) (hnt : s0.nextToken = s.nextToken) (hp' : pendingOf p' = [])
    (hns : ∀ sid, swapsNext (pcOf s t) sid = false) : Fam san s false (setPc s0 t p') :=
  .frame t p' _ hsc hreg (by rw [setPc_pcs, hpcs]) hnt hp' hns

theorem mem_addAlias {s : State} {r sid : Nat} {q : Nat × Nat} (h : q ∈ s.reg) : q ∈ (addAlias s r sid).reg := by
  unfold addAlias; split
  · exact List.mem_cons_of_mem _ h
  · exact h

theorem Fam.ofHand {s s0 : State} (t r sid : Nat) (hsc : s0.scopes = s.scopes) (hreg : ∀ q ∈ s.reg, q ∈ s0.reg)
    (hpcs : s0.pcs = s.pcs) (hnt : s0.nextToken = s.nextToken)
    (hns : ∀ sid, swapsNext (pcOf s t) sid = false) : Fam san s false (handOut s0 t r sid) :=
  .frame t (.obtDone r sid) _ hsc hreg (by show (t, _) :: s0.pcs.filter _ = _; rw [hpcs]) hnt rfl hns

theorem step_fam {s s' : State} {e : Ev} (hne : ∀ sid, e ≠ .record sid) (hs : step san s e = some s') :
    Fam san s (isCloseEv e) s' := by
  cases e with
  | record sid => exact absurd rfl (hne sid)
  | close sid =>
    simp only [step] at hs
    split at hs
    · cases hs
    · next x hx => cases hs; exact .close sid x hx
  | obtain t r =>
    simp only [step] at hs
    split at hs
    · cases hs
    · next hi =>
      have hpc := pcOf_idle_of hi
      cases hs
      exact .ofSetPc t _ rfl (fun _ h => h) rfl rfl rfl (by intro sid; rw [hpc]; rfl)
  | passBegin t =>
    simp only [step] at hs
    split at hs
    · cases hs
    · next hi =>
      have hpc := pcOf_idle_of hi
      cases hs
      exact .ofSetPc t _ rfl (fun _ h => h) rfl rfl rfl (by intro sid; rw [hpc]; rfl)
  | passEndHint t =>
    simp only [step] at hs
    split at hs
    · next v hpc =>
      cases hs
      exact .ofSetPc t _ rfl (fun _ h => h) rfl rfl rfl (by intro sid; rw [hpc]; rfl)
    · cases hs
  | step t c =>
    cases hpc : pcOf s t with
    | idle => simp [step, hpc] at hs
    | passSwap v k sid cl =>
      simp only [step, hpc] at hs
      split at hs
      · cases hs
      · next x hx =>
        cases hs
        refine .swap t sid x _ hx ?_ ?_ ?_
        · split
          · next he => simp only [pendingOf]; exact (List.isEmpty_iff.mp he).symm
          · rfl
        · intro sid'; split <;> rfl
        · intro sid' h; rw [hpc] at h; exact (by simpa [swapsNext] using h : sid = sid').symm
    | obtSwap r sid =>
      simp only [step, hpc] at hs
      split at hs
      · cases hs
      · next x hx =>
        cases hs
        refine .swap t sid x _ hx ?_ ?_ ?_
        · split
          · next he => simp only [pendingOf]; exact (List.isEmpty_iff.mp he).symm
          · rfl
        · intro sid'; split <;> rfl
        · intro sid' h; rw [hpc] at h; exact (by simpa [swapsNext] using h : sid = sid').symm
    | passUnlocked v k sid =>
      simp only [step, hpc] at hs
      split at hs
      · cases hs
      · cases hs
        exact .delete t k sid _ (by rw [hpc]; rfl) (by rw [hpc]; rfl) (by rw [hpc]; rfl) rfl (by intro _; rw [hpc]; rfl)
    | obtUnlocked r sid =>
      simp only [step, hpc] at hs
      split at hs
      · cases hs
      · cases hs
        exact .delete t r sid _ (by rw [hpc]; rfl) (by rw [hpc]; rfl) (by rw [hpc]; rfl) rfl (by intro _; rw [hpc]; rfl)
    | obtUnlocked2 r sid =>
      simp only [step, hpc] at hs
      split at hs
      · cases hs
      · cases hs
        exact .delete t (san r) sid _ (by rw [hpc]; rfl) (by rw [hpc]; rfl) (by rw [hpc]; rfl) rfl
          (by intro _; rw [hpc]; rfl)
    | passClear v k sid =>
      simp only [step, hpc] at hs
      split at hs
      · cases hs
      · cases hs; exact .clear t sid _ rfl (by intro _; rw [hpc]; rfl)
    | obtClear r sid =>
      simp only [step, hpc] at hs
      split at hs
      · cases hs
      · cases hs; exact .clear t sid _ rfl (by intro _; rw [hpc]; rfl)
    | obtWantLock r =>
      have hns : ∀ sid', swapsNext (pcOf s t) sid' = false := by intro _; rw [hpc]; rfl
      by_cases hr : s.readers = []
      · cases hl : lookup s (san r) with
        | none =>
          rw [step_obtWantLock_none hpc hr hl] at hs; cases hs
          exact .fresh t r hl hns
        | some sid =>
          cases hx : scopeOf s sid with
          | none => rw [step_obtWantLock_noscope hpc hl hx] at hs; cases hs
          | some x =>
            rw [step_obtWantLock_some hpc hr hl hx] at hs
            split at hs
            · cases hs
              exact .ofHand t r sid (addAlias_scopes ..) (fun _ h => mem_addAlias h) (addAlias_pcs ..)
                (addAlias_nextToken ..) hns
            · split at hs
              · cases hs
              · cases hs; exact .d4c t r sid x hl hx hns
      · rw [step_obtWantLock_blocked hpc hr] at hs; cases hs
    | obtProbe r =>
      have hns : ∀ sid', swapsNext (pcOf s t) sid' = false := by intro _; rw [hpc]; rfl
      simp only [step, hpc] at hs
      split at hs
      · cases hs; exact .ofSetPc t _ rfl (fun _ h => h) rfl rfl rfl hns
      · split at hs
        · cases hs
        · split at hs
          · cases hs; exact .ofHand t r _ rfl (fun _ h => h) rfl rfl hns
          · cases hs; exact .ofSetPc t _ rfl (fun _ h => h) rfl rfl rfl hns
    | passIter v =>
      have hns : ∀ sid', swapsNext (pcOf s t) sid' = false := by intro _; rw [hpc]; rfl
      simp only [step, hpc] at hs
      repeat' split at hs
      all_goals first | cases hs | skip
      exact .ofSetPc t _ rfl (fun _ h => h) rfl rfl rfl hns
    | passAfter v k sid cl =>
      have hns : ∀ sid', swapsNext (pcOf s t) sid' = false := by intro _; rw [hpc]; rfl
      simp only [step, hpc] at hs
      split at hs <;> cases hs <;> exact .ofSetPc t _ rfl (fun _ h => h) rfl rfl rfl hns
    | passDeliver v k sid cl pd =>
      have hns : ∀ sid', swapsNext (pcOf s t) sid' = false := by intro _; rw [hpc]; rfl
      simp only [step, hpc] at hs
      cases hs; exact .ofSetPc t _ rfl (fun _ h => h) rfl rfl rfl hns
    | obtDeliver r sid pd =>
      have hns : ∀ sid', swapsNext (pcOf s t) sid' = false := by intro _; rw [hpc]; rfl
      simp only [step, hpc] at hs
      cases hs; exact .ofSetPc t _ rfl (fun _ h => h) rfl rfl rfl hns
    | _ =>
      have hns : ∀ sid', swapsNext (pcOf s t) sid' = false := by intro _; rw [hpc]; rfl
      simp only [step, hpc] at hs
      cases hs; exact .ofSetPc t _ rfl (fun _ h => h) rfl rfl rfl hns


/-! ## frame facts -/

/-- tokens in cells after are tokens in the same cell before -/
def CellsSub (l l' : List ScopeS) : Prop :=
  ∀ (sid : Nat) (x' : ScopeS) (tok : Token), l'[sid]? = some x' → tok ∈ x'.cell → ∃ x, l[sid]? = some x ∧ tok ∈ x.cell

theorem CellsSub.refl (l : List ScopeS) : CellsSub l l := fun _ x' _ h hm => ⟨x', h, hm⟩

theorem CellsSub.trans {a b c : List ScopeS} (h1 : CellsSub a b) (h2 : CellsSub b c) : CellsSub a c := by
  intro sid x' tok h hm
  obtain ⟨x, hx, hm'⟩ := h2 sid x' tok h hm
  exact h1 sid x tok hx hm'

theorem CellsSub.set (l : List ScopeS) (sid : Nat) (y : ScopeS)
    (hy : ∀ tok ∈ y.cell, ∃ x, l[sid]? = some x ∧ tok ∈ x.cell) : CellsSub l (l.set sid y) := by
  intro sid' x' tok h hm
  rw [List.getElem?_set] at h
  split at h
  · next he =>
    subst he
    split at h
    · cases h; exact hy tok hm
    · cases h
  · exact ⟨x', h, hm⟩

theorem CellsSub.append (l : List ScopeS) (y : ScopeS) (hy : y.cell = []) : CellsSub l (l ++ [y]) := by
  intro sid x' tok h hm
  by_cases hl : sid < l.length
  · rw [List.getElem?_append_left hl] at h; exact ⟨x', h, hm⟩
  · rw [List.getElem?_append_right (by omega)] at h
    cases hh : sid - l.length with
    | zero => rw [hh] at h; simp at h; subst h; rw [hy] at hm; cases hm
    | succ m => rw [hh] at h; simp at h

theorem freshS_scopes (s : State) (t r i : Nat) :
    (freshS s t r i).scopes = s.scopes ++ [{ ident := i, closed := false, cleared := false, cell := [] }] := by
  show (addAlias (createScope s i) r s.scopes.length).scopes = _
  rw [addAlias_scopes]; rfl

theorem d4cS_scopes {s : State} {r i sid : Nat} {x : ScopeS} (hx : scopeOf s sid = some x) :
    (d4cS s r i sid x).scopes = s.scopes.set sid { x with cleared := true, cell := [] } := by
  rw [d4cS_eq hx]

/-- **cells only shrink** under every step that is not a `record` -/
theorem Fam.cells_sub {s s' : State} {b : Bool} (h : Fam san s b s') : CellsSub s.scopes s'.scopes := by
  cases h with
  | frame t p' s' hsc => rw [hsc]; exact .refl _
  | swap t sid x p' hx =>
    exact CellsSub.set _ _ _ (by intro tok hm; cases hm)
  | delete => exact .refl _
  | clear t sid p' =>
    cases hx : scopeOf s sid with
    | none => simp only [clearScope, hx]; exact .refl _
    | some x =>
      show CellsSub s.scopes (clearScope s sid).scopes
      rw [clearScope_scopes hx]
      exact CellsSub.set _ _ _ (by intro tok hm; cases hm)
  | fresh t r => rw [freshS_scopes]; exact CellsSub.append _ _ rfl
  | d4c t r sid x hl hx =>
    rw [freshS_scopes, d4cS_scopes hx]
    exact (CellsSub.set _ _ _ (by intro tok hm; cases hm)).trans (CellsSub.append _ _ rfl)
  | close sid x hx =>
    exact CellsSub.set _ _ _ (fun tok hm => ⟨x, hx, hm⟩)

theorem step_cells_sub {s s' : State} {e : Ev} (hne : ∀ sid, e ≠ .record sid) (hs : step san s e = some s') :
    CellsSub s.scopes s'.scopes := (step_fam hne hs).cells_sub

theorem freshS_reg_mem {s : State} {t r i : Nat} {q : Nat × Nat} (hq : q ∈ s.reg) (hne : q.1 ≠ i) :
    q ∈ (freshS s t r i).reg := by
  show q ∈ (addAlias (createScope s i) r s.scopes.length).reg
  apply mem_addAlias
  show q ∈ (i, s.scopes.length) :: s.reg.filter (·.1 != i)
  exact List.mem_cons_of_mem _ (List.mem_filter.mpr ⟨hq, by simpa using hne⟩)

/-- **an entry is removed only when its scope's cell holds no `pre` token any more** -/
theorem Fam.reg_keep {s s' : State} {b : Bool} (hI : Inv san s) (h : Fam san s b s') {k v : Nat} (hm : (k, v) ∈ s.reg) :
    (k, v) ∈ s'.reg ∨ ∀ x', s'.scopes[v]? = some x' → NoPre x'.cell := by
  cases h with
  | frame t p' s' hsc hreg => exact Or.inl (hreg _ hm)
  | swap => exact Or.inl hm
  | delete t k0 sid p' hsc hcl hsw =>
    by_cases he : k = k0 ∧ v = sid
    · right
      obtain ⟨rfl, rfl⟩ := he
      obtain ⟨x, hx, hc⟩ := hI.pcInv t v hsc
      intro x' hx'
      have : s.scopes[v]? = some x' := hx'
      have hx0 : s.scopes[v]? = some x := hx
      rw [hx0] at this; cases this
      exact (hc hcl).2 hsw
    · left
      show (k, v) ∈ s.reg.filter _
      refine List.mem_filter.mpr ⟨hm, ?_⟩
      simp only [Bool.not_eq_true', Bool.and_eq_false_imp, beq_iff_eq, beq_eq_false_iff_ne]
      intro hk hv; exact he ⟨hk, hv⟩
  | clear t sid p' => left; show (k, v) ∈ (clearScope s sid).reg; rw [clearScope_reg]; exact hm
  | fresh t r hl =>
    left
    refine freshS_reg_mem hm ?_
    intro he; simp only at he; subst he
    exact lookup_none_iff.mp hl v hm
  | d4c t r sid x hl hx =>
    by_cases hv : v = sid
    · right
      subst hv
      intro x' hx'
      rw [freshS_scopes, d4cS_scopes hx, List.getElem?_append_left (by simpa using scopeOf_lt hx)] at hx'
      simp [scopeOf_lt hx] at hx'
      subst hx'
      exact NoPre_nil
    · left
      refine freshS_reg_mem ?_ ?_
      · rw [d4cS_eq hx]
        show (k, v) ∈ List.filter _ (List.filter _ s.reg)
        refine List.mem_filter.mpr ⟨List.mem_filter.mpr ⟨hm, ?_⟩, ?_⟩ <;> simp [hv]
      · intro he; simp only at he; subst he
        have := lookup_of_mem_nodup hI.static.regNodup hm
        rw [show s.reg.lookup (san r) = lookup s (san r) from rfl, hl] at this
        exact hv (Option.some.inj this).symm
  | close => exact Or.inl hm

/-- the pcs after a step: unchanged, or the actor's entry replaced; what the actor then holds pending is nothing, or
the cell it has just swapped out -/
theorem Fam.pcs {s s' : State} {b : Bool} (h : Fam san s b s') :
    s'.pcs = s.pcs ∨ ∃ t p', s'.pcs = (t, p') :: s.pcs.filter (·.1 != t) ∧
      ((pendingOf p' = [] ∧ ∀ sid, swapsNext (pcOf s t) sid = false)
        ∨ ∃ sid x, scopeOf s sid = some x ∧ pendingOf p' = x.cell ∧ (∀ sid', swapsNext p' sid' = false)
            ∧ (∀ sid', swapsNext (pcOf s t) sid' = true → sid' = sid)
            ∧ s'.scopes = s.scopes.set sid { x with cell := [] }) := by
  cases h with
  | frame t p' s' hsc hreg hpcs hnt hp' hns => exact Or.inr ⟨t, p', hpcs, Or.inl ⟨hp', hns⟩⟩
  | swap t sid x p' hx hp' hsw hsn => exact Or.inr ⟨t, p', rfl, Or.inr ⟨sid, x, hx, hp', hsw, hsn, rfl⟩⟩
  | delete t k sid p' _ _ _ hp' hns => exact Or.inr ⟨t, p', rfl, Or.inl ⟨hp', hns⟩⟩
  | clear t sid p' hp' hns =>
    refine Or.inr ⟨t, p', ?_, Or.inl ⟨hp', hns⟩⟩
    rw [setPc_pcs, clearScope_pcs]
  | fresh t r hl hns =>
    refine Or.inr ⟨t, .obtDone r s.scopes.length, ?_, Or.inl ⟨rfl, hns⟩⟩
    show (t, _) :: (addAlias (createScope s (san r)) r s.scopes.length).pcs.filter _ = _
    rw [addAlias_pcs]; rfl
  | d4c t r sid x hl hx hns =>
    refine Or.inr ⟨t, .obtDone r (d4cS s r (san r) sid x).scopes.length, ?_, Or.inl ⟨rfl, hns⟩⟩
    show (t, _) :: (addAlias (createScope (d4cS s r (san r) sid x) (san r)) r _).pcs.filter _ = _
    rw [addAlias_pcs, d4cS_eq hx]; rfl
  | close => exact Or.inl rfl

theorem pcOf_of_pcs {s s' : State} {t : Nat} {p' : Pc} (h : s'.pcs = (t, p') :: s.pcs.filter (·.1 != t)) (t' : Nat) :
    pcOf s' t' = if t' = t then p' else pcOf s t' := by
  rw [← pcOf_setPc]; exact pcOf_congr (s := setPc s t p') h t'

/-- **a thread about to swap `sid` stays so until the swap, which empties the cell** -/
theorem Fam.swapper_keep {s s' : State} {b : Bool} (h : Fam san s b s') {t' sid : Nat} (hsw : swapsNext (pcOf s t') sid = true) :
    swapsNext (pcOf s' t') sid = true ∨ ∀ x', s'.scopes[sid]? = some x' → x'.cell = [] := by
  rcases h.pcs with hp | ⟨t, p', hp, hc⟩
  · left; rw [pcOf_congr hp]; exact hsw
  · by_cases he : t' = t
    · subst he
      rcases hc with ⟨_, hns⟩ | ⟨sid0, x, hx, _, _, hsn, hsc⟩
      · rw [hns sid] at hsw; cases hsw
      · right
        have := hsn sid hsw; subst this
        intro x' hx'
        rw [hsc] at hx'
        simp [scopeOf_lt hx] at hx'
        subst hx'; rfl
    · left; rw [pcOf_of_pcs hp, if_neg he]; exact hsw

theorem mem_pend_filter {pcs : List (Nat × Pc)} {t : Nat} {tok : Token} (h : tok ∈ pend (pcs.filter (·.1 != t))) :
    tok ∈ pend pcs := by
  simp only [pend, List.mem_flatten, List.mem_map] at h ⊢
  obtain ⟨l, ⟨q, hq, rfl⟩, hm⟩ := h
  exact ⟨_, ⟨q, (List.mem_filter.mp hq).1, rfl⟩, hm⟩

/-- **what is pending after a step was pending before, or has just been swapped out of a cell** -/
theorem Fam.pending_sub {s s' : State} {b : Bool} (h : Fam san s b s') {tok : Token} (hm : tok ∈ allPending s') :
    tok ∈ allPending s ∨ ∃ (sid : Nat) (x : ScopeS), s.scopes[sid]? = some x ∧ tok ∈ x.cell := by
  rw [allPending_eq] at hm ⊢
  rcases h.pcs with hp | ⟨t, p', hp, hc⟩
  · left; rw [← hp]; exact hm
  · rw [hp, pend_cons, List.mem_append] at hm
    rcases hm with hm | hm
    · rcases hc with ⟨h0, _⟩ | ⟨sid, x, hx, hpx, _⟩
      · simp only at hm; rw [h0] at hm; cases hm
      · right; simp only at hm; rw [hpx] at hm; exact ⟨sid, x, hx, hm⟩
    · left; exact mem_pend_filter hm

theorem Fam.nextToken {s s' : State} {b : Bool} (h : Fam san s b s') : s'.nextToken = s.nextToken := by
  cases h with
  | frame t p' s' hsc hreg hpcs hnt => exact hnt
  | swap => rfl
  | delete => rfl
  | clear t sid p' =>
    show (clearScope s sid).nextToken = _
    unfold clearScope; split <;> rfl
  | fresh t r =>
    show (addAlias (createScope s (san r)) r s.scopes.length).nextToken = _
    rw [addAlias_nextToken]; rfl
  | d4c t r sid x hl hx =>
    show (addAlias (createScope (d4cS s r (san r) sid x) (san r)) r _).nextToken = _
    rw [addAlias_nextToken, d4cS_eq hx]; rfl
  | close => rfl


/-! ## which kind of pc a thread is at -/

/-- the thread is inside a report pass -/
def isPassPc : Pc → Bool
  | .passIter _ | .passSwap .. | .passDeliver .. | .passAfter .. | .passUnlocked .. | .passRelock .. | .passClear .. => true
  | _ => false

open Tally.ScopeLife (visitedOf)

/-- a thread inside a pass stays inside the pass under `.step`; its visited list is unchanged, except at the top of
the loop, where the chosen registered entry `(key, scope id)` is added and the thread is about to swap that key's scope -/
theorem step_pass_kind {s s' : State} {t c : Nat} (hs : step san s (.step t c) = some s')
    (hp : isPassPc (pcOf s t) = true) :
    isPassPc (pcOf s' t) = true ∧
    (visitedOf (pcOf s' t) = visitedOf (pcOf s t) ∨
      ∃ k sid cl, pcOf s' t = .passSwap ((k, sid) :: visitedOf (pcOf s t)) k sid cl ∧ lookup s k = some sid) := by
  cases hpc : pcOf s t with
  | passIter v =>
    simp only [step, hpc] at hs
    split at hs
    · cases hs
    · next sid hl =>
      split at hs
      · cases hs
      · split at hs
        · cases hs
        · next x hx =>
          cases hs
          refine ⟨by simp [isPassPc], Or.inr ⟨c, sid, x.closed, by simp [visitedOf], hl⟩⟩
  | passSwap v k sid cl =>
    simp only [step, hpc] at hs
    split at hs
    · cases hs
    · cases hs
      rw [pcOf_setPc_self]
      split <;> exact ⟨rfl, Or.inl rfl⟩
  | passDeliver v k sid cl pd =>
    simp only [step, hpc] at hs
    cases hs; rw [pcOf_setPc_self]; exact ⟨rfl, Or.inl rfl⟩
  | passAfter v k sid cl =>
    simp only [step, hpc] at hs
    split at hs <;> cases hs <;> rw [pcOf_setPc_self] <;> exact ⟨rfl, Or.inl rfl⟩
  | passUnlocked v k sid =>
    simp only [step, hpc] at hs
    split at hs
    · cases hs
    · cases hs; rw [pcOf_setPc_self]; exact ⟨rfl, Or.inl rfl⟩
  | passRelock v k sid =>
    simp only [step, hpc] at hs
    cases hs; rw [pcOf_setPc_self]; exact ⟨rfl, Or.inl rfl⟩
  | passClear v k sid =>
    simp only [step, hpc] at hs
    split at hs
    · cases hs
    · cases hs; rw [pcOf_setPc_self]; exact ⟨rfl, Or.inl rfl⟩
  | _ => rw [hpc] at hp; cases hp

/-- a thread that is not inside a pass (idle, or inside `Subscope`) does not enter one under `.step` -/
theorem step_obt_kind {s s' : State} {t c : Nat} (hs : step san s (.step t c) = some s')
    (hp : isPassPc (pcOf s t) = false) : isPassPc (pcOf s' t) = false := by
  cases hpc : pcOf s t with
  | obtWantLock r =>
    by_cases hr : s.readers = []
    · cases hl : lookup s (san r) with
      | none =>
        rw [step_obtWantLock_none hpc hr hl] at hs; cases hs
        simp [pcOf_freshS, isPassPc]
      | some sid =>
        cases hx : scopeOf s sid with
        | none => rw [step_obtWantLock_noscope hpc hl hx] at hs; cases hs
        | some x =>
          rw [step_obtWantLock_some hpc hr hl hx] at hs
          split at hs
          · cases hs; simp [pcOf_handOut, isPassPc]
          · split at hs
            · cases hs
            · cases hs; simp [pcOf_freshS, isPassPc]
    · rw [step_obtWantLock_blocked hpc hr] at hs; cases hs
  | obtProbe r =>
    simp only [step, hpc] at hs
    repeat' split at hs
    all_goals first | cases hs | skip
    all_goals simp [pcOf_handOut, isPassPc]
  | obtSwap r sid =>
    simp only [step, hpc] at hs
    split at hs
    · cases hs
    · cases hs; rw [pcOf_setPc_self]; split <;> rfl
  | idle => simp [step, hpc] at hs
  | passIter v => rw [hpc] at hp; cases hp
  | passSwap v k sid cl => rw [hpc] at hp; cases hp
  | passDeliver v k sid cl pd => rw [hpc] at hp; cases hp
  | passAfter v k sid cl => rw [hpc] at hp; cases hp
  | passUnlocked v k sid => rw [hpc] at hp; cases hp
  | passRelock v k sid => rw [hpc] at hp; cases hp
  | passClear v k sid => rw [hpc] at hp; cases hp
  | _ =>
    simp only [step, hpc] at hs
    repeat' split at hs
    all_goals first | cases hs | skip
    all_goals (rw [pcOf_setPc_self]; rfl)

end Tally.Registry

namespace Tally.Registry
variable {san : Nat → Nat}

/-- no step other than a `close` (and the creation of a new scope) changes a closed flag -/
theorem Fam.closed_same {s s' : State} (h : Fam san s false s') :
    ∀ (sid : Nat) (x x' : ScopeS), s.scopes[sid]? = some x → s'.scopes[sid]? = some x' → x'.closed = x.closed := by
  have hset : ∀ (sid0 : Nat) (x0 y : ScopeS), s.scopes[sid0]? = some x0 → y.closed = x0.closed →
      ∀ (sid : Nat) (x x' : ScopeS), s.scopes[sid]? = some x → (s.scopes.set sid0 y)[sid]? = some x' →
        x'.closed = x.closed := by
    intro sid0 x0 y hx0 hy sid x x' hx hx'
    rw [List.getElem?_set] at hx'
    split at hx'
    · next he =>
      subst he
      split at hx'
      · cases hx'; rw [hx0] at hx; cases hx; exact hy
      · cases hx'
    · rw [hx] at hx'; cases hx'; rfl
  have happ : ∀ (l : List ScopeS) (y : ScopeS),
      (∀ (sid : Nat) (x x' : ScopeS), s.scopes[sid]? = some x → l[sid]? = some x' → x'.closed = x.closed) →
      l.length = s.scopes.length →
      ∀ (sid : Nat) (x x' : ScopeS), s.scopes[sid]? = some x → (l ++ [y])[sid]? = some x' → x'.closed = x.closed := by
    intro l y hl hlen sid x x' hx hx'
    have hlt : sid < l.length := by rw [hlen]; exact (List.getElem?_eq_some_iff.mp hx).1
    rw [List.getElem?_append_left hlt] at hx'
    exact hl sid x x' hx hx'
  cases h with
  | frame t p' s' hsc =>
    intro sid x x' hx hx'; rw [hsc, hx] at hx'; cases hx'; rfl
  | swap t sid0 x0 p' hx0 => exact hset sid0 x0 _ hx0 rfl
  | delete => intro sid x x' hx hx'; rw [show (setPc (deleteIfSame s _ _) _ _).scopes = s.scopes from rfl, hx] at hx'; cases hx'; rfl
  | clear t sid0 p' =>
    cases hx0 : scopeOf s sid0 with
    | none =>
      intro sid x x' hx hx'
      have : (setPc (clearScope s sid0) t p').scopes = s.scopes := by simp [clearScope, hx0]
      rw [this, hx] at hx'; cases hx'; rfl
    | some x0 =>
      intro sid x x' hx hx'
      have : (setPc (clearScope s sid0) t p').scopes = s.scopes.set sid0 { x0 with cleared := true, cell := [] } :=
        clearScope_scopes hx0
      rw [this] at hx'
      exact hset sid0 x0 { x0 with cleared := true, cell := [] } hx0 rfl sid x x' hx hx'
  | fresh t r =>
    rw [freshS_scopes]
    exact happ s.scopes _ (fun sid x x' hx hx' => by rw [hx] at hx'; cases hx'; rfl) rfl
  | d4c t r sid0 x0 hl hx0 =>
    rw [freshS_scopes, d4cS_scopes hx0]
    exact happ _ _ (hset sid0 x0 _ hx0 rfl) (by simp)

end Tally.Registry
