import Tally.Model.Scope
import Tally.Spec.C04
import TallyProofs.Lemmas.ScopeSteps
/-!
# C04 — a metric obtained through any chain of SubScope / Tagged calls is delivered under the name
formed by the root prefix and the subscope names joined by the separator, with the root tags overlaid
by each Tagged map in order; the identity of a scope never changes; an empty root prefix contributes no
leading separator.

Property theorems only; helper lemmas are in `TallyProofs/Lemmas/{CanonLemmas,ScopeLemmas,ScopeSteps}.lean`.
`runOps`, `Reach` are defined in `ScopeLemmas.lean` (namespace `Tally.Scope`).
-/
namespace Tally.Props.C04
open Tally Tally.KeyGen Tally.Scope

/-! ## 1. the identity of an existing scope never changes (every state, every configuration) -/

/-- no operation changes `pfx` or `tags` of an existing scope; scopes are only appended -/
theorem scope_identity_constant (st : St) (op : Op) :
    st.scopes.length ≤ (step st op).1.scopes.length ∧
    ∀ (sid : Nat) (h : sid < st.scopes.length),
      ∃ h' : sid < (step st op).1.scopes.length,
        ((step st op).1.scopes[sid]).pfx = (st.scopes[sid]).pfx ∧
        ((step st op).1.scopes[sid]).tags = (st.scopes[sid]).tags := by
  obtain ⟨hlen, hsc⟩ := step_sameId st op
  refine ⟨hlen, ?_⟩
  intro sid h
  obtain ⟨s', hg, hp, ht, _⟩ := hsc sid st.scopes[sid] (List.getElem?_eq_getElem h)
  obtain ⟨h', e⟩ := List.getElem?_eq_some_iff.mp hg
  exact ⟨h', by rw [e]; exact ⟨hp, ht⟩⟩

/-- the same in `getScope` form, with the root flag and the monotonicity of `closed` -/
theorem scope_identity_constant' (st : St) (op : Op) (sid : Nat) (s : ScopeS)
    (h : getScope st sid = some s) :
    ∃ s', getScope (step st op).1 sid = some s' ∧ s'.pfx = s.pfx ∧ s'.tags = s.tags ∧
      s'.isRoot = s.isRoot ∧ (s.closed = true → s'.closed = true) :=
  (step_sameId st op).2 sid s h

/-- … and therefore no program does -/
theorem scope_identity_constant_run : ∀ (ops : List Op) (st : St) (sid : Nat) (s : ScopeS),
    getScope st sid = some s →
    ∃ s', getScope (runOps st ops) sid = some s' ∧ s'.pfx = s.pfx ∧ s'.tags = s.tags ∧
      s'.isRoot = s.isRoot ∧ (s.closed = true → s'.closed = true)
  | [], _, _, s, h => ⟨s, h, rfl, rfl, rfl, id⟩
  | op :: ops, st, sid, s, h => by
    obtain ⟨s1, h1, p1, t1, r1, c1⟩ := scope_identity_constant' st op sid s h
    obtain ⟨s2, h2, p2, t2, r2, c2⟩ := scope_identity_constant_run ops (step st op).1 sid s1 h1
    exact ⟨s2, h2, p2.trans p1, t2.trans t1, r2.trans r1, fun x => c2 (c1 x)⟩

/-- the configuration and the separator are fixed at root creation -/
theorem cfg_sep_constant {cfg : Cfg} {pfx sep : Bytes} {tags : TagMap} {st : St}
    (h : Reach cfg pfx sep tags st) :
    st.cfg = cfg ∧ st.sep = sanName cfg (if sep.isEmpty then [46] else sep) :=
  ⟨reach_cfg h, (reach_ext h).sep⟩

/-! ## 2. events carry the identity of their scope -/

/-- every counter / gauge / histogram event of a report of scope `s` has the name
`fqn sep s.pfx n` for the stored (sanitized) name `n` of one of its metrics, and exactly the tags `s.tags` -/
theorem events_carry_scope_identity (sep : Bytes) (s : ScopeS) :
    ∀ e ∈ (reportScope sep s).2, ∃ x ∈ s.metrics,
      eventNameTags e = some (fqn sep s.pfx (metricName x.2), s.tags) :=
  reportScope_events sep s

/-- the name stored for a metric is the sanitized requested name -/
theorem metric_name_sanitized (st : St) (sid : Nat) (kind : String) (raw : Bytes) (mk : Bytes → Metric)
    (hmk : ∀ n, metricName (mk n) = n) (id : Nat) (evs : List Event) (s : ScopeS)
    (hg : getScope st sid = some s) (hnew : id ∉ ids s)
    (h : (getMetric st sid kind raw mk).2 = .metric id evs) :
    ∃ s' m, getScope (getMetric st sid kind raw mk).1 sid = some s' ∧ (id, m) ∈ s'.metrics ∧
      metricName m = sanName st.cfg raw := by
  unfold getMetric at h ⊢
  simp only [hg] at h ⊢
  split at h
  · next id' hf =>
    exfalso
    simp only [Out.metric.injEq] at h
    obtain ⟨rfl, -⟩ := h
    simp only [findMetric, Option.map_eq_some_iff] at hf
    obtain ⟨x, hx, rfl⟩ := hf
    exact hnew (List.mem_map.mpr ⟨x, List.mem_of_find?_eq_some hx, rfl⟩)
  · simp only [Out.metric.injEq] at h
    obtain ⟨rfl, -⟩ := h
    refine ⟨_, mk (sanName st.cfg raw), getScope_setScope_self hg _, by simp, hmk _⟩

/-- every timer event produced by `record` carries the name and tags stored in the timer handle, and
these are `fqn sep sc.pfx (sanName cfg n)` and `sc.tags` of a scope `sc` -/
theorem record_events_carry_timer_identity {cfg : Cfg} {pfx sep : Bytes} {tags : TagMap} {st : St}
    (hr : Reach cfg pfx sep tags st) (m : Nat) (d : Int) :
    ∀ e ∈ outEvents (step st (.record m d)).2,
      ∃ nm tg, st.timers.lookup m = some (nm, tg) ∧ e = .timer nm tg d ∧
        ∃ sid sc n, getScope st sid = some sc ∧ nm = fqn st.sep sc.pfx (sanName st.cfg n) ∧
          tg = sc.tags := by
  intro e he
  simp only [step] at he
  split at he
  · exfalso
    unfold updMetric at he
    split at he
    · next i s' evs hgo =>
      have : evs = [] := updMetric_go_events m _ (by
        intro s x; cases x <;> rfl) st.scopes 0 i s' evs hgo
      subst this
      simp [outEvents] at he
    · simp [outEvents] at he
  · split at he
    · next nm tg hl =>
      simp only [outEvents, List.mem_singleton] at he
      exact ⟨nm, tg, hl, he, reach_timerInv hr m nm tg (mem_of_lookup_eq_some hl)⟩
    · simp [outEvents] at he

/-- creating a timer stores, for a fresh handle, exactly the full name and tags of the owning scope -/
theorem timer_handle_stores_scope_identity (st : St) (s : Nat) (n : Bytes) (id : Nat)
    (evs : List Event) (sc : ScopeS) (hsc : getScope st s = some sc)
    (hout : (step st (.timer s n)).2 = .metric id evs) :
    ∃ v, (step st (.timer s n)).1.timers.lookup id = some v ∧
      (st.timers.lookup id = none → v = (fqn st.sep sc.pfx (sanName st.cfg n), sc.tags)) := by
  have ht := getMetric_timers st s "timer" n (fun n => .timer n [])
  simp only [step] at hout ⊢
  split at hout
  · next id' evs' sc' hm hsc' =>
    rw [hsc] at hsc'; cases hsc'
    split at hout
    · next hsome =>
      rw [if_pos hsome]
      simp only at hout
      rw [hm] at hout
      simp only [Out.metric.injEq] at hout
      obtain ⟨rfl, -⟩ := hout
      rw [ht] at hsome ⊢
      cases hl : st.timers.lookup id' with
      | none => rw [hl] at hsome; cases hsome
      | some v => exact ⟨v, rfl, fun h => by cases h⟩
    · next hnone =>
      rw [if_neg hnone]
      simp only at hout
      rw [hm] at hout
      simp only [Out.metric.injEq] at hout
      obtain ⟨rfl, -⟩ := hout
      exact ⟨_, by simp, fun _ => rfl⟩
  · next hne =>
    exfalso
    simp only at hout
    exact hne id evs sc hout hsc

/-- a stored timer handle is never modified or dropped -/
theorem timer_handle_stable {cfg : Cfg} {pfx sep : Bytes} {tags : TagMap} {st : St}
    (hr : Reach cfg pfx sep tags st) (ops : List Op) (id : Nat) (v : Bytes × TagMap)
    (h : st.timers.lookup id = some v) : (runOps st ops).timers.lookup id = some v :=
  (runOps_ext ops st (reach_metInv hr)).timers id v h

/-- every event of a report pass (`Report`) is the flush or carries full name and tags of a scope -/
theorem report_events_carry_scope_identity (st : St) :
    ∀ e ∈ outEvents (step st .report).2, e = .flush ∨
      ∃ sid s n, getScope st sid = some s ∧ eventNameTags e = some (fqn st.sep s.pfx n, s.tags) := by
  intro e he
  simp only [step] at he
  split at he
  · cases he
  · exact reportPass_events st e he

/-- every event of a `Close` (final pass of the root) is the flush, the reporter close, or carries full
name and tags of a scope -/
theorem close_events_carry_scope_identity (st : St) (sid : Nat) :
    ∀ e ∈ outEvents (step st (.close sid)).2, e = .flush ∨ e = .close ∨
      ∃ sid s n, getScope st sid = some s ∧ eventNameTags e = some (fqn st.sep s.pfx n, s.tags) := by
  intro e he
  simp only [step] at he
  cases hg : getScope st sid with
  | none => simp only [hg] at he; cases he
  | some s =>
    simp only [hg] at he
    split at he
    · cases he
    · split at he
      · cases he
      · split at he
        · cases he
        · simp only [outEvents] at he
          rcases List.mem_append.mp he with h | h
          · have hb : BackId st { setScope st sid { s with closed := true } with rootClosed := true } :=
              backId_setScope hg _ rfl rfl
            rcases reportPass_events _ e h with h1 | h1
            · exact .inl h1
            · exact .inr (.inr (eventsOf_back hb (evs := [e])
                (fun x hx => by simp only [List.mem_singleton] at hx; subst hx; exact h1) e
                (List.mem_singleton.mpr rfl)))
          · split at h
            · simp only [List.mem_singleton] at h; exact .inr (.inl h)
            · cases h

/-- **every event ever delivered** (any operation in any reachable state, any configuration) is the
flush, the reporter close, or carries the full name `fqn sep s.pfx n` and exactly the tags `s.tags` of a
scope `s` of the state -/
theorem all_events_carry_scope_identity {cfg : Cfg} {pfx sep : Bytes} {tags : TagMap} {st : St}
    (hr : Reach cfg pfx sep tags st) (op : Op) :
    ∀ e ∈ outEvents (step st op).2, e = .flush ∨ e = .close ∨
      ∃ sid s n, getScope st sid = some s ∧ eventNameTags e = some (fqn st.sep s.pfx n, s.tags) := by
  intro e he
  have hnil : ∀ {o : Out}, outEvents o = [] → e ∈ outEvents o → False := fun h h' => by
    rw [h] at h'; cases h'
  cases op with
  | sub p name sh =>
    simp only [step] at he
    split at he
    · exact .inr (.inr (subscope_events st p _ [] sh e he))
    · cases he
  | tagged p m sh =>
    simp only [step] at he
    split at he
    · exact .inr (.inr (subscope_events st p _ m sh e he))
    · cases he
  | counter s n => exact .inr (.inr (getMetric_events st s _ n _ e he))
  | gauge s n => exact .inr (.inr (getMetric_events st s _ n _ e he))
  | timer s n =>
    rw [step_timer_snd] at he
    exact .inr (.inr (getMetric_events st s _ n _ e he))
  | hist s n sp => exact .inr (.inr (getMetric_events st s _ n _ e he))
  | inc m v => exact (hnil (updMetric_events st m _ (by intro s x; cases x <;> rfl)) he).elim
  | upd m v => exact (hnil (updMetric_events st m _ (by intro s x; cases x <;> rfl)) he).elim
  | recv m v =>
    refine (hnil (updMetric_events st m _ ?_) he).elim
    intro s x
    cases x with
    | hist n h => simp only; split <;> rfl
    | _ => rfl
  | recd m v =>
    refine (hnil (updMetric_events st m _ ?_) he).elim
    intro s x
    cases x with
    | hist n h => simp only; split <;> rfl
    | _ => rfl
  | record m d =>
    obtain ⟨nm, tg, _, rfl, sid, sc, n, hg, rfl, rfl⟩ := record_events_carry_timer_identity hr m d e he
    exact .inr (.inr ⟨sid, sc, _, hg, rfl⟩)
  | report =>
    rcases report_events_carry_scope_identity st e he with h | h
    · exact .inl h
    · exact .inr (.inr h)
  | close sid => exact close_events_carry_scope_identity st sid e he

/-! ## 3. the scope returned by SubScope / Tagged has the requested identity

First (3a) for every configuration in states reached by programs all of whose `Tagged` maps are left
unchanged by the sanitizer (`ReachF`; without a sanitizer these are all programs): the
`…_sanitized_partial` theorems, with the strict registry invariant `Inv` (every registry key is the key of
its scope's identity).  SubScope names may be changed by the sanitizer: the sanitized name enters the prefix.

Then (3b) the full sanitized statements: `Tagged(m)` with a map `m` that the sanitizer changes, provided the
sanitized keys of `m` — and of every `Tagged` map used before — stay distinct (`SanDistinct`, `ReachD`).
The scope is then also registered under the *raw* key `key pfx [parent.tags, m]`; the generalised registry
invariant `InvD` (`Lemmas/ScopeLemmas.lean`) allows a registry key to be the identity key of its scope or
such a raw alias, and records that all tag maps are fixed points of the (idempotent) sanitizer.  A hit under
a raw key is right because the sanitized overlay is a function of the raw overlay
(`canon_san_congr`, `Lemmas/ScopeSanLemmas.lean`).  `SanDistinct` is necessary in the model
(`Example.sanDistinct_needed_now`, `Example.sanDistinct_needed_before`).
-/

/-- the registry invariant: every registry entry points to an existing scope and is the key of that
scope's identity, all tag maps are canonical, no (shard, key) is registered twice.  It holds at the root
and is preserved by every operation (`mkRoot_inv`, `step_inv`), hence in all reachable states. -/
theorem regInv_reachable_sanitized_partial {cfg : Cfg} {pfx sep : Bytes} {tags : TagMap} {st : St}
    (hr : ReachF cfg pfx sep tags st) : Inv st := reachF_inv hr

theorem regInv_reachable {cfg : Cfg} {pfx sep : Bytes} {tags : TagMap} {st : St}
    (hr : Reach cfg pfx sep tags st) (hns : cfg.san = none) : Inv st := reach_inv hns hr

theorem regInv_root (cfg : Cfg) (pfx sep : Bytes) (tags : TagMap) : Inv (mkRoot cfg pfx sep tags) :=
  mkRoot_inv cfg pfx sep tags

theorem regInv_step (st : St) (op : Op) (hmet : MetInv st) (hinv : Inv st)
    (hfix : SanFixed st.cfg op) : Inv (step st op).1 := step_inv st op hmet hinv hfix

/-- `SubScope(name)`: the result has prefix `fqn sep parent.pfx (sanitized name)` and the parent's tags -/
theorem sub_result_identity_sanitized_partial {cfg : Cfg} {pfx sep : Bytes} {tags : TagMap} {st : St}
    (hr : ReachF cfg pfx sep tags st) (p : Nat) (parent : ScopeS)
    (hp : getScope st p = some parent) (name : Bytes) (sh id : Nat) (evs : List Event)
    (h : (step st (.sub p name sh)).2 = .scope (some id) evs) :
    parent.closed = false ∧ st.rootClosed = false ∧
    ∃ s, getScope (step st (.sub p name sh)).1 id = some s ∧
      s.pfx = fqn st.sep parent.pfx (sanName st.cfg name) ∧ s.tags = parent.tags := by
  have hinv := reachF_inv hr
  simp only [step, hp] at h ⊢
  obtain ⟨hc, hrc, s, hg, hpf, htg⟩ := (subscope_spec True False (fun _ _ => True) st p _ [] sh
    (fun _ => ⟨hinv, sanMap_nil _⟩) (fun _ _ _ => trivial) (fun h => h.elim)).2.1 trivial parent id evs hp h
  refine ⟨hc, hrc, s, hg, hpf, ?_⟩
  rw [htg, canon_pair_nil]
  exact hinv.canon p parent hp

/-- `Tagged(m)` for a map the sanitizer leaves unchanged: the result has the parent's prefix and the
parent's tags overlaid by `m` -/
theorem tagged_result_identity_sanitized_partial {cfg : Cfg} {pfx sep : Bytes} {tags : TagMap} {st : St}
    (hr : ReachF cfg pfx sep tags st) (p : Nat) (parent : ScopeS)
    (hp : getScope st p = some parent) (m : TagMap) (hm : sanMap cfg m = canon [m]) (sh id : Nat)
    (evs : List Event) (h : (step st (.tagged p m sh)).2 = .scope (some id) evs) :
    parent.closed = false ∧ st.rootClosed = false ∧
    ∃ s, getScope (step st (.tagged p m sh)).1 id = some s ∧
      s.pfx = parent.pfx ∧ s.tags = mergeTags parent.tags (canon [m]) ∧
      s.tags = canon [parent.tags, m] := by
  have hinv := reachF_inv hr
  have hm' : sanMap st.cfg m = canon [m] := by rw [reach_cfg hr.reach]; exact hm
  simp only [step, hp] at h ⊢
  obtain ⟨hc, hrc, s, hg, hpf, htg⟩ := (subscope_spec True False (fun _ _ => True) st p _ m sh
    (fun _ => ⟨hinv, hm'⟩) (fun _ _ _ => trivial) (fun h => h.elim)).2.1 trivial parent id evs hp h
  refine ⟨hc, hrc, s, hg, hpf, ?_, htg⟩
  rw [htg]
  exact (canon_pair_canon_right parent.tags m).symm

/-- `SubScope(name)` without sanitizer: prefix `fqn sep parent.pfx name`, the parent's tags -/
theorem sub_result_identity {cfg : Cfg} {pfx sep : Bytes} {tags : TagMap} {st : St}
    (hr : Reach cfg pfx sep tags st) (hns : cfg.san = none) (p : Nat) (parent : ScopeS)
    (hp : getScope st p = some parent) (name : Bytes) (sh id : Nat) (evs : List Event)
    (h : (step st (.sub p name sh)).2 = .scope (some id) evs) :
    parent.closed = false ∧ st.rootClosed = false ∧
    ∃ s, getScope (step st (.sub p name sh)).1 id = some s ∧
      s.pfx = fqn st.sep parent.pfx name ∧ s.tags = parent.tags := by
  have := sub_result_identity_sanitized_partial (hr.toF hns) p parent hp name sh id evs h
  rwa [sanName_none (by rw [reach_cfg hr]; exact hns)] at this

/-- `Tagged(m)` without sanitizer: the parent's prefix, the parent's tags overlaid by `m` -/
theorem tagged_result_identity {cfg : Cfg} {pfx sep : Bytes} {tags : TagMap} {st : St}
    (hr : Reach cfg pfx sep tags st) (hns : cfg.san = none) (p : Nat) (parent : ScopeS)
    (hp : getScope st p = some parent) (m : TagMap) (sh id : Nat) (evs : List Event)
    (h : (step st (.tagged p m sh)).2 = .scope (some id) evs) :
    parent.closed = false ∧ st.rootClosed = false ∧
    ∃ s, getScope (step st (.tagged p m sh)).1 id = some s ∧
      s.pfx = parent.pfx ∧ s.tags = mergeTags parent.tags (canon [m]) ∧
      s.tags = canon [parent.tags, m] :=
  tagged_result_identity_sanitized_partial (hr.toF hns) p parent hp m (sanMap_none hns m) sh id evs h

/-! ### 3b. the full sanitized statements (maps changed by the sanitizer, sanitized keys distinct) -/

/-- the generalised registry invariant: every registry entry points to an existing scope and its key is the
key of that scope's identity or a raw alias key of it, all tag maps are canonical and fixed points of the
sanitizer.  It holds at the root and is preserved by every operation whose `Tagged` map keeps its sanitized
keys distinct, hence in all states of `ReachD`. -/
theorem regInvD_reachable {cfg : Cfg} {pfx sep : Bytes} {tags : TagMap} {st : St}
    (hr : ReachD cfg pfx sep tags st) : InvD st := reachD_invD hr

theorem regInvD_root (cfg : Cfg) (pfx sep : Bytes) (tags : TagMap) : InvD (mkRoot cfg pfx sep tags) :=
  mkRoot_invD cfg pfx sep tags

theorem regInvD_step (st : St) (op : Op) (hmet : MetInv st) (hinv : InvD st)
    (hd : SanDistinctOp st.cfg op) : InvD (step st op).1 := step_invD st op hmet hinv hd

/-- the sanitized overlay only depends on the raw overlay: the reason why a registry hit under a raw key
is right -/
theorem sanitized_overlay_of_raw_overlay {cfg : Cfg} {A B A' B' : TagMap}
    (hA : FixedTags cfg A) (hA' : FixedTags cfg A') (hB : SanDistinct cfg B) (hB' : SanDistinct cfg B')
    (h : canon [A, B] = canon [A', B']) : canon [A, sanMap cfg B] = canon [A', sanMap cfg B'] :=
  canon_san_congr hA hA' hB hB' h

/-- `SubScope(name)`, any sanitizer: the result has prefix `fqn sep parent.pfx (sanitized name)` and the
parent's tags -/
theorem sub_result_identity_sanitized {cfg : Cfg} {pfx sep : Bytes} {tags : TagMap} {st : St}
    (hr : ReachD cfg pfx sep tags st) (p : Nat) (parent : ScopeS)
    (hp : getScope st p = some parent) (name : Bytes) (sh id : Nat) (evs : List Event)
    (h : (step st (.sub p name sh)).2 = .scope (some id) evs) :
    parent.closed = false ∧ st.rootClosed = false ∧
    ∃ s, getScope (step st (.sub p name sh)).1 id = some s ∧
      s.pfx = fqn st.sep parent.pfx (sanName st.cfg name) ∧ s.tags = parent.tags := by
  have hinv := reachD_invD hr
  simp only [step, hp] at h ⊢
  obtain ⟨hc, hrc, s, hg, hpf, htg⟩ := (subscope_spec False True (fun _ _ => True) st p _ [] sh
    (fun h => h.elim) (fun h => h.elim) (fun _ => ⟨hinv, sanDistinct_nil _⟩)).2.2 trivial parent id evs hp h
  refine ⟨hc, hrc, s, hg, hpf, ?_⟩
  rw [htg, sanMap_nil', canon_pair_nil]
  exact hinv.canon p parent hp

/-- **`Tagged(m)`, any sanitizer**: if the sanitized keys of `m` (and of every `Tagged` map used before)
are distinct, the result has the parent's prefix and the parent's tags overlaid by the sanitized `m` —
whether the scope was created, found under its identity key, or found under a raw alias key -/
theorem tagged_result_identity_sanitized {cfg : Cfg} {pfx sep : Bytes} {tags : TagMap} {st : St}
    (hr : ReachD cfg pfx sep tags st) (p : Nat) (parent : ScopeS)
    (hp : getScope st p = some parent) (m : TagMap) (hm : SanDistinct cfg m) (sh id : Nat)
    (evs : List Event) (h : (step st (.tagged p m sh)).2 = .scope (some id) evs) :
    parent.closed = false ∧ st.rootClosed = false ∧
    ∃ s, getScope (step st (.tagged p m sh)).1 id = some s ∧
      s.pfx = parent.pfx ∧ s.tags = mergeTags parent.tags (sanMap cfg m) := by
  have hinv := reachD_invD hr
  have hcfg : st.cfg = cfg := reach_cfg hr.reach
  simp only [step, hp] at h ⊢
  obtain ⟨hc, hrc, s, hg, hpf, htg⟩ := (subscope_spec False True (fun _ _ => True) st p _ m sh
    (fun h => h.elim) (fun h => h.elim) (fun _ => ⟨hinv, by rw [hcfg]; exact hm⟩)).2.2 trivial parent id evs
    hp h
  refine ⟨hc, hrc, s, hg, hpf, ?_⟩
  rw [htg, hcfg]; rfl

/-! ## 4. name and tags follow the derivation -/

/-- one step of a derivation -/
inductive D
  | sub (name : Bytes)
  | tagged (m : TagMap)

/-- the prefix a derivation must produce: the names joined by the separator -/
def derivPfx (sep rootPfx : Bytes) (ds : List D) : Bytes :=
  ds.foldl (fun acc d => match d with
    | .sub n => Spec.C04.join sep acc n
    | .tagged _ => acc) rootPfx

/-- the tags a derivation must produce: the root tags overlaid by each Tagged map in order -/
def derivTags (rootTags : TagMap) (ds : List D) : TagMap :=
  ds.foldl (fun acc d => match d with
    | .sub _ => acc
    | .tagged m => Spec.C04.overlay acc m) rootTags

/-- the API call of a derivation step on scope `p` -/
def D.op (d : D) (p sh : Nat) : Op :=
  match d with
  | .sub n => .sub p n sh
  | .tagged m => .tagged p m sh

/-- the derivation step with its name sanitized -/
def D.san (cfg : Cfg) : D → D
  | .sub n => .sub (sanName cfg n)
  | .tagged m => .tagged m

/-- `Derives st0 ds st id`: starting in state `st0` at scope `0` (the root), the calls of `ds` were
executed one after another, each on the scope returned by the previous one and each returning a scope,
interleaved with arbitrary other operations; the last call returned `id` and the state is now `st` -/
inductive Derives : St → List D → St → Nat → Prop
  | root (st0 : St) : Derives st0 [] st0 0
  | others {st0 : St} {ds : List D} {st : St} {id : Nat} (ops : List Op) :
      Derives st0 ds st id → Derives st0 ds (runOps st ops) id
  | call {st0 : St} {ds : List D} {st : St} {p : Nat} (d : D) (sh id : Nat) (evs : List Event) :
      Derives st0 ds st p → (step st (d.op p sh)).2 = .scope (some id) evs →
      Derives st0 (ds ++ [d]) (step st (d.op p sh)).1 id

/-- the same where every `Tagged` map of the execution (of the derivation and of the interleaved
operations) is left unchanged by the sanitizer -/
inductive DerivesF (cfg : Cfg) : St → List D → St → Nat → Prop
  | root (st0 : St) : DerivesF cfg st0 [] st0 0
  | others {st0 : St} {ds : List D} {st : St} {id : Nat} (ops : List Op) :
      DerivesF cfg st0 ds st id → FixedOps cfg ops → DerivesF cfg st0 ds (runOps st ops) id
  | call {st0 : St} {ds : List D} {st : St} {p : Nat} (d : D) (sh id : Nat) (evs : List Event) :
      DerivesF cfg st0 ds st p → SanFixed cfg (d.op p sh) →
      (step st (d.op p sh)).2 = .scope (some id) evs →
      DerivesF cfg st0 (ds ++ [d]) (step st (d.op p sh)).1 id

theorem Derives.toF {cfg : Cfg} (hns : cfg.san = none) {st0 st : St} {ds : List D} {id : Nat}
    (h : Derives st0 ds st id) : DerivesF cfg st0 ds st id := by
  induction h with
  | root => exact .root _
  | others ops _ ih => exact .others ops ih (fun op _ => sanFixed_of_none hns op)
  | call d sh id evs _ ho ih => exact .call d sh id evs ih (sanFixed_of_none hns _) ho

theorem Derives.reach {cfg : Cfg} {pfx sep : Bytes} {tags : TagMap} {st0 st : St} {ds : List D} {id : Nat}
    (h : Derives st0 ds st id) (hr : Reach cfg pfx sep tags st0) : Reach cfg pfx sep tags st := by
  induction h with
  | root => exact hr
  | others ops _ ih => exact ih.run ops
  | call d sh id evs _ _ ih => exact ih.step _

theorem DerivesF.reachF {cfg : Cfg} {pfx sep : Bytes} {tags : TagMap} {st0 st : St} {ds : List D} {id : Nat}
    (h : DerivesF cfg st0 ds st id) (hr : ReachF cfg pfx sep tags st0) : ReachF cfg pfx sep tags st := by
  induction h with
  | root => exact hr
  | others ops _ hf ih => exact ih.run hf
  | call d sh id evs _ hf _ ih => exact ih.step hf

theorem derivPfx_snoc (sep r : Bytes) (ds : List D) (d : D) :
    derivPfx sep r (ds ++ [d]) = match d with
      | .sub n => Spec.C04.join sep (derivPfx sep r ds) n
      | .tagged _ => derivPfx sep r ds := by
  simp [derivPfx, List.foldl_append]

theorem derivTags_snoc (r : TagMap) (ds : List D) (d : D) :
    derivTags r (ds ++ [d]) = match d with
      | .sub _ => derivTags r ds
      | .tagged m => Spec.C04.overlay (derivTags r ds) m := by
  simp [derivTags, List.foldl_append]

theorem map_san_none {cfg : Cfg} (hns : cfg.san = none) (ds : List D) : ds.map (D.san cfg) = ds := by
  induction ds with
  | nil => rfl
  | cons d ds ih =>
    rw [List.map_cons, ih]
    cases d <;> simp [D.san, sanName_none hns]

/-- (any configuration, `Tagged` maps unchanged by the sanitizer) the scope a derivation ends in has the
derived prefix — built from the sanitized names — and the derived tags -/
theorem derivation_identity_sanitized_partial {cfg : Cfg} {pfx sep : Bytes} {tags : TagMap} {st0 : St}
    (hr : ReachF cfg pfx sep tags st0) (root : ScopeS)
    (hroot : getScope st0 0 = some root) {ds : List D} {st : St} {id : Nat}
    (h : DerivesF cfg st0 ds st id) :
    ∃ s, getScope st id = some s ∧ s.pfx = derivPfx st0.sep root.pfx (ds.map (D.san cfg)) ∧
      s.tags = derivTags root.tags ds := by
  induction h with
  | root => exact ⟨root, hroot, rfl, rfl⟩
  | others ops _ _ ih =>
    obtain ⟨s, hg, hp, ht⟩ := ih
    obtain ⟨s', hg', hp', ht', _⟩ := scope_identity_constant_run ops _ _ s hg
    exact ⟨s', hg', hp'.trans hp, ht'.trans ht⟩
  | @call ds st p d sh id evs hd hfix hout ih =>
    obtain ⟨parent, hg, hp, ht⟩ := ih
    have hrst := hd.reachF hr
    have hsep : st.sep = st0.sep := by
      rw [(cfg_sep_constant hrst.reach).2, (cfg_sep_constant hr.reach).2]
    have hcfg : st.cfg = cfg := reach_cfg hrst.reach
    cases d with
    | sub n =>
      obtain ⟨_, _, s, hs, hpf, htg⟩ :=
        sub_result_identity_sanitized_partial hrst p parent hg n sh id evs hout
      refine ⟨s, hs, ?_, ?_⟩
      · rw [List.map_append, List.map_cons, List.map_nil, derivPfx_snoc, hpf, hp, hsep, hcfg]; rfl
      · rw [derivTags_snoc, htg, ht]
    | tagged m =>
      obtain ⟨_, _, s, hs, hpf, _, htg⟩ :=
        tagged_result_identity_sanitized_partial hrst p parent hg m hfix sh id evs hout
      refine ⟨s, hs, ?_, ?_⟩
      · rw [List.map_append, List.map_cons, List.map_nil, derivPfx_snoc, hpf, hp]; rfl
      · rw [derivTags_snoc, htg, ht]; rfl

/-- the scope a derivation ends in has the derived prefix and the derived tags (no sanitizer) -/
theorem derivation_identity {cfg : Cfg} {pfx sep : Bytes} {tags : TagMap} {st0 : St}
    (hr : Reach cfg pfx sep tags st0) (hns : cfg.san = none) (root : ScopeS)
    (hroot : getScope st0 0 = some root) {ds : List D} {st : St} {id : Nat}
    (h : Derives st0 ds st id) :
    ∃ s, getScope st id = some s ∧ s.pfx = derivPfx st0.sep root.pfx ds ∧
      s.tags = derivTags root.tags ds := by
  have := derivation_identity_sanitized_partial (hr.toF hns) root hroot (h.toF hns)
  rwa [map_san_none hns] at this

/-- the prefix of the scope a derivation ends in is the root prefix and the subscope names joined by
the separator -/
theorem name_follows_derivation {cfg : Cfg} {pfx sep : Bytes} {tags : TagMap}
    (hns : cfg.san = none) {ds : List D} {st : St} {id : Nat}
    (h : Derives (mkRoot cfg pfx sep tags) ds st id) :
    ∃ s, getScope st id = some s ∧
      s.pfx = derivPfx (if sep.isEmpty then [46] else sep) pfx ds := by
  obtain ⟨s, hg, hp, _⟩ := derivation_identity (Reach.root cfg pfx sep tags) hns _ rfl h
  refine ⟨s, hg, ?_⟩
  rw [hp]
  simp only [mkRoot, sanName_none hns]

/-- the tags of the scope a derivation ends in are the root tags overlaid by each Tagged map in order -/
theorem tags_follow_derivation {cfg : Cfg} {pfx sep : Bytes} {tags : TagMap}
    (hns : cfg.san = none) {ds : List D} {st : St} {id : Nat}
    (h : Derives (mkRoot cfg pfx sep tags) ds st id) :
    ∃ s, getScope st id = some s ∧ s.tags = derivTags (canon [tags]) ds := by
  obtain ⟨s, hg, _, ht⟩ := derivation_identity (Reach.root cfg pfx sep tags) hns _ rfl h
  refine ⟨s, hg, ?_⟩
  rw [ht]
  simp only [sanMap_none hns]

/-- (any configuration, `Tagged` maps unchanged by the sanitizer) prefix and tags of the scope a
derivation from the root ends in: root prefix, separator and names pass through the name sanitizer, the
root tags through the tag sanitizer -/
theorem name_tags_follow_derivation_sanitized_partial {cfg : Cfg} {pfx sep : Bytes} {tags : TagMap}
    {ds : List D} {st : St} {id : Nat} (h : DerivesF cfg (mkRoot cfg pfx sep tags) ds st id) :
    ∃ s, getScope st id = some s ∧
      s.pfx = derivPfx (sanName cfg (if sep.isEmpty then [46] else sep)) (sanName cfg pfx)
        (ds.map (D.san cfg)) ∧
      s.tags = derivTags (sanMap cfg tags) ds :=
  derivation_identity_sanitized_partial (ReachF.root cfg pfx sep tags) _ rfl h

/-- a metric of the scope a derivation ends in is delivered under the derived prefix joined with the
metric name, with exactly the derived tags -/
theorem metric_events_follow_derivation {cfg : Cfg} {pfx sep : Bytes} {tags : TagMap}
    (hns : cfg.san = none) {ds : List D} {st : St} {id : Nat}
    (h : Derives (mkRoot cfg pfx sep tags) ds st id) :
    ∃ s, getScope st id = some s ∧ ∀ e ∈ (reportScope st.sep s).2, ∃ x ∈ s.metrics,
      eventNameTags e = some
        (Spec.C04.join (if sep.isEmpty then [46] else sep)
          (derivPfx (if sep.isEmpty then [46] else sep) pfx ds) (metricName x.2),
         derivTags (canon [tags]) ds) := by
  obtain ⟨s, hg, hp⟩ := name_follows_derivation hns h
  obtain ⟨s', hg', ht⟩ := tags_follow_derivation hns h
  rw [hg] at hg'; cases hg'
  refine ⟨s, hg, ?_⟩
  intro e he
  obtain ⟨x, hx, hev⟩ := events_carry_scope_identity st.sep s e he
  refine ⟨x, hx, ?_⟩
  have hsep : st.sep = (if sep.isEmpty then [46] else sep) := by
    rw [(cfg_sep_constant (h.reach (Reach.root cfg pfx sep tags))).2, sanName_none hns]
  rw [hev, hp, ht, hsep]
  rfl

/-! ### the full sanitized derivation theorem -/

/-- a derivation where every `Tagged` map of the execution (of the derivation and of the interleaved
operations) keeps its sanitized keys distinct -/
inductive DerivesD (cfg : Cfg) : St → List D → St → Nat → Prop
  | root (st0 : St) : DerivesD cfg st0 [] st0 0
  | others {st0 : St} {ds : List D} {st : St} {id : Nat} (ops : List Op) :
      DerivesD cfg st0 ds st id → DistinctOps cfg ops → DerivesD cfg st0 ds (runOps st ops) id
  | call {st0 : St} {ds : List D} {st : St} {p : Nat} (d : D) (sh id : Nat) (evs : List Event) :
      DerivesD cfg st0 ds st p → SanDistinctOp cfg (d.op p sh) →
      (step st (d.op p sh)).2 = .scope (some id) evs →
      DerivesD cfg st0 (ds ++ [d]) (step st (d.op p sh)).1 id

theorem DerivesD.derives {cfg : Cfg} {st0 st : St} {ds : List D} {id : Nat}
    (h : DerivesD cfg st0 ds st id) : Derives st0 ds st id := by
  induction h with
  | root => exact .root _
  | others ops _ _ ih => exact .others ops ih
  | call d sh id evs _ _ ho ih => exact .call d sh id evs ih ho

theorem DerivesD.reachD {cfg : Cfg} {pfx sep : Bytes} {tags : TagMap} {st0 st : St} {ds : List D} {id : Nat}
    (h : DerivesD cfg st0 ds st id) (hr : ReachD cfg pfx sep tags st0) : ReachD cfg pfx sep tags st := by
  induction h with
  | root => exact hr
  | others ops _ hf ih => exact ih.run hf
  | call d sh id evs _ hf _ ih => exact ih.step hf

/-- without a sanitizer: every derivation all of whose `Tagged` maps have distinct keys -/
theorem sanDistinctOp_of_none {cfg : Cfg} (hns : cfg.san = none) (p : Nat) (m : TagMap) (sh : Nat)
    (hm : (m.map (·.1)).Nodup) : SanDistinctOp cfg (.tagged p m sh) := sanDistinct_of_none hns hm

/-- **(any configuration, sanitized keys of all `Tagged` maps distinct) the scope a derivation ends in has
the derived prefix — built from the sanitized names — and the derived tags — the root tags overlaid by
each sanitized `Tagged` map in order** -/
theorem derivation_identity_sanitized {cfg : Cfg} {pfx sep : Bytes} {tags : TagMap} {st0 : St}
    (hr : ReachD cfg pfx sep tags st0) (root : ScopeS)
    (hroot : getScope st0 0 = some root) {ds : List D} {st : St} {id : Nat}
    (h : DerivesD cfg st0 ds st id) :
    ∃ s, getScope st id = some s ∧ s.pfx = derivPfx st0.sep root.pfx (ds.map (D.san cfg)) ∧
      s.tags = derivTags root.tags (ds.map fun | .tagged m => .tagged (sanMap cfg m) | d => d) := by
  induction h with
  | root => exact ⟨root, hroot, rfl, rfl⟩
  | others ops _ _ ih =>
    obtain ⟨s, hg, hp, ht⟩ := ih
    obtain ⟨s', hg', hp', ht', _⟩ := scope_identity_constant_run ops _ _ s hg
    exact ⟨s', hg', hp'.trans hp, ht'.trans ht⟩
  | @call ds st p d sh id evs hd hfix hout ih =>
    obtain ⟨parent, hg, hp, ht⟩ := ih
    have hrst := hd.reachD hr
    have hsep : st.sep = st0.sep := by
      rw [(cfg_sep_constant hrst.reach).2, (cfg_sep_constant hr.reach).2]
    have hcfg : st.cfg = cfg := reach_cfg hrst.reach
    cases d with
    | sub n =>
      obtain ⟨_, _, s, hs, hpf, htg⟩ :=
        sub_result_identity_sanitized hrst p parent hg n sh id evs hout
      refine ⟨s, hs, ?_, ?_⟩
      · rw [List.map_append, List.map_cons, List.map_nil, derivPfx_snoc, hpf, hp, hsep, hcfg]; rfl
      · rw [List.map_append, List.map_cons, List.map_nil, derivTags_snoc, htg, ht]
    | tagged m =>
      obtain ⟨_, _, s, hs, hpf, htg⟩ :=
        tagged_result_identity_sanitized hrst p parent hg m hfix sh id evs hout
      refine ⟨s, hs, ?_, ?_⟩
      · rw [List.map_append, List.map_cons, List.map_nil, derivPfx_snoc, hpf, hp]; rfl
      · rw [List.map_append, List.map_cons, List.map_nil, derivTags_snoc, htg, ht]; rfl

/-- (any configuration, sanitized keys of all `Tagged` maps distinct) prefix and tags of the scope a
derivation from the root ends in: root prefix, separator and names pass through the name sanitizer, the
root tags and every `Tagged` map through the tag sanitizer -/
theorem name_tags_follow_derivation_sanitized {cfg : Cfg} {pfx sep : Bytes} {tags : TagMap}
    {ds : List D} {st : St} {id : Nat} (h : DerivesD cfg (mkRoot cfg pfx sep tags) ds st id) :
    ∃ s, getScope st id = some s ∧
      s.pfx = derivPfx (sanName cfg (if sep.isEmpty then [46] else sep)) (sanName cfg pfx)
        (ds.map (D.san cfg)) ∧
      s.tags = derivTags (sanMap cfg tags)
        (ds.map fun | .tagged m => .tagged (sanMap cfg m) | d => d) :=
  derivation_identity_sanitized (ReachD.root cfg pfx sep tags) _ rfl h

/-- … and a metric of that scope is delivered under the derived (sanitized) prefix joined with the metric's
stored name, with exactly the derived (sanitized) tags -/
theorem metric_events_follow_derivation_sanitized {cfg : Cfg} {pfx sep : Bytes} {tags : TagMap}
    {ds : List D} {st : St} {id : Nat} (h : DerivesD cfg (mkRoot cfg pfx sep tags) ds st id) :
    ∃ s, getScope st id = some s ∧ ∀ e ∈ (reportScope st.sep s).2, ∃ x ∈ s.metrics,
      eventNameTags e = some
        (Spec.C04.join (sanName cfg (if sep.isEmpty then [46] else sep))
          (derivPfx (sanName cfg (if sep.isEmpty then [46] else sep)) (sanName cfg pfx)
            (ds.map (D.san cfg))) (metricName x.2),
         derivTags (sanMap cfg tags) (ds.map fun | .tagged m => .tagged (sanMap cfg m) | d => d)) := by
  obtain ⟨s, hg, hp, ht⟩ := name_tags_follow_derivation_sanitized h
  refine ⟨s, hg, ?_⟩
  intro e he
  obtain ⟨x, hx, hev⟩ := events_carry_scope_identity st.sep s e he
  refine ⟨x, hx, ?_⟩
  have hsep : st.sep = sanName cfg (if sep.isEmpty then [46] else sep) :=
    (cfg_sep_constant (h.derives.reach (Reach.root cfg pfx sep tags))).2
  rw [hev, hp, ht, hsep]
  rfl

/-- an empty root prefix contributes no leading separator: the first name is the whole prefix -/
theorem empty_prefix_no_leading_separator (sep : Bytes) (n : Bytes) (ds : List D) :
    derivPfx sep [] (.sub n :: ds) = derivPfx sep n ds ∧
    derivPfx sep [] (.tagged m :: ds) = derivPfx sep [] ds ∧
    Spec.C04.join sep [] n = n ∧ fqn sep [] n = n := by
  refine ⟨rfl, rfl, rfl, rfl⟩

/-- … in the model: the first SubScope of a root with empty prefix has exactly its name as prefix -/
theorem empty_prefix_no_leading_separator_scope {cfg : Cfg} {sep : Bytes} {tags : TagMap}
    (hns : cfg.san = none) {n : Bytes} {ds : List D} {st : St} {id : Nat}
    (h : Derives (mkRoot cfg [] sep tags) (.sub n :: ds) st id) :
    ∃ s, getScope st id = some s ∧ s.pfx = derivPfx (if sep.isEmpty then [46] else sep) n ds := by
  obtain ⟨s, hg, hp⟩ := name_follows_derivation hns h
  exact ⟨s, hg, hp⟩

/-! ## non-vacuity: a concrete program -/

namespace Example
open Tally.Sanitize

/-- no sanitizer, plain reporter, one shard -/
def cfg0 : Cfg := { san := none, kind := .plain, closable := false, shards := 1, defaultBuckets := none }
/-- root with prefix `a`, default separator `.`, no tags -/
def root0 : St := mkRoot cfg0 [97] [] []
/-- the tag map `{k: v}` -/
def m0 : TagMap := [([107], [118])]
/-- after `root.SubScope("b")` (returns scope 1) -/
def st1 : St := (step root0 (.sub 0 [98] 0)).1
/-- … then a counter `c` on scope 1, an increment and a report pass -/
def st2 : St := runOps st1 [.counter 1 [99], .inc 0 5, .report]
/-- … then `scope1.Tagged({k: v})` (returns scope 2) -/
def st3 : St := (step st2 (.tagged 1 m0 0)).1

/-- the derivation `root.SubScope("b").Tagged({k: v})`, interleaved with other operations -/
theorem derives3 : Derives root0 [.sub [98], .tagged m0] st3 2 :=
  .call (ds := [.sub [98]]) (.tagged m0) 0 2 []
    (.others [.counter 1 [99], .inc 0 5, .report]
      (.call (ds := []) (.sub [98]) 0 1 [] (.root root0) rfl)) rfl

/-- `sub_result_identity` applies: the call returns a scope -/
example : (step root0 (.sub 0 [98] 0)).2 = .scope (some 1) [] := rfl
/-- `tagged_result_identity` applies -/
example : (step st2 (.tagged 1 m0 0)).2 = .scope (some 2) [] := rfl

/-- the scope is called `a.b` … -/
example : ∃ s, getScope st3 2 = some s ∧ s.pfx = [97, 46, 98] := name_follows_derivation rfl derives3
/-- … and tagged `{k: v}` -/
example : ∃ s, getScope st3 2 = some s ∧ s.tags = [([107], [118])] := by
  obtain ⟨s, h1, h2⟩ := tags_follow_derivation (cfg := cfg0) rfl derives3
  exact ⟨s, h1, by rw [h2]; rfl⟩

/-- the report pass in `st2` delivers the counter as `a.b.c` -/
example : (step (runOps st1 [.counter 1 [99], .inc 0 5]) .report).2
    = .events [.counter [97, 46, 98, 46, 99] [] 5, .flush] := rfl

/-- a timer handle created on scope 1 and its event -/
example : (step (step st1 (.timer 1 [116])).1 (.record 0 7)).2
    = .events [.timer [97, 46, 98, 46, 116] [] 7] := rfl

/-- a sanitizer that keeps `a`–`z` and replaces everything else by `_` -/
def vc : ValidChars := { ranges := [(97, 122)], chars := [] }
def cfgS : Cfg :=
  { san := some { name := vc, key := vc, value := vc, rep := 95 }, kind := .plain, closable := false,
    shards := 1, defaultBuckets := none }
def rootS : St := mkRoot cfgS [97] [] []

/-- the map `{k: v}` is left unchanged by this sanitizer, the name `b.` is not -/
theorem m0_fixed : sanMap cfgS m0 = canon [m0] := by decide +kernel
example : sanName cfgS [98, 46] = [98, 95] := by decide +kernel

/-- decidable test "the call returned scope `id` and no events" -/
def isScope (o : Out) (id : Nat) : Bool :=
  match o with
  | .scope (some i) [] => i == id
  | _ => false

theorem of_isScope {o : Out} {id : Nat} (h : isScope o id = true) : o = .scope (some id) [] := by
  unfold isScope at h
  split at h
  · simp only [beq_iff_eq] at h; rw [h]
  · cases h

/-- `root.SubScope("b.").Tagged({k: v})` with the sanitizer -/
theorem derivesS : DerivesF cfgS rootS [.sub [98, 46], .tagged m0]
    (step (step rootS (.sub 0 [98, 46] 0)).1 (.tagged 1 m0 0)).1 2 :=
  .call (ds := [.sub [98, 46]]) (.tagged m0) 0 2 []
    (.call (ds := []) (.sub [98, 46]) 0 1 [] (.root rootS) trivial (of_isScope (by decide +kernel)))
    m0_fixed (of_isScope (by decide +kernel))

/-- the scope is called `a.b_` (sanitized name) and tagged `{k: v}` -/
example : ∃ s, getScope (step (step rootS (.sub 0 [98, 46] 0)).1 (.tagged 1 m0 0)).1 2 = some s ∧
    s.pfx = derivPfx (sanName cfgS [46]) (sanName cfgS [97]) [.sub (sanName cfgS [98, 46]), .tagged m0] ∧
    s.tags = derivTags (sanMap cfgS []) [.sub [98, 46], .tagged m0] :=
  name_tags_follow_derivation_sanitized_partial derivesS

/-! ### the full sanitized theorems: a map the sanitizer changes -/

/-- the map `{k-: v}`; the sanitizer turns it into `{k_: v}` -/
def mK : TagMap := [([107, 45], [118])]

example : sanMap cfgS mK = [([107, 95], [118])] := by decide +kernel
theorem mK_distinct : SanDistinct cfgS mK := by unfold SanDistinct; decide +kernel

/-- after `root.SubScope("b.").Tagged({k-: v})` (returns scope 2) -/
def stK : St := (step (step rootS (.sub 0 [98, 46] 0)).1 (.tagged 1 mK 0)).1

theorem derivesK : DerivesD cfgS rootS [.sub [98, 46], .tagged mK] stK 2 :=
  .call (ds := [.sub [98, 46]]) (.tagged mK) 0 2 []
    (.call (ds := []) (.sub [98, 46]) 0 1 [] (.root rootS) trivial (of_isScope (by decide +kernel)))
    mK_distinct (of_isScope (by decide +kernel))

/-- the scope is called `a_b_` (the separator `.` is sanitized as well) and tagged `{k_: v}` (sanitized
name, sanitized map) -/
example : ∃ s, getScope stK 2 = some s ∧ s.pfx = [97, 95, 98, 95] ∧ s.tags = [([107, 95], [118])] := by
  obtain ⟨s, h1, h2, h3⟩ := name_tags_follow_derivation_sanitized derivesK
  refine ⟨s, h1, ?_, ?_⟩
  · rw [h2]; decide +kernel
  · rw [h3]; decide +kernel

/-- the same call again is answered from the raw alias key, the call with the sanitized map `{k_: v}` from
the identity key: both return scope 2, as `tagged_result_identity_sanitized` requires -/
example : isScope (step stK (.tagged 1 mK 0)).2 2 = true := by decide +kernel
example : isScope (step stK (.tagged 1 [([107, 95], [118])] 0)).2 2 = true := by decide +kernel

/-! ### `SanDistinct` is necessary in the model -/

/-- `{a_: x}`, `{a-: y}` and the map `{a_: x, a-: y}` (enumerated in this order) whose two keys are both
sanitized to `a_` -/
def mA : TagMap := [([97, 95], [120])]
def mB : TagMap := [([97, 45], [121])]
def mBad : TagMap := [([97, 95], [120]), ([97, 45], [121])]

theorem mA_distinct : SanDistinct cfgS mA := by unfold SanDistinct; decide +kernel
theorem mB_distinct : SanDistinct cfgS mB := by unfold SanDistinct; decide +kernel
theorem mBad_not_distinct : ¬ SanDistinct cfgS mBad := by unfold SanDistinct; decide +kernel

/-- the hypothesis on the requested map cannot be dropped: after `root.Tagged({a_: x}).Tagged({a-: y})`
(scope 2, tags `{a_: y}`, raw alias key of the overlay `{a-: y, a_: x}`) the call
`root.Tagged({a_: x, a-: y})` has the same raw key and is answered with scope 2, although the sanitized map
is `{a_: x}` -/
theorem sanDistinct_needed_now :
    isScope (step (runOps rootS [.tagged 0 mA 0, .tagged 1 mB 0]) (.tagged 0 mBad 0)).2 2 = true ∧
    (getScope (step (runOps rootS [.tagged 0 mA 0, .tagged 1 mB 0]) (.tagged 0 mBad 0)).1 2).map (·.tags)
      = some [([97, 95], [121])] ∧
    mergeTags [] (sanMap cfgS mBad) = [([97, 95], [120])] := by decide +kernel

/-- the hypothesis on the earlier maps (`ReachD`) cannot be dropped either: after
`root.Tagged({a_: x, a-: y})` (scope 1, tags `{a_: x}`) the call `scope1.Tagged({a-: y})` with a map whose
sanitized keys are distinct has the raw key of scope 1 and is answered with scope 1, although the parent's
tags overlaid by the sanitized map are `{a_: y}` -/
theorem sanDistinct_needed_before :
    isScope (step (runOps rootS [.tagged 0 mBad 0]) (.tagged 1 mB 0)).2 1 = true ∧
    (getScope (step (runOps rootS [.tagged 0 mBad 0]) (.tagged 1 mB 0)).1 1).map (·.tags)
      = some [([97, 95], [120])] ∧
    mergeTags [([97, 95], [120])] (sanMap cfgS mB) = [([97, 95], [121])] := by decide +kernel

end Example

end Tally.Props.C04
