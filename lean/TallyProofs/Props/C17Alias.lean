import Tally.Model.Prom
import Tally.Spec.C17
import TallyProofs.Lemmas.PromAlias
import TallyProofs.Props.C17
/-!
# C17, aliased series — two tally metric objects reporting into one Prometheus series

`Props/C17.lean` proves what `Gather()` shows for a series under `Separate`: every `(name, tags)` is
first-used once, so ONE tally object reports into each series.  Here the same `(kind, name, tags)`
is first-used TWICE in one history (two tally objects — e.g. obtained through two scopes that
produce the same fully-qualified name — whose `AllocateCounter` / `AllocateGauge` return the same
Prometheus series).  The history is

  `pre ++ [.use kind name tags] ++ mid ++ [.use kind name tags] ++ post`;

the first object has index `i = (usesOf pre).length`, the second one
`j = (usesOf (pre ++ [.use kind name tags] ++ mid)).length`.  `AliasedOnce`: with the second
occurrence removed, every `(name, tags)` is first-used once.  Only the FIRST of the two uses is
assumed usable; that the second one is usable too (it finds the cached vector) is part of the
conclusions.

* `gather_counter_sum_aliased` — the counter series shows the sum of the increments made through
  both objects, whatever the interleaving of increments and report passes.
* `gather_gauge_last_aliased` — the gauge series shows the last update made through either object
  in history order, if between two consecutive report passes at most one of the two objects is
  updated (`NoDoubleDirty`); `gather_gauge_last_aliased_ordered` needs less: within a report
  interval the first object is not updated after the second one (`FirstNotAfterSecond`).
* `gauge_aliased_object_order_counterexample` — without the hypothesis the result depends on object
  order: two objects updated in one interval, the series ends with the value of the object with
  the larger index, not with the later update.
* `legacy_skip_same_value_counterexample` — a pass that skips the delivery of a value equal to the
  one this object delivered last (`localStepSkip`) leaves the series at 2 where the last update
  was 1; the model of the real code (`localStep`) ends at 1.
-/
namespace Tally.Props.C17Alias
open Tally Tally.Prom Tally.Props.C17

/-- the history `pre ++ [use] ++ mid ++ [the same use again] ++ post` with the second occurrence
removed uses every `(name, tags)` once -/
def AliasedOnce (pre mid post : List Ev) (kind : UseKind) (name : Bytes) (tags : Tags) : Prop :=
  ((usesOf (pre ++ [.use kind name tags] ++ mid ++ post)).map (·.2)).Nodup

/-- the recordings and report passes that concern the pair, in history order: those on object `i`
during `mid` (object `j` does not exist yet: `World.apply` ignores an index without an object),
those on object `i` or on object `j` during `post` -/
def opsOfBoth (i j : Nat) (mid post : List Ev) : List LEv := proj i mid ++ projEither i j post

/-- between two consecutive report passes (and before the first / after the last one) at most one
of the two objects is updated -/
def NoDoubleDirty (i j : Nat) (mid post : List Ev) : Prop :=
  noDoubleDirtyFrom false false (joint i j mid post) = true

/-- between two consecutive report passes the first object (smaller index: a pass delivers it
first) is not updated after the second one was -/
def FirstNotAfterSecond (i j : Nat) (mid post : List Ev) : Prop :=
  okOrderFrom false (joint i j mid post) = true

instance (i j : Nat) (mid post : List Ev) : Decidable (NoDoubleDirty i j mid post) := by
  unfold NoDoubleDirty; infer_instance

instance (i j : Nat) (mid post : List Ev) : Decidable (FirstNotAfterSecond i j mid post) := by
  unfold FirstNotAfterSecond; infer_instance

theorem NoDoubleDirty.firstNotAfterSecond {i j : Nat} {mid post : List Ev} (h : NoDoubleDirty i j mid post) :
    FirstNotAfterSecond i j mid post :=
  okOrderFrom_of_noDoubleDirtyFrom _ _ _ h

/-! ### the common core -/

/-- what the listing after a final report pass says about a series the reporter holds -/
theorem finalGather_of_getS (cfg : Cfg) (evs : List Ev) (k : SeriesKey) (v : Val)
    (h : getS (run cfg (evs ++ [.pass])).rep.series k = some v) :
    (∃ e ∈ finalGather cfg evs, e.key = k) ∧ ∀ e ∈ finalGather cfg evs, e.key = k → e.val = v.export := by
  unfold finalGather
  constructor
  · obtain ⟨e, he, hk, _⟩ := gather_of_getS _ _ _ h
    exact ⟨e, he, hk⟩
  · intro e he hk
    apply gather_unique _ (inv_run cfg _).nodup e he
    rw [hk]; exact h

/-- the series of an aliased pair is listed exactly once and carries what `localRun2` computes from
the joint history of the two objects -/
theorem final_series_aliased (cfg : Cfg) (pre mid post : List Ev) (kind : UseKind) (name : Bytes) (tags : Tags)
    (hfresh : ∀ v', localStep (newMetric kind (.series ⟨name, tags⟩)) v' .pass
      = (newMetric kind (.series ⟨name, tags⟩), v'))
    (hd : AliasedOnce pre mid post kind name tags) (hu : Usable cfg pre kind name tags) :
    Usable cfg (pre ++ [.use kind name tags] ++ mid) kind name tags
    ∧ ∃ f : Family, f.kind = Spec.C17.typeOf cfg.histTimers kind
      ∧ (∃ e ∈ finalGather cfg (pre ++ [.use kind name tags] ++ mid ++ [.use kind name tags] ++ post), e.key = ⟨name, tags⟩)
      ∧ ∀ e ∈ finalGather cfg (pre ++ [.use kind name tags] ++ mid ++ [.use kind name tags] ++ post),
          e.key = ⟨name, tags⟩ →
          e.val = (localRun2 (newMetric kind (.series ⟨name, tags⟩)) (newMetric kind (.series ⟨name, tags⟩)) (Val.zero f)
            (joint (usesOf pre).length (usesOf (pre ++ [.use kind name tags] ++ mid)).length mid post ++ [.pass])).2.2.export := by
  have hd' : ((usesOf (pre ++ [.use kind name tags] ++ mid ++ (post ++ [.pass]))).map (·.2)).Nodup := by
    have : usesOf (pre ++ [.use kind name tags] ++ mid ++ (post ++ [.pass]))
        = usesOf (pre ++ [.use kind name tags] ++ mid ++ post) := by
      simp [usesOf_append, usesOf]
    rw [this]; exact hd
  obtain ⟨hu2, f, hfk, hser⟩ := life2 cfg pre mid (post ++ [.pass]) kind name tags hfresh hd' hu
  have hj : joint (usesOf pre).length (usesOf (pre ++ [.use kind name tags] ++ mid)).length mid (post ++ [.pass])
      = joint (usesOf pre).length (usesOf (pre ++ [.use kind name tags] ++ mid)).length mid post ++ [.pass] :=
    joint_append _ _ _ _ _
  rw [hj] at hser
  have hassoc : pre ++ [Ev.use kind name tags] ++ mid ++ [Ev.use kind name tags] ++ (post ++ [Ev.pass])
      = pre ++ [Ev.use kind name tags] ++ mid ++ [Ev.use kind name tags] ++ post ++ [Ev.pass] := by
    simp
  rw [hassoc] at hser
  obtain ⟨hex, hall⟩ := finalGather_of_getS cfg _ _ _ hser
  exact ⟨hu2, f, hfk, hex, hall⟩

theorem proj_skip_use (i : Nat) (mid post : List Ev) (kind : UseKind) (name : Bytes) (tags : Tags) :
    proj i (mid ++ [.use kind name tags] ++ post) = proj i mid ++ proj i post := by
  rw [proj_append, proj_append]
  simp [proj]

/-! ### counters -/

/-- **gather_counter_sum_aliased** — two counter objects of one `(name, tags)`: the second first use
is usable as well, and the one series they share shows the sum of the increments made through BOTH
objects (object `i` from its first use on, object `j` from its own), whatever the interleaving of
increments and report passes -/
theorem gather_counter_sum_aliased (cfg : Cfg) (pre mid post : List Ev) (name : Bytes) (tags : Tags)
    (hd : AliasedOnce pre mid post .counter name tags) (hu : Usable cfg pre .counter name tags) :
    Usable cfg (pre ++ [.use .counter name tags] ++ mid) .counter name tags
    ∧ (∃ e ∈ finalGather cfg (pre ++ [.use .counter name tags] ++ mid ++ [.use .counter name tags] ++ post),
        e.key = ⟨name, tags⟩)
    ∧ ∀ e ∈ finalGather cfg (pre ++ [.use .counter name tags] ++ mid ++ [.use .counter name tags] ++ post),
        e.key = ⟨name, tags⟩ →
        e.val = .counter
          (Spec.C17.incSum (proj (usesOf pre).length (mid ++ [.use .counter name tags] ++ post))
            + Spec.C17.incSum (proj (usesOf (pre ++ [.use .counter name tags] ++ mid)).length post)) := by
  obtain ⟨hu2, f, hfk, hex, hall⟩ := final_series_aliased cfg pre mid post .counter name tags (fun _ => rfl) hd hu
  refine ⟨hu2, hex, fun e he hk => ?_⟩
  rw [hall e he hk]
  have hz : Val.zero f = .counter 0 := by simp [Val.zero, hfk, Spec.C17.typeOf]
  have hne : (usesOf pre).length ≠ (usesOf (pre ++ [.use .counter name tags] ++ mid)).length := by
    simp [usesOf_append, usesOf]
  rw [hz]
  simp only [newMetric, counter2_final, Val.export]
  rw [incSum2_joint _ _ hne, proj_skip_use, incSum_append]

/-! ### gauges -/

/-- **gather_gauge_last_aliased_ordered** — two gauge objects of one `(name, tags)`: if within a
report interval the first object is never updated after the second one, the one series they share
shows the LAST update made through either object in history order (`+0` if there was none) -/
theorem gather_gauge_last_aliased_ordered (cfg : Cfg) (pre mid post : List Ev) (name : Bytes) (tags : Tags)
    (hd : AliasedOnce pre mid post .gauge name tags) (hu : Usable cfg pre .gauge name tags)
    (hord : FirstNotAfterSecond (usesOf pre).length (usesOf (pre ++ [.use .gauge name tags] ++ mid)).length mid post) :
    Usable cfg (pre ++ [.use .gauge name tags] ++ mid) .gauge name tags
    ∧ (∃ e ∈ finalGather cfg (pre ++ [.use .gauge name tags] ++ mid ++ [.use .gauge name tags] ++ post),
        e.key = ⟨name, tags⟩)
    ∧ ∀ e ∈ finalGather cfg (pre ++ [.use .gauge name tags] ++ mid ++ [.use .gauge name tags] ++ post),
        e.key = ⟨name, tags⟩ →
        e.val = .gauge (Spec.C17.lastUpdate
          (opsOfBoth (usesOf pre).length (usesOf (pre ++ [.use .gauge name tags] ++ mid)).length mid post) 0) := by
  obtain ⟨hu2, f, hfk, hex, hall⟩ := final_series_aliased cfg pre mid post .gauge name tags (fun _ => rfl) hd hu
  refine ⟨hu2, hex, fun e he hk => ?_⟩
  rw [hall e he hk]
  have hz : Val.zero f = .gauge 0 := by simp [Val.zero, hfk, Spec.C17.typeOf]
  rw [hz]
  simp only [newMetric]
  rw [gauge2_final _ _ hord, flat_joint]
  rfl

/-- **gather_gauge_last_aliased** — two gauge objects of one `(name, tags)`: if between two
consecutive report passes (and before the first / after the last one) at most one of the two
objects is updated, the one series they share shows the LAST update made through either object in
history order (`+0` if there was none) -/
theorem gather_gauge_last_aliased (cfg : Cfg) (pre mid post : List Ev) (name : Bytes) (tags : Tags)
    (hd : AliasedOnce pre mid post .gauge name tags) (hu : Usable cfg pre .gauge name tags)
    (hnd : NoDoubleDirty (usesOf pre).length (usesOf (pre ++ [.use .gauge name tags] ++ mid)).length mid post) :
    Usable cfg (pre ++ [.use .gauge name tags] ++ mid) .gauge name tags
    ∧ (∃ e ∈ finalGather cfg (pre ++ [.use .gauge name tags] ++ mid ++ [.use .gauge name tags] ++ post),
        e.key = ⟨name, tags⟩)
    ∧ ∀ e ∈ finalGather cfg (pre ++ [.use .gauge name tags] ++ mid ++ [.use .gauge name tags] ++ post),
        e.key = ⟨name, tags⟩ →
        e.val = .gauge (Spec.C17.lastUpdate
          (opsOfBoth (usesOf pre).length (usesOf (pre ++ [.use .gauge name tags] ++ mid)).length mid post) 0) :=
  gather_gauge_last_aliased_ordered cfg pre mid post name tags hd hu hnd.firstNotAfterSecond

/-- if no recording in `mid` addresses index `j` (the harness cannot record on an object it does
not hold yet), `opsOfBoth` is the projection of the whole rest of the history on the pair -/
theorem opsOfBoth_eq_projEither (i j : Nat) (mid post : List Ev) (kind : UseKind) (name : Bytes) (tags : Tags)
    (hmid : ∀ e, Ev.op j e ∉ mid) :
    opsOfBoth i j mid post = projEither i j (mid ++ [.use kind name tags] ++ post) := by
  have hp : ∀ l : List Ev, (∀ e, Ev.op j e ∉ l) → proj i l = projEither i j l := by
    intro l
    induction l with
    | nil => intro _; rfl
    | cons ev t ih =>
      intro h
      have ht : ∀ e, Ev.op j e ∉ t := fun e hm => h e (List.mem_cons_of_mem _ hm)
      cases ev with
      | use _ _ _ => simpa [proj, projEither] using ih ht
      | pass => simpa [proj, projEither] using ih ht
      | op a e =>
        have haj : ¬ a = j := by
          intro e'; subst e'; exact h e (List.mem_cons_self ..)
        simp only [proj, projEither, haj, or_false, ih ht]
  have hap : ∀ a b : List Ev, projEither i j (a ++ b) = projEither i j a ++ projEither i j b := by
    intro a b
    induction a with
    | nil => rfl
    | cons ev t ih =>
      cases ev with
      | use _ _ _ => simpa [projEither] using ih
      | pass => simp [projEither, ih]
      | op a e => simp only [List.cons_append, projEither]; split <;> simp [ih]
  unfold opsOfBoth
  rw [hap, hap, hp mid hmid]
  simp [projEither]

/-! ### without the hypothesis the result depends on object order -/

/-- 1.0, 2.0 and 2.5 -/
def one : F64 := 0x3FF0000000000000
def two : F64 := 0x4000000000000000
def twoAndHalf : F64 := 0x4004000000000000

/-- **gauge_aliased_object_order_counterexample** — two gauge objects of one series, both updated in
one report interval: object 1 to 1.0 FIRST, object 0 to 2.5 LAST.  The pass delivers object 0, then
object 1: the series ends at 1.0 — the value of the object with the larger index — although the
last update was 2.5 (and `FirstNotAfterSecond`, hence `NoDoubleDirty`, fails on this history).
With the two updates made in the other order the series ends at 1.0 as well, which there IS the
last update: the listing is a function of object order, not of update order. -/
theorem gauge_aliased_object_order_counterexample :
    (∀ e ∈ finalGather {} ([] ++ [.use .gauge [103] []] ++ [] ++ [.use .gauge [103] []]
          ++ [.op 1 (.update one), .op 0 (.update twoAndHalf)]),
        e.key = ⟨[103], []⟩ → e.val = .gauge one)
    ∧ Spec.C17.lastUpdate (opsOfBoth 0 1 [] [.op 1 (.update one), .op 0 (.update twoAndHalf)]) 0 = twoAndHalf
    ∧ ¬ FirstNotAfterSecond 0 1 [] [.op 1 (.update one), .op 0 (.update twoAndHalf)]
    ∧ ¬ NoDoubleDirty 0 1 [] [.op 1 (.update one), .op 0 (.update twoAndHalf)]
    ∧ (∀ e ∈ finalGather {} ([] ++ [.use .gauge [103] []] ++ [] ++ [.use .gauge [103] []]
          ++ [.op 0 (.update twoAndHalf), .op 1 (.update one)]),
        e.key = ⟨[103], []⟩ → e.val = .gauge one) := by
  refine ⟨?_, by decide, by decide, by decide, ?_⟩
  · exact (finalGather_of_getS {} _ ⟨[103], []⟩ (.gauge one) (by decide)).2
  · exact (finalGather_of_getS {} _ ⟨[103], []⟩ (.gauge one) (by decide)).2

/-! ### a pass that skips "the same value as last time" -/

/-- one gauge object of the variant: what `Metric.gauge` carries plus the value this object
delivered last -/
structure SkipObj where
  curr : F64 := 0
  updated : Bool := false
  lastDelivered : Option F64 := none
  deriving DecidableEq, Repr

/-- the variant of the gauge pass step (`localStep (.gauge h c u) v .pass`) that skips the delivery
when `curr` equals the last value THIS object delivered — whatever the series holds by now -/
def localStepSkip (o : SkipObj) (series : F64) : SkipObj × F64 :=
  if o.updated then
    if o.lastDelivered = some o.curr then ({ o with updated := false }, series)
    else ({ o with updated := false, lastDelivered := some o.curr }, o.curr)
  else (o, series)

/-- two objects `a` (visited first by a pass) and `b`, one series -/
structure SkipWorld where
  series : F64 := 0
  a : SkipObj := {}
  b : SkipObj := {}
  deriving DecidableEq, Repr

inductive SkipEv
  | updateA (v : F64)
  | updateB (v : F64)
  | pass
  deriving DecidableEq, Repr

def skipStep (w : SkipWorld) : SkipEv → SkipWorld
  | .updateA v => { w with a := { w.a with curr := v, updated := true } }
  | .updateB v => { w with b := { w.b with curr := v, updated := true } }
  | .pass =>
    let ra := localStepSkip w.a w.series
    let rb := localStepSkip w.b ra.2
    { series := rb.2, a := ra.1, b := rb.1 }

def skipRun (evs : List SkipEv) : SkipWorld := evs.foldl skipStep {}

/-- object a updated to 1, pass, object b updated to 2, pass, object a updated to 1 again (a final
pass follows) -/
def skipHistory : List SkipEv := [.updateA one, .pass, .updateB two, .pass, .updateA one, .pass]

/-- the same on the model of the real code: `pre = []`, `mid = []`, `post` = -/
def skipPost : List Ev := [.op 0 (.update one), .pass, .op 1 (.update two), .pass, .op 0 (.update one)]

/-- **legacy_skip_same_value_counterexample** — with a pass that skips a value equal to the one the
object delivered last, the series ends at 2.0 although the last update (through object a) was 1.0:
object a delivered 1.0 in the first pass, object b overwrote the series with 2.0 in the second
one, and object a's renewed 1.0 is skipped as "unchanged".  The model of the real code on the same
history — which satisfies `NoDoubleDirty`, so `gather_gauge_last_aliased` applies — ends at 1.0, the
last update. -/
theorem legacy_skip_same_value_counterexample :
    (skipRun skipHistory).series = two
    ∧ (∀ e ∈ finalGather {} ([] ++ [.use .gauge [103] []] ++ [] ++ [.use .gauge [103] []] ++ skipPost),
        e.key = ⟨[103], []⟩ → e.val = .gauge one)
    ∧ NoDoubleDirty 0 1 [] skipPost
    ∧ Spec.C17.lastUpdate (opsOfBoth 0 1 [] skipPost) 0 = one := by
  refine ⟨by decide, ?_, by decide, by decide⟩
  exact (gather_gauge_last_aliased {} [] [] skipPost [103] [] (by unfold AliasedOnce; decide) ⟨⟨[103], []⟩, by decide⟩
    (by decide)).2.2

/-- on histories in which no object is updated to the value it delivered last, the variant and the
real step agree; e.g. a updated to 1, pass, b to 2, pass, a to 2.5, pass: both end at 2.5 -/
example : (skipRun [.updateA one, .pass, .updateB two, .pass, .updateA twoAndHalf, .pass]).series = twoAndHalf
    ∧ getS (run {} [.use .gauge [103] [], .use .gauge [103] [], .op 0 (.update one), .pass, .op 1 (.update two),
        .pass, .op 0 (.update twoAndHalf), .pass]).rep.series ⟨[103], []⟩ = some (.gauge twoAndHalf) := by
  constructor <;> decide

/-! ### non-vacuity: concrete histories meeting the hypotheses -/

/-- `gather_counter_sum_aliased` instantiated: another series first, then the pair (objects 1 and 2)
with increments through both objects interleaved with passes, and a further first use at the end:
3 + 4 + 6 through object 1, 5 + 7 through object 2 -/
example : ∀ e ∈ finalGather {} ([.use .counter [109] [([97], [120])]] ++ [.use .counter [109] [([97], [121])]]
      ++ [.op 1 (.inc 3), .pass, .op 1 (.inc 4), .op 0 (.inc 100)] ++ [.use .counter [109] [([97], [121])]]
      ++ [.op 2 (.inc 5), .op 1 (.inc 6), .pass, .op 2 (.inc 7), .use .gauge [103] [], .op 0 (.inc 1000)]),
    e.key = ⟨[109], [([97], [121])]⟩ → e.val = .counter 25 :=
  (gather_counter_sum_aliased {} [.use .counter [109] [([97], [120])]]
    [.op 1 (.inc 3), .pass, .op 1 (.inc 4), .op 0 (.inc 100)]
    [.op 2 (.inc 5), .op 1 (.inc 6), .pass, .op 2 (.inc 7), .use .gauge [103] [], .op 0 (.inc 1000)]
    [109] [([97], [121])] (by unfold AliasedOnce; decide) ⟨⟨[109], [([97], [121])]⟩, by decide⟩).2.2

/-- `gather_gauge_last_aliased` instantiated: object 0 updated alone during `mid`, then the two
objects updated in different report intervals (two updates of one object in one interval are
fine); the last update is object 0's -0.0 -/
example : ∀ e ∈ finalGather {} ([] ++ [.use .gauge [103] []] ++ [.op 0 (.update one)] ++ [.use .gauge [103] []]
      ++ [.pass, .op 1 (.update two), .op 1 (.update twoAndHalf), .pass, .op 0 (.update 0x8000000000000000)]),
    e.key = ⟨[103], []⟩ → e.val = .gauge 0x8000000000000000 :=
  (gather_gauge_last_aliased {} [] [.op 0 (.update one)]
    [.pass, .op 1 (.update two), .op 1 (.update twoAndHalf), .pass, .op 0 (.update 0x8000000000000000)]
    [103] [] (by unfold AliasedOnce; decide) ⟨⟨[103], []⟩, by decide⟩ (by decide)).2.2

/-- `gather_gauge_last_aliased_ordered` covers more: both objects updated in ONE interval, the
second one last (here object 0 is still dirty from `mid` when object 1 is updated) -/
example : ∀ e ∈ finalGather {} ([] ++ [.use .gauge [103] []] ++ [.op 0 (.update one)] ++ [.use .gauge [103] []]
      ++ [.op 1 (.update two)]),
    e.key = ⟨[103], []⟩ → e.val = .gauge two :=
  (gather_gauge_last_aliased_ordered {} [] [.op 0 (.update one)] [.op 1 (.update two)]
    [103] [] (by unfold AliasedOnce; decide) ⟨⟨[103], []⟩, by decide⟩ (by decide)).2.2

example : ¬ NoDoubleDirty 0 1 [.op 0 (.update one)] [.op 1 (.update two)] := by decide

end Tally.Props.C17Alias
