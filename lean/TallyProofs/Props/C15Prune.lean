import Tally.Model.Udp
/-!
# C15 — a `Flush` that drops a dead destination from the list while it ranges over the list (legacy witness)

The seeded change `c15-multi-flush-prunes-while-ranging` rewrites `TMultiUDPTransport.Flush` as

    for i, trans := range p.transports {
        if err := trans.Flush(); err != nil {
            if firstErr == nil { firstErr = err }
            if errors.Is(err, net.ErrClosed) { p.transports = append(p.transports[:i], p.transports[i+1:]...) }
        }
    }

Go evaluates the range expression once: the loop walks the ORIGINAL slice header (length `n`) over a backing array
that the `append` shifts underneath it.  The transports are pointers: the model keeps the objects in a store and
the slice as a list of indices into it.  With three destinations and the first one dead, the second is skipped
in that flush and the third is flushed twice; the second keeps the message and glues it to the next one.  The real
`UdpMulti.flush` (every destination, first error returned) on the same calls serves both healthy destinations -
`multi_every_destination` in Props/C15 is the general statement.
-/
namespace Tally.Props.C15Prune
open Tally Tally.Udp

structure M where
  objs : List T          -- the transport objects
  arr : List Nat         -- the backing array of `p.transports`: indices into `objs`
  len : Nat              -- the length of `p.transports`
  deriving DecidableEq, Repr

def M.init (k : Nat) : M := { objs := List.replicate k Udp.init, arr := List.range k, len := k }

/-- `append(p.transports[:i], p.transports[i+1:]...)` on the backing array: the elements behind `i` (up to the
current length) move one place to the left; the array keeps its last element where it was -/
def shift (arr : List Nat) (i len : Nat) : List Nat :=
  (List.range arr.length).map fun j => if i ≤ j ∧ j + 1 < len then arr.getD (j + 1) 0 else arr.getD j 0

/-- `Write` reaches the transports of the CURRENT slice -/
def write (max : Nat) (m : M) (b : Bytes) : M :=
  { m with objs := (List.range m.objs.length).map fun o =>
      if (m.arr.take m.len).contains o then (accept max (m.objs.getD o Udp.init) b).1 else m.objs.getD o Udp.init }

/-- the legacy loop: `i` runs over the original length `n`; per destination object the datagrams it sent -/
def flushLoop (socks : Nat → Sock) : Nat → Nat → M → List (Nat × List Bytes) → M × List (Nat × List Bytes)
  | 0, _, m, out => (m, out)
  | fuel + 1, i, m, out =>
    let o := m.arr.getD i 0
    let (t', r) := Udp.flush (m.objs.getD o Udp.init) (socks o)
    let objs' := (List.range m.objs.length).map fun j => if j = o then t' else m.objs.getD j Udp.init
    let m' := if r.err = .sendError then { m with objs := objs', arr := shift m.arr i m.len, len := m.len - 1 }
              else { m with objs := objs' }
    flushLoop socks fuel (i + 1) m' (out ++ [(o, r.recv)])

def flush (m : M) (socks : Nat → Sock) : M × List (Nat × List Bytes) :=
  flushLoop socks m.len 0 m []

/-- destination 0's socket is dead: what each destination object sends in the first flush, and in the next one -/
theorem legacy_prune_skips_and_glues :
    let dead : Nat → Sock := fun o => if o = 0 then .fail else .ok
    let m1 := write 100 (M.init 3) [1, 2]
    let (m2, sent1) := flush m1 dead
    let m3 := write 100 m2 [3]
    let (_, sent2) := flush m3 dead
    -- first flush: destination 1 is skipped, destination 2 is flushed twice (the second datagram is empty)
    sent1 = [(0, []), (2, [[1, 2]]), (2, [[]])]
    -- the list has lost the dead destination
    ∧ m2.len = 2 ∧ m2.arr.take m2.len = [1, 2]
    -- next message: destination 1 sends the old and the new message glued into one datagram
    ∧ sent2 = [(1, [[1, 2, 3]]), (2, [[3]])] := by
  decide

/-- the real loop on the same calls: both healthy destinations get each message, alone -/
theorem real_flush_serves_the_healthy_destinations :
    let m1 := (UdpMulti.step 100 (UdpMulti.init 3) (.write [1, 2])).1
    let (m2, r1) := UdpMulti.step 100 m1 (.flush [.fail, .ok, .ok])
    let m3 := (UdpMulti.step 100 m2 (.write [3])).1
    let (_, r2) := UdpMulti.step 100 m3 (.flush [.fail, .ok, .ok])
    r1.recv = [[], [[1, 2]], [[1, 2]]] ∧ r1.err = .sendError ∧ r2.recv = [[], [[3]], [[3]]] := by
  decide

end Tally.Props.C15Prune
