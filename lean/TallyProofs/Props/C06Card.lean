import Tally.Model.ScopeCard
import TallyProofs.Props.C06
/-!
# C06, clause "… and the names of the library's own cardinality metrics"

Property theorems about `Tally.ScopeCard` (the four `tally.internal.*` gauges a registry pass hands to the
reporter, and their allocation from a cached reporter when the root is created), layered over `Tally.Scope`:

* `stepC_state`: the gauges have no state of their own — every theorem about the state of `Tally.Scope` holds
  for programs run with `stepC` as well;
* `stepC_events`: the events of `stepC` are those of `Scope.step`, preceded by the internal gauges exactly when
  the operation runs a registry pass;
* `cardinality_strings_sanitized` / `root_allocations_sanitized`: name, tag keys and tag values of the four
  gauges are clean for the configured sanitizer — for every sanitizer, every `CardinalityMetricsTags` map
  (including one that overrides `version` / `host` / `instance`), every state;
* `reported_strings_sanitized_with_cardinality`: the end-to-end statement of `Props/C06.lean` for `stepC`;
* `legacy_default_tags_unsanitized`: the pinned code (defaults not mapped through the sanitizer, D15) hands
  `version: 4.1.17` to a reporter whose sanitizer allows only `A`–`Z` and `_`.
-/
namespace Tally.Props.C06Card
open Tally Tally.KeyGen Tally.Sanitize Tally.Scope Tally.ScopeCard Tally.Props.C06

/-- the internal gauges carry no state: the state after `stepC` is the state after `Scope.step` -/
theorem stepC_state (card : Option TagMap) (st : St) (op : Op) : (stepC card st op).1 = (step st op).1 := by
  unfold stepC
  split <;> rfl

/-- the events of `stepC`: those of `step`, with the internal gauges in front when the operation runs a pass -/
theorem stepC_events (card : Option TagMap) (st : St) (op : Op) :
    outEvents (stepC card st op).2 = outEvents (step st op).2 ∨
    outEvents (stepC card st op).2 = internalEvents card st ++ outEvents (step st op).2 := by
  unfold stepC
  split
  · cases h : (step st op).2 with
    | events es => right; simp [addEvents, outEvents, h]
    | scope i es => left; simp [addEvents, h]
    | metric i es => left; simp [addEvents, h]
  · left; rfl

/-- with the metrics omitted `stepC` is `step` up to the (empty) list in front -/
theorem stepC_omitted (st : St) (op : Op) : outEvents (stepC none st op).2 = outEvents (step st op).2 := by
  rcases stepC_events none st op with h | h
  · exact h
  · simpa [internalEvents] using h

section
variable {PN PK PV : Bytes → Prop}

theorem tagsOK_sanPairs {cfg : Cfg} (hsan : SanOK PN PK PV cfg) (m : TagMap) : TagsOK PK PV (sanPairs cfg m) := by
  intro kv hkv
  obtain ⟨x, _, rfl⟩ := List.mem_map.mp hkv
  exact ⟨hsan.key _, hsan.value _⟩

theorem tagsOK_cardTags {cfg : Cfg} (hsan : SanOK PN PK PV cfg) (user : TagMap) :
    TagsOK PK PV (cardTags cfg user) := by
  unfold cardTags
  apply tagsOK_canon
  intro m hm
  simp only [List.mem_cons, List.not_mem_nil, or_false] at hm
  rcases hm with rfl | rfl
  · exact tagsOK_sanPairs hsan _
  · exact tagsOK_sanPairs hsan _

theorem internalEvents_ok {st : St} (hsan : SanOK PN PK PV st.cfg) (user : TagMap) :
    ∀ e ∈ internalEvents (some (cardTags st.cfg user)) st, EventOK PN PK PV e := by
  intro e he n t hnt
  have ht := tagsOK_cardTags hsan user
  simp only [internalEvents] at he
  split at he
  · cases he
  · simp only [List.mem_cons, List.not_mem_nil, or_false] at he
    rcases he with rfl | rfl | rfl | rfl <;>
      (simp only [eventNameTags, Option.some.injEq, Prod.mk.injEq] at hnt
       obtain ⟨rfl, rfl⟩ := hnt
       exact ⟨hsan.name _, ht⟩)

theorem rootAllocs_ok {cfg : Cfg} (hsan : SanOK PN PK PV cfg) (user : TagMap) :
    ∀ e ∈ rootAllocs (some (cardTags cfg user)) cfg, EventOK PN PK PV e := by
  intro e he n t hnt
  have ht := tagsOK_cardTags hsan user
  simp only [rootAllocs] at he
  split at he
  · cases he
  · simp only [List.mem_cons, List.not_mem_nil, or_false] at he
    rcases he with rfl | rfl | rfl | rfl <;>
      (simp only [eventNameTags, Option.some.injEq, Prod.mk.injEq] at hnt
       obtain ⟨rfl, rfl⟩ := hnt
       exact ⟨hsan.name _, ht⟩)
end

/-- **the library's own cardinality gauges are sanitized.**  For every configuration with sanitize options
`sc`, every `CardinalityMetricsTags` map `user` and every state `st` of that configuration: the name of each of
the four gauges is `Clean` for the NAME class, every tag key (the defaults `version`, `host`, `instance` and the
user's) for the KEY class and every tag value for the VALUE class. -/
theorem cardinality_strings_sanitized {st : St} {sc : SanCfg} (hsan : st.cfg.san = some sc) (user : TagMap) :
    ∀ e ∈ internalEvents (some (cardTags st.cfg user)) st, ∀ n t, eventNameTags e = some (n, t) →
      Clean sc.name sc.rep n ∧ ∀ kv ∈ t, Clean sc.key sc.rep kv.1 ∧ Clean sc.value sc.rep kv.2 :=
  fun e he n t hnt => internalEvents_ok (sanOK_clean hsan) user e he n t hnt

/-- the same for the four allocations the registry's constructor makes from a cached reporter -/
theorem root_allocations_sanitized {cfg : Cfg} {sc : SanCfg} (hsan : cfg.san = some sc) (user : TagMap) :
    ∀ e ∈ rootAllocs (some (cardTags cfg user)) cfg, ∀ n t, eventNameTags e = some (n, t) →
      Clean sc.name sc.rep n ∧ ∀ kv ∈ t, Clean sc.key sc.rep kv.1 ∧ Clean sc.value sc.rep kv.2 :=
  fun e he n t hnt => rootAllocs_ok (sanOK_clean hsan) user e he n t hnt

/-- **everything handed to a reporter is sanitized, cardinality metrics included**: `reported_strings_sanitized`
of `Props/C06.lean` for programs run with the cardinality gauges switched on (any `CardinalityMetricsTags`). -/
theorem reported_strings_sanitized_with_cardinality {cfg : Cfg} {sc : SanCfg} (hsan : cfg.san = some sc)
    {pfx sep : Bytes} {tags : TagMap} {st : St} (hr : Reach cfg pfx sep tags st) (user : TagMap) (op : Op) :
    ∀ e ∈ outEvents (stepC (some (cardTags cfg user)) st op).2, ∀ n t, eventNameTags e = some (n, t) →
      Clean sc.name sc.rep n ∧ ∀ kv ∈ t, Clean sc.key sc.rep kv.1 ∧ Clean sc.value sc.rep kv.2 := by
  intro e he n t hnt
  have hcfg : st.cfg = cfg := reach_cfg hr
  rcases stepC_events (some (cardTags cfg user)) st op with h | h
  · rw [h] at he
    exact reported_strings_sanitized hsan hr op e he n t hnt
  · rw [h, List.mem_append] at he
    rcases he with he | he
    · have hsan' : st.cfg.san = some sc := by rw [hcfg]; exact hsan
      rw [← hcfg] at he
      exact cardinality_strings_sanitized hsan' user e he n t hnt
    · exact reported_strings_sanitized hsan hr op e he n t hnt

/-- a program run with `stepC` reaches exactly the states of the same program run with `step` -/
theorem runC_state (card : Option TagMap) (st : St) (ops : List Op) :
    ops.foldl (fun s op => (stepC card s op).1) st = runOps st ops := by
  induction ops generalizing st with
  | nil => rfl
  | cons op ops ih =>
    rw [List.foldl_cons, runOps_cons, stepC_state]
    exact ih _

/-- without a sanitizer the defaults are handed over byte for byte -/
theorem cardTags_noop (cfg : Cfg) (h : cfg.san = none) (user : TagMap) :
    cardTags cfg user = canon [defaultTags, user] := by
  have hp : ∀ m : TagMap, sanPairs cfg m = m := by
    intro m
    unfold sanPairs
    simp only [sanKey, sanValue, h]
    induction m with
    | nil => rfl
    | cons x xs ih => simp [ih]
  unfold cardTags
  rw [hp, hp]

/-! ## the pinned code (D15) and non-vacuity -/
namespace Example
def upper : ValidChars := { ranges := [(65, 90)], chars := [] }
def sc : SanCfg := { name := upper, key := upper, value := upper, rep := 95 }
def cfg : Cfg := { san := some sc, kind := .plain, closable := false, shards := 1, defaultBuckets := none }
def st : St := mkRoot cfg [] [] []

/-- D15: the pinned constructor leaves the default tags alone — `version: 4.1.17` (and `host`, `instance`,
`global`) reach a reporter whose sanitizer allows only `A`–`Z` and the replacement `_` -/
theorem legacy_default_tags_unsanitized :
    (asc "version", asc "4.1.17") ∈ cardTagsLegacy cfg [] ∧
    sanKey cfg (asc "version") ≠ asc "version" ∧ sanValue cfg (asc "4.1.17") ≠ asc "4.1.17" := by
  decide +kernel

/-- the repaired constructor: the same entry arrives as `_______: ______` -/
example : cardTags cfg [] =
    [(asc "____", asc "______"), (asc "_______", asc "______"), (asc "________", asc "______")] := by
  decide +kernel

/-- what the first pass of an empty root hands over: four gauges, `num_active_scopes = 1` -/
example : (internalEvents (some (cardTags cfg [])) st).length = 4 ∧ (cardCounts st).scopes = 1 := by
  decide +kernel

/-- the theorem applies to the report of that root -/
example : ∀ e ∈ outEvents (stepC (some (cardTags cfg [])) st .report).2, ∀ n t, eventNameTags e = some (n, t) →
    Clean upper 95 n ∧ ∀ kv ∈ t, Clean upper 95 kv.1 ∧ Clean upper 95 kv.2 :=
  reported_strings_sanitized_with_cardinality (cfg := cfg) (sc := sc) rfl ⟨[], rfl⟩ [] .report

/-- … and that report does contain the gauges (the pass runs) -/
example : (outEvents (stepC (some (cardTags cfg [])) st .report).2).length = 5 := by decide +kernel

/-- exactness of the count conversion on the values that occur -/
example : natToF64 0 = 0 ∧ natToF64 1 = 0x3FF0000000000000 ∧ natToF64 5 = 0x4014000000000000 ∧
    natToF64 7 = 0x401C000000000000 := by decide +kernel
end Example

end Tally.Props.C06Card
