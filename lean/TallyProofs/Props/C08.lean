import TallyProofs.Lemmas.RootCloseReach
import TallyProofs.Lemmas.RootCloseProgress
/-!
# C08 — the root's `Close` is a barrier: final report, flush, reporter close, then silence

Model: `Tally.RootClose` (any number of cells, of `Close` calls and of recorders, with or without a
report loop, closable reporter or not, any interleaving, and — the registry being Go maps — any visiting
order of the cells, chosen afresh in every pass: the events `Ev.loop c` / `Ev.closer t c` carry the
choice `c`, which is read only at a `pick` pc).  Every theorem is over *every* event list accepted by
the model, hence over every visiting order; no theorem has a hypothesis about the order.  "The winning
call has returned" is `s.closers w = .returned r` (only the call whose CAS succeeded can reach that pc;
calls whose CAS failed wait at `waitWinner` = `<-s.closeDone` until the winning call has returned — repair D17 —
and then end in `returnedNil`).

Order inside the winning call (scope.go, current code): CAS, `close(done)`, `wg.Wait()`, final pass
(`registry.Report` / `CachedReport`, NO flush), `registry.purge()`, then `Flush`, then the reporter's `Close`.
The purge runs before the final flush; what it drops is never a `pre` token, because the final pass has swapped
every cell before (`Tok.clean` at `purgePc`), so the reporter-visible log shape is what it was:
`… deliver …, flush[, reporterClose]` (see `complete_close_purges_before_flush` below).

Scope of the statements (what the model does not say):
* the barrier is for EVERY caller (`every_close_call_is_a_barrier`): since repair D17 a call that loses the CAS
  returns only after the winning call has returned (the former limitation D5b is kept as a run of the old
  behaviour, `legacy_concurrent_close_returns_early`); the price is that a losing call blocks as long as the
  winner does (`no_deadlock`, `loser_can_complete`);
* `close_can_complete` is an existence statement: `Close` now waits for the loop goroutine, hence for a
  reporter call the periodic pass may be blocked in — a reporter that never returns blocks `Close`;
* cells are buffered metrics.  A timer on an old handle is not buffered: `timer.Record` after `Close`
  has returned still calls `ReportTimer` on the (closed) reporter; that call is not part of any pass
  or flush and is outside this model.
-/
namespace Tally.Props.C08
open Tally Tally.RootClose

/-- the call that reached `returned` is the one whose CAS succeeded, and it is the only call that is
neither at its CAS nor waiting for the winner (`<-s.closeDone`) nor returned nil -/
theorem winner_unique (k : Nat) (hl cl : Bool) (er : Option Nat) (es : List Ev) (s : State)
    (hr : run (init k hl cl er) es = some s) (w : Nat) (r : Option Nat) (hret : s.closers w = .returned r) :
    s.winner = some w ∧
      ∀ t, t ≠ w → s.closers t = .start ∨ s.closers t = .returnedNil ∨ s.closers t = .waitWinner := by
  obtain ⟨hc, _⟩ := reachable_inv k hl cl er es s hr
  have hw := hc.winner_of w (by rw [hret]; simp [ph])
  exact ⟨hw, fun t ht => hc.others t (by rw [hw]; simp; exact fun e => ht e.symm)⟩

/-- **C08, barrier.**  In every reachable state in which the winning `Close` has returned:
* every token recorded before Close was called (`pre`) occurs exactly once in the `deliver` entries
  of the log, and no such token was dropped, is left in a cell or is held by a thread;
* the log ends with `flush` followed — iff the reporter is closable — by `reporterClose`, and that is
  the only `reporterClose` in the whole log (none if not closable);
* the loop goroutine has exited (or never existed), and no thread is inside a pass or a flush. -/
theorem close_barrier (k : Nat) (hl cl : Bool) (er : Option Nat) (es : List Ev) (s : State)
    (hr : run (init k hl cl er) es = some s) (w : Nat) (r : Option Nat) (hret : s.closers w = .returned r) :
    (∀ tok ∈ s.issued, tok.pre = true → (delivered s.log).count tok = 1) ∧
    (∀ tok ∈ s.dropped, tok.pre = false) ∧
    (∀ tok ∈ s.cells.flatten, tok.pre = false) ∧
    (s.loop.pend = [] ∧ ∀ t, (s.closers t).pend = []) ∧
    (∃ rest, s.log = if cl then .reporterClose :: .flush :: rest else .flush :: rest) ∧
    countRC s.log = (if cl then 1 else 0) ∧
    s.loop = .exited ∧
    (∀ t, (s.closers t).inPass = false) := by
  obtain ⟨hc, ht⟩ := reachable_inv k hl cl er es s hr
  obtain ⟨_, hcl, _, _⟩ := reachable_params k hl cl er es s hr
  obtain ⟨hw, hoth⟩ := winner_unique k hl cl er es s hr w r hret
  have hw0 : wpc s = .returned r := by rw [wpc_of_winner hw, hret]
  have hex : s.loop = .exited := hc.loopEx (by rw [hw0]; simp [ph])
  have hclean : NoPre s.cells.flatten := by
    have := ht.clean; rw [hw0] at this; exact CleanOn.flatten this
  have hpend : ∀ t, (s.closers t).pend = [] := by
    intro t
    by_cases htw : t = w
    · subst htw; rw [hret]; rfl
    · rcases hoth t htw with h1 | h1 | h1 <;> rw [h1] <;> rfl
  refine ⟨?_, ht.dropNoPre, hclean, ⟨by rw [hex]; rfl, hpend⟩, ?_, ?_, hex, ?_⟩
  · intro tok hmem hpre
    have h1 := ht.cons tok
    rw [hw0, hex] at h1
    have h2 : List.count tok s.cells.flatten = 0 :=
      List.count_eq_zero_of_not_mem (fun hm => by have := hclean tok hm; rw [hpre] at this; cases this)
    have h3 : List.count tok s.dropped = 0 :=
      List.count_eq_zero_of_not_mem (fun hm => by have := ht.dropNoPre tok hm; rw [hpre] at this; cases this)
    have h4 : List.count tok s.issued = 1 := by rw [ht.nodup.count]; simp [hmem]
    simp only [LoopPc.pend, CPc.pend, List.count_nil] at h1
    omega
  · have := ht.tail7 (by rw [hw0]; simp [ph])
    rw [hcl] at this
    exact endsRight_spec cl s.log this
  · have := ht.rc
    rw [hw0, hcl] at this
    rw [this]; simp [ph]
  · intro t
    by_cases htw : t = w
    · subst htw; rw [hret]; rfl
    · rcases hoth t htw with h1 | h1 | h1 <;> rw [h1] <;> rfl

/-- in every reachable state, Close or not, no token at all reaches the reporter twice -/
theorem delivered_at_most_once (k : Nat) (hl cl : Bool) (er : Option Nat) (es : List Ev) (s : State)
    (hr : run (init k hl cl er) es = some s) (tok : Token) : (delivered s.log).count tok ≤ 1 := by
  obtain ⟨_, ht⟩ := reachable_inv k hl cl er es s hr
  have h1 := ht.cons tok
  have h2 := List.nodup_iff_count.mp ht.nodup tok
  omega

/-- **C08, every call is a barrier (repair D17).**  In every reachable state, for EVERY `Close` call `t` that has
returned — the winning call (`returned r`) or a call that lost the CAS (`returnedNil`) — the whole conclusion of
`close_barrier` holds: a losing call returns only after `closeDone` was closed (`Ctl.nil_cd`), and `closeDone` is
closed only by the winning call as it returns (`Ctl.cd_iff`). -/
theorem every_close_call_is_a_barrier (k : Nat) (hl cl : Bool) (er : Option Nat) (es : List Ev) (s : State)
    (hr : run (init k hl cl er) es = some s) (t : Nat)
    (hret : (∃ r, s.closers t = .returned r) ∨ s.closers t = .returnedNil) :
    (∀ tok ∈ s.issued, tok.pre = true → (delivered s.log).count tok = 1) ∧
    (∀ tok ∈ s.dropped, tok.pre = false) ∧
    (∀ tok ∈ s.cells.flatten, tok.pre = false) ∧
    (s.loop.pend = [] ∧ ∀ t, (s.closers t).pend = []) ∧
    (∃ rest, s.log = if cl then .reporterClose :: .flush :: rest else .flush :: rest) ∧
    countRC s.log = (if cl then 1 else 0) ∧
    s.loop = .exited ∧
    (∀ t, (s.closers t).inPass = false) := by
  rcases hret with ⟨r, hret⟩ | hnil
  · exact close_barrier k hl cl er es s hr t r hret
  · -- a call that lost the CAS: `closeDone` is closed, hence the winning call has returned
    have hc := (reachable_inv k hl cl er es s hr).1
    have hcd := hc.nil_cd t hnil
    rw [hc.cd_iff] at hcd
    have h7 : 7 ≤ ph (wpc s) := by simpa using hcd
    cases hw : s.winner with
    | none => rw [wpc, hw] at h7; simp [ph] at h7
    | some w =>
      rw [wpc_of_winner hw] at h7
      cases hp : s.closers w with
      | returned r => exact close_barrier k hl cl er es s hr w r hp
      | _ => rw [hp] at h7; simp [ph] at h7

/-- the two facts behind it: `closeDone` is closed iff the winning call has returned, and a call that lost the CAS
has returned only if `closeDone` is closed — so "some call has returned" implies "the winning call has returned" -/
theorem loser_returns_after_winner (k : Nat) (hl cl : Bool) (er : Option Nat) (es : List Ev) (s : State)
    (hr : run (init k hl cl er) es = some s) :
    (s.closeDone = true ↔ ∃ w r, s.winner = some w ∧ s.closers w = .returned r) ∧
    (∀ t, s.closers t = .returnedNil → s.closeDone = true) ∧
    (∀ t r, (t, r) ∈ s.returns → ∃ w r', s.winner = some w ∧ s.closers w = .returned r') := by
  have hc := (reachable_inv k hl cl er es s hr).1
  have hiff : s.closeDone = true ↔ ∃ w r, s.winner = some w ∧ s.closers w = .returned r := by
    constructor
    · intro hcd
      rw [hc.cd_iff] at hcd
      have h7 : 7 ≤ ph (wpc s) := by simpa using hcd
      cases hw : s.winner with
      | none => rw [wpc, hw] at h7; simp [ph] at h7
      | some w =>
        rw [wpc_of_winner hw] at h7
        cases hp : s.closers w with
        | returned r => exact ⟨w, r, rfl, hp⟩
        | _ => rw [hp] at h7; simp [ph] at h7
    · rintro ⟨w, r, hw, hp⟩
      rw [hc.cd_iff, wpc_of_winner hw, hp]; simp [ph]
  refine ⟨hiff, hc.nil_cd, ?_⟩
  intro t r hm
  rcases hc.rets t r hm with h1 | ⟨h1, _⟩
  · exact ⟨t, r, hc.winner_of t (by rw [h1]; simp [ph]), h1⟩
  · exact hiff.mp (hc.nil_cd t h1)

/-! ## silence after Close -/

/-- **C08, silence.**  Once the winning `Close` has returned, no further event of any thread appends to
the log: no report pass or flush is running or will ever start, the reporter is not touched again,
the loop goroutine stays ended, and recording on old handles changes nothing the reporter sees. -/
theorem silent_after_close (k : Nat) (hl cl : Bool) (er : Option Nat) (es : List Ev) (s : State)
    (hr : run (init k hl cl er) es = some s) (w : Nat) (r : Option Nat) (hret : s.closers w = .returned r)
    (es' : List Ev) (s' : State) (hr' : run s es' = some s') :
    s'.log = s.log ∧ s'.closers w = .returned r ∧ s'.loop = .exited ∧
    (∀ t, (s'.closers t).inPass = false) := by
  have hc := (reachable_inv k hl cl er es s hr).1
  have key : ∀ (es' : List Ev) (s : State), Ctl s → s.closers w = .returned r → run s es' = some s' →
      s'.log = s.log ∧ s'.closers w = .returned r := by
    intro es'
    induction es' with
    | nil => intro s _ hret hr'; simp only [run, Option.some.injEq] at hr'; subst hr'; exact ⟨rfl, hret⟩
    | cons e es' ih =>
      intro s hc hret hr'
      simp only [run] at hr'
      split at hr'
      · cases hr'
      · next s1 h1 =>
        obtain ⟨a, b, _, _⟩ := silent_step s s1 e hc w r hret h1
        obtain ⟨a', b'⟩ := ih s1 (ctl_step s s1 e hc h1) b hr'
        exact ⟨a'.trans a, b'⟩
  obtain ⟨hlog, hret'⟩ := key es' s hc hret hr'
  have hreach := run_append _ s s' es es' hr hr'
  obtain ⟨_, _, _, _, _, _, hex, hpass⟩ := close_barrier k hl cl er (es ++ es') s' hreach w r hret'
  exact ⟨hlog, hret', hex, hpass⟩

/-! ## idempotence -/

/-- the CAS of `Close` never blocks (the choice is irrelevant there) -/
theorem cas_enabled (s : State) (t : Nat) (hpc : s.closers t = .start) (c : Nat) :
    (step s (.closer t c)).isSome = true := by
  simp only [step, hpc]; split <;> rfl

/-- a `Close` call whose CAS fails (the flag is already set) touches nothing — not the log, not the `done`
channel, not the cells, not the loop, not any other call — and does NOT return yet: it goes on to `<-s.closeDone`
(repair D17; before, it returned nil at once) -/
theorem close_idempotent_step (s s' : State) (t : Nat) (hclosed : s.closed = true) (hpc : s.closers t = .start)
    (c : Nat) (hs : step s (.closer t c) = some s') :
    s'.closers t = .waitWinner ∧ s'.returns = s.returns ∧
    s'.log = s.log ∧ s'.doneClosed = s.doneClosed ∧ s'.closed = s.closed ∧ s'.purged = s.purged ∧
    s'.cells = s.cells ∧ s'.dropped = s.dropped ∧ s'.issued = s.issued ∧ s'.loop = s.loop ∧
    s'.winner = s.winner ∧ s'.closeDone = s.closeDone ∧ (∀ u, u ≠ t → s'.closers u = s.closers u) := by
  simp only [step, hpc, hclosed, if_true, Option.some.injEq] at hs; subst hs
  refine ⟨by simp [setC], rfl, rfl, rfl, rfl, rfl, rfl, rfl, rfl, rfl, rfl, rfl, ?_⟩
  intro u hu; simp [setC, hu]

/-- a call at `<-s.closeDone` can move iff the channel is closed (any choice) … -/
theorem wait_enabled_iff (s : State) (t : Nat) (hpc : s.closers t = .waitWinner) (c : Nat) :
    (step s (.closer t c)).isSome = s.closeDone := by
  simp only [step, hpc]; cases s.closeDone <;> rfl

/-- … and its step is the return of nil: recorded in `returns`, nothing else is touched -/
theorem wait_return_step (s s' : State) (t : Nat) (hpc : s.closers t = .waitWinner)
    (c : Nat) (hs : step s (.closer t c) = some s') :
    s.closeDone = true ∧ s'.closers t = .returnedNil ∧ s'.returns = (t, none) :: s.returns ∧
    s'.log = s.log ∧ s'.doneClosed = s.doneClosed ∧ s'.closed = s.closed ∧ s'.purged = s.purged ∧
    s'.cells = s.cells ∧ s'.dropped = s.dropped ∧ s'.issued = s.issued ∧ s'.loop = s.loop ∧
    s'.winner = s.winner ∧ s'.closeDone = s.closeDone ∧ (∀ u, u ≠ t → s'.closers u = s.closers u) := by
  simp only [step, hpc] at hs
  split at hs
  · next hcd =>
    simp only [Option.some.injEq] at hs; subst hs
    refine ⟨hcd, by simp [setC], rfl, rfl, rfl, rfl, rfl, rfl, rfl, rfl, rfl, rfl, rfl, ?_⟩
    intro u hu; simp [setC, hu]
  · cases hs

/-- **C08, idempotence.**  In every reachable state in which the flag is set a further `Close` call is enabled,
delivers nothing and touches nothing; it then waits for the winning call (`waitWinner`). -/
theorem close_idempotent (k : Nat) (hl cl : Bool) (er : Option Nat) (es : List Ev) (s : State)
    (_hr : run (init k hl cl er) es = some s) (t : Nat) (hclosed : s.closed = true) (hpc : s.closers t = .start)
    (c : Nat) :
    ∃ s', step s (.closer t c) = some s' ∧ s'.closers t = .waitWinner ∧ s'.log = s.log ∧
      s'.doneClosed = s.doneClosed ∧ s'.cells = s.cells ∧ s'.dropped = s.dropped ∧ s'.loop = s.loop := by
  have hen := cas_enabled s t hpc c
  cases hs : step s (.closer t c) with
  | none => rw [hs] at hen; cases hen
  | some s' =>
    obtain ⟨a, _, b, c', _, _, d, e, _, f, _, _, _⟩ := close_idempotent_step s s' t hclosed hpc c hs
    exact ⟨s', rfl, a, b, c', d, e, f⟩

/-- a second call after the first returned: its CAS fails, `closeDone` is closed already, so its two steps are
enabled one after the other; it returns nil, the log is what it was and the first caller's result stays -/
theorem second_close_returns_nil (k : Nat) (hl cl : Bool) (er : Option Nat) (es : List Ev) (s : State)
    (hr : run (init k hl cl er) es = some s) (w : Nat) (r : Option Nat) (hret : s.closers w = .returned r)
    (t : Nat) (hpc : s.closers t = .start) (c c' : Nat) :
    ∃ s', run s [.closer t c, .closer t c'] = some s' ∧ s'.closers t = .returnedNil ∧ s'.log = s.log ∧
      s'.closers w = .returned r := by
  have hc := (reachable_inv k hl cl er es s hr).1
  have hw := hc.winner_of w (by rw [hret]; simp [ph])
  have hclosed : s.closed = true := by rw [hc.closed_iff, hw]; rfl
  have hcd : s.closeDone = true := by rw [hc.cd_iff, wpc_of_winner hw, hret]; simp [ph]
  obtain ⟨s1, hs1, a1, b1, _⟩ := close_idempotent k hl cl er es s hr t hclosed hpc c
  have hcd1 : s1.closeDone = true := by
    obtain ⟨_, _, _, _, _, _, _, _, _, _, _, h12, _⟩ := close_idempotent_step s s1 t hclosed hpc c hs1
    rw [h12]; exact hcd
  have hret1 : s1.closers w = .returned r := (silent_step s s1 _ hc w r hret hs1).2.1
  have hen : (step s1 (.closer t c')).isSome = true := by rw [wait_enabled_iff s1 t a1 c']; exact hcd1
  cases hs2 : step s1 (.closer t c') with
  | none => rw [hs2] at hen; cases hen
  | some s2 =>
    obtain ⟨_, a2, _, b2, _⟩ := wait_return_step s1 s2 t a1 c' hs2
    refine ⟨s2, by simp [run, hs1, hs2], a2, b2.trans b1, ?_⟩
    exact (silent_step s1 s2 _ (ctl_step s s1 _ hc hs1) w r hret1 hs2).2.1

/-- every call other than the winner that has returned, returned nil -/
theorem losers_return_nil (k : Nat) (hl cl : Bool) (er : Option Nat) (es : List Ev) (s : State)
    (hr : run (init k hl cl er) es = some s) (t : Nat) (r : Option Nat) (hm : (t, r) ∈ s.returns)
    (hne : s.winner ≠ some t) : r = none ∧ s.closers t = .returnedNil := by
  have hc := (reachable_inv k hl cl er es s hr).1
  rcases hc.rets t r hm with h1 | ⟨h1, h2⟩
  · rcases hc.others t hne with h3 | h3 | h3 <;> rw [h3] at h1 <;> cases h1
  · exact ⟨h2, h1⟩

/-- `close(done)` is executed at most once (a second `close` of a Go channel would panic): whenever a
call is about to close the channel, the channel is still open -/
theorem done_closed_once (k : Nat) (hl cl : Bool) (er : Option Nat) (es : List Ev) (s : State)
    (hr : run (init k hl cl er) es = some s) (t : Nat) (hpc : s.closers t = .won) : s.doneClosed = false := by
  have hc := (reachable_inv k hl cl er es s hr).1
  have hw := hc.winner_of t (by rw [hpc]; simp [ph])
  have := hc.done_iff
  rw [wpc_of_winner hw, hpc] at this
  simpa [ph] using this

/-! ## the reporter's error -/

/-- **C08, result.**  The winning call returns exactly what the reporter's `Close` returned (`er`), and
nil when the reporter is not an `io.Closer`; it is recorded once in `returns`. -/
theorem reporter_error_returned (k : Nat) (hl cl : Bool) (er : Option Nat) (es : List Ev) (s : State)
    (hr : run (init k hl cl er) es = some s) (w : Nat) (r : Option Nat) (hret : s.closers w = .returned r) :
    r = if cl then er else none := by
  have hc := (reachable_inv k hl cl er es s hr).1
  obtain ⟨_, hcl, herr, _⟩ := reachable_params k hl cl er es s hr
  have := hc.result w r hret
  rw [hcl, herr] at this; exact this

/-- the step that produces the result is the reporter-close step itself -/
theorem reporter_close_step (s s' : State) (t : Nat) (hpc : s.closers t = .reporterClose)
    (c : Nat) (hs : step s (.closer t c) = some s') :
    (s.closable = true → s'.log = .reporterClose :: s.log ∧ s'.closers t = .returned s.err) ∧
    (s.closable = false → s'.log = s.log ∧ s'.closers t = .returned none) := by
  simp only [step, hpc] at hs
  split at hs <;> (simp only [Option.some.injEq] at hs; subst hs)
  · next hcl => simp [hcl, setC]
  · next hcl => simp [hcl, setC]

/-! ## scopes obtained after Close -/

/-- once the flag is set `Subscope` hands out the inert no-op scope and changes nothing else -/
theorem scopes_after_close_inert (s s' : State) (c : Nat) (hclosed : s.closed = true)
    (hs : step s (.obtain c) = some s') :
    s'.handed = none :: s.handed ∧ s'.log = s.log ∧ s'.cells = s.cells ∧ s'.closers = s.closers ∧
    s'.loop = s.loop := by
  simp only [step, hclosed, if_true, Option.some.injEq] at hs; subst hs
  exact ⟨rfl, rfl, rfl, rfl, rfl⟩

/-! ## no deadlock -/

/-- a call at `<-s.closeDone`: either the channel is closed and its step is enabled, or the winning call is still
inside `Close` -/
theorem waiting_call_or_winner_moves (s : State) (hc : Ctl s) (t : Nat) (hp : s.closers t = .waitWinner) :
    (∀ c, (step s (.closer t c)).isSome = true) ∨
    (s.closeDone = false ∧ ∃ w, s.winner = some w ∧ (s.closers w).midCall = true) := by
  cases hcd : s.closeDone with
  | true => left; intro c; rw [wait_enabled_iff s t hp c]; exact hcd
  | false =>
    right
    refine ⟨rfl, ?_⟩
    have hclosed := hc.waitW t hp
    rw [hc.closed_iff] at hclosed
    cases hw : s.winner with
    | none => rw [hw] at hclosed; cases hclosed
    | some w =>
      refine ⟨w, rfl, ?_⟩
      have h1 := hc.wne w hw
      have h7 := hc.cd_iff
      rw [hcd, wpc_of_winner hw] at h7
      have h7' : ph (s.closers w) < 7 := by
        apply Classical.byContradiction; intro hn
        rw [decide_eq_true (by omega : 7 ≤ ph (s.closers w))] at h7; cases h7
      cases hpw : s.closers w <;> rw [hpw] at h1 h7' <;> simp [ph, CPc.midCall] at h1 h7' ⊢

/-- **C08, no deadlock.**  In every reachable state:
* a call at its CAS can always take it;
* a call inside `Close` can take its next step (inside the range loops of its final pass: with a
  suitable choice — any unvisited cell, or "the loops are over" when all are visited, see
  `visiting_order_arbitrary`), except the winner at `wg.Wait()` while the loop goroutine is still
  alive — and then the loop goroutine has an enabled step (`done` is closed, so the `select` can take
  that case as soon as the loop is back there; inside a pass it can always go on);
* the loop goroutine, while alive, always has an enabled step;
* (repair D17) a call that lost the CAS and waits at `<-s.closeDone` can take its step (return nil) as soon as the
  winning call has returned; until then it is blocked — and then the winning call is inside `Close`, so it (or, at
  its wait, the loop goroutine) has an enabled step by the second clause.  See `loser_can_complete`. -/
theorem no_deadlock (k : Nat) (hl cl : Bool) (er : Option Nat) (es : List Ev) (s : State)
    (hr : run (init k hl cl er) es = some s) :
    (∀ t, s.closers t = .start → ∀ c, (step s (.closer t c)).isSome = true) ∧
    (∀ t, (s.closers t).midCall = true →
      (∃ c, (step s (.closer t c)).isSome = true) ∨
      (s.closers t = .doneClosedPc ∧ s.loop ≠ .exited ∧ s.doneClosed = true ∧
        ((step s .exit).isSome = true ∨ ∃ c, (step s (.loop c)).isSome = true))) ∧
    (s.loop ≠ .exited → (step s .tick).isSome = true ∨ ∃ c, (step s (.loop c)).isSome = true) ∧
    (∀ t, s.closers t = .waitWinner →
      (∀ c, (step s (.closer t c)).isSome = true) ∨
      (s.closeDone = false ∧ ∃ w, s.winner = some w ∧ (s.closers w).midCall = true)) := by
  have hc := (reachable_inv k hl cl er es s hr).1
  have hpassL : ∀ p, s.loop = .pass p → ∃ c, (step s (.loop c)).isSome = true := by
    intro p hlp
    obtain ⟨c, s1, oq, hq⟩ := passStep_enabled s p
    refine ⟨c, ?_⟩
    simp only [step, hlp, hq]; cases oq <;> rfl
  have hloop : s.loop ≠ .exited → (step s .tick).isSome = true ∨ ∃ c, (step s (.loop c)).isSome = true := by
    intro hne
    cases hlp : s.loop with
    | exited => exact absurd hlp hne
    | waiting => left; simp [step, hlp]
    | ticked => right; refine ⟨0, ?_⟩; simp only [step, hlp]; split <;> rfl
    | pass p => right; exact hpassL p hlp
  refine ⟨fun t hpc c => cas_enabled s t hpc c, ?_, hloop, fun t hp => waiting_call_or_winner_moves s hc t hp⟩
  intro t hmid
  cases hp : s.closers t with
  | start => rw [hp] at hmid; simp [CPc.midCall] at hmid
  | waitWinner => rw [hp] at hmid; simp [CPc.midCall] at hmid
  | returned r => rw [hp] at hmid; simp [CPc.midCall] at hmid
  | returnedNil => rw [hp] at hmid; simp [CPc.midCall] at hmid
  | won => left; exact ⟨0, by simp [step, hp]⟩
  | purgePc => left; exact ⟨0, by simp [step, hp]⟩
  | flushPc => left; exact ⟨0, by simp [step, hp]⟩
  | reporterClose => left; refine ⟨0, ?_⟩; simp only [step, hp]; split <;> rfl
  | pass p =>
    left
    obtain ⟨c, s1, oq, hq⟩ := passStep_enabled s p
    refine ⟨c, ?_⟩
    simp only [step, hp, hq]; cases oq <;> rfl
  | doneClosedPc =>
    by_cases hex : s.loop = .exited
    · left; exact ⟨0, by simp [step, hp, hex]⟩
    · right
      have hw := hc.winner_of t (by rw [hp]; simp [ph])
      have hdone : s.doneClosed = true := by
        have := hc.done_iff; rw [wpc_of_winner hw, hp] at this; simpa [ph] using this
      refine ⟨rfl, hex, hdone, ?_⟩
      cases hlp : s.loop with
      | exited => exact absurd hlp hex
      | waiting => left; simp [step, hlp, hdone]
      | ticked => right; refine ⟨0, ?_⟩; simp only [step, hlp]; split <;> rfl
      | pass p => right; exact hpassL p hlp

/-- **every visiting order is possible, and nothing else.**  Inside the range loops (`pick vis`) a pass
may visit next *any* cell it has not visited yet; it cannot visit a cell twice; and it can leave the
loops (any choice `≥ K`) exactly when every cell has been visited.  (`passStep` is the step of whichever
thread runs the pass: see `loop_enabled_iff` / `closer_enabled_iff`.) -/
theorem visiting_order_arbitrary (s : State) (vis : List Nat) (c : Nat) :
    (c < s.cells.length → c ∉ vis → (passStep s c (.pick vis)).isSome = true) ∧
    (c < s.cells.length → c ∈ vis → passStep s c (.pick vis) = none) ∧
    (s.cells.length ≤ c → ((passStep s c (.pick vis)).isSome = true ↔ ∀ j, j < s.cells.length → j ∈ vis)) := by
  refine ⟨?_, ?_, ?_⟩
  · intro hc hv
    obtain ⟨s1, q, h⟩ := passStep_pick_cell s vis c hc hv
    rw [h]; rfl
  · intro hc hv
    simp only [passStep, hc, hv, if_true]
  · intro hc
    constructor
    · intro h
      cases hq : passStep s c (.pick vis) with
      | none => rw [hq] at h; cases h
      | some r =>
        obtain ⟨s1, oq⟩ := r
        cases passStep_rel hq with
        | take vis x r hc' _ _ => omega
        | skip vis hc' _ _ => omega
        | over vis _ hall => exact hall
    · intro hall
      rw [passStep_pick_over s vis c hc hall]; rfl

/-- the loop inside a pass is enabled with choice `c` iff the pass step is -/
theorem loop_enabled_iff (s : State) (p : PassPc) (hl : s.loop = .pass p) (c : Nat) :
    (step s (.loop c)).isSome = (passStep s c p).isSome := by
  simp only [step, hl]
  cases passStep s c p with
  | none => rfl
  | some r => obtain ⟨s1, oq⟩ := r; cases oq <;> rfl

/-- a `Close` call inside its final pass is enabled with choice `c` iff the pass step is -/
theorem closer_enabled_iff (s : State) (t : Nat) (p : PassPc) (hpc : s.closers t = .pass p) (c : Nat) :
    (step s (.closer t c)).isSome = (passStep s c p).isSome := by
  simp only [step, hpc]
  cases passStep s c p with
  | none => rfl
  | some r => obtain ⟨s1, oq⟩ := r; cases oq <;> rfl

/-- outside the range loops the choice carried by the event is irrelevant -/
theorem choice_irrelevant_outside_pick (s : State) (c c' : Nat) :
    ((∀ vis, s.loop ≠ .pass (.pick vis)) → step s (.loop c) = step s (.loop c')) ∧
    (∀ t, (∀ vis, s.closers t ≠ .pass (.pick vis)) → step s (.closer t c) = step s (.closer t c')) := by
  constructor
  · intro h
    cases hl : s.loop with
    | pass p =>
      have : passStep s c p = passStep s c' p :=
        passStep_choice_irrelevant s p (fun vis e => h vis (by rw [hl, e])) c c'
      simp only [step, hl, this]
    | _ => simp only [step, hl]
  · intro t h
    cases hp : s.closers t with
    | pass p =>
      have : passStep s c p = passStep s c' p :=
        passStep_choice_irrelevant s p (fun vis e => h vis (by rw [hp, e])) c c'
      simp only [step, hp, this]
    | _ => simp only [step, hp]

/-- **C08, Close can always complete.**  From every reachable state in which the winner is inside
`Close` there is a continuation (the winner's own steps, and at its wait the loop's steps up to taking
the `done` case) after which it has returned: no reachable state is a trap for the closing caller. -/
theorem close_can_complete (k : Nat) (hl cl : Bool) (er : Option Nat) (es : List Ev) (s : State)
    (hr : run (init k hl cl er) es = some s) (w : Nat) (hmid : (s.closers w).midCall = true) :
    ∃ es' s' r, run s es' = some s' ∧ s'.closers w = .returned r := by
  obtain ⟨es', s', r, h1, h2, _⟩ :=
    can_complete (variant s w) s (reachable_inv k hl cl er es s hr).1 w hmid (Nat.le_refl _)
  exact ⟨es', s', r, h1, h2⟩

/-- **C08, a waiting call can always complete (repair D17).**  From every reachable state in which a call that
lost the CAS waits at `<-s.closeDone` there is a continuation after which it has returned nil: the winning call
runs to its return (`close_can_complete`; none of those steps is a step of another `Close` call), which closes
`closeDone`, and then the waiting call's step is enabled.  Making the losing calls wait has not introduced a trap. -/
theorem loser_can_complete (k : Nat) (hl cl : Bool) (er : Option Nat) (es : List Ev) (s : State)
    (hr : run (init k hl cl er) es = some s) (t : Nat) (hwait : s.closers t = .waitWinner) :
    ∃ es' s', run s es' = some s' ∧ s'.closers t = .returnedNil := by
  have hc := (reachable_inv k hl cl er es s hr).1
  have fin : ∀ s1 : State, s1.closers t = .waitWinner → s1.closeDone = true →
      ∃ s2, step s1 (.closer t 0) = some s2 ∧ s2.closers t = .returnedNil := by
    intro s1 hp hcd
    have hen : (step s1 (.closer t 0)).isSome = true := by rw [wait_enabled_iff s1 t hp 0]; exact hcd
    cases hs : step s1 (.closer t 0) with
    | none => rw [hs] at hen; cases hen
    | some s2 => exact ⟨s2, rfl, (wait_return_step s1 s2 t hp 0 hs).2.1⟩
  rcases waiting_call_or_winner_moves s hc t hwait with hen | ⟨hcd, w, hw, hmid⟩
  · have hcd : s.closeDone = true := by rw [← wait_enabled_iff s t hwait 0]; exact hen 0
    obtain ⟨s2, hs, hp⟩ := fin s hwait hcd
    exact ⟨[.closer t 0], s2, by simp [run, hs], hp⟩
  · obtain ⟨es', s1, r, hrun, hret, hoth⟩ := can_complete (variant s w) s hc w hmid (Nat.le_refl _)
    have htw : t ≠ w := by
      intro e; subst e; rw [hwait] at hmid; simp [CPc.midCall] at hmid
    have hc1 := ctl_run s s1 es' hc hrun
    have hw1 := hc1.winner_of w (by rw [hret]; simp [ph])
    have hcd1 : s1.closeDone = true := by rw [hc1.cd_iff, wpc_of_winner hw1, hret]; simp [ph]
    obtain ⟨s2, hs, hp⟩ := fin s1 ((hoth t htw).trans hwait) hcd1
    exact ⟨es' ++ [.closer t 0], s2, run_append s s1 s2 es' _ hrun (by simp [run, hs]), hp⟩

/-! ## a root created without an interval -/

/-- **C08, no interval.**  A root created with interval 0 has no loop goroutine: no loop event is ever
enabled, `wg.Wait()` never blocks, and the barrier, silence, idempotence and result theorems hold as
stated (they are quantified over `hasLoop`; instantiated here). -/
theorem close_without_interval (k : Nat) (cl : Bool) (er : Option Nat) (es : List Ev) (s : State)
    (hr : run (init k false cl er) es = some s) :
    -- there is no loop goroutine, ever
    (s.loop = .exited ∧ step s .tick = none ∧ step s .exit = none ∧ ∀ c, step s (.loop c) = none) ∧
    -- the wait never blocks
    (∀ t, s.closers t = .doneClosedPc → ∀ c, (step s (.closer t c)).isSome = true) ∧
    -- barrier, silence and result, as with a loop
    (∀ w r, s.closers w = .returned r →
      (∀ tok ∈ s.issued, tok.pre = true → (delivered s.log).count tok = 1) ∧
      (∀ tok ∈ s.dropped, tok.pre = false) ∧
      (∃ rest, s.log = if cl then .reporterClose :: .flush :: rest else .flush :: rest) ∧
      countRC s.log = (if cl then 1 else 0) ∧
      (∀ t, (s.closers t).inPass = false) ∧
      r = (if cl then er else none) ∧
      (∀ es' s', run s es' = some s' → s'.log = s.log)) := by
  have hc := (reachable_inv k false cl er es s hr).1
  obtain ⟨hhl, _, _, _⟩ := reachable_params k false cl er es s hr
  have hex : s.loop = .exited := hc.noLoop hhl
  refine ⟨⟨hex, by simp [step, hex], by simp [step, hex], fun c => by simp [step, hex]⟩, ?_, ?_⟩
  · intro t hp c; simp [step, hp, hex]
  · intro w r hret
    obtain ⟨a, b, _, _, c, d, _, e⟩ := close_barrier k false cl er es s hr w r hret
    exact ⟨a, b, c, d, e, reporter_error_returned k false cl er es s hr w r hret,
      fun es' s' hr' => (silent_after_close k false cl er es s hr w r hret es' s' hr').1⟩

/-! ## the former limitation (D5b, repaired: D17), the pinned code's defects, and non-vacuity -/

/-- **The former limitation D5b, as a run of the OLD behaviour** (`Legacy.step`: a call that loses the CAS returns
nil at once).  The barrier was for the winning caller only: here call 1 has returned nil while call 0 sits right
after its CAS, the `pre` token is still in its cell and the reporter has seen nothing. -/
theorem legacy_concurrent_close_returns_early :
    (Legacy.run (init 1 false true) [.record 0, .closer 0 0, .closer 1 0]).map (·.view 2) = some
      { cells := [[{ id := 0, cell := 0, pre := true }]], closed := true, doneClosed := false, purged := false,
        loop := .exited, closers := [.won, .returnedNil], log := [], dropped := [], returns := [(1, none)],
        closeDone := false } := by
  decide

/-- the same schedule in the repaired model: call 1 has NOT returned, it waits at `<-s.closeDone`, and its next
step is not enabled (whatever the choice); `every_close_call_is_a_barrier` is the general statement -/
theorem concurrent_close_waits :
    (run (init 1 false true) [.record 0, .closer 0 0, .closer 1 0]).map (·.view 2) = some
      { cells := [[{ id := 0, cell := 0, pre := true }]], closed := true, doneClosed := false, purged := false,
        loop := .exited, closers := [.won, .waitWinner], log := [], dropped := [], returns := [],
        closeDone := false } ∧
    run (init 1 false true) [.record 0, .closer 0 0, .closer 1 0, .closer 1 0] = none := by
  decide

/-- a schedule of the pinned code: a periodic pass is part-way through the registry (past cell 0), a
value is recorded in cell 0 (before Close), Close sets the flag and closes `done`, the periodic pass
reaches its end, finds the root closed and purges; Close's own pass finds nothing.  The `pre` token
ends in `dropped`; the reporter never sees it.  (Both passes happen to visit in the order 0, 1; the
last argument of `loop` / `closer` is the choice, read only at a `pick` pc: a cell, or 2 = "loops over".) -/
def legacyLossSchedule : List Ev :=
  [.tick, .loop 0, .loop 0, .loop 0, .record 0, .closer 0 0, .closer 0 0, .loop 1, .loop 2,
   .closer 0 0, .closer 0 0, .closer 0 0, .closer 0 1, .closer 0 2, .closer 0 0, .closer 0 0]

theorem legacy_close_loses_increments_counterexample :
    (Legacy.run (init 2 true true) legacyLossSchedule).map
        (fun s => (s.closers 0, s.dropped, delivered s.log))
      = some (.returned none, [{ id := 0, cell := 0, pre := true }], []) := by decide

/-- the repaired model rejects that schedule: the closer's step after `close(done)` is the wait, which
is not enabled while the loop is inside its pass -/
example : run (init 2 true true) legacyLossSchedule = none := by decide

/-- a schedule of the pinned code: the periodic pass is blocked inside a slow reporter call holding
what it swapped out; Close runs to completion (final pass, flush, reporter closed, returned). -/
def legacyLateSchedule : List Ev :=
  [.record 0, .tick, .loop 0, .loop 0, .loop 0,
   .closer 0 0, .closer 0 0, .closer 0 0, .closer 0 0, .closer 0 0, .closer 0 1, .closer 0 0, .closer 0 0]

/-- … then the periodic pass goes on: a `deliver` and a `flush` reach the reporter after `Close` has
returned and after the reporter was closed. -/
theorem legacy_report_after_close_counterexample :
    (Legacy.run (init 1 true true) legacyLateSchedule).map (fun s => (s.closers 0, s.log))
      = some (.returned none, [.reporterClose, .flush, .internal, .internal]) ∧
    (Legacy.run (init 1 true true) (legacyLateSchedule ++ [.loop 0, .loop 1, .loop 0])).map (fun s => (s.closers 0, s.log))
      = some (.returned none, [.flush, .deliver [{ id := 0, cell := 0, pre := true }],
          .reporterClose, .flush, .internal, .internal]) := by decide

example : run (init 1 true true) legacyLateSchedule = none := by decide

/-! ### non-vacuity: a run of the repaired model that exercises every clause

Two cells, a loop, a closable reporter whose `Close` returns error 7.  Two values are recorded, a
periodic pass starts and is held inside the reporter call for cell 0 (slow reporter); a third value is
recorded (still before Close); call 0 wins the CAS; a fourth value is recorded (after Close was called);
call 0 closes `done`; call 1 loses the CAS and waits at `<-s.closeDone`; call 0 is blocked in `wg.Wait()`; the pass
finishes (it delivers tokens 0, 1 and the late token 3), the loop takes the `done` case; call 0 runs
its final pass (delivers token 2), purges, flushes, closes the reporter and returns 7 — which closes `closeDone`;
only now call 1 returns nil.
(The last six events of call 0: pick cell 0, deliver, pick cell 1 (empty), "loops over" → `purgePc`, purge →
`flushPc`, flush → `reporterClose`; the 26th event closes the reporter, the 27th is the return of call 1.) -/
def demo : List Ev :=
  [.record 0, .record 1, .tick, .loop 0, .loop 0, .loop 0, .record 0, .closer 0 0, .record 1, .closer 0 0, .closer 1 0,
   .loop 0, .loop 1, .loop 0, .loop 2, .loop 0, .exit,
   .closer 0 0, .closer 0 0,                 -- wait returns, begin
   .closer 0 0, .closer 0 0, .closer 0 1,    -- cell 0: swap, deliver; cell 1: empty
   .closer 0 2,                              -- the range loops are over → about to purge (no flush yet)
   .closer 0 0, .closer 0 0, .closer 0 0,    -- purge, flush, reporter close (and `closeDone` is closed)
   .closer 1 0]                              -- the call that lost the CAS returns nil

/-- the hypotheses of `close_barrier` / `silent_after_close` / `reporter_error_returned` are satisfiable -/
example :
    (run (init 2 true true (some 7)) demo).map (·.view 2) = some
      { cells := [[], []], closed := true, doneClosed := true, purged := true, loop := .exited,
        closers := [.returned (some 7), .returnedNil],
        log := [.reporterClose, .flush, .deliver [{ id := 2, cell := 0, pre := true }], .internal, .flush,
                .deliver [{ id := 3, cell := 1, pre := false }, { id := 1, cell := 1, pre := true }],
                .deliver [{ id := 0, cell := 0, pre := true }], .internal],
        dropped := [], returns := [(1, none), (0, some 7)], closeDone := true } := by decide

/-- in that run call 1 waits from the 11th event on; right before the winner's last step (26 events) it is still
waiting and its step is not enabled; after that step it is -/
example :
    (run (init 2 true true (some 7)) (demo.take 25)).map
        (fun s => (s.closers 0, s.closers 1, s.closeDone, (step s (.closer 1 0)).isSome, s.returns.length))
      = some (.reporterClose, .waitWinner, false, false, 0) ∧
    (run (init 2 true true (some 7)) (demo.take 26)).map
        (fun s => (s.closers 0, s.closers 1, s.closeDone, (step s (.closer 1 0)).isSome, s.returns.length))
      = some (.returned (some 7), .waitWinner, true, true, 1) := by decide

/-- the three `pre` tokens of that run are each delivered once (and the `issued` ghost knows them) -/
example :
    (run (init 2 true true (some 7)) demo).map
        (fun s => (s.issued.filter (·.pre)).map fun tok => (tok.id, (delivered s.log).count tok))
      = some [(2, 1), (1, 1), (0, 1)] := by decide

/-- `no_deadlock`'s blocking case occurs: after the first 11 events the winner waits while the loop is
inside the reporter call; the loop's step is enabled -/
example :
    (run (init 2 true true (some 7)) (demo.take 11)).map
        (fun s => (s.closers 0, (step s (.closer 0 0)).isSome, s.loop, (step s (.loop 0)).isSome, (step s .exit).isSome))
      = some (.doneClosedPc, false, .pass (.deliver 0 [{ id := 0, cell := 0, pre := true }] [0]), true, false) := by
  decide

/-- silence and idempotence after the return: records on old handles, a third `Close` (two steps: the failed CAS,
then the receive from the closed `closeDone`), a `Subscope`;
the log is what it was, the late records are dropped, the late `Close` returned nil, the scope is inert;
and the loop's events are not enabled any more -/
example :
    (run (init 2 true true (some 7)) (demo ++ [.record 0, .closer 2 0, .record 1, .closer 2 0, .obtain 0])).map
        (fun s => (s.log.length, s.closers 2, s.dropped.map (·.pre), s.closers 0))
      = some (8, .returnedNil, [false, false], .returned (some 7)) ∧
    (run (init 2 true true (some 7)) (demo ++ [.record 0, .closer 2 0, .record 1, .closer 2 0, .obtain 0])).map (·.handed)
      = some [none] ∧
    run (init 2 true true (some 7)) (demo ++ [.tick]) = none ∧
    (∀ c, c < 3 → run (init 2 true true (some 7)) (demo ++ [.loop c]) = none) ∧
    (∀ c, c < 3 → run (init 2 true true (some 7)) (demo ++ [.closer 0 c]) = none) := by decide

/-- without an interval, not closable: Close goes straight through (no wait: CAS, close(done), wait, begin,
swap, deliver, loops over, purge, flush, return), the log ends with the flush, there is no reporter close
and the result is nil -/
example :
    (run (init 1 false false (some 7)) [.record 0, .closer 0 0, .closer 0 0, .closer 0 0, .closer 0 0, .closer 0 0,
        .closer 0 0, .closer 0 1, .closer 0 0, .closer 0 0, .closer 0 0]).map (·.view 1) = some
      { cells := [[]], closed := true, doneClosed := true, purged := true, loop := .exited,
        closers := [.returned none],
        log := [.flush, .deliver [{ id := 0, cell := 0, pre := true }], .internal],
        dropped := [], returns := [(0, none)], closeDone := true } := by decide

/-! ### the log of a complete `Close`: final pass, purge, THEN flush, reporter close

One cell, no loop, closable reporter.  A value is recorded before Close; the call wins the CAS, closes `done`,
does not wait (no loop), starts its final pass, swaps cell 0 and delivers; meanwhile a late value is recorded
(not `pre`); the range loops are over (choice 1 = K) and the call purges. -/
def purgeThenFlush : List Ev :=
  [.record 0, .closer 0 0, .closer 0 0, .closer 0 0, .closer 0 0, .closer 0 0, .closer 0 0, .record 0,
   .closer 0 1, .closer 0 0]

/-- after the final pass the closer is about to purge: nothing is purged, nothing flushed, the late token
sits in its cell; after the purge it is about to call `Flush` (`flushPc`): the registry IS purged (the late
token is dropped) and the log still ends with the delivery — the flush has not happened yet; the next step
is the flush, the one after it the reporter's `Close`: the log of the complete `Close` is
`internal, deliver, flush, reporterClose` with the purge before the flush. -/
theorem complete_close_purges_before_flush :
    (run (init 1 false true) (purgeThenFlush.take 9)).map (·.view 1) = some
      { cells := [[{ id := 1, cell := 0, pre := false }]], closed := true, doneClosed := true, purged := false,
        loop := .exited, closers := [.purgePc],
        log := [.deliver [{ id := 0, cell := 0, pre := true }], .internal], dropped := [], returns := [], closeDone := false } ∧
    (run (init 1 false true) purgeThenFlush).map (·.view 1) = some
      { cells := [[]], closed := true, doneClosed := true, purged := true, loop := .exited, closers := [.flushPc],
        log := [.deliver [{ id := 0, cell := 0, pre := true }], .internal],
        dropped := [{ id := 1, cell := 0, pre := false }], returns := [], closeDone := false } ∧
    (run (init 1 false true) (purgeThenFlush ++ [.closer 0 0])).map (·.view 1) = some
      { cells := [[]], closed := true, doneClosed := true, purged := true, loop := .exited, closers := [.reporterClose],
        log := [.flush, .deliver [{ id := 0, cell := 0, pre := true }], .internal],
        dropped := [{ id := 1, cell := 0, pre := false }], returns := [], closeDone := false } ∧
    (run (init 1 false true) (purgeThenFlush ++ [.closer 0 0, .closer 0 0])).map (·.view 1) = some
      { cells := [[]], closed := true, doneClosed := true, purged := true, loop := .exited, closers := [.returned none],
        log := [.reporterClose, .flush, .deliver [{ id := 0, cell := 0, pre := true }], .internal],
        dropped := [{ id := 1, cell := 0, pre := false }], returns := [(0, none)], closeDone := true } := by decide

/-- the same as a plain `example`: with the closer at `flushPc` the registry is purged and the last log entry
is a delivery; one step later the log ends with the flush -/
example :
    (run (init 1 false true) purgeThenFlush).map (fun s => (s.closers 0, s.purged, s.log.head?))
      = some (.flushPc, true, some (.deliver [{ id := 0, cell := 0, pre := true }])) ∧
    (run (init 1 false true) (purgeThenFlush ++ [.closer 0 0])).map (fun s => (s.closers 0, s.purged, s.log.head?))
      = some (.reporterClose, true, some .flush) := by decide

/-- a `Close` call never flushes at the end of its pass: from `pick` with every cell visited its next pc is
`purgePc` and the log is untouched (the loop, at the same point, goes to `pass flush`) -/
theorem closer_pass_end_no_flush (s : State) (t : Nat) (vis : List Nat) (c : Nat)
    (hpc : s.closers t = .pass (.pick vis)) (hc : s.cells.length ≤ c) (hall : ∀ j, j < s.cells.length → j ∈ vis) :
    step s (.closer t c) = some (setC s t .purgePc) := by
  simp only [step, hpc, passStep_pick_over s vis c hc hall, afterPass]

/-- Close called before the first tick, and between two ticks (a complete periodic pass first) -/
example :
    (run (init 1 true true) [.record 0, .closer 0 0, .closer 0 0, .exit, .closer 0 0, .closer 0 0, .closer 0 0, .closer 0 0,
        .closer 0 1, .closer 0 0, .closer 0 0, .closer 0 0]).map (fun s => (s.closers 0, delivered s.log, s.loop))
      = some (.returned none, [{ id := 0, cell := 0, pre := true }], .exited) ∧
    (run (init 1 true true) [.record 0, .tick, .loop 0, .loop 0, .loop 0, .loop 0, .loop 1, .loop 0, .record 0,
        .closer 0 0, .tick, .loop 0, .closer 0 0, .exit, .closer 0 0, .closer 0 0, .closer 0 0, .closer 0 0,
        .closer 0 1, .closer 0 0, .closer 0 0, .closer 0 0]).map (fun s => (s.closers 0, delivered s.log, s.loop))
      = some (.returned none, [{ id := 1, cell := 0, pre := true }, { id := 0, cell := 0, pre := true }], .exited) := by
  decide

/-! ### non-vacuity for an arbitrary visiting order

Three cells, a loop, a closable reporter whose `Close` returns error 7.  The periodic pass visits the
cells in the order 1, 2, 0 (a value is recorded in cell 1 after its visit); two more values are recorded,
call 0 wins the CAS, closes `done`, the loop takes the `done` case; the final pass of `Close` visits in
the order 2, 0, 1 — a different order — and while it is inside the reporter call for cell 2 a value is
recorded in cell 2 (after Close was called: not `pre`; the purge drops it); then purge, flush, reporter
close, return 7. -/
def shuffled : List Ev :=
  [.record 0, .record 1, .record 2, .tick, .loop 0, .loop 0,
   .loop 1, .record 1, .loop 0, .loop 2, .loop 0, .loop 0, .loop 0, .loop 3, .loop 0,
   .record 2, .record 0, .closer 0 0, .closer 0 0, .exit, .closer 0 0, .closer 0 0,
   .closer 0 2, .record 2, .closer 0 0, .closer 0 0, .closer 0 0, .closer 0 1, .closer 0 0,
   .closer 0 3,                              -- the range loops are over → about to purge (no flush yet)
   .closer 0 0, .closer 0 0, .closer 0 0]    -- purge (drops token 6), flush, reporter close

/-- the hypotheses of `close_barrier` are met by a run whose passes visit in the non-index orders
1, 2, 0 and 2, 0, 1; the conclusion can be read off: the six `pre` tokens are delivered once each, the
log ends with flush and reporter close, the late token is dropped -/
example :
    (run (init 3 true true (some 7)) shuffled).map (·.view 1) = some
      { cells := [[], [], []], closed := true, doneClosed := true, purged := true, loop := .exited,
        closers := [.returned (some 7)],
        log := [.reporterClose, .flush,
                .deliver [{ id := 3, cell := 1, pre := true }],
                .deliver [{ id := 5, cell := 0, pre := true }],
                .deliver [{ id := 4, cell := 2, pre := true }], .internal, .flush,
                .deliver [{ id := 0, cell := 0, pre := true }],
                .deliver [{ id := 2, cell := 2, pre := true }],
                .deliver [{ id := 1, cell := 1, pre := true }], .internal],
        dropped := [{ id := 6, cell := 2, pre := false }], returns := [(0, some 7)], closeDone := true } ∧
    (run (init 3 true true (some 7)) shuffled).map
        (fun s => (s.issued.filter (·.pre)).map fun tok => (tok.id, (delivered s.log).count tok))
      = some [(5, 1), (4, 1), (3, 1), (2, 1), (1, 1), (0, 1)] := by decide

/-- inside that final pass, after cell 2 has been visited (`pick [2]`): the pass may go on with cell 0 or
with cell 1, but can neither visit cell 2 again nor leave the range loops yet -/
example :
    (run (init 3 true true (some 7)) (shuffled.take 25)).map
        (fun s => (s.closers 0, (List.range 5).map fun c => (step s (.closer 0 c)).isSome))
      = some (.pass (.pick [2]), [true, true, false, false, false]) := by decide

end Tally.Props.C08
