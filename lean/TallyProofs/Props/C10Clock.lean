import Tally.Model.Clock
import Tally.Model.Instrument
/-!
# C10, clause "a stopwatch … records, when stopped, the time elapsed between Start and Stop" — which clock

`Props/C10.lean` (`stopwatch_elapsed`) proves that a stopwatch records `now t₁ - now t₀` for the abstract clock
`now : Nat → Int` of `Tally.Instrument`.  Here: for a process clock whose instants are what `time.Now()` returns
(every instant carries a monotonic reading) that integer is the monotonic reading — the recorded duration does not
depend on the wall readings at all, so it is the elapsed time even when the wall clock is stepped between `Start`
and `Stop` (`elapsed_ignores_wall_clock`, `stopwatch_records_monotonic_elapsed`).  A stopwatch whose start instant
lost its monotonic reading records the difference of the WALL readings (`legacy_follows_wall_clock`): 5 s of work
during which the wall clock was set back by an hour is recorded as −59 min 55 s.
-/
namespace Tally.Props.C10Clock
open Tally Tally.Clock

/-- both instants from `time.Now()`: the monotonic difference, whatever the wall readings are -/
theorem sub_monotonic (w w' a b : Int) : sub ⟨w, some a⟩ ⟨w', some b⟩ = wrap64 (a - b) := rfl

/-- `wrap64` is the identity on int64 values: the recorded value IS the difference whenever it fits -/
theorem wrap64_exact (d : Int) (h : -two63 ≤ d ∧ d < two63) : wrap64 d = d := by
  unfold wrap64
  simp only [two63, two64] at *
  by_cases hd : 0 ≤ d
  · have : d % 18446744073709551616 = d := Int.emod_eq_of_lt hd (by omega)
    simp only [this]
    split <;> omega
  · have h1 : d % 18446744073709551616 = d + 18446744073709551616 := by
      have := Int.emod_emod_of_dvd d (show (18446744073709551616 : Int) ∣ 18446744073709551616 from Int.dvd_refl _)
      have h2 : (d + 18446744073709551616) % 18446744073709551616 = d + 18446744073709551616 :=
        Int.emod_eq_of_lt (by omega) (by omega)
      rw [← h2, Int.add_emod_right]
    simp only [h1]
    split <;> omega

theorem sub_exact (w w' a b : Int) (h : -two63 ≤ a - b ∧ a - b < two63) :
    sub ⟨w, some a⟩ ⟨w', some b⟩ = a - b := by
  rw [sub_monotonic]; exact wrap64_exact _ h

/-- **the stopwatch ignores the wall clock**: with instants as `time.Now()` returns them, stepping the wall
clock — of the start instant, of the stop instant, or of both, by any amounts — does not change what is recorded -/
theorem elapsed_ignores_wall_clock (start stop : Instant) (hs : start.mono.isSome) (ht : stop.mono.isSome)
    (stepStart stepStop : Int) :
    stopwatchElapsed { start with wall := start.wall + stepStart } { stop with wall := stop.wall + stepStop }
      = stopwatchElapsed start stop := by
  obtain ⟨w, m⟩ := start
  obtain ⟨w', m'⟩ := stop
  cases m <;> cases m' <;> simp_all [stopwatchElapsed, sub]

/-- … and what is recorded is the difference of the monotonic readings (`reading`), i.e. `Tally.Instrument`'s
`now t₁ - now t₀` with `now k := reading (clock k)` -/
theorem stopwatch_records_monotonic_elapsed (clock : Nat → Instant) (h : ∀ k, (clock k).mono.isSome) (t₀ t₁ : Nat) :
    stopwatchElapsed (clock t₀) (clock t₁) = wrap64 (reading (clock t₁) - reading (clock t₀)) := by
  have h0 := h t₀
  have h1 := h t₁
  cases e0 : (clock t₀).mono <;> cases e1 : (clock t₁).mono <;> simp_all [stopwatchElapsed, sub, reading]

/-- the link to `Props/C10.lean`: the duration `Instrument.stop` records for the clock `reading ∘ clock` is the
stopwatch's `Sub` of the two instants -/
theorem instrument_clock_is_monotonic (clock : Nat → Instant) (h : ∀ k, (clock k).mono.isSome)
    (r : Instrument.Recorder) (w₀ w : Instrument.World) :
    Instrument.stop (fun k => reading (clock k)) (Instrument.start (fun k => reading (clock k)) r w₀).1 w
      = Instrument.doOp { w with tick := w.tick + 1 }
          (Instrument.recOp r (stopwatchElapsed (clock w₀.tick) (clock w.tick))) := by
  rw [stopwatch_records_monotonic_elapsed clock h]
  rfl

/-! ## the start instant without its monotonic reading -/

/-- a stopwatch that dropped the start's monotonic reading records the WALL difference -/
theorem legacy_follows_wall_clock (start stop : Instant) :
    Legacy.stopwatchElapsed start stop = wrap64 (stop.wall - start.wall) := by
  obtain ⟨w, m⟩ := start
  obtain ⟨w', m'⟩ := stop
  cases m' <;> rfl

def sec : Int := 1000000000

/-- 5 s of work, the wall clock set back by one hour meanwhile: recorded 5 s — and −3595 s by the legacy stopwatch -/
theorem wall_step_example :
    stopwatchElapsed ⟨1700000000 * sec, some (42 * sec)⟩ ⟨(1700000000 - 3600 + 5) * sec, some (47 * sec)⟩ = 5 * sec ∧
    Legacy.stopwatchElapsed ⟨1700000000 * sec, some (42 * sec)⟩ ⟨(1700000000 - 3600 + 5) * sec, some (47 * sec)⟩
      = -3595 * sec := by decide

/-- without a wall step the two agree (why no ordinary test sees the difference) -/
theorem legacy_agrees_without_step (w a d : Int) :
    Legacy.stopwatchElapsed ⟨w, some a⟩ ⟨w + d, some (a + d)⟩ = stopwatchElapsed ⟨w, some a⟩ ⟨w + d, some (a + d)⟩ := by
  simp only [Legacy.stopwatchElapsed, stopwatchElapsed, sub, stripMono]
  congr 1; omega

end Tally.Props.C10Clock
