import Tally.Model.Buckets
import Tally.Model.BucketCtor
import Tally.Model.BucketCache
import Tally.Spec.C20
import TallyProofs.Lemmas.C20Aux
import TallyProofs.Lemmas.C20Cache
/-!
# C20 — bucket constructors are exact; a histogram keeps the bounds it was given

Property theorems only.  Float arithmetic is an arbitrary `ops : FOps` throughout (opaque
functions on bit patterns); Lean's native `Float` does not occur.  The oracle predicates
`Spec.C20.ctorHolds`, `Spec.C20.callerUnchanged…`, `Spec.C20.boundsKept` are the ones the driver
evaluates on what the implementation did.
-/
namespace Tally.Props.C20
open Tally Tally.Buckets Tally.BucketCtor Tally.BucketCache Tally.C20Aux Tally.C20Cache

/-! ## constructors -/

/-- **LinearValueBuckets**: exactly `n` bounds, element `i` is `start ⊕ (float64(i) ⊗ width)`. -/
theorem linearValue_exact (ops : FOps) (s w : F64) (n : Int) (l : List F64)
    (h : linearValue ops s w n = .ok l) :
    0 < n ∧ (l.length : Int) = n
    ∧ ∀ i : Nat, (i : Int) < n → l.getD i 0 = ops.fadd s (ops.fmul (ops.ofInt (i : Int)) w) := by
  unfold linearValue at h
  split at h
  · cases h
  · next hn =>
    injection h with h; subst h
    refine ⟨by omega, by simp; omega, ?_⟩
    intro i hi
    exact getD_range_map _ _ _ _ (by omega)

/-- **LinearDurationBuckets**: exactly `n` bounds, element `i` is `start + i·width` in wrap-around
int64 arithmetic (and literally `start + i·width` whenever that fits). -/
theorem linearDuration_exact (s w : Int) (n : Int) (l : List Int)
    (h : linearDuration s w n = .ok l) :
    0 < n ∧ (l.length : Int) = n
    ∧ (∀ i : Nat, (i : Int) < n → l.getD i 0 = wrap64 (s + (i : Int) * w))
    ∧ (∀ i : Nat, (i : Int) < n → inInt64 (s + (i : Int) * w) = true → l.getD i 0 = s + (i : Int) * w) := by
  unfold linearDuration at h
  split at h
  · cases h
  · next hn =>
    injection h with h; subst h
    have hel : ∀ i : Nat, (i : Int) < n →
        ((List.range n.toNat).map fun (i : Nat) => wrap64 (s + wrap64 ((i : Int) * w))).getD i 0
          = wrap64 (s + (i : Int) * w) := by
      intro i hi
      rw [getD_range_map _ _ _ _ (by omega), wrap64_add_wrap64]
    refine ⟨by omega, by simp; omega, hel, ?_⟩
    intro i hi hr
    rw [hel i hi, wrap64_of_inRange _ hr]

/-- **ExponentialValueBuckets**: exactly `n` bounds, element 0 is `start`, element `i+1` is
element `i` ⊗ `factor`. -/
theorem exponentialValue_exact (ops : FOps) (s f : F64) (n : Int) (l : List F64)
    (h : exponentialValue ops s f n = .ok l) :
    0 < n ∧ (l.length : Int) = n ∧ l.getD 0 0 = s
    ∧ ∀ i : Nat, (i : Int) + 1 < n → l.getD (i + 1) 0 = ops.fmul (l.getD i 0) f := by
  unfold exponentialValue at h
  split at h
  · cases h
  · next hn =>
    split at h
    · cases h
    · split at h
      · cases h
      · injection h with h; subst h
        refine ⟨by omega, by rw [length_iter]; omega, getD_iter_zero _ _ _ _ (by omega), ?_⟩
        intro i hi
        exact getD_iter_succ _ _ _ _ _ (by omega)

/-- **ExponentialDurationBuckets**: exactly `n` bounds, element 0 is `start`, element `i+1` is
`time.Duration(float64(element i) ⊗ factor)`. -/
theorem exponentialDuration_exact (ops : FOps) (s : Int) (f : F64) (n : Int) (l : List Int)
    (h : exponentialDuration ops s f n = .ok l) :
    0 < n ∧ (l.length : Int) = n ∧ l.getD 0 0 = s
    ∧ ∀ i : Nat, (i : Int) + 1 < n →
        l.getD (i + 1) 0 = ops.toInt (ops.fmul (ops.ofInt (l.getD i 0)) f) := by
  unfold exponentialDuration at h
  split at h
  · cases h
  · next hn =>
    split at h
    · cases h
    · split at h
      · cases h
      · injection h with h; subst h
        refine ⟨by omega, by rw [length_iter]; omega, getD_iter_zero _ _ _ _ (by omega), ?_⟩
        intro i hi
        exact getD_iter_succ _ _ _ _ _ (by omega)

/-- **constructor_length_and_recurrence**: whenever a constructor succeeds, the oracle's recurrence
clause holds for what it returned: exactly `n > 0` bounds, each following the code's expression
over the (opaque) float operations.  The explicit element-wise forms are `linearValue_exact`,
`linearDuration_exact`, `exponentialValue_exact`, `exponentialDuration_exact`. -/
theorem constructor_length_and_recurrence (ops : FOps) (c : Call) (b : Bounds)
    (h : run ops c = .ok b) :
    0 < Spec.C20.countOf c ∧ Spec.C20.recurrence ops c b = true := by
  cases c with
  | linV s w n =>
    simp only [run, linearValue] at h
    split at h
    · cases h
    · next hn =>
      simp only [Except.map] at h; injection h with h; subst h
      refine ⟨by simp [Spec.C20.countOf]; omega, ?_⟩
      simp only [Spec.C20.recurrence, Spec.C20.indexed, List.length_map, List.length_range,
        Bool.and_eq_true, decide_eq_true_eq, List.all_eq_true, List.mem_range]
      refine ⟨by omega, ?_⟩
      intro i hi
      rw [getD_range_map _ _ _ _ hi]; exact same_refl _
  | linD s w n =>
    simp only [run, linearDuration] at h
    split at h
    · cases h
    · next hn =>
      simp only [Except.map] at h; injection h with h; subst h
      refine ⟨by simp [Spec.C20.countOf]; omega, ?_⟩
      simp only [Spec.C20.recurrence, Spec.C20.indexed, List.length_map, List.length_range,
        Bool.and_eq_true, decide_eq_true_eq, List.all_eq_true, List.mem_range]
      refine ⟨by omega, ?_⟩
      intro i hi
      rw [getD_range_map _ _ _ _ hi]; simp
  | expV s f n =>
    simp only [run, exponentialValue] at h
    split at h
    · cases h
    · next hn =>
      split at h
      · cases h
      · split at h
        · cases h
        · simp only [Except.map] at h; injection h with h; subst h
          refine ⟨by simp [Spec.C20.countOf]; omega, ?_⟩
          simp only [Spec.C20.recurrence, length_iter, Bool.and_eq_true, decide_eq_true_eq]
          refine ⟨⟨by omega, ?_⟩, chain_iter _ same_refl _ _ _⟩
          rw [head?_iter _ _ _ (by omega)]; exact same_refl _
  | expD s f n =>
    simp only [run, exponentialDuration] at h
    split at h
    · cases h
    · next hn =>
      split at h
      · cases h
      · split at h
        · cases h
        · simp only [Except.map] at h; injection h with h; subst h
          refine ⟨by simp [Spec.C20.countOf]; omega, ?_⟩
          simp only [Spec.C20.recurrence, length_iter, Bool.and_eq_true, decide_eq_true_eq]
          refine ⟨⟨by omega, ?_⟩, chain_iter _ (by simp) _ _ _⟩
          rw [head?_iter _ _ _ (by omega)]; simp

/-- **constructor_errors**: a constructor returns error `e` exactly when the oracle's guard
function — `n <= 0`, then `start <= 0`, then `factor <= 1`, IEEE comparisons on bit patterns, so a
NaN start or factor passes — names `e`. -/
theorem constructor_errors (ops : FOps) (c : Call) (e : CtorErr) :
    run ops c = .error e ↔ Spec.C20.guardErr c = some e := by
  cases c with
  | linV s w n =>
    simp only [run, linearValue, Spec.C20.guardErr]
    by_cases h1 : n ≤ 0 <;> simp [h1, Except.map]
  | linD s w n =>
    simp only [run, linearDuration, Spec.C20.guardErr]
    by_cases h1 : n ≤ 0 <;> simp [h1, Except.map]
  | expV s f n =>
    simp only [run, exponentialValue, Spec.C20.guardErr, F64.zero, F64.one]
    by_cases h1 : n ≤ 0
    · simp [h1, Except.map]
    · by_cases h2 : F64.le s 0 = true
      · simp [h1, h2, Except.map]
      · by_cases h3 : F64.le f 0x3FF0000000000000 = true <;> simp [h1, h2, h3, Except.map]
  | expD s f n =>
    simp only [run, exponentialDuration, Spec.C20.guardErr, F64.one]
    by_cases h1 : n ≤ 0
    · simp [h1, Except.map]
    · by_cases h2 : s ≤ 0
      · simp [h1, h2, Except.map]
      · by_cases h3 : F64.le f 0x3FF0000000000000 = true <;> simp [h1, h2, h3, Except.map]

/-- the guards spelled out: some error is returned iff `n ≤ 0`, or (exponential only) the start is
`≤ 0` or the factor is `≤ 1` in IEEE order. -/
theorem constructor_errors_explicit (ops : FOps) (c : Call) :
    (∃ e, run ops c = .error e) ↔
      match c with
      | .linV _ _ n => n ≤ 0
      | .linD _ _ n => n ≤ 0
      | .expV s f n => n ≤ 0 ∨ F64.le s 0 = true ∨ F64.le f 0x3FF0000000000000 = true
      | .expD s f n => n ≤ 0 ∨ s ≤ 0 ∨ F64.le f 0x3FF0000000000000 = true := by
  simp only [constructor_errors]
  cases c with
  | linV s w n => simp only [Spec.C20.guardErr]; split <;> simp [*]
  | linD s w n => simp only [Spec.C20.guardErr]; split <;> simp [*]
  | expV s f n =>
    simp only [Spec.C20.guardErr]
    split
    · simp [*]
    · split
      · simp [*]
      · split <;> simp [*]
  | expD s f n =>
    simp only [Spec.C20.guardErr]
    split
    · simp [*]
    · split
      · simp [*]
      · split <;> simp [*]

/-- **must_panics_iff_error**: the `MustMake…` variant panics with `e` exactly when the plain
variant returns the error `e`, and otherwise returns the very same bounds. -/
theorem must_panics_iff_error (r : Res) :
    (∀ e, must r = .panic e ↔ r = .error e) ∧ (∀ b, must r = .value b ↔ r = .ok b) := by
  cases r with
  | error e => simp [must]
  | ok b => simp [must]

/-- the whole constructor clause of the oracle holds for the model, for every call and every
interpretation of the float operations -/
theorem constructor_spec (ops : FOps) (c : Call) :
    Spec.C20.ctorHolds ops c (run ops c) (must (run ops c)) = true := by
  cases hr : run ops c with
  | error e =>
    have hg := (constructor_errors ops c e).mp hr
    simp [Spec.C20.ctorHolds, hg, must]
  | ok b =>
    have hg : Spec.C20.guardErr c = none := by
      cases hge : Spec.C20.guardErr c with
      | none => rfl
      | some e => have := (constructor_errors ops c e).mpr hge; rw [hr] at this; cases this
    obtain ⟨hn, hrec⟩ := constructor_length_and_recurrence ops c b hr
    simp [Spec.C20.ctorHolds, hg, must, hn, hrec, sameBounds_refl]

/-! ## BucketPairs leaves the caller's slice alone -/

/-- **pairs_pure**: `BucketPairs` sorts a copy: the caller's slice afterwards is bit for bit what
it was (the oracle the harness evaluates on the real slice), and the derived upper bounds are the
sorted spec followed by the maximum. -/
theorem pairs_pure :
    (∀ caller : List Int,
        Spec.C20.callerUnchangedInt caller (pairsD caller).callerAfter = true
        ∧ (pairsD caller).pairs.map (·.2) = durationUppers caller)
    ∧ (∀ caller : List F64,
        Spec.C20.callerUnchanged caller (pairsV caller).callerAfter = true
        ∧ (pairsV caller).pairs.map (·.2) = valueUppers caller) := by
  refine ⟨fun caller => ⟨by simp [pairsD, Spec.C20.callerUnchangedInt], ?_⟩,
          fun caller => ⟨by simp [pairsV, Spec.C20.callerUnchanged], ?_⟩⟩
  · exact pairsD_uppers caller
  · exact pairsV_uppers caller

/-! ## the cache is transparent -/

/-- **cache_transparent (sequential)**: for every identity function — however badly it collides —
and every history of `Get` calls on one cache starting empty, each call (the `i`-th request paired
with the `i`-th storage handed out) returns storage carrying exactly the bounds of the spec it was
asked for. -/
theorem cache_transparent (idf : BSpec → UInt64) (reqs : List BSpec) :
    (getAll idf Cache.empty reqs).2.length = reqs.length
    ∧ ∀ p ∈ reqs.zip (getAll idf Cache.empty reqs).2, Transparent p.1 p.2 :=
  (getAll_transparent idf Cache.empty cacheInv_empty reqs).2

/-- the oracle holds for every storage the sequential cache hands out -/
theorem cache_transparent_oracle (idf : BSpec → UInt64) (reqs : List BSpec) :
    ∀ p ∈ reqs.zip (getAll idf Cache.empty reqs).2,
      Spec.C20.boundsKept p.1.hiKey p.1.keys p.2.uppers.keys = true :=
  fun p hp => boundsKept_of_transparent _ _ ((cache_transparent idf reqs).2 p hp)

/-! ### any interleaving of any number of threads -/

/-- **cache_transparent (concurrent)**: for every identity function, every number of threads and
every interleaving of their atomic steps (read-locked probe; write-locked build-and-store after a
miss, overwriting whatever was stored in between; comparison after a hit), whenever a thread's `Get`
has returned, it returned storage carrying exactly the bounds of the spec that thread asked for —
and the oracle `boundsKept` holds for it. -/
theorem cache_transparent_concurrent (idf : BSpec → UInt64) (evs : List Conc.Event) (s : Conc.State)
    (hr : Conc.run idf Conc.init evs = some s) (t : Nat) (req : BSpec) (ret : Storage)
    (hd : s.pc t = .done req ret) :
    Transparent req ret ∧ Spec.C20.boundsKept req.hiKey req.keys ret.uppers.keys = true := by
  have h := (run_inv idf _ _ evs concInv_init hr).done t req ret hd
  exact ⟨h, boundsKept_of_transparent _ _ h⟩

/-- a sequential `Get` is the two-step run of one thread of the concurrent protocol -/
theorem get_is_two_steps (idf : BSpec → UInt64) (s : Conc.State) (t : Nat) (req : BSpec)
    (hpc : s.pc t = .idle) :
    ∃ e s', Conc.run idf s [.probe t req, e] = some s'
      ∧ s'.cache = (BucketCache.get idf s.cache req).1
      ∧ s'.pc t = .done req (BucketCache.get idf s.cache req).2 := by
  cases hc : s.cache (idf req) with
  | none =>
    refine ⟨.fill t, Conc.setPc { Conc.setPc s t (.missed req) with
        cache := (Conc.setPc s t (.missed req)).cache.set (idf req) (build req) } t (.done req (build req)),
      ?_, ?_, ?_⟩
    · simp [Conc.run, Conc.step, hpc, hc, pc_setPc]
    · simp [BucketCache.get, hc, cache_setPc]
    · simp [BucketCache.get, hc, pc_setPc]
  | some st =>
    refine ⟨.compare t, Conc.setPc (Conc.setPc s t (.hit req st)) t
        (.done req (if specEq req st.spec then st else build req)), ?_, ?_, ?_⟩
    · simp [Conc.run, Conc.step, hpc, hc, pc_setPc]
    · simp only [BucketCache.get, hc, cache_setPc]; split <;> rfl
    · by_cases he : specEq req st.spec = true <;> simp [BucketCache.get, hc, pc_setPc, he]

/-- **cache_transparent, bit-exact**: in a history whose value specs contain no `±0` (duration
specs are unrestricted) every `Get` returns literally `sorted spec ++ [max]`, for every identity
function.  (With zeros the most that is true is `cache_transparent`: `{+0,+0}` and `{-0,-0}` have
one identity under the real hash and pass the `==` re-check, see the example below.) -/
theorem cache_transparent_exact (idf : BSpec → UInt64) (reqs : List BSpec) (hz : ∀ r ∈ reqs, NoZero r) :
    ∀ p ∈ reqs.zip (getAll idf Cache.empty reqs).2, TransparentExact p.1 p.2 := by
  suffices h : ∀ (c : Cache), CacheInvNZ c → ∀ reqs : List BSpec, (∀ r ∈ reqs, NoZero r) →
      ∀ p ∈ reqs.zip (getAll idf c reqs).2, TransparentExact p.1 p.2 from
    h Cache.empty (by intro id st h; simp [Cache.empty] at h) reqs hz
  intro c hc reqs
  induction reqs generalizing c with
  | nil => intro _ p hp; simp [getAll] at hp
  | cons r rs ih =>
    intro hz p hp
    obtain ⟨h1, h2⟩ := get_inv_exact idf c r hc (hz r (by simp))
    simp only [getAll, List.zip_cons_cons, List.mem_cons] at hp
    rcases hp with rfl | hp
    · exact h2
    · exact ih _ h1 (fun r' hr' => hz r' (by simp [hr'])) p hp

/-! ## the identity hash really collides (so the re-check is what keeps histograms apart) -/

/-- permutations of one set have the same identity, by construction -/
theorem identity_perm (l₁ l₂ : List UInt64) (h : l₁.Perm l₂) : identityU64s l₁ = identityU64s l₂ := by
  unfold identityU64s
  have he : l₁.isEmpty = l₂.isEmpty := by
    cases l₁ <;> cases l₂ <;> simp_all
  rw [he]
  split
  · rfl
  · apply h.foldl_eq'
    intro a _ b _ acc
    ac_rfl

/-! ## non-vacuity -/

/-- toy float operations (bit patterns used as integers, "multiplication" triples) to exercise the
statements by kernel evaluation -/
def toyOps : FOps := ⟨(· + ·), fun x _ => x * 3, fun i => UInt64.ofNat i.toNat, fun x => (x.toNat : Int)⟩

example : linearDuration 5 3 4 = .ok [5, 8, 11, 14] := rfl
example : linearDuration 9223372036854775807 1 2 = .ok [9223372036854775807, -9223372036854775808] := rfl
example : linearDuration 1 1 0 = .error .count := rfl
example : exponentialDuration toyOps 2 0x4000000000000000 4 = .ok [2, 6, 18, 54] := rfl
example : exponentialValue toyOps 2 0x4000000000000000 (-1) = .error .count := rfl
example : exponentialValue toyOps 0x3FF0000000000000 0x4000000000000000 2 = .ok [0x3FF0000000000000, 0xBFD0000000000000] := rfl
/-- a NaN start passes the `start <= 0` guard, a NaN factor passes `factor <= 1` -/
example : Spec.C20.guardErr (.expV 0x7FF8000000000001 0x7FF8000000000001 3) = none := by decide
example : Spec.C20.guardErr (.expV 0x8000000000000000 0x4000000000000000 3) = some .start := by decide
example : Spec.C20.guardErr (.expD 5 0x3FF0000000000000 3) = some .factor := by decide
example : must (run toyOps (.linD 1 1 0)) = .panic .count := by decide

/-- `{1ns, 4ns}` and `{2ns, 3ns}` are different specs with one identity; so are a spec and its
permutation, and a value spec and a duration spec -/
example : identity (.dur [1, 4]) = identity (.dur [2, 3]) ∧ BSpec.dur [1, 4] ≠ BSpec.dur [2, 3]
    ∧ specEq (.dur [2, 3]) (.dur [1, 4]) = false := by decide
example : identity (.dur [4, 1]) = identity (.dur [1, 4]) ∧ specEq (.dur [4, 1]) (.dur [1, 4]) = false := by decide
example : identity (.val [1, 4]) = identity (.dur [1, 4]) ∧ specEq (.val [1, 4]) (.dur [1, 4]) = false := by decide
/-- `{+0, +0}` and `{-0, -0}` collide *and* pass the `==` re-check: the hit is accepted, which is
why the value clause of `Transparent` is stated through the float key -/
example : identity (.val [0, 0]) = identity (.val [0x8000000000000000, 0x8000000000000000])
    ∧ specEq (.val [0x8000000000000000, 0x8000000000000000]) (.val [0, 0]) = true := by decide

/-- two threads request the colliding specs concurrently under the real hash; both miss, the second
store overwrites the first, and each still gets its own bounds -/
example : ∃ s, Conc.run identity Conc.init
      [.probe 0 (.dur [1, 4]), .probe 1 (.dur [2, 3]), .fill 0, .fill 1, .probe 2 (.dur [1, 4]), .compare 2]
        = some s
    ∧ s.pc 0 = .done (.dur [1, 4]) (build (.dur [1, 4]))
    ∧ s.pc 1 = .done (.dur [2, 3]) (build (.dur [2, 3]))
    ∧ s.pc 2 = .done (.dur [1, 4]) (build (.dur [1, 4]))
    ∧ s.cache (identity (.dur [1, 4])) = some (build (.dur [2, 3])) := by
  have h1 : identity (.dur [1, 4]) = 178 := by decide
  have h2 : identity (.dur [2, 3]) = 178 := by decide
  have h3 : specEq (.dur [1, 4]) (.dur [2, 3]) = false := by decide
  have h4 : (build (.dur [2, 3])).spec = .dur [2, 3] := rfl
  simp [Conc.run, Conc.step, Conc.init, Conc.setPc, Cache.empty, Cache.set, h1, h2, h3, h4]

end Tally.Props.C20
