import TallyProofs.Lemmas.M3LifeProgress
import Tally.Spec.C14
/-!
# C14 — the M3 reporter never crashes, hangs or leaks, whatever the call order

Model: `Tally.M3Life` (any number of `reportCopyMetric` / `Flush` / `Close` calls arriving at any
time, the batching goroutine and the clock goroutine, interleaved at the granularity of one atomic
operation / one channel operation).  All theorems quantify over **every** event list, i.e. every
interleaving of every number of calls, every queue capacity and every number of internal metrics
reported by `Flush`.

Not expressible here: data-race freedom in the sense of the Go memory model (the D8 finding on a
shared histogram-bucket handle is detected by the race-detector run of the harness), and real time
("returns" is proved as: an enabled step always exists and every step decreases a measure).
-/
set_option linter.unusedSimpArgs false
set_option linter.unusedVariables false
namespace Tally.Props.C14
open Tally Tally.M3Life

/-- reachable by some interleaving from a freshly constructed reporter -/
def Reachable (s : State) : Prop := ∃ cap n es, run (init cap n) es = .ok s

theorem reachable_inv (s : State) (h : Reachable s) : Inv s := by
  obtain ⟨cap, n, es, hr⟩ := h
  exact inv_run _ _ es (inv_init cap n) hr

/-! ## no panic -/

/-- no interleaving reaches a panic outcome of the step function -/
theorem no_panic (cap n : Nat) (es : List Ev) (w : String) : run (init cap n) es ≠ .panic w :=
  run_no_panic _ es (inv_init cap n) w

/-- **no send on the closed queue**, for every interleaving of any number of producers, flushers and
closers -/
theorem no_send_on_closed (cap n : Nat) (es : List Ev) :
    run (init cap n) es ≠ .panic "send on closed channel" := no_panic cap n es _

/-- **no channel is closed twice** -/
theorem no_double_close (cap n : Nat) (es : List Ev) :
    run (init cap n) es ≠ .panic "close of closed channel" := no_panic cap n es _

/-- the reason, as a state invariant: once `metCh` is closed, `done` is set, `donech` is closed and no
call is between a passed done-check and its last send -/
theorem closed_queue_has_no_sender (s : State) (hR : Reachable s) (hc : s.metChClosed = true) :
    s.done = true ∧ s.donechClosed = true ∧ ∀ pc ∈ s.thr, passed pc = 0 := by
  have hI := reachable_inv s hR
  have h1 := hI.mcl; rw [b2n_true hc] at h1
  have h2 := sumOf_le _ _ mCl_le_dCl s.thr
  have h3 := sumOf_le _ _ dCl_le_past s.thr
  have hd : s.donechClosed = true := by
    apply b2n_eq_one; have := hI.dcl; have := b2n_le s.donechClosed; omega
  refine ⟨winner_le_done s hI (by omega), hd, ?_⟩
  intro pc hp
  have := mem_le_sum passed s.thr pc hp
  have := hI.quiet (by omega)
  omega

/-- every call that passed the done-check (and may still send) is counted in `pending` -/
theorem passed_holds_pending (s : State) (hR : Reachable s) (pc : Pc) (hp : pc ∈ s.thr) (h : passed pc = 1) :
    s.pending ≥ 1 := by
  have hI := reachable_inv s hR
  have h1 := mem_le_sum hold s.thr pc hp
  have h2 := passed_le_hold pc
  have := hI.pend
  omega

/-! ## second Close -/

/-- exactly one Close call wins the CAS: the number of winners is 1 if `done` is set and 0 otherwise -/
theorem one_winner (s : State) (hR : Reachable s) : sumOf winner s.thr = b2n s.done :=
  (reachable_inv s hR).win

/-- at most one Close call ever returns nil -/
theorem at_most_one_close_returns_nil (s : State) (hR : Reachable s) : (s.thr.map retOk).sum ≤ 1 := by
  have hI := reachable_inv s hR
  have h1 := sumOf_le _ _ retOk_le_mCl s.thr
  have := hI.mcl
  have := b2n_le s.metChClosed
  rw [sumOf_eq_map_sum]; omega

/-- **a second Close returns errAlreadyClosed** in one step that changes nothing but its own program
counter: it touches neither the channels nor `pending` -/
theorem second_close_errors (s : State) (t : Nat) (ht : s.thr[t]? = some .cStart) (hd : s.done = true) :
    step s (.act t) = .ok { s with thr := s.thr.set t (.cReturned true) } := by
  rw [step_act_eq s t .cStart (.cReturned true) .cas ht (by simp [next, hd])]
  cases s
  simp only at hd
  subst hd
  rfl

/-- the first Close (no CAS won yet) proceeds to the spin loop and sets `done` -/
theorem first_close_wins (s : State) (t : Nat) (ht : s.thr[t]? = some .cStart) (hd : s.done = false) :
    step s (.act t) = .ok { s with done := true, thr := s.thr.set t .cAfterCas } := by
  rw [step_act_eq s t .cStart .cAfterCas .cas ht (by simp [next, hd])]
  rfl

/-! ## calls after Close -/

theorem after_exit_run (s s' : State) (es : List Ev) (hI : Inv s) (hc : s.cons = .exited)
    (hr : run s es = .ok s') : Inv s' ∧ s'.cons = .exited ∧ s'.consumed = s.consumed := by
  induction es generalizing s with
  | nil => simp only [run, Outcome.ok.injEq] at hr; subst hr; exact ⟨hI, hc, rfl⟩
  | cons e es ih =>
    simp only [run] at hr
    cases hs : step s e with
    | ok s1 =>
      rw [hs] at hr
      obtain ⟨h1, h2⟩ := step_after_exit s s1 e hc hs
      obtain ⟨i1, i2, i3⟩ := ih s1 ((inv_step s hI e).2 s1 hs) h1 hr
      exact ⟨i1, i2, by rw [i3, h2]⟩
    | disabled => rw [hs] at hr; cases hr
    | panic w => rw [hs] at hr; cases hr

/-- **calls made after Close are no-ops**: from a state in which a Close call has returned nil,
whatever happens afterwards (any number of new report / flush / close calls, in any interleaving),
nothing is ever put on the queue and nothing more is consumed -/
theorem calls_after_close_noop (s s' : State) (es : List Ev) (hR : Reachable s)
    (hc : closeReturned s = true) (hr : run s es = .ok s') :
    s'.sent = s.sent ∧ s'.queue = [] ∧ s'.consumed = s.consumed ∧ s'.lateSent = 0 := by
  have hI := reachable_inv s hR
  have hw : sumOf retOk s.thr ≥ 1 := by simpa [closeReturned, sumOf_eq_map_sum] using hc
  have hce := (hI.waited hw).1
  obtain ⟨i1, i2, i3⟩ := after_exit_run s s' es hI hce hr
  have q' := (i1.consEx i2).2
  have q := (hI.consEx hce).2
  refine ⟨?_, q', i3, i1.late⟩
  rw [i1.conserv, hI.conserv, q, q', i3]

/-- a report call that reads `done = true` skips the send: its next step is the deferred `Dec` -/
theorem late_report_skips_send (s : State) (t : Nat) (ht : s.thr[t]? = some (.prod .afterInc)) (hd : s.done = true) :
    step s (.act t) = .ok { s with thr := s.thr.set t (.prod .finishing) } := by
  rw [step_act_eq s t (.prod .afterInc) (.prod .finishing) .load ht (by simp [next, hd])]
  rfl

/-- likewise for Flush -/
theorem late_flush_skips_send (s : State) (t : Nat) (ht : s.thr[t]? = some .fAfterInc) (hd : s.done = true) :
    step s (.act t) = .ok { s with thr := s.thr.set t .fFinishing } := by
  rw [step_act_eq s t .fAfterInc .fFinishing .load ht (by simp [next, hd])]
  rfl

/-! ## workers, queue -/

/-- **when the winning Close has returned, both workers are in their exit state** -/
theorem workers_exit (s : State) (hR : Reachable s) (t : Nat) (ht : s.thr[t]? = some (.cReturned false)) :
    s.cons = .exited ∧ s.clock = .exited := by
  have hI := reachable_inv s hR
  have := le_sum_of_getElem retOk s.thr t _ ht
  exact hI.waited (by simp only [retOk] at this; omega)

/-- **queue conservation**: everything ever sent was consumed or is still queued, in FIFO order -/
theorem queue_conservation (s : State) (hR : Reachable s) : s.sent = s.consumed ++ s.queue :=
  (reachable_inv s hR).conserv

/-- … and once the winning Close has returned the queue is empty: everything sent was consumed -/
theorem drained_after_close (s : State) (hR : Reachable s) (hc : closeReturned s = true) :
    s.queue = [] ∧ s.sent = s.consumed := by
  have hI := reachable_inv s hR
  have hw : sumOf retOk s.thr ≥ 1 := by simpa [closeReturned, sumOf_eq_map_sum] using hc
  have q := (hI.consEx (hI.waited hw).1).2
  exact ⟨q, by rw [hI.conserv, q, List.append_nil]⟩

/-- the queue never exceeds its capacity -/
theorem queue_bounded (s : State) (hR : Reachable s) : s.queue.length ≤ s.cap :=
  (reachable_inv s hR).bound

/-! ## no deadlock, termination -/

/-- **no deadlock**: in every reachable state (queue capacity ≥ 1, which `NewReporter` guarantees by
defaulting a non-positive `MaxQueueSize`) in which some call has not returned, a step other than the
arrival of a new call is enabled.  (A sender blocked on a full queue is not itself enabled: the
enabled step is then the consumer's receive; a closer spinning on `pending ≠ 0` is not enabled: the
enabled step is then a step of a call that holds `pending`, or of the consumer.) -/
theorem no_deadlock (s : State) (hR : Reachable s) (hcap : 1 ≤ s.cap) (hun : allReturned s = false) :
    ∃ e s', isSpawn e = false ∧ step s e = .ok s' :=
  progress s (reachable_inv s hR) hcap hun

/-- a Flush caller (or a producer) blocked in its send while the consumer has exited cannot exist -/
theorem no_sender_after_consumer_exit (s : State) (hR : Reachable s) (hc : s.cons = .exited) :
    ∀ pc ∈ s.thr, passed pc = 0 :=
  (closed_queue_has_no_sender s hR ((reachable_inv s hR).consEx hc).1).2.2

/-- every run without new arrivals is at most `measure s` steps long -/
theorem bounded_runs (s s' : State) (es : List Ev) (hsp : ∀ e ∈ es, isSpawn e = false)
    (hr : run s es = .ok s') : measure s' + es.length ≤ measure s := by
  induction es generalizing s with
  | nil => simp only [run, Outcome.ok.injEq] at hr; subst hr; simp
  | cons e es ih =>
    simp only [run] at hr
    cases hs : step s e with
    | ok s1 =>
      rw [hs] at hr
      have h1 := step_measure s s1 e (hsp e (List.mem_cons_self)) hs
      have h2 := ih s1 (fun e' he' => hsp e' (List.mem_cons_of_mem _ he')) hr
      simp only [List.length_cons]; omega
    | disabled => rw [hs] at hr; cases hr
    | panic w => rw [hs] at hr; cases hr

theorem run_frame (s s' : State) (es : List Ev) (hr : run s es = .ok s') : s'.cap = s.cap := by
  induction es generalizing s with
  | nil => simp only [run, Outcome.ok.injEq] at hr; subst hr; rfl
  | cons e es ih =>
    simp only [run] at hr
    cases hs : step s e with
    | ok s1 => rw [hs] at hr; rw [ih s1 hr, (step_frame s s1 e hs).1]
    | disabled => rw [hs] at hr; cases hr
    | panic w => rw [hs] at hr; cases hr

/-- **Close terminates under fairness.**  Assumptions, explicitly: (i) after the state `s` no new
call arrives (a never-ending stream of overlapping calls could keep `pending` non-zero at every
spin check — each such call is a no-op but does `Inc`/`Dec`); (ii) the scheduler keeps running
enabled steps (the consumer is scheduled, `Gosched` in the spin loop yields); (iii) queue capacity
≥ 1.  Then every maximal run from `s` is finite, at most `measure s` steps, and ends with every
call returned — in particular every Close call. -/
theorem close_terminates_under_fairness (s s' : State) (es : List Ev) (hR : Reachable s) (hcap : 1 ≤ s.cap)
    (hsp : ∀ e ∈ es, isSpawn e = false) (hr : run s es = .ok s')
    (hmax : ∀ e s'', isSpawn e = false → step s' e ≠ .ok s'') :
    allReturned s' = true ∧ es.length ≤ measure s := by
  have hI' := inv_run s s' es (reachable_inv s hR) hr
  have hb := bounded_runs s s' es hsp hr
  refine ⟨?_, by omega⟩
  cases hall : allReturned s' with
  | true => rfl
  | false =>
    obtain ⟨e, s'', h1, h2⟩ := progress s' hI' (by rw [run_frame s s' es hr]; exact hcap) hall
    exact absurd h2 (hmax e s'' h1)

/-- … and such a run exists from every reachable state: the system can always be driven to the point
where every call has returned -/
theorem exists_terminating_run (s : State) (hI : Inv s) (hcap : 1 ≤ s.cap) :
    ∃ es s', (∀ e ∈ es, isSpawn e = false) ∧ run s es = .ok s' ∧ allReturned s' = true := by
  generalize hm : measure s = m
  induction m using Nat.strongRecOn generalizing s with
  | _ m ih =>
    cases hall : allReturned s with
    | true => exact ⟨[], s, by simp, rfl, hall⟩
    | false =>
      obtain ⟨e, s1, h1, h2⟩ := progress s hI hcap hall
      have hlt := step_measure s s1 e h1 h2
      obtain ⟨es, s', a1, a2, a3⟩ := ih (measure s1) (by omega) s1 ((inv_step s hI e).2 s1 h2)
        (by rw [(step_frame s s1 e h2).1]; exact hcap) rfl
      refine ⟨e :: es, s', ?_, by simp only [run, h2]; exact a2, a3⟩
      intro e' he'
      rcases List.mem_cons.mp he' with rfl | h
      · exact h1
      · exact a1 e' h

/-! ## the oracle accepts the model -/

/-- in every reachable state in which every call has returned and a Close call returned nil, the
oracle predicate `Spec.C14.holds` is true of what an observer of the model would have counted -/
theorem spec_holds_on_model (s : State) (hR : Reachable s) (hall : allReturned s = true)
    (hc : closeReturned s = true) : Spec.C14.holds (observe s) = none := by
  have hI := reachable_inv s hR
  have hw : sumOf retOk s.thr ≥ 1 := by simpa [closeReturned, sumOf_eq_map_sum] using hc
  have h1 := at_most_one_close_returns_nil s hR
  rw [sumOf_eq_map_sum] at h1
  have hnil : (s.thr.map retOk).sum = 1 := by rw [sumOf_eq_map_sum]; omega
  obtain ⟨hce, hcl⟩ := hI.waited hw
  obtain ⟨hq, hsent⟩ := drained_after_close s hR hc
  have hh := filter_unfinished_nil s.thr hall
  simp [Spec.C14.holds, observe, hh, hnil, hI.late, hce, hcl, wleft, hsent]

/-! ## the hypotheses are satisfiable: concrete interleavings -/

/-- a producer passes the check, Close starts, a second Close loses, a Flush arrives late, the
producer sends, Close drains and returns; the oracle accepts -/
def exampleRun : List Ev :=
  [.spawn .producer, .spawn .flusher, .spawn .closer, .spawn .closer,
   .act 0, .act 0, .act 2, .act 3, .act 1, .act 1, .act 0, .act 0, .act 1,
   .act 2, .act 2, .act 2, .consume, .consExit, .clockExit, .act 2]

example : (match run (init 2 1) exampleRun with
    | .ok s => allReturned s && closeReturned s && (Spec.C14.holds (observe s)).isNone
        && decide (s.sent = [.metric 0]) && decide ((s.thr.map retErr).sum = 1)
    | _ => false) = true := by decide

/-- a Flush with one internal metric on an open reporter: nested report, then the marker -/
example : (match run (init 4 1) [.spawn .flusher, .act 0, .act 0, .act 0, .act 0, .act 0, .act 0, .act 0, .act 0] with
    | .ok s => allReturned s && decide (s.queue = [.metric 0, .marker 0]) && decide (s.pending = 0)
    | _ => false) = true := by decide

/-- with capacity 1 a second sender is blocked until the consumer makes room (the fairness assumption
is about exactly this) -/
example : (match run (init 1 0) [.spawn .producer, .spawn .producer, .act 0, .act 0, .act 1, .act 1, .act 0] with
    | .ok s => decide (step s (.act 1) = .disabled) &&
        (match step s .consume with
         | .ok s1 => (match step s1 (.act 1) with | .ok _ => true | _ => false)
         | _ => false)
    | _ => false) = true := by decide

/-- the closer cannot leave the spin loop while a producer is between `Inc` and `Dec` -/
example : (match run (init 1 0) [.spawn .producer, .spawn .closer, .act 0, .act 1] with
    | .ok s => decide (step s (.act 1) = .disabled)
    | _ => false) = true := by decide

end Tally.Props.C14
