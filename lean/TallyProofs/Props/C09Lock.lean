import Tally.Model.GetOrCreateLock
import TallyProofs.Lemmas.GetOrCreateLock
import TallyProofs.Props.C09
/-!
# C09 at lock level — the metric getters with a slow / panicking `Allocate*`

`Tally.GetOrCreateLock`: one (scope, kind, name) slot, an explicit RW lock, the write lock held across schedule
points while the reporter's `Allocate*` runs, which may return or panic; report passes read under the read lock.
Everything below is for every event list accepted from `init` (any number of threads, any interleaving, any number
of panics).  The `Legacy` machine (explicit `Unlock` on the normal paths only) is shown to leave the lock held.
-/
namespace Tally.Props.C09Lock
open Tally Tally.GetOrCreateLock

theorem reachable_inv {es : List Ev} {s : State} (hr : run init es = some s) : Inv s := inv_run inv_init hr

/-- **lock discipline**: the write lock is held exactly by the thread between `Lock` and the (deferred) `Unlock`,
the read lock exactly by the probing threads and the reading passes (each once), and a writer excludes all readers. -/
theorem lock_discipline (es : List Ev) (s : State) (hr : run init es = some s) :
    (∀ t, s.writer = some t ↔ (pcOf s t = .locked ∨ pcOf s t = .allocating)) ∧
    (∀ t, t ∈ s.readers ↔ (pcOf s t = .probing ∨ pcOf s t = .passReading)) ∧
    s.readers.Nodup ∧
    (s.writer ≠ none → s.readers = []) :=
  let h := reachable_inv hr
  ⟨h.writer_iff, h.readers_iff, h.readers_nodup, h.excl⟩

/-- **no lock left behind**: when no thread is inside a critical section the lock is free — in particular after
any number of panics out of `Allocate*`. -/
theorem no_lock_left_behind (es : List Ev) (s : State) (hr : run init es = some s)
    (hq : ∀ t, pcOf s t ≠ .probing ∧ pcOf s t ≠ .locked ∧ pcOf s t ≠ .allocating ∧ pcOf s t ≠ .passReading) :
    s.writer = none ∧ s.readers = [] := by
  have h := reachable_inv hr
  constructor
  · cases hw : s.writer with
    | none => rfl
    | some w =>
      rcases (h.writer_iff w).mp hw with h1 | h1
      · exact absurd h1 (hq w).2.1
      · exact absurd h1 (hq w).2.2.1
  · cases hrd : s.readers with
    | nil => rfl
    | cons r rs =>
      rcases (h.readers_iff r).mp (by rw [hrd]; simp) with h1 | h1
      · exact absurd h1 (hq r).1
      · exact absurd h1 (hq r).2.2.2

/-- **one object per name**: all calls — before, between and after panics — return the same object, it is the
registered one, and its id has been handed out. -/
theorem one_object_per_name (es : List Ev) (s : State) (hr : run init es = some s) :
    (∀ r₁ ∈ s.results, ∀ r₂ ∈ s.results, r₁.2 = r₂.2) ∧
    (∀ r ∈ s.results, s.slot = some r.2) ∧
    (∀ t id, pcOf s t = .returned id → s.slot = some id) ∧
    (∀ id, s.slot = some id → id < s.nextId) := by
  have h := reachable_inv hr
  refine ⟨?_, h.results_slot, h.returned_slot, h.slot_lt⟩
  intro r₁ h₁ r₂ h₂
  have a := h.results_slot r₁ h₁
  have b := h.results_slot r₂ h₂
  rw [a] at b; injection b

/-- **Allocate accounting**: every started `Allocate*` has returned, panicked, or is still running (at most one
is); at most one returned normally, and exactly one did iff the object is registered — every extra `Allocate*`
is one that panicked. -/
theorem allocate_accounting (es : List Ev) (s : State) (hr : run init es = some s) :
    s.allocs = s.allocsDone + s.panics.length + allocating s ∧
    allocating s ≤ 1 ∧
    s.allocsDone ≤ 1 ∧
    (s.allocsDone = 1 ↔ s.slot.isSome) := by
  have h := reachable_inv hr
  refine ⟨h.accounting, h.allocating_le_one, ?_, ?_⟩
  · cases hsl : s.slot with
    | none => have := h.done_zero hsl; omega
    | some id => have := h.done_one (by rw [hsl]; simp); omega
  · cases hsl : s.slot with
    | none => have := h.done_zero hsl; simp; omega
    | some id => have := h.done_one (by rw [hsl]; simp); simp [this]

/-- **nothing half-built is visible** (state form): a registered object is one whose `Allocate*` has returned;
while a thread is inside `Allocate*` nothing is registered. -/
theorem nothing_half_built_is_visible (es : List Ev) (s : State) (hr : run init es = some s) :
    (s.slot.isSome → s.allocsDone = 1) ∧ (∀ t, pcOf s t = .allocating → s.slot = none) := by
  have h := reachable_inv hr
  refine ⟨?_, h.alloc_slot⟩
  intro hs
  exact h.done_one (by intro hn; rw [hn] at hs; cases hs)

theorem seen_history_from {s0 s : State} {es : List Ev} (h0 : Inv s0) (hr : run s0 es = some s) (p id : Nat)
    (hm : (p, some id) ∈ s.seen) :
    (p, some id) ∈ s0.seen ∨
    ∃ es1 es2 s1, es = es1 ++ .passUnlock p :: es2 ∧ run s0 es1 = some s1 ∧ pcOf s1 p = .passReading ∧
      s1.slot = some id ∧ s1.allocsDone = 1 := by
  induction es generalizing s0 with
  | nil => simp only [run, Option.some.injEq] at hr; subst hr; exact Or.inl hm
  | cons e es ih =>
    simp only [run] at hr
    cases h1 : step s0 e with
    | none => simp [h1] at hr
    | some s1 =>
      simp only [h1] at hr
      rcases ih (inv_step h0 h1) hr with hin | ⟨es1, es2, s2, he, hr2, hp2, hs2, hd2⟩
      · rcases step_seen h1 with hse | ⟨p', hev, hpc, hse⟩
        · exact Or.inl (hse ▸ hin)
        · rw [hse] at hin
          rcases List.mem_append.mp hin with hin | hin
          · exact Or.inl hin
          · simp only [List.mem_singleton, Prod.mk.injEq] at hin
            obtain ⟨hpp, hsl⟩ := hin
            subst hpp; subst hev
            exact Or.inr ⟨[], es, s0, rfl, rfl, hpc, hsl.symm, h0.done_one (by rw [← hsl]; simp)⟩
      · exact Or.inr ⟨e :: es1, es2, s2, by rw [he]; rfl, run_cons h1 hr2, hp2, hs2, hd2⟩

/-- **nothing half-built is visible** (history form, passes): whenever a report pass has read an object, it read
it — by a `passUnlock` of its own, while holding the read lock — in a state in which that object was the registered
one and its `Allocate*` had returned. -/
theorem seen_only_after_allocate_returned (es : List Ev) (s : State) (hr : run init es = some s) (p id : Nat)
    (hm : (p, some id) ∈ s.seen) :
    ∃ es1 es2 s1, es = es1 ++ .passUnlock p :: es2 ∧ run init es1 = some s1 ∧ pcOf s1 p = .passReading ∧
      s1.slot = some id ∧ s1.allocsDone = 1 := by
  rcases seen_history_from inv_init hr p id hm with h | h
  · simp [init] at h
  · exact h

theorem results_history_from {s0 s : State} {es : List Ev} (h0 : Inv s0) (hr : run s0 es = some s) (t id : Nat)
    (hm : (t, id) ∈ s.results) :
    (t, id) ∈ s0.results ∨
    ∃ es1 e es2 s1 s2, es = es1 ++ e :: es2 ∧ run s0 es1 = some s1 ∧ step s1 e = some s2 ∧
      (e = .probeUnlock t ∨ e = .recheck t ∨ e = .allocReturn t) ∧
      s2.results = (t, id) :: s1.results ∧ s2.slot = some id ∧ s2.allocsDone = 1 := by
  induction es generalizing s0 with
  | nil => simp only [run, Option.some.injEq] at hr; subst hr; exact Or.inl hm
  | cons e es ih =>
    simp only [run] at hr
    cases h1 : step s0 e with
    | none => simp [h1] at hr
    | some s1 =>
      simp only [h1] at hr
      have hinv1 := inv_step h0 h1
      rcases ih hinv1 hr with hin | ⟨es1, e', es2, s2, s3, he, hr2, hst, hev, hres, hsl, hd⟩
      · rcases step_results h1 with hre | ⟨t', id', hre, hsl, hev⟩
        · exact Or.inl (hre ▸ hin)
        · rw [hre] at hin
          rcases List.mem_cons.mp hin with hin | hin
          · injection hin with ht hid; subst ht; subst hid
            exact Or.inr ⟨[], e, es, s0, s1, rfl, rfl, h1, hev, hre, hsl, hinv1.done_one (by rw [hsl]; simp)⟩
          · exact Or.inl hin
      · exact Or.inr ⟨e :: es1, e', es2, s2, s3, by rw [he]; rfl, run_cons h1 hr2, hst, hev, hres, hsl, hd⟩

/-- **nothing half-built is visible** (history form, callers): every object a call returned was returned by an
event of that thread (`probeUnlock`, the re-check, or the return of `Allocate*`) whose post-state has that object
registered and its `Allocate*` returned. -/
theorem returned_only_after_allocate_returned (es : List Ev) (s : State) (hr : run init es = some s) (t id : Nat)
    (hm : (t, id) ∈ s.results) :
    ∃ es1 e es2 s1 s2, es = es1 ++ e :: es2 ∧ run init es1 = some s1 ∧ step s1 e = some s2 ∧
      (e = .probeUnlock t ∨ e = .recheck t ∨ e = .allocReturn t) ∧
      s2.results = (t, id) :: s1.results ∧ s2.slot = some id ∧ s2.allocsDone = 1 := by
  rcases results_history_from inv_init hr t id hm with h | h
  · simp [init] at h
  · exact h

/-- **usable after a panic**: from every reachable state — whatever has panicked before, whoever holds the lock
now — an idle thread's fresh call can still be completed: let every current lock holder finish its critical
section (threads inside `Allocate*` by its return), then run the call alone.  It returns the registered object. -/
theorem usable_after_panic (es : List Ev) (s : State) (hr : run init es = some s) (t : Nat) (ht : pcOf s t = .idle) :
    ∃ es' s' id, run s es' = some s' ∧ pcOf s' t = .returned id ∧ s'.slot = some id ∧
      s'.results.head? = some (t, id) ∧ s'.writer = none ∧ s'.readers = [] := by
  have h := reachable_inv hr
  obtain ⟨es1, s1, hr1, hw1, hrd1, hi1⟩ := drain h
  obtain ⟨es2, s2, id, hr2, hp2, hs2, hres2, hw2, hrd2⟩ := solo_call hw1 hrd1 (hi1 t ht)
  exact ⟨es1 ++ es2, s2, id, run_append hr1 hr2, hp2, hs2, hres2, hw2, hrd2⟩

/-- **no deadlock**: whenever some thread is in the middle of a call or of a pass, some event is enabled. -/
theorem no_deadlock (es : List Ev) (s : State) (hr : run init es = some s)
    (hbusy : ∃ t, pcOf s t ≠ .idle ∧ pcOf s t ≠ .passIdle) : ∃ e s', step s e = some s' := by
  have h := reachable_inv hr
  obtain ⟨t, hni, hnp⟩ := hbusy
  cases hpc : pcOf s t with
  | idle => exact absurd hpc hni
  | passIdle => exact absurd hpc hnp
  | probing => obtain ⟨s', h1, _⟩ := probeUnlock_ok hpc; exact ⟨_, s', h1⟩
  | passReading => obtain ⟨s', h1, _⟩ := passUnlock_ok hpc; exact ⟨_, s', h1⟩
  | locked =>
    cases hsl : s.slot with
    | some id => obtain ⟨s', h1, _⟩ := recheck_hit_ok hpc hsl; exact ⟨_, s', h1⟩
    | none => obtain ⟨s', h1, _⟩ := recheck_miss_ok hpc hsl; exact ⟨_, s', h1⟩
  | allocating => obtain ⟨s', h1, _⟩ := allocReturn_ok hpc; exact ⟨_, s', h1⟩
  | returned id => obtain ⟨s', h1⟩ := finish_ok (Or.inl ⟨id, hpc⟩); exact ⟨_, s', h1⟩
  | panicked => obtain ⟨s', h1⟩ := finish_ok (Or.inr hpc); exact ⟨_, s', h1⟩
  | missed =>
    -- the thread wants the write lock: either it is free, or a holder can move on
    cases hw : s.writer with
    | some w =>
      rcases (h.writer_iff w).mp hw with hl | ha
      · cases hsl : s.slot with
        | some id => obtain ⟨s', h1, _⟩ := recheck_hit_ok hl hsl; exact ⟨_, s', h1⟩
        | none => obtain ⟨s', h1, _⟩ := recheck_miss_ok hl hsl; exact ⟨_, s', h1⟩
      · obtain ⟨s', h1, _⟩ := allocReturn_ok ha; exact ⟨_, s', h1⟩
    | none =>
      cases hrd : s.readers with
      | nil => obtain ⟨s', h1, _⟩ := lock_ok hpc hw hrd; exact ⟨_, s', h1⟩
      | cons r rs =>
        rcases (h.readers_iff r).mp (by rw [hrd]; simp) with hp | hp
        · obtain ⟨s', h1, _⟩ := probeUnlock_ok hp; exact ⟨_, s', h1⟩
        · obtain ⟨s', h1, _⟩ := passUnlock_ok hp; exact ⟨_, s', h1⟩

/-! ## refinement: without panics the lock-level machine is the atomic model `Tally.GetOrCreate`

Lock events are erased; the probe's lookup (`probeUnlock`) is the atomic model's `probe`, a re-check that hits and
the return of `Allocate*` are its `create`.  (Whether a `recheck` is visible depends on the state only through
"does the re-check hit", so the erasure follows the run.) -/

theorem panics_nil_of_no_panic {s0 s : State} {es : List Ev} (hr : run s0 es = some s)
    (hnp : ∀ t, Ev.allocPanic t ∉ es) (h0 : s0.panics = []) : s.panics = [] := by
  induction es generalizing s0 with
  | nil => simp only [run, Option.some.injEq] at hr; subst hr; exact h0
  | cons e es ih =>
    simp only [run] at hr
    cases h1 : step s0 e with
    | none => simp [h1] at hr
    | some s1 =>
      simp only [h1] at hr
      refine ih hr (fun t hm => hnp t (List.mem_cons_of_mem _ hm)) ?_
      have hne : ∀ t, e ≠ .allocPanic t := fun t he => hnp t (by rw [he]; simp)
      rw [← h0]
      cases e <;> simp only [step] at h1 <;> (repeat' split at h1) <;>
        first
        | (simp only [Option.some.injEq] at h1; subst h1; rfl)
        | exact absurd rfl (hne _)
        | cases h1

def absPc : Pc → GetOrCreate.Pc
  | .missed => .missed
  | .locked => .missed
  | .allocating => .missed
  | .returned id => .returned id
  | _ => .idle

def absEv (s : State) : Ev → List GetOrCreate.Ev
  | .probeUnlock t => [.probe t]
  | .recheck t => if s.slot.isSome then [.create t] else []
  | .allocReturn t => [.create t]
  | .finish t => [.finish t]
  | _ => []

def absEvs (s : State) : List Ev → List GetOrCreate.Ev
  | [] => []
  | e :: es => match step s e with
    | none => []
    | some s' => absEv s e ++ absEvs s' es

structure Sim (s : State) (a : GetOrCreate.State) : Prop where
  slot : a.slot = s.slot
  allocs : a.allocs = s.allocsDone
  nextId : a.nextId = s.nextId
  results : a.results = s.results
  pcs : ∀ t, GetOrCreate.lookupPc a.pcs t = absPc (lookupPc s.pcs t)
  nopanic : ∀ t, lookupPc s.pcs t ≠ .panicked

theorem sim_init : Sim init GetOrCreate.init := by
  constructor <;> simp [init, GetOrCreate.init, lookupPc, GetOrCreate.lookupPc, absPc]

theorem sim_pcs_eps {apcs : List (Nat × GetOrCreate.Pc)} {pcs : List (Nat × Pc)} {t : Nat} {q : Pc}
    (h : ∀ u, GetOrCreate.lookupPc apcs u = absPc (lookupPc pcs u)) (hq : absPc q = absPc (lookupPc pcs t)) :
    ∀ u, GetOrCreate.lookupPc apcs u = absPc (lookupPc (updPcs pcs t q) u) := by
  intro u
  by_cases hu : u = t
  · subst hu; rw [lookupPc_upd_same, hq]; exact h u
  · rw [lookupPc_upd_other _ _ _ _ hu]; exact h u

theorem sim_pcs_upd {apcs : List (Nat × GetOrCreate.Pc)} {pcs : List (Nat × Pc)} {t : Nat} {q : Pc}
    (h : ∀ u, GetOrCreate.lookupPc apcs u = absPc (lookupPc pcs u)) :
    ∀ u, GetOrCreate.lookupPc (GetOrCreate.updPcs apcs t (absPc q)) u = absPc (lookupPc (updPcs pcs t q) u) := by
  intro u
  by_cases hu : u = t
  · subst hu; rw [lookupPc_upd_same, C09.lookup_upd_same]
  · rw [lookupPc_upd_other _ _ _ _ hu, C09.lookup_upd_other _ _ _ _ hu]; exact h u

theorem sim_step {s s' : State} {a : GetOrCreate.State} {e : Ev} (hinv : Inv s) (hsim : Sim s a)
    (hs : step s e = some s') (hnp : ∀ t, e ≠ .allocPanic t) :
    ∃ a', GetOrCreate.run a (absEv s e) = some a' ∧ Sim s' a' := by
  obtain ⟨slot, writer, readers, allocs, allocsDone, nextId, pcs, results, panics, seen⟩ := s
  obtain ⟨aslot, aallocs, anextId, apcs, aresults⟩ := a
  obtain ⟨h1, h2, h3, h4, h5, h6⟩ := hsim
  simp only at h1 h2 h3 h4 h5 h6
  subst h1; subst h2; subst h3; subst h4
  cases e with
  | probeLock t =>
    simp only [step] at hs
    split at hs
    · rename_i hc; simp only [pcOf] at hc
      simp only [Option.some.injEq] at hs; subst hs
      exact ⟨_, rfl, rfl, rfl, rfl, rfl, sim_pcs_eps h5 (by rw [hc.1]; rfl),
        upd_all (R := fun q => q ≠ Pc.panicked) h6 (by simp)⟩
    · cases hs
  | probeUnlock t =>
    simp only [step] at hs
    split at hs
    · rename_i hpc; simp only [pcOf] at hpc
      have ha : GetOrCreate.lookupPc apcs t = .idle := by rw [h5 t, hpc]; rfl
      cases aslot with
      | some id =>
        simp only [Option.some.injEq] at hs; subst hs
        refine ⟨{ slot := some id, allocs := aallocs, nextId := anextId,
                  pcs := GetOrCreate.updPcs apcs t (.returned id), results := (t, id) :: aresults }, ?_, ?_⟩
        · simp [absEv, GetOrCreate.run, GetOrCreate.step, GetOrCreate.pcOf, ha]
        · exact ⟨rfl, rfl, rfl, rfl, sim_pcs_upd (q := .returned id) h5,
            upd_all (R := fun q => q ≠ Pc.panicked) h6 (by simp)⟩
      | none =>
        simp only [Option.some.injEq] at hs; subst hs
        refine ⟨{ slot := none, allocs := aallocs, nextId := anextId,
                  pcs := GetOrCreate.updPcs apcs t .missed, results := aresults }, ?_, ?_⟩
        · simp [absEv, GetOrCreate.run, GetOrCreate.step, GetOrCreate.pcOf, ha]
        · exact ⟨rfl, rfl, rfl, rfl, sim_pcs_upd (q := .missed) h5,
            upd_all (R := fun q => q ≠ Pc.panicked) h6 (by simp)⟩
    · cases hs
  | lock t =>
    simp only [step] at hs
    split at hs
    · rename_i hc; simp only [pcOf] at hc
      simp only [Option.some.injEq] at hs; subst hs
      exact ⟨_, rfl, rfl, rfl, rfl, rfl, sim_pcs_eps h5 (by rw [hc.1]; rfl),
        upd_all (R := fun q => q ≠ Pc.panicked) h6 (by simp)⟩
    · cases hs
  | recheck t =>
    simp only [step] at hs
    split at hs
    · rename_i hpc; simp only [pcOf] at hpc
      have ha : GetOrCreate.lookupPc apcs t = .missed := by rw [h5 t, hpc]; rfl
      cases aslot with
      | some id =>
        simp only [Option.some.injEq] at hs; subst hs
        refine ⟨{ slot := some id, allocs := aallocs, nextId := anextId,
                  pcs := GetOrCreate.updPcs apcs t (.returned id), results := (t, id) :: aresults }, ?_, ?_⟩
        · simp [absEv, GetOrCreate.run, GetOrCreate.step, GetOrCreate.pcOf, ha]
        · exact ⟨rfl, rfl, rfl, rfl, sim_pcs_upd (q := .returned id) h5,
            upd_all (R := fun q => q ≠ Pc.panicked) h6 (by simp)⟩
      | none =>
        simp only [Option.some.injEq] at hs; subst hs
        refine ⟨{ slot := none, allocs := aallocs, nextId := anextId, pcs := apcs, results := aresults },
          by simp [absEv, GetOrCreate.run], rfl, rfl, rfl, rfl, sim_pcs_eps h5 (by rw [hpc]; rfl),
          upd_all (R := fun q => q ≠ Pc.panicked) h6 (by simp)⟩
    · cases hs
  | allocReturn t =>
    simp only [step] at hs
    split at hs
    · rename_i hpc; simp only [pcOf] at hpc
      have ha : GetOrCreate.lookupPc apcs t = .missed := by rw [h5 t, hpc]; rfl
      have hsl : aslot = none := hinv.alloc_slot t hpc
      subst hsl
      simp only [Option.some.injEq] at hs; subst hs
      refine ⟨{ slot := some anextId, allocs := aallocs + 1, nextId := anextId + 1,
                pcs := GetOrCreate.updPcs apcs t (.returned anextId), results := (t, anextId) :: aresults }, ?_, ?_⟩
      · simp [absEv, GetOrCreate.run, GetOrCreate.step, GetOrCreate.pcOf, ha]
      · exact ⟨rfl, rfl, rfl, rfl, sim_pcs_upd (q := .returned anextId) h5,
          upd_all (R := fun q => q ≠ Pc.panicked) h6 (by simp)⟩
    · cases hs
  | allocPanic t => exact absurd rfl (hnp t)
  | finish t =>
    simp only [step] at hs
    split at hs
    · rename_i id hpc; simp only [pcOf] at hpc
      have ha : GetOrCreate.lookupPc apcs t = .returned id := by rw [h5 t, hpc]; rfl
      simp only [Option.some.injEq] at hs; subst hs
      refine ⟨{ slot := aslot, allocs := aallocs, nextId := anextId,
                pcs := GetOrCreate.updPcs apcs t .idle, results := aresults }, ?_, ?_⟩
      · simp [absEv, GetOrCreate.run, GetOrCreate.step, GetOrCreate.pcOf, ha]
      · exact ⟨rfl, rfl, rfl, rfl, sim_pcs_upd (q := .idle) h5,
          upd_all (R := fun q => q ≠ Pc.panicked) h6 (by simp)⟩
    · rename_i hpc; simp only [pcOf] at hpc
      exact absurd hpc (h6 t)
    · cases hs
  | passLock p =>
    simp only [step] at hs
    split at hs
    · rename_i hc; simp only [pcOf] at hc
      simp only [Option.some.injEq] at hs; subst hs
      exact ⟨_, rfl, rfl, rfl, rfl, rfl, sim_pcs_eps h5 (by rcases hc.1 with h | h <;> (rw [h]; rfl)),
        upd_all (R := fun q => q ≠ Pc.panicked) h6 (by simp)⟩
    · cases hs
  | passUnlock p =>
    simp only [step] at hs
    split at hs
    · rename_i hpc; simp only [pcOf] at hpc
      simp only [Option.some.injEq] at hs; subst hs
      exact ⟨_, rfl, rfl, rfl, rfl, rfl, sim_pcs_eps h5 (by rw [hpc]; rfl),
        upd_all (R := fun q => q ≠ Pc.panicked) h6 (by simp)⟩
    · cases hs

theorem go_run_append {a a1 a2 : GetOrCreate.State} {es1 es2 : List GetOrCreate.Ev}
    (h1 : GetOrCreate.run a es1 = some a1) (h2 : GetOrCreate.run a1 es2 = some a2) :
    GetOrCreate.run a (es1 ++ es2) = some a2 := by
  induction es1 generalizing a with
  | nil => simp only [GetOrCreate.run, Option.some.injEq] at h1; subst h1; exact h2
  | cons e es ih =>
    simp only [GetOrCreate.run, List.cons_append] at h1 ⊢
    cases hs : GetOrCreate.step a e with
    | none => simp [hs] at h1
    | some a' => simp only [hs] at h1 ⊢; exact ih h1

theorem sim_run {s s' : State} {a : GetOrCreate.State} {es : List Ev} (hinv : Inv s) (hsim : Sim s a)
    (hr : run s es = some s') (hnp : ∀ t, Ev.allocPanic t ∉ es) :
    ∃ a', GetOrCreate.run a (absEvs s es) = some a' ∧ Sim s' a' := by
  induction es generalizing s a with
  | nil => simp only [run, Option.some.injEq] at hr; subst hr; exact ⟨a, rfl, hsim⟩
  | cons e es ih =>
    simp only [run] at hr
    cases h1 : step s e with
    | none => simp [h1] at hr
    | some s1 =>
      simp only [h1] at hr
      obtain ⟨a1, hr1, hsim1⟩ := sim_step hinv hsim h1 (fun t he => hnp t (by rw [he]; simp))
      obtain ⟨a2, hr2, hsim2⟩ := ih (inv_step hinv h1) hsim1 hr (fun t hm => hnp t (List.mem_cons_of_mem _ hm))
      refine ⟨a2, ?_, hsim2⟩
      simp only [absEvs, h1]
      exact go_run_append hr1 hr2

/-- **refinement**: a run of the lock-level machine in which no `Allocate*` panics, with its lock events erased,
is a run of the atomic model `Tally.GetOrCreate`, ending in the corresponding state: same registered object, same
results in the same order, same ids, the atomic model's `allocs` being the `Allocate*` calls that returned, and
every thread at the corresponding pc. -/
theorem refines_atomic_model (es : List Ev) (s : State) (hr : run init es = some s)
    (hnp : ∀ t, Ev.allocPanic t ∉ es) :
    ∃ a, GetOrCreate.run GetOrCreate.init (absEvs init es) = some a ∧
      a.slot = s.slot ∧ a.allocs = s.allocsDone ∧ a.nextId = s.nextId ∧ a.results = s.results ∧
      (∀ t, GetOrCreate.pcOf a t = absPc (pcOf s t)) ∧ s.panics = [] := by
  obtain ⟨a, hra, hsim⟩ := sim_run inv_init sim_init hr hnp
  refine ⟨a, hra, hsim.slot, hsim.allocs, hsim.nextId, hsim.results, hsim.pcs, ?_⟩
  exact panics_nil_of_no_panic hr hnp rfl

/-! ## the machine without `defer`: a panic out of `Allocate*` leaves the write lock held for ever -/

/-- thread 0 misses, locks, allocates, the reporter panics, the application recovers; thread 1 misses and wants
the lock.  Without the deferred `Unlock` thread 1 can never take it, and no report pass can ever read the scope
again; with `defer` the very same schedule is accepted. -/
theorem legacy_panic_leaves_lock_held :
    Legacy.run init [.probeLock 0, .probeUnlock 0, .lock 0, .recheck 0, .allocPanic 0, .finish 0,
      .probeLock 1, .probeUnlock 1, .lock 1] = none ∧
    (Legacy.run init [.probeLock 0, .probeUnlock 0, .lock 0, .recheck 0, .allocPanic 0, .finish 0]).map (·.writer)
      = some (some 0) ∧
    Legacy.run init [.probeLock 0, .probeUnlock 0, .lock 0, .recheck 0, .allocPanic 0, .finish 0, .passLock 9] = none ∧
    Legacy.run init [.probeLock 0, .probeUnlock 0, .lock 0, .recheck 0, .allocPanic 0, .finish 0, .probeLock 1] = none ∧
    (run init [.probeLock 0, .probeUnlock 0, .lock 0, .recheck 0, .allocPanic 0, .finish 0,
      .probeLock 1, .probeUnlock 1, .lock 1]).isSome = true ∧
    (run init [.probeLock 0, .probeUnlock 0, .lock 0, .recheck 0, .allocPanic 0, .finish 0, .passLock 9]).isSome = true := by
  decide

/-- the same with thread 1 already waiting for the write lock when the reporter panics: `lock 1` is exactly the
event that is never enabled again on the `Legacy` machine, and it is enabled with `defer`. -/
theorem legacy_panic_blocks_waiting_writer :
    (Legacy.run init [.probeLock 0, .probeUnlock 0, .probeLock 1, .probeUnlock 1, .lock 0, .recheck 0, .allocPanic 0,
      .finish 0]).map (fun s => (s.writer, s.readers, pcOf s 0, pcOf s 1)) = some (some 0, [], .idle, .missed) ∧
    Legacy.run init [.probeLock 0, .probeUnlock 0, .probeLock 1, .probeUnlock 1, .lock 0, .recheck 0, .allocPanic 0,
      .finish 0, .lock 1] = none ∧
    (run init [.probeLock 0, .probeUnlock 0, .probeLock 1, .probeUnlock 1, .lock 0, .recheck 0, .allocPanic 0,
      .finish 0, .lock 1, .recheck 1, .allocReturn 1]).map (fun s => (s.writer, s.slot, s.results, s.panics))
      = some (none, some 0, [(1, 0)], [0]) := by
  decide

/-! ## decided runs -/

/-- a panic, the application recovers, another thread then creates the object, and the thread whose call
panicked finds it on its next call: two `Allocate*` calls, one returned, one panicked, one object. -/
example : run init [.probeLock 0, .probeUnlock 0, .lock 0, .recheck 0, .allocPanic 0, .finish 0,
      .probeLock 1, .probeUnlock 1, .lock 1, .recheck 1, .allocReturn 1, .probeLock 0, .probeUnlock 0]
    = some { slot := some 0, writer := none, readers := [], allocs := 2, allocsDone := 1, nextId := 1,
             pcs := [(0, .returned 0), (1, .returned 0)], results := [(0, 0), (1, 0)], panics := [0], seen := [] } := by
  decide

/-- while a thread is inside `Allocate*` a report pass cannot take the read lock (it has to wait — it never
sees a half-built scope); after `Allocate*` has returned it reads the registered object. -/
example :
    run init [.probeLock 0, .probeUnlock 0, .lock 0, .recheck 0, .passLock 9] = none ∧
    (run init [.probeLock 0, .probeUnlock 0, .lock 0, .recheck 0]).map (fun s => (pcOf s 0, s.writer, s.slot))
      = some (.allocating, some 0, none) ∧
    run init [.probeLock 0, .probeUnlock 0, .lock 0, .recheck 0, .allocReturn 0, .passLock 9, .passUnlock 9]
      = some { slot := some 0, writer := none, readers := [], allocs := 1, allocsDone := 1, nextId := 1,
               pcs := [(9, .passIdle), (0, .returned 0)], results := [(0, 0)], panics := [], seen := [(9, some 0)] } := by
  decide

/-- a pass that took the read lock before the writer asked reads `none`; the writer waits for it -/
example :
    run init [.probeLock 0, .probeUnlock 0, .passLock 9, .lock 0] = none ∧
    (run init [.probeLock 0, .probeUnlock 0, .passLock 9, .passUnlock 9, .lock 0, .recheck 0, .allocReturn 0]).map
      (fun s => (s.seen, s.slot)) = some ([(9, none)], some 0) := by
  decide

/-- the erasure of the refinement theorem on a run with two racing creators and a report pass -/
example :
    absEvs init [.probeLock 1, .probeLock 2, .probeUnlock 1, .probeUnlock 2, .passLock 9, .passUnlock 9, .lock 2,
      .recheck 2, .allocReturn 2, .lock 1, .recheck 1, .finish 1, .probeLock 1, .probeUnlock 1]
    = [.probe 1, .probe 2, .create 2, .create 1, .finish 1, .probe 1] := by decide

end Tally.Props.C09Lock
