import Tally.Model.Statsd
import Tally.Spec.C18
import TallyProofs.Lemmas.Digits
import TallyProofs.Lemmas.Statsd
import TallyProofs.Lemmas.Duration
/-!
# C18 — StatsD: each value forwarded once under a deterministic, distinct stat name

Property theorems only (helper lemmas: `TallyProofs/Lemmas/{Digits,Statsd,Duration}.lean`).
`Spec.C18.check` / `Spec.C18.holds` is the predicate the driver evaluates on the statter calls the
real reporter was observed to make; `Statsd.run` is the model of the reporter.  All theorems hold
for every option set (any rate bits, any precision), every name (any bytes), every tag list and
every value; the only domain restriction in the whole file is the one of Go's own `int64(v)`
conversion, which the spec does not judge outside `gaugeDomain`.
-/
namespace Tally.Props.C18
open Tally Tally.Statsd Tally.Spec.C18 Tally.Lemmas.Digits Tally.Lemmas.Statsd Tally.Lemmas.Duration

/-! ## the rendered bounds are the ones the spec demands -/

/-- **value bounds**: for every float64 and every precision `N ≥ 1` the model's bound text is
accepted by the spec: `±infinity` for `±MaxFloat64`, otherwise `-?ddd.ddd` with `N` fractional
digits denoting a nearest-even rounding of the exact binary value, sign from the sign bit. -/
theorem valueBound_ok (N : Nat) (hN : 0 < N) (x : F64) :
    valueBoundOk N x (valueBucketString N x) = true := by
  unfold valueBoundOk valueBucketString
  split
  · rfl
  · split
    · rfl
    · split
      · exact fmtFixed_shape N x
      · next hf =>
        have hf' : F64.isFinite x = true := by simpa using hf
        rw [parseFixed_fmtFixed N hN hf']
        simp [isRounded_scaled]

example : valueBoundOk 6 0x3FC0000000000000 [48, 46, 49, 50, 53, 48, 48, 48] = true   -- 0.125 ↦ "0.125000"
    ∧ valueBoundOk 2 0x3FC0000000000000 [48, 46, 49, 50] = true                      -- tie 0.125 ↦ "0.12" (even)
    ∧ valueBoundOk 2 0x3FC0000000000000 [48, 46, 49, 51] = false                     -- "0.13" is the odd neighbour
    ∧ valueBoundOk 2 0x3FD8000000000000 [48, 46, 51, 56] = true := by decide          -- tie 0.375 ↦ "0.38"

/-- **duration bounds**: for every integer the model's bound text is accepted by the spec:
`±infinity` for `MaxInt64` / `MinInt64`, otherwise a text in Go duration syntax that parses back
to exactly the duration. -/
theorem durationBound_ok (d : Int) : durationBoundOk d (durationBucketString d) = true := by
  unfold durationBoundOk durationBucketString
  by_cases h1 : d = maxInt64
  · simp [h1]; rfl
  · by_cases h2 : d = minInt64
    · simp [h2]; rfl
    · simp only [h1, h2, beq_iff_eq, if_false]
      simp [durationString_shape, parseDuration_durationString]

example : durationBoundOk 1500000000 [49, 46, 53, 115] = true                       -- 1.5s
    ∧ durationBoundOk (-90000000000) [45, 49, 109, 51, 48, 115] = true               -- -1m30s
    ∧ durationBoundOk 1500000000 [49, 46, 53, 109, 115] = false := by decide          -- 1.5ms is another duration

theorem valueBucketString_shape (N : Nat) (x : F64) : shapeOk (valueBucketString N x) = true := by
  unfold valueBucketString
  split
  · decide
  · split
    · decide
    · exact fmtFixed_shape N x

theorem durationBucketString_shape (d : Int) : shapeOk (durationBucketString d) = true := by
  unfold durationBucketString
  split
  · decide
  · split
    · decide
    · exact durationString_shape d

/-! ## the property on the model -/

/-- **C18 holds for the model, at full strength**: for every option set, every report call
(any name bytes, any tags, any int64 / float64 / duration, any pair of bucket bounds) the calls the
model makes satisfy the very predicate the oracle evaluates on the real reporter's calls:
exactly one call of the right kind, with the name (resp. `name.lower-upper` parsed back and each
bound judged), the value (gauges truncated where Go defines the conversion), the effective sample
rate, and no client tags. -/
theorem spec_holds_on_model (o : Options) (rep : Report) : holds o rep (run o rep) = true := by
  have hN := effPrec_pos o
  unfold holds check
  cases rep with
  | counter n t v => simp [run, effRate_eq]
  | gauge n t v => simp [run, effRate_eq, isTrunc_truncInt]
  | timer n t d => simp [run, effRate_eq]
  | histValue n t lo hi s =>
    simp only [run, effRate_eq, bne_self_eq_false, Bool.false_eq_true, if_false]
    rw [bucketBounds_bucketName _ _ _ (valueBucketString_shape _ lo)]
    simp [← effPrec_eq, valueBound_ok _ hN]
  | histDuration n t lo hi s =>
    simp only [run, effRate_eq, bne_self_eq_false, Bool.false_eq_true, if_false]
    rw [bucketBounds_bucketName _ _ _ (durationBucketString_shape lo)]
    simp [durationBound_ok]

example : (run ⟨0, 0⟩ (.histValue [104] [] F64.negMaxFloat 0x4004000000000000 3)).map
      (fun c => (c.kind, c.name, c.value, c.rate, c.ntags))
    = [(.inc, [104, 46, 45, 105, 110, 102, 105, 110, 105, 116, 121, 45, 50, 46, 53, 48, 48, 48, 48, 48], 3, 0x3F800000, 0)] := by
  decide  -- Inc("h.-infinity-2.500000", 3, 1.0)

/-- **one call per report call**, spelled out: the call list is a singleton, it carries the
effective sample rate (the configured one, `1.0` when unset), passes no client tags, and has
the kind, name and value of the report call. -/
theorem one_call_per_report (o : Options) (rep : Report) :
    ∃ c, run o rep = [c]
      ∧ c.rate = (if o.rate.toNat % 2 ^ 31 = 0 then 0x3F800000 else o.rate)
      ∧ c.ntags = 0
      ∧ (match rep with
         | .counter n _ v => c.kind = .inc ∧ c.name = n ∧ c.value = v
         | .gauge n _ v => c.kind = .gauge ∧ c.name = n ∧ isTrunc v c.value = true
         | .timer n _ d => c.kind = .timing ∧ c.name = n ∧ c.value = d
         | .histValue n _ lo hi s => c.kind = .inc ∧ c.value = s ∧
             c.name = n ++ [46] ++ valueBucketString (effPrec o) lo ++ [45] ++ valueBucketString (effPrec o) hi
         | .histDuration n _ lo hi s => c.kind = .inc ∧ c.value = s ∧
             c.name = n ++ [46] ++ durationBucketString lo ++ [45] ++ durationBucketString hi) := by
  have hr : effRate o = (if o.rate.toNat % 2 ^ 31 = 0 then 0x3F800000 else o.rate) := by
    unfold effRate rateIsZero rateOne
    by_cases h : o.rate.toNat % 2 ^ 31 = 0 <;> simp [h]
  cases rep with
  | counter n t v => exact ⟨_, rfl, hr, rfl, rfl, rfl, rfl⟩
  | gauge n t v => exact ⟨_, rfl, hr, rfl, rfl, rfl, isTrunc_truncInt v⟩
  | timer n t d => exact ⟨_, rfl, hr, rfl, rfl, rfl, rfl⟩
  | histValue n t lo hi s => exact ⟨_, rfl, hr, rfl, rfl, rfl, by simp [bucketName, bDot, bDash]⟩
  | histDuration n t lo hi s => exact ⟨_, rfl, hr, rfl, rfl, rfl, by simp [bucketName, bDot, bDash]⟩

example : (run ⟨0x3F000000, 3⟩ (.gauge [103] [([1], [2])] 0xC004000000000000)) = [⟨.gauge, [103], -2, 0x3F000000, 0⟩] := by
  decide  -- gauge -2.5 at rate 0.5 → Gauge("g", -2, 0.5)

/-- **bucket name format**: the stat name of a bucket report is `name.lower-upper`: parsing it back
with the report's name gives exactly the two rendered bounds, each of which the spec accepts for
the corresponding bound of the report call (lower first, upper second). -/
theorem bucket_name_format (o : Options) (n : Bytes) (t : Tags) (s : Int) :
    (∀ lo hi : F64, ∃ c, run o (.histValue n t lo hi s) = [c] ∧ ∃ l h, bucketBounds n c.name = some (l, h)
        ∧ valueBoundOk (expPrec o) lo l = true ∧ valueBoundOk (expPrec o) hi h = true)
    ∧ (∀ lo hi : Int, ∃ c, run o (.histDuration n t lo hi s) = [c] ∧ ∃ l h, bucketBounds n c.name = some (l, h)
        ∧ durationBoundOk lo l = true ∧ durationBoundOk hi h = true) := by
  constructor
  · intro lo hi
    refine ⟨_, rfl, _, _, bucketBounds_bucketName _ _ _ (valueBucketString_shape _ lo), ?_, ?_⟩
    · rw [← effPrec_eq]; exact valueBound_ok _ (effPrec_pos o) lo
    · rw [← effPrec_eq]; exact valueBound_ok _ (effPrec_pos o) hi
  · intro lo hi
    exact ⟨_, rfl, _, _, bucketBounds_bucketName _ _ _ (durationBucketString_shape lo),
      durationBound_ok lo, durationBound_ok hi⟩

/-- the truncated gauge value is an int64 exactly on the domain where Go defines `int64(v)` -/
theorem gauge_domain (v : F64) : gaugeInDomain v = gaugeDomain v := by
  have hd : 0 < F64.den v := Nat.pow_pos (by decide)
  unfold gaugeInDomain gaugeDomain truncInt inInt64 minInt64 maxInt64 two63
  cases hf : F64.isFinite v with
  | false => simp
  | true =>
    simp only [Bool.true_and]
    have hdm := Nat.div_add_mod (F64.num v) (F64.den v)
    have hr : F64.num v % F64.den v < F64.den v := Nat.mod_lt _ hd
    generalize hq : F64.num v / F64.den v = q at *
    generalize F64.num v % F64.den v = r at *
    have hc : F64.den v * q = q * F64.den v := Nat.mul_comm _ _
    cases hs : F64.signBit v with
    | true =>
      simp only [if_true]
      rw [Bool.eq_iff_iff]
      simp only [Bool.and_eq_true, decide_eq_true_eq]
      rw [← hdm, Nat.add_mul]
      constructor
      · intro ⟨h1, _⟩
        have hq' : q ≤ 9223372036854775808 := by omega
        have := Nat.mul_le_mul_right (F64.den v) hq'
        omega
      · intro h
        have hq' : q ≤ 9223372036854775808 := by
          apply Nat.le_of_not_lt; intro hlt
          have := Nat.mul_le_mul_right (F64.den v) (show 9223372036854775809 ≤ q by omega)
          rw [show (9223372036854775809 : Nat) = 2 ^ 63 + 1 by decide, Nat.add_mul] at this
          omega
        constructor <;> omega
    | false =>
      simp only [Bool.false_eq_true, if_false, Nat.add_zero]
      rw [Bool.eq_iff_iff]
      simp only [Bool.and_eq_true, decide_eq_true_eq]
      rw [← hdm]
      constructor
      · intro ⟨_, h2⟩
        have hq' : q + 1 ≤ 9223372036854775808 := by omega
        have := Nat.mul_le_mul_right (F64.den v) hq'
        rw [Nat.add_mul] at this
        omega
      · intro h
        have hq' : q < 9223372036854775808 := by
          apply Nat.lt_of_not_le; intro hge
          have := Nat.mul_le_mul_right (F64.den v) hge
          omega
        constructor <;> omega

/-! ## extremes -/

/-- **extremes rendered**: `-MaxFloat64` / `MinInt64` ↦ `-infinity`, `MaxFloat64` / `MaxInt64` ↦
`infinity`, at every precision; and no other bound is rendered as either text. -/
theorem extremes_rendered (N : Nat) :
    valueBucketString N F64.negMaxFloat = negInfinity ∧ valueBucketString N F64.maxFloat = infinity
    ∧ durationBucketString minInt64 = negInfinity ∧ durationBucketString maxInt64 = infinity := by
  refine ⟨?_, ?_, ?_, ?_⟩ <;> first | rfl | decide

/-- only the extreme value bounds are rendered as `infinity` / `-infinity` (finite bounds, `N ≥ 1`) -/
theorem extremes_only_value (N : Nat) (hN : 0 < N) (x : F64) (hx : F64.isFinite x = true) :
    (valueBucketString N x = infinity ↔ x = F64.maxFloat)
    ∧ (valueBucketString N x = negInfinity ↔ x = F64.negMaxFloat) := by
  have hp := parseFixed_fmtFixed N hN hx
  obtain ⟨hi1, hi2⟩ := parseFixed_infinity N
  have hne : F64.maxFloat ≠ F64.negMaxFloat := by decide
  unfold valueBucketString
  constructor
  · constructor
    · intro h
      by_cases h1 : x = F64.maxFloat
      · exact h1
      · by_cases h2 : x = F64.negMaxFloat
        · simp [h2, sInfinity, sNegInfinity, infinity, bDash] at h
          exact absurd h hne.symm
        · simp only [h1, h2, beq_iff_eq, if_false] at h
          rw [h, hi1] at hp; cases hp
    · intro h; subst h; simp; rfl
  · constructor
    · intro h
      by_cases h1 : x = F64.maxFloat
      · simp [h1, sInfinity, negInfinity] at h
      · by_cases h2 : x = F64.negMaxFloat
        · exact h2
        · simp only [h1, h2, beq_iff_eq, if_false] at h
          rw [h, hi2] at hp; cases hp
    · intro h; subst h; simp [hne.symm]; rfl

/-- only the extreme durations are rendered as `infinity` / `-infinity` -/
theorem extremes_only_duration (d : Int) :
    (durationBucketString d = infinity ↔ d = maxInt64) ∧ (durationBucketString d = negInfinity ↔ d = minInt64) := by
  have hp := parseDuration_durationString d
  have hi1 : parseDuration infinity = none := by decide
  have hi2 : parseDuration negInfinity = none := by decide
  have hne : maxInt64 ≠ minInt64 := by decide
  unfold durationBucketString
  constructor
  · constructor
    · intro h
      by_cases h1 : d = maxInt64
      · exact h1
      · by_cases h2 : d = minInt64
        · simp [h2, sInfinity, sNegInfinity, infinity, bDash] at h
          exact absurd h hne.symm
        · simp only [h1, h2, if_false] at h
          rw [h, hi1] at hp; cases hp
    · intro h; subst h; simp; rfl
  · constructor
    · intro h
      by_cases h1 : d = maxInt64
      · simp [h1, sInfinity, negInfinity] at h
      · by_cases h2 : d = minInt64
        · exact h2
        · simp only [h1, h2, if_false] at h
          rw [h, hi2] at hp; cases hp
    · intro h; subst h; simp [hne.symm]; rfl

/-! ## distinct stat names -/

/-- **the split point is unique**: if `a` and `c` have the bound shape (non-empty beyond an optional
leading `-`, no `-` after index 0) then `a-b = c-d` forces `a = c` and `b = d` — even when `b`
or `d` start with `-` themselves, as in `1.0--2.0`. -/
theorem join_injective (a b c d : Bytes) (ha : shapeOk a = true) (hc : shapeOk c = true)
    (h : a ++ dash :: b = c ++ dash :: d) : a = c ∧ b = d := by
  have h1 := splitBounds_join a b ha
  have h2 := splitBounds_join c d hc
  rw [h, h2] at h1
  simp only [Option.some.injEq, Prod.mk.injEq] at h1
  exact ⟨h1.1.symm, h1.2.symm⟩

example : shapeOk [49, 46, 48] = true ∧ shapeOk [45, 50, 46, 48] = true
    ∧ splitBounds [49, 46, 48, 45, 45, 50, 46, 48] = some ([49, 46, 48], [45, 50, 46, 48]) := by
  decide  -- "1.0--2.0" ↦ ("1.0", "-2.0")

/-- the shape hypothesis is needed: without it `"" ++ "-" ++ "-x" = "-" ++ "-" ++ "x"` -/
example : ([] : Bytes) ++ dash :: [dash, 120] = [dash] ++ dash :: [120] ∧ ([] : Bytes) ≠ [dash] := by decide

theorem bucketName_injective (n a b c d : Bytes) (ha : shapeOk a = true) (hc : shapeOk c = true)
    (h : bucketName n a b = bucketName n c d) : a = c ∧ b = d := by
  unfold bucketName at h
  have h' := List.append_cancel_left h
  simp only [List.cons.injEq, true_and] at h'
  exact join_injective a b c d ha hc h'

/-- **bucket names distinct (values)**: two buckets of one histogram (same name, same options)
share a stat name only if both rendered bounds coincide — for all float64 bounds. -/
theorem bucket_names_distinct (o : Options) (n : Bytes) (t1 t2 : Tags) (lo1 hi1 lo2 hi2 : F64) (s1 s2 : Int)
    (h : (run o (.histValue n t1 lo1 hi1 s1)).map (·.name) = (run o (.histValue n t2 lo2 hi2 s2)).map (·.name)) :
    valueBucketString (effPrec o) lo1 = valueBucketString (effPrec o) lo2
    ∧ valueBucketString (effPrec o) hi1 = valueBucketString (effPrec o) hi2 := by
  simp only [run, List.map_cons, List.map_nil, List.cons.injEq, and_true] at h
  exact bucketName_injective n _ _ _ _ (valueBucketString_shape _ _) (valueBucketString_shape _ _) h

/-- what "the bounds differ at that precision" means: two finite, non-extreme bounds have the
same text iff they have the same sign bit and the same half-even rounding of `|x|·10^N`. -/
theorem value_text_eq_iff (N : Nat) (hN : 0 < N) (x y : F64)
    (hx : F64.isFinite x = true) (hy : F64.isFinite y = true) :
    fmtFixed N x = fmtFixed N y ↔ (F64.signBit x = F64.signBit y ∧ scaled N x = scaled N y) := by
  constructor
  · intro h
    have h1 := parseFixed_fmtFixed N hN hx
    rw [h, parseFixed_fmtFixed N hN hy] at h1
    simp only [Option.some.injEq, Prod.mk.injEq] at h1
    exact ⟨h1.1.symm, h1.2.symm⟩
  · intro ⟨h1, h2⟩
    rw [fmtFixed_finite N hx, fmtFixed_finite N hy, h1, h2]

/-- **bucket names distinct (durations)**: the duration renderer is injective on all integers, so
two duration buckets of one histogram share a stat name only if they have the same bounds. -/
theorem durationBucketString_injective (a b : Int) (h : durationBucketString a = durationBucketString b) : a = b := by
  obtain ⟨a1, a2⟩ := extremes_only_duration a
  obtain ⟨b1, b2⟩ := extremes_only_duration b
  by_cases ha : a = maxInt64
  · have := b1.mp (h ▸ a1.mpr ha); omega
  · by_cases ha' : a = minInt64
    · have := b2.mp (h ▸ a2.mpr ha'); omega
    · by_cases hb : b = maxInt64
      · exact absurd (a1.mp (h ▸ b1.mpr hb)) ha
      · by_cases hb' : b = minInt64
        · exact absurd (a2.mp (h ▸ b2.mpr hb')) ha'
        · unfold durationBucketString at h
          simp only [ha, ha', hb, hb', if_false] at h
          have h1 := parseDuration_durationString a
          rw [h, parseDuration_durationString b] at h1
          simp only [Option.some.injEq] at h1
          exact h1.symm

theorem bucket_names_distinct_duration (o : Options) (n : Bytes) (t1 t2 : Tags) (lo1 hi1 lo2 hi2 : Int) (s1 s2 : Int)
    (h : (run o (.histDuration n t1 lo1 hi1 s1)).map (·.name) = (run o (.histDuration n t2 lo2 hi2 s2)).map (·.name)) :
    lo1 = lo2 ∧ hi1 = hi2 := by
  simp only [run, List.map_cons, List.map_nil, List.cons.injEq, and_true] at h
  have := bucketName_injective n _ _ _ _ (durationBucketString_shape _) (durationBucketString_shape _) h
  exact ⟨durationBucketString_injective _ _ this.1, durationBucketString_injective _ _ this.2⟩

/-- non-vacuity: adjacent buckets `(1, 2.5]` and `(2.5, 10]` get different names, while bounds that
agree at the precision (`0.1234561`, `0.1234564` at 6 digits) render identically -/
example : (run ⟨0, 0⟩ (.histValue [104] [] 0x3FF0000000000000 0x4004000000000000 1)).map (·.name)
      ≠ (run ⟨0, 0⟩ (.histValue [104] [] 0x4004000000000000 0x4024000000000000 1)).map (·.name) := by decide
example : fmtFixed 6 0x3FBF9AD1A7FDE06B = fmtFixed 6 0x3FBF9AD6B07B5D6E
    ∧ F64.isFinite 0x3FBF9AD1A7FDE06B = true ∧ F64.isFinite 0x3FBF9AD6B07B5D6E = true
    ∧ scaled 6 0x3FBF9AD1A7FDE06B = 123456 := by decide

/-! ## tags and capabilities -/

/-- **tags ignored**: the statter calls do not depend on the tags of the report call -/
theorem tags_ignored (o : Options) (rep : Report) (t : Tags) : run o (rep.withTags t) = run o rep := by
  cases rep <;> rfl

example : run ⟨0, 0⟩ (.counter [99] [([107], [118])] 5) = run ⟨0, 0⟩ (.counter [99] [] 5) := by decide

/-- **capabilities**: reporting without tagging -/
theorem capabilities : capsOk reporting tagging = true := rfl

end Tally.Props.C18
