import Tally.Model.MultiNested
import Tally.Spec.C19
import TallyProofs.Lemmas.Multi
import TallyProofs.Props.C19
/-!
# C19, nested — "a multi reporter is a reporter": nesting equals flattening

`Tally/Model/MultiNested.lean` models an outer multi reporter whose children are groups, a group
being a bare leaf or an inner multi reporter (`Multi.State`, received calls by `Multi.step`).  The
validation harness builds such configurations and compares the leaves' logs with the FLAT model
`Multi.run fl (all leaves, left to right) hist`.  This file proves that this is sound:

* `nested_eq_flat` — for every flavour, every grouping (`List GroupSpec`: each group says whether it is
  a bare leaf or an inner multi reporter over a list of leaves, so a one-leaf group occurs in both
  forms) and EVERY history (handle calls included, ill-formed histories included): the nested run is
  defined iff the flat run is, and then the leaves' logs (calls, arguments, handle ordinals, sequence
  numbers) are the flat model's children's logs and the capabilities are the flat model's.
* `nested_eq_flat_lists` — the same with the grouping given as `gs : List (List Caps)` and the flat
  reporter over `gs.flatten`; a flag says whether one-element lists are bare leaves or inner reporters.
* `nested_capabilities_conjunction` — the capabilities are the conjunction over all leaves.

Method: as for C19 itself, the state after a history has a closed form (`nclosed`), in which every
handle ordinal on every level is the ordinal of the allocation in the history; one step from the closed
form is computed for calls that can be written (`step_nclosed`) and for calls that cannot
(`step_nclosed_refused`).
-/
namespace Tally.Props.C19Nested
open Tally Tally.Multi Tally.Lemmas.Multi
open Tally.MultiNested (Group GroupSpec flatCaps)

/-! ### `perChild` on both levels is one function of (number of children, handle tables) -/

/-- the body shared by `Multi.perChild` and `MultiNested.perChild` -/
def pc (n : Nat) (ms : List (Kind × List Nat)) (bs : List (List Nat)) (x : Call) : Option (List Call) :=
  match x.metricRef, x.bucketRef with
  | some (h, k), _ =>
    match ms[h]? with
    | some (k', ids) => if k' = k then some (ids.map fun id => x.withHandle id) else none
    | none => none
  | none, some b =>
    match bs[b]? with
    | some ids => some (ids.map fun id => x.withHandle id)
    | none => none
  | none, none => some (List.replicate n x)

theorem multi_perChild (st : Multi.State) (x : Call) :
    Multi.perChild st x = pc st.children.length st.metrics st.buckets x := rfl

theorem nested_perChild (st : MultiNested.State) (x : Call) :
    MultiNested.perChild st x = pc st.groups.length st.metrics st.buckets x := rfl

/-- the metric-handle table of a multi reporter over `n` children after `hist`: handle `k` is the
list of every child's handle `k` -/
def hMetrics (n : Nat) (hist : List Call) : List (Kind × List Nat) :=
  (allocKinds hist).zipIdx.map fun p => (p.1, List.replicate n p.2)

/-- likewise the bucket-handle table -/
def hBuckets (n : Nat) (hist : List Call) : List (List Nat) :=
  (List.range (numBuckets hist)).map fun k => List.replicate n k

theorem length_hMetrics (n : Nat) (hist : List Call) : (hMetrics n hist).length = (allocKinds hist).length := by
  simp [hMetrics]

theorem length_hBuckets (n : Nat) (hist : List Call) : (hBuckets n hist).length = numBuckets hist := by
  simp [hBuckets]

theorem hMetrics_snoc (n : Nat) (hist : List Call) (x : Call) :
    hMetrics n (hist ++ [x]) = match x.allocKind with
      | some k => hMetrics n hist ++ [(k, List.replicate n (allocKinds hist).length)]
      | none => hMetrics n hist := by
  unfold hMetrics
  rw [allocKinds_snoc]
  cases x.allocKind <;> simp [List.zipIdx_append]

theorem hBuckets_snoc (n : Nat) (hist : List Call) (x : Call) :
    hBuckets n (hist ++ [x]) =
      if x.makesBucket then hBuckets n hist ++ [List.replicate n (numBuckets hist)] else hBuckets n hist := by
  unfold hBuckets
  rw [numBuckets_snoc]
  cases x.makesBucket <;> simp [List.range_succ]

/-- a call that can be written after `hist` goes to every child unchanged: the handle it names has the
same ordinal on the level below -/
theorem pc_ok (fl : Flavour) (n : Nat) (hist : List Call) (x : Call) (hok : callOk fl hist x = true) :
    pc n (hMetrics n hist) (hBuckets n hist) x = some (List.replicate n x) := by
  simp only [callOk, Bool.and_eq_true] at hok
  obtain ⟨⟨_, hm⟩, hb⟩ := hok
  unfold pc
  cases hmr : x.metricRef with
  | some r =>
    obtain ⟨h, k⟩ := r
    simp only [hmr, beq_iff_eq] at hm
    simp only [hMetrics, List.getElem?_map, List.getElem?_zipIdx, hm, Option.map_some, Nat.zero_add,
      if_true, List.map_replicate, withHandle_metricRef hmr]
  | none =>
    cases hbr : x.bucketRef with
    | some b =>
      simp only [hbr, decide_eq_true_eq] at hb
      simp only [hBuckets, List.getElem?_map, List.getElem?_range hb, Option.map_some,
        List.map_replicate, withHandle_bucketRef hbr]
    | none => simp

/-- a call of the right flavour that cannot be written after `hist` names a handle that is not in the
table (or has another kind) -/
theorem pc_refused (fl : Flavour) (n : Nat) (hist : List Call) (x : Call)
    (hfl : x.flavourOk fl = true) (hok : callOk fl hist x = false) :
    pc n (hMetrics n hist) (hBuckets n hist) x = none := by
  simp only [callOk, hfl, Bool.true_and, Bool.and_eq_false_iff] at hok
  rcases hok with hm | hb
  · cases hmr : x.metricRef with
    | none => simp [hmr] at hm
    | some r =>
      obtain ⟨hh, k⟩ := r
      simp only [hmr] at hm
      simp only [pc, hmr, hMetrics, List.getElem?_map, List.getElem?_zipIdx, Nat.zero_add]
      cases hk : (allocKinds hist)[hh]? with
      | none => simp
      | some kd =>
        have hne : kd ≠ k := by
          intro he; simp [hk, he] at hm
        simp [hne]
  · cases hbr : x.bucketRef with
    | none => simp [hbr] at hb
    | some b =>
      simp only [hbr, decide_eq_false_iff_not, Nat.not_lt] at hb
      cases hmr : x.metricRef with
      | some r =>
        have := metricRef_bucketRef hmr
        rw [hbr] at this; cases this
      | none =>
        simp only [pc, hmr, hbr, hBuckets, List.getElem?_map]
        have : (List.range (numBuckets hist))[b]? = none := by
          apply List.getElem?_eq_none; simpa using hb
        simp [this]

/-! ### closed form of the nested state -/

/-- what every leaf (and hence every inner multi reporter) returns for `x` after `hist`: the ordinal of
the allocation in the history -/
def ret (hist : List Call) (x : Call) : Nat :=
  match x.allocKind with
  | some _ => (allocKinds hist).length
  | none => if x.makesBucket then numBuckets hist else 0

/-- the value an inner multi reporter's own `seq` field is left with: where the shared counter stood
when the inner reporter finished the last call (it is overwritten at the next call) -/
def lastSeq (N : Nat) : Nat → Nat → Nat → Nat
  | 0, _, _ => 0
  | k + 1, o, w => k * N + o + w

/-- the leaves with capabilities `cs`, the first of which is leaf number `o` of `N`, after `hist` -/
def leavesAfter (N : Nat) (hist : List Call) (cs : List Caps) (o : Nat) : List Child :=
  (cs.zipIdx o).map fun p => childAfter N hist p.1 p.2

/-- an inner multi reporter over leaves number `o, o+1, …` of `N`, after `hist` -/
def innerAfter (fl : Flavour) (N : Nat) (hist : List Call) (cs : List Caps) (o : Nat) : Multi.State :=
  { flavour := fl
    children := leavesAfter N hist cs o
    seq := lastSeq N hist.length o cs.length
    metrics := hMetrics cs.length hist
    buckets := hBuckets cs.length hist }

def groupAfter (fl : Flavour) (N : Nat) (hist : List Call) : GroupSpec → Nat → Group
  | .leaf c, o => .leaf (childAfter N hist c o)
  | .inner cs, o => .inner (innerAfter fl N hist cs o)

def groupsAfter (fl : Flavour) (N : Nat) (hist : List Call) : List GroupSpec → Nat → List Group
  | [], _ => []
  | g :: gs, o => groupAfter fl N hist g o :: groupsAfter fl N hist gs (o + g.caps.length)

/-- the nested reporter after `hist` -/
def nclosed (fl : Flavour) (gs : List GroupSpec) (hist : List Call) : MultiNested.State :=
  { flavour := fl
    groups := groupsAfter fl (flatCaps gs).length hist gs 0
    seq := hist.length * (flatCaps gs).length
    metrics := hMetrics gs.length hist
    buckets := hBuckets gs.length hist }

theorem flatCaps_cons (g : GroupSpec) (gs : List GroupSpec) : flatCaps (g :: gs) = g.caps ++ flatCaps gs := by
  simp [flatCaps]

theorem length_leavesAfter (N : Nat) (hist : List Call) (cs : List Caps) (o : Nat) :
    (leavesAfter N hist cs o).length = cs.length := by
  simp [leavesAfter]

theorem length_groupsAfter (fl : Flavour) (N : Nat) (hist : List Call) (gs : List GroupSpec) (o : Nat) :
    (groupsAfter fl N hist gs o).length = gs.length := by
  induction gs generalizing o with
  | nil => rfl
  | cons g gs ih => simp [groupsAfter, ih]

theorem leavesAfter_nil (N : Nat) (cs : List Caps) (o : Nat) :
    leavesAfter N [] cs o = cs.map fun c => ({ caps := c } : Child) := by
  have : (fun p : Caps × Nat => childAfter N [] p.1 p.2) = (fun c => ({ caps := c } : Child)) ∘ Prod.fst := by
    funext p; simp [childAfter, allocKinds, numBuckets]
  unfold leavesAfter
  rw [this, ← List.map_map, List.zipIdx_map_fst]

/-! ### one call on one group -/

theorem leaves_call (N : Nat) (hist : List Call) (cs : List Caps) (o : Nat) (x : Call) :
    ((leavesAfter N hist cs o).zipIdx (hist.length * N + o)).map (fun p => (p.1.call p.2 x).1)
      = leavesAfter N (hist ++ [x]) cs o := by
  apply List.ext_getElem?
  intro i
  simp only [leavesAfter, List.getElem?_map, List.getElem?_zipIdx, Option.map_map]
  cases cs[i]? with
  | none => rfl
  | some cap =>
    simp only [Option.map_some, Function.comp_apply, Option.some.injEq]
    have h := call_childAfter N hist cap (o + i) x
    rw [← Nat.add_assoc] at h
    exact h

theorem leaves_ret (N : Nat) (hist : List Call) (cs : List Caps) (o : Nat) (x : Call) :
    (leavesAfter N hist cs o).map (fun c => (c.call 0 x).2) = List.replicate cs.length (ret hist x) := by
  simp only [leavesAfter, List.map_map]
  rw [← List.length_zipIdx (l := cs) (i := o), ← List.map_const']
  apply List.map_congr_left
  intro p _
  show ((childAfter N hist p.1 p.2).call 0 x).2 = ret hist x
  rw [ret_childAfter]
  rfl

/-- an inner multi reporter handed a call that can be written: it accepts, all its leaves get the call
at consecutive times starting from the shared counter, and it is in closed form again -/
theorem step_innerAfter (fl : Flavour) (N : Nat) (hist : List Call) (cs : List Caps) (o : Nat) (x : Call)
    (hok : callOk fl hist x = true) :
    Multi.step { innerAfter fl N hist cs o with seq := hist.length * N + o } x
      = some (innerAfter fl N (hist ++ [x]) cs o) := by
  have hfl : x.flavourOk fl = true := by
    simp only [callOk, Bool.and_eq_true] at hok; exact hok.1.1
  have hfan := fan_replicate (leavesAfter N hist cs o) x (hist.length * N + o)
  rw [length_leavesAfter, leaves_call, leaves_ret] at hfan
  have hpc : Multi.perChild { innerAfter fl N hist cs o with seq := hist.length * N + o } x
      = some (List.replicate cs.length x) := by
    rw [multi_perChild]
    simp only [innerAfter, length_leavesAfter]
    exact pc_ok fl cs.length hist x hok
  have hfl' : x.flavourOk ({ innerAfter fl N hist cs o with seq := hist.length * N + o } : Multi.State).flavour
      = true := hfl
  simp only [Multi.step, hpc, hfl', Bool.not_true, Bool.false_eq_true, if_false]
  simp only [innerAfter, hfan, hMetrics_snoc, hBuckets_snoc, List.length_append, List.length_singleton, lastSeq]
  cases hk : x.allocKind with
  | some k => simp [ret, hk, alloc_not_bucket hk]
  | none => cases hb : x.makesBucket <;> simp [ret, hk, hb]

theorem call_groupAfter (fl : Flavour) (N : Nat) (hist : List Call) (x : Call)
    (hok : callOk fl hist x = true) (g : GroupSpec) (o : Nat) :
    (groupAfter fl N hist g o).call (hist.length * N + o) x
      = some (groupAfter fl N (hist ++ [x]) g o, ret hist x, hist.length * N + o + g.caps.length) := by
  cases g with
  | leaf c =>
    simp only [groupAfter, Group.call, call_childAfter, ret_childAfter, GroupSpec.caps, List.length_singleton]
    rfl
  | inner cs =>
    simp only [groupAfter, Group.call, step_innerAfter fl N hist cs o x hok, GroupSpec.caps]
    have hh : Group.innerHandle (innerAfter fl N hist cs o) x = ret hist x := by
      simp only [Group.innerHandle, innerAfter, length_hMetrics, length_hBuckets]
      rfl
    have hs : (innerAfter fl N (hist ++ [x]) cs o).seq = hist.length * N + o + cs.length := by
      simp [innerAfter, lastSeq]
    rw [hh, hs]

/-! ### one call on the nested reporter -/

theorem fan_groupsAfter (fl : Flavour) (N : Nat) (hist : List Call) (x : Call)
    (hok : callOk fl hist x = true) (gs : List GroupSpec) (o : Nat) :
    MultiNested.fan (groupsAfter fl N hist gs o) (List.replicate gs.length x) (hist.length * N + o)
      = some (groupsAfter fl N (hist ++ [x]) gs o, List.replicate gs.length (ret hist x),
              hist.length * N + o + (flatCaps gs).length) := by
  induction gs generalizing o with
  | nil => simp [groupsAfter, MultiNested.fan, flatCaps]
  | cons g gs ih =>
    have ih' := ih (o + g.caps.length)
    simp only [Nat.add_assoc] at ih'
    simp only [groupsAfter, List.length_cons, List.replicate_succ, MultiNested.fan,
      call_groupAfter fl N hist x hok g o, flatCaps_cons, List.length_append, Nat.add_assoc, ih']

theorem step_nclosed (fl : Flavour) (gs : List GroupSpec) (hist : List Call) (x : Call)
    (hok : callOk fl hist x = true) :
    MultiNested.step (nclosed fl gs hist) x = some (nclosed fl gs (hist ++ [x])) := by
  have hfl : x.flavourOk (nclosed fl gs hist).flavour = true := by
    simp only [callOk, Bool.and_eq_true] at hok; exact hok.1.1
  have hpc : MultiNested.perChild (nclosed fl gs hist) x = some (List.replicate gs.length x) := by
    rw [nested_perChild]
    simp only [nclosed, length_groupsAfter]
    exact pc_ok fl gs.length hist x hok
  have hfan := fan_groupsAfter fl (flatCaps gs).length hist x hok gs 0
  rw [Nat.add_zero] at hfan
  have hfan' : MultiNested.fan (nclosed fl gs hist).groups (List.replicate gs.length x) (nclosed fl gs hist).seq
      = some (groupsAfter fl (flatCaps gs).length (hist ++ [x]) gs 0, List.replicate gs.length (ret hist x),
              hist.length * (flatCaps gs).length + (flatCaps gs).length) := hfan
  simp only [MultiNested.step, hfl, hpc, hfan', Bool.not_true, Bool.false_eq_true, if_false]
  simp only [nclosed, hMetrics_snoc, hBuckets_snoc, List.length_append, List.length_singleton, Nat.add_mul,
    Nat.one_mul]
  cases hk : x.allocKind with
  | some k => simp [ret, hk, alloc_not_bucket hk]
  | none => cases hb : x.makesBucket <;> simp [ret, hk, hb]

theorem step_nclosed_refused (fl : Flavour) (gs : List GroupSpec) (hist : List Call) (x : Call)
    (hok : callOk fl hist x = false) :
    MultiNested.step (nclosed fl gs hist) x = none := by
  cases hfl : x.flavourOk fl with
  | false =>
    have : x.flavourOk (nclosed fl gs hist).flavour = false := hfl
    simp [MultiNested.step, this]
  | true =>
    have hfl' : x.flavourOk (nclosed fl gs hist).flavour = true := hfl
    have hpc : MultiNested.perChild (nclosed fl gs hist) x = none := by
      rw [nested_perChild]
      simp only [nclosed, length_groupsAfter]
      exact pc_refused fl gs.length hist x hfl hok
    simp [MultiNested.step, hfl', hpc]

/-! ### the whole history -/

theorem groupsAfter_nil (fl : Flavour) (N : Nat) (gs : List GroupSpec) (o : Nat) :
    groupsAfter fl N [] gs o = gs.map (GroupSpec.start fl) := by
  induction gs generalizing o with
  | nil => rfl
  | cons g gs ih =>
    simp only [groupsAfter, List.map_cons, ih]
    congr 1
    cases g with
    | leaf c => simp [groupAfter, GroupSpec.start, childAfter, allocKinds, numBuckets]
    | inner cs =>
      simp [groupAfter, GroupSpec.start, innerAfter, Multi.init, leavesAfter_nil, lastSeq, hMetrics, hBuckets,
        allocKinds, numBuckets]

theorem init_eq_nclosed (fl : Flavour) (gs : List GroupSpec) : MultiNested.init fl gs = nclosed fl gs [] := by
  simp [MultiNested.init, nclosed, groupsAfter_nil, hMetrics, hBuckets, allocKinds, numBuckets]

theorem runFrom_nclosed (fl : Flavour) (gs : List GroupSpec) (pre rest : List Call) :
    MultiNested.runFrom (nclosed fl gs pre) rest =
      if Spec.C19.wellFormedFrom fl (allocKinds pre) (numBuckets pre) rest = true
      then some (nclosed fl gs (pre ++ rest)) else none := by
  induction rest generalizing pre with
  | nil => simp [MultiNested.runFrom, Spec.C19.wellFormedFrom]
  | cons x xs ih =>
    have hsplit : Spec.C19.wellFormedFrom fl (allocKinds pre) (numBuckets pre) (x :: xs)
        = (callOk fl pre x && Spec.C19.wellFormedFrom fl (allocKinds (pre ++ [x])) (numBuckets (pre ++ [x])) xs) := by
      rw [allocKinds_snoc, numBuckets_snoc]
      rfl
    rw [hsplit]
    cases hok : callOk fl pre x with
    | true =>
      simp only [MultiNested.runFrom, step_nclosed fl gs pre x hok, ih (pre ++ [x]), List.append_assoc,
        List.singleton_append, Bool.true_and]
    | false =>
      simp [MultiNested.runFrom, step_nclosed_refused fl gs pre x hok]

/-- the nested model runs exactly the histories that can be written, to the closed form -/
theorem run_nested (fl : Flavour) (gs : List GroupSpec) (hist : List Call) :
    MultiNested.run fl gs hist =
      if Spec.C19.wellFormed fl hist = true then some (nclosed fl gs hist) else none := by
  unfold MultiNested.run
  rw [init_eq_nclosed]
  have := runFrom_nclosed fl gs [] hist
  rw [List.nil_append] at this
  exact this

/-- and so does the flat model (`run_eq_closed` and `accepts_iff_wellFormed` in one equation) -/
theorem run_flat (fl : Flavour) (caps : List Caps) (hist : List Call) :
    Multi.run fl caps hist =
      if Spec.C19.wellFormed fl hist = true then some (closed fl caps hist) else none := by
  cases hwf : Spec.C19.wellFormed fl hist with
  | true => simp [run_eq_closed fl caps hist hwf]
  | false =>
    have h := Props.C19.accepts_iff_wellFormed fl caps hist
    rw [hwf] at h
    cases hr : Multi.run fl caps hist with
    | none => simp
    | some st => rw [hr] at h; simp at h

/-! ### the closed forms agree on leaves and capabilities -/

theorem leaves_groupAfter (fl : Flavour) (N : Nat) (hist : List Call) (g : GroupSpec) (o : Nat) :
    (groupAfter fl N hist g o).leaves = leavesAfter N hist g.caps o := by
  cases g <;> simp [groupAfter, Group.leaves, innerAfter, leavesAfter, GroupSpec.caps]

theorem leaves_groupsAfter (fl : Flavour) (N : Nat) (hist : List Call) (gs : List GroupSpec) (o : Nat) :
    (groupsAfter fl N hist gs o).flatMap Group.leaves = leavesAfter N hist (flatCaps gs) o := by
  induction gs generalizing o with
  | nil => simp [groupsAfter, flatCaps, leavesAfter]
  | cons g gs ih =>
    simp only [groupsAfter, List.flatMap_cons, leaves_groupAfter, ih, flatCaps]
    simp [leavesAfter, List.zipIdx_append]

/-- the leaves of the nested reporter after `hist` ARE the children of the flat reporter after `hist` -/
theorem leaves_nclosed (fl : Flavour) (gs : List GroupSpec) (hist : List Call) :
    MultiNested.leaves (nclosed fl gs hist) = (closed fl (flatCaps gs) hist).children := by
  simp only [MultiNested.leaves, nclosed, leaves_groupsAfter]
  rfl

theorem group_capabilities (g : Group) : g.capabilities = Spec.C19.conj (g.leaves.map (·.caps)) := by
  cases g with
  | leaf c => simp [Group.capabilities, Group.leaves, Spec.C19.conj]
  | inner m => simp [Group.capabilities, Group.leaves, capabilities_eq_conj]

theorem nested_capabilities_fold (gs : List Group) (acc : Caps) :
    gs.foldl (fun acc g => ({ reporting := acc.reporting && g.capabilities.reporting,
                              tagging := acc.tagging && g.capabilities.tagging } : Caps)) acc
      = { reporting := acc.reporting && gs.all (·.capabilities.reporting),
          tagging := acc.tagging && gs.all (·.capabilities.tagging) } := by
  induction gs generalizing acc with
  | nil => simp
  | cons g gs ih => simp [List.foldl_cons, ih, Bool.and_assoc]

/-- `Capabilities()` of ANY nested state is the conjunction over all its leaves -/
theorem capabilities_eq_conj_leaves (st : MultiNested.State) :
    MultiNested.capabilities st = Spec.C19.conj ((MultiNested.leaves st).map (·.caps)) := by
  simp only [MultiNested.capabilities, nested_capabilities_fold, Bool.true_and, MultiNested.leaves,
    Spec.C19.conj, List.map_flatMap, List.all_flatMap]
  congr 1 <;>
  · apply List.all_congr rfl
    simp [group_capabilities, Spec.C19.conj]

/-! ### the theorems -/

/-- **nesting equals flattening.**  For every flavour `fl`, every grouping `gs` (each group a bare
leaf `GroupSpec.leaf c` or an inner multi reporter `GroupSpec.inner cs` over any number of leaves — a
one-leaf group can be given either way, `leaf c` or `inner [c]`) and every history `hist` whatsoever:

* the nested reporter runs `hist` to the end iff the flat reporter over all leaves does, and
* then the leaves' logs — calls, arguments, handle ordinals, sequence numbers, per leaf, left to
  right — are the logs of the flat reporter's children, and `Capabilities()` answers the same. -/
theorem nested_eq_flat (fl : Flavour) (gs : List GroupSpec) (hist : List Call) :
    ((MultiNested.run fl gs hist).isSome = true ↔ (Multi.run fl (flatCaps gs) hist).isSome = true) ∧
    ∀ nst fst, MultiNested.run fl gs hist = some nst → Multi.run fl (flatCaps gs) hist = some fst →
      MultiNested.leafLogs nst = Multi.logs fst ∧
      MultiNested.capabilities nst = Multi.capabilities fst := by
  rw [run_nested, run_flat]
  cases Spec.C19.wellFormed fl hist with
  | false => simp
  | true =>
    refine ⟨by simp, ?_⟩
    intro nst fst hn hf
    simp only [if_true, Option.some.injEq] at hn hf
    subst hn hf
    refine ⟨?_, ?_⟩
    · simp only [MultiNested.leafLogs, Multi.logs, leaves_nclosed]
    · rw [capabilities_eq_conj_leaves, capabilities_eq_conj, leaves_nclosed]

/-- the same as one equation between what can be observed of the two models -/
theorem nested_eq_flat_obs (fl : Flavour) (gs : List GroupSpec) (hist : List Call) :
    (MultiNested.run fl gs hist).map (fun st => (MultiNested.leafLogs st, MultiNested.capabilities st))
      = (Multi.run fl (flatCaps gs) hist).map (fun st => (Multi.logs st, Multi.capabilities st)) := by
  obtain ⟨hiff, heq⟩ := nested_eq_flat fl gs hist
  cases hn : MultiNested.run fl gs hist with
  | none =>
    cases hf : Multi.run fl (flatCaps gs) hist with
    | none => rfl
    | some fst => rw [hn, hf] at hiff; simp at hiff
  | some nst =>
    cases hf : Multi.run fl (flatCaps gs) hist with
    | none => rw [hn, hf] at hiff; simp at hiff
    | some fst =>
      obtain ⟨h1, h2⟩ := heq nst fst hn hf
      simp [h1, h2]

theorem flatCaps_ofList (bare : Bool) (gs : List (List Caps)) :
    flatCaps (gs.map (GroupSpec.ofList bare)) = gs.flatten := by
  induction gs with
  | nil => rfl
  | cons l gs ih =>
    have hl : (GroupSpec.ofList bare l).caps = l := by
      unfold GroupSpec.ofList
      split
      · cases bare <;> simp [GroupSpec.caps]
      · rfl
    simp only [flatCaps, List.map_cons, List.flatMap_cons, List.flatten_cons, hl] at ih ⊢
    rw [ih]

/-- **nesting equals flattening**, the grouping given as lists of the leaves' capabilities: every
list is an inner multi reporter over those leaves (the empty list: an inner multi reporter without
children), a one-element list is a bare leaf if `bare` is set and an inner multi reporter over one
leaf otherwise; the flat reporter is the one over `gs.flatten`. -/
theorem nested_eq_flat_lists (fl : Flavour) (bare : Bool) (gs : List (List Caps)) (hist : List Call) :
    ((MultiNested.run fl (gs.map (GroupSpec.ofList bare)) hist).isSome = true ↔
      (Multi.run fl gs.flatten hist).isSome = true) ∧
    ∀ nst fst, MultiNested.run fl (gs.map (GroupSpec.ofList bare)) hist = some nst →
      Multi.run fl gs.flatten hist = some fst →
      MultiNested.leafLogs nst = Multi.logs fst ∧
      MultiNested.capabilities nst = Multi.capabilities fst := by
  have h := nested_eq_flat fl (gs.map (GroupSpec.ofList bare)) hist
  rw [flatCaps_ofList] at h
  exact h

/-- **the capabilities of the nested reporter are the conjunction over all leaves**, whatever the
grouping, after any history it runs -/
theorem nested_capabilities_conjunction (fl : Flavour) (gs : List GroupSpec) (hist : List Call)
    (nst : MultiNested.State) (h : MultiNested.run fl gs hist = some nst) :
    MultiNested.capabilities nst = Spec.C19.conj (flatCaps gs) := by
  rw [run_nested] at h
  cases hwf : Spec.C19.wellFormed fl hist with
  | false => simp [hwf] at h
  | true =>
    simp only [hwf, if_true, Option.some.injEq] at h
    subst h
    rw [capabilities_eq_conj_leaves, leaves_nclosed, caps_closed]

/-! ### non-vacuity: a cached history through handles on `[[a, b], [c]]` and on the flat `[a, b, c]` -/

def exA : Caps := ⟨true, false⟩
def exB : Caps := ⟨true, true⟩
def exC : Caps := ⟨false, true⟩

/-- an allocation, a histogram allocation, a bucket created through the histogram handle, a report
through the counter handle, samples through the bucket handle -/
def exHist : List Call :=
  [ .allocCounter [0x61] none, .allocHistogram [] (some [([0x6b], [0x76])]) (.values [0x3ff0000000000000]),
    .valueBucket 1 0 0x3ff0000000000000, .count 0 (-5), .samples 0 7 ]

/-- what the three leaves are expected to have logged: every call, leaf `i` at times `i, 3 + i, 6 + i, …` -/
def exLogs : List (List (Nat × Call)) :=
  [ [ (0, .allocCounter [0x61] none), (3, .allocHistogram [] (some [([0x6b], [0x76])]) (.values [0x3ff0000000000000])),
      (6, .valueBucket 1 0 0x3ff0000000000000), (9, .count 0 (-5)), (12, .samples 0 7) ],
    [ (1, .allocCounter [0x61] none), (4, .allocHistogram [] (some [([0x6b], [0x76])]) (.values [0x3ff0000000000000])),
      (7, .valueBucket 1 0 0x3ff0000000000000), (10, .count 0 (-5)), (13, .samples 0 7) ],
    [ (2, .allocCounter [0x61] none), (5, .allocHistogram [] (some [([0x6b], [0x76])]) (.values [0x3ff0000000000000])),
      (8, .valueBucket 1 0 0x3ff0000000000000), (11, .count 0 (-5)), (14, .samples 0 7) ] ]

/-- nested, `[c]` an inner multi reporter over one leaf -/
example : (MultiNested.run .cached [.inner [exA, exB], .inner [exC]] exHist).map MultiNested.leafLogs = some exLogs := by
  decide
/-- nested, `c` a bare leaf -/
example : (MultiNested.run .cached [.inner [exA, exB], .leaf exC] exHist).map MultiNested.leafLogs = some exLogs := by
  decide
/-- nested, the grouping given as lists -/
example : (MultiNested.run .cached ([[exA, exB], [exC]].map (GroupSpec.ofList true)) exHist).map MultiNested.leafLogs
    = some exLogs := by decide
/-- flat -/
example : (Multi.run .cached [exA, exB, exC] exHist).map Multi.logs = some exLogs := by decide

/-- the handle tables of a group that is an inner multi reporter (a bare leaf has none) -/
def exTables : Group → List (Kind × List Nat) × List (List Nat)
  | .inner m => (m.metrics, m.buckets)
  | .leaf _ => ([], [])

/-- the handles really are nested: the outer reporter's handles list one handle per GROUP, the inner
reporter's handles one per leaf of its own -/
example : (MultiNested.run .cached [.inner [exA, exB, exB], .leaf exC] exHist).map (fun st => (st.metrics, st.buckets))
    = some ([(.counter, [0, 0]), (.histogram, [1, 1])], [[0, 0]]) := by decide
example : (MultiNested.run .cached [.inner [exA, exB, exB], .leaf exC] exHist).map (fun st => st.groups.map exTables)
    = some [([(.counter, [0, 0, 0]), (.histogram, [1, 1, 1])], [[0, 0, 0]]), ([], [])] := by decide

example : (MultiNested.run .cached [.inner [exA, exB], .inner [exC]] exHist).map MultiNested.capabilities
    = some ⟨false, false⟩ := by decide
example : (MultiNested.run .cached [.inner [exA, exB], .inner []] exHist).map MultiNested.capabilities
    = some ⟨true, false⟩ := by decide
/-- a handle used before it exists is refused by both -/
example : (MultiNested.run .cached [.inner [exA, exB], .leaf exC] [.count 0 1]).isSome = false
    ∧ (Multi.run .cached [exA, exB, exC] [.count 0 1]).isSome = false := by decide
/-- a plain history -/
example : (MultiNested.run .plain [.leaf exA, .inner [exB, exC]] [.reportCounter [0x61] none 1, .flush]).map
      MultiNested.leafLogs
    = some [[(0, .reportCounter [0x61] none 1), (3, .flush)], [(1, .reportCounter [0x61] none 1), (4, .flush)],
            [(2, .reportCounter [0x61] none 1), (5, .flush)]] := by decide

end Tally.Props.C19Nested
