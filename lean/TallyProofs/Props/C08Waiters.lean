import Tally.Model.CloseWaiters
/-!
# C08, companion — why the losing `Close` callers wait on a CLOSED CHANNEL (release-all), not on a wake-one signal

Model: `Tally.CloseWaiters` (any number of callers, `Nat` ids; the shutdown is one step; variants `broadcast` =
`close(closeDone)` and `signalOne` = `sync.Cond.Signal`).  Reachable = `run v init es = some s` for some event list.

* both variants: `exactly_one_winner`, `closed_has_winner`, `losers_return_only_after_done`
  (`every_caller_returns_only_after_done`, `done_is_stable`);
* release-all: `broadcast_no_deadlock`, `broadcast_every_caller_can_return`;
* wake-one: `signal_one_strands_waiters` (three callers, the third never returns), `stuck_forever`,
  `signal_finish_strands` / `signal_one_strands_all_but_one` (k waiters, k − 1 stranded for ever).

Core only (no Mathlib).
-/

namespace Tally.Props.C08Waiters
open Tally.CloseWaiters

/-! ## the association list -/

theorem lookup_update (l : List (Nat × Pc)) (t : Nat) (p : Pc) (u : Nat) :
    lookup (update l t p) u = if u = t then p else lookup l u := by
  induction l with
  | nil =>
    by_cases h : u = t
    · subst h; simp [update, lookup]
    · have h' : ¬ t = u := fun e => h e.symm
      simp [update, lookup, h, h']
  | cons a r ih =>
    obtain ⟨a1, a2⟩ := a
    by_cases h1 : a1 = t
    · subst h1
      by_cases h2 : u = a1
      · subst h2; simp [update, lookup]
      · have h2' : ¬ a1 = u := fun e => h2 e.symm
        simp [update, lookup, h2, h2']
    · by_cases h2 : a1 = u
      · subst h2; simp [update, lookup, h1]
      · simp [update, lookup, h1, h2, ih]

@[simp] theorem pcOf_setPc (s : State) (t : Nat) (p : Pc) (u : Nat) :
    pcOf (setPc s t p) u = if u = t then p else pcOf s u := by
  simp [pcOf, setPc, lookup_update]

@[simp] theorem setPc_closed (s : State) (t : Nat) (p : Pc) : (setPc s t p).closed = s.closed := rfl
@[simp] theorem setPc_done (s : State) (t : Nat) (p : Pc) : (setPc s t p).done = s.done := rfl
@[simp] theorem setPc_wakeups (s : State) (t : Nat) (p : Pc) : (setPc s t p).wakeups = s.wakeups := rfl

/-! ## what a step is -/

theorem step_call {v : Variant} {s s' : State} {t : Nat} (h : step v s (.call t) = some s') :
    pcOf s t = .idle ∧
    ((s.closed = false ∧ s' = { setPc s t .working with closed := true }) ∨
     (s.closed = true ∧ s.done = true ∧ s' = setPc s t (.returned false)) ∨
     (s.closed = true ∧ s.done = false ∧ s' = setPc s t .waiting)) := by
  simp only [step] at h
  split at h
  · rename_i hp
    refine ⟨hp, ?_⟩
    cases hc : s.closed <;> cases hd : s.done <;> simp [hc, hd] at h <;> simp [← h, hd]
  · cases h

theorem step_finish {v : Variant} {s s' : State} {t : Nat} (h : step v s (.finish t) = some s') :
    pcOf s t = .working ∧
    s' = { setPc s t (.returned true) with done := true, wakeups := signal v s } := by
  simp only [step] at h
  split at h
  · rename_i hp
    exact ⟨hp, by simpa using h.symm⟩
  · cases h

theorem step_wake {v : Variant} {s s' : State} {t : Nat} (h : step v s (.wake t) = some s') :
    pcOf s t = .waiting ∧ released v s t = true ∧
    s' = { setPc s t (.returned false) with wakeups := consume v s t } := by
  simp only [step] at h
  split at h
  · rename_i hp
    split at h
    · rename_i hr
      exact ⟨hp, hr, by simpa using h.symm⟩
    · cases h
  · cases h

/-! ## reachable states -/

/-- `p` is the pc of the caller that won the CAS -/
def IsWin (p : Pc) : Prop := p = .working ∨ p = .returned true

structure Inv (s : State) : Prop where
  fresh : s.closed = false → ∀ t, pcOf s t = .idle
  fresh_done : s.closed = false → s.done = false
  worker : s.closed = true → s.done = false → ∃ w, pcOf s w = .working
  one : ∀ t u, IsWin (pcOf s t) → IsWin (pcOf s u) → t = u
  quiet : s.done = true → ∀ t, pcOf s t ≠ .working
  barrier : s.done = false → ∀ t b, pcOf s t ≠ .returned b
  wk : s.done = false → s.wakeups = []

theorem inv_init : Inv init := by
  constructor <;> simp [init, pcOf, lookup, IsWin]

theorem inv_call {v : Variant} {s s' : State} {t : Nat} (hi : Inv s)
    (h : step v s (.call t) = some s') : Inv s' := by
  obtain ⟨hp, h | h | h⟩ := step_call h
  · obtain ⟨hc, rfl⟩ := h
    have hidle := hi.fresh hc
    have hd := hi.fresh_done hc
    constructor
    · intro h; cases h
    · intro h; cases h
    · intro _ _; exact ⟨t, by show pcOf (setPc s t .working) t = _; simp⟩
    · intro a b ha hb
      have ha' : a = t := by
        by_cases e : a = t
        · exact e
        · simp [pcOf, setPc] at ha; rw [lookup_update] at ha; simp [e] at ha
          have := hidle a; simp [pcOf] at this; rw [this] at ha; simp [IsWin] at ha
      have hb' : b = t := by
        by_cases e : b = t
        · exact e
        · simp [pcOf, setPc] at hb; rw [lookup_update] at hb; simp [e] at hb
          have := hidle b; simp [pcOf] at this; rw [this] at hb; simp [IsWin] at hb
      rw [ha', hb']
    · intro h; simp [setPc, hd] at h
    · intro _ a b
      show pcOf (setPc s t .working) a ≠ _
      rw [pcOf_setPc]; split
      · simp
      · rw [hidle a]; simp
    · intro _; exact hi.wk hd
  · obtain ⟨hc, hd, rfl⟩ := h
    constructor
    · intro h; simp [hc] at h
    · intro h; simp [hc] at h
    · intro _ h; simp [hd] at h
    · intro a b ha hb
      rw [pcOf_setPc] at ha hb
      split at ha
      · simp [IsWin] at ha
      · split at hb
        · simp [IsWin] at hb
        · exact hi.one a b ha hb
    · intro _ a; rw [pcOf_setPc]; split
      · simp
      · exact hi.quiet hd a
    · intro h; simp [hd] at h
    · intro h; simp [hd] at h
  · obtain ⟨hc, hd, rfl⟩ := h
    constructor
    · intro h; simp [hc] at h
    · intro _; simpa using hd
    · intro _ _
      obtain ⟨w, hw⟩ := hi.worker hc hd
      refine ⟨w, ?_⟩
      rw [pcOf_setPc]; split
      · rename_i e; subst e; rw [hp] at hw; cases hw
      · exact hw
    · intro a b ha hb
      rw [pcOf_setPc] at ha hb
      split at ha
      · simp [IsWin] at ha
      · split at hb
        · simp [IsWin] at hb
        · exact hi.one a b ha hb
    · intro h; simp [hd] at h
    · intro _ a b; rw [pcOf_setPc]; split
      · simp
      · exact hi.barrier hd a b
    · intro _; exact hi.wk hd

theorem inv_finish {v : Variant} {s s' : State} {t : Nat} (hi : Inv s)
    (h : step v s (.finish t) = some s') : Inv s' := by
  obtain ⟨hp, rfl⟩ := step_finish h
  have hc : s.closed = true := by
    cases hc : s.closed
    · have := hi.fresh hc t; rw [hp] at this; cases this
    · rfl
  have hpc : ∀ a, pcOf { setPc s t (.returned true) with done := true, wakeups := signal v s } a
      = if a = t then .returned true else pcOf s a := by
    intro a; exact pcOf_setPc s t _ a
  constructor
  · intro h; simp [hc] at h
  · intro h; simp [hc] at h
  · intro _ h; cases h
  · intro a b ha hb
    rw [hpc] at ha hb
    have hw : IsWin (pcOf s t) := Or.inl hp
    have ha' : a = t := by
      split at ha
      · assumption
      · exact hi.one a t ha hw
    have hb' : b = t := by
      split at hb
      · assumption
      · exact hi.one b t hb hw
    rw [ha', hb']
  · intro _ a; rw [hpc]; split
    · simp
    · rename_i e
      intro hw
      exact e (hi.one a t (Or.inl hw) (Or.inl hp))
  · intro h; cases h
  · intro h; cases h

theorem inv_wake {v : Variant} {s s' : State} {t : Nat} (hi : Inv s)
    (h : step v s (.wake t) = some s') : Inv s' := by
  obtain ⟨hp, hrel, rfl⟩ := step_wake h
  have hc : s.closed = true := by
    cases hc : s.closed
    · have := hi.fresh hc t; rw [hp] at this; cases this
    · rfl
  have hd : s.done = true := by
    cases hd : s.done
    · cases v
      · simp [released, hd] at hrel
      · simp [released, hi.wk hd] at hrel
    · rfl
  have hpc : ∀ a, pcOf { setPc s t (.returned false) with wakeups := consume v s t } a
      = if a = t then .returned false else pcOf s a := by
    intro a; exact pcOf_setPc s t _ a
  constructor
  · intro h; simp [hc] at h
  · intro h; simp [hc] at h
  · intro _ h; simp [hd] at h
  · intro a b ha hb
    rw [hpc] at ha hb
    split at ha
    · simp [IsWin] at ha
    · split at hb
      · simp [IsWin] at hb
      · exact hi.one a b ha hb
  · intro _ a; rw [hpc]; split
    · simp
    · exact hi.quiet hd a
  · intro h; simp [hd] at h
  · intro h; simp [hd] at h

theorem inv_step {v : Variant} {s s' : State} {e : Ev} (hi : Inv s)
    (h : step v s e = some s') : Inv s' := by
  cases e with
  | call t => exact inv_call hi h
  | finish t => exact inv_finish hi h
  | wake t => exact inv_wake hi h

theorem inv_run {v : Variant} (es : List Ev) {s s' : State} (hi : Inv s)
    (h : run v s es = some s') : Inv s' := by
  induction es generalizing s with
  | nil => simp [run] at h; subst h; exact hi
  | cons e es ih =>
    simp only [run] at h
    split at h
    · cases h
    · rename_i s1 hs; exact ih (inv_step hi hs) h

theorem reachable_inv {v : Variant} {es : List Ev} {s : State} (h : run v init es = some s) : Inv s :=
  inv_run es inv_init h

/-! ## one winner, and the barrier -/

/-- **At most one winner.**  In every reachable state of either variant at most one thread is `working` or
`returned true`: two threads with such a pc are the same thread. -/
theorem exactly_one_winner (v : Variant) (es : List Ev) (s : State) (hr : run v init es = some s)
    (t u : Nat)
    (ht : pcOf s t = .working ∨ pcOf s t = .returned true)
    (hu : pcOf s u = .working ∨ pcOf s u = .returned true) : t = u :=
  (reachable_inv hr).one t u ht hu

/-- … and as soon as the CAS flag is set there is one: the thread that set it. -/
theorem closed_has_winner (v : Variant) (es : List Ev) (s : State) (hr : run v init es = some s)
    (hc : s.closed = true) : ∃ w, pcOf s w = .working ∨ pcOf s w = .returned true := by
  have hi := reachable_inv hr
  cases hd : s.done with
  | false => obtain ⟨w, hw⟩ := hi.worker hc hd; exact ⟨w, Or.inl hw⟩
  | true =>
    -- `done` was set by a `finish`, whose thread is `returned true`; easiest: by induction over the run
    clear hi
    suffices h : ∀ (es : List Ev) (s0 : State), (s0.done = true → ∃ w, pcOf s0 w = .returned true) →
        run v s0 es = some s → s.done = true → ∃ w, pcOf s w = .returned true by
      obtain ⟨w, hw⟩ := h es init (by simp [init]) hr hd
      exact ⟨w, Or.inr hw⟩
    intro es
    induction es with
    | nil => intro s0 h0 h hd; simp [run] at h; subst h; exact h0 hd
    | cons e es ih =>
      intro s0 h0 h hd
      simp only [run] at h
      split at h
      · cases h
      · rename_i s1 hs
        refine ih s1 ?_ h hd
        intro hd1
        cases e with
        | call t =>
          obtain ⟨hp, h | h | h⟩ := step_call hs
          · obtain ⟨_, rfl⟩ := h
            obtain ⟨w, hw⟩ := h0 hd1
            refine ⟨w, ?_⟩
            show pcOf (setPc s0 t .working) w = _
            rw [pcOf_setPc]; split
            · rename_i e; subst e; rw [hp] at hw; cases hw
            · exact hw
          · obtain ⟨_, _, rfl⟩ := h
            obtain ⟨w, hw⟩ := h0 hd1
            refine ⟨w, ?_⟩
            rw [pcOf_setPc]; split
            · rename_i e; subst e; rw [hp] at hw; cases hw
            · exact hw
          · obtain ⟨_, _, rfl⟩ := h
            obtain ⟨w, hw⟩ := h0 hd1
            refine ⟨w, ?_⟩
            rw [pcOf_setPc]; split
            · rename_i e; subst e; rw [hp] at hw; cases hw
            · exact hw
        | finish t =>
          obtain ⟨_, rfl⟩ := step_finish hs
          refine ⟨t, ?_⟩
          show pcOf (setPc s0 t (.returned true)) t = _
          simp
        | wake t =>
          obtain ⟨hp, _, rfl⟩ := step_wake hs
          obtain ⟨w, hw⟩ := h0 hd1
          refine ⟨w, ?_⟩
          show pcOf (setPc s0 t (.returned false)) w = _
          rw [pcOf_setPc]; split
          · rename_i e; subst e; rw [hp] at hw; cases hw
          · exact hw

/-- **The barrier, for the callers that lost the CAS.**  In both variants a thread is `returned false` only in a
state in which `done` holds — and `done` is set by the winner's `finish` alone, and never reset
(`done_is_stable`): a losing call returns after the shutdown. -/
theorem losers_return_only_after_done (v : Variant) (es : List Ev) (s : State)
    (hr : run v init es = some s) (t : Nat) (ht : pcOf s t = .returned false) : s.done = true := by
  cases hd : s.done with
  | false => exact absurd ht ((reachable_inv hr).barrier hd t false)
  | true => rfl

/-- the same for every caller, the winner included -/
theorem every_caller_returns_only_after_done (v : Variant) (es : List Ev) (s : State)
    (hr : run v init es = some s) (t : Nat) (b : Bool) (ht : pcOf s t = .returned b) : s.done = true := by
  cases hd : s.done with
  | false => exact absurd ht ((reachable_inv hr).barrier hd t b)
  | true => rfl

/-- `done` is never reset (from any state, reachable or not). -/
theorem done_is_stable (v : Variant) (es : List Ev) (s s' : State) (hr : run v s es = some s')
    (hd : s.done = true) : s'.done = true := by
  induction es generalizing s with
  | nil => simp [run] at hr; subst hr; exact hd
  | cons e es ih =>
    simp only [run] at hr
    split at hr
    · cases hr
    · rename_i s1 hs
      refine ih s1 hr ?_
      cases e with
      | call t =>
        obtain ⟨_, h | h | h⟩ := step_call hs
        · obtain ⟨_, rfl⟩ := h; exact hd
        · obtain ⟨_, _, rfl⟩ := h; exact hd
        · obtain ⟨_, _, rfl⟩ := h; exact hd
      | finish t => obtain ⟨_, rfl⟩ := step_finish hs; rfl
      | wake t => obtain ⟨_, _, rfl⟩ := step_wake hs; exact hd

/-! ## release-all: nobody is left behind -/

theorem lookup_mem (l : List (Nat × Pc)) (t : Nat) (h : lookup l t ≠ .idle) : t ∈ l.map (·.1) := by
  induction l with
  | nil => simp [lookup] at h
  | cons a r ih =>
    obtain ⟨a1, a2⟩ := a
    by_cases e : a1 = t
    · simp [e]
    · simp [lookup, e] at h
      simp [ih h]

theorem broadcast_wake_enabled (s : State) (t : Nat) (hp : pcOf s t = .waiting) (hd : s.done = true) :
    step .broadcast s (.wake t) = some { setPc s t (.returned false) with wakeups := s.wakeups } := by
  simp [step, hp, released, hd, consume]

theorem finish_enabled (v : Variant) (s : State) (t : Nat) (hp : pcOf s t = .working) :
    step v s (.finish t) = some { setPc s t (.returned true) with done := true, wakeups := signal v s } := by
  simp [step, hp]

theorem run_cons {v : Variant} {s s1 : State} {e : Ev} (es : List Ev) (h : step v s e = some s1) :
    run v s (e :: es) = run v s1 es := by
  simp [run, h]

/-- once `done` holds, the threads of `ts` that wait can be woken one after the other; nothing else changes -/
theorem wake_all (ts : List Nat) (s : State) (hd : s.done = true) :
    ∃ es s', run .broadcast s es = some s' ∧ s'.done = true ∧
      (∀ u, pcOf s' u = pcOf s u ∨ (pcOf s u = .waiting ∧ pcOf s' u = .returned false)) ∧
      ∀ t ∈ ts, pcOf s' t ≠ .waiting := by
  induction ts generalizing s with
  | nil => exact ⟨[], s, rfl, hd, fun u => Or.inl rfl, by simp⟩
  | cons t ts ih =>
    by_cases hp : pcOf s t = .waiting
    · have hs := broadcast_wake_enabled s t hp hd
      obtain ⟨es, s', hrun, hd', hfr, hts⟩ :=
        ih { setPc s t (.returned false) with wakeups := s.wakeups } hd
      have hpc : ∀ a, pcOf { setPc s t (.returned false) with wakeups := s.wakeups } a
          = if a = t then .returned false else pcOf s a := fun a => pcOf_setPc s t _ a
      have ht' : pcOf s' t = .returned false := by
        rcases hfr t with h | ⟨h, _⟩
        · rw [h, hpc]; simp
        · rw [hpc] at h; simp at h
      refine ⟨.wake t :: es, s', by rw [run_cons es hs]; exact hrun, hd', ?_, ?_⟩
      · intro u
        by_cases e : u = t
        · subst e; exact Or.inr ⟨hp, ht'⟩
        · rcases hfr u with h | ⟨h1, h2⟩
          · left; rw [h, hpc]; simp [e]
          · right; rw [hpc] at h1; simp [e] at h1; exact ⟨h1, h2⟩
      · intro a ha
        rcases List.mem_cons.mp ha with e | ha
        · subst e; rw [ht']; simp
        · exact hts a ha
    · obtain ⟨es, s', hrun, hd', hfr, hts⟩ := ih s hd
      refine ⟨es, s', hrun, hd', hfr, ?_⟩
      intro a ha
      rcases List.mem_cons.mp ha with e | ha
      · subst e
        rcases hfr a with h | ⟨h, _⟩
        · rw [h]; exact hp
        · exact absurd h hp
      · exact hts a ha

/-- from a state in which `done` holds and nobody is `working`, all waiters can be released -/
theorem drain_done (s : State) (hd : s.done = true) (hq : ∀ t, pcOf s t ≠ .working) :
    ∃ es s', run .broadcast s es = some s' ∧
      (∀ u, pcOf s' u = pcOf s u ∨ (pcOf s u = .waiting ∧ pcOf s' u = .returned false)) ∧
      ∀ t, pcOf s' t ≠ .waiting ∧ pcOf s' t ≠ .working := by
  obtain ⟨es, s', hrun, _, hfr, hts⟩ := wake_all (s.pcs.map (·.1)) s hd
  refine ⟨es, s', hrun, hfr, ?_⟩
  intro t
  rcases hfr t with h | ⟨h1, h2⟩
  · refine ⟨?_, by rw [h]; exact hq t⟩
    by_cases hp : pcOf s t = .waiting
    · exact hts t (lookup_mem s.pcs t (by simp [pcOf] at hp; rw [hp]; simp))
    · rw [h]; exact hp
  · rw [h2]; simp

/-- **Release-all: no deadlock.**  In every reachable state of the release-all variant: a thread that has not
called yet can call; the thread that is `working` can finish; a `waiting` thread can return as soon as `done` holds
(however many of them there are: `wake` changes neither `done` nor any other thread's pc); and while `done` does not
hold yet, the thread a `waiting` thread waits for exists, is `working`, and can finish. -/
theorem broadcast_no_deadlock (es : List Ev) (s : State) (hr : run .broadcast init es = some s) :
    (∀ t, pcOf s t = .idle → (step .broadcast s (.call t)).isSome = true) ∧
    (∀ t, pcOf s t = .working → (step .broadcast s (.finish t)).isSome = true) ∧
    (∀ t, pcOf s t = .waiting → s.done = true → (step .broadcast s (.wake t)).isSome = true) ∧
    (∀ t, pcOf s t = .waiting → s.done = false →
      ∃ w, pcOf s w = .working ∧ (step .broadcast s (.finish w)).isSome = true) := by
  have hi := reachable_inv hr
  refine ⟨?_, ?_, ?_, ?_⟩
  · intro t hp
    cases hc : s.closed <;> cases hd : s.done <;> simp [step, hp, hc, hd]
  · intro t hp; rw [finish_enabled _ s t hp]; rfl
  · intro t hp hd; rw [broadcast_wake_enabled s t hp hd]; rfl
  · intro t hp hd
    have hc : s.closed = true := by
      cases hc : s.closed
      · have := hi.fresh hc t; rw [hp] at this; cases this
      · rfl
    obtain ⟨w, hw⟩ := hi.worker hc hd
    exact ⟨w, hw, by rw [finish_enabled _ s w hw]; rfl⟩

/-- **Release-all: every caller can return.**  From every reachable state of the release-all variant there is a
continuation — `finish` of the thread that is `working`, if there is one, then `wake` of every `waiting` thread —
after which no thread is `waiting` or `working`: every thread that had called has returned (and the threads that had
not called have not been touched). -/
theorem broadcast_every_caller_can_return (es : List Ev) (s : State)
    (hr : run .broadcast init es = some s) :
    ∃ es' s', run .broadcast s es' = some s' ∧
      (∀ t, pcOf s' t ≠ .waiting ∧ pcOf s' t ≠ .working) ∧
      (∀ t, pcOf s t ≠ .idle → ∃ b, pcOf s' t = .returned b) ∧
      (∀ t, pcOf s t = .idle → pcOf s' t = .idle) := by
  have hi := reachable_inv hr
  -- the frame: a thread's pc is unchanged, or it was waiting / working and has returned
  suffices h : ∃ es' s', run .broadcast s es' = some s' ∧
      (∀ t, pcOf s' t ≠ .waiting ∧ pcOf s' t ≠ .working) ∧
      (∀ u, pcOf s' u = pcOf s u ∨ (pcOf s u ≠ .idle ∧ ∃ b, pcOf s' u = .returned b)) by
    obtain ⟨es', s', hrun, hfin, hfr⟩ := h
    refine ⟨es', s', hrun, hfin, ?_, ?_⟩
    · intro t ht
      rcases hfr t with h | ⟨_, h⟩
      · have := hfin t
        rw [h] at this
        cases hp : pcOf s t with
        | idle => exact absurd hp ht
        | working => exact absurd hp this.2
        | waiting => exact absurd hp this.1
        | returned b => exact ⟨b, by rw [h, hp]⟩
      · exact h
    · intro t ht
      rcases hfr t with h | ⟨h, _⟩
      · rw [h, ht]
      · exact absurd ht h
  cases hd : s.done with
  | true =>
    obtain ⟨es', s', hrun, hfr, hfin⟩ := drain_done s hd (hi.quiet hd)
    refine ⟨es', s', hrun, hfin, ?_⟩
    intro u
    rcases hfr u with h | ⟨h1, h2⟩
    · exact Or.inl h
    · exact Or.inr ⟨by rw [h1]; simp, false, h2⟩
  | false =>
    cases hc : s.closed with
    | false =>
      refine ⟨[], s, rfl, ?_, fun u => Or.inl rfl⟩
      intro t; rw [hi.fresh hc t]; simp
    | true =>
      obtain ⟨w, hw⟩ := hi.worker hc hd
      have hs := finish_enabled .broadcast s w hw
      have hi1 := inv_step hi hs
      have hpc : ∀ a, pcOf { setPc s w (.returned true) with
            done := true, wakeups := signal .broadcast s } a
          = if a = w then .returned true else pcOf s a := fun a => pcOf_setPc s w _ a
      obtain ⟨es', s', hrun, hfr, hfin⟩ := drain_done _ rfl (hi1.quiet rfl)
      refine ⟨.finish w :: es', s', by rw [run_cons es' hs]; exact hrun, hfin, ?_⟩
      intro u
      by_cases e : u = w
      · subst e
        right
        refine ⟨by rw [hw]; simp, true, ?_⟩
        rcases hfr u with h | ⟨h, _⟩
        · rw [h, hpc]; simp
        · rw [hpc] at h; simp at h
      · rcases hfr u with h | ⟨h1, h2⟩
        · left; rw [h, hpc]; simp [e]
        · right; rw [hpc] at h1; simp [e] at h1
          exact ⟨by rw [h1]; simp, false, h2⟩

/-! ## wake-one: all waiters but one are stranded -/

/-- thread `u` is blocked for good: it waits, it has not been signalled, the one `Signal()` there will ever be is
over (`done` holds and nobody is `working`, so `finish` is never enabled again). -/
structure Stuck (s : State) (u : Nat) : Prop where
  waits : pcOf s u = .waiting
  unsignalled : u ∉ s.wakeups
  done : s.done = true
  closed : s.closed = true
  quiet : ∀ t, pcOf s t ≠ .working

/-- no event of a stuck thread is enabled -/
theorem stuck_disabled {s : State} {u : Nat} (h : Stuck s u) :
    step .signalOne s (.call u) = none ∧ step .signalOne s (.finish u) = none ∧
    step .signalOne s (.wake u) = none := by
  refine ⟨?_, ?_, ?_⟩
  · simp [step, h.waits]
  · simp [step, h.waits]
  · simp [step, h.waits, released, h.unsignalled]

/-- `Stuck` is preserved by every step of the wake-one variant (from ANY state): a new caller sees `done` and
returns at once, `finish` is not enabled, and a `wake` is a wake of another, signalled, thread. -/
theorem stuck_step {s s' : State} {u : Nat} {e : Ev} (h : Stuck s u)
    (hs : step .signalOne s e = some s') : Stuck s' u := by
  cases e with
  | call t =>
    obtain ⟨hp, hh | hh | hh⟩ := step_call hs
    · rw [h.closed] at hh; cases hh.1
    · obtain ⟨_, _, rfl⟩ := hh
      have htu : u ≠ t := by intro e; subst e; rw [h.waits] at hp; cases hp
      refine ⟨?_, h.unsignalled, h.done, h.closed, ?_⟩
      · rw [pcOf_setPc]; simp [htu, h.waits]
      · intro a; rw [pcOf_setPc]; split
        · simp
        · exact h.quiet a
    · rw [h.done] at hh; cases hh.2.1
  | finish t =>
    obtain ⟨hp, _⟩ := step_finish hs
    exact absurd hp (h.quiet t)
  | wake t =>
    obtain ⟨hp, hrel, rfl⟩ := step_wake hs
    have hmem : t ∈ s.wakeups := by simpa [released] using hrel
    have htu : u ≠ t := by intro e; subst e; exact h.unsignalled hmem
    have hpc : ∀ a, pcOf { setPc s t (.returned false) with wakeups := consume .signalOne s t } a
        = if a = t then .returned false else pcOf s a := fun a => pcOf_setPc s t _ a
    refine ⟨?_, ?_, h.done, h.closed, ?_⟩
    · rw [hpc]; simp [htu, h.waits]
    · intro hm
      exact h.unsignalled (List.mem_of_mem_erase hm)
    · intro a; rw [hpc]; split
      · simp
      · exact h.quiet a

/-- **A stranded waiter stays stranded for ever**, whatever else happens (new callers arrive, see `done`, return). -/
theorem stuck_forever {s : State} {u : Nat} (h : Stuck s u) (es : List Ev) (s' : State)
    (hr : run .signalOne s es = some s') : Stuck s' u := by
  induction es generalizing s with
  | nil => simp [run] at hr; subst hr; exact h
  | cons e es ih =>
    simp only [run] at hr
    split at hr
    · cases hr
    · rename_i s1 hs; exact ih (stuck_step h hs) hr

theorem lookup_ne_of_forall (l : List (Nat × Pc)) (q : Pc) (hq : q ≠ .idle) (h : ∀ p ∈ l, p.2 ≠ q) (t : Nat) :
    lookup l t ≠ q := by
  induction l with
  | nil => simp [lookup]; exact fun e => hq e.symm
  | cons a r ih =>
    obtain ⟨a1, a2⟩ := a
    simp only [lookup]
    split
    · exact h (a1, a2) (by simp)
    · exact ih (fun p hp => h p (by simp [hp]))

/-- the counterexample run: three callers, 0 wins, 1 and 2 wait, 0 finishes (and signals 1), 1 returns -/
def strandRun : List Ev := [.call 0, .call 1, .call 2, .finish 0, .wake 1]

/-- … and where it ends: thread 2 waits, `done` holds, no wake-up is pending -/
def stranded : State :=
  { closed := true, done := true,
    pcs := [(0, .returned true), (1, .returned false), (2, .waiting)], wakeups := [] }

theorem stranded_stuck : Stuck stranded 2 := by
  refine ⟨by decide, by decide, rfl, rfl, ?_⟩
  exact lookup_ne_of_forall _ _ (by decide) (by decide)

/-- **Wake-one strands waiters.**  With `sync.Cond.Signal` in the place of `close(closeDone)`: three callers; 0 wins
the CAS, 1 and 2 lose it and wait; 0 finishes and signals — that wakes 1 —; 1 returns.  In the state reached
thread 2 is `waiting` although `done` holds, no wake-up is pending, none of its events is enabled, and this stays
so in every continuation: thread 2 never returns from `Close`.  (The same five events with `wake 2` appended are
a run of the release-all variant in which everybody has returned: `broadcast_same_run_all_return`.) -/
theorem signal_one_strands_waiters :
    run .signalOne init strandRun = some stranded ∧
    pcOf stranded 2 = .waiting ∧ stranded.done = true ∧ stranded.wakeups = [] ∧
    (∀ es s', run .signalOne stranded es = some s' →
      pcOf s' 2 = .waiting ∧
      step .signalOne s' (.call 2) = none ∧ step .signalOne s' (.finish 2) = none ∧
      step .signalOne s' (.wake 2) = none) := by
  refine ⟨by decide, by decide, rfl, rfl, ?_⟩
  intro es s' hr
  have h := stuck_forever stranded_stuck es s' hr
  exact ⟨h.waits, stuck_disabled h⟩

/-- the statement asked for, on its own -/
theorem signal_one_thread2_blocked_forever (es : List Ev) (s' : State)
    (hr : run .signalOne stranded es = some s') : pcOf s' 2 = .waiting :=
  (signal_one_strands_waiters.2.2.2.2 es s' hr).1

/-- the contrast: the same schedule in the release-all variant, and thread 2 returns as well -/
theorem broadcast_same_run_all_return :
    run .broadcast init (strandRun ++ [.wake 2]) =
      some { closed := true, done := true,
             pcs := [(0, .returned true), (1, .returned false), (2, .returned false)], wakeups := [] } := by
  decide

/-- in the wake-one variant `wake 2` is refused at that point -/
example : run .signalOne init (strandRun ++ [.wake 2]) = none := by decide

/-! ### the general statement -/

/-- **`Signal()` reaches one waiter, the others are stranded.**  Wake-one variant, reachable state, the winner
finishes: every thread that is `waiting` at that moment, except the one `Signal()` picks (`firstWaiting`), is
`Stuck` afterwards — hence for ever (`stuck_forever`), because there will not be a second `finish`. -/
theorem signal_finish_strands (es : List Ev) (s : State) (hr : run .signalOne init es = some s)
    (w : Nat) (s' : State) (hs : step .signalOne s (.finish w) = some s')
    (u : Nat) (hu : pcOf s u = .waiting) (hne : firstWaiting s.pcs ≠ some u) : Stuck s' u := by
  have hi := reachable_inv hr
  have hi1 := inv_step hi hs
  obtain ⟨hp, rfl⟩ := step_finish hs
  have hd : s.done = false := by
    cases hd : s.done
    · rfl
    · exact absurd hp (hi.quiet hd w)
  have hc : s.closed = true := by
    cases hc : s.closed
    · have := hi.fresh hc w; rw [hp] at this; cases this
    · rfl
  have huw : u ≠ w := by intro e; subst e; rw [hu] at hp; cases hp
  have hpc : ∀ a, pcOf { setPc s w (.returned true) with done := true, wakeups := signal .signalOne s } a
      = if a = w then .returned true else pcOf s a := fun a => pcOf_setPc s w _ a
  refine ⟨?_, ?_, rfl, hc, hi1.quiet rfl⟩
  · rw [hpc]; simp [huw, hu]
  · show u ∉ signal .signalOne s
    simp only [signal, hi.wk hd]
    split
    · rename_i x hx
      simp
      intro e; subst e; exact hne hx
    · simp

theorem filter_ne_length (x : Option Nat) (ts : List Nat) (hnd : ts.Nodup) :
    ts.length ≤ (ts.filter (fun u => decide (x ≠ some u))).length + 1 := by
  induction ts with
  | nil => simp
  | cons a r ih =>
    have hn := List.nodup_cons.mp hnd
    by_cases hx : x = some a
    · have hall : r.filter (fun u => decide (x ≠ some u)) = r := by
        apply List.filter_eq_self.mpr
        intro b hb
        simp only [decide_eq_true_eq]
        intro e
        rw [hx] at e
        have : a = b := by simpa using e
        subst this
        exact hn.1 hb
      have hdec : ¬ (decide (x ≠ some a) = true) := by simp [hx]
      rw [List.filter_cons, if_neg hdec, hall]
      simp
    · have := ih hn.2
      have hdec : decide (x ≠ some a) = true := by simp [hx]
      rw [List.filter_cons, if_pos hdec]
      simp only [List.length_cons]
      omega

/-- **The count.**  Wake-one variant: if `k` (distinct) threads are `waiting` when the winner finishes, at least
`k − 1` of them are stuck afterwards, and stay stuck in every continuation. -/
theorem signal_one_strands_all_but_one (es : List Ev) (s : State) (hr : run .signalOne init es = some s)
    (w : Nat) (s' : State) (hs : step .signalOne s (.finish w) = some s')
    (ts : List Nat) (hnd : ts.Nodup) (hw : ∀ u ∈ ts, pcOf s u = .waiting) :
    ∃ ts' : List Nat, ts'.Nodup ∧ (∀ u ∈ ts', u ∈ ts) ∧ ts.length ≤ ts'.length + 1 ∧
      ∀ u ∈ ts', ∀ es' s'', run .signalOne s' es' = some s'' → Stuck s'' u := by
  refine ⟨ts.filter (fun u => decide (firstWaiting s.pcs ≠ some u)), ?_, ?_, ?_, ?_⟩
  · exact List.Nodup.sublist List.filter_sublist hnd
  · intro u hu; exact (List.mem_filter.mp hu).1
  · exact filter_ne_length _ ts hnd
  · intro u hu es' s'' hrun
    have hm := List.mem_filter.mp hu
    have hne : firstWaiting s.pcs ≠ some u := by simpa using hm.2
    exact stuck_forever (signal_finish_strands es s hr w s' hs u (hw u hm.1) hne) es' s'' hrun

/-! ## non-vacuity -/

/-- five callers, release-all: 3 wins, 0, 4 and 1 arrive while it works and wait, 3 finishes, 2 arrives late and
returns at once, the three waiters return in some order: everybody has returned. -/
example :
    run .broadcast init
      [.call 3, .call 0, .call 4, .call 1, .finish 3, .call 2, .wake 4, .wake 0, .wake 1] =
    some { closed := true, done := true,
           pcs := [(3, .returned true), (0, .returned false), (4, .returned false),
                   (1, .returned false), (2, .returned false)],
           wakeups := [] } := by decide

/-- the same schedule is not a run of the wake-one variant: after `finish 3` only thread 0 (the first waiter) has
been signalled, `wake 4` is refused -/
example :
    run .signalOne init
      [.call 3, .call 0, .call 4, .call 1, .finish 3, .call 2, .wake 4] = none := by decide

/-- … and what is possible there leaves 4 and 1 behind -/
example :
    run .signalOne init [.call 3, .call 0, .call 4, .call 1, .finish 3, .call 2, .wake 0] =
    some { closed := true, done := true,
           pcs := [(3, .returned true), (0, .returned false), (4, .waiting), (1, .waiting),
                   (2, .returned false)],
           wakeups := [] } := by decide

/-- the hypotheses of `signal_one_strands_all_but_one` are satisfiable with `k = 3` -/
example :
    ∃ s s', run .signalOne init [.call 3, .call 0, .call 4, .call 1] = some s ∧
      step .signalOne s (.finish 3) = some s' ∧
      [0, 4, 1].Nodup ∧ (∀ u ∈ [0, 4, 1], pcOf s u = .waiting) ∧
      firstWaiting s.pcs = some 0 :=
  ⟨_, _, rfl, rfl, by decide, by decide, by decide⟩

/-- a late caller in the wake-one variant does not wait (the loop `for !ended` is not entered) -/
example :
    (run .signalOne stranded [.call 7, .call 8]).map (fun s => (pcOf s 7, pcOf s 8, pcOf s 2)) =
      some (.returned false, .returned false, .waiting) := by decide

end Tally.Props.C08Waiters
