import Tally.Model.Scope
import TallyProofs.Lemmas.ScopeRecLemmas
/-!
# C11 — snapshots of test scopes are exact

A test scope tree is a root built with `cfg.kind = .none` (no reporter).  Then a report pass does
nothing, `Close` only sets flags and `SubScope`/`Tagged` keep returning closed scopes, so no scope
is ever unregistered and no metric is ever dropped.  All theorems are over every program.

The model's `snapshot` returns a list of entries; `snapIds` is the same list with every entry
labelled by the id of the metric it comes from (`snapshot_labelled`).
-/
namespace Tally.Props.C11
open Tally Tally.KeyGen Tally.Buckets Tally.Scope Tally.ScopeRec

/-- run a program, keep the final state (own copy; definitionally the one of the lemma file) -/
def runOps (st : St) : List Op → St := fun ops => ops.foldl (fun s op => (step s op).1) st

theorem runOps_eq : @runOps = @ScopeRec.runOps := rfl

/-- the labelled snapshot is the snapshot -/
theorem snapshot_labelled (st : St) : snapshot st = (snapIds st).map (·.2) := snapshot_eq st

/-! ## e. one entry per metric -/

/-- test scopes are never unregistered: after any program every scope that was ever created
(the root, every subscope, closed or not, also after `Close` of the root) is in the registry -/
theorem test_scopes_stay_registered (cfg : Cfg) (hk : cfg.kind = .none) (pfx sep : Bytes) (tags : TagMap)
    (ops : List Op) (i : Nat) (hi : i < (runOps (mkRoot cfg pfx sep tags) ops).scopes.length) :
    ∃ e ∈ (runOps (mkRoot cfg pfx sep tags) ops).reg, e.2 = i :=
  (good_runOps _ (good_mkRoot cfg hk pfx sep tags) ops).tinv.allReg i hi

/-- **one entry per metric**: the ids labelling the snapshot are pairwise distinct and are exactly
the ids allocated by the program (`0 … nextMetric-1`); no metric is missing, none occurs twice -/
theorem snapshot_one_entry_per_metric (cfg : Cfg) (hk : cfg.kind = .none) (pfx sep : Bytes) (tags : TagMap)
    (ops : List Op) :
    ((snapIds (runOps (mkRoot cfg pfx sep tags) ops)).map (·.1)).Nodup ∧
    ∀ m, m ∈ (snapIds (runOps (mkRoot cfg pfx sep tags) ops)).map (·.1)
      ↔ m < (runOps (mkRoot cfg pfx sep tags) ops).nextMetric := by
  have hg := good_runOps _ (good_mkRoot cfg hk pfx sep tags) ops
  exact ⟨snapIds_nodup _ hg.tinv, mem_snapIds_ids _ hg.tinv⟩

/-- every allocated id was returned as a *new* handle by exactly one `Counter`/`Gauge`/`Timer`/
`Histogram` call `c` of the program: the program splits as `ops₁ ++ c :: ops₂` -/
theorem metric_created_by (cfg : Cfg) (pfx sep : Bytes) (tags : TagMap) (ops : List Op) (m : Nat)
    (hm : m < (runOps (mkRoot cfg pfx sep tags) ops).nextMetric) :
    ∃ ops₁ c ops₂ sid m0 evs, ops = ops₁ ++ c :: ops₂
      ∧ creation (runOps (mkRoot cfg pfx sep tags) ops₁) c = some (sid, m0)
      ∧ (step (runOps (mkRoot cfg pfx sep tags) ops₁) c).2 = .metric m evs
      ∧ (runOps (mkRoot cfg pfx sep tags) ops₁).nextMetric = m :=
  created_split _ (inv_mkRoot cfg pfx sep tags) ops m (Nat.zero_le _) hm

/-- **e. `snapshot_exact`** (all kinds at once).  Let `c` be a get-or-create on scope `sid` that, after
`ops₁`, returned the new handle `m`; let `sc` be that scope then and `m0` the initial metric
(`creation`).  After any continuation `ops₂` the snapshot has an entry labelled `m`, it is the only
one, its key / name / tags are those of `sc` (full name `fqn sep sc.pfx name`, key
`key fullName [sc.tags]`), and its value is the fold of the per-metric effects of the operations of
`ops₂` that address `m` over the initial value. -/
theorem snapshot_exact (cfg : Cfg) (hk : cfg.kind = .none) (pfx sep : Bytes) (tags : TagMap)
    (ops₁ : List Op) (c : Op) (sid : Nat) (m0 : Metric) (m : Nat) (evs : List Event)
    (hc : creation (runOps (mkRoot cfg pfx sep tags) ops₁) c = some (sid, m0))
    (hout : (step (runOps (mkRoot cfg pfx sep tags) ops₁) c).2 = .metric m evs)
    (hfresh : (runOps (mkRoot cfg pfx sep tags) ops₁).nextMetric ≤ m) (ops₂ : List Op) :
    ∃ sc, getScope (runOps (mkRoot cfg pfx sep tags) ops₁) sid = some sc ∧
      (m, entryOf (mkRoot cfg pfx sep tags).sep sc.pfx sc.tags (ops₂.foldl (applyOp m) m0))
        ∈ snapIds (runOps (mkRoot cfg pfx sep tags) (ops₁ ++ c :: ops₂)) ∧
      ∀ e, (m, e) ∈ snapIds (runOps (mkRoot cfg pfx sep tags) (ops₁ ++ c :: ops₂)) →
        e = entryOf (mkRoot cfg pfx sep tags).sep sc.pfx sc.tags (ops₂.foldl (applyOp m) m0) := by
  rw [runOps_eq] at *
  have hg := good_runOps _ (good_mkRoot cfg hk pfx sep tags) ops₁
  have hsep := (runOps_cfg_sep (mkRoot cfg pfx sep tags) ops₁).2
  obtain ⟨sc, hsc, h1, h2⟩ := snapshot_entry _ hg c sid m0 m evs hc hout hfresh ops₂
  rw [hsep] at h1 h2
  rw [runOps_append]
  exact ⟨sc, hsc, h1, h2⟩

/-- **counter**: value = the int64 (wrap-around) sum of all increments made through the handle -/
theorem snapshot_counter (cfg : Cfg) (hk : cfg.kind = .none) (pfx sep : Bytes) (tags : TagMap)
    (ops₁ : List Op) (sid : Nat) (n : Bytes) (m : Nat) (evs : List Event)
    (hout : (step (runOps (mkRoot cfg pfx sep tags) ops₁) (.counter sid n)).2 = .metric m evs)
    (hfresh : (runOps (mkRoot cfg pfx sep tags) ops₁).nextMetric ≤ m) (ops₂ : List Op) :
    ∃ sc, getScope (runOps (mkRoot cfg pfx sep tags) ops₁) sid = some sc ∧
      let nm := fqn (mkRoot cfg pfx sep tags).sep sc.pfx (sanName cfg n)
      (m, SnapEntry.counter (key nm [sc.tags]) nm sc.tags (incSum m ops₂))
        ∈ snapIds (runOps (mkRoot cfg pfx sep tags) (ops₁ ++ .counter sid n :: ops₂)) := by
  have hcfg : (runOps (mkRoot cfg pfx sep tags) ops₁).cfg = cfg := (runOps_cfg_sep _ ops₁).1
  obtain ⟨sc, hsc, h1, _⟩ := snapshot_exact cfg hk pfx sep tags ops₁ (.counter sid n) sid
    (.counter (sanName cfg n) 0) m evs (by simp [creation, hcfg]) hout hfresh ops₂
  refine ⟨sc, hsc, ?_⟩
  rw [fold_counter] at h1
  exact h1

/-- **gauge**: value = the last update made through the handle (`0` if there was none) -/
theorem snapshot_gauge (cfg : Cfg) (hk : cfg.kind = .none) (pfx sep : Bytes) (tags : TagMap)
    (ops₁ : List Op) (sid : Nat) (n : Bytes) (m : Nat) (evs : List Event)
    (hout : (step (runOps (mkRoot cfg pfx sep tags) ops₁) (.gauge sid n)).2 = .metric m evs)
    (hfresh : (runOps (mkRoot cfg pfx sep tags) ops₁).nextMetric ≤ m) (ops₂ : List Op) :
    ∃ sc, getScope (runOps (mkRoot cfg pfx sep tags) ops₁) sid = some sc ∧
      let nm := fqn (mkRoot cfg pfx sep tags).sep sc.pfx (sanName cfg n)
      (m, SnapEntry.gauge (key nm [sc.tags]) nm sc.tags (lastUpd m ops₂))
        ∈ snapIds (runOps (mkRoot cfg pfx sep tags) (ops₁ ++ .gauge sid n :: ops₂)) := by
  have hcfg : (runOps (mkRoot cfg pfx sep tags) ops₁).cfg = cfg := (runOps_cfg_sep _ ops₁).1
  obtain ⟨sc, hsc, h1, _⟩ := snapshot_exact cfg hk pfx sep tags ops₁ (.gauge sid n) sid
    (.gauge (sanName cfg n) 0 false) m evs (by simp [creation, hcfg]) hout hfresh ops₂
  refine ⟨sc, hsc, ?_⟩
  obtain ⟨b', hb'⟩ := fold_gauge m (sanName cfg n) ops₂ 0 false
  rw [hb'] at h1
  exact h1

/-- **timer** (also C10 c): values = all durations recorded through the handle, in order -/
theorem snapshot_timer (cfg : Cfg) (hk : cfg.kind = .none) (pfx sep : Bytes) (tags : TagMap)
    (ops₁ : List Op) (sid : Nat) (n : Bytes) (m : Nat) (evs : List Event)
    (hout : (step (runOps (mkRoot cfg pfx sep tags) ops₁) (.timer sid n)).2 = .metric m evs)
    (hfresh : (runOps (mkRoot cfg pfx sep tags) ops₁).nextMetric ≤ m) (ops₂ : List Op) :
    ∃ sc, getScope (runOps (mkRoot cfg pfx sep tags) ops₁) sid = some sc ∧
      let nm := fqn (mkRoot cfg pfx sep tags).sep sc.pfx (sanName cfg n)
      (m, SnapEntry.timer (key nm [sc.tags]) nm sc.tags (recorded m ops₂))
        ∈ snapIds (runOps (mkRoot cfg pfx sep tags) (ops₁ ++ .timer sid n :: ops₂)) := by
  have hcfg : (runOps (mkRoot cfg pfx sep tags) ops₁).cfg = cfg := (runOps_cfg_sep _ ops₁).1
  obtain ⟨sc, hsc, h1, _⟩ := snapshot_exact cfg hk pfx sep tags ops₁ (.timer sid n) sid
    (.timer (sanName cfg n) []) m evs (by simp [creation, hcfg]) hout hfresh ops₂
  refine ⟨sc, hsc, ?_⟩
  rw [fold_timer, List.nil_append] at h1
  exact h1

/-! ## f. a snapshot is an independent copy; test scopes survive `Close` -/

/-- **f. `snapshot_pure`**: in the model `snapshot : St → List SnapEntry` is a total function of the
state that returns a fresh value and has no way to change the state (there is no state in its
result type), so taking a snapshot between any two operations changes nothing, and two snapshots
of the same state are equal.  (Independence of the Go maps from later updates is the statement
that the result is a value, not a reference: later steps produce a new `St`, the list already
returned is unaffected.) -/
theorem snapshot_pure (st : St) (ops : List Op) :
    (let _s := snapshot st; runOps st ops) = runOps st ops ∧ snapshot st = snapshot st := ⟨rfl, rfl⟩

/-- **f. `test_scope_survives_close`**: closing any scope of a test scope tree — a subscope, or
even the root — leaves every snapshot entry in place -/
theorem test_scope_survives_close (cfg : Cfg) (hk : cfg.kind = .none) (pfx sep : Bytes) (tags : TagMap)
    (ops : List Op) (sid : Nat) :
    snapshot (step (runOps (mkRoot cfg pfx sep tags) ops) (.close sid)).1
      = snapshot (runOps (mkRoot cfg pfx sep tags) ops) := by
  have hg := good_runOps _ (good_mkRoot cfg hk pfx sep tags) ops
  rw [snapshot_eq, snapshot_eq, runOps_eq, snapIds_close _ hg.kind sid]

/-- … and the scope and its metrics remain usable and visible afterwards: the exactness theorem
`snapshot_exact` quantifies over *all* continuations `ops₂`, in particular those containing
`.close sid`; this corollary spells out one instance: a counter incremented after its scope was
closed shows the increment. -/
theorem closed_test_scope_still_counts (cfg : Cfg) (hk : cfg.kind = .none) (pfx sep : Bytes) (tags : TagMap)
    (ops₁ : List Op) (sid : Nat) (n : Bytes) (m : Nat) (evs : List Event)
    (hout : (step (runOps (mkRoot cfg pfx sep tags) ops₁) (.counter sid n)).2 = .metric m evs)
    (hfresh : (runOps (mkRoot cfg pfx sep tags) ops₁).nextMetric ≤ m) (v : Int) :
    ∃ sc, getScope (runOps (mkRoot cfg pfx sep tags) ops₁) sid = some sc ∧
      let nm := fqn (mkRoot cfg pfx sep tags).sep sc.pfx (sanName cfg n)
      (m, SnapEntry.counter (key nm [sc.tags]) nm sc.tags (wrap64 v))
        ∈ snapIds (runOps (mkRoot cfg pfx sep tags) (ops₁ ++ .counter sid n :: [.close sid, .inc m v])) := by
  obtain ⟨sc, hsc, h⟩ := snapshot_counter cfg hk pfx sep tags ops₁ sid n m evs hout hfresh [.close sid, .inc m v]
  refine ⟨sc, hsc, ?_⟩
  have : incSum m [.close sid, .inc m v] = wrap64 v := by simp [incSum, incStep]
  rw [this] at h
  exact h

/-! ## e. histograms -/

theorem valueUppers_ne_nil (spec : List F64) : valueUppers spec ≠ [] := by simp [valueUppers]
theorem durationUppers_ne_nil (spec : List Int) : durationUppers spec ≠ [] := by simp [durationUppers]

/-- **value histogram**: the snapshot maps every distinct stored upper bound `b` (exactly the
bounds of `valueUppers spec`) to the number of `RecordValue` samples sent through the handle that
`placeValue` (the placement function of C03) put into a bucket whose upper bound is `b`; buckets
sharing a bound are added up (D12); `RecordDuration` calls on a value histogram are ignored. -/
theorem snapshot_hist_value (cfg : Cfg) (hk : cfg.kind = .none) (pfx sep : Bytes) (tags : TagMap)
    (ops₁ : List Op) (sid : Nat) (n : Bytes) (spec : Option (Bool × List Int × List F64)) (m : Nat) (evs : List Event)
    (hv : (histSpec cfg spec).1 = false)
    (hout : (step (runOps (mkRoot cfg pfx sep tags) ops₁) (.hist sid n spec)).2 = .metric m evs)
    (hfresh : (runOps (mkRoot cfg pfx sep tags) ops₁).nextMetric ≤ m) (ops₂ : List Op) :
    ∃ sc, getScope (runOps (mkRoot cfg pfx sep tags) ops₁) sid = some sc ∧
      let nm := fqn (mkRoot cfg pfx sep tags).sep sc.pfx (sanName cfg n)
      let us := valueUppers (histSpec cfg spec).2.2
      let M := sumByBound us (recCounts (placeValue us) (samplesV m ops₂) (List.replicate us.length 0))
      (m, SnapEntry.histV (key nm [sc.tags]) nm sc.tags M)
        ∈ snapIds (runOps (mkRoot cfg pfx sep tags) (ops₁ ++ .hist sid n spec :: ops₂))
      ∧ (M.map (·.1)).Nodup ∧ (∀ b, b ∈ M.map (·.1) ↔ b ∈ us)
      ∧ ∀ b c, (b, c) ∈ M →
          c = (((samplesV m ops₂).filter fun v => hitB us (placeValue us v) b).length : Int) := by
  have hcfg : (runOps (mkRoot cfg pfx sep tags) ops₁).cfg = cfg := (runOps_cfg_sep _ ops₁).1
  obtain ⟨sc, hsc, h1, _⟩ := snapshot_exact cfg hk pfx sep tags ops₁ (.hist sid n spec) sid
    (.hist (sanName cfg n) (newHist (histSpec cfg spec))) m evs (by simp [creation, hcfg]) hout hfresh ops₂
  refine ⟨sc, hsc, ?_⟩
  have hnew : newHist (histSpec cfg spec) = (⟨false, [], valueUppers (histSpec cfg spec).2.2,
      List.replicate (valueUppers (histSpec cfg spec).2.2).length 0⟩ : Hist) := by
    simp [newHist, hv]
  rw [hnew] at h1
  have hf := fold_histV m (sanName cfg n) (⟨false, [], valueUppers (histSpec cfg spec).2.2, []⟩ : Hist) rfl ops₂
      (List.replicate (valueUppers (histSpec cfg spec).2.2).length 0)
  simp only at hf
  rw [hf] at h1
  exact ⟨h1, histMap_value _ (valueUppers_ne_nil _) _⟩

/-- **duration histogram**: as above with `placeKey`, `durationUppers` and the `RecordDuration`
samples; `RecordValue` calls on a duration histogram are ignored. -/
theorem snapshot_hist_duration (cfg : Cfg) (hk : cfg.kind = .none) (pfx sep : Bytes) (tags : TagMap)
    (ops₁ : List Op) (sid : Nat) (n : Bytes) (spec : Option (Bool × List Int × List F64)) (m : Nat) (evs : List Event)
    (hv : (histSpec cfg spec).1 = true)
    (hout : (step (runOps (mkRoot cfg pfx sep tags) ops₁) (.hist sid n spec)).2 = .metric m evs)
    (hfresh : (runOps (mkRoot cfg pfx sep tags) ops₁).nextMetric ≤ m) (ops₂ : List Op) :
    ∃ sc, getScope (runOps (mkRoot cfg pfx sep tags) ops₁) sid = some sc ∧
      let nm := fqn (mkRoot cfg pfx sep tags).sep sc.pfx (sanName cfg n)
      let us := durationUppers (histSpec cfg spec).2.1
      let M := sumByBound us (recCounts (placeKey us) (samplesD m ops₂) (List.replicate us.length 0))
      (m, SnapEntry.histD (key nm [sc.tags]) nm sc.tags M)
        ∈ snapIds (runOps (mkRoot cfg pfx sep tags) (ops₁ ++ .hist sid n spec :: ops₂))
      ∧ (M.map (·.1)).Nodup ∧ (∀ b, b ∈ M.map (·.1) ↔ b ∈ us)
      ∧ ∀ b c, (b, c) ∈ M →
          c = (((samplesD m ops₂).filter fun v => hitB us (placeKey us v) b).length : Int) := by
  have hcfg : (runOps (mkRoot cfg pfx sep tags) ops₁).cfg = cfg := (runOps_cfg_sep _ ops₁).1
  obtain ⟨sc, hsc, h1, _⟩ := snapshot_exact cfg hk pfx sep tags ops₁ (.hist sid n spec) sid
    (.hist (sanName cfg n) (newHist (histSpec cfg spec))) m evs (by simp [creation, hcfg]) hout hfresh ops₂
  refine ⟨sc, hsc, ?_⟩
  have hnew : newHist (histSpec cfg spec) = (⟨true, durationUppers (histSpec cfg spec).2.1, [],
      List.replicate (durationUppers (histSpec cfg spec).2.1).length 0⟩ : Hist) := by
    simp [newHist, hv]
  rw [hnew] at h1
  have hf := fold_histD m (sanName cfg n) (⟨true, durationUppers (histSpec cfg spec).2.1, [], []⟩ : Hist) rfl ops₂
      (List.replicate (durationUppers (histSpec cfg spec).2.1).length 0)
  simp only at hf
  rw [hf] at h1
  exact ⟨h1, histMap_duration _ (durationUppers_ne_nil _) _⟩

/-- an update addressed to an id that has not been allocated yet does nothing (in Go such a handle
cannot exist); so in `snapshot_exact` the fold over `ops₂` is the fold over *all* operations of the
program that can affect `m` -/
theorem unallocated_handle_noop (cfg : Cfg) (hk : cfg.kind = .none) (pfx sep : Bytes) (tags : TagMap)
    (ops : List Op) (op : Op) (m : Nat) (ht : target op = some m)
    (hm : (runOps (mkRoot cfg pfx sep tags) ops).nextMetric ≤ m) :
    step (runOps (mkRoot cfg pfx sep tags) ops) op = (runOps (mkRoot cfg pfx sep tags) ops, .events []) := by
  rw [runOps_eq] at *
  have hg := good_runOps _ (good_mkRoot cfg hk pfx sep tags) ops
  rcases (step_none_cases _ hg.kind hg.inv hg.tinv op : StepCases _ _) with
    ⟨h, _⟩ | ⟨_, _, _, _, _, h, _⟩ | ⟨_, _, _, h⟩ | ⟨m', i, s, x, ht', hs, hx, _⟩
  · rw [ht] at h; cases h
  · cases op <;> simp [creation, target] at h ht
  · exact h
  · rw [ht] at ht'; injection ht' with e; subst e
    have := hg.tinv.bound m i s.pfx s.tags x ⟨s, hs, rfl, rfl, hx⟩
    omega

/-! ## non-vacuity: concrete test-scope programs meeting the hypotheses -/

/-- test root: no reporter, no sanitizer, separator `.` -/
def cfgT : Cfg := { san := none, kind := .none, closable := false, shards := 1, defaultBuckets := none }

/-- `c := root.SubScope("a").Counter("b")`, `c.Inc(5)`, close the subscope, `c.Inc(7)`:
the snapshot has the entry `a.b` with value `wrap64 (wrap64 (0+5) + 7)` -/
example : ∃ sc, getScope (runOps (mkRoot cfgT [] [] []) [.sub 0 [97] 0]) 1 = some sc ∧
    let nm := fqn (mkRoot cfgT [] [] []).sep sc.pfx (sanName cfgT [98])
    (0, SnapEntry.counter (key nm [sc.tags]) nm sc.tags (incSum 0 [.inc 0 5, .close 1, .inc 0 7]))
      ∈ snapIds (runOps (mkRoot cfgT [] [] []) ([.sub 0 [97] 0] ++ .counter 1 [98] :: [.inc 0 5, .close 1, .inc 0 7])) :=
  snapshot_counter cfgT rfl [] [] [] [.sub 0 [97] 0] 1 [98] 0 [] rfl (Nat.le_refl _) _

example : incSum 0 [.inc 0 5, .close 1, .inc 0 7] = 12 := by decide

/-- a gauge updated twice and a timer recorded twice -/
example : ∃ sc, getScope (runOps (mkRoot cfgT [] [] []) []) 0 = some sc ∧
    let nm := fqn (mkRoot cfgT [] [] []).sep sc.pfx (sanName cfgT [103])
    (0, SnapEntry.gauge (key nm [sc.tags]) nm sc.tags (lastUpd 0 [.upd 0 1, .upd 0 2]))
      ∈ snapIds (runOps (mkRoot cfgT [] [] []) ([] ++ .gauge 0 [103] :: [.upd 0 1, .upd 0 2])) :=
  snapshot_gauge cfgT rfl [] [] [] [] 0 [103] 0 [] rfl (Nat.le_refl _) _

example : ∃ sc, getScope (runOps (mkRoot cfgT [] [] []) []) 0 = some sc ∧
    let nm := fqn (mkRoot cfgT [] [] []).sep sc.pfx (sanName cfgT [116])
    (0, SnapEntry.timer (key nm [sc.tags]) nm sc.tags (recorded 0 [.record 0 3, .report, .record 0 4]))
      ∈ snapIds (runOps (mkRoot cfgT [] [] []) ([] ++ .timer 0 [116] :: [.record 0 3, .report, .record 0 4])) :=
  snapshot_timer cfgT rfl [] [] [] [] 0 [116] 0 [] rfl (Nat.le_refl _) _

example : recorded 0 [.record 0 3, .report, .record 0 4] = [3, 4] := by decide

/-- a value histogram with buckets `{2.0, 1.0}` receiving `1.0`, a duration (ignored) and `+Inf` -/
example := snapshot_hist_value cfgT rfl [] [] [] [] 0 [104]
  (some (false, [], [0x4000000000000000, 0x3FF0000000000000])) 0 [] rfl rfl (Nat.le_refl _)
  [.recv 0 0x3FF0000000000000, .recd 0 5, .recv 0 0x7FF0000000000000]

/-- a duration histogram with the library default buckets -/
example := snapshot_hist_duration cfgT rfl [] [] [] [] 0 [104] none 0 [] rfl rfl (Nat.le_refl _)
  [.recd 0 5, .recv 0 0, .recd 0 20000000]

/-- closing the subscope changes no snapshot entry -/
example : snapshot (step (runOps (mkRoot cfgT [] [] []) [.sub 0 [97] 0, .counter 1 [98], .inc 0 1]) (.close 1)).1
    = snapshot (runOps (mkRoot cfgT [] [] []) [.sub 0 [97] 0, .counter 1 [98], .inc 0 1]) :=
  test_scope_survives_close cfgT rfl [] [] [] _ 1

/-! ## remark: entries are per metric, keys need not be distinct

`snapshot_one_entry_per_metric` is about metric identities.  The *keys* of two different metrics
can coincide: `root.SubScope("a").Counter("b")` and `root.Counter("a.b")` are different counters
with the same full name `a.b` and the same (empty) tags.  The model's snapshot is a list and keeps
both entries (below); Go's `Snapshot()` writes them into one map under the same key, so one of the
two is lost there.  This is outside what C11 claims per metric, but "one entry per key" is false. -/

def snapKey : SnapEntry → Bytes
  | .counter k .. | .gauge k .. | .timer k .. | .histV k .. | .histD k .. => k

example : (snapshot (runOps (mkRoot cfgT [] [] [])
      [.sub 0 [97] 0, .counter 1 [98], .counter 0 [97, 46, 98], .inc 0 1, .inc 1 2])).map snapKey
    = [[97, 46, 98, 43], [97, 46, 98, 43]] := by rfl

end Tally.Props.C11
