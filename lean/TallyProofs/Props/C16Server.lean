import Tally.Model.ServerRoute
import TallyProofs.Props.C16
/-!
# C16, "decoding again yields an equal batch" — on the receiving side as a server runs it

`Props/C16.lean` proves `decMessage p (encMessage p seq b ++ rest) = some (seq, b, rest)` for every well-formed batch.
Here the same for a LONG-LIVED server (`Tally.ServerRoute`): whatever state earlier datagrams left behind — unconsumed
bytes of a datagram that was noise, truncated or had trailing bytes; the argument struct of the previous call — a
datagram that is one encoded message hands the handler exactly the batch that was sent
(`server_receives_what_was_sent`, `server_history`).  The two `Legacy` machines (an appending `Write`; a recycled
argument struct whose batch is not zeroed) are refuted by concrete histories.
-/
namespace Tally.Props.C16Server
open Tally Tally.Thrift Tally.ServerRoute Tally.Props.C16

/-- **whatever came before**: for every server state `s`, a datagram that is one encoded message is decoded to the
batch that was sent, with its sequence number, and leaves nothing behind -/
theorem server_receives_what_was_sent (p : Proto) (s : Server) (seq : Int) (hs : -2^31 ≤ seq ∧ seq < 2^31)
    (b : MetricBatch) (h : wfBatch b = true) :
    receive p s (encMessage p seq b) = ({ buf := [], last := some b }, some (seq, b)) := by
  have hr := roundtrip_message p seq hs b h []
  simp only [List.append_nil] at hr
  simp [receive, write, process, hr]

/-- the handler's view of a whole history of datagrams: every datagram that is an encoded message yields its batch,
independently of the datagrams before it (good or not) -/
theorem server_history (p : Proto) (s : Server) (pre : List Bytes) (seq : Int) (hs : -2^31 ≤ seq ∧ seq < 2^31)
    (b : MetricBatch) (h : wfBatch b = true) :
    (receive p (pre.foldl (fun st d => (receive p st d).1) s) (encMessage p seq b)).2 = some (seq, b) := by
  rw [server_receives_what_was_sent p _ seq hs b h]

/-! ## the two legacy machines, and non-vacuity -/
namespace Example
def tag : MetricTag := { name := [115], value := [120] }
def withTags : MetricBatch := { metrics := [], commonTags := some [tag] }
def noTags : MetricBatch := { metrics := [], commonTags := none }

/-- an appending `Write`: after one datagram with trailing bytes, the next (good) message is not what the handler gets -/
theorem legacy_append_breaks_the_next_message :
    let s1 := (Legacy.receive .binary {} (encMessage .binary 1 noTags ++ [0x7f])).1
    (Legacy.receive .binary s1 (encMessage .binary 2 withTags)).2 ≠ some (2, withTags) ∧
    (receive .binary (receive .binary {} (encMessage .binary 1 noTags ++ [0x7f])).1 (encMessage .binary 2 withTags)).2
      = some (2, withTags) := by
  decide +kernel

/-- a recycled argument struct that is not zeroed: a batch sent WITHOUT common tags comes out with the previous batch's -/
theorem legacy_args_leak_common_tags :
    let s1 := (LegacyArgs.receive .compact {} (encMessage .compact 1 withTags)).1
    (LegacyArgs.receive .compact s1 (encMessage .compact 2 noTags)).2 = some (2, { noTags with commonTags := some [tag] }) ∧
    (receive .compact (receive .compact {} (encMessage .compact 1 withTags)).1 (encMessage .compact 2 noTags)).2
      = some (2, noTags) := by
  decide +kernel

/-- the theorem applies to these batches -/
example : wfBatch withTags = true ∧ wfBatch noTags = true := by decide
end Example

end Tally.Props.C16Server
