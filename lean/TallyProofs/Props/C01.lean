import Tally.Model.Counter
import Tally.Spec.C01
import TallyProofs.Props.C03
/-!
# C01 — counter increments are delivered exactly once (delta conservation)

The model (`Tally.Counter`) has any number of visiting threads and any interleaving of `inc`,
`swap t`, `deliver t` actions.  All theorems are over *every* event list accepted by the model.
-/
namespace Tally.Props.C01
open Tally Tally.Counter

/-- the accounting invariant, in int64 wrap-around arithmetic, and uniqueness of a thread's pending delta -/
def Inv (s : State) : Prop :=
  (sum s.delivered + pendingSum s + s.cell - sum s.incs) % two64 = 0 ∧ (s.pending.map (·.1)).Nodup

theorem wrap64_mod (i : Int) : (wrap64 i - i) % two64 = 0 := by
  unfold wrap64 two64 two63
  simp only
  split <;> omega

theorem sum_filter_of_lookup (l : List (Nat × Int)) (t : Nat) (d : Int)
    (hnd : (l.map (·.1)).Nodup) (h : l.lookup t = some d) :
    sum ((l.filter (fun p => p.1 != t)).map (·.2)) = sum (l.map (·.2)) - d := by
  induction l with
  | nil => simp [List.lookup] at h
  | cons p l ih =>
    obtain ⟨k, v⟩ := p
    simp only [List.map_cons, List.nodup_cons] at hnd
    by_cases hk : t = k
    · subst hk
      simp only [List.lookup, beq_self_eq_true] at h
      injection h with h; subst h
      have hnot : ∀ q ∈ l, (q.1 != t) = true := by
        intro q hq
        have : q.1 ∈ l.map (·.1) := List.mem_map_of_mem hq
        simp only [bne_iff_ne, ne_eq]
        intro he; rw [he] at this; exact hnd.1 this
      have hf : l.filter (fun p => p.1 != t) = l := List.filter_eq_self.mpr hnot
      simp [sum, List.filter, hf]; omega
    · have hne : (t == k) = false := by simp [hk]
      simp only [List.lookup, hne] at h
      have hkt : (k != t) = true := by simp [bne_iff_ne]; exact fun e => hk e.symm
      have := ih hnd.2 h
      simp only [sum] at this ⊢
      simp [List.filter, hkt, this]; omega

theorem nodup_filter (l : List (Nat × Int)) (t : Nat) (h : (l.map (·.1)).Nodup) :
    ((l.filter (fun p => p.1 != t)).map (·.1)).Nodup := by
  induction l with
  | nil => simp
  | cons p l ih =>
    simp only [List.map_cons, List.nodup_cons] at h
    simp only [List.filter]
    split
    · simp only [List.map_cons, List.nodup_cons]
      refine ⟨?_, ih h.2⟩
      intro hm
      obtain ⟨q, hq, he⟩ := List.mem_map.mp hm
      exact h.1 (he ▸ List.mem_map_of_mem (List.mem_filter.mp hq).1)
    · exact ih h.2

theorem lookup_none_not_mem (l : List (Nat × Int)) (t : Nat) (h : (l.lookup t).isSome = false) :
    t ∉ l.map (·.1) := by
  induction l with
  | nil => simp
  | cons p l ih =>
    obtain ⟨k, v⟩ := p
    by_cases hk : t = k
    · subst hk; simp [List.lookup] at h
    · have hne : (t == k) = false := by simp [hk]
      simp only [List.lookup, hne] at h
      simp only [List.map_cons, List.mem_cons, not_or]
      exact ⟨hk, ih h⟩

theorem inv_init : Inv init := by simp [Inv, init, sum, pendingSum, two64]

/-- every atomic action of every thread preserves the accounting invariant -/
theorem inv_step (s s' : State) (e : Ev) (h : Inv s) (hs : step s e = some s') : Inv s' := by
  obtain ⟨hacc, hnd⟩ := h
  cases e with
  | inc v =>
    simp only [step, Option.some.injEq] at hs; subst hs
    refine ⟨?_, hnd⟩
    have := wrap64_mod (s.cell + v)
    simp only [sum, pendingSum, List.sum_cons] at *
    unfold two64 at *; omega
  | swap t =>
    simp only [step] at hs
    split at hs
    · cases hs
    · next hl =>
      simp only [Option.some.injEq] at hs; subst hs
      have hl' : (s.pending.lookup t).isSome = false := Bool.eq_false_iff.mpr hl
      by_cases hd : s.cell = 0
      · simp only [hd, if_true]
        refine ⟨?_, hnd⟩
        simp only [sum, pendingSum, hd] at *; exact hacc
      · simp only [hd, if_false]
        refine ⟨?_, ?_⟩
        · simp only [sum, pendingSum, List.map_cons, List.sum_cons] at *
          unfold two64 at *; omega
        · simp only [List.map_cons, List.nodup_cons]
          exact ⟨lookup_none_not_mem _ _ hl', hnd⟩
  | deliver t =>
    simp only [step] at hs
    split at hs
    · cases hs
    · next d hl =>
      simp only [Option.some.injEq] at hs; subst hs
      refine ⟨?_, nodup_filter _ _ hnd⟩
      have := sum_filter_of_lookup s.pending t d hnd hl
      simp only [sum, pendingSum, List.sum_cons] at *
      unfold two64 at *; omega

/-- the invariant holds in every state reachable by any interleaving -/
theorem inv_run (s s' : State) (es : List Ev) (h : Inv s) (hr : run s es = some s') : Inv s' := by
  induction es generalizing s with
  | nil => simp only [run, Option.some.injEq] at hr; subst hr; exact h
  | cons e es ih =>
    simp only [run] at hr
    split at hr
    · cases hr
    · next s1 h1 => exact ih s1 (inv_step s s1 e h h1) hr

/-- **conservation** (token partition as sums): in every reachable state, what was delivered, what
threads hold pending and what is still in the cell add up to the increments, modulo 2^64 — whatever
the number of threads and however their steps interleave.  Nothing is delivered twice, nothing lost. -/
theorem conservation (es : List Ev) (s : State) (hr : run init es = some s) :
    (sum s.delivered + pendingSum s + s.cell - sum s.incs) % two64 = 0 :=
  (inv_run init s es inv_init hr).1

theorem wrap64_congr (a b : Int) (h : (a - b) % two64 = 0) : wrap64 a = wrap64 b := by
  unfold wrap64 two64 two63 at *
  simp only
  have : a % 18446744073709551616 = b % 18446744073709551616 := by omega
  rw [this]

/-- **conservation at quiescence**: once no delta is pending and the cell is empty — i.e. after any
further visit that ran to completion with nothing else in flight — the oracle's conservation clause
holds of the model's trace. -/
theorem conserved_at_quiescence (es : List Ev) (s : State) (hr : run init es = some s)
    (hp : s.pending = []) (hc : s.cell = 0) :
    Spec.C01.conserved s.incs s.delivered = true := by
  have h := conservation es s hr
  simp only [pendingSum, hp, hc, List.map_nil, sum, List.sum_nil] at h
  simp only [Spec.C01.conserved, Spec.C01.sum, beq_iff_eq]
  apply wrap64_congr
  simpa using h

theorem run_append (a : State) (xs ys : List Ev) (b : State) (h : run a xs = some b) :
    run a (xs ++ ys) = run b ys := by
  induction xs generalizing a with
  | nil => simp only [run, Option.some.injEq] at h; subst h; rfl
  | cons x xs ih =>
    simp only [List.cons_append, run] at h ⊢
    cases h1 : step a x with
    | none => simp [h1] at h
    | some s1 => simp only [h1] at h ⊢; exact ih s1 h

/-- one complete visit by thread `t`: the swap, then the delivery if something was swapped out -/
def visit (t : Nat) (s : State) : List Ev := if s.cell = 0 then [.swap t] else [.swap t, .deliver t]

/-- **one more pass suffices**: from any reachable state with no visit in flight, a complete visit
(by any thread) leaves the books balanced. -/
theorem conserved_after_one_more_pass (es : List Ev) (s : State) (hr : run init es = some s)
    (hp : s.pending = []) (t : Nat) :
    ∃ s', run s (visit t s) = some s' ∧ Spec.C01.conserved s'.incs s'.delivered = true := by
  by_cases hc : s.cell = 0
  · have hrun : run s (visit t s) = some s := by
      obtain ⟨c, p, d, i⟩ := s
      simp only at hp hc; subst hp; subst hc
      simp [visit, run, step, List.lookup]
    exact ⟨s, hrun, conserved_at_quiescence es s hr hp hc⟩
  · have hrun : run s (visit t s) = some { s with cell := 0, pending := [], delivered := s.cell :: s.delivered } := by
      obtain ⟨c, p, d, i⟩ := s
      simp only at hp hc; subst hp
      simp [visit, hc, run, step, List.lookup]
    refine ⟨_, hrun, ?_⟩
    have hr' : run init (es ++ visit t s) = some { s with cell := 0, pending := [], delivered := s.cell :: s.delivered } := by
      rw [run_append init es _ s hr]; exact hrun
    exact conserved_at_quiescence _ _ hr' rfl rfl

/-- **idle passes are silent**: a visit that finds nothing new delivers nothing. -/
theorem idle_silent (s s' : State) (t : Nat) (hc : s.cell = 0) (hs : step s (.swap t) = some s') :
    s'.pending = s.pending ∧ s'.delivered = s.delivered := by
  simp only [step] at hs
  split at hs
  · cases hs
  · simp only [Option.some.injEq] at hs; subst hs; simp [hc]

/-! ### sign clause -/

def incsOf : List Ev → List Int
  | [] => []
  | .inc v :: es => v :: incsOf es
  | _ :: es => incsOf es

/-- exact (non-modular) books and positivity, as long as the remaining increments keep the total in range -/
def PosInv (s : State) : Prop :=
  0 ≤ s.cell ∧ (∀ p ∈ s.pending, 0 < p.2) ∧ (∀ d ∈ s.delivered, 0 < d)
    ∧ sum s.delivered + pendingSum s + s.cell = sum s.incs ∧ (s.pending.map (·.1)).Nodup

theorem sum_nonneg_of_pos (l : List Int) (h : ∀ d ∈ l, 0 < d) : 0 ≤ l.sum := by
  induction l with
  | nil => simp
  | cons a l ih =>
    simp only [List.sum_cons]
    have := h a (List.mem_cons_self ..)
    have := ih (fun d hd => h d (List.mem_cons_of_mem _ hd))
    omega

theorem posinv_step (s s1 : State) (e : Ev) (h : PosInv s) (h1 : step s e = some s1)
    (hpos : ∀ v ∈ incsOf [e], 0 ≤ v) (hbound : sum s.incs + (incsOf [e]).sum ≤ maxInt64) : PosInv s1 := by
  obtain ⟨hc, hp, hd, hacc, hnd⟩ := h
  cases e with
  | inc v =>
    simp only [step, Option.some.injEq] at h1; subst h1
    simp only [incsOf, List.mem_cons, List.sum_cons, List.sum_nil, List.not_mem_nil, or_false] at hpos hbound
    have hv : 0 ≤ v := hpos v rfl
    have hps : 0 ≤ pendingSum s := by
      unfold pendingSum sum
      apply sum_nonneg_of_pos
      intro d hdm
      obtain ⟨p, hpm, rfl⟩ := List.mem_map.mp hdm
      exact hp p hpm
    have hds : 0 ≤ sum s.delivered := sum_nonneg_of_pos _ hd
    have hw : wrap64 (s.cell + v) = s.cell + v := by
      unfold wrap64 two64 two63 maxInt64 two63 at *
      simp only [sum] at *
      split <;> omega
    refine ⟨by simp only [hw]; omega, hp, hd, ?_, hnd⟩
    simp only [hw, sum, pendingSum, List.sum_cons] at *; omega
  | swap t =>
    simp only [step] at h1
    split at h1
    · cases h1
    · next hl =>
      simp only [Option.some.injEq] at h1; subst h1
      have hl' : (s.pending.lookup t).isSome = false := Bool.eq_false_iff.mpr hl
      by_cases hz : s.cell = 0
      · simp only [hz, if_true]
        refine ⟨Int.le_refl _, hp, hd, ?_, hnd⟩
        simp only [pendingSum, sum, hz] at *; omega
      · simp only [hz, if_false]
        refine ⟨Int.le_refl _, ?_, hd, ?_, ?_⟩
        · intro p hpm
          rcases List.mem_cons.mp hpm with rfl | hpm
          · simp only; omega
          · exact hp p hpm
        · simp only [sum, pendingSum, List.map_cons, List.sum_cons] at *; omega
        · simp only [List.map_cons, List.nodup_cons]
          exact ⟨lookup_none_not_mem _ _ hl', hnd⟩
  | deliver t =>
    simp only [step] at h1
    split at h1
    · cases h1
    · next d hl =>
      simp only [Option.some.injEq] at h1; subst h1
      have hmem : (t, d) ∈ s.pending := by
        obtain ⟨l1, l2, he, _⟩ := List.lookup_eq_some_iff.mp hl
        rw [he]; simp
      refine ⟨hc, ?_, ?_, ?_, nodup_filter _ _ hnd⟩
      · intro p hpm; exact hp p (List.mem_filter.mp hpm).1
      · intro x hx
        rcases List.mem_cons.mp hx with rfl | hx
        · exact hp (t, x) hmem
        · exact hd x hx
      · have := sum_filter_of_lookup s.pending t d hnd hl
        simp only [sum, pendingSum, List.sum_cons] at *; omega

theorem incsOf_cons (e : Ev) (es : List Ev) : incsOf (e :: es) = incsOf [e] ++ incsOf es := by
  cases e <;> simp [incsOf]

theorem step_incs (s s1 : State) (e : Ev) (h1 : step s e = some s1) : sum s1.incs = sum s.incs + (incsOf [e]).sum := by
  cases e with
  | inc v => simp only [step, Option.some.injEq] at h1; subst h1; simp [incsOf, sum]; omega
  | swap t =>
    simp only [step] at h1
    split at h1
    · cases h1
    · simp only [Option.some.injEq] at h1; subst h1; simp [incsOf]
  | deliver t =>
    simp only [step] at h1
    split at h1
    · cases h1
    · simp only [Option.some.injEq] at h1; subst h1; simp [incsOf]

theorem sum_nonneg (l : List Int) (hl : ∀ x ∈ l, 0 ≤ x) : 0 ≤ l.sum := by
  induction l with
  | nil => simp
  | cons a l ih =>
    simp only [List.sum_cons]
    have := hl a (List.mem_cons_self ..)
    have := ih (fun x hx => hl x (List.mem_cons_of_mem _ hx)); omega

theorem posinv_run (s s' : State) (es : List Ev) (h : PosInv s)
    (hpos : ∀ v ∈ incsOf es, 0 ≤ v) (hbound : sum s.incs + (incsOf es).sum ≤ maxInt64)
    (hr : run s es = some s') : PosInv s' := by
  induction es generalizing s with
  | nil => simp only [run, Option.some.injEq] at hr; subst hr; exact h
  | cons e es ih =>
    simp only [run] at hr
    cases h1 : step s e with
    | none => simp [h1] at hr
    | some s1 =>
      simp only [h1] at hr
      rw [incsOf_cons] at hpos hbound
      have hrest : 0 ≤ (incsOf es).sum := sum_nonneg _ (fun x hx => hpos x (List.mem_append_right _ hx))
      have hhead : 0 ≤ (incsOf [e]).sum := sum_nonneg _ (fun x hx => hpos x (List.mem_append_left _ hx))
      simp only [List.sum_append] at hbound
      have hs1 := posinv_step s s1 e h h1 (fun x hx => hpos x (List.mem_append_left _ hx)) (by omega)
      refine ih s1 hs1 (fun x hx => hpos x (List.mem_append_right _ hx)) ?_ hr
      rw [step_incs s s1 e h1]; omega

/-- **no negative delta**: if every increment is non-negative (and they add up to at most MaxInt64, so
the int64 cell cannot wrap), every delivered delta is strictly positive — for every interleaving. -/
theorem nonneg (es : List Ev) (s : State) (hr : run init es = some s)
    (hpos : ∀ v ∈ incsOf es, 0 ≤ v) (hbound : (incsOf es).sum ≤ maxInt64) :
    ∀ d ∈ s.delivered, 0 < d := by
  have h0 : PosInv init := by simp [PosInv, init, sum, pendingSum]
  have := posinv_run init s es h0 hpos (by simpa [init, sum] using hbound) hr
  exact this.2.2.1

/-! ### the pinned code violated the property: regression witness -/

/-- on the unrepaired three-step `value()`, one `Inc(5)` and two overlapping passes deliver 5 twice -/
theorem legacy_double_delivery_counterexample :
    (Legacy.run Legacy.init
      [.inc 5, .visit 1, .visit 2, .visit 1, .visit 2, .visit 1, .visit 2, .visit 1, .visit 2]).delivered = [5, 5] := by
  decide

/-! ### non-vacuity -/

example : run init [.inc 5, .swap 1, .inc 2, .swap 2, .deliver 2, .deliver 1]
    = some { cell := 0, pending := [], delivered := [5, 2], incs := [2, 5] } := by decide

example : Spec.C01.conserved [2, 5] [5, 2] = true :=
  conserved_at_quiescence [.inc 5, .swap 1, .inc 2, .swap 2, .deliver 2, .deliver 1]
    { cell := 0, pending := [], delivered := [5, 2], incs := [2, 5] } (by decide) rfl rfl

/-! ## per name and tags, through the scope tree (sequential histories)

The theorems above are about one counter cell under every interleaving.  Lifted to the scope tree
(`Model.Scope`: any derivation program, sanitizer, shard count, other metrics, subscopes being created,
closed and collected around it): what the reporter receives under a counter's full name and tags adds
up — modulo 2^64 — to what was incremented through its handle, once one more report has run; and a
report with no use of the handle since the previous one delivers nothing under that identity.  Proved
in `TallyProofs/Props/C03.lean` (section Conservation) together with the per-bucket statements for
histograms; restated here under C01's name. -/

open Tally.Scope Tally.KeyGen in
theorem scope_counter_conservation {cfg : Cfg} {pfx0 sep0 : Bytes} {tags0 : TagMap} (st : St)
    (hreach : Reach cfg pfx0 sep0 tags0 st) (hk : cfg.kind ≠ .none) (sid m : Nat) (s : ScopeS) (n : Bytes) (u : Int)
    (hs : getScope st sid = some s) (hm : (m, Metric.counter n u) ∈ s.metrics) (ops : List Op)
    (hsole : Cons.Always (Cons.SoleOwner "counter" (fqn st.sep s.pfx n) s.tags sid m) st (ops ++ [.report]))
    (hlive : Cons.Live (Cons.runEv st (ops ++ [.report])).1 sid) :
    wrap64 (C03.counterDelivered (fqn st.sep s.pfx n) s.tags (Cons.runEv st (ops ++ [.report])).2)
        = wrap64 (u + Cons.incTotal m ops) :=
  (C03.counter_conservation_reach st hreach hk sid m s n u hs hm ops hsole hlive).1

end Tally.Props.C01
