import Tally.Model.KeyGen
import TallyProofs.Lemmas.KeyLemmas
/-!
# C05 — key function: deterministic, order independent, rightmost wins, injective
Property theorems only (helper lemmas live in TallyProofs/Lemmas/KeyLemmas.lean).
A Go map is an association list with pairwise distinct keys (`WF`), enumerated in any order.
-/
namespace Tally.Props.C05
open Tally Tally.KeyGen

/-- a Go map: no key occurs twice -/
def WF (m : TagMap) : Prop := (m.map (·.1)).Nodup

/-- two association lists denote the same Go map -/
def SameMap (m m' : TagMap) : Prop := m.Perm m'

/-- (i) the key does not depend on the order in which map entries are enumerated -/
theorem key_order_independent (p : Bytes) (maps maps' : List TagMap)
    (hwf : ∀ m ∈ maps, WF m) (h : List.Forall₂ SameMap maps maps') :
    key p maps = key p maps' := by
  rw [key_eq_render' p maps, key_eq_render' p maps', canon_forall₂ h hwf]

/-- the writer loop produces exactly the rendering of the canonical merged assignment -/
theorem key_eq_render (p : Bytes) (maps : List TagMap) : key p maps = render p (canon maps) :=
  key_eq_render' p maps

/-- the rendering is injective: the escaped format can be parsed back unambiguously -/
theorem render_injective (p p' : Bytes) (kvs kvs' : List (Bytes × Bytes))
    (h : render p kvs = render p' kvs') : p = p' ∧ kvs = kvs' :=
  render_injective' p p' kvs kvs' h

/-- (ii) the rightmost map wins and the key agrees with the key of the merged map:
the key only depends on the canonical merged assignment -/
theorem key_eq_of_canon_eq (p : Bytes) (maps maps' : List TagMap)
    (h : canon maps = canon maps') : key p maps = key p maps' := by
  rw [key_eq_render p maps, key_eq_render p maps', h]

/-- the key of several maps is the key of the single merged map -/
theorem key_eq_key_of_merge (p : Bytes) (maps : List TagMap) :
    key p maps = key p [canon maps] :=
  key_eq_of_canon_eq p maps [canon maps] (canon_canon maps).symm

/-- (iii) injectivity: equal keys imply equal prefix and equal merged tag assignment -/
theorem key_injective (p p' : Bytes) (maps maps' : List TagMap)
    (h : key p maps = key p' maps') : p = p' ∧ canon maps = canon maps' := by
  rw [key_eq_render p maps, key_eq_render p' maps'] at h
  exact render_injective p p' _ _ h

/-! ## non-vacuity: concrete instances -/

/-- escaping: `,` and `=` inside a value are written as `\,` and `\=` -/
example : key [97] [[([98], [44, 61])]] = [97, 43, 98, 61, 92, 44, 92, 61] := by decide

/-- the unrepaired format would confuse these two assignments (`a+b=,=` both); here they differ -/
example : key [97] [[([98], [44, 61])]] ≠ key [97] [[([98], []), ([], [])]] := by decide

/-- a delimiter in the prefix cannot be confused with the prefix separator -/
example : key [97, 43, 98] [[([99], [])]] ≠ key [97] [[([98, 43, 99], [])]] := by decide

/-- enumeration order is irrelevant and the rightmost map wins -/
example : key [97] [[([99], [2]), ([98], [1])], [([98], [3])]]
    = key [97] [[([98], [3]), ([99], [2])]] := by decide

/-- `key_injective` applied: different merged assignments give different keys -/
example : key [97] [[([98], [1])]] ≠ key [97] [[([98], [1])], [([98], [2])]] := fun h =>
  absurd (key_injective _ _ _ _ h).2 (by decide)

/-- `key_order_independent` applied to a concrete permutation -/
example : key [97] [[([98], [1]), ([99], [2])]] = key [97] [[([99], [2]), ([98], [1])]] :=
  key_order_independent _ _ _ (by intro m hm; simp at hm; subst hm; simp [WF])
    (.cons (List.Perm.swap _ _ _) .nil)

end Tally.Props.C05
