import Tally.Model.KeyGen
import TallyProofs.Lemmas.KeyLemmas
import TallyProofs.Props.C04
/-!
# C05 — key function: deterministic, order independent, rightmost wins, injective
Property theorems only (helper lemmas live in TallyProofs/Lemmas/KeyLemmas.lean).
A Go map is an association list with pairwise distinct keys (`WF`), enumerated in any order.
-/
namespace Tally.Props.C05
open Tally Tally.KeyGen

/-- a Go map: no key occurs twice -/
def WF (m : TagMap) : Prop := (m.map (·.1)).Nodup

/-- two association lists denote the same Go map -/
def SameMap (m m' : TagMap) : Prop := m.Perm m'

/-- (i) the key does not depend on the order in which map entries are enumerated -/
theorem key_order_independent (p : Bytes) (maps maps' : List TagMap)
    (hwf : ∀ m ∈ maps, WF m) (h : List.Forall₂ SameMap maps maps') :
    key p maps = key p maps' := by
  rw [key_eq_render' p maps, key_eq_render' p maps', canon_forall₂ h hwf]

/-- the writer loop produces exactly the rendering of the canonical merged assignment -/
theorem key_eq_render (p : Bytes) (maps : List TagMap) : key p maps = render p (canon maps) :=
  key_eq_render' p maps

/-- the rendering is injective: the escaped format can be parsed back unambiguously -/
theorem render_injective (p p' : Bytes) (kvs kvs' : List (Bytes × Bytes))
    (h : render p kvs = render p' kvs') : p = p' ∧ kvs = kvs' :=
  render_injective' p p' kvs kvs' h

/-- (ii) the rightmost map wins and the key agrees with the key of the merged map:
the key only depends on the canonical merged assignment -/
theorem key_eq_of_canon_eq (p : Bytes) (maps maps' : List TagMap)
    (h : canon maps = canon maps') : key p maps = key p maps' := by
  rw [key_eq_render p maps, key_eq_render p maps', h]

/-- the key of several maps is the key of the single merged map -/
theorem key_eq_key_of_merge (p : Bytes) (maps : List TagMap) :
    key p maps = key p [canon maps] :=
  key_eq_of_canon_eq p maps [canon maps] (canon_canon maps).symm

/-- (iii) injectivity: equal keys imply equal prefix and equal merged tag assignment -/
theorem key_injective (p p' : Bytes) (maps maps' : List TagMap)
    (h : key p maps = key p' maps') : p = p' ∧ canon maps = canon maps' := by
  rw [key_eq_render p maps, key_eq_render p' maps'] at h
  exact render_injective p p' _ _ h

/-! ## non-vacuity: concrete instances -/

/-- escaping: `,` and `=` inside a value are written as `\,` and `\=` -/
example : key [97] [[([98], [44, 61])]] = [97, 43, 98, 61, 92, 44, 92, 61] := by decide

/-- the unrepaired format would confuse these two assignments (`a+b=,=` both); here they differ -/
example : key [97] [[([98], [44, 61])]] ≠ key [97] [[([98], []), ([], [])]] := by decide

/-- a delimiter in the prefix cannot be confused with the prefix separator -/
example : key [97, 43, 98] [[([99], [])]] ≠ key [97] [[([98, 43, 99], [])]] := by decide

/-- enumeration order is irrelevant and the rightmost map wins -/
example : key [97] [[([99], [2]), ([98], [1])], [([98], [3])]]
    = key [97] [[([98], [3]), ([99], [2])]] := by decide

/-- `key_injective` applied: different merged assignments give different keys -/
example : key [97] [[([98], [1])]] ≠ key [97] [[([98], [1])], [([98], [2])]] := fun h =>
  absurd (key_injective _ _ _ _ h).2 (by decide)

/-- `key_order_independent` applied to a concrete permutation -/
example : key [97] [[([98], [1]), ([99], [2])]] = key [97] [[([99], [2]), ([98], [1])]] :=
  key_order_independent _ _ _ (by intro m hm; simp at hm; subst hm; simp [WF])
    (.cons (List.Perm.swap _ _ _) .nil)

/-! # C05, scope level — same identity ⇒ same live scope; different identity ⇒ nothing shared

Sequential scope model (`Tally/Model/Scope.lean`), no sanitizer configured.  With a sanitizer the
`…_sanitized_partial` theorems prove the same statements for executions all of whose `Tagged` maps the
sanitizer leaves unchanged (`sanMap cfg m = canon [m]`; SubScope and metric names may be changed, the
sanitized name enters the identity).  The full sanitized statements — `Tagged` maps that the sanitizer
changes, with identities compared after `sanMap` — are NOT proved: they need registry entries under raw
alias keys in the invariant and the idempotence of `sanitize`.  Helper lemmas:
`TallyProofs/Lemmas/{CanonLemmas,ScopeLemmas,ScopeSteps}.lean`; `D`, `Derives`, `derivPfx`, `derivTags`
come from `TallyProofs/Props/C04.lean`.
-/
open Tally.Scope Tally.Props.C04

/-- the identity (full prefix, effective tag set) requested by the call `d` on scope `p`
(the name of a SubScope passes through the name sanitizer, which is the identity without sanitizer) -/
def reqIdentity (st : St) (p : Nat) : D → Option (Bytes × TagMap)
  | .sub name => (getScope st p).map fun ps => (fqn st.sep ps.pfx (sanName st.cfg name), ps.tags)
  | .tagged m => (getScope st p).map fun ps => (ps.pfx, canon [ps.tags, m])

theorem reqIdentity_sub_none {st : St} (h : st.cfg.san = none) (p : Nat) (name : Bytes) :
    reqIdentity st p (.sub name) = (getScope st p).map fun ps => (fqn st.sep ps.pfx name, ps.tags) := by
  simp only [reqIdentity, sanName_none h]

/-- (any configuration, `Tagged` maps unchanged by the sanitizer) a returned scope has exactly the
requested identity -/
theorem request_result_identity_sanitized_partial {cfg : Cfg} {pfx sep : Bytes} {tags : TagMap} {st : St}
    (hr : ReachF cfg pfx sep tags st) (d : D) (p sh id : Nat) (hfix : SanFixed cfg (d.op p sh))
    (evs : List Event) (h : (step st (d.op p sh)).2 = .scope (some id) evs) :
    ∃ s, getScope (step st (d.op p sh)).1 id = some s ∧ reqIdentity st p d = some (s.pfx, s.tags) := by
  cases hg : getScope st p with
  | none =>
    exfalso
    cases d <;> (simp only [D.op, step, hg] at h; cases h)
  | some parent =>
    cases d with
    | sub n =>
      obtain ⟨_, _, s, hs, hp, ht⟩ := sub_result_identity_sanitized_partial hr p parent hg n sh id evs h
      exact ⟨s, hs, by simp only [reqIdentity, hg, Option.map_some, hp, ht]⟩
    | tagged m =>
      obtain ⟨_, _, s, hs, hp, _, ht⟩ :=
        tagged_result_identity_sanitized_partial hr p parent hg m hfix sh id evs h
      exact ⟨s, hs, by simp only [reqIdentity, hg, Option.map_some, hp, ht]⟩

/-- a returned scope has exactly the requested identity (no sanitizer) -/
theorem request_result_identity {cfg : Cfg} {pfx sep : Bytes} {tags : TagMap} {st : St}
    (hr : Reach cfg pfx sep tags st) (hns : cfg.san = none) (d : D) (p sh id : Nat) (evs : List Event)
    (h : (step st (d.op p sh)).2 = .scope (some id) evs) :
    ∃ s, getScope (step st (d.op p sh)).1 id = some s ∧ reqIdentity st p d = some (s.pfx, s.tags) :=
  request_result_identity_sanitized_partial (hr.toF hns) d p sh id (sanFixed_of_none hns _) evs h

/-! ## 5. different identities never share a scope or a metric -/

/-- two registry entries that point to the same scope carry the same key, and that key decodes to the
scope's (prefix, tags) only -/
theorem registry_entries_same_scope_same_key {cfg : Cfg} {pfx sep : Bytes} {tags : TagMap} {st : St}
    (hr : Reach cfg pfx sep tags st) (hns : cfg.san = none) {sh1 sh2 : Nat} {k1 k2 : Bytes} {sid : Nat}
    (h1 : ((sh1, k1), sid) ∈ st.reg) (h2 : ((sh2, k2), sid) ∈ st.reg) :
    k1 = k2 ∧ ∃ s, getScope st sid = some s ∧
      ∀ p t, k1 = key p [t] → p = s.pfx ∧ canon [t] = s.tags := by
  have hinv := reach_inv hns hr
  obtain ⟨s, hg, e1⟩ := hinv.reg sh1 k1 sid h1
  obtain ⟨s', hg', e2⟩ := hinv.reg sh2 k2 sid h2
  rw [hg] at hg'; cases hg'
  refine ⟨e1.trans e2.symm, s, hg, ?_⟩
  intro p t hk
  rw [e1] at hk
  obtain ⟨a, b⟩ := key_inj' hk
  exact ⟨a.symm, by rw [← b]; exact hinv.canon sid s hg⟩

/-- (any configuration, `Tagged` maps unchanged by the sanitizer) if two sub/tagged requests (the second
any time after the first) return the same scope id, they requested the same (prefix, tag set) -/
theorem different_identity_no_merge_sanitized_partial {cfg : Cfg} {pfx sep : Bytes} {tags : TagMap}
    {st1 : St} (hr : ReachF cfg pfx sep tags st1)
    (d1 : D) (p1 sh1 id : Nat) (hfix1 : SanFixed cfg (d1.op p1 sh1)) (evs1 : List Event)
    (h1 : (step st1 (d1.op p1 sh1)).2 = .scope (some id) evs1)
    (ops : List Op) (hfix : FixedOps cfg ops) (d2 : D) (p2 sh2 : Nat)
    (hfix2 : SanFixed cfg (d2.op p2 sh2)) (evs2 : List Event)
    (h2 : (step (runOps (step st1 (d1.op p1 sh1)).1 ops) (d2.op p2 sh2)).2 = .scope (some id) evs2) :
    reqIdentity st1 p1 d1 = reqIdentity (runOps (step st1 (d1.op p1 sh1)).1 ops) p2 d2 := by
  obtain ⟨s1, hs1, e1⟩ := request_result_identity_sanitized_partial hr d1 p1 sh1 id hfix1 evs1 h1
  have hr2 : ReachF cfg pfx sep tags (runOps (step st1 (d1.op p1 sh1)).1 ops) :=
    (hr.step hfix1).run hfix
  obtain ⟨s2, hs2, e2⟩ := request_result_identity_sanitized_partial hr2 d2 p2 sh2 id hfix2 evs2 h2
  obtain ⟨sa, ha, pa, ta, _⟩ := scope_identity_constant_run ops _ id s1 hs1
  obtain ⟨sb, hb, pb, tb, _⟩ := scope_identity_constant' _ (d2.op p2 sh2) id sa ha
  rw [hs2] at hb; cases hb
  rw [e1, e2, pb, tb, pa, ta]

/-- if two sub/tagged requests (the second any time after the first) return the same scope id, they
requested the same (prefix, tag set): derivations whose prefix or tag set differ never share a scope -/
theorem different_identity_no_merge {cfg : Cfg} {pfx sep : Bytes} {tags : TagMap} {st1 : St}
    (hr : Reach cfg pfx sep tags st1) (hns : cfg.san = none)
    (d1 : D) (p1 sh1 id : Nat) (evs1 : List Event)
    (h1 : (step st1 (d1.op p1 sh1)).2 = .scope (some id) evs1)
    (ops : List Op) (d2 : D) (p2 sh2 : Nat) (evs2 : List Event)
    (h2 : (step (runOps (step st1 (d1.op p1 sh1)).1 ops) (d2.op p2 sh2)).2 = .scope (some id) evs2) :
    reqIdentity st1 p1 d1 = reqIdentity (runOps (step st1 (d1.op p1 sh1)).1 ops) p2 d2 :=
  different_identity_no_merge_sanitized_partial (hr.toF hns) d1 p1 sh1 id (sanFixed_of_none hns _) evs1 h1
    ops (fun op _ => sanFixed_of_none hns op) d2 p2 sh2 (sanFixed_of_none hns _) evs2 h2

/-- a metric request returns an id that lives in the requested scope -/
theorem metric_result_in_scope (st : St) (op : Op) (sid : Nat) (kind : String) (raw : Bytes)
    (hk : metricOpKey op = some (sid, kind, raw)) (id : Nat) (evs : List Event)
    (h : (step st op).2 = .metric id evs) :
    ∃ s', getScope (step st op).1 sid = some s' ∧
      (sigs s').find? (fun x => x.2.1 == kind && x.2.2 == sanName st.cfg raw)
        = some (id, kind, sanName st.cfg raw) ∧ id ∈ ids s' := by
  obtain ⟨mk, hmk, e1, e2⟩ := step_metricOp st op sid kind raw hk
  rw [e1] at h
  obtain ⟨s', hs', hf⟩ := getMetric_result st sid kind raw mk hmk id evs h
  refine ⟨s', by rw [getScope_congr e2]; exact hs', hf, ?_⟩
  rw [ids_eq_sigs]
  exact List.mem_map.mpr ⟨_, List.mem_of_find?_eq_some hf, rfl⟩

/-- metric ids are globally fresh: requests on different scopes never return the same metric
(any configuration, the second request any time after the first) -/
theorem different_scope_no_shared_metric {cfg : Cfg} {pfx sep : Bytes} {tags : TagMap} {st1 : St}
    (hr : Reach cfg pfx sep tags st1)
    (op1 : Op) (s1 : Nat) (k1 : String) (n1 : Bytes) (hk1 : metricOpKey op1 = some (s1, k1, n1))
    (id : Nat) (evs1 : List Event) (h1 : (step st1 op1).2 = .metric id evs1)
    (ops : List Op)
    (op2 : Op) (s2 : Nat) (k2 : String) (n2 : Bytes) (hk2 : metricOpKey op2 = some (s2, k2, n2))
    (evs2 : List Event) (h2 : (step (runOps (step st1 op1).1 ops) op2).2 = .metric id evs2) :
    s1 = s2 := by
  obtain ⟨a, ha, -, hia⟩ := metric_result_in_scope st1 op1 s1 k1 n1 hk1 id evs1 h1
  obtain ⟨b, hb, -, hib⟩ := metric_result_in_scope _ op2 s2 k2 n2 hk2 id evs2 h2
  have hm1 : MetInv (step st1 op1).1 := reach_metInv (hr.step op1)
  have hlt : id < (step st1 op1).1.nextMetric := hm1.lt id (mem_allIds.mpr ⟨s1, a, ha, hia⟩)
  have hm2 : MetInv (runOps (step st1 op1).1 ops) := reach_metInv ((hr.step op1).run ops)
  have hext : Ext (step st1 op1).1 (step (runOps (step st1 op1).1 ops) op2).1 :=
    (runOps_ext ops _ hm1).trans (step_ext _ op2 hm2)
  obtain ⟨b0, hb0, hib0⟩ := hext.noMigrate id hlt s2 b hb hib
  exact hm1.unique ha hb0 hia hib0

/-- within one state: an id is in at most one scope -/
theorem metric_id_in_one_scope {cfg : Cfg} {pfx sep : Bytes} {tags : TagMap} {st : St}
    (hr : Reach cfg pfx sep tags st) {sid sid' : Nat} {s s' : ScopeS} {i : Nat}
    (h1 : getScope st sid = some s) (h2 : getScope st sid' = some s') (hi : i ∈ ids s) (hi' : i ∈ ids s') :
    sid = sid' := (reach_metInv hr).unique h1 h2 hi hi'

/-- asking a live scope twice for a metric of the same kind and name returns the same metric
(any configuration; the second request any time after the first, the scope not closed) -/
theorem same_metric_twice {cfg : Cfg} {pfx sep : Bytes} {tags : TagMap} {st1 : St}
    (hr : Reach cfg pfx sep tags st1)
    (op1 op2 : Op) (sid : Nat) (kind : String) (raw : Bytes)
    (hk1 : metricOpKey op1 = some (sid, kind, raw)) (hk2 : metricOpKey op2 = some (sid, kind, raw))
    (id : Nat) (evs1 : List Event) (h1 : (step st1 op1).2 = .metric id evs1)
    (ops : List Op) (s2 : ScopeS) (hs2 : getScope (runOps (step st1 op1).1 ops) sid = some s2)
    (hlive : s2.closed = false) :
    (step (runOps (step st1 op1).1 ops) op2).2 = .metric id [] := by
  obtain ⟨a, ha, hfa, -⟩ := metric_result_in_scope st1 op1 sid kind raw hk1 id evs1 h1
  have hm0 : MetInv st1 := reach_metInv hr
  have hm1 : MetInv (step st1 op1).1 := reach_metInv (hr.step op1)
  have hext := runOps_ext ops _ hm1
  obtain ⟨b, hb, _, _, _, _, hpre⟩ := hext.scope sid a ha
  rw [hs2] at hb; cases hb
  have hcfg : (runOps (step st1 op1).1 ops).cfg = st1.cfg := hext.cfg.trans (step_ext st1 op1 hm0).cfg
  have hf2 := find?_of_prefix (hpre hlive) hfa
  obtain ⟨mk, _, e1, _⟩ := step_metricOp (runOps (step st1 op1).1 ops) op2 sid kind raw hk2
  rw [e1, getMetric_found _ sid kind raw mk s2 hs2 id (by rw [hcfg]; exact hf2)]

/-! ## 6. the same identity is answered with the same live scope -/

/-- core (any configuration, `Tagged` maps unchanged by the sanitizer): in a state reached by a program
whose shards are a function of the raw key, a request for the identity of a live scope returns that scope
and changes nothing -/
theorem same_identity_same_scope_core_sanitized_partial {f : Bytes → Nat} {cfg : Cfg} {pfx sep : Bytes}
    {tags : TagMap} {st : St} (hr : ReachSF f cfg pfx sep tags st)
    (hsh : ∀ k, f k < max cfg.shards 1)
    (d : D) (p sh : Nat) (parent : ScopeS) (hp : getScope st p = some parent)
    (hpl : parent.closed = false) (hrc : st.rootClosed = false)
    (hws : WellSharded (fun k sh => sh = f k) st (d.op p sh))
    (id : Nat) (s : ScopeS) (hs : getScope st id = some s) (hlive : s.closed = false)
    (hid : reqIdentity st p d = some (s.pfx, s.tags)) :
    step st (d.op p sh) = (st, .scope (some id) []) := by
  have hl := reachSF_liveReg hr
  have hinv := reachF_inv hr.reachF
  have hcfg := reach_cfg hr.reachF.reach
  have hlook : ∀ rawKey, rawKey = key s.pfx [s.tags] → sh = f rawKey →
      st.reg.lookup (sh, rawKey) = some id := by
    intro rawKey e1 e2
    rw [e1]
    refine hl id s hs hlive sh (fun _ => by rw [e2, e1]) (fun _ => ?_)
    rw [e2, hcfg]; exact hsh _
  cases d with
  | sub n =>
    simp only [reqIdentity, hp, Option.map_some, Option.some.injEq, Prod.mk.injEq] at hid
    have hws' := hws parent hp
    simp only [D.op, step, hp]
    apply subscope_hit hp hpl hrc _ _ sh id s _ hs hlive
    apply hlook _ _ hws'
    rw [key_pair_eq, canon_pair_nil, hinv.canon p parent hp, hid.1, hid.2]
  | tagged m =>
    simp only [reqIdentity, hp, Option.map_some, Option.some.injEq, Prod.mk.injEq] at hid
    have hws' := hws parent hp
    simp only [D.op, step, hp]
    apply subscope_hit hp hpl hrc _ _ sh id s _ hs hlive
    apply hlook _ _ hws'
    rw [key_pair_eq, hid.1, hid.2]

/-- core: in a state reached by a program whose shards are a function of the raw key, a request for
the identity of a live scope returns that scope and changes nothing -/
theorem same_identity_same_scope_core {f : Bytes → Nat} {cfg : Cfg} {pfx sep : Bytes} {tags : TagMap}
    {st : St} (hr : ReachS f cfg pfx sep tags st) (hns : cfg.san = none)
    (hsh : ∀ k, f k < max cfg.shards 1)
    (d : D) (p sh : Nat) (parent : ScopeS) (hp : getScope st p = some parent)
    (hpl : parent.closed = false) (hrc : st.rootClosed = false)
    (hws : WellSharded (fun k sh => sh = f k) st (d.op p sh))
    (id : Nat) (s : ScopeS) (hs : getScope st id = some s) (hlive : s.closed = false)
    (hid : reqIdentity st p d = some (s.pfx, s.tags)) :
    step st (d.op p sh) = (st, .scope (some id) []) :=
  same_identity_same_scope_core_sanitized_partial (hr.toSF hns) hsh d p sh parent hp hpl hrc hws id s hs
    hlive hid

/-- if a scope `id` was returned for an identity and neither it nor the root has been closed since,
a later request for the same identity returns the same `id` -/
theorem same_identity_same_scope {f : Bytes → Nat} {cfg : Cfg} {pfx sep : Bytes} {tags : TagMap}
    {st1 : St} (hr : ReachS f cfg pfx sep tags st1) (hns : cfg.san = none)
    (hsh : ∀ k, f k < max cfg.shards 1)
    (d1 : D) (p1 sh1 id : Nat) (evs1 : List Event)
    (hws1 : WellSharded (fun k sh => sh = f k) st1 (d1.op p1 sh1))
    (h1 : (step st1 (d1.op p1 sh1)).2 = .scope (some id) evs1)
    (ops : List Op) (hops : ShardedOps f (step st1 (d1.op p1 sh1)).1 ops)
    (d2 : D) (p2 sh2 : Nat)
    (hws2 : WellSharded (fun k sh => sh = f k) (runOps (step st1 (d1.op p1 sh1)).1 ops) (d2.op p2 sh2))
    (parent2 : ScopeS) (hp2 : getScope (runOps (step st1 (d1.op p1 sh1)).1 ops) p2 = some parent2)
    (hpl : parent2.closed = false) (hrc : (runOps (step st1 (d1.op p1 sh1)).1 ops).rootClosed = false)
    (s : ScopeS) (hs : getScope (runOps (step st1 (d1.op p1 sh1)).1 ops) id = some s)
    (hlive : s.closed = false)
    (hsame : reqIdentity (runOps (step st1 (d1.op p1 sh1)).1 ops) p2 d2 = reqIdentity st1 p1 d1) :
    step (runOps (step st1 (d1.op p1 sh1)).1 ops) (d2.op p2 sh2)
      = (runOps (step st1 (d1.op p1 sh1)).1 ops, .scope (some id) []) := by
  obtain ⟨s1, hs1, e1⟩ := request_result_identity hr.reach hns d1 p1 sh1 id evs1 h1
  obtain ⟨sa, ha, pa, ta, _⟩ := scope_identity_constant_run ops _ id s1 hs1
  rw [hs] at ha; cases ha
  have hr1 : ReachS f cfg pfx sep tags (step st1 (d1.op p1 sh1)).1 :=
    hr.run (ops := [d1.op p1 sh1]) ⟨hws1, trivial⟩
  have hr2 := hr1.run hops
  exact same_identity_same_scope_core hr2 hns hsh d2 p2 sh2 parent2 hp2 hpl hrc hws2 id s hs hlive
    (by rw [hsame, e1, pa, ta])

/-- derivations executed by a program whose shards are a function of the raw key -/
inductive DerivesS (f : Bytes → Nat) : St → List D → St → Nat → Prop
  | root (st0 : St) : DerivesS f st0 [] st0 0
  | others {st0 : St} {ds : List D} {st : St} {id : Nat} (ops : List Op) :
      DerivesS f st0 ds st id → ShardedOps f st ops → DerivesS f st0 ds (runOps st ops) id
  | call {st0 : St} {ds : List D} {st : St} {p : Nat} (d : D) (sh id : Nat) (evs : List Event) :
      DerivesS f st0 ds st p → WellSharded (fun k sh => sh = f k) st (d.op p sh) →
      (step st (d.op p sh)).2 = .scope (some id) evs →
      DerivesS f st0 (ds ++ [d]) (step st (d.op p sh)).1 id

theorem DerivesS.derives {f : Bytes → Nat} {st0 st : St} {ds : List D} {id : Nat}
    (h : DerivesS f st0 ds st id) : Derives st0 ds st id := by
  induction h with
  | root => exact .root _
  | others ops _ _ ih => exact .others ops ih
  | call d sh id evs _ _ ho ih => exact .call d sh id evs ih ho

theorem DerivesS.reachS {f : Bytes → Nat} {cfg : Cfg} {pfx sep : Bytes} {tags : TagMap} {st0 st : St}
    {ds : List D} {id : Nat} (h : DerivesS f st0 ds st id) (hr : ReachS f cfg pfx sep tags st0) :
    ReachS f cfg pfx sep tags st := by
  induction h with
  | root => exact hr
  | others ops _ ho ih => exact ih.run ho
  | call d sh id evs _ hw _ ih => exact ih.run (ops := [d.op _ sh]) ⟨hw, trivial⟩

/-- two derivations from the same root that end with the same full prefix and the same effective
tag set return the very same live scope: the last call of the second derivation returns the scope the
first derivation ended in (which is live, as is the root) and changes nothing -/
theorem same_derived_identity_same_scope {f : Bytes → Nat} {cfg : Cfg} {pfx sep : Bytes} {tags : TagMap}
    (hns : cfg.san = none) (hsh : ∀ k, f k < max cfg.shards 1)
    {ds1 ds2 : List D} {st : St} {id1 p : Nat}
    (h1 : DerivesS f (mkRoot cfg pfx sep tags) ds1 st id1)
    (h2 : DerivesS f (mkRoot cfg pfx sep tags) ds2 st p)
    (d : D) (sh : Nat) (hws : WellSharded (fun k sh => sh = f k) st (d.op p sh))
    (s1 : ScopeS) (hs1 : getScope st id1 = some s1) (hl1 : s1.closed = false)
    (parent : ScopeS) (hp : getScope st p = some parent) (hpl : parent.closed = false)
    (hrc : st.rootClosed = false)
    (hpfx : derivPfx (if sep.isEmpty then [46] else sep) pfx (ds2 ++ [d])
      = derivPfx (if sep.isEmpty then [46] else sep) pfx ds1)
    (htags : derivTags (canon [tags]) (ds2 ++ [d]) = derivTags (canon [tags]) ds1) :
    step st (d.op p sh) = (st, .scope (some id1) []) := by
  have hroot : ReachS f cfg pfx sep tags (mkRoot cfg pfx sep tags) := ⟨[], trivial, rfl⟩
  have hr := h1.reachS hroot
  obtain ⟨a, ha, hap⟩ := name_follows_derivation hns h1.derives
  obtain ⟨a', ha', hat⟩ := tags_follow_derivation hns h1.derives
  rw [hs1] at ha ha'; cases ha; cases ha'
  obtain ⟨b, hb, hbp⟩ := name_follows_derivation hns h2.derives
  obtain ⟨b', hb', hbt⟩ := tags_follow_derivation hns h2.derives
  rw [hp] at hb hb'; cases hb; cases hb'
  have hsep : st.sep = (if sep.isEmpty then [46] else sep) := by
    rw [(cfg_sep_constant hr.reach).2, sanName_none hns]
  apply same_identity_same_scope_core hr hns hsh d p sh parent hp hpl hrc hws id1 s1 hs1 hl1
  rw [hap, hat, ← hpfx, ← htags, derivPfx_snoc, derivTags_snoc]
  cases d with
  | sub n =>
    have hns' : st.cfg.san = none := by rw [reach_cfg hr.reach]; exact hns
    simp only [reqIdentity, hp, Option.map_some, hsep, hbp, hbt, sanName_none hns']; rfl
  | tagged m => simp only [reqIdentity, hp, Option.map_some, hbp, hbt]; rfl

/-- `s.Tagged(m).Tagged(m)` is `s.Tagged(m)` -/
theorem tagged_idempotent {f : Bytes → Nat} {cfg : Cfg} {pfx sep : Bytes} {tags : TagMap}
    (hns : cfg.san = none) (hsh : ∀ k, f k < max cfg.shards 1)
    {ds : List D} {m : TagMap} {st : St} {a : Nat}
    (h : DerivesS f (mkRoot cfg pfx sep tags) (ds ++ [.tagged m]) st a)
    (sh : Nat) (hws : WellSharded (fun k sh => sh = f k) st (.tagged a m sh))
    (sa : ScopeS) (hsa : getScope st a = some sa) (hla : sa.closed = false)
    (hrc : st.rootClosed = false) :
    step st (.tagged a m sh) = (st, .scope (some a) []) := by
  refine same_derived_identity_same_scope hns hsh h h (.tagged m) sh hws sa hsa hla sa hsa hla hrc ?_ ?_
  · rw [derivPfx_snoc]
  · rw [derivTags_snoc, derivTags_snoc]
    exact canon_overlay_idem _ m

/-- `s.Tagged(m2).Tagged(m1)` is `s.Tagged(m1).Tagged(m2)` for maps with disjoint key sets -/
theorem tagged_order_independent {f : Bytes → Nat} {cfg : Cfg} {pfx sep : Bytes} {tags : TagMap}
    (hns : cfg.san = none) (hsh : ∀ k, f k < max cfg.shards 1)
    {ds : List D} {m1 m2 : TagMap} (hdisj : ∀ k, k ∈ m1.map (·.1) → k ∉ m2.map (·.1))
    {st : St} {b c : Nat}
    (h12 : DerivesS f (mkRoot cfg pfx sep tags) (ds ++ [.tagged m1] ++ [.tagged m2]) st b)
    (h2 : DerivesS f (mkRoot cfg pfx sep tags) (ds ++ [.tagged m2]) st c)
    (sh : Nat) (hws : WellSharded (fun k sh => sh = f k) st (.tagged c m1 sh))
    (sb : ScopeS) (hsb : getScope st b = some sb) (hlb : sb.closed = false)
    (sc : ScopeS) (hsc : getScope st c = some sc) (hlc : sc.closed = false)
    (hrc : st.rootClosed = false) :
    step st (.tagged c m1 sh) = (st, .scope (some b) []) := by
  refine same_derived_identity_same_scope hns hsh h12 h2 (.tagged m1) sh hws sb hsb hlb sc hsc hlc hrc ?_ ?_
  · simp only [derivPfx_snoc]
  · simp only [derivTags_snoc]
    exact (canon_overlay_comm _ m1 m2 hdisj).symm

/-- `s.Tagged(m1 ∪ m2)` is `s.Tagged(m1).Tagged(m2)`; as association list the union is `m2 ++ m1`
(first entry of a key wins, so `m2` overrides `m1`); for disjoint key sets also `m1 ++ m2` -/
theorem tagged_union {f : Bytes → Nat} {cfg : Cfg} {pfx sep : Bytes} {tags : TagMap}
    (hns : cfg.san = none) (hsh : ∀ k, f k < max cfg.shards 1)
    {ds : List D} {m1 m2 mu : TagMap}
    (hmu : mu = m2 ++ m1 ∨ (mu = m1 ++ m2 ∧ ∀ k, k ∈ m1.map (·.1) → k ∉ m2.map (·.1)))
    {st : St} {b p : Nat}
    (h12 : DerivesS f (mkRoot cfg pfx sep tags) (ds ++ [.tagged m1] ++ [.tagged m2]) st b)
    (h0 : DerivesS f (mkRoot cfg pfx sep tags) ds st p)
    (sh : Nat) (hws : WellSharded (fun k sh => sh = f k) st (.tagged p mu sh))
    (sb : ScopeS) (hsb : getScope st b = some sb) (hlb : sb.closed = false)
    (sp : ScopeS) (hsp : getScope st p = some sp) (hlp : sp.closed = false)
    (hrc : st.rootClosed = false) :
    step st (.tagged p mu sh) = (st, .scope (some b) []) := by
  refine same_derived_identity_same_scope hns hsh h12 h0 (.tagged mu) sh hws sb hsb hlb sp hsp hlp hrc ?_ ?_
  · simp only [derivPfx_snoc]
  · simp only [derivTags_snoc]
    rcases hmu with rfl | ⟨rfl, hd⟩
    · exact (canon_overlay_append _ m1 m2).symm
    · show canon [_, m1 ++ m2] = canon [canon [_, m1], m2]
      rw [canon_append_comm _ m1 m2 hd]
      exact (canon_overlay_append _ m1 m2).symm

/-! ## non-vacuity of the scope-level theorems: concrete programs (one shard, `shardOf = 0`) -/

namespace Example
open Tally.Props.C04.Example

/-- shard function of a one-shard registry -/
def f0 : Bytes → Nat := fun _ => 0

theorem f0_lt : ∀ k, f0 k < max cfg0.shards 1 := fun _ => show 0 < max 1 1 by decide

/-- after `root.Tagged({k: v})` (returns scope 1) -/
def sa : St := (step root0 (.tagged 0 m0 0)).1

/-- `different_identity_no_merge`: the same request twice returns scope 1 both times -/
example : (step root0 ((D.tagged m0).op 0 0)).2 = .scope (some 1) [] := rfl
example : (step (runOps (step root0 ((D.tagged m0).op 0 0)).1 [.report]) ((D.tagged m0).op 0 0)).2
    = .scope (some 1) [] := rfl

/-- … while a different tag map gets a different scope -/
example : (step sa ((D.tagged [([107], [119])]).op 0 0)).2 = .scope (some 2) [] := rfl

/-- the program `root.Tagged({k: v})` is well sharded -/
theorem reachS_sa : ReachS f0 cfg0 [97] [] [] sa :=
  ⟨[.tagged 0 m0 0], ⟨fun _ _ => rfl, trivial⟩, rfl⟩

/-- `same_identity_same_scope_core` applies to `root.Tagged({k: v})` in `sa` and yields scope 1 -/
example : step sa (.tagged 0 m0 0) = (sa, .scope (some 1) []) := by
  obtain ⟨s, hs⟩ : ∃ s, getScope sa 1 = some s := ⟨_, rfl⟩
  obtain ⟨r, hr⟩ : ∃ r, getScope sa 0 = some r := ⟨_, rfl⟩
  have h1 : s.closed = false := by cases hs; rfl
  have h2 : r.closed = false := by cases hr; rfl
  refine same_identity_same_scope_core reachS_sa rfl f0_lt (.tagged m0) 0 0 r hr h2 rfl
    (fun _ _ => rfl) 1 s hs h1 ?_
  cases hs; cases hr; rfl

/-- `tagged_idempotent`: `root.Tagged({k: v}).Tagged({k: v})` is `root.Tagged({k: v})` -/
theorem derivesS_sa : DerivesS f0 root0 ([] ++ [.tagged m0]) sa 1 :=
  .call (ds := []) (.tagged m0) 0 1 [] (.root root0) (fun _ _ => rfl) rfl

example : step sa (.tagged 1 m0 0) = (sa, .scope (some 1) []) := by
  obtain ⟨s, hs⟩ : ∃ s, getScope sa 1 = some s := ⟨_, rfl⟩
  have h1 : s.closed = false := by cases hs; rfl
  exact tagged_idempotent rfl f0_lt derivesS_sa 0 (fun _ _ => rfl) s hs h1 rfl

/-- `same_metric_twice`: the counter `c` of scope 1, asked again after an increment and a report -/
example : (step sa (.counter 1 [99])).2 = .metric 0 [] := rfl
example : (step (runOps (step sa (.counter 1 [99])).1 [.inc 0 3, .report]) (.counter 1 [99])).2
    = .metric 0 [] := by
  obtain ⟨s, hs⟩ : ∃ s, getScope (runOps (step sa (.counter 1 [99])).1 [.inc 0 3, .report]) 1 = some s :=
    ⟨_, rfl⟩
  have h1 : s.closed = false := by cases hs; rfl
  exact same_metric_twice (cfg := cfg0) (pfx := [97]) (sep := []) (tags := []) ⟨[.tagged 0 m0 0], rfl⟩
    (.counter 1 [99]) (.counter 1 [99]) 1 "counter" [99] rfl rfl 0 [] rfl [.inc 0 3, .report] s hs h1

/-- a gauge of the same name on the same scope is a different metric -/
example : (step (step sa (.counter 1 [99])).1 (.gauge 1 [99])).2 = .metric 1 [] := rfl

end Example

end Tally.Props.C05
