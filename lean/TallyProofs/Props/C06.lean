import Tally.Model.Sanitize
import Tally.Spec.C06
import TallyProofs.Lemmas.Utf8Lemmas
/-!
# C06 — everything handed to a reporter is sanitized; valid input passes unchanged
Property theorems only (helper lemmas live in TallyProofs/Lemmas/Utf8Lemmas.lean).
-/
namespace Tally.Props.C06
open Tally Tally.Utf8 Tally.Sanitize

/-- (i) a string whose every rune is allowed (and which has no decoding error) is returned unchanged -/
theorem valid_unchanged (c : ValidChars) (rep : Int) (s : Bytes)
    (h : (decodeAll s).all (okItem c) = true) : sanitize c rep s = s := by
  simp [sanitize, h]

/-- (iii) sanitizing preserves the number of runes (loop iterations) -/
theorem rune_count_preserved (c : ValidChars) (rep : Int) (s : Bytes) :
    (decodeAll (sanitize c rep s)).length = (decodeAll s).length := by
  rw [decodeAll_sanitize, List.length_map]

/-- (iv)+(v) every rune of the output is an allowed rune or the (normalised) replacement, and the
output contains no decoding error unless the replacement itself is U+FFFD written for an
invalid replacement — i.e. invalid bytes are replaced, never passed through -/
theorem output_allowed_or_replacement (c : ValidChars) (rep : Int) (s : Bytes) :
    ∀ it ∈ decodeAll (sanitize c rep s), (okItem c it = true) ∨ (it.rune = normRep rep ∧ it.isError = false) := by
  rw [decodeAll_sanitize]
  intro it' h'
  obtain ⟨it, _, rfl⟩ := List.mem_map.mp h'
  exact fixItem_spec c rep it

/-- (ii) sanitizing is idempotent -/
theorem idempotent (c : ValidChars) (rep : Int) (s : Bytes) :
    sanitize c rep (sanitize c rep s) = sanitize c rep s := by
  apply sanitize_fixed
  rw [decodeAll_sanitize]
  intro it' h'
  obtain ⟨it, _, rfl⟩ := List.mem_map.mp h'
  exact fixItem_fixItem c rep it

/-- (vi) without sanitize options every string passes through byte for byte -/
theorem noop_identity (s : Bytes) : noop s = s := rfl

/-- closure under concatenation: a concatenation of sanitizer outputs (prefix, separator, names …)
still consists only of allowed runes or the replacement -/
theorem concat_closed (c : ValidChars) (rep : Int) (a b : Bytes)
    (ha : ∀ it ∈ decodeAll a, (okItem c it = true) ∨ (it.rune = normRep rep ∧ it.isError = false))
    (hb : ∀ it ∈ decodeAll b, (okItem c it = true) ∨ (it.rune = normRep rep ∧ it.isError = false)) :
    ∀ it ∈ decodeAll (a ++ b), (okItem c it = true) ∨ (it.rune = normRep rep ∧ it.isError = false) := by
  have hne : ∀ it ∈ decodeAll a, it.isError = false := fun it hit =>
    (ha it hit).elim isError_false_of_ok (·.2)
  rw [decodeAll_append a b hne]
  intro it hit
  exact (List.mem_append.mp hit).elim (ha it) (hb it)

/-- the oracle the driver applies to the implementation's output accepts the model's output, for
every option set, replacement rune and byte string -/
theorem spec_holds (c : ValidChars) (rep : Int) (s : Bytes) :
    Spec.C06.holds c rep s (sanitize c rep s) = none := by
  have h1 : Spec.C06.outputClean c rep (sanitize c rep s) = true := by
    unfold Spec.C06.outputClean
    rw [List.all_eq_true]
    intro it hit
    rcases output_allowed_or_replacement c rep s it hit with h | ⟨h, h'⟩
    · simp [h]
    · simp [h, h']
  have h2 : Spec.C06.runeCountKept s (sanitize c rep s) = true := by
    unfold Spec.C06.runeCountKept
    rw [rune_count_preserved]; simp
  have h3 : Spec.C06.validUnchanged c s (sanitize c rep s) = true := by
    unfold Spec.C06.validUnchanged
    by_cases h : (decodeAll s).all (okItem c) = true
    · rw [valid_unchanged c rep s h]; simp
    · simp [h]
  simp [Spec.C06.holds, h1, h2, h3]

/-! non-vacuity: the theorems have no hypotheses beyond the types; instance for `"a\\xffb"` with
everything from U+0020 up allowed (so U+FFFD is allowed) and replacement `_` — the input the pinned
code passed through unchanged -/
example : Spec.C06.holds { ranges := [(0x20, 0x10FFFF)], chars := [] } 95 [97, 0xFF, 98]
    (sanitize { ranges := [(0x20, 0x10FFFF)], chars := [] } 95 [97, 0xFF, 98]) = none := spec_holds _ _ _

end Tally.Props.C06

