import Tally.Model.Sanitize
import Tally.Spec.C06
import TallyProofs.Lemmas.Utf8Lemmas
import TallyProofs.Lemmas.ScopeClean
/-!
# C06 — everything handed to a reporter is sanitized; valid input passes unchanged
Property theorems only (helper lemmas live in TallyProofs/Lemmas/Utf8Lemmas.lean and, for the end-to-end
clause over the scope model, in TallyProofs/Lemmas/ScopeClean.lean).
-/
namespace Tally.Props.C06
open Tally Tally.Utf8 Tally.Sanitize

/-- (i) a string whose every rune is allowed (and which has no decoding error) is returned unchanged -/
theorem valid_unchanged (c : ValidChars) (rep : Int) (s : Bytes)
    (h : (decodeAll s).all (okItem c) = true) : sanitize c rep s = s := by
  simp [sanitize, h]

/-- (iii) sanitizing preserves the number of runes (loop iterations) -/
theorem rune_count_preserved (c : ValidChars) (rep : Int) (s : Bytes) :
    (decodeAll (sanitize c rep s)).length = (decodeAll s).length := by
  rw [decodeAll_sanitize, List.length_map]

/-- (iv)+(v) every rune of the output is an allowed rune or the (normalised) replacement, and the
output contains no decoding error unless the replacement itself is U+FFFD written for an
invalid replacement — i.e. invalid bytes are replaced, never passed through -/
theorem output_allowed_or_replacement (c : ValidChars) (rep : Int) (s : Bytes) :
    ∀ it ∈ decodeAll (sanitize c rep s), (okItem c it = true) ∨ (it.rune = normRep rep ∧ it.isError = false) := by
  rw [decodeAll_sanitize]
  intro it' h'
  obtain ⟨it, _, rfl⟩ := List.mem_map.mp h'
  exact fixItem_spec c rep it

/-- (ii) sanitizing is idempotent -/
theorem idempotent (c : ValidChars) (rep : Int) (s : Bytes) :
    sanitize c rep (sanitize c rep s) = sanitize c rep s := by
  apply sanitize_fixed
  rw [decodeAll_sanitize]
  intro it' h'
  obtain ⟨it, _, rfl⟩ := List.mem_map.mp h'
  exact fixItem_fixItem c rep it

/-- (vi) without sanitize options every string passes through byte for byte -/
theorem noop_identity (s : Bytes) : noop s = s := rfl

/-- closure under concatenation: a concatenation of sanitizer outputs (prefix, separator, names …)
still consists only of allowed runes or the replacement -/
theorem concat_closed (c : ValidChars) (rep : Int) (a b : Bytes)
    (ha : ∀ it ∈ decodeAll a, (okItem c it = true) ∨ (it.rune = normRep rep ∧ it.isError = false))
    (hb : ∀ it ∈ decodeAll b, (okItem c it = true) ∨ (it.rune = normRep rep ∧ it.isError = false)) :
    ∀ it ∈ decodeAll (a ++ b), (okItem c it = true) ∨ (it.rune = normRep rep ∧ it.isError = false) := by
  have hne : ∀ it ∈ decodeAll a, it.isError = false := fun it hit =>
    (ha it hit).elim isError_false_of_ok (·.2)
  rw [decodeAll_append a b hne]
  intro it hit
  exact (List.mem_append.mp hit).elim (ha it) (hb it)

/-- the oracle the driver applies to the implementation's output accepts the model's output, for
every option set, replacement rune and byte string -/
theorem spec_holds (c : ValidChars) (rep : Int) (s : Bytes) :
    Spec.C06.holds c rep s (sanitize c rep s) = none := by
  have h1 : Spec.C06.outputClean c rep (sanitize c rep s) = true := by
    unfold Spec.C06.outputClean
    rw [List.all_eq_true]
    intro it hit
    rcases output_allowed_or_replacement c rep s it hit with h | ⟨h, h'⟩
    · simp [h]
    · simp [h, h']
  have h2 : Spec.C06.runeCountKept s (sanitize c rep s) = true := by
    unfold Spec.C06.runeCountKept
    rw [rune_count_preserved]; simp
  have h3 : Spec.C06.validUnchanged c s (sanitize c rep s) = true := by
    unfold Spec.C06.validUnchanged
    by_cases h : (decodeAll s).all (okItem c) = true
    · rw [valid_unchanged c rep s h]; simp
    · simp [h]
  simp [Spec.C06.holds, h1, h2, h3]

/-! non-vacuity: the theorems have no hypotheses beyond the types; instance for `"a\\xffb"` with
everything from U+0020 up allowed (so U+FFFD is allowed) and replacement `_` — the input the pinned
code passed through unchanged -/
example : Spec.C06.holds { ranges := [(0x20, 0x10FFFF)], chars := [] } 95 [97, 0xFF, 98]
    (sanitize { ranges := [(0x20, 0x10FFFF)], chars := [] } 95 [97, 0xFF, 98]) = none := spec_holds _ _ _

/-! ## end to end: every string the scope model hands to a reporter is sanitized

`Tally.Scope.mkRoot` sanitizes the root prefix, the separator (after defaulting an empty one to `.`) and the
root tags; `step` sanitizes every subscope name, metric name and `Tagged` map before it stores them, and a
fully-qualified name is `prefix ++ separator ++ name` of such pieces (`fqn`).  The invariant
`Tally.Scope.StOK` ("separator, every scope's prefix, tags and stored metric names, every timer handle's
stored identity are clean") is proved once for abstract predicates in `Lemmas/ScopeClean.lean`; here it is
instantiated with `Clean`.  Plain `Reach` is enough (every program; **no** `SanDistinct` side condition on
`Tagged` maps and no registry invariant): cleanliness is a property of the single entries of a tag map, and
every entry of an overlay is an entry of one of the overlaid maps, whichever entry wins. -/

open Tally.KeyGen Tally.Scope

/-- a string is sanitizer-clean for a character class: every rune of it is allowed, or is the (normalised)
replacement rune -/
def Clean (c : ValidChars) (rep : Int) (s : Bytes) : Prop :=
  ∀ it ∈ decodeAll s, (okItem c it = true) ∨ (it.rune = normRep rep ∧ it.isError = false)

theorem clean_sanitize (c : ValidChars) (rep : Int) (s : Bytes) : Clean c rep (sanitize c rep s) :=
  output_allowed_or_replacement c rep s

theorem clean_append {c : ValidChars} {rep : Int} {a b : Bytes} (ha : Clean c rep a) (hb : Clean c rep b) :
    Clean c rep (a ++ b) := concat_closed c rep a b ha hb

/-- `Clean` = "is a fixed point of the sanitizer" -/
theorem clean_iff_fixed (c : ValidChars) (rep : Int) (s : Bytes) :
    Clean c rep s ↔ sanitize c rep s = s := by
  constructor
  · intro h
    apply sanitize_fixed
    intro it hit
    by_cases hok : okItem c it = true
    · exact fixItem_ok hok
    · rcases h it hit with h1 | ⟨hr, he⟩
      · exact absurd h1 hok
      · rw [fixItem_not_ok (by simpa using hok)]
        have hn := nonErr_of_mem_decodeAll s it hit he
        have henc : encodeRune rep = it.raw := by
          rw [← hn.enc, hr, encodeRune_rep, encodeRune_ofNat _ (normRep_valid rep)]
        cases it with
        | mk rune raw =>
          simp only at hr henc
          subst hr henc
          rfl
  · intro h
    rw [← h]
    exact clean_sanitize c rep s

/-- the three configured sanitizers establish `Clean` for their class; clean names concatenate -/
theorem sanOK_clean {cfg : Cfg} {sc : SanCfg} (hsan : cfg.san = some sc) :
    SanOK (Clean sc.name sc.rep) (Clean sc.key sc.rep) (Clean sc.value sc.rep) cfg where
  name := fun s => by simp only [sanName, hsan]; exact clean_sanitize _ _ s
  key := fun s => by simp only [sanKey, hsan]; exact clean_sanitize _ _ s
  value := fun s => by simp only [sanValue, hsan]; exact clean_sanitize _ _ s
  cat := fun _ _ ha hb => clean_append ha hb

/-- **everything handed to a reporter is sanitized.**  For every configuration with sanitize options `sc`,
every root prefix / separator / root tags, every program (`Reach`: the state after any list of operations,
no side condition), every further operation `op` and every event `e` it emits (through any of the three
`Out` constructors, see `outEvents`): if the event carries a name and tags (`alloc`, `counter`, `gauge`,
`timer`, `hval`, `hdur`; `flush` and `close` carry nothing), the name is `Clean` for the NAME class, every
tag key for the KEY class and every tag value for the VALUE class of `sc`. -/
theorem reported_strings_sanitized {cfg : Cfg} {sc : SanCfg} (hsan : cfg.san = some sc)
    {pfx sep : Bytes} {tags : TagMap} {st : St} (hr : Reach cfg pfx sep tags st) (op : Op) :
    ∀ e ∈ outEvents (step st op).2, ∀ n t, eventNameTags e = some (n, t) →
      Clean sc.name sc.rep n ∧ ∀ kv ∈ t, Clean sc.key sc.rep kv.1 ∧ Clean sc.value sc.rep kv.2 :=
  fun e he n t hnt => reach_events_ok (sanOK_clean hsan) hr op e he n t hnt

/-- the same with the list of operations spelled out -/
theorem reported_strings_sanitized_run {cfg : Cfg} {sc : SanCfg} (hsan : cfg.san = some sc)
    (pfx sep : Bytes) (tags : TagMap) (ops : List Op) (op : Op) :
    ∀ e ∈ outEvents (step (runOps (mkRoot cfg pfx sep tags) ops) op).2,
      ∀ n t, eventNameTags e = some (n, t) →
        Clean sc.name sc.rep n ∧ ∀ kv ∈ t, Clean sc.key sc.rep kv.1 ∧ Clean sc.value sc.rep kv.2 :=
  reported_strings_sanitized hsan ⟨ops, rfl⟩ op

/-- read as fixed points: sanitizing a reported name, tag key or tag value again changes nothing -/
theorem reported_strings_fixed {cfg : Cfg} {sc : SanCfg} (hsan : cfg.san = some sc)
    {pfx sep : Bytes} {tags : TagMap} {st : St} (hr : Reach cfg pfx sep tags st) (op : Op) :
    ∀ e ∈ outEvents (step st op).2, ∀ n t, eventNameTags e = some (n, t) →
      sanName cfg n = n ∧ ∀ kv ∈ t, sanKey cfg kv.1 = kv.1 ∧ sanValue cfg kv.2 = kv.2 := by
  intro e he n t hnt
  obtain ⟨h1, h2⟩ := reported_strings_sanitized hsan hr op e he n t hnt
  simp only [sanName, sanKey, sanValue, hsan]
  exact ⟨(clean_iff_fixed _ _ _).mp h1,
    fun kv hkv => ⟨(clean_iff_fixed _ _ _).mp (h2 kv hkv).1, (clean_iff_fixed _ _ _).mp (h2 kv hkv).2⟩⟩

/-- the pieces themselves, in every reachable state: the separator, the prefix (root prefix joined with the
subscope names), the tags and every stored metric name of every scope, and the identity kept by every timer
handle are sanitized -/
theorem stored_strings_sanitized {cfg : Cfg} {sc : SanCfg} (hsan : cfg.san = some sc)
    {pfx sep : Bytes} {tags : TagMap} {st : St} (hr : Reach cfg pfx sep tags st) :
    Clean sc.name sc.rep st.sep ∧
    (∀ sid s, getScope st sid = some s →
      Clean sc.name sc.rep s.pfx ∧
      (∀ kv ∈ s.tags, Clean sc.key sc.rep kv.1 ∧ Clean sc.value sc.rep kv.2) ∧
      ∀ x ∈ s.metrics, Clean sc.name sc.rep (metricName x.2)) ∧
    (∀ id nm tg, st.timers.lookup id = some (nm, tg) →
      Clean sc.name sc.rep nm ∧ ∀ kv ∈ tg, Clean sc.key sc.rep kv.1 ∧ Clean sc.value sc.rep kv.2) := by
  have h := reach_ok (sanOK_clean hsan) hr
  exact ⟨h.sep, fun _ _ hg => h.getScope hg,
    fun id nm tg hl => h.timers (id, (nm, tg)) (mem_of_lookup_eq_some hl)⟩

/-! non-vacuity: names may contain `a`–`z` and `.`, tag keys and values `a`–`z`, replacement `_`.  Root prefix
`a`, default separator; `SubScope("b-")`, `Tagged({"k-": "v"})`, `Counter("c!")`, `Inc(5)`, then a report:
the sanitizer changes the subscope name, the tag key and the metric name, and the reporter is handed
`a.b_.c_` with `{k_: v}`. -/
namespace Example
def nameC : ValidChars := { ranges := [(97, 122)], chars := [46] }
def tagC : ValidChars := { ranges := [(97, 122)], chars := [] }
def sc : SanCfg := { name := nameC, key := tagC, value := tagC, rep := 95 }
def cfg : Cfg := { san := some sc, kind := .plain, closable := false, shards := 1, defaultBuckets := none }
def ops : List Op := [.sub 0 [98, 45] 0, .tagged 1 [([107, 45], [118])] 0, .counter 2 [99, 33], .inc 0 5]
def st : St := runOps (mkRoot cfg [97] [] []) ops

/-- the sanitizer really changes the three requested strings -/
example : sanName cfg [98, 45] = [98, 95] ∧ sanKey cfg [107, 45] = [107, 95] ∧
    sanName cfg [99, 33] = [99, 95] := by decide +kernel

/-- what the reporter sees: one counter event `a.b_.c_ {k_: v}` (and the flush, which carries nothing) -/
example : (outEvents (step st .report).2).filterMap eventNameTags =
    [([97, 46, 98, 95, 46, 99, 95], [([107, 95], [118])])] := by decide +kernel

/-- … and the theorem applies to it -/
example : ∀ e ∈ outEvents (step st .report).2, ∀ n t, eventNameTags e = some (n, t) →
    Clean nameC 95 n ∧ ∀ kv ∈ t, Clean tagC 95 kv.1 ∧ Clean tagC 95 kv.2 :=
  reported_strings_sanitized_run (cfg := cfg) (sc := sc) rfl [97] [] [] ops .report
end Example

end Tally.Props.C06
