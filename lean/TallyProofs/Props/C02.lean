import Tally.Model.Gauge
import Tally.Spec.C02
/-!
# C02 — gauge reports carry the latest value, never a stale or invented one

All theorems quantify over every event list the model accepts: one writer (two stores per Update),
any number of reporter threads, any interleaving.
-/
namespace Tally.Props.C02
open Tally Tally.Gauge

def ite01 (b : Bool) : Nat := if b then 1 else 0

/-- the invariant carried through every interleaving -/
structure Inv (s : State) : Prop where
  curr_head : ∀ v l, s.updates = v :: l → s.curr = v
  active_nonempty : (s.updated = true ∨ s.swapped ≠ [] ∨ s.writerMid = true) → s.updates ≠ []
  delivered_mem : ∀ v ∈ s.delivered, v ∈ s.updates
  nodup : s.swapped.Nodup
  count : s.delivered.length + s.swapped.length + ite01 s.updated ≤ s.flagStores
  stores : s.flagStores + ite01 s.writerMid = s.updates.length
  latest : s.writerMid = false → s.updates ≠ [] →
    s.updated = true ∨ s.swapped ≠ [] ∨ s.delivered.head? = some s.curr

theorem inv_init : Inv init := by
  constructor <;> simp [init, ite01]

theorem length_filter_ne (l : List Nat) (t : Nat) (hn : l.Nodup) (hm : t ∈ l) :
    (l.filter (· != t)).length + 1 = l.length := by
  induction l with
  | nil => simp at hm
  | cons a l ih =>
    simp only [List.nodup_cons] at hn
    by_cases ha : a = t
    · subst ha
      have : l.filter (· != a) = l := by
        apply List.filter_eq_self.mpr
        intro x hx; simp only [bne_iff_ne, ne_eq]; intro e; subst e; exact hn.1 hx
      simp [List.filter, this]
    · have hm' : t ∈ l := by
        rcases List.mem_cons.mp hm with h | h
        · exact absurd h.symm ha
        · exact h
      have hb : (a != t) = true := by simp [ha]
      simp only [List.filter, hb, List.length_cons]
      have := ih hn.2 hm'
      omega

theorem inv_step (s s' : State) (e : Ev) (h : Inv s) (hs : step s e = some s') : Inv s' := by
  cases e with
  | storeValue v =>
    simp only [step] at hs
    split at hs
    · cases hs
    · next hm =>
      simp only [Option.some.injEq] at hs; subst hs
      have hm' : s.writerMid = false := by simpa using hm
      constructor
      · intro v' l he; simp only [List.cons.injEq] at he; exact he.1
      · intro _; simp
      · intro x hx; exact List.mem_cons_of_mem _ (h.delivered_mem x hx)
      · exact h.nodup
      · exact h.count
      · have := h.stores; simp only [hm', ite01, List.length_cons, Bool.false_eq_true, if_false, if_true] at *; omega
      · intro hf; simp at hf
  | storeFlag =>
    simp only [step] at hs
    split at hs
    · cases hs
    · next hm =>
      simp only [Option.some.injEq] at hs; subst hs
      have hm' : s.writerMid = true := by simpa using hm
      have hne := h.active_nonempty (Or.inr (Or.inr hm'))
      -- while the writer is mid-update the flag it set earlier may still be up: count is about completed flag stores
      constructor
      · exact h.curr_head
      · intro _; exact hne
      · exact h.delivered_mem
      · exact h.nodup
      · have := h.count; simp only [ite01] at *; split at this <;> simp <;> omega
      · have := h.stores; simp only [hm', ite01] at *; simp at *; omega
      · intro _ _; exact Or.inl rfl
  | swap t =>
    simp only [step] at hs
    split at hs
    · cases hs
    · next hc =>
      split at hs
      · next hu =>
        simp only [Option.some.injEq] at hs; subst hs
        have hnc : t ∉ s.swapped := by simpa using hc
        constructor
        · exact h.curr_head
        · intro _; exact h.active_nonempty (Or.inl hu)
        · exact h.delivered_mem
        · exact List.nodup_cons.mpr ⟨hnc, h.nodup⟩
        · have := h.count; simp only [hu, ite01, List.length_cons] at *; simp at *; omega
        · exact h.stores
        · intro _ _; exact Or.inr (Or.inl (by simp))
      · simp only [Option.some.injEq] at hs; subst hs; exact h
  | load t =>
    simp only [step] at hs
    split at hs
    · cases hs
    · next hc =>
      simp only [Option.some.injEq] at hs; subst hs
      have hmem : t ∈ s.swapped := by simpa using hc
      have hne : s.swapped ≠ [] := by intro e; rw [e] at hmem; cases hmem
      have hupd := h.active_nonempty (Or.inr (Or.inl hne))
      constructor
      · exact h.curr_head
      · intro hh
        exact hupd
      · intro x hx
        rcases List.mem_cons.mp hx with rfl | hx
        · cases hu : s.updates with
          | nil => exact absurd hu hupd
          | cons v l => rw [h.curr_head v l hu]; simp
        · exact h.delivered_mem x hx
      · exact h.nodup.filter _
      · have := h.count
        have hl := length_filter_ne s.swapped t h.nodup hmem
        simp only [List.length_cons] at *; omega
      · exact h.stores
      · intro _ _; exact Or.inr (Or.inr (by simp))

theorem inv_run (s s' : State) (es : List Ev) (h : Inv s) (hr : run s es = some s') : Inv s' := by
  induction es generalizing s with
  | nil => simp only [run, Option.some.injEq] at hr; subst hr; exact h
  | cons e es ih =>
    simp only [run] at hr
    cases h1 : step s e with
    | none => simp [h1] at hr
    | some s1 => simp only [h1] at hr; exact ih s1 (inv_step s s1 e h h1) hr

/-- **(i)** every delivered value is, bit for bit, a value that was passed to Update. -/
theorem delivered_is_an_update (es : List Ev) (s : State) (hr : run init es = some s) :
    ∀ v ∈ s.delivered, v ∈ s.updates :=
  (inv_run init s es inv_init hr).delivered_mem

/-- **(ii)** deliveries (plus those still in flight, plus a raised flag) never exceed the number of
completed updates, which never exceeds the number of Update calls begun. -/
theorem count_le (es : List Ev) (s : State) (hr : run init es = some s) :
    s.delivered.length + s.swapped.length + ite01 s.updated ≤ s.flagStores ∧ s.flagStores ≤ s.updates.length := by
  have h := inv_run init s es inv_init hr
  exact ⟨h.count, by have := h.stores; omega⟩

/-- **(iii)** at quiescence (writer idle, no reporter between swap and delivery) the last update is
either still flagged for the next pass, or it is the reporter's most recent value. -/
theorem quiescent_latest (es : List Ev) (s : State) (hr : run init es = some s)
    (hw : s.writerMid = false) (hq : s.swapped = []) (v : UInt64) (l : List UInt64) (hu : s.updates = v :: l) :
    (s.updated = true ∧ s.curr = v) ∨ s.delivered.head? = some v := by
  have h := inv_run init s es inv_init hr
  have hc := h.curr_head v l hu
  rcases h.latest hw (by rw [hu]; simp) with h1 | h1 | h1
  · exact Or.inl ⟨h1, hc⟩
  · exact absurd hq h1
  · exact Or.inr (by rw [h1, hc])

/-- the first pass that starts after updates have stopped leaves the most recent value equal to the
last update: a solo visit from a quiescent state -/
theorem first_pass_after_updates_delivers_last (es : List Ev) (s : State) (hr : run init es = some s)
    (hw : s.writerMid = false) (hq : s.swapped = []) (v : UInt64) (l : List UInt64) (hu : s.updates = v :: l) (t : Nat) :
    ∃ s', run s (if s.updated then [.swap t, .load t] else [.swap t]) = some s'
      ∧ s'.delivered.head? = some v ∧ s'.updated = false ∧ s'.swapped = [] := by
  rcases quiescent_latest es s hr hw hq v l hu with ⟨h1, h2⟩ | h1
  · refine ⟨{ s with updated := false, swapped := [], delivered := s.curr :: s.delivered }, ?_, ?_, rfl, rfl⟩
    · simp [h1, run, step, hq]
    · simp [h2]
  · by_cases hupd : s.updated = true
    · have hc := (inv_run init s es inv_init hr).curr_head v l hu
      refine ⟨{ s with updated := false, swapped := [], delivered := s.curr :: s.delivered }, ?_, ?_, rfl, rfl⟩
      · simp [hupd, run, step, hq]
      · simp [hc]
    · have hupd' : s.updated = false := by simpa using hupd
      refine ⟨s, ?_, h1, hupd', hq⟩
      simp [hupd', run, step, hq]

/-- **(iv)** a gauge not updated since it was last delivered is not delivered again: a visit that finds
the flag down delivers nothing. -/
theorem no_redelivery (s s' : State) (t : Nat) (hu : s.updated = false) (hs : step s (.swap t) = some s') :
    s' = s := by
  simp only [step] at hs
  split at hs
  · cases hs
  · simp only [hu, Bool.false_eq_true, if_false, Option.some.injEq] at hs; exact hs.symm

/-- the oracle the driver applies to the observed trace accepts the model's trace at quiescence after
the flag has been consumed (lists are most-recent-first in the model, oldest-first in the oracle) -/
theorem spec_holds (es : List Ev) (s : State) (hr : run init es = some s)
    (hw : s.writerMid = false) (hq : s.swapped = []) (hf : s.updated = false) :
    Spec.C02.holds s.updates.reverse s.delivered.reverse [] = none := by
  have h := inv_run init s es inv_init hr
  have h1 : (s.delivered.reverse.all fun v => s.updates.reverse.contains v) = true := by
    rw [List.all_eq_true]; intro v hv
    simp only [List.mem_reverse] at hv
    simp [h.delivered_mem v hv]
  have h2 : s.delivered.reverse.length ≤ s.updates.reverse.length := by
    have := (count_le es s hr); simp only [List.length_reverse]; omega
  have h3 : (s.updates.reverse.isEmpty || s.delivered.reverse.getLast? == s.updates.reverse.getLast?) = true := by
    cases hu : s.updates with
    | nil => simp
    | cons v l =>
      rcases quiescent_latest es s hr hw hq v l hu with ⟨h', _⟩ | h'
      · rw [hf] at h'; cases h'
      · simp [List.getLast?_reverse, h']
  unfold Spec.C02.holds
  rw [h1, h3]
  simp only [List.length_reverse] at h2
  simp [h2]

/-! ### non-vacuity -/
example : run init [.storeValue 7, .swap 1, .storeFlag, .swap 2, .storeValue 9, .load 2, .storeFlag, .swap 1, .load 1]
    = some { curr := 9, updated := false, writerMid := false, swapped := [], delivered := [9, 9], updates := [9, 7], flagStores := 2 } := by
  decide

example : Spec.C02.holds [7, 9] [9, 9] [] = none :=
  spec_holds [.storeValue 7, .swap 1, .storeFlag, .swap 2, .storeValue 9, .load 2, .storeFlag, .swap 1, .load 1]
    { curr := 9, updated := false, writerMid := false, swapped := [], delivered := [9, 9], updates := [9, 7], flagStores := 2 }
    (by decide) rfl rfl rfl

end Tally.Props.C02
