import Tally.Model.Gauge
import Tally.Spec.C02
/-!
# C02 — gauge reports carry the latest value, never a stale or invented one

All theorems quantify over every event list the model accepts: one writer (two stores per Update),
any number of reporter threads, any interleaving; reading the value and handing it to the reporter are
separate steps (a reporter can be pre-empted in between).
-/
namespace Tally.Props.C02
open Tally Tally.Gauge

def ite01 (b : Bool) : Nat := if b then 1 else 0
def opt01 {α : Type} (o : Option α) : Nat := if o.isSome then 1 else 0

/-- the invariant carried through every interleaving -/
structure Inv (s : State) : Prop where
  curr_head : ∀ v l, s.updates = v :: l → s.curr = v
  active_nonempty : (s.updated = true ∨ s.holder ≠ none ∨ s.writerMid = true) → s.updates ≠ []
  delivered_mem : ∀ v ∈ s.delivered, v ∈ s.updates
  loaded_mem : ∀ v, s.loaded = some v → v ∈ s.updates
  loaded_holder : s.holder = none → s.loaded = none
  count : s.delivered.length + opt01 s.holder + ite01 s.updated ≤ s.flagStores
  stores : s.flagStores + ite01 s.writerMid = s.updates.length
  /-- a value that was read and is no longer current means the writer has come back: its flag is up
  (or about to be), so the newer value will still be delivered -/
  stale_flag : ∀ v, s.loaded = some v → v ≠ s.curr → s.updated = true ∨ s.writerMid = true
  /-- nothing flagged, nothing in flight: the reporter's most recent value is the current one -/
  quiet : s.holder = none → s.writerMid = false → s.updated = false → s.updates ≠ [] →
    s.delivered.head? = some s.curr

theorem inv_init : Inv init := by
  constructor <;> simp [init, ite01, opt01]

theorem curr_mem {s : State} (h : Inv s) (hne : s.updates ≠ []) : s.curr ∈ s.updates := by
  cases hu : s.updates with
  | nil => exact absurd hu hne
  | cons v l => rw [h.curr_head v l hu]; simp

theorem inv_step (s s' : State) (e : Ev) (h : Inv s) (hs : step s e = some s') : Inv s' := by
  cases e with
  | storeValue v =>
    simp only [step] at hs
    split at hs
    · cases hs
    · next hm =>
      simp only [Option.some.injEq] at hs; subst hs
      have hm' : s.writerMid = false := by simpa using hm
      constructor
      · intro v' l he; simp only [List.cons.injEq] at he; exact he.1
      · intro _; simp
      · intro x hx; exact List.mem_cons_of_mem _ (h.delivered_mem x hx)
      · intro x hx; exact List.mem_cons_of_mem _ (h.loaded_mem x hx)
      · exact h.loaded_holder
      · exact h.count
      · have := h.stores; simp [hm', ite01] at this ⊢; omega
      · intro _ _ _; right; rfl
      · intro _ hw; simp at hw
  | storeFlag =>
    simp only [step] at hs
    split at hs
    · cases hs
    · next hm =>
      simp only [Option.some.injEq] at hs; subst hs
      have hm' : s.writerMid = true := by simpa using hm
      constructor
      · exact h.curr_head
      · intro _; exact h.active_nonempty (Or.inr (Or.inr hm'))
      · exact h.delivered_mem
      · exact h.loaded_mem
      · exact h.loaded_holder
      · have hc := h.count
        have hle : ite01 s.updated ≤ 1 := by unfold ite01; split <;> omega
        simp only [ite01] at hc hle ⊢; simp; omega
      · have := h.stores; simp [hm', ite01] at this ⊢; omega
      · intro _ _ _; left; rfl
      · intro _ _ hu; simp at hu
  | swap t =>
    simp only [step] at hs
    split at hs
    · cases hs
    · next hh =>
      split at hs
      · next hu =>
        simp only [Option.some.injEq] at hs; subst hs
        have hl : s.loaded = none := h.loaded_holder hh
        constructor
        · exact h.curr_head
        · intro _; exact h.active_nonempty (Or.inl hu)
        · exact h.delivered_mem
        · exact h.loaded_mem
        · intro hc; simp at hc
        · have hc := h.count; simp only [hh, hu, ite01, opt01] at hc ⊢; simp at hc ⊢; omega
        · exact h.stores
        · intro v hv; simp [hl] at hv
        · intro hc; simp at hc
      · simp only [Option.some.injEq] at hs; subst hs; exact h
  | load t =>
    simp only [step] at hs
    split at hs
    · next hc =>
      simp only [Option.some.injEq] at hs; subst hs
      have hne : s.updates ≠ [] := h.active_nonempty (Or.inr (Or.inl (by rw [hc.1]; simp)))
      constructor
      · exact h.curr_head
      · exact h.active_nonempty
      · exact h.delivered_mem
      · intro v hv; simp only [Option.some.injEq] at hv; subst hv
        show s.curr ∈ s.updates
        exact curr_mem h hne
      · intro hn; rw [hc.1] at hn; cases hn
      · exact h.count
      · exact h.stores
      · intro v hv hne'; simp only [Option.some.injEq] at hv; exact absurd hv.symm hne'
      · intro hn; rw [hc.1] at hn; cases hn
    · cases hs
  | deliver t =>
    simp only [step] at hs
    split at hs
    · next v hl =>
      split at hs
      · next hh =>
        simp only [Option.some.injEq] at hs; subst hs
        constructor
        · exact h.curr_head
        · intro hor
          rcases hor with hu | hn | hw
          · exact h.active_nonempty (Or.inl hu)
          · simp at hn
          · exact h.active_nonempty (Or.inr (Or.inr hw))
        · intro x hx
          rcases List.mem_cons.mp hx with rfl | hx
          · exact h.loaded_mem _ hl
          · exact h.delivered_mem x hx
        · intro x hx; simp at hx
        · intro _; rfl
        · have hc := h.count; simp only [hh, opt01, List.length_cons] at hc ⊢; simp at hc ⊢; omega
        · exact h.stores
        · intro x hx; simp at hx
        · intro _ hw hu _
          by_cases hvc : v = s.curr
          · simp [hvc]
          · rcases h.stale_flag v hl hvc with h1 | h1
            · rw [hu] at h1; cases h1
            · rw [hw] at h1; cases h1
      · cases hs
    · cases hs

theorem inv_run (s s' : State) (es : List Ev) (h : Inv s) (hr : run s es = some s') : Inv s' := by
  induction es generalizing s with
  | nil => simp only [run, Option.some.injEq] at hr; subst hr; exact h
  | cons e es ih =>
    simp only [run] at hr
    split at hr
    · cases hr
    · next s1 hs => exact ih s1 (inv_step s s1 e h hs) hr

/-- **(i)** every delivered value is, bit for bit, a value that was passed to Update. -/
theorem delivered_is_an_update (es : List Ev) (s : State) (hr : run init es = some s) :
    ∀ v ∈ s.delivered, v ∈ s.updates :=
  (inv_run init s es inv_init hr).delivered_mem

/-- **(ii)** deliveries (plus the one in flight, plus a raised flag) never exceed the number of
completed updates, which never exceeds the number of Update calls begun. -/
theorem count_le (es : List Ev) (s : State) (hr : run init es = some s) :
    s.delivered.length + opt01 s.holder + ite01 s.updated ≤ s.flagStores ∧ s.flagStores ≤ s.updates.length := by
  have h := inv_run init s es inv_init hr
  exact ⟨h.count, by have := h.stores; omega⟩

/-- **(iii)** at quiescence (writer idle, no reporter between swap and delivery) the last update is
either still flagged for the next pass, or it is the reporter's most recent value — whatever visits
overlapped the updates before. -/
theorem quiescent_latest (es : List Ev) (s : State) (hr : run init es = some s)
    (hw : s.writerMid = false) (hq : s.holder = none) (v : UInt64) (l : List UInt64) (hu : s.updates = v :: l) :
    (s.updated = true ∧ s.curr = v) ∨ s.delivered.head? = some v := by
  have h := inv_run init s es inv_init hr
  have hc := h.curr_head v l hu
  cases hup : s.updated with
  | true => exact Or.inl ⟨rfl, hc⟩
  | false =>
    right
    have := h.quiet hq hw hup (by rw [hu]; simp)
    rw [hc] at this; exact this

/-- deliveries of one gauge never overtake each other: in every reachable state, at most one reporter
is between the swap and the reporter call, and a value that was read earlier than the current one is
delivered only while the newer one is still flagged for delivery (so a newer value is never followed,
for good, by an older one).  This is what the report mutex (repair D13) buys. -/
theorem stale_value_is_followed_by_newer (es : List Ev) (s : State) (hr : run init es = some s)
    (v : UInt64) (hl : s.loaded = some v) (hne : v ≠ s.curr) : s.updated = true ∨ s.writerMid = true :=
  (inv_run init s es inv_init hr).stale_flag v hl hne

/-- the first pass that starts after updates have stopped leaves the most recent value equal to the
last update: a visit from any state in which the writer is idle and no visit is in flight — whatever
happened before — -/
theorem first_pass_after_updates_delivers_last (es : List Ev) (s : State) (hr : run init es = some s)
    (hw : s.writerMid = false) (hq : s.holder = none) (v : UInt64) (l : List UInt64) (hu : s.updates = v :: l) (t : Nat) :
    ∃ s', run s (if s.updated then [.swap t, .load t, .deliver t] else [.swap t]) = some s'
      ∧ s'.delivered.head? = some v ∧ s'.updated = false ∧ s'.holder = none := by
  have h := inv_run init s es inv_init hr
  have hc := h.curr_head v l hu
  have hl : s.loaded = none := h.loaded_holder hq
  cases hup : s.updated with
  | true =>
    refine ⟨{ s with updated := false, holder := none, loaded := none, delivered := s.curr :: s.delivered }, ?_, ?_, rfl, rfl⟩
    · simp [run, step, hup, hq, hl]
    · simp [hc]
  | false =>
    refine ⟨s, ?_, ?_, hup, hq⟩
    · simp [run, step, hup, hq]
    · have := h.quiet hq hw hup (by rw [hu]; simp)
      rw [hc] at this; exact this

/-- … and while such a visit is in flight no other visit of this gauge can start (the report mutex):
there is no second reporter whose stale value could land after it. -/
theorem visits_are_exclusive (s : State) (t u : Nat) (h : s.holder = some t) : step s (.swap u) = none := by
  simp [step, h]

/-- **(iv)** a gauge not updated since it was last delivered is not delivered again: a visit that finds
the flag down delivers nothing. -/
theorem no_redelivery (s s' : State) (t : Nat) (hu : s.updated = false) (hs : step s (.swap t) = some s') :
    s' = s := by
  simp only [step] at hs
  split at hs
  · cases hs
  · split at hs
    · next h => rw [hu] at h; cases h
    · simpa using hs.symm

/-- the oracle the driver applies to the observed trace accepts the model's trace at quiescence after
the flag has been consumed (lists are most-recent-first in the model, oldest-first in the oracle) -/
theorem spec_holds (es : List Ev) (s : State) (hr : run init es = some s)
    (hw : s.writerMid = false) (hq : s.holder = none) (hf : s.updated = false) :
    Spec.C02.holds s.updates.reverse s.delivered.reverse [] = none := by
  have h := inv_run init s es inv_init hr
  have h1 : (s.delivered.reverse.all fun v => s.updates.reverse.contains v) = true := by
    simp only [List.all_eq_true, List.mem_reverse, List.contains_eq_mem, decide_eq_true_eq]
    exact h.delivered_mem
  have h2 : s.delivered.length ≤ s.updates.length := by
    have := h.count; have := h.stores; omega
  have h3 : (s.updates.reverse.isEmpty || s.delivered.reverse.getLast? == s.updates.reverse.getLast?) = true := by
    cases hu : s.updates with
    | nil => simp
    | cons v l =>
      have := h.quiet hq hw hf (by rw [hu]; simp)
      rw [h.curr_head v l hu] at this
      simp [List.getLast?_reverse, this]
  unfold Spec.C02.holds
  rw [h1, h3]
  simp [h2]

/-! ## the code before repair D13 (no report mutex): a stale visit delivers after a newer value -/

/-- Update(1); reporter 1 consumes the flag and reads 1; Update(2); reporter 2 visits completely and
delivers 2; reporter 1 delivers 1.  Updates have stopped, the flag is down, nobody is in flight — and the
reporter's most recent value is 1. -/
def legacyStaleSchedule : List Ev :=
  [.storeValue 1, .storeFlag, .swap 1, .load 1, .storeValue 2, .storeFlag, .swap 2, .load 2, .deliver 2, .deliver 1]

theorem legacy_stale_delivery_counterexample :
    Legacy.run Legacy.init legacyStaleSchedule
      = some { curr := 2, updated := false, writerMid := false, swapped := [], loaded := [], delivered := [1, 2], updates := [2, 1] }
    ∧ Spec.C02.holds [1, 2] [2, 1] [] = some "latest-value" := by
  decide

/-- the repaired model rejects that schedule: reporter 2's swap is not enabled while reporter 1 is inside -/
example : run init legacyStaleSchedule = none := by decide

/-! ## non-vacuity -/

/-- a run with an update between a reporter's read and its delivery, and overlapping visits queued on
the mutex: the hypotheses of the theorems above are met by a non-trivial state -/
example : run init [.storeValue 7, .storeFlag, .swap 1, .load 1, .storeValue 9, .storeFlag, .deliver 1, .swap 2, .load 2, .deliver 2]
    = some { curr := 9, updated := false, writerMid := false, holder := none, loaded := none, delivered := [9, 7], updates := [9, 7], flagStores := 2 } := by
  decide

example : Spec.C02.holds [7, 9] [7, 9] [] = none :=
  spec_holds [.storeValue 7, .storeFlag, .swap 1, .load 1, .storeValue 9, .storeFlag, .deliver 1, .swap 2, .load 2, .deliver 2]
    { curr := 9, updated := false, writerMid := false, holder := none, loaded := none, delivered := [9, 7], updates := [9, 7], flagStores := 2 }
    (by decide) rfl rfl rfl

end Tally.Props.C02
