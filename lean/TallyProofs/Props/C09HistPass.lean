import Tally.Model.HistPass
/-!
# C09 (histogram part) — every recorded sample is delivered exactly once, in its own bucket

The model (`Tally.HistPass`) has one counter cell per bucket, any number of threads running report
passes (`swap t b`, `deliver t`, bucket by bucket) and any interleaving of those steps with `record b`.
All theorems are over *every* event list accepted by the model.  The broken optimisation "updated mark
cleared late" (`Tally.HistPass.Legacy`) is refuted by a concrete interleaving.
-/
namespace Tally.Props.C09HistPass
open Tally Tally.HistPass

/-! ### list facts -/

theorem getD_set (l : List Nat) (i j v : Nat) :
    (l.set i v).getD j 0 = if i = j ∧ i < l.length then v else l.getD j 0 := by
  simp only [List.getD_eq_getElem?_getD, List.getElem?_set]
  by_cases h : i = j
  · subst h
    by_cases hl : i < l.length
    · simp [hl]
    · simp [hl]
  · simp [h]

theorem getD_replicate_zero (n j : Nat) : (List.replicate n 0).getD j 0 = 0 := by
  simp only [List.getD_eq_getElem?_getD, List.getElem?_replicate]
  split <;> rfl

theorem lookup_none_not_mem (l : List (Nat × Nat × Nat)) (t : Nat) (h : (l.lookup t).isSome = false) :
    t ∉ l.map (·.1) := by
  induction l with
  | nil => simp
  | cons p l ih =>
    obtain ⟨k, v⟩ := p
    by_cases hk : t = k
    · subst hk; simp [List.lookup] at h
    · have hne : (t == k) = false := by simp [hk]
      simp only [List.lookup, hne] at h
      simp only [List.map_cons, List.mem_cons, not_or]
      exact ⟨hk, ih h⟩

theorem filter_of_not_mem (l : List (Nat × Nat × Nat)) (t : Nat) (h : t ∉ l.map (·.1)) :
    l.filter (fun p => p.1 != t) = l := by
  apply List.filter_eq_self.mpr
  intro q hq
  simp only [bne_iff_ne, ne_eq]
  intro he
  exact h (he ▸ List.mem_map_of_mem hq)

theorem nodup_filter (l : List (Nat × Nat × Nat)) (t : Nat) (h : (l.map (·.1)).Nodup) :
    ((l.filter (fun p => p.1 != t)).map (·.1)).Nodup := by
  induction l with
  | nil => simp
  | cons p l ih =>
    simp only [List.map_cons, List.nodup_cons] at h
    simp only [List.filter]
    split
    · simp only [List.map_cons, List.nodup_cons]
      refine ⟨?_, ih h.2⟩
      intro hm
      obtain ⟨q, hq, he⟩ := List.mem_map.mp hm
      exact h.1 (he ▸ List.mem_map_of_mem (List.mem_filter.mp hq).1)
    · exact ih h.2

/-- removing thread `t`'s entry removes exactly its count from its bucket's pending total -/
theorem countIn_filter_of_lookup (l : List (Nat × Nat × Nat)) (t b : Nat) (d : Nat × Nat)
    (hnd : (l.map (·.1)).Nodup) (h : l.lookup t = some d) :
    countIn b ((l.filter (fun p => p.1 != t)).map (·.2)) + (if d.1 = b then d.2 else 0)
      = countIn b (l.map (·.2)) := by
  induction l with
  | nil => simp [List.lookup] at h
  | cons p l ih =>
    obtain ⟨k, v⟩ := p
    simp only [List.map_cons, List.nodup_cons] at hnd
    by_cases hk : t = k
    · subst hk
      simp only [List.lookup, beq_self_eq_true] at h
      injection h with h; subst h
      have hf : l.filter (fun p => p.1 != t) = l := filter_of_not_mem l t hnd.1
      simp only [List.filter, bne_self_eq_false, hf, List.map_cons, countIn]
      omega
    · have hne : (t == k) = false := by simp [hk]
      simp only [List.lookup, hne] at h
      have hkt : (k != t) = true := by simp [bne_iff_ne]; exact fun e => hk e.symm
      have := ih hnd.2 h
      simp only [List.filter, hkt, List.map_cons, countIn]
      omega

theorem lookup_some_mem (l : List (Nat × Nat × Nat)) (t : Nat) (d : Nat × Nat) (h : l.lookup t = some d) :
    (t, d) ∈ l := by
  obtain ⟨l1, l2, he, _⟩ := List.lookup_eq_some_iff.mp h
  rw [he]; simp

/-! ### the invariant -/

/-- the per-bucket accounting invariant, uniqueness of a thread's pending entry, and well-formedness of
what is pending and delivered (a real bucket, a non-zero count) -/
structure Inv (n : Nat) (s : State) : Prop where
  len : s.cells.length = n
  nodup : (s.pending.map (·.1)).Nodup
  books : ∀ b, deliveredIn s b + pendingIn s b + s.cells.getD b 0 = recordedIn s b
  pend : ∀ p ∈ s.pending, p.2.1 < n ∧ 0 < p.2.2
  deliv : ∀ d ∈ s.delivered, d.1 < n ∧ 0 < d.2

theorem inv_init (n : Nat) : Inv n (init n) := by
  refine ⟨by simp [init], by simp [init], ?_, by simp [init], by simp [init]⟩
  intro b
  simp only [init, deliveredIn, pendingIn, recordedIn, countIn, getD_replicate_zero, List.map_nil, List.count_nil]

theorem inv_record (n : Nat) (s s' : State) (b : Nat) (h : Inv n s) (hs : step s (.record b) = some s') :
    Inv n s' := by
  simp only [step] at hs
  split at hs
  · next hb =>
    simp only [Option.some.injEq] at hs; subst hs
    refine ⟨by simpa using h.len, h.nodup, ?_, h.pend, h.deliv⟩
    intro b'
    have hb' := h.books b'
    simp only [deliveredIn, pendingIn, recordedIn, getD_set, List.count_cons, beq_iff_eq] at hb' ⊢
    by_cases he : b = b'
    · subst he; simp only [hb, and_self, if_true]; omega
    · simp only [he, false_and, if_false]; omega
  · cases hs

theorem inv_swap (n : Nat) (s s' : State) (t b : Nat) (h : Inv n s) (hs : step s (.swap t b) = some s') :
    Inv n s' := by
  simp only [step] at hs
  split at hs
  · next hb =>
    split at hs
    · cases hs
    · next hl =>
      simp only [Option.some.injEq] at hs; subst hs
      have hl' : (s.pending.lookup t).isSome = false := Bool.eq_false_iff.mpr hl
      by_cases hc : s.cells.getD b 0 = 0
      · simp only [hc, if_true]
        refine ⟨by simpa using h.len, h.nodup, ?_, h.pend, h.deliv⟩
        intro b'
        have hb' := h.books b'
        simp only [deliveredIn, pendingIn, recordedIn, getD_set] at hb' ⊢
        by_cases he : b = b'
        · subst he; simp only [hb, and_self, if_true]; omega
        · simp only [he, false_and, if_false]; omega
      · simp only [hc, if_false]
        refine ⟨by simpa using h.len, ?_, ?_, ?_, h.deliv⟩
        · simp only [List.map_cons, List.nodup_cons]
          exact ⟨lookup_none_not_mem _ _ hl', h.nodup⟩
        · intro b'
          have hb' := h.books b'
          simp only [deliveredIn, pendingIn, recordedIn, getD_set, List.map_cons, countIn] at hb' ⊢
          by_cases he : b = b'
          · subst he; simp only [hb, and_self, if_true]; omega
          · simp only [he, false_and, if_false]; omega
        · intro p hp
          rcases List.mem_cons.mp hp with rfl | hp
          · exact ⟨h.len ▸ hb, by simp only; omega⟩
          · exact h.pend p hp
  · cases hs

theorem inv_deliver (n : Nat) (s s' : State) (t : Nat) (h : Inv n s) (hs : step s (.deliver t) = some s') :
    Inv n s' := by
  simp only [step] at hs
  split at hs
  · cases hs
  · next d hl =>
    simp only [Option.some.injEq] at hs; subst hs
    have hmem : (t, d) ∈ s.pending := lookup_some_mem _ _ _ hl
    refine ⟨h.len, nodup_filter _ _ h.nodup, ?_, ?_, ?_⟩
    · intro b
      have hb := h.books b
      have := countIn_filter_of_lookup s.pending t b d h.nodup hl
      simp only [deliveredIn, pendingIn, recordedIn, countIn] at hb ⊢
      omega
    · intro p hp; exact h.pend p (List.mem_filter.mp hp).1
    · intro x hx
      rcases List.mem_cons.mp hx with rfl | hx
      · exact h.pend (t, x) hmem
      · exact h.deliv x hx

/-- every atomic action of every thread preserves the invariant -/
theorem inv_step (n : Nat) (s s' : State) (e : Ev) (h : Inv n s) (hs : step s e = some s') : Inv n s' := by
  cases e with
  | record b => exact inv_record n s s' b h hs
  | swap t b => exact inv_swap n s s' t b h hs
  | deliver t => exact inv_deliver n s s' t h hs

/-- the invariant holds in every state reachable by any interleaving -/
theorem inv_run (n : Nat) (s s' : State) (es : List Ev) (h : Inv n s) (hr : run s es = some s') : Inv n s' := by
  induction es generalizing s with
  | nil => simp only [run, Option.some.injEq] at hr; subst hr; exact h
  | cons e es ih =>
    simp only [run] at hr
    split at hr
    · cases hr
    · next s1 h1 => exact ih s1 (inv_step n s s1 e h h1) hr

/-! ### the theorems -/

/-- **conservation, per bucket**: in every reachable state and for every bucket, what the reporter
received for that bucket, what threads hold pending for it and what is still in its cell add up to the
number of samples recorded into it — whatever the number of passes and threads and however their
per-bucket steps interleave with the records.  No sample is delivered twice, none is lost, none moves to
another bucket. -/
theorem conservation (n : Nat) (es : List Ev) (s : State) (hr : run (init n) es = some s) :
    ∀ b, deliveredIn s b + pendingIn s b + s.cells.getD b 0 = recordedIn s b :=
  (inv_run n (init n) s es (inv_init n) hr).books

/-- **no invented bucket, no zero delivery**: every reporter call names one of the `n` buckets and
carries a non-zero count. -/
theorem delivered_in_own_bucket (n : Nat) (es : List Ev) (s : State) (hr : run (init n) es = some s) :
    ∀ d ∈ s.delivered, d.1 < n ∧ 0 < d.2 :=
  (inv_run n (init n) s es (inv_init n) hr).deliv

/-- the number of buckets never changes -/
theorem cells_length (n : Nat) (es : List Ev) (s : State) (hr : run (init n) es = some s) :
    s.cells.length = n :=
  (inv_run n (init n) s es (inv_init n) hr).len

/-- **conservation at quiescence**: with nothing pending and all cells empty, the reporter has received,
bucket by bucket, exactly the recorded samples. -/
theorem conserved_at_quiescence (n : Nat) (es : List Ev) (s : State) (hr : run (init n) es = some s)
    (hp : s.pending = []) (hc : ∀ b, s.cells.getD b 0 = 0) :
    ∀ b, deliveredIn s b = recordedIn s b := by
  intro b
  have h := conservation n es s hr b
  simp only [pendingIn, hp, List.map_nil, countIn, hc b] at h
  omega

theorem run_append (a : State) (xs ys : List Ev) (b : State) (h : run a xs = some b) :
    run a (xs ++ ys) = run b ys := by
  induction xs generalizing a with
  | nil => simp only [run, Option.some.injEq] at h; subst h; rfl
  | cons x xs ih =>
    simp only [List.cons_append, run] at h ⊢
    cases h1 : step a x with
    | none => simp [h1] at h
    | some s1 => simp only [h1] at h ⊢; exact ih s1 h

theorem getD_prefix (k c : Nat) (cs : List Nat) : (List.replicate k 0 ++ c :: cs).getD k 0 = c := by
  induction k with
  | zero => simp
  | succ k ih => simp only [List.replicate_succ, List.cons_append, List.getD_cons_succ]; exact ih

theorem set_prefix (k c : Nat) (cs : List Nat) :
    (List.replicate k 0 ++ c :: cs).set k 0 = List.replicate (k + 1) 0 ++ cs := by
  induction k with
  | zero => simp
  | succ k ih =>
    have : List.replicate (k + 1 + 1) 0 ++ cs = 0 :: (List.replicate (k + 1) 0 ++ cs) := by
      simp [List.replicate_succ]
    rw [this, ← ih]
    simp [List.replicate_succ]

theorem step_swap_eq (s : State) (t b : Nat) (hb : b < s.cells.length)
    (hl : (s.pending.lookup t).isSome = false) :
    step s (.swap t b) = some { s with
      cells := s.cells.set b 0,
      pending := if s.cells.getD b 0 = 0 then s.pending else (t, b, s.cells.getD b 0) :: s.pending } := by
  simp [step, hb, hl]

theorem step_deliver_eq (s : State) (t : Nat) (d : Nat × Nat) (hl : s.pending.lookup t = some d) :
    step s (.deliver t) = some { s with
      pending := s.pending.filter (fun p => p.1 != t), delivered := d :: s.delivered } := by
  simp [step, hl]

/-- one visit of bucket `k` (holding `c`) by a thread with no pending entry, the buckets before `k`
already emptied: the visit runs, empties bucket `k`, delivers `c` for bucket `k` if `c ≠ 0` and nothing
otherwise, and leaves the other threads' pending entries and the record history alone. -/
theorem visit_run (t k c : Nat) (cs : List Nat) (s : State)
    (hcells : s.cells = List.replicate k 0 ++ c :: cs) (hl : (s.pending.lookup t).isSome = false) :
    run s (visit t k c) = some { s with
      cells := List.replicate (k + 1) 0 ++ cs,
      delivered := if c = 0 then s.delivered else (k, c) :: s.delivered } := by
  have hk : k < s.cells.length := by rw [hcells]; simp
  have hget : s.cells.getD k 0 = c := by rw [hcells]; exact getD_prefix k c cs
  have hset : s.cells.set k 0 = List.replicate (k + 1) 0 ++ cs := by rw [hcells]; exact set_prefix k c cs
  have hswap := step_swap_eq s t k hk hl
  rw [hget, hset] at hswap
  by_cases hc : c = 0
  · subst hc
    simp only [visit, if_true, run, hswap]
  · have hlook : List.lookup t ((t, k, c) :: s.pending) = some (k, c) := by simp [List.lookup]
    have hfil : ((t, k, c) :: s.pending).filter (fun p => p.1 != t) = s.pending := by
      simp only [List.filter, bne_self_eq_false]
      exact filter_of_not_mem _ _ (lookup_none_not_mem _ _ hl)
    simp only [hc, if_false] at hswap
    have hdel := step_deliver_eq { s with cells := List.replicate (k + 1) 0 ++ cs, pending := (t, k, c) :: s.pending }
      t (k, c) hlook
    simp only [hfil] at hdel
    simp only [visit, hc, if_false, run, hswap, hdel]

/-- the rest of a pass, from bucket `k` on -/
theorem passFrom_run (t : Nat) (cs : List Nat) (k : Nat) (s : State)
    (hcells : s.cells = List.replicate k 0 ++ cs) (hl : (s.pending.lookup t).isSome = false) :
    ∃ s', run s (passFrom t cs k) = some s' ∧ s'.cells = List.replicate (k + cs.length) 0
      ∧ s'.pending = s.pending ∧ s'.recorded = s.recorded := by
  induction cs generalizing k s with
  | nil => exact ⟨s, by simp [passFrom, run], by simpa using hcells, rfl, rfl⟩
  | cons c cs ih =>
    have h1 := visit_run t k c cs s hcells hl
    obtain ⟨s', hr, hc', hp', hrec'⟩ := ih (k + 1)
      { s with cells := List.replicate (k + 1) 0 ++ cs,
               delivered := if c = 0 then s.delivered else (k, c) :: s.delivered } rfl hl
    refine ⟨s', ?_, ?_, hp', hrec'⟩
    · simp only [passFrom]
      rw [run_append s _ _ _ h1]; exact hr
    · rw [hc']; simp only [List.length_cons]; congr 1; omega

/-- a complete pass by a thread with no pending entry runs to the end, empties every cell and leaves
the other threads' pending entries and the record history alone -/
theorem fullPass_run (t : Nat) (s : State) (hl : (s.pending.lookup t).isSome = false) :
    ∃ s', run s (fullPass t s) = some s' ∧ s'.cells = List.replicate s.cells.length 0
      ∧ s'.pending = s.pending ∧ s'.recorded = s.recorded := by
  have := passFrom_run t s.cells 0 s (by simp) hl
  simpa [fullPass] using this

/-- **one more pass suffices**: from any reachable state with no pass in flight, one complete pass (by
any thread: all buckets in order, no record in between) leaves the books balanced bucket by bucket —
every recorded sample has been delivered, in its own bucket — with nothing pending and all cells empty. -/
theorem conserved_after_one_more_pass (n : Nat) (es : List Ev) (s : State) (hr : run (init n) es = some s)
    (hp : s.pending = []) (t : Nat) :
    ∃ s', run s (fullPass t s) = some s' ∧ (∀ b, deliveredIn s' b = recordedIn s' b)
      ∧ s'.pending = [] ∧ s'.cells = List.replicate n 0 ∧ s'.recorded = s.recorded := by
  obtain ⟨s', hr', hc', hp', hrec'⟩ := fullPass_run t s (by simp [hp])
  have hr'' : run (init n) (es ++ fullPass t s) = some s' := by
    rw [run_append (init n) es _ s hr]; exact hr'
  have hlen := cells_length n es s hr
  rw [hp] at hp'
  rw [hlen] at hc'
  refine ⟨s', hr', ?_, hp', hc', hrec'⟩
  exact conserved_at_quiescence n _ s' hr'' hp' (by intro b; rw [hc']; exact getD_replicate_zero n b)

/-- the same with other passes in flight: a complete pass by a thread `t` that holds nothing (all buckets in
order, no record in between) empties every cell; every recorded sample is then delivered or held pending
by one of the *other* threads, in its own bucket. -/
theorem accounted_after_one_more_pass (n : Nat) (es : List Ev) (s : State) (hr : run (init n) es = some s)
    (t : Nat) (ht : s.pending.lookup t = none) :
    ∃ s', run s (fullPass t s) = some s' ∧ (∀ b, deliveredIn s' b + pendingIn s' b = recordedIn s' b)
      ∧ s'.pending = s.pending ∧ s'.cells = List.replicate n 0 ∧ s'.recorded = s.recorded := by
  obtain ⟨s', hr', hc', hp', hrec'⟩ := fullPass_run t s (by simp [ht])
  have hr'' : run (init n) (es ++ fullPass t s) = some s' := by
    rw [run_append (init n) es _ s hr]; exact hr'
  rw [cells_length n es s hr] at hc'
  refine ⟨s', hr', ?_, hp', hc', hrec'⟩
  intro b
  have h := conservation n _ s' hr'' b
  rw [hc', getD_replicate_zero] at h
  omega

/-- **idle buckets are silent**: swapping an empty bucket delivers nothing and leaves nothing pending. -/
theorem idle_silent (s s' : State) (t b : Nat) (hc : s.cells.getD b 0 = 0) (hs : step s (.swap t b) = some s') :
    s'.pending = s.pending ∧ s'.delivered = s.delivered := by
  simp only [step] at hs
  split at hs
  · split at hs
    · cases hs
    · simp only [Option.some.injEq] at hs; subst hs
      -- (`split` has already discharged `if s.cells.getD b 0 = 0` with `hc`)
      exact ⟨rfl, rfl⟩
  · cases hs

/-! ### the broken optimisation "updated mark cleared late": regression witness -/

/-- two buckets; a sample lands in bucket 0 after the pass of thread 1 swapped bucket 0 and before that
pass clears the mark: the pass erases the mark of a sample it did not collect.  In the final state two
samples were recorded into bucket 0 and one was delivered, nothing is pending, no pass is in flight, the
mark is clear — so every later pass (`begin t`, any `t`) skips the histogram and leaves the state as it
is: the sample stays undelivered for as long as no new sample arrives. -/
theorem legacy_mark_cleared_late_loses_a_sample :
    ∃ s, Legacy.run (Legacy.init 2)
        [.record 0, .begin 1, .swap 1 0, .deliver 1, .record 0, .swap 1 1, .finish 1, .begin 2] = some s
      ∧ Legacy.recordedIn s 0 = 2 ∧ Legacy.deliveredIn s 0 = 1 ∧ s.cells = [1, 0]
      ∧ s.pending = [] ∧ s.passing = [] ∧ s.updated = false
      ∧ ∀ t, Legacy.step s (.begin t) = some s := by
  refine ⟨{ cells := [1, 0], pending := [], delivered := [(0, 1)], recorded := [0, 0],
            updated := false, passing := [] }, by decide, by decide, by decide, rfl, rfl, rfl, rfl, ?_⟩
  intro t
  simp [Legacy.step]

/-- the same interleaving without the mark, followed by one more pass: both samples are delivered -/
example : ∃ s s', run (init 2) [.record 0, .swap 1 0, .deliver 1, .record 0, .swap 1 1] = some s
    ∧ run s (fullPass 2 s) = some s' ∧ recordedIn s' 0 = 2 ∧ deliveredIn s' 0 = 2 ∧ s'.pending = [] := by
  have hr : run (init 2) [.record 0, .swap 1 0, .deliver 1, .record 0, .swap 1 1]
      = some { cells := [1, 0], pending := [], delivered := [(0, 1)], recorded := [0, 0] } := by decide
  obtain ⟨s', hr', hb, hp', _, hrec⟩ := conserved_after_one_more_pass 2 _ _ hr rfl 2
  have h2 : recordedIn s' 0 = 2 := by simp only [recordedIn, hrec]; decide
  exact ⟨_, s', hr, hr', h2, by rw [hb 0]; exact h2, hp'⟩

/-! ### non-vacuity -/

/-- three buckets, two passes (threads 1 and 2) overlapping each other and the records -/
def demo : List Ev :=
  [.record 0, .record 2, .swap 1 0, .swap 2 0, .record 0, .record 1, .swap 2 1, .deliver 1, .swap 1 1,
   .deliver 2, .swap 2 2, .swap 1 2, .record 2, .deliver 2]

def demoEnd : State :=
  { cells := [1, 0, 1], pending := [], delivered := [(2, 1), (1, 1), (0, 1)], recorded := [2, 1, 0, 2, 0] }

example : run (init 3) demo = some demoEnd := by decide

example : ∀ b, deliveredIn demoEnd b + pendingIn demoEnd b + demoEnd.cells.getD b 0 = recordedIn demoEnd b :=
  conservation 3 demo demoEnd (by decide)

example : ∀ d ∈ demoEnd.delivered, d.1 < 3 ∧ 0 < d.2 :=
  delivered_in_own_bucket 3 demo demoEnd (by decide)

example : fullPass 7 demoEnd = [.swap 7 0, .deliver 7, .swap 7 1, .swap 7 2, .deliver 7] := by decide

example : run demoEnd (fullPass 7 demoEnd)
    = some { cells := [0, 0, 0], pending := [],
             delivered := [(2, 1), (0, 1), (2, 1), (1, 1), (0, 1)], recorded := [2, 1, 0, 2, 0] } := by decide

example : ∃ s', run demoEnd (fullPass 7 demoEnd) = some s' ∧ (∀ b, deliveredIn s' b = recordedIn s' b)
    ∧ s'.pending = [] ∧ s'.cells = List.replicate 3 0 ∧ s'.recorded = demoEnd.recorded :=
  conserved_after_one_more_pass 3 demo demoEnd (by decide) rfl 7

/-- a state with two passes in flight at once (both threads hold a pending entry), reached by a prefix of `demo` -/
example : run (init 3) (demo.take 7)
    = some { cells := [1, 0, 1], pending := [(2, 1, 1), (1, 0, 1)], delivered := [], recorded := [1, 0, 2, 0] } := by
  decide

end Tally.Props.C09HistPass
