import Tally.Model.M3Batch
import Tally.Spec.C12
import TallyProofs.Props.C16
import TallyProofs.Lemmas.M3Batch
/-!
# C12 — no M3 datagram exceeds the configured maximum packet size

About the model of the REPAIRED accounting (`Tally/Model/M3Size.lean`, `M3Batch.lean`):

* `charged_ge_actual`, `charged_ge_actual_bucket` — whatever value and timestamp a report carries,
  its encoding is no longer than what the handle was charged at allocation (for histogram buckets:
  with the two bucket tags that `process()` appends);
* `overhead_ge_envelope` — the reserved overhead (33 + the empty batch) covers the message header,
  the args framing and the batch framing for EVERY sequence number and EVERY number of metrics;
* `batches_fit` — the loop never lets the charges of a batch exceed `freeBytes`, except for a batch
  that consists of one metric (the property's proviso);
* `datagram_le_max`, `datagram_le_max_spec` — hence every emitted datagram is at most
  `MaxPacketSizeBytes` long whenever each single metric's charge is at most `freeBytes`;
* `batching_partition`, `overflow_starts_next_batch` — the batches concatenate to exactly the queued
  metrics, in order; none is empty; a metric that does not fit closes the open batch and starts the
  next one.
* `legacy_…_counterexample` — the pinned constants violate the bound on concrete inputs.
-/
namespace Tally.Props.C12
open Tally Tally.Thrift Tally.M3 Tally.Props.C16

/-! ### the charge of a metric covers every value it may be reported with -/

/-- a report through a handle of kind `k` (any value of that kind, any timestamp) encodes to at
most the bytes its template was charged.  No range hypothesis: out-of-range integers would wrap to
64 bits, and 10 varint bytes cover every 64-bit value. -/
theorem charged_ge_actual (p : Proto) (name : Bytes) (k : Kind) (tags : Option (List MetricTag))
    (v : Val) (hv : v.kind = k) (now : Int) :
    (encMetric p (withValue (template name k tags) v now)).length
      ≤ chargeMetric p (template name k tags) := by
  have hts := encI64_length_le_max p now
  cases v with
  | count c =>
    have hk : k = .counter := by simpa [Val.kind] using hv.symm
    subst hk
    have h1 := encI64_length_le_max p c
    simp only [chargeMetric, withValue, template, encMetric, encValue, List.length_append,
      encDouble_length, if_true]
    omega
  | gauge g =>
    have hk : k = .gauge := by simpa [Val.kind] using hv.symm
    subst hk
    simp only [chargeMetric, withValue, template, encMetric, encValue, List.length_append,
      encDouble_length]
    omega
  | timer d =>
    have hk : k = .timer := by simpa [Val.kind] using hv.symm
    subst hk
    have h1 := encI64_length_le_max p d
    simp only [chargeMetric, withValue, template, encMetric, encValue, List.length_append,
      encDouble_length, if_true]
    omega

/-- the same for a histogram bucket as it is sent: the histogram's tags followed by the bucket-id
and bucket-range tags (REPAIRED charge `chargeBucket`) -/
theorem charged_ge_actual_bucket (p : Proto) (name : Bytes) (mtags : List MetricTag)
    (idTag rangeTag : MetricTag) (samples now : Int) :
    (encMetric p (withBucketTags (withValue (template name .counter (some mtags)) (.count samples) now)
        idTag rangeTag)).length
      ≤ chargeBucket p (template name .counter (some mtags)) idTag rangeTag := by
  have hts := encI64_length_le_max p now
  have h1 := encI64_length_le_max p samples
  simp only [chargeBucket, chargeMetric, withBucketTags, withValue, template, encMetric, encValue,
    List.length_append, encDouble_length, if_true]
  omega

/-- non-vacuity: a counter with a 2-byte name and one tag, reported with `MinInt64` -/
example : (encMetric .compact (withValue (template [104, 105] .counter (some [⟨[107], [118]⟩]))
            (.count (-9223372036854775808)) 1700000000000000000)).length = 50
        ∧ chargeMetric .compact (template [104, 105] .counter (some [⟨[107], [118]⟩])) = 51 := by decide

/-! ### the reserved overhead covers the envelope -/

/-- for every sequence number and every number of metrics: message header + args framing + batch
framing ≤ 33 + the size `NewReporter` measured for the empty batch -/
theorem overhead_ge_envelope (p : Proto) (seq : Int) (n : Nat) (ct : List MetricTag) :
    messageOverhead p seq + batchOverhead p n (some ct) ≤ overhead reservedEnvelope p ct := by
  have hb := batchOverhead_le p n (some ct)
  have he : (encBatch p (emptyBatch ct)).length = batchOverhead p 0 (some ct) := by
    rw [encBatch_length]; simp [emptyBatch]
  unfold overhead reservedEnvelope
  rw [he]
  cases p with
  | compact =>
    have := (messageOverhead_compact_bounds seq).2
    simp only [] at hb
    omega
  | binary =>
    have := messageOverhead_binary seq
    simp only [] at hb
    omega

/-- the bound is attained (binary) resp. almost attained (compact: 27 + 5 of 33) -/
example : messageOverhead .binary 7 + batchOverhead .binary 20 (some []) = overhead reservedEnvelope .binary [] := by
  decide
example : messageOverhead .compact 2147483647 + batchOverhead .compact 300 (some [])
    = overhead reservedEnvelope .compact [] - 4 := by decide

/-! ### the batching loop -/

/-- every emitted batch is non-empty and was charged at most `free`, unless it is one single metric -/
theorem batches_fit (free : Nat) (items : List Item) :
    ∀ b ∈ batches free items, b ≠ [] ∧ (sizeSum b ≤ free ∨ b.length = 1) := fun b hb =>
  ⟨(batches_ok free items b hb).2, (batches_ok free items b hb).1⟩

/-- nothing is dropped, duplicated or reordered: the batches concatenate to the queued metrics -/
theorem batching_partition (free : Nat) (items : List Item) :
    (batches free items).flatten = queued items := by
  have h := consume_flatten free items BState.init
  have h2 := emitCur_flatten (consume free BState.init items)
  rw [emitCur_cur, List.append_nil] at h2
  unfold batches
  rw [h2, h]
  simp [BState.init]

/-- the metric that does not fit starts the next batch: the open batch is closed as it is (and
emitted unless empty) and the metric becomes the first of a fresh one; a metric that fits is
appended -/
theorem overflow_starts_next_batch (free : Nat) (s : BState) (x : Sized) :
    (s.bytes + x.size > free →
        (step free s (.met x)).cur = [x] ∧
        (step free s (.met x)).out = if s.cur = [] then s.out else s.out ++ [s.cur]) ∧
    (s.bytes + x.size ≤ free →
        (step free s (.met x)).cur = s.cur ++ [x] ∧ (step free s (.met x)).out = s.out) := by
  rw [step_met]
  constructor
  · intro h; simp [h, emitCur_out]
  · intro h
    have : ¬ s.bytes + x.size > free := by omega
    simp [this]

/-- the result does not depend on how the consumer's receives interleave with the senders: consuming
a prefix first and the rest later is the same fold -/
theorem consume_split (free : Nat) (a b : List Item) :
    batches free (a ++ b) = (emitCur (consume free (consume free BState.init a) b)).out := by
  simp [batches, consume_append]

/-! ### the bound -/

/-- every datagram is at most `max` bytes long, provided each queued metric was charged at least
the length of its encoding (`charged_ge_actual`) and at most `freeBytes` -/
theorem datagram_le_max (p : Proto) (ct : List MetricTag) (max : Nat) (items : List Item)
    (hfree : 0 < freeBytes reservedEnvelope max p ct)
    (hcharge : ∀ x ∈ queued items, (encMetric p x.m).length ≤ x.size)
    (hfit : ∀ x ∈ queued items, (x.size : Int) ≤ freeBytes reservedEnvelope max p ct) :
    ∀ d ∈ messages p ct (batches (freeBytes reservedEnvelope max p ct).toNat items), d.length ≤ max := by
  intro d hd
  obtain ⟨b, hb, seq, rfl⟩ := mem_messagesFrom p ct _ _ d hd
  have hok := batches_ok _ items b hb
  have hsub : ∀ x ∈ b, x ∈ queued items := by
    intro x hx
    rw [← batching_partition (freeBytes reservedEnvelope max p ct).toNat items]
    exact List.mem_flatten.2 ⟨b, hb, hx⟩
  -- what the batch was charged is at most free
  have hsum : sizeSum b ≤ (freeBytes reservedEnvelope max p ct).toNat := by
    rcases hok.1 with h | h
    · exact h
    · match b, h with
      | [x], _ =>
        have := hfit x (hsub x (by simp))
        simp only [sizeSum_single]
        omega
  have hlen : ((batchOf ct b).metrics.map fun m => (encMetric p m).length).sum ≤ sizeSum b := by
    simp only [batchOf, List.map_map, sizeSum]
    exact sum_map_le _ _ b (fun x hx => hcharge x (hsub x hx))
  have henv := overhead_ge_envelope p seq (batchOf ct b).metrics.length ct
  rw [encMessage_length, encBatch_length]
  have hct : (batchOf ct b).commonTags = some ct := rfl
  rw [hct]
  unfold freeBytes at hsum hfree
  omega

/-- the size clause of `Spec.C12` holds of the model's datagrams -/
theorem datagram_le_max_spec (p : Proto) (ct : List MetricTag) (max : Nat) (items : List Item)
    (hfree : 0 < freeBytes reservedEnvelope max p ct)
    (hcharge : ∀ x ∈ queued items, (encMetric p x.m).length ≤ x.size)
    (hfit : ∀ x ∈ queued items, (x.size : Int) ≤ freeBytes reservedEnvelope max p ct) :
    Spec.C12.allWithin max (messages p ct (batches (freeBytes reservedEnvelope max p ct).toNat items)) = true := by
  simp only [Spec.C12.allWithin, List.all_eq_true, decide_eq_true_eq]
  exact datagram_le_max p ct max items hfree hcharge hfit

/-! ### non-vacuity -/

set_option maxRecDepth 8000

def exCt : List MetricTag := [⟨[115], [120]⟩, ⟨[101], [121]⟩]
def exT : Metric := template [99] .counter none
def exItem (c : Int) : Item := .met { m := withValue exT (.count c) 5, size := chargeMetric .binary exT }

/-- binary, `max = 220`: overhead 33 + 51, `freeBytes = 136`, each counter is charged 64 — two fit,
the third starts the next datagram; the first datagram is 33 + 51 + 128 = 212 bytes -/
example : freeBytes reservedEnvelope 220 .binary exCt = 136 := by decide
example : (batches 136 [exItem 1, exItem 2, exItem 3, .flush, exItem 4]).map List.length = [2, 1, 1] := by
  decide
example : (messages .binary exCt (batches 136 [exItem 1, exItem 2, exItem 3, .flush, exItem 4])).map List.length
    = [212, 148, 148] := by decide

/-! ### the pinned constants (D6a, D6b) -/

/-- D6a: with the pinned allowance 19, `max = 220` leaves 150 "free" bytes; one 150-byte counter is
accepted (charge ≤ free) and its datagram is 234 bytes: 14 more than the maximum -/
def exLong : Metric := template (List.replicate 87 97) .counter none

theorem legacy_overhead_counterexample :
    freeBytes legacyEnvelope 220 .binary exCt = 150 ∧
    chargeMetric .binary exLong = 150 ∧
    (messages .binary exCt (batches 150 [.met { m := withValue exLong (.count 1) 5, size := 150 }])).map List.length
      = [234] := by decide

/-- D6b: the pinned bucket charge is smaller than the bucket's encoding (binary: by the 30 bytes of
struct / field / length framing of the two tags) -/
theorem legacy_bucket_charge_counterexample :
    let t := template [104] .counter (some [])
    let idTag : MetricTag := ⟨[98, 117, 99, 107, 101, 116, 105, 100], [48, 48, 48, 49]⟩
    let rangeTag : MetricTag := ⟨[98, 117, 99, 107, 101, 116], [48, 45, 49]⟩
    legacyChargeBucket .binary t idTag rangeTag = 93 ∧
    (encMetric .binary (withBucketTags (withValue t (.count 1) 5) idTag rangeTag)).length = 123 ∧
    chargeBucket .binary t idTag rangeTag = 123 := by decide

/-- the `>=` mutant of the comparison closes a batch one metric early when the charges add up to
exactly `freeBytes` -/
example : (consume 128 BState.init [exItem 1, exItem 2]).out = [] ∧
    ((([exItem 1, exItem 2] : List Item).foldl (stepGe 128) BState.init).out.map List.length) = [1] := by decide

end Tally.Props.C12
