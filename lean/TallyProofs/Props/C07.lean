import TallyProofs.Lemmas.RegistryLemmas
import TallyProofs.Lemmas.RegistryPass
import Tally.Model.RegistryLegacy
/-!
# C07 — closing a subscope: final report exactly once, then dropped; no other scope is harmed

"Everything recorded on a subscope before its Close was called is delivered exactly once - by the next
report pass or at the moment the same scope is requested again - and only then is the scope dropped.
Closing a scope never affects any other scope: in particular a scope obtained afterwards for the same
prefix and tags is fully functional, stays registered, and everything recorded on it is delivered.
Scopes derived from a closed scope are inert, closing twice is harmless, and none of this can panic or
deadlock."

The model (`Tally.Registry`) is one shard of the repaired registry with any number of threads and any
interleaving of their atomic steps.  All theorems quantify over EVERY event list accepted by the model,
from either start state (`initRoot`: the shard as `newScopeRegistry` leaves it; `init`: the empty shard).
The invariant and its preservation are in `TallyProofs/Lemmas/RegistryLemmas.lean`.
-/
namespace Tally.Props.C07
open Tally Tally.Registry

/-- the two start states -/
def Start (s0 : State) : Prop := s0 = initRoot ∨ s0 = init

theorem inv_reach {s0 s : State} {es : List Ev} (h0 : Start s0) (hr : run s0 es = some s) : Inv s := by
  rcases h0 with rfl | rfl
  · exact inv_run inv_initRoot hr
  · exact inv_run inv_init hr

/-! ## T1 — every token ever issued is in exactly one place -/

/-- **token conservation**: in every reachable state the tokens delivered, still in a cell, held pending
by a visiting thread, or dropped have pairwise distinct ids, all below `nextToken`, and there are exactly
`nextToken` of them: every token ever issued is in exactly one place — nothing is delivered twice,
nothing vanishes. -/
theorem token_conservation {s0 s : State} {es : List Ev} (h0 : Start s0) (hr : run s0 es = some s) :
    ((s.delivered ++ allCells s ++ allPending s ++ s.dropped).map (·.id)).Nodup
    ∧ (∀ tok ∈ s.delivered ++ allCells s ++ allPending s ++ s.dropped, tok.id < s.nextToken)
    ∧ (s.delivered ++ allCells s ++ allPending s ++ s.dropped).length = s.nextToken := by
  have hp := (inv_reach h0 hr).ids_perm
  refine ⟨hp.nodup_iff.mpr List.nodup_range, ?_, ?_⟩
  · intro tok hm
    have : tok.id ∈ (allTokens s).map (·.id) := List.mem_map_of_mem hm
    exact List.mem_range.mp (hp.mem_iff.mp this)
  · have := hp.length_eq
    rw [List.length_map, List.length_range] at this
    exact this

/-- a token, once issued, stays one of the accounted tokens for ever (as the very same token: same
scope, same `pre` stamp) -/
theorem token_never_vanishes {s0 s s' : State} {es es' : List Ev} (h0 : Start s0) (hr : run s0 es = some s)
    (hr' : run s es' = some s') :
    ∀ tok ∈ s.delivered ++ allCells s ++ allPending s ++ s.dropped,
      tok ∈ s'.delivered ++ allCells s' ++ allPending s' ++ s'.dropped :=
  fun _ hm => mem_allTokens_run (inv_reach h0 hr) hr' hm

/-! ## T2 — what was recorded before Close is never cleared away -/

/-- **no `pre` token is ever dropped**: a token recorded before its scope's Close never ends up among the
tokens that can no longer be delivered. -/
theorem no_pre_token_dropped {s0 s : State} {es : List Ev} (h0 : Start s0) (hr : run s0 es = some s) :
    ∀ tok ∈ s.dropped, tok.pre = false :=
  (inv_reach h0 hr).static.droppedNoPre

/-! ## T3 — the final report -/

/-- **final report**: once scope `sid` has been cleared and no thread still holds a pending delta of it,
every token ever recorded on `sid` before its Close is in `delivered` — and exactly once. -/
theorem closed_scope_final_report {s0 s : State} {es : List Ev} (h0 : Start s0) (hr : run s0 es = some s)
    (sid : Nat) (x : ScopeS) (hx : scopeOf s sid = some x) (hcl : x.cleared = true)
    (hp : ∀ tok ∈ allPending s, tok.scope ≠ sid) :
    ∀ tok ∈ s.delivered ++ allCells s ++ allPending s ++ s.dropped,
      tok.scope = sid → tok.pre = true → tok ∈ s.delivered ∧ (s.delivered.map (·.id)).count tok.id = 1 := by
  have h := inv_reach h0 hr
  intro tok hm hsc hpre
  have hmd : tok ∈ s.delivered := h.final_report hx hcl hp hm hsc hpre
  refine ⟨hmd, ?_⟩
  have hnd := (token_conservation h0 hr).1
  have h1 : 1 ≤ (s.delivered.map (·.id)).count tok.id :=
    List.one_le_count_iff.mpr (List.mem_map_of_mem hmd)
  have h2 := List.nodup_iff_count.mp hnd tok.id
  simp only [List.map_append, List.count_append] at h2
  omega

/-- the same with the simpler hypothesis "no visit in flight at all" -/
theorem closed_scope_final_report' {s0 s : State} {es : List Ev} (h0 : Start s0) (hr : run s0 es = some s)
    (sid : Nat) (x : ScopeS) (hx : scopeOf s sid = some x) (hcl : x.cleared = true)
    (hp : allPending s = []) :
    ∀ tok ∈ s.delivered ++ allCells s ++ allPending s ++ s.dropped,
      tok.scope = sid → tok.pre = true → tok ∈ s.delivered ∧ (s.delivered.map (·.id)).count tok.id = 1 :=
  closed_scope_final_report h0 hr sid x hx hcl (by rw [hp]; intro _ hm; cases hm)

/-- a cleared scope is closed, and its cell is empty (what is recorded on it afterwards is `pre = false`
and goes to `dropped`) -/
theorem cleared_is_closed {s0 s : State} {es : List Ev} (h0 : Start s0) (hr : run s0 es = some s)
    (sid : Nat) (x : ScopeS) (hx : scopeOf s sid = some x) (hcl : x.cleared = true) :
    x.closed = true ∧ x.cell = [] :=
  (inv_reach h0 hr).static.clearedOk sid x hx hcl

/-- **only then is the scope dropped**: a thread that is past the swap of a visit of `sid` which it
entered having read the closed flag as `true` (pcs `passDeliver`/`passAfter` with `closed = true`,
`passUnlocked`, `passRelock`, `passClear`, `obtDeliver` … `obtClear` — the only threads that ever
unregister or clear `sid`, besides the write-locked D4c step that reports and clears at once) sees a closed
scope whose cell holds no `pre` token any more. -/
theorem drop_only_after_final_visit {s0 s : State} {es : List Ev} (h0 : Start s0) (hr : run s0 es = some s)
    (t sid : Nat) (hsc : pcScope (pcOf s t) = some sid) (hc : pcClosed (pcOf s t) = true)
    (hw : pcSwapped (pcOf s t) = true) :
    ∃ x, scopeOf s sid = some x ∧ x.closed = true ∧ ∀ tok ∈ x.cell, tok.pre = false := by
  obtain ⟨x, hx, h1⟩ := (inv_reach h0 hr).pcInv t sid hsc
  exact ⟨x, hx, (h1 hc).1, (h1 hc).2 hw⟩

/-! ## T4 — closing harms no other scope -/

/-- **a live scope stays registered** under its identity, whatever other threads close, re-acquire or
report -/
theorem close_harms_no_other {s0 s : State} {es : List Ev} (h0 : Start s0) (hr : run s0 es = some s)
    (sid : Nat) (x : ScopeS) (hx : scopeOf s sid = some x) (hlive : x.closed = false) :
    lookup s x.ident = some sid :=
  (inv_reach h0 hr).static.liveReg sid x hx hlive

/-- every result of `obtain` is a scope that exists and, as long as it is not closed, is the one the map
holds for its identity -/
theorem live_stays_registered {s0 s : State} {es : List Ev} (h0 : Start s0) (hr : run s0 es = some s) :
    ∀ t sid, (t, sid) ∈ s.handedOut →
      ∃ x, scopeOf s sid = some x ∧ (x.closed = false → lookup s x.ident = some sid) := by
  intro t sid hm
  have h := inv_reach h0 hr
  have hlt := h.static.handed t sid hm
  refine ⟨s.scopes[sid], by simp [scopeOf, hlt], fun hl => ?_⟩
  exact h.static.liveReg sid _ (by simp [hlt]) hl

/-- two live scopes of the same identity are the same scope -/
theorem one_live_scope_per_identity {s0 s : State} {es : List Ev} (h0 : Start s0) (hr : run s0 es = some s)
    (a b : Nat) (x y : ScopeS) (hx : scopeOf s a = some x) (hy : scopeOf s b = some y)
    (hxl : x.closed = false) (hyl : y.closed = false) (hid : x.ident = y.ident) : a = b := by
  have h1 := close_harms_no_other h0 hr a x hx hxl
  have h2 := close_harms_no_other h0 hr b y hy hyl
  rw [hid, h2] at h1
  exact (Option.some.inj h1).symm

/-- `Close` touches nothing but the closed flag of its own scope -/
theorem close_touches_only_its_flag {s s' : State} {sid : Nat} (hs : step s (.close sid) = some s') :
    ∃ x, scopeOf s sid = some x ∧ s' = setScope s sid { x with closed := true } := by
  simp only [step] at hs
  split at hs
  · cases hs
  · next x hx => exact ⟨x, hx, (Option.some.inj hs).symm⟩

/-- **what obtain returns**: whenever a thread arrives at `obtDone i sid` (the return of `Subscope` for
identity `i`), `sid` is a live scope of identity `i`, it is what the map holds for `i`, and it is recorded
as handed out -/
theorem obtain_returns_live_registered {s0 s s' : State} {es : List Ev} (h0 : Start s0) (hr : run s0 es = some s)
    {e : Ev} {t i sid : Nat} (hs : step s e = some s')
    (hbefore : pcOf s t ≠ .obtDone i sid) (hafter : pcOf s' t = .obtDone i sid) :
    ∃ x, scopeOf s' sid = some x ∧ x.closed = false ∧ x.ident = i ∧ lookup s' i = some sid
      ∧ s'.handedOut = (t, sid) :: s.handedOut := by
  rcases step_to_obtDone hs hafter with hh | ⟨c, rfl, hpc⟩
  · exact absurd hh hbefore
  · exact obtain_returns (inv_reach h0 hr) hs hpc hafter

/-! ## T5 — a scope obtained after a Close for the same identity is fully functional -/

/-- **the re-acquired scope is functional**: let an earlier scope `sid` of identity `i` be closed, and let
`obtain` for `i` then return `sid'`.  Then `sid'` is another scope, and in every later state in which
`sid'` is still live: it is what the map holds for `i` (T4); an increment on it succeeds, mints a `pre`
token into its cell; and that token is accounted for ever after, is never dropped (T2), and is in
`delivered` as soon as `sid'` has been cleared with no delta of it pending (T3). -/
theorem reacquired_scope_functional {s0 s s1 : State} {es : List Ev} (h0 : Start s0) (hr : run s0 es = some s)
    {sid i : Nat} {x : ScopeS} (hx : scopeOf s sid = some x) (hxc : x.closed = true) (_hxi : x.ident = i)
    {e : Ev} {t sid' : Nat} (hs : step s e = some s1)
    (hbefore : pcOf s t ≠ .obtDone i sid') (hafter : pcOf s1 t = .obtDone i sid') :
    sid' ≠ sid ∧
    ∀ (es2 : List Ev) (s2 : State), run s1 es2 = some s2 →
      ∀ y, scopeOf s2 sid' = some y → y.closed = false →
        lookup s2 i = some sid' ∧
        ∃ s3, step s2 (.record sid') = some s3 ∧
          ({ id := s2.nextToken, scope := sid', pre := true } : Token) ∈ allCells s3 ∧
          ∀ (es4 : List Ev) (s4 : State), run s3 es4 = some s4 →
            ({ id := s2.nextToken, scope := sid', pre := true } : Token)
                ∈ s4.delivered ++ allCells s4 ++ allPending s4 ++ s4.dropped
            ∧ ({ id := s2.nextToken, scope := sid', pre := true } : Token) ∉ s4.dropped
            ∧ (∀ y4, scopeOf s4 sid' = some y4 → y4.cleared = true →
                (∀ tk ∈ allPending s4, tk.scope ≠ sid') →
                ({ id := s2.nextToken, scope := sid', pre := true } : Token) ∈ s4.delivered) := by
  have h := inv_reach h0 hr
  have p1 := pres_step h hs
  obtain ⟨x1, hx1, hx1c, hx1i, _, _⟩ := obtain_returns_live_registered h0 hr hs hbefore hafter
  refine ⟨?_, ?_⟩
  · intro e; subst e
    obtain ⟨x', hx', _, hc'⟩ := p1.2.2 sid' x hx
    rw [hx1] at hx'; cases hx'
    rw [(hc' hxc).1] at hx1c; cases hx1c
  · intro es2 s2 hr2 y hy hyl
    have p2 := pres_run p1.1 hr2
    have h2 := p2.1
    have hyi : y.ident = i := by
      obtain ⟨y', hy', hi', _⟩ := p2.2.2 sid' x1 hx1
      rw [hy] at hy'; cases hy'
      rw [hi', hx1i]
    have hy0 : s2.scopes[sid']? = some y := hy
    refine ⟨hyi ▸ h2.static.liveReg sid' y hy0 hyl, ?_⟩
    have hncl : y.cleared = false := by
      cases hc : y.cleared with
      | false => rfl
      | true => rw [(h2.static.clearedOk sid' y hy0 hc).1] at hyl; cases hyl
    have hs3 : step s2 (.record sid') = some
        { setScope s2 sid' { y with cell := { id := s2.nextToken, scope := sid', pre := true } :: y.cell }
          with nextToken := s2.nextToken + 1 } := by
      simp [step, hy, hncl, hyl]
    refine ⟨_, hs3, ?_, ?_⟩
    · apply mem_cells.mpr
      refine ⟨sid', { y with cell := { id := s2.nextToken, scope := sid', pre := true } :: y.cell }, ?_, ?_⟩
      · show (s2.scopes.set sid' _)[sid']? = _
        simp [scopeOf_lt hy]
      · exact List.mem_cons_self ..
    · intro es4 s4 hr4
      have h3 := inv_step h2 hs3
      have h4 := inv_run h3 hr4
      have hm3 : ({ id := s2.nextToken, scope := sid', pre := true } : Token) ∈ allTokens
          { setScope s2 sid' { y with cell := { id := s2.nextToken, scope := sid', pre := true } :: y.cell }
            with nextToken := s2.nextToken + 1 } := by
        simp only [allTokens, List.mem_append]
        left; left; right
        apply mem_cells.mpr
        refine ⟨sid', { y with cell := { id := s2.nextToken, scope := sid', pre := true } :: y.cell }, ?_, ?_⟩
        · show (s2.scopes.set sid' _)[sid']? = _
          simp [scopeOf_lt hy]
        · exact List.mem_cons_self ..
      have hm4 := mem_allTokens_run h3 hr4 hm3
      refine ⟨hm4, ?_, ?_⟩
      · intro hd
        have := h4.static.droppedNoPre _ hd
        cases this
      · intro y4 hy4 hcl4 hp4
        exact h4.final_report hy4 hcl4 hp4 hm4 rfl rfl

/-! ## T8 — closing twice is harmless -/

/-- `Close` on a closed scope is a no-op -/
theorem double_close_noop {s : State} {sid : Nat} {x : ScopeS} (hx : scopeOf s sid = some x)
    (hc : x.closed = true) : step s (.close sid) = some s := by
  simp only [step, hx]
  have : ({ x with closed := true } : ScopeS) = x := by cases x; simp_all
  rw [this]
  have : s.scopes.set sid x = s.scopes := by
    apply List.ext_getElem?
    intro i
    rw [List.getElem?_set]
    split
    · next he =>
      subst he
      have hx' : s.scopes[sid]? = some x := hx
      simp only [scopeOf_lt hx, if_true]
      exact hx'.symm
    · rfl
  simp [setScope, this]

/-! ## T6 — the next report pass collects a closed scope -/

/-- **the next pass collects**: from any reachable state in which every thread is idle (so nobody holds the
read lock) and scope `sid` is closed and registered under `k`, the explicit event list `soloPass s t` —
thread `t` takes the read lock, visits every registered key of the shard (read the closed flag, swap,
deliver if something was swapped out, and for a closed scope unlock / remove by identity / relock / clear),
ends the pass — is accepted by the model, and afterwards: everybody is idle again, `sid` is cleared and
unregistered, and every token that was in its cell is in `delivered`.  (Whether `sid` had already been
cleared is immaterial, so that hypothesis is not needed.) -/
theorem next_pass_collects {s0 s : State} {es : List Ev} (h0 : Start s0) (hr : run s0 es = some s)
    (hidle : ∀ t, pcOf s t = .idle) (hrd : s.readers = []) (t : Nat)
    {k sid : Nat} {x : ScopeS} (hl : lookup s k = some sid) (hx : scopeOf s sid = some x)
    (hc : x.closed = true) :
    ∃ s', run s (soloPass s t) = some s' ∧ (∀ t', pcOf s' t' = .idle) ∧ s'.readers = []
      ∧ (∃ x', scopeOf s' sid = some x' ∧ x'.cleared = true)
      ∧ (∀ k', (k', sid) ∉ s'.reg) ∧ lookup s' k ≠ some sid
      ∧ (∀ tok ∈ x.cell, tok ∈ s'.delivered) := by
  obtain ⟨s', hrun, hi, hr', hcl, hnr, hd⟩ := soloPass_collects (inv_reach h0 hr) hidle hrd t hl hx hc
  exact ⟨s', hrun, hi, hr', hcl, hnr, fun hl' => hnr k (mem_of_lookup hl'), hd⟩

/-! ## T7 — no deadlock (and no panic: every step of the model is total on reachable states) -/

/-- **no deadlock**: in every reachable state in which some thread is in the middle of an operation, some
such thread has an enabled step.  (The only blocking steps are the write-lock acquisitions, which need
`readers = []`, and the clear steps, which need the scope's metric lock free: a thread inside a visit can
always move, then a thread holding the read lock can, and if nobody holds it the write-lockers can.  A pass
that has no unvisited key left ends: `passEndHint` is always enabled at `passIter`.) -/
theorem no_deadlock {s0 s : State} {es : List Ev} (h0 : Start s0) (hr : run s0 es = some s)
    (hbusy : ∃ t, pcOf s t ≠ .idle) :
    ∃ t, pcOf s t ≠ .idle ∧
      ((∃ c, (step s (.step t c)).isSome = true) ∨ (step s (.passEndHint t)).isSome = true) :=
  (inv_reach h0 hr).progress hbusy

/-- the only things a busy thread can be blocked on are the shard's write lock (while readers hold the read
lock) and the metric lock of a scope somebody is visiting (for the clear) — never a missing scope -/
theorem blocked_only_on_locks {s0 s : State} {es : List Ev} (h0 : Start s0) (hr : run s0 es = some s)
    {t c : Nat} (hne : pcOf s t ≠ .idle) (hni : ∀ v, pcOf s t ≠ .passIter v)
    (hb : step s (.step t c) = none) :
    (wantsWrite (pcOf s t) = true ∧ s.readers ≠ [])
    ∨ ∃ sid, visiting s sid = true ∧
        ((∃ v k, pcOf s t = .passClear v k sid) ∨ (∃ i, pcOf s t = .obtClear i sid)
          ∨ (∃ i, pcOf s t = .obtWantLock i ∧ lookup s i = some sid)) :=
  (inv_reach h0 hr).blocked_only_on_locks hne hni hb

/-- **no panic**: no thread and no map entry ever refers to a scope that does not exist (the model's
`none` results for a missing scope — a nil dereference in Go — are unreachable) -/
theorem no_dangling_scope {s0 s : State} {es : List Ev} (h0 : Start s0) (hr : run s0 es = some s) :
    (∀ t sid, pcScope (pcOf s t) = some sid → (scopeOf s sid).isSome = true)
    ∧ (∀ k sid, lookup s k = some sid → (scopeOf s sid).isSome = true)
    ∧ (∀ t sid, (t, sid) ∈ s.handedOut → (scopeOf s sid).isSome = true) := by
  have h := inv_reach h0 hr
  refine ⟨?_, ?_, ?_⟩
  · intro t sid hs
    obtain ⟨x, hx, _⟩ := h.pcInv t sid hs
    simp [hx]
  · intro k sid hl
    obtain ⟨x, hx, _⟩ := h.static.regIdent k sid (mem_of_lookup hl)
    have hx' : scopeOf s sid = some x := hx
    simp [hx']
  · intro t sid hm
    have := h.static.handed t sid hm
    simp [scopeOf, this]

/-- a thread that is inside a visit (holds a scope's metric lock) is never blocked -/
theorem visitor_never_blocked {s0 s : State} {es : List Ev} (h0 : Start s0) (hr : run s0 es = some s)
    {t sid : Nat} (hv : visits (pcOf s t) sid = true) : (step s (.step t 0)).isSome = true :=
  (inv_reach h0 hr).visitor_enabled hv

/-- the read lock is held exactly by the threads whose pc says so -/
theorem readers_are_the_lock_holders {s0 s : State} {es : List Ev} (h0 : Start s0) (hr : run s0 es = some s)
    (t : Nat) : t ∈ s.readers ↔ holdsR (pcOf s t) = true :=
  (inv_reach h0 hr).readersOk t

/-! ## what the pinned code got wrong: regression witnesses -/

/-- the interleaving for the removal race: thread 3 is about to take the write lock for identity 7;
thread 1 creates scope 1 for identity 7, it is closed; pass 2 visits it and is about to remove it; thread 3
(D4c) reports and drops scope 1 and creates scope 2; a value is recorded on scope 2; pass 2 removes. -/
def removalRace : List Ev :=
  [.obtain 3 7, .step 3 0, .obtain 1 7, .step 1 0, .step 1 0, .close 1, .passBegin 2, .step 2 7,
   .step 2 0, .step 2 0, .step 3 0, .record 2, .step 2 0]

set_option maxRecDepth 100000 in
/-- pinned removal (delete by key whatever it points to): the fresh live scope 2 of identity 7 loses its
registration while it is not closed, with a `pre` token in its cell that no pass can ever reach -/
theorem legacy_remove_by_key_counterexample :
    (Legacy.run initRoot removalRace).map
        (fun s => (lookup s 7, s.scopes[2]?.map (·.closed), s.scopes[2]?.map (·.cell)))
      = some (none, some false, some [{ id := 0, scope := 2, pre := true }]) := by
  decide

set_option maxRecDepth 100000 in
/-- the repaired removal (by identity) on the same interleaving: scope 2 stays registered -/
example : (run initRoot removalRace).map
        (fun s => (lookup s 7, s.scopes[2]?.map (·.closed), s.scopes[2]?.map (·.cell)))
      = some (some 2, some false, some [{ id := 0, scope := 2, pre := true }]) := by
  decide

/-- the interleaving for the flag race: pass 2 reports scope 1 (empty), then a value is recorded on scope 1
and scope 1 is closed, then the pass goes on -/
def flagRace : List Ev :=
  [.obtain 1 7, .step 1 0, .step 1 0, .passBegin 2, .step 2 7, .step 2 0, .record 1, .close 1,
   .step 2 0, .step 2 0, .step 2 0, .step 2 0]

set_option maxRecDepth 100000 in
/-- pinned pass (closed flag read after the report): a token recorded before Close is cleared away -/
theorem legacy_closed_read_after_report_counterexample :
    (Legacy.run initRoot flagRace).map (fun s => s.dropped) = some [{ id := 0, scope := 1, pre := true }] := by
  decide

set_option maxRecDepth 100000 in
/-- the repaired pass on the same interleaving drops nothing: the token waits in the cell for the next pass -/
example : (run initRoot flagRace).map (fun s => (s.dropped, allCells s))
    = some ([], [{ id := 0, scope := 1, pre := true }]) := by
  decide

/-! ## non-vacuity -/

/-- obtain (thread 1, identity 7) → scope 1; record; close; a report pass (thread 2) interleaved with a
re-acquire of identity 7 (thread 3) that finds the closed scope still registered; the re-acquire creates
scope 2; record on it; a second Close of scope 1 -/
def nvRun : List Ev :=
  [.obtain 1 7, .step 1 0, .step 1 0, .step 1 0, .record 1, .close 1,
   .passBegin 2, .step 2 7, .step 2 0,
   .obtain 3 7, .step 3 0, .step 3 0,
   .step 2 0, .step 2 0, .step 3 0, .step 2 0, .step 3 0, .step 2 0, .step 2 0,
   .step 3 0, .step 3 0, .step 3 0, .passEndHint 2, .step 3 0, .record 2, .step 3 0, .close 1]

def nvFinal : State :=
  { scopes := [{ ident := 0, closed := false, cleared := false, cell := [] },
               { ident := 7, closed := true, cleared := true, cell := [] },
               { ident := 7, closed := false, cleared := false, cell := [{ id := 1, scope := 2, pre := true }] }],
    reg := [(7, 2), (0, 0)], readers := [],
    pcs := [(3, .idle), (2, .idle), (1, .idle)],
    delivered := [{ id := 0, scope := 1, pre := true }], dropped := [], nextToken := 2,
    handedOut := [(3, 2), (1, 1)] }

set_option maxRecDepth 100000 in
theorem nvRun_ok : run initRoot nvRun = some nvFinal := by decide

/-- T3 applies to the run: scope 1 is cleared, nothing is pending, and its `pre` token 0 was delivered once -/
example : ({ id := 0, scope := 1, pre := true } : Token) ∈ nvFinal.delivered ∧
    (nvFinal.delivered.map (·.id)).count 0 = 1 :=
  closed_scope_final_report' (Or.inl rfl) nvRun_ok 1 _ rfl rfl rfl
    { id := 0, scope := 1, pre := true } (by decide) rfl rfl

/-- T4 applies: scope 2 was handed out, is live, and is registered -/
example : lookup nvFinal 7 = some 2 :=
  close_harms_no_other (Or.inl rfl) nvRun_ok 2 _ rfl rfl

/-- the state just before the re-acquire returns (after 23 events) -/
def nvPre : State := (run initRoot (nvRun.take 23)).get (by decide)
theorem nvPre_ok : run initRoot (nvRun.take 23) = some nvPre := by simp [nvPre]

set_option maxRecDepth 100000 in
/-- T5 applies: scope 1 of identity 7 is closed, and thread 3's next step returns scope 2 for identity 7 -/
example : ∃ s1, step nvPre (.step 3 0) = some s1 ∧ 2 ≠ 1 :=
  ⟨(step nvPre (.step 3 0)).get (by decide), by simp,
    (reacquired_scope_functional (Or.inl rfl) nvPre_ok (sid := 1) (i := 7)
      (x := { ident := 7, closed := true, cleared := true, cell := [] }) (by decide) rfl rfl
      (e := .step 3 0) (t := 3) (sid' := 2) (s1 := (step nvPre (.step 3 0)).get (by decide)) (by simp)
      (by decide) (by decide)).1⟩

set_option maxRecDepth 100000 in
/-- T7's hypothesis holds in the middle of the run (after 14 events both the pass and the re-acquire are in
flight, thread 2 waits for the write lock while thread 3 holds the read lock) -/
example : ∃ t, pcOf ((run initRoot (nvRun.take 14)).get (by decide)) t ≠ .idle := ⟨2, by decide⟩

set_option maxRecDepth 100000 in
/-- T6 applies after the first six events (scope 1 closed, still registered, everybody idle), and the
explicit pass it provides is the expected one -/
example : soloPass ((run initRoot (nvRun.take 6)).get (by decide)) 2
    = [.passBegin 2, .step 2 7, .step 2 0, .step 2 0, .step 2 0, .step 2 0, .step 2 0, .step 2 0,
       .step 2 0, .step 2 0, .step 2 0, .passEndHint 2] := by decide

set_option maxRecDepth 100000 in
example : ∃ s', run ((run initRoot (nvRun.take 6)).get (by decide))
      (soloPass ((run initRoot (nvRun.take 6)).get (by decide)) 2) = some s'
    ∧ ({ id := 0, scope := 1, pre := true } : Token) ∈ s'.delivered := by
  obtain ⟨s', h1, _, _, _, _, _, h2⟩ := next_pass_collects (s := (run initRoot (nvRun.take 6)).get (by decide))
    (es := nvRun.take 6) (Or.inl rfl) (by simp) (all_idle_of_pcs (by decide)) (by decide) 2 (k := 7) (sid := 1)
    (x := { ident := 7, closed := true, cleared := false, cell := [{ id := 0, scope := 1, pre := true }] })
    (by decide) (by decide) rfl
  exact ⟨s', h1, h2 _ (List.mem_cons_self ..)⟩

end Tally.Props.C07
