import TallyProofs.Lemmas.RegistryLemmas
import TallyProofs.Lemmas.RegistryPass
import Tally.Model.RegistryLegacy
/-!
# C07 — closing a subscope: final report exactly once, then dropped; no other scope is harmed

"Everything recorded on a subscope before its Close was called is delivered exactly once - by the next
report pass or at the moment the same scope is requested again - and only then is the scope dropped.
Closing a scope never affects any other scope: in particular a scope obtained afterwards for the same
prefix and tags is fully functional, stays registered, and everything recorded on it is delivered.
Scopes derived from a closed scope are inert, closing twice is harmless, and none of this can panic or
deadlock."

The model (`Tally.Registry`) is one shard of the repaired registry with any number of threads and any
interleaving of their atomic steps, parameterised by the sanitizer on keys `san` (a scope is registered under
its identity = the sanitized key, and under the raw spellings callers used, as aliases).  All theorems hold for
EVERY idempotent `san` (`hsan`) and quantify over EVERY event list accepted by the model, from either start state
(`initRoot san`: the shard as `newScopeRegistry` leaves it; `init`: the empty shard).
The invariant and its preservation are in `TallyProofs/Lemmas/RegistryLemmas.lean`.
-/
namespace Tally.Props.C07
open Tally Tally.Registry

variable {san : Nat → Nat}

/-- the two start states (for the sanitizer `san`) -/
def Start (san : Nat → Nat) (s0 : State) : Prop := s0 = initRoot san ∨ s0 = init

theorem inv_reach {s0 s : State} {es : List Ev} (hsan : ∀ k, san (san k) = san k) (h0 : Start san s0)
    (hr : run san s0 es = some s) : Inv san s := by
  rcases h0 with rfl | rfl
  · exact inv_run (inv_initRoot hsan) hr
  · exact inv_run (inv_init hsan) hr

theorem doneOk_reach {s0 s : State} {es : List Ev} (hsan : ∀ k, san (san k) = san k) (h0 : Start san s0)
    (hr : run san s0 es = some s) : DoneOk san s := by
  rcases h0 with rfl | rfl
  · exact doneOk_run (inv_initRoot hsan) (doneOk_of_no_pcs rfl) hr
  · exact doneOk_run (inv_init hsan) (doneOk_of_no_pcs rfl) hr

/-! ## T1 — every token ever issued is in exactly one place -/

/-- **token conservation**: in every reachable state the tokens delivered, still in a cell, held pending
by a visiting thread, or dropped have pairwise distinct ids, all below `nextToken`, and there are exactly
`nextToken` of them: every token ever issued is in exactly one place — nothing is delivered twice,
nothing vanishes. -/
theorem token_conservation {s0 s : State} {es : List Ev} (hsan : ∀ k, san (san k) = san k) (h0 : Start san s0)
    (hr : run san s0 es = some s) :
    ((s.delivered ++ allCells s ++ allPending s ++ s.dropped).map (·.id)).Nodup
    ∧ (∀ tok ∈ s.delivered ++ allCells s ++ allPending s ++ s.dropped, tok.id < s.nextToken)
    ∧ (s.delivered ++ allCells s ++ allPending s ++ s.dropped).length = s.nextToken := by
  have hp := (inv_reach hsan h0 hr).ids_perm
  refine ⟨hp.nodup_iff.mpr List.nodup_range, ?_, ?_⟩
  · intro tok hm
    have : tok.id ∈ (allTokens s).map (·.id) := List.mem_map_of_mem hm
    exact List.mem_range.mp (hp.mem_iff.mp this)
  · have := hp.length_eq
    rw [List.length_map, List.length_range] at this
    exact this

/-- a token, once issued, stays one of the accounted tokens for ever (as the very same token: same
scope, same `pre` stamp) -/
theorem token_never_vanishes {s0 s s' : State} {es es' : List Ev} (hsan : ∀ k, san (san k) = san k) (h0 : Start san s0)
    (hr : run san s0 es = some s)
    (hr' : run san s es' = some s') :
    ∀ tok ∈ s.delivered ++ allCells s ++ allPending s ++ s.dropped,
      tok ∈ s'.delivered ++ allCells s' ++ allPending s' ++ s'.dropped :=
  fun _ hm => mem_allTokens_run (inv_reach hsan h0 hr) hr' hm

/-! ## T2 — what was recorded before Close is never cleared away -/

/-- **no `pre` token is ever dropped**: a token recorded before its scope's Close never ends up among the
tokens that can no longer be delivered. -/
theorem no_pre_token_dropped {s0 s : State} {es : List Ev} (hsan : ∀ k, san (san k) = san k) (h0 : Start san s0)
    (hr : run san s0 es = some s) :
    ∀ tok ∈ s.dropped, tok.pre = false :=
  (inv_reach hsan h0 hr).static.droppedNoPre

/-! ## T3 — the final report -/

/-- **final report**: once scope `sid` has been cleared and no thread still holds a pending delta of it,
every token ever recorded on `sid` before its Close is in `delivered` — and exactly once. -/
theorem closed_scope_final_report {s0 s : State} {es : List Ev} (hsan : ∀ k, san (san k) = san k) (h0 : Start san s0)
    (hr : run san s0 es = some s)
    (sid : Nat) (x : ScopeS) (hx : scopeOf s sid = some x) (hcl : x.cleared = true)
    (hp : ∀ tok ∈ allPending s, tok.scope ≠ sid) :
    ∀ tok ∈ s.delivered ++ allCells s ++ allPending s ++ s.dropped,
      tok.scope = sid → tok.pre = true → tok ∈ s.delivered ∧ (s.delivered.map (·.id)).count tok.id = 1 := by
  have h := inv_reach hsan h0 hr
  intro tok hm hsc hpre
  have hmd : tok ∈ s.delivered := h.final_report hx hcl hp hm hsc hpre
  refine ⟨hmd, ?_⟩
  have hnd := (token_conservation hsan h0 hr).1
  have h1 : 1 ≤ (s.delivered.map (·.id)).count tok.id :=
    List.one_le_count_iff.mpr (List.mem_map_of_mem hmd)
  have h2 := List.nodup_iff_count.mp hnd tok.id
  simp only [List.map_append, List.count_append] at h2
  omega

/-- the same with the simpler hypothesis "no visit in flight at all" -/
theorem closed_scope_final_report' {s0 s : State} {es : List Ev} (hsan : ∀ k, san (san k) = san k) (h0 : Start san s0)
    (hr : run san s0 es = some s)
    (sid : Nat) (x : ScopeS) (hx : scopeOf s sid = some x) (hcl : x.cleared = true)
    (hp : allPending s = []) :
    ∀ tok ∈ s.delivered ++ allCells s ++ allPending s ++ s.dropped,
      tok.scope = sid → tok.pre = true → tok ∈ s.delivered ∧ (s.delivered.map (·.id)).count tok.id = 1 :=
  closed_scope_final_report hsan h0 hr sid x hx hcl (by rw [hp]; intro _ hm; cases hm)

/-- a cleared scope is closed, and its cell is empty (what is recorded on it afterwards is `pre = false`
and goes to `dropped`) -/
theorem cleared_is_closed {s0 s : State} {es : List Ev} (hsan : ∀ k, san (san k) = san k) (h0 : Start san s0)
    (hr : run san s0 es = some s)
    (sid : Nat) (x : ScopeS) (hx : scopeOf s sid = some x) (hcl : x.cleared = true) :
    x.closed = true ∧ x.cell = [] :=
  (inv_reach hsan h0 hr).static.clearedOk sid x hx hcl

/-- **only then is the scope dropped**: a thread that is past the swap of a visit of `sid` which it
entered having read the closed flag as `true` (pcs `passDeliver`/`passAfter` with `closed = true`,
`passUnlocked`, `passRelock`, `passClear`, `obtDeliver` … `obtClear` — the only threads that ever
unregister or clear `sid`, besides the write-locked D4c step that reports and clears at once) sees a closed
scope whose cell holds no `pre` token any more. -/
theorem drop_only_after_final_visit {s0 s : State} {es : List Ev} (hsan : ∀ k, san (san k) = san k) (h0 : Start san s0)
    (hr : run san s0 es = some s)
    (t sid : Nat) (hsc : pcScope (pcOf s t) = some sid) (hc : pcClosed (pcOf s t) = true)
    (hw : pcSwapped (pcOf s t) = true) :
    ∃ x, scopeOf s sid = some x ∧ x.closed = true ∧ ∀ tok ∈ x.cell, tok.pre = false := by
  obtain ⟨x, hx, h1⟩ := (inv_reach hsan h0 hr).pcInv t sid hsc
  exact ⟨x, hx, (h1 hc).1, (h1 hc).2 hw⟩

/-! ## T4 — closing harms no other scope -/

/-- **a live scope stays registered** under its identity (the sanitized key), whatever other threads close,
re-acquire or report -/
theorem close_harms_no_other {s0 s : State} {es : List Ev} (hsan : ∀ k, san (san k) = san k) (h0 : Start san s0)
    (hr : run san s0 es = some s)
    (sid : Nat) (x : ScopeS) (hx : scopeOf s sid = some x) (hlive : x.closed = false) :
    lookup s x.ident = some sid :=
  (inv_reach hsan h0 hr).static.liveReg sid x hx hlive

/-- **every registry entry points to a scope of the sanitized key**: in every reachable state an entry
`k ↦ sid` of the map refers to an existing scope whose identity is `san k` — the entry is either the identity key
itself (`k = san k`) or a raw alias of it -/
theorem alias_points_to_identity {s0 s : State} {es : List Ev} (hsan : ∀ k, san (san k) = san k) (h0 : Start san s0)
    (hr : run san s0 es = some s) :
    ∀ k sid, (k, sid) ∈ s.reg → ∃ x, scopeOf s sid = some x ∧ x.ident = san k :=
  (inv_reach hsan h0 hr).static.regIdent

/-- the same for the map as a function: what `lookup` returns for `k` is a scope of identity `san k`; and no key
is registered twice -/
theorem lookup_points_to_identity {s0 s : State} {es : List Ev} (hsan : ∀ k, san (san k) = san k) (h0 : Start san s0)
    (hr : run san s0 es = some s) :
    (∀ k sid, lookup s k = some sid → ∃ x, scopeOf s sid = some x ∧ x.ident = san k)
    ∧ (s.reg.map (·.1)).Nodup :=
  ⟨fun k sid hl => (inv_reach hsan h0 hr).static.regIdent k sid (mem_of_lookup hl),
   (inv_reach hsan h0 hr).static.regNodup⟩

/-- every result of `obtain` is a scope that exists and, as long as it is not closed, is the one the map
holds for its identity (the sanitized key) -/
theorem live_stays_registered {s0 s : State} {es : List Ev} (hsan : ∀ k, san (san k) = san k) (h0 : Start san s0)
    (hr : run san s0 es = some s) :
    ∀ t sid, (t, sid) ∈ s.handedOut →
      ∃ x, scopeOf s sid = some x ∧ (x.closed = false → lookup s x.ident = some sid) := by
  intro t sid hm
  have h := inv_reach hsan h0 hr
  have hlt := h.static.handed t sid hm
  refine ⟨s.scopes[sid], by simp [scopeOf, hlt], fun hl => ?_⟩
  exact h.static.liveReg sid _ (by simp [hlt]) hl

/-- two live scopes of the same identity are the same scope -/
theorem one_live_scope_per_identity {s0 s : State} {es : List Ev} (hsan : ∀ k, san (san k) = san k) (h0 : Start san s0)
    (hr : run san s0 es = some s)
    (a b : Nat) (x y : ScopeS) (hx : scopeOf s a = some x) (hy : scopeOf s b = some y)
    (hxl : x.closed = false) (hyl : y.closed = false) (hid : x.ident = y.ident) : a = b := by
  have h1 := close_harms_no_other hsan h0 hr a x hx hxl
  have h2 := close_harms_no_other hsan h0 hr b y hy hyl
  rw [hid, h2] at h1
  exact (Option.some.inj h1).symm

/-- `Close` touches nothing but the closed flag of its own scope -/
theorem close_touches_only_its_flag {s s' : State} {sid : Nat} (hs : step san s (.close sid) = some s') :
    ∃ x, scopeOf s sid = some x ∧ s' = setScope s sid { x with closed := true } := by
  simp only [step] at hs
  split at hs
  · cases hs
  · next x hx => exact ⟨x, hx, (Option.some.inj hs).symm⟩

/-- **what obtain returns**: whenever a thread arrives at `obtDone r sid` (the return of `Subscope` called with
the raw key `r`), `sid` is a live scope of identity `san r`, it is what the map holds for `san r`, and it is
recorded as handed out -/
theorem obtain_returns_live_registered {s0 s s' : State} {es : List Ev} (hsan : ∀ k, san (san k) = san k) (h0 : Start san s0)
    (hr : run san s0 es = some s)
    {e : Ev} {t i sid : Nat} (hs : step san s e = some s')
    (hbefore : pcOf s t ≠ .obtDone i sid) (hafter : pcOf s' t = .obtDone i sid) :
    ∃ x, scopeOf s' sid = some x ∧ x.closed = false ∧ x.ident = san i ∧ lookup s' (san i) = some sid
      ∧ s'.handedOut = (t, sid) :: s.handedOut := by
  rcases step_to_obtDone hs hafter with hh | ⟨c, rfl, hpc⟩
  · exact absurd hh hbefore
  · exact obtain_returns (inv_reach hsan h0 hr) hs hpc hafter

/-- **same identity, same live scope**: if two threads have returned from `Subscope` (`obtDone`) — called with
any raw spellings `r1`, `r2` of the same identity (`san r1 = san r2`) — and the scopes they returned are both
still live, they are the same scope -/
theorem obtain_same_identity_same_live_scope {s0 s : State} {es : List Ev} (hsan : ∀ k, san (san k) = san k)
    (h0 : Start san s0) (hr : run san s0 es = some s)
    {t1 t2 r1 r2 sid1 sid2 : Nat} (hd1 : pcOf s t1 = .obtDone r1 sid1) (hd2 : pcOf s t2 = .obtDone r2 sid2)
    (hsame : san r1 = san r2) {x1 x2 : ScopeS}
    (hx1 : scopeOf s sid1 = some x1) (hl1 : x1.closed = false)
    (hx2 : scopeOf s sid2 = some x2) (hl2 : x2.closed = false) : sid1 = sid2 := by
  have hd := doneOk_reach hsan h0 hr
  obtain ⟨y1, hy1, hi1⟩ := hd t1 r1 sid1 hd1
  obtain ⟨y2, hy2, hi2⟩ := hd t2 r2 sid2 hd2
  rw [hx1] at hy1; cases hy1
  rw [hx2] at hy2; cases hy2
  exact one_live_scope_per_identity hsan h0 hr sid1 sid2 x1 x2 hx1 hx2 hl1 hl2 (by rw [hi1, hi2, hsame])

/-- a thread that has returned from `Subscope(r)` holds a scope of identity `san r` -/
theorem returned_scope_has_sanitized_identity {s0 s : State} {es : List Ev} (hsan : ∀ k, san (san k) = san k)
    (h0 : Start san s0) (hr : run san s0 es = some s) {t r sid : Nat} (hd : pcOf s t = .obtDone r sid) :
    ∃ x, scopeOf s sid = some x ∧ x.ident = san r :=
  doneOk_reach hsan h0 hr t r sid hd

/-! ## T5 — a scope obtained after a Close for the same identity is fully functional -/

/-- **the re-acquired scope is functional**: let an earlier scope `sid` of identity `san i` be closed, and let
`obtain` for the raw key `i` then return `sid'`.  Then `sid'` is another scope, and in every later state in which
`sid'` is still live: it is what the map holds for `san i` (T4); an increment on it succeeds, mints a `pre`
token into its cell; and that token is accounted for ever after, is never dropped (T2), and is in
`delivered` as soon as `sid'` has been cleared with no delta of it pending (T3). -/
theorem reacquired_scope_functional {s0 s s1 : State} {es : List Ev} (hsan : ∀ k, san (san k) = san k) (h0 : Start san s0)
    (hr : run san s0 es = some s)
    {sid i : Nat} {x : ScopeS} (hx : scopeOf s sid = some x) (hxc : x.closed = true) (_hxi : x.ident = san i)
    {e : Ev} {t sid' : Nat} (hs : step san s e = some s1)
    (hbefore : pcOf s t ≠ .obtDone i sid') (hafter : pcOf s1 t = .obtDone i sid') :
    sid' ≠ sid ∧
    ∀ (es2 : List Ev) (s2 : State), run san s1 es2 = some s2 →
      ∀ y, scopeOf s2 sid' = some y → y.closed = false →
        lookup s2 (san i) = some sid' ∧
        ∃ s3, step san s2 (.record sid') = some s3 ∧
          ({ id := s2.nextToken, scope := sid', pre := true } : Token) ∈ allCells s3 ∧
          ∀ (es4 : List Ev) (s4 : State), run san s3 es4 = some s4 →
            ({ id := s2.nextToken, scope := sid', pre := true } : Token)
                ∈ s4.delivered ++ allCells s4 ++ allPending s4 ++ s4.dropped
            ∧ ({ id := s2.nextToken, scope := sid', pre := true } : Token) ∉ s4.dropped
            ∧ (∀ y4, scopeOf s4 sid' = some y4 → y4.cleared = true →
                (∀ tk ∈ allPending s4, tk.scope ≠ sid') →
                ({ id := s2.nextToken, scope := sid', pre := true } : Token) ∈ s4.delivered) := by
  have h := inv_reach hsan h0 hr
  have p1 := pres_step h hs
  obtain ⟨x1, hx1, hx1c, hx1i, _, _⟩ := obtain_returns_live_registered hsan h0 hr hs hbefore hafter
  refine ⟨?_, ?_⟩
  · intro e; subst e
    obtain ⟨x', hx', _, hc'⟩ := p1.2.2 sid' x hx
    rw [hx1] at hx'; cases hx'
    rw [(hc' hxc).1] at hx1c; cases hx1c
  · intro es2 s2 hr2 y hy hyl
    have p2 := pres_run p1.1 hr2
    have h2 := p2.1
    have hyi : y.ident = san i := by
      obtain ⟨y', hy', hi', _⟩ := p2.2.2 sid' x1 hx1
      rw [hy] at hy'; cases hy'
      rw [hi', hx1i]
    have hy0 : s2.scopes[sid']? = some y := hy
    refine ⟨hyi ▸ h2.static.liveReg sid' y hy0 hyl, ?_⟩
    have hncl : y.cleared = false := by
      cases hc : y.cleared with
      | false => rfl
      | true => rw [(h2.static.clearedOk sid' y hy0 hc).1] at hyl; cases hyl
    have hs3 : step san s2 (.record sid') = some
        { setScope s2 sid' { y with cell := { id := s2.nextToken, scope := sid', pre := true } :: y.cell }
          with nextToken := s2.nextToken + 1 } := by
      simp [step, hy, hncl, hyl]
    refine ⟨_, hs3, ?_, ?_⟩
    · apply mem_cells.mpr
      refine ⟨sid', { y with cell := { id := s2.nextToken, scope := sid', pre := true } :: y.cell }, ?_, ?_⟩
      · show (s2.scopes.set sid' _)[sid']? = _
        simp [scopeOf_lt hy]
      · exact List.mem_cons_self ..
    · intro es4 s4 hr4
      have h3 := inv_step h2 hs3
      have h4 := inv_run h3 hr4
      have hm3 : ({ id := s2.nextToken, scope := sid', pre := true } : Token) ∈ allTokens
          { setScope s2 sid' { y with cell := { id := s2.nextToken, scope := sid', pre := true } :: y.cell }
            with nextToken := s2.nextToken + 1 } := by
        simp only [allTokens, List.mem_append]
        left; left; right
        apply mem_cells.mpr
        refine ⟨sid', { y with cell := { id := s2.nextToken, scope := sid', pre := true } :: y.cell }, ?_, ?_⟩
        · show (s2.scopes.set sid' _)[sid']? = _
          simp [scopeOf_lt hy]
        · exact List.mem_cons_self ..
      have hm4 := mem_allTokens_run h3 hr4 hm3
      refine ⟨hm4, ?_, ?_⟩
      · intro hd
        have := h4.static.droppedNoPre _ hd
        cases this
      · intro y4 hy4 hcl4 hp4
        exact h4.final_report hy4 hcl4 hp4 hm4 rfl rfl

/-! ## T8 — closing twice is harmless -/

/-- `Close` on a closed scope is a no-op -/
theorem double_close_noop {s : State} {sid : Nat} {x : ScopeS} (hx : scopeOf s sid = some x)
    (hc : x.closed = true) : step san s (.close sid) = some s := by
  simp only [step, hx]
  have : ({ x with closed := true } : ScopeS) = x := by cases x; simp_all
  rw [this]
  have : s.scopes.set sid x = s.scopes := by
    apply List.ext_getElem?
    intro i
    rw [List.getElem?_set]
    split
    · next he =>
      subst he
      have hx' : s.scopes[sid]? = some x := hx
      simp only [scopeOf_lt hx, if_true]
      exact hx'.symm
    · rfl
  simp [setScope, this]

/-! ## T6 — the next report pass collects a closed scope -/

/-- **the next pass collects**: from any reachable state in which every thread is idle (so nobody holds the
read lock) and scope `sid` is closed and registered under `k`, the explicit event list `soloPass s t` —
thread `t` takes the read lock, visits every registered key of the shard (read the closed flag, swap,
deliver if something was swapped out, and for a closed scope unlock / remove by identity / relock / clear; a scope
registered under its identity and under raw aliases is visited once per key, each visit removing that key's
entry), ends the pass — is accepted by the model, and afterwards: everybody is idle again, `sid` is cleared and
unregistered under EVERY key, and every token that was in its cell is in `delivered`.  (Whether `sid` had already been
cleared is immaterial, so that hypothesis is not needed.) -/
theorem next_pass_collects {s0 s : State} {es : List Ev} (hsan : ∀ k, san (san k) = san k) (h0 : Start san s0)
    (hr : run san s0 es = some s)
    (hidle : ∀ t, pcOf s t = .idle) (hrd : s.readers = []) (t : Nat)
    {k sid : Nat} {x : ScopeS} (hl : lookup s k = some sid) (hx : scopeOf s sid = some x)
    (hc : x.closed = true) :
    ∃ s', run san s (soloPass san s t) = some s' ∧ (∀ t', pcOf s' t' = .idle) ∧ s'.readers = []
      ∧ (∃ x', scopeOf s' sid = some x' ∧ x'.cleared = true)
      ∧ (∀ k', (k', sid) ∉ s'.reg) ∧ lookup s' k ≠ some sid
      ∧ (∀ tok ∈ x.cell, tok ∈ s'.delivered) := by
  obtain ⟨s', hrun, hi, hr', hcl, hnr, hd⟩ := soloPass_collects (inv_reach hsan h0 hr) hidle hrd t hl hx hc
  exact ⟨s', hrun, hi, hr', hcl, hnr, fun hl' => hnr k (mem_of_lookup hl'), hd⟩

/-! ## T7 — no deadlock (and no panic: every step of the model is total on reachable states) -/

/-- **no deadlock**: in every reachable state in which some thread is in the middle of an operation, some
such thread has an enabled step.  (The only blocking steps are the write-lock acquisitions, which need
`readers = []`, and the clear steps, which need the scope's metric lock free: a thread inside a visit can
always move, then a thread holding the read lock can, and if nobody holds it the write-lockers can.  A pass
that has no unvisited entry left ends: `passEndHint` is always enabled at `passIter`.) -/
theorem no_deadlock {s0 s : State} {es : List Ev} (hsan : ∀ k, san (san k) = san k) (h0 : Start san s0)
    (hr : run san s0 es = some s)
    (hbusy : ∃ t, pcOf s t ≠ .idle) :
    ∃ t, pcOf s t ≠ .idle ∧
      ((∃ c, (step san s (.step t c)).isSome = true) ∨ (step san s (.passEndHint t)).isSome = true) :=
  (inv_reach hsan h0 hr).progress hbusy

/-- the only things a busy thread can be blocked on are the shard's write lock (while readers hold the read
lock) and the metric lock of a scope somebody is visiting (for the clear) — never a missing scope -/
theorem blocked_only_on_locks {s0 s : State} {es : List Ev} (hsan : ∀ k, san (san k) = san k) (h0 : Start san s0)
    (hr : run san s0 es = some s)
    {t c : Nat} (hne : pcOf s t ≠ .idle) (hni : ∀ v, pcOf s t ≠ .passIter v)
    (hb : step san s (.step t c) = none) :
    (wantsWrite (pcOf s t) = true ∧ s.readers ≠ [])
    ∨ ∃ sid, visiting s sid = true ∧
        ((∃ v k, pcOf s t = .passClear v k sid) ∨ (∃ i, pcOf s t = .obtClear i sid)
          ∨ (∃ i, pcOf s t = .obtWantLock i ∧ lookup s (san i) = some sid)) :=
  (inv_reach hsan h0 hr).blocked_only_on_locks hne hni hb

/-- **no panic**: no thread and no map entry ever refers to a scope that does not exist (the model's
`none` results for a missing scope — a nil dereference in Go — are unreachable) -/
theorem no_dangling_scope {s0 s : State} {es : List Ev} (hsan : ∀ k, san (san k) = san k) (h0 : Start san s0)
    (hr : run san s0 es = some s) :
    (∀ t sid, pcScope (pcOf s t) = some sid → (scopeOf s sid).isSome = true)
    ∧ (∀ k sid, lookup s k = some sid → (scopeOf s sid).isSome = true)
    ∧ (∀ t sid, (t, sid) ∈ s.handedOut → (scopeOf s sid).isSome = true) := by
  have h := inv_reach hsan h0 hr
  refine ⟨?_, ?_, ?_⟩
  · intro t sid hs
    obtain ⟨x, hx, _⟩ := h.pcInv t sid hs
    simp [hx]
  · intro k sid hl
    obtain ⟨x, hx, _⟩ := h.static.regIdent k sid (mem_of_lookup hl)
    have hx' : scopeOf s sid = some x := hx
    simp [hx']
  · intro t sid hm
    have := h.static.handed t sid hm
    simp [scopeOf, this]

/-- a thread that is inside a visit (holds a scope's metric lock) is never blocked -/
theorem visitor_never_blocked {s0 s : State} {es : List Ev} (hsan : ∀ k, san (san k) = san k) (h0 : Start san s0)
    (hr : run san s0 es = some s)
    {t sid : Nat} (hv : visits (pcOf s t) sid = true) : (step san s (.step t 0)).isSome = true :=
  (inv_reach hsan h0 hr).visitor_enabled hv

/-- the read lock is held exactly by the threads whose pc says so -/
theorem readers_are_the_lock_holders {s0 s : State} {es : List Ev} (hsan : ∀ k, san (san k) = san k) (h0 : Start san s0)
    (hr : run san s0 es = some s)
    (t : Nat) : t ∈ s.readers ↔ holdsR (pcOf s t) = true :=
  (inv_reach hsan h0 hr).readersOk t

/-! ## what the pinned code got wrong: regression witnesses -/

/-- the interleaving for the removal race: thread 3 is about to take the write lock for identity 7;
thread 1 creates scope 1 for identity 7, it is closed; pass 2 visits it and is about to remove it; thread 3
(D4c) reports and drops scope 1 and creates scope 2; a value is recorded on scope 2; pass 2 removes. -/
def removalRace : List Ev :=
  [.obtain 3 7, .step 3 0, .obtain 1 7, .step 1 0, .step 1 0, .close 1, .passBegin 2, .step 2 7,
   .step 2 0, .step 2 0, .step 3 0, .record 2, .step 2 0]

set_option maxRecDepth 100000 in
/-- pinned removal (delete by key whatever it points to): the fresh live scope 2 of identity 7 loses its
registration while it is not closed, with a `pre` token in its cell that no pass can ever reach -/
theorem legacy_remove_by_key_counterexample :
    (Legacy.run id (initRoot id) removalRace).map
        (fun s => (lookup s 7, s.scopes[2]?.map (·.closed), s.scopes[2]?.map (·.cell)))
      = some (none, some false, some [{ id := 0, scope := 2, pre := true }]) := by
  decide

set_option maxRecDepth 100000 in
/-- the repaired removal (by identity) on the same interleaving: scope 2 stays registered -/
example : (run id (initRoot id) removalRace).map
        (fun s => (lookup s 7, s.scopes[2]?.map (·.closed), s.scopes[2]?.map (·.cell)))
      = some (some 2, some false, some [{ id := 0, scope := 2, pre := true }]) := by
  decide

/-- the interleaving for the flag race: pass 2 reports scope 1 (empty), then a value is recorded on scope 1
and scope 1 is closed, then the pass goes on -/
def flagRace : List Ev :=
  [.obtain 1 7, .step 1 0, .step 1 0, .passBegin 2, .step 2 7, .step 2 0, .record 1, .close 1,
   .step 2 0, .step 2 0, .step 2 0, .step 2 0]

set_option maxRecDepth 100000 in
/-- pinned pass (closed flag read after the report): a token recorded before Close is cleared away -/
theorem legacy_closed_read_after_report_counterexample :
    (Legacy.run id (initRoot id) flagRace).map (fun s => s.dropped) = some [{ id := 0, scope := 1, pre := true }] := by
  decide

set_option maxRecDepth 100000 in
/-- the repaired pass on the same interleaving drops nothing: the token waits in the cell for the next pass -/
example : (run id (initRoot id) flagRace).map (fun s => (s.dropped, allCells s))
    = some ([], [{ id := 0, scope := 1, pre := true }]) := by
  decide

/-! ## non-vacuity -/

theorem id_idem : ∀ k : Nat, id (id k) = id k := fun _ => rfl

/-- (identity sanitizer) obtain (thread 1, key 7) → scope 1; record; close; a report pass (thread 2) interleaved
with a re-acquire of key 7 (thread 3) by the READ-LOCKED path (closed hit under the raw key: report, the two
removals — of the raw and of the sanitized key, here the same —, clear); before thread 3 takes the write lock,
thread 1 obtains key 7 again → scope 2, records on it and closes it; thread 3's write-locked lookup then finds the
closed scope 2 still registered: the WRITE-LOCKED re-acquire path (D4c) reports and drops it and creates scope 3;
record on it; a second Close of scope 1 -/
def nvRun : List Ev :=
  [.obtain 1 7, .step 1 0, .step 1 0, .step 1 0, .record 1, .close 1,
   .passBegin 2, .step 2 7, .step 2 0,
   .obtain 3 7, .step 3 0, .step 3 0,
   .step 2 0, .step 2 0, .step 3 0, .step 2 0, .step 3 0, .step 2 0, .step 2 0,
   .step 3 0, .step 3 0, .passEndHint 2, .step 3 0, .step 3 0, .step 3 0, .step 3 0,
   .obtain 1 7, .step 1 0, .step 1 0, .step 1 0, .record 2, .close 2,
   .step 3 0, .record 3, .step 3 0, .close 1]

def nvFinal : State :=
  { scopes := [{ ident := 0, closed := false, cleared := false, cell := [] },
               { ident := 7, closed := true, cleared := true, cell := [] },
               { ident := 7, closed := true, cleared := true, cell := [] },
               { ident := 7, closed := false, cleared := false, cell := [{ id := 2, scope := 3, pre := true }] }],
    reg := [(7, 3), (0, 0)], readers := [],
    pcs := [(3, .idle), (1, .idle), (2, .idle)],
    delivered := [{ id := 1, scope := 2, pre := true }, { id := 0, scope := 1, pre := true }], dropped := [],
    nextToken := 3,
    handedOut := [(3, 3), (1, 2), (1, 1)] }

set_option maxRecDepth 100000 in
theorem nvRun_ok : run id (initRoot id) nvRun = some nvFinal := by decide

set_option maxRecDepth 100000 in
/-- the run passes through both re-acquire paths: after 11 events thread 3 is on the read-locked path (closed hit
under the raw key), after 19 / 22 events it is in the first / second removal hand-over, after 32 events it is about
to take the write lock while the closed scope 2 is registered under key 7 -/
example : ((run id (initRoot id) (nvRun.take 11)).map fun s => pcOf s 3) = some (.obtSwap 7 1)
    ∧ ((run id (initRoot id) (nvRun.take 17)).map fun s => pcOf s 3) = some (.obtRelock 7 1)
    ∧ ((run id (initRoot id) (nvRun.take 23)).map fun s => pcOf s 3) = some (.obtRelock2 7 1)
    ∧ ((run id (initRoot id) (nvRun.take 32)).map fun s => (pcOf s 3, lookup s 7, s.scopes[2]?.map (·.closed)))
        = some (.obtWantLock 7, some 2, some true) := by
  decide

/-- T3 applies to the run: scope 1 is cleared, nothing is pending, and its `pre` token 0 was delivered once -/
example : ({ id := 0, scope := 1, pre := true } : Token) ∈ nvFinal.delivered ∧
    (nvFinal.delivered.map (·.id)).count 0 = 1 :=
  closed_scope_final_report' id_idem (Or.inl rfl) nvRun_ok 1 _ rfl rfl rfl
    { id := 0, scope := 1, pre := true } (by decide) rfl rfl

/-- T3 applies to scope 2 (collected by the write-locked path) as well -/
example : ({ id := 1, scope := 2, pre := true } : Token) ∈ nvFinal.delivered ∧
    (nvFinal.delivered.map (·.id)).count 1 = 1 :=
  closed_scope_final_report' id_idem (Or.inl rfl) nvRun_ok 2 _ rfl rfl rfl
    { id := 1, scope := 2, pre := true } (by decide) rfl rfl

/-- T4 applies: scope 3 was handed out, is live, and is registered -/
example : lookup nvFinal 7 = some 3 :=
  close_harms_no_other id_idem (Or.inl rfl) nvRun_ok 3 _ rfl rfl

/-- the state just before the re-acquire returns (after 32 events) -/
def nvPre : State := (run id (initRoot id) (nvRun.take 32)).get (by decide)
theorem nvPre_ok : run id (initRoot id) (nvRun.take 32) = some nvPre := by simp [nvPre]

set_option maxRecDepth 100000 in
/-- T5 applies: scope 2 of identity 7 is closed, and thread 3's next step returns scope 3 for key 7 -/
example : ∃ s1, step id nvPre (.step 3 0) = some s1 ∧ 3 ≠ 2 :=
  ⟨(step id nvPre (.step 3 0)).get (by decide), by simp,
    (reacquired_scope_functional id_idem (Or.inl rfl) nvPre_ok (sid := 2) (i := 7)
      (x := { ident := 7, closed := true, cleared := false, cell := [{ id := 1, scope := 2, pre := true }] })
      (by decide) rfl rfl
      (e := .step 3 0) (t := 3) (sid' := 3) (s1 := (step id nvPre (.step 3 0)).get (by decide)) (by simp)
      (by decide) (by decide)).1⟩

set_option maxRecDepth 100000 in
/-- T7's hypothesis holds in the middle of the run (after 14 events both the pass and the re-acquire are in
flight, thread 2 waits for the write lock while thread 3 holds the read lock) -/
example : ∃ t, pcOf ((run id (initRoot id) (nvRun.take 14)).get (by decide)) t ≠ .idle := ⟨2, by decide⟩

set_option maxRecDepth 100000 in
/-- T6 applies after the first six events (scope 1 closed, still registered, everybody idle), and the
explicit pass it provides is the expected one -/
example : soloPass id ((run id (initRoot id) (nvRun.take 6)).get (by decide)) 2
    = [.passBegin 2, .step 2 7, .step 2 0, .step 2 0, .step 2 0, .step 2 0, .step 2 0, .step 2 0,
       .step 2 0, .step 2 0, .step 2 0, .passEndHint 2] := by decide

set_option maxRecDepth 100000 in
example : ∃ s', run id ((run id (initRoot id) (nvRun.take 6)).get (by decide))
      (soloPass id ((run id (initRoot id) (nvRun.take 6)).get (by decide)) 2) = some s'
    ∧ ({ id := 0, scope := 1, pre := true } : Token) ∈ s'.delivered := by
  obtain ⟨s', h1, _, _, _, _, _, h2⟩ := next_pass_collects (s := (run id (initRoot id) (nvRun.take 6)).get (by decide))
    (es := nvRun.take 6) id_idem (Or.inl rfl) (by simp) (all_idle_of_pcs (by decide)) (by decide) 2 (k := 7) (sid := 1)
    (x := { ident := 7, closed := true, cleared := false, cell := [{ id := 0, scope := 1, pre := true }] })
    (by decide) (by decide) rfl
  exact ⟨s', h1, h2 _ (List.mem_cons_self ..)⟩

/-! ## sanitizer aliasing: two spellings of one identity -/

/-- a non-identity sanitizer: the raw keys 1 and 2 are two spellings of the identity 0 -/
def sanEx : Nat → Nat := fun k => if k = 1 ∨ k = 2 then 0 else k

theorem sanEx_idem : ∀ k, sanEx (sanEx k) = sanEx k := by
  intro k
  by_cases h : k = 1 ∨ k = 2 <;> simp [sanEx, h]

/-- thread 1 creates a scope through spelling 1 (scope 0 of identity 0, registered under 0 and under the alias 1),
records a token on it and closes it; thread 2 asks for spelling 2: miss under the raw key, then the write-locked
lookup of the sanitized key 0 finds the closed scope (D4c) -/
def aliasWriteLocked : List Ev :=
  [.obtain 1 1, .step 1 0, .step 1 0, .step 1 0, .record 0, .close 0,
   .obtain 2 2, .step 2 0, .step 2 0]

set_option maxRecDepth 100000 in
/-- re-acquire through ANOTHER spelling by the write-locked path: the token recorded through spelling 1 before the
Close is delivered exactly once (nothing dropped, nothing left in a cell), thread 2 gets the fresh scope 1 of
identity 0, registered under 0 and under the alias 2; the stale alias `1 ↦ 0` of the cleared scope stays until a
pass or a `Subscope(1)` collects it -/
example : (run sanEx init aliasWriteLocked).map (fun s => (s.delivered, s.dropped, allCells s))
      = some ([{ id := 0, scope := 0, pre := true }], [], [])
    ∧ (run sanEx init aliasWriteLocked).map
        (fun s => (s.reg, pcOf s 2, s.scopes.map fun x => (x.ident, x.closed, x.cleared)))
      = some ([(2, 1), (0, 1), (1, 0)], .obtDone 2 1, [(0, true, true), (0, false, false)]) :=
  ⟨by decide, by decide⟩

set_option maxRecDepth 100000 in
/-- … and just before thread 2's last step the closed scope was still registered under the sanitized key, so that
step is the closed hit of the write-locked path -/
example : (run sanEx init (aliasWriteLocked.take 8)).map (fun s => (pcOf s 2, lookup s 2, lookup s (sanEx 2)))
      = some (.obtWantLock 2, none, some 0)
    ∧ (run sanEx init (aliasWriteLocked.take 8)).map (fun s => (s.scopes[0]?.map (·.closed), s.delivered))
      = some (some true, []) := by
  decide

/-- the same start, but thread 2 asks for the SAME spelling 1: closed hit under the raw key, the read-locked path
(report, remove the raw key 1, remove the sanitized key 0, clear), then the write-locked creation -/
def aliasReadLocked : List Ev :=
  [.obtain 1 1, .step 1 0, .step 1 0, .step 1 0, .record 0, .close 0,
   .obtain 2 1, .step 2 0, .step 2 0, .step 2 0, .step 2 0, .step 2 0, .step 2 0, .step 2 0, .step 2 0,
   .step 2 0, .step 2 0, .step 2 0, .step 2 0]

set_option maxRecDepth 100000 in
/-- re-acquire through the same spelling by the read-locked path: the token is delivered exactly once, both
entries of the closed scope are gone, thread 2 gets the fresh scope 1 registered under 0 and under 1 -/
example : (run sanEx init aliasReadLocked).map (fun s => (s.delivered, s.dropped, allCells s))
      = some ([{ id := 0, scope := 0, pre := true }], [], [])
    ∧ (run sanEx init aliasReadLocked).map
        (fun s => (s.reg, pcOf s 2, s.scopes.map fun x => (x.ident, x.closed, x.cleared)))
      = some ([(1, 1), (0, 1)], .obtDone 1 1, [(0, true, true), (0, false, false)]) :=
  ⟨by decide, by decide⟩

set_option maxRecDepth 100000 in
/-- the two removals of the read-locked path remove one entry each: after 12 events the raw key is gone and the
sanitized key still registered, after 15 events both are gone -/
example : ((run sanEx init (aliasReadLocked.take 12)).map fun s => (pcOf s 2, s.reg)) = some (.obtRelock 1 0, [(0, 0)])
    ∧ ((run sanEx init (aliasReadLocked.take 15)).map fun s => (pcOf s 2, s.reg)) = some (.obtRelock2 1 0, []) := by
  decide

/-- two spellings, one live scope: thread 1 obtains spelling 1, thread 2 obtains spelling 2 (live hit under the
sanitized key, alias added) -/
def aliasLive : List Ev := [.obtain 1 1, .step 1 0, .step 1 0, .obtain 2 2, .step 2 0, .step 2 0]

set_option maxRecDepth 100000 in
/-- `obtain_same_identity_same_live_scope` applies (its hypotheses are satisfiable with a non-identity sanitizer):
both threads are at `obtDone`, with different spellings, holding the same live scope -/
example : ∃ s, run sanEx init aliasLive = some s ∧ pcOf s 1 = .obtDone 1 0 ∧ pcOf s 2 = .obtDone 2 0
    ∧ s.reg = [(2, 0), (1, 0), (0, 0)] ∧ (0 : Nat) = 0 := by
  refine ⟨(run sanEx init aliasLive).get (by decide), by simp, by decide, by decide, by decide, ?_⟩
  exact obtain_same_identity_same_live_scope (s := (run sanEx init aliasLive).get (by decide)) (es := aliasLive)
    sanEx_idem (Or.inr rfl) (by simp) (t1 := 1) (t2 := 2) (r1 := 1) (r2 := 2) (by decide) (by decide) (by decide)
    (x1 := { ident := 0, closed := false, cleared := false, cell := [] })
    (x2 := { ident := 0, closed := false, cleared := false, cell := [] }) (by decide) rfl (by decide) rfl

/-! ## a pass iterates over ENTRIES `(key, scope object)`: a re-inserted key may be produced again -/

/-- (identity sanitizer) thread 1 obtains key 7 → scope 1 (`a`) and closes it; the pass (thread 2) visits key 7 (entry
`(7, 1)`, closed), unlocks, deletes the entry by identity; thread 3 registers a NEW scope 2 (`b`) under key 7 (the
write-locked creation, while the pass holds no lock); the pass re-locks and clears scope 1 — and is back at the top of
its loop with `visited = [(7, 1)]` while key 7 is registered for scope 2 -/
def revisitRun : List Ev :=
  [.obtain 1 7, .step 1 0, .step 1 0, .step 1 0, .close 1,
   .passBegin 2, .step 2 7, .step 2 0, .step 2 0, .step 2 0,
   .obtain 3 7, .step 3 0, .step 3 0, .step 3 0,
   .step 2 0, .step 2 0]

set_option maxRecDepth 100000 in
/-- Go: "if a map entry is created during iteration, that entry may be produced during the iteration": the pass VISITS
key 7 AGAIN — the new entry `(7, 2)` — and the model accepts it (it rejected this run while it remembered keys) -/
example :
    ((run id (initRoot id) revisitRun).map fun s => (pcOf s 2, lookup s 7, s.readers))
      = some (.passIter [(7, 1)], some 2, [2]) ∧
    ((run id (initRoot id) (revisitRun ++ [.step 2 7])).map fun s => (pcOf s 2, s.reg))
      = some (.passSwap [(7, 2), (7, 1)] 7 2 false, [(7, 2), (0, 0)]) := by
  decide

set_option maxRecDepth 100000 in
/-- … but one entry is produced at most once per pass: after the complete visit of the entry `(7, 2)` (live: swap, back
to the loop) the pass is at the top of its loop again, key 7 is still registered for scope 2, and picking key 7 a
third time is REJECTED (whereas the entry `(0, 0)`, not yet produced, is accepted) -/
example :
    ((run id (initRoot id) (revisitRun ++ [.step 2 7, .step 2 0, .step 2 0])).map fun s => (pcOf s 2, lookup s 7))
      = some (.passIter [(7, 2), (7, 1)], some 2) ∧
    run id (initRoot id) (revisitRun ++ [.step 2 7, .step 2 0, .step 2 0, .step 2 7]) = none ∧
    (run id (initRoot id) (revisitRun ++ [.step 2 7, .step 2 0, .step 2 0, .step 2 0])).isSome = true := by
  decide

end Tally.Props.C07
