import Tally.Model.Prom
import Tally.Spec.C17
import TallyProofs.Lemmas.Prom
import TallyProofs.Lemmas.PromLocal
import TallyProofs.Lemmas.PromHist
import TallyProofs.Lemmas.PromSpec
import TallyProofs.Lemmas.PromCache
import TallyProofs.Lemmas.PromFresh
/-!
# C17 — Prometheus exposes what was recorded; registration conflicts never crash

Property theorems only.  A history is a list of `Ev` (first uses, recordings on the metric objects
they returned, report passes); `run cfg` executes it on the model of a tally scope + Prometheus
reporter + client registry; `finalGather` is the canonical `Gather()` listing after a final report
pass.  The expected values are the oracle's own functions (`Spec.C17.incSum`, `lastUpdate`,
`recordCount`, `expectedHistogram`) applied to `proj i post` — the recordings made on metric object
`i` (report passes are ignored by all of them).

Hypotheses of the value theorems (`Separate`): every `(name, tags)` is first-used once in the
history (a tally scope hands out one object per name and kind; using one name for two kinds under
the same tags is the excluded reuse), and the first use in question returned a usable metric.  The
histogram theorem additionally asks that every first use of the name is a histogram with this very
spec (no reuse of the name for a timer or for another bucket layout) and that the spec is in the
stated domain.  `conflict_never_panics` has no hypothesis on the history at all.

All of these quantify over every `UseKind`, hence also over the vectors obtained through the
exported `RegisterCounter` / `RegisterGauge` (`counterAs`, `gaugeAs`: the caller writes the series
directly); the last section adds their value theorems and
`register_counter_then_allocate_shares_series` / `register_gauge_then_allocate_shares_series`.
They also cover `RegisterCounter` / `RegisterGauge` called with the caller's own help text
(`counterAsD desc`, `gaugeAsD desc`; `counterAs` / `gaugeAs` are the instances with tally's default
text: `counterAs_is_counterAsD_default`, `gaugeAs_is_gaugeAsD_default`); the last section has their
value theorems and `register_same_help_other_kind_is_already`: the same text for a counter and a
gauge of one name and one label set is answered with `AlreadyRegisteredError`, not with
"previously registered … different help".
-/
namespace Tally.Props.C17
open Tally Tally.Prom

/-- the canonical `Gather()` listing after a final report pass -/
def finalGather (cfg : Cfg) (evs : List Ev) : List GEntry := gather (run cfg (evs ++ [.pass])).rep

/-- the history `pre ++ [first use] ++ post` uses every `(name, tags)` once -/
def Separate (pre post : List Ev) (kind : UseKind) (name : Bytes) (tags : Tags) : Prop :=
  ((usesOf (pre ++ [.use kind name tags] ++ post)).map (·.2)).Nodup

/-- the first use made after `pre` hands the caller a usable metric -/
def Usable (cfg : Cfg) (pre : List Ev) (kind : UseKind) (name : Bytes) (tags : Tags) : Prop :=
  ∃ k, (useMetric cfg (run cfg pre).rep kind name tags).2 = .usable k

/-! ### registration conflicts -/

/-- **conflict_never_panics** — for every history (any reuse of names across kinds and tag-key
sets, any interleaving with recordings and passes), every first use of the repaired reporter
satisfies the oracle's first-use clause: the caller gets a usable metric with no callback
invocation; or the rejection went to the callback exactly once and the caller gets the no-op metric
(or the callback's own panic, only if it is a panicking callback); through `RegisterTimer` the
error comes back instead.  No step dereferences an empty vector slot (`Outcome.nilDeref` is
unreachable).  Recording calls and report passes are total functions of the model: a no-op handle
changes nothing (`World.apply` on `Handle.noop` touches no series). -/
theorem conflict_never_panics (cfg : Cfg) (hv : cfg.variant = .repaired) (evs : List Ev) :
    ((run cfg evs).trace.all fun t =>
      Spec.C17.firstUseOk cfg.cbPanics t.kind (Spec.C17.obsOf t.outcome) t.callbacks) = true := by
  suffices h : ∀ (evs : List Ev) (us : List Use) (w : World), Inv cfg us w →
      (w.trace.all fun t => Spec.C17.firstUseOk cfg.cbPanics t.kind (Spec.C17.obsOf t.outcome) t.callbacks) = true →
      ((evs.foldl (step cfg) w).trace.all fun t =>
        Spec.C17.firstUseOk cfg.cbPanics t.kind (Spec.C17.obsOf t.outcome) t.callbacks) = true by
    exact h evs [] {} (inv_init cfg) rfl
  intro evs
  induction evs with
  | nil => intro us w _ h; exact h
  | cons ev t ih =>
    intro us w hinv htr
    simp only [List.foldl_cons]
    apply ih _ _ (inv_step cfg us w ev hinv)
    cases ev with
    | op i e =>
      simp only [step]
      split
      · exact htr
      · rw [apply_trace]; exact htr
    | pass => simp only [step]; rw [passFrom_trace]; exact htr
    | use kind name tags =>
      have hc : CacheOk cfg (us ++ [(kind, name, tags)]) w.rep := hinv.cache.mono (fun u hu => List.mem_append_left _ hu)
      have hs := useMetric_spec cfg (us ++ [(kind, name, tags)]) w.rep kind name tags (by simp) hc
      simp only [step]
      generalize useMetric cfg w.rep kind name tags = p at hs
      obtain ⟨r', o⟩ := p
      simp only [List.all_append, htr, Bool.true_and, List.all_cons, List.all_nil, Bool.and_true]
      have hcb := hs.callbacks
      have hrep := hs.repaired hv
      simp only at hcb hrep
      rw [hcb]
      unfold Spec.C17.firstUseOk
      cases hreg : Spec.C17.viaRegister kind with
      | true =>
        obtain ⟨h1, h2⟩ := hs.register hreg
        cases o <;> simp_all [Spec.C17.obsOf]
      | false =>
        obtain ⟨h1, h2, h3⟩ := hs.alloc hreg
        cases o with
        | usable k => simp [Spec.C17.obsOf]
        | noop => simp [Spec.C17.obsOf]
        | callbackPanic => simp [Spec.C17.obsOf, h2 rfl]
        | regError e => exact absurd rfl (h1 e)
        | nilDeref => exact absurd rfl hrep

/-- the pinned code's cache-hit behaviour (`Variant.legacy`: the entry's nil field comes back with
a nil error): a summary timer followed by a histogram of the same name and tag keys -/
def legacyCounterexample : List Ev :=
  [.use .timer [116] [], .use (.histogram (.values [0x3FF0000000000000])) [116] []]

/-- **legacy_nil_deref_counterexample** — on the model of the unrepaired code the nil dereference
is reachable although the callback does not panic and is never invoked … -/
theorem legacy_nil_deref_counterexample :
    ((run { variant := .legacy, histTimers := false, cbPanics := false, defaultBounds := [] } legacyCounterexample).trace.map
      fun t => (t.outcome, t.callbacks)) = [(.usable ⟨[116], []⟩, 0), (.nilDeref, 0)] := by decide

/-- … and symmetrically a histogram followed by a summary timer; on the repaired model the same
histories end in the callback and the no-op metric. -/
theorem legacy_nil_deref_counterexample_symmetric :
    ((run { variant := .legacy, histTimers := false, cbPanics := false, defaultBounds := [] }
        [.use (.histogram (.values [0x3FF0000000000000])) [116] [], .use .timer [116] []]).trace.map
      fun t => (t.outcome, t.callbacks)) = [(.usable ⟨[116], []⟩, 0), (.nilDeref, 0)] := by decide

example : ((run { variant := .repaired, histTimers := false, cbPanics := false, defaultBounds := [] } legacyCounterexample).trace.map
    fun t => (t.outcome, t.callbacks)) = [(.usable ⟨[116], []⟩, 0), (.noop, 1)] := by decide

/-- non-vacuity of `conflict_never_panics`: a history with three rejected registrations (other
kind, other tag keys, other timer flavour) under a panicking callback -/
example : ((run { variant := .repaired, histTimers := false, cbPanics := true, defaultBounds := [] }
    [.use .counter [109] [([97], [120])], .use .gauge [109] [([97], [120])], .use .counter [109] [([97], [120]), ([98], [121])],
     .use .timer [116] [], .use (.timerAs true) [116] []]).trace.map fun t => (t.outcome, t.callbacks))
    = [(.usable ⟨[109], [([97], [120])]⟩, 0), (.callbackPanic, 1), (.callbackPanic, 1), (.usable ⟨[116], []⟩, 0),
       (.regError .flavour, 0)] := by decide

/-- **noop_records_nothing** — after a rejected registration whose callback returned (or any first
use that did not hand out a live series) every recording on the returned metric, and its share of
every report pass, leaves the whole reporter — registry, caches, every series — untouched. -/
theorem noop_records_nothing (w : World) (i : Nat) (e : LEv)
    (h : (w.metrics[i]?).map Metric.handle = some .noop) : (w.apply i e).rep = w.rep := by
  unfold World.apply
  cases hm : w.metrics[i]? with
  | none => rfl
  | some m =>
    rw [hm] at h
    simp only [Option.map_some, Option.some.injEq] at h
    simp only [h]

/-- **gather_lists_each_series_once** — in every history the listing has no duplicate
`(family name, label pairs)` -/
theorem gather_lists_each_series_once (cfg : Cfg) (evs : List Ev) :
    ((finalGather cfg evs).map (·.key)).Nodup :=
  gather_keys_nodup _ (inv_run cfg _).nodup

/-- **fresh_name_usable** — the `Usable` hypothesis of the value theorems is met by every first use
of a name no earlier first use mentions (whatever happened to other names), and — by
`series_separate` below — by every further first use of an accepted family with other tag values:
the registry and the caches only ever hold names that were first-used. -/
theorem fresh_name_usable (cfg : Cfg) (pre : List Ev) (kind : UseKind) (name : Bytes) (tags : Tags)
    (hn : ∀ u ∈ usesOf pre, u.2.1 ≠ name) : Usable cfg pre kind name tags :=
  fresh_usable cfg pre kind name tags hn

/-! ### what `Gather()` shows -/

/-- the common core of the value theorems: the series of a usable first use is listed exactly once
and carries what `localRun` computes from the recordings made on that metric object -/
theorem final_series (cfg : Cfg) (pre post : List Ev) (kind : UseKind) (name : Bytes) (tags : Tags)
    (hd : Separate pre post kind name tags) (hu : Usable cfg pre kind name tags) :
    ∃ f : Family, f.kind = Spec.C17.typeOf cfg.histTimers kind
      ∧ (f.kind = .histogram → ∃ u ∈ usesOf (pre ++ [.use kind name tags]), u.2.1 = name ∧ f.bounds = kindBounds cfg u.1)
      ∧ (∃ e ∈ finalGather cfg (pre ++ [.use kind name tags] ++ post), e.key = ⟨name, tags⟩)
      ∧ ∀ e ∈ finalGather cfg (pre ++ [.use kind name tags] ++ post), e.key = ⟨name, tags⟩ →
          e.val = (localRun (newMetric kind (.series ⟨name, tags⟩)) (Val.zero f)
                    (proj (usesOf pre).length post ++ [.pass])).2.export := by
  have hd' : ((usesOf (pre ++ [.use kind name tags] ++ (post ++ [.pass]))).map (·.2)).Nodup := by
    have : usesOf (pre ++ [.use kind name tags] ++ (post ++ [.pass])) = usesOf (pre ++ [.use kind name tags] ++ post) := by
      simp [usesOf_append, usesOf]
    rw [this]; exact hd
  obtain ⟨f, hfk, hfb, _, hser⟩ := life cfg pre (post ++ [.pass]) kind name tags hd' hu
  have hpa : proj (usesOf pre).length (post ++ [.pass]) = proj (usesOf pre).length post ++ [.pass] := by
    rw [proj_append]; rfl
  rw [hpa] at hser
  have hassoc : pre ++ [Ev.use kind name tags] ++ post ++ [Ev.pass] = pre ++ [Ev.use kind name tags] ++ (post ++ [Ev.pass]) := by
    simp
  refine ⟨f, hfk, hfb, ?_, ?_⟩
  · unfold finalGather
    rw [hassoc]
    obtain ⟨e, he, hk, _⟩ := gather_of_getS _ _ _ hser
    exact ⟨e, he, hk⟩
  · intro e he hk
    unfold finalGather at he
    rw [hassoc] at he
    apply gather_unique _ (inv_run cfg _).nodup e he
    rw [hk]; exact hser

/-- **gather_counter_sum** — a counter's series shows the sum of the increments made on it -/
theorem gather_counter_sum (cfg : Cfg) (pre post : List Ev) (name : Bytes) (tags : Tags)
    (hd : Separate pre post .counter name tags) (hu : Usable cfg pre .counter name tags) :
    (∃ e ∈ finalGather cfg (pre ++ [.use .counter name tags] ++ post), e.key = ⟨name, tags⟩)
    ∧ ∀ e ∈ finalGather cfg (pre ++ [.use .counter name tags] ++ post), e.key = ⟨name, tags⟩ →
        e.val = .counter (Spec.C17.incSum (proj (usesOf pre).length post)) := by
  obtain ⟨f, hfk, _, hex, hall⟩ := final_series cfg pre post .counter name tags hd hu
  refine ⟨hex, fun e he hk => ?_⟩
  rw [hall e he hk]
  have hz : Val.zero f = .counter 0 := by simp [Val.zero, hfk, Spec.C17.typeOf]
  rw [hz]
  simp only [newMetric, counter_final, Val.export]

/-- **gather_gauge_last** — a gauge's series shows its last update (`+0` before the first one) -/
theorem gather_gauge_last (cfg : Cfg) (pre post : List Ev) (name : Bytes) (tags : Tags)
    (hd : Separate pre post .gauge name tags) (hu : Usable cfg pre .gauge name tags) :
    (∃ e ∈ finalGather cfg (pre ++ [.use .gauge name tags] ++ post), e.key = ⟨name, tags⟩)
    ∧ ∀ e ∈ finalGather cfg (pre ++ [.use .gauge name tags] ++ post), e.key = ⟨name, tags⟩ →
        e.val = .gauge (Spec.C17.lastUpdate (proj (usesOf pre).length post) 0) := by
  obtain ⟨f, hfk, _, hex, hall⟩ := final_series cfg pre post .gauge name tags hd hu
  refine ⟨hex, fun e he hk => ?_⟩
  rw [hall e he hk]
  have hz : Val.zero f = .gauge 0 := by simp [Val.zero, hfk, Spec.C17.typeOf]
  rw [hz]
  simp only [newMetric, gauge_final, Val.export]

/-- **gather_timer_count** — a timer's series (summary or histogram, by the reporter's default
flavour) shows a sample count equal to the number of recorded values -/
theorem gather_timer_count (cfg : Cfg) (pre post : List Ev) (name : Bytes) (tags : Tags)
    (hd : Separate pre post .timer name tags) (hu : Usable cfg pre .timer name tags) :
    (∃ e ∈ finalGather cfg (pre ++ [.use .timer name tags] ++ post), e.key = ⟨name, tags⟩)
    ∧ ∀ e ∈ finalGather cfg (pre ++ [.use .timer name tags] ++ post), e.key = ⟨name, tags⟩ →
        (cfg.histTimers = false → e.val = .summary (Spec.C17.recordCount (proj (usesOf pre).length post)))
        ∧ (cfg.histTimers = true →
            ∃ bs, e.val = .histogram bs (Spec.C17.recordCount (proj (usesOf pre).length post))) := by
  obtain ⟨f, hfk, _, hex, hall⟩ := final_series cfg pre post .timer name tags hd hu
  refine ⟨hex, fun e he hk => ?_⟩
  rw [hall e he hk]
  have hrc : Spec.C17.recordCount (proj (usesOf pre).length post ++ [.pass]) = Spec.C17.recordCount (proj (usesOf pre).length post) := by
    generalize proj (usesOf pre).length post = l
    induction l with
    | nil => rfl
    | cons a t ih => cases a <;> simp [Spec.C17.recordCount, ih]
  constructor
  · intro hh
    have hz : Val.zero f = .summary 0 := by simp [Val.zero, hfk, Spec.C17.typeOf, hh]
    rw [hz]
    simp only [newMetric, localRun_timer_summary, Val.export, hrc, Nat.zero_add]
  · intro hh
    have hz : Val.zero f = .histogram f.bounds (f.bounds.map fun _ => 0) 0 := by simp [Val.zero, hfk, Spec.C17.typeOf, hh]
    rw [hz]
    obtain ⟨bk', h1⟩ := localRun_timer_histogram (.series ⟨name, tags⟩) f.bounds
      (proj (usesOf pre).length post ++ [.pass]) (f.bounds.map fun _ => 0) 0
    simp only [newMetric, h1, Val.export, hrc, Nat.zero_add]
    exact ⟨_, rfl⟩

/-- the bucket specs the histogram clause is stated for: non-NaN, strictly increasing (hence
finite below `MaxFloat64`); for durations additionally the Go-computed conversions to seconds are
strictly increasing and below the conversion of `MaxInt64` -/
def SpecOk : HSpec → Prop
  | .values sp => ValueSpecOk sp
  | .durations sp m => DurationSpecOk sp m

/-- duration samples are int64 values -/
def SampleOk : Sample → Prop
  | .duration d => d ≤ maxInt64
  | .value _ => True

instance (s : Sample) : Decidable (SampleOk s) := by
  cases s <;> unfold SampleOk <;> infer_instance

/-- **gather_histogram_cumulative** — for a strictly increasing finite spec, in a history where
the name is used for histograms of this spec only: Prometheus lists exactly the spec's bounds
(durations in seconds), the cumulative count at each bound is the number of recorded samples `≤`
that bound — IEEE `≤` for values (a NaN is `≤` nothing, `-Inf` `≤` everything), `≤` on nanoseconds
for durations — and the total is the number of samples.  This composes C03's placement theorems
(`placeKey_placed`, `placeValue_eq_placeKey`, applied to `valueUppers` / `durationUppers`) with
"observe the bucket's upper bound `n` times" and the client's own least-bound search. -/
theorem gather_histogram_cumulative (cfg : Cfg) (pre post : List Ev) (spec : HSpec) (name : Bytes) (tags : Tags)
    (hd : Separate pre post (.histogram spec) name tags) (hu : Usable cfg pre (.histogram spec) name tags)
    (hok : SpecOk spec)
    (hname : ∀ u ∈ usesOf (pre ++ [.use (.histogram spec) name tags]), u.2.1 = name → u.1 = .histogram spec)
    (hs : ∀ s ∈ Spec.C17.samplesIn (proj (usesOf pre).length post), SampleOk s) :
    (∃ e ∈ finalGather cfg (pre ++ [.use (.histogram spec) name tags] ++ post), e.key = ⟨name, tags⟩)
    ∧ ∀ e ∈ finalGather cfg (pre ++ [.use (.histogram spec) name tags] ++ post), e.key = ⟨name, tags⟩ →
        e.val = Spec.C17.expectedHistogram spec (Spec.C17.samplesIn (proj (usesOf pre).length post)) := by
  obtain ⟨f, hfk, hfb, hex, hall⟩ := final_series cfg pre post (.histogram spec) name tags hd hu
  refine ⟨hex, fun e he hk => ?_⟩
  rw [hall e he hk]
  have hkind : f.kind = .histogram := by rw [hfk]; rfl
  obtain ⟨u, hu1, hu2, hu3⟩ := hfb hkind
  have hb : f.bounds = spec.promBounds := by
    rw [hu3, hname u hu1 hu2]; rfl
  have hz : Val.zero f = .histogram spec.promBounds (spec.promBounds.map fun _ => 0) 0 := by
    simp [Val.zero, hkind, hb]
  rw [hz]
  simp only [newMetric]
  cases spec with
  | values sp =>
    apply hist_final _ _ (valueSpecFacts sp hok)
    intro s _ idx j hp hj
    cases s with
    | value v =>
      simp only [HSpec.place, Option.some.injEq] at hp
      subst hp
      exact value_link sp hok v j hj
    | duration d => simp [HSpec.place] at hp
  | durations sp m =>
    apply hist_final _ _ (durationSpecFacts sp m hok)
    intro s hsm idx j hp hj
    cases s with
    | value v => simp [HSpec.place] at hp
    | duration d =>
      simp only [HSpec.place, Option.some.injEq] at hp
      subst hp
      have hjl : j < sp.length := by simpa [HSpec.promBounds] using hj
      exact duration_link sp m hok d (hs _ hsm) j hjl

/-- **series_separate** — same name, same kind, same tag keys, different tag values: once the
first use was accepted, the second one — anywhere later in any history — is accepted as well (it
finds the cached vector; it is never rejected and never reaches the callback), and, in a history
that uses every `(name, tags)` once, `Gather()` lists the two as two distinct series under the one
family name (each with exactly its own recordings, by the value theorems above). -/
theorem series_separate (cfg : Cfg) (pre mid post : List Ev) (kind : UseKind) (name : Bytes) (tags1 tags2 : Tags)
    (hkeys : keysOf tags1 = keysOf tags2) (hne : tags1 ≠ tags2) (hu1 : Usable cfg pre kind name tags1) :
    Usable cfg (pre ++ [.use kind name tags1] ++ mid) kind name tags2
    ∧ (((usesOf (pre ++ [.use kind name tags1] ++ mid ++ [.use kind name tags2] ++ post)).map (·.2)).Nodup →
        ∃ e1 ∈ finalGather cfg (pre ++ [.use kind name tags1] ++ mid ++ [.use kind name tags2] ++ post),
        ∃ e2 ∈ finalGather cfg (pre ++ [.use kind name tags1] ++ mid ++ [.use kind name tags2] ++ post),
          e1.key = ⟨name, tags1⟩ ∧ e2.key = ⟨name, tags2⟩ ∧ e1.key ≠ e2.key ∧ e1.key.name = e2.key.name) := by
  have husable2 : Usable cfg (pre ++ [.use kind name tags1] ++ mid) kind name tags2 := by
    unfold Usable
    apply hit_usable
    rw [← hkeys]
    have h1 : Hit cfg (step cfg (run cfg pre) (.use kind name tags1)).rep kind (name, keysOf tags1) := by
      simp only [step]
      exact usable_hit cfg (run cfg pre).rep kind name tags1 hu1
    rw [run_append, run_append]
    simp only [List.foldl_cons, List.foldl_nil]
    exact h1.grows (foldl_grows cfg mid _)
  refine ⟨husable2, fun hd => ?_⟩
  have hd1 : Separate pre (mid ++ [.use kind name tags2] ++ post) kind name tags1 := by
    unfold Separate
    have : pre ++ [Ev.use kind name tags1] ++ (mid ++ [Ev.use kind name tags2] ++ post)
        = pre ++ [.use kind name tags1] ++ mid ++ [.use kind name tags2] ++ post := by simp
    rw [this]; exact hd
  have hd2 : Separate (pre ++ [.use kind name tags1] ++ mid) post kind name tags2 := hd
  obtain ⟨_, _, _, ⟨e1, he1, hk1⟩, _⟩ := final_series cfg pre (mid ++ [.use kind name tags2] ++ post) kind name tags1 hd1 hu1
  obtain ⟨_, _, _, ⟨e2, he2, hk2⟩, _⟩ := final_series cfg (pre ++ [.use kind name tags1] ++ mid) post kind name tags2 hd2 husable2
  have hassoc : pre ++ [Ev.use kind name tags1] ++ (mid ++ [Ev.use kind name tags2] ++ post)
      = pre ++ [.use kind name tags1] ++ mid ++ [.use kind name tags2] ++ post := by simp
  rw [hassoc] at he1
  refine ⟨e1, he1, e2, he2, hk1, hk2, ?_, by rw [hk1, hk2]⟩
  rw [hk1, hk2]
  intro e
  injection e with _ e
  exact hne e

/-! ### non-vacuity: concrete histories meeting the hypotheses -/

/-- `gather_counter_sum` instantiated: two counters of one family (same name and tag keys,
different tag values), increments interleaved with a pass; the second one shows 5 + 7 -/
example : ∀ e ∈ finalGather {} ([.use .counter [109] [([97], [120])]] ++ [.use .counter [109] [([97], [121])]]
      ++ [.op 0 (.inc 3), .op 1 (.inc 5), .pass, .op 1 (.inc 7)]),
    e.key = ⟨[109], [([97], [121])]⟩ → e.val = .counter 12 :=
  (gather_counter_sum {} [.use .counter [109] [([97], [120])]] [.op 0 (.inc 3), .op 1 (.inc 5), .pass, .op 1 (.inc 7)]
    [109] [([97], [121])] (by unfold Separate; decide) ⟨⟨[109], [([97], [121])]⟩, by decide⟩).2

/-- `gather_gauge_last` instantiated: updates 1.0, pass, 2.5, then -0.0: the listing shows -0.0 -/
example : ∀ e ∈ finalGather {} ([] ++ [.use .gauge [103] []]
      ++ [.op 0 (.update 0x3FF0000000000000), .pass, .op 0 (.update 0x4004000000000000), .op 0 (.update 0x8000000000000000)]),
    e.key = ⟨[103], []⟩ → e.val = .gauge 0x8000000000000000 :=
  (gather_gauge_last {} [] [.op 0 (.update 0x3FF0000000000000), .pass, .op 0 (.update 0x4004000000000000),
    .op 0 (.update 0x8000000000000000)] [103] [] (by unfold Separate; decide) ⟨⟨[103], []⟩, by decide⟩).2

/-- `gather_timer_count` instantiated for both flavours: three records -/
example : ∀ e ∈ finalGather {} ([] ++ [.use .timer [116] []] ++ [.op 0 (.record 0), .pass, .op 0 (.record 0x3FF0000000000000), .op 0 (.record 0)]),
    e.key = ⟨[116], []⟩ → e.val = .summary 3 := fun e he hk =>
  ((gather_timer_count {} [] [.op 0 (.record 0), .pass, .op 0 (.record 0x3FF0000000000000), .op 0 (.record 0)]
    [116] [] (by unfold Separate; decide) ⟨⟨[116], []⟩, by decide⟩).2 e he hk).1 rfl

example : ∀ e ∈ finalGather { histTimers := true, defaultBounds := [0x3FF0000000000000] }
      ([] ++ [.use .timer [116] []] ++ [.op 0 (.record 0), .pass, .op 0 (.record 0x4000000000000000)]),
    e.key = ⟨[116], []⟩ → ∃ bs, e.val = .histogram bs 2 := fun e he hk =>
  ((gather_timer_count { histTimers := true, defaultBounds := [0x3FF0000000000000] } []
    [.op 0 (.record 0), .pass, .op 0 (.record 0x4000000000000000)]
    [116] [] (by unfold Separate; decide) ⟨⟨[116], []⟩, by decide⟩).2 e he hk).2 rfl

/-- the spec `{1.0, 2.5}` is in the domain of the histogram clause … -/
private theorem specOk_example : SpecOk (.values [0x3FF0000000000000, 0x4004000000000000]) := by
  refine ⟨⟨?_, ?_⟩, ?_⟩
  · decide
  · decide
  · decide

/-- … and `gather_histogram_cumulative` instantiated on it: samples 1.0 (on the first bound), 0.5,
a pass, 2.5 (on the second bound), +Inf and a NaN: cumulative 2 at `le=1.0`, 3 at `le=2.5`, total 5 -/
example : ∀ e ∈ finalGather {} ([] ++ [.use (.histogram (.values [0x3FF0000000000000, 0x4004000000000000])) [104] []]
      ++ [.op 0 (.sample (.value 0x3FF0000000000000)), .op 0 (.sample (.value 0x3FE0000000000000)), .pass,
          .op 0 (.sample (.value 0x4004000000000000)), .op 0 (.sample (.value 0x7FF0000000000000)),
          .op 0 (.sample (.value 0x7FF8000000000001))]),
    e.key = ⟨[104], []⟩ → e.val = .histogram [(0x3FF0000000000000, 2), (0x4004000000000000, 3)] 5 :=
  (gather_histogram_cumulative {} [] _ (.values [0x3FF0000000000000, 0x4004000000000000]) [104] []
    (by unfold Separate; decide) ⟨⟨[104], []⟩, by decide⟩ specOk_example (by decide) (by decide)).2

/-- … and so is the duration spec `{1ms, 1s}` with its Go-computed conversions `0.001`, `1.0` and
`9223372036.854776` -/
example : SpecOk (.durations [(1000000, 0x3F50624DD2F1A9FC), (1000000000, 0x3FF0000000000000)] 0x42012E0BE826D695) := by
  refine ⟨?_, ⟨?_, ?_⟩, ?_, ?_⟩
  · decide
  · decide
  · decide
  · decide
  · decide

/-- `series_separate` instantiated: the second counter of the family is accepted after any history -/
example : Usable {} ([] ++ [.use .counter [109] [([97], [120])]] ++ [.op 0 (.inc 1), .pass, .use .gauge [103] []])
    .counter [109] [([97], [121])] :=
  (series_separate {} [] [.op 0 (.inc 1), .pass, .use .gauge [103] []] [] .counter [109] [([97], [120])] [([97], [121])]
    (by decide) (by decide) ⟨⟨[109], [([97], [120])]⟩, by decide⟩).1

/-! ### vectors pre-registered through `RegisterCounter` / `RegisterGauge` -/

/-- **gather_register_counter_sum** — a counter obtained through `RegisterCounter` + `With(tags)`
and written directly shows the sum of the increments made on it (no report pass is needed for
that: `localRun_rawCounter` holds after every prefix) -/
theorem gather_register_counter_sum (cfg : Cfg) (pre post : List Ev) (name : Bytes) (tags : Tags)
    (hd : Separate pre post .counterAs name tags) (hu : Usable cfg pre .counterAs name tags) :
    (∃ e ∈ finalGather cfg (pre ++ [.use .counterAs name tags] ++ post), e.key = ⟨name, tags⟩)
    ∧ ∀ e ∈ finalGather cfg (pre ++ [.use .counterAs name tags] ++ post), e.key = ⟨name, tags⟩ →
        e.val = .counter (Spec.C17.incSum (proj (usesOf pre).length post)) := by
  obtain ⟨f, hfk, _, hex, hall⟩ := final_series cfg pre post .counterAs name tags hd hu
  refine ⟨hex, fun e he hk => ?_⟩
  rw [hall e he hk]
  have hz : Val.zero f = .counter 0 := by simp [Val.zero, hfk, Spec.C17.typeOf]
  have hrc : Spec.C17.incSum (proj (usesOf pre).length post ++ [.pass]) = Spec.C17.incSum (proj (usesOf pre).length post) := by
    generalize proj (usesOf pre).length post = l
    induction l with
    | nil => rfl
    | cons a t ih => cases a <;> simp [Spec.C17.incSum, ih]
  rw [hz]
  simp only [newMetric, localRun_rawCounter, Val.export, hrc, Nat.zero_add]

/-- **gather_register_gauge_last** — a gauge obtained through `RegisterGauge` + `With(tags)` and
written directly shows its last update (`+0` before the first one) -/
theorem gather_register_gauge_last (cfg : Cfg) (pre post : List Ev) (name : Bytes) (tags : Tags)
    (hd : Separate pre post .gaugeAs name tags) (hu : Usable cfg pre .gaugeAs name tags) :
    (∃ e ∈ finalGather cfg (pre ++ [.use .gaugeAs name tags] ++ post), e.key = ⟨name, tags⟩)
    ∧ ∀ e ∈ finalGather cfg (pre ++ [.use .gaugeAs name tags] ++ post), e.key = ⟨name, tags⟩ →
        e.val = .gauge (Spec.C17.lastUpdate (proj (usesOf pre).length post) 0) := by
  obtain ⟨f, hfk, _, hex, hall⟩ := final_series cfg pre post .gaugeAs name tags hd hu
  refine ⟨hex, fun e he hk => ?_⟩
  rw [hall e he hk]
  have hz : Val.zero f = .gauge 0 := by simp [Val.zero, hfk, Spec.C17.typeOf]
  have hrc : ∀ d, Spec.C17.lastUpdate (proj (usesOf pre).length post ++ [.pass]) d = Spec.C17.lastUpdate (proj (usesOf pre).length post) d := by
    generalize proj (usesOf pre).length post = l
    induction l with
    | nil => intro d; rfl
    | cons a t ih => intro d; cases a <;> simp [Spec.C17.lastUpdate, ih]
  rw [hz]
  simp only [newMetric, localRun_rawGauge, Val.export, hrc]

/-- **register_counter_then_allocate_shares_series** — in any world (reachable or not), once
`RegisterCounter(name, keys)` + `With(tags)` handed the caller a usable Prometheus counter with
series key `k`, every later `AllocateCounter(name, tags)` — after any further first uses,
recordings and report passes `mid` — finds the pre-registered vector in the reporter's cache: it
returns a usable tally counter reporting into the SAME series `k`, and nothing is handed to the
error callback. -/
theorem register_counter_then_allocate_shares_series (cfg : Cfg) (w : World) (mid : List Ev) (name : Bytes)
    (tags : Tags) (k : SeriesKey) (h : (useMetric cfg w.rep .counterAs name tags).2 = .usable k) :
    ∀ w', w' = mid.foldl (step cfg) (step cfg w (.use .counterAs name tags)) →
      (useMetric cfg w'.rep .counter name tags).2 = .usable k
      ∧ (useMetric cfg w'.rep .counter name tags).1.errors = w'.rep.errors := by
  intro w' hw'
  obtain ⟨f, hf, hk, hst⟩ := finishRegister_usable (counterVec w.rep name (keysOf tags)) tags k h
  have h1 : lookupKey (step cfg w (.use .counterAs name tags)).rep.counters (name, keysOf tags) = some f := by
    have : (step cfg w (.use .counterAs name tags)).rep = (finishRegister (counterVec w.rep name (keysOf tags)) tags).1 := rfl
    rw [this, hst.counters]
    exact counterVec_cached w.rep name (keysOf tags) f hf
  have h2 : lookupKey w'.rep.counters (name, keysOf tags) = some f := by
    rw [hw']; exact (foldl_grows cfg mid _).counters _ _ h1
  rw [counter_use_of_cached cfg _ name tags f h2, hk]
  exact ⟨rfl, (withSeries_static _ f tags).errors⟩

/-- **register_gauge_then_allocate_shares_series** — the same for `RegisterGauge` followed by
`AllocateGauge` -/
theorem register_gauge_then_allocate_shares_series (cfg : Cfg) (w : World) (mid : List Ev) (name : Bytes)
    (tags : Tags) (k : SeriesKey) (h : (useMetric cfg w.rep .gaugeAs name tags).2 = .usable k) :
    ∀ w', w' = mid.foldl (step cfg) (step cfg w (.use .gaugeAs name tags)) →
      (useMetric cfg w'.rep .gauge name tags).2 = .usable k
      ∧ (useMetric cfg w'.rep .gauge name tags).1.errors = w'.rep.errors := by
  intro w' hw'
  obtain ⟨f, hf, hk, hst⟩ := finishRegister_usable (gaugeVec w.rep name (keysOf tags)) tags k h
  have h1 : lookupKey (step cfg w (.use .gaugeAs name tags)).rep.gauges (name, keysOf tags) = some f := by
    have : (step cfg w (.use .gaugeAs name tags)).rep = (finishRegister (gaugeVec w.rep name (keysOf tags)) tags).1 := rfl
    rw [this, hst.gauges]
    exact gaugeVec_cached w.rep name (keysOf tags) f hf
  have h2 : lookupKey w'.rep.gauges (name, keysOf tags) = some f := by
    rw [hw']; exact (foldl_grows cfg mid _).gauges _ _ h1
  rw [gauge_use_of_cached cfg _ name tags f h2, hk]
  exact ⟨rfl, (withSeries_static _ f tags).errors⟩

/-- a concrete run: `RegisterCounter` + `With`, two `Add`s through the Prometheus counter, then
`AllocateCounter` of the same name and tags (usable, same series, no callback), one `Inc` through
the tally counter, a report pass: `Gather()` lists one series holding 3 + 4 + 5 -/
example : ((run {} [.use .counterAs [109] [], .op 0 (.inc 3), .op 0 (.inc 4), .use .counter [109] [],
      .op 1 (.inc 5)]).trace.map fun t => (t.outcome, t.callbacks))
    = [(.usable ⟨[109], []⟩, 0), (.usable ⟨[109], []⟩, 0)] := by decide

example : finalGather {} [.use .counterAs [109] [], .op 0 (.inc 3), .op 0 (.inc 4), .use .counter [109] [],
      .op 1 (.inc 5)]
    = [{ key := ⟨[109], []⟩, help := [109, 32, 99, 111, 117, 110, 116, 101, 114], val := .counter 12 }] := by
  have h : entriesOf (run {} ([.use .counterAs [109] [], .op 0 (.inc 3), .op 0 (.inc 4), .use .counter [109] [],
      .op 1 (.inc 5)] ++ [.pass])).rep
      = [{ key := ⟨[109], []⟩, help := [109, 32, 99, 111, 117, 110, 116, 101, 114], val := .counter 12 }] := by decide
  unfold finalGather gather
  rw [h, List.mergeSort_singleton]

/-- why the oracle's `normKind` keeps `gaugeAs` apart from `gauge` (while `counterAs` is a
`counter`): a direct `Set(2.5)` made after a buffered `Update(1.0)` is overwritten by the next
report pass — the shared series ends at 1.0, not at the last update in program order -/
example : getS (run {} [.use .gaugeAs [103] [], .use .gauge [103] [], .op 1 (.update 0x3FF0000000000000),
      .op 0 (.update 0x4004000000000000), .pass]).rep.series ⟨[103], []⟩ = some (.gauge 0x3FF0000000000000) := by decide

/-! ### `RegisterCounter` / `RegisterGauge` with the caller's own help text -/

/-- **counterAs_is_counterAsD_default** — `RegisterCounter(name, keys, name+" counter")` is the
`counterAs` use: same reporter afterwards, same outcome (`useMetric` does not record the kind) … -/
theorem counterAs_is_counterAsD_default (cfg : Cfg) (r : Reporter) (name : Bytes) (tags : Tags) :
    useMetric cfg r (.counterAsD (name ++ helpSuffix .counter)) name tags = useMetric cfg r .counterAs name tags := rfl

theorem gaugeAs_is_gaugeAsD_default (cfg : Cfg) (r : Reporter) (name : Bytes) (tags : Tags) :
    useMetric cfg r (.gaugeAsD (name ++ helpSuffix .gauge)) name tags = useMetric cfg r .gaugeAs name tags := rfl

/-- … and as a step of a history the two differ in the recorded kind only: same reporter, same
metric object handed to the caller, same outcome and callback count in the trace -/
theorem step_counterAsD_default (cfg : Cfg) (w : World) (name : Bytes) (tags : Tags) :
    (step cfg w (.use (.counterAsD (name ++ helpSuffix .counter)) name tags)).rep = (step cfg w (.use .counterAs name tags)).rep
    ∧ (step cfg w (.use (.counterAsD (name ++ helpSuffix .counter)) name tags)).metrics
        = (step cfg w (.use .counterAs name tags)).metrics
    ∧ (step cfg w (.use (.counterAsD (name ++ helpSuffix .counter)) name tags)).trace.map (fun t => (t.outcome, t.callbacks))
        = (step cfg w (.use .counterAs name tags)).trace.map (fun t => (t.outcome, t.callbacks)) := by
  simp only [step, counterAs_is_counterAsD_default]
  refine ⟨trivial, ?_, by simp⟩
  cases (useMetric cfg w.rep .counterAs name tags).2 <;> rfl

theorem step_gaugeAsD_default (cfg : Cfg) (w : World) (name : Bytes) (tags : Tags) :
    (step cfg w (.use (.gaugeAsD (name ++ helpSuffix .gauge)) name tags)).rep = (step cfg w (.use .gaugeAs name tags)).rep
    ∧ (step cfg w (.use (.gaugeAsD (name ++ helpSuffix .gauge)) name tags)).metrics
        = (step cfg w (.use .gaugeAs name tags)).metrics
    ∧ (step cfg w (.use (.gaugeAsD (name ++ helpSuffix .gauge)) name tags)).trace.map (fun t => (t.outcome, t.callbacks))
        = (step cfg w (.use .gaugeAs name tags)).trace.map (fun t => (t.outcome, t.callbacks)) := by
  simp only [step, gaugeAs_is_gaugeAsD_default]
  refine ⟨trivial, ?_, by simp⟩
  cases (useMetric cfg w.rep .gaugeAs name tags).2 <;> rfl

/-- **gather_register_counter_desc_sum** — `gather_register_counter_sum` for any help text -/
theorem gather_register_counter_desc_sum (cfg : Cfg) (pre post : List Ev) (d : Bytes) (name : Bytes) (tags : Tags)
    (hd : Separate pre post (.counterAsD d) name tags) (hu : Usable cfg pre (.counterAsD d) name tags) :
    (∃ e ∈ finalGather cfg (pre ++ [.use (.counterAsD d) name tags] ++ post), e.key = ⟨name, tags⟩)
    ∧ ∀ e ∈ finalGather cfg (pre ++ [.use (.counterAsD d) name tags] ++ post), e.key = ⟨name, tags⟩ →
        e.val = .counter (Spec.C17.incSum (proj (usesOf pre).length post)) := by
  obtain ⟨f, hfk, _, hex, hall⟩ := final_series cfg pre post (.counterAsD d) name tags hd hu
  refine ⟨hex, fun e he hk => ?_⟩
  rw [hall e he hk]
  have hz : Val.zero f = .counter 0 := by simp [Val.zero, hfk, Spec.C17.typeOf]
  have hrc : Spec.C17.incSum (proj (usesOf pre).length post ++ [.pass]) = Spec.C17.incSum (proj (usesOf pre).length post) := by
    generalize proj (usesOf pre).length post = l
    induction l with
    | nil => rfl
    | cons a t ih => cases a <;> simp [Spec.C17.incSum, ih]
  rw [hz]
  simp only [newMetric, localRun_rawCounter, Val.export, hrc, Nat.zero_add]

/-- **gather_register_gauge_desc_last** — `gather_register_gauge_last` for any help text -/
theorem gather_register_gauge_desc_last (cfg : Cfg) (pre post : List Ev) (d : Bytes) (name : Bytes) (tags : Tags)
    (hd : Separate pre post (.gaugeAsD d) name tags) (hu : Usable cfg pre (.gaugeAsD d) name tags) :
    (∃ e ∈ finalGather cfg (pre ++ [.use (.gaugeAsD d) name tags] ++ post), e.key = ⟨name, tags⟩)
    ∧ ∀ e ∈ finalGather cfg (pre ++ [.use (.gaugeAsD d) name tags] ++ post), e.key = ⟨name, tags⟩ →
        e.val = .gauge (Spec.C17.lastUpdate (proj (usesOf pre).length post) 0) := by
  obtain ⟨f, hfk, _, hex, hall⟩ := final_series cfg pre post (.gaugeAsD d) name tags hd hu
  refine ⟨hex, fun e he hk => ?_⟩
  rw [hall e he hk]
  have hz : Val.zero f = .gauge 0 := by simp [Val.zero, hfk, Spec.C17.typeOf]
  have hrc : ∀ d, Spec.C17.lastUpdate (proj (usesOf pre).length post ++ [.pass]) d = Spec.C17.lastUpdate (proj (usesOf pre).length post) d := by
    generalize proj (usesOf pre).length post = l
    induction l with
    | nil => intro d; rfl
    | cons a t ih => intro d; cases a <;> simp [Spec.C17.lastUpdate, ih]
  rw [hz]
  simp only [newMetric, localRun_rawGauge, Val.export, hrc]

/-- **register_same_help_other_kind_is_already** — in any reporter (reachable or not) whose caches
hold neither a counter nor a gauge vector for `(name, keys)`: once `RegisterCounter(name, keys, d)`
+ `With(tags)` handed the caller a usable Prometheus counter (so the family was registered with the
help text `d`), `RegisterGauge(name, keys, d')` with the same name and tag keys

* changes nothing at all — registry, caches, series, and the list of errors handed to
  `OnRegisterError` (the callback is not invoked, so it cannot panic either; the outcome is neither
  `callbackPanic` nor `nilDeref`): the error comes back to the caller;
* with the SAME text `d' = d` the error is `AlreadyRegisteredError` (`RegErr.already`: the two
  descriptors are equal — the kind is no part of a descriptor);
* with any OTHER text it is the "previously registered descriptor … different help string" error
  (`RegErr.inconsistent`). -/
theorem register_same_help_other_kind_is_already (cfg : Cfg) (r : Reporter) (name : Bytes) (tags tags' : Tags)
    (d d' : Bytes) (k : SeriesKey) (hkeys : keysOf tags' = keysOf tags)
    (hc : lookupKey r.counters (name, keysOf tags) = none) (hg : lookupKey r.gauges (name, keysOf tags) = none)
    (h : (useMetric cfg r (.counterAsD d) name tags).2 = .usable k) :
    ∀ r1, r1 = (useMetric cfg r (.counterAsD d) name tags).1 →
      (useMetric cfg r1 (.gaugeAsD d') name tags').1 = r1
      ∧ (d' = d → (useMetric cfg r1 (.gaugeAsD d') name tags').2 = .regError .already)
      ∧ (d' ≠ d → (useMetric cfg r1 (.gaugeAsD d') name tags').2 = .regError .inconsistent) := by
  intro r1 hr1
  obtain ⟨f, hf, _, hst⟩ := finishRegister_usable (counterVecD r name (keysOf tags) d) tags k h
  obtain ⟨hn, hfd, hreg, hgs⟩ := counterVecD_registered r name (keysOf tags) d f hc hf
  have hr1' : r1 = (finishRegister (counterVecD r name (keysOf tags) d) tags).1 := hr1
  have hreg1 : r1.reg = r.reg ++ [f] := by rw [hr1', hst.reg, hreg]
  have hg1 : lookupKey r1.gauges (name, keysOf tags) = none := by rw [hr1', hst.gauges, hgs]; exact hg
  have hv := gaugeVecD_conflict r1 r.reg f name (keysOf tags) d' hreg1 hn (by rw [hfd]; rfl) (by rw [hfd]; rfl) hg1
  have hu : useMetric cfg r1 (.gaugeAsD d') name tags' = finishRegister (gaugeVecD r1 name (keysOf tags) d') tags' := by
    rw [← hkeys]; rfl
  have hh : f.help = d := by rw [hfd]; rfl
  rw [hu, hv, hh]
  refine ⟨rfl, fun e => ?_, fun e => ?_⟩
  · simp [finishRegister, e]
  · have : ¬ d = d' := fun e' => e e'.symm
    simp [finishRegister, this]

/-- the same with the kinds exchanged: `RegisterGauge` first, then `RegisterCounter` -/
theorem register_same_help_other_kind_is_already_gauge_first (cfg : Cfg) (r : Reporter) (name : Bytes) (tags tags' : Tags)
    (d d' : Bytes) (k : SeriesKey) (hkeys : keysOf tags' = keysOf tags)
    (hc : lookupKey r.counters (name, keysOf tags) = none) (hg : lookupKey r.gauges (name, keysOf tags) = none)
    (h : (useMetric cfg r (.gaugeAsD d) name tags).2 = .usable k) :
    ∀ r1, r1 = (useMetric cfg r (.gaugeAsD d) name tags).1 →
      (useMetric cfg r1 (.counterAsD d') name tags').1 = r1
      ∧ (d' = d → (useMetric cfg r1 (.counterAsD d') name tags').2 = .regError .already)
      ∧ (d' ≠ d → (useMetric cfg r1 (.counterAsD d') name tags').2 = .regError .inconsistent) := by
  intro r1 hr1
  obtain ⟨f, hf, _, hst⟩ := finishRegister_usable (gaugeVecD r name (keysOf tags) d) tags k h
  obtain ⟨hn, hfd, hreg, hcs⟩ := gaugeVecD_registered r name (keysOf tags) d f hg hf
  have hr1' : r1 = (finishRegister (gaugeVecD r name (keysOf tags) d) tags).1 := hr1
  have hreg1 : r1.reg = r.reg ++ [f] := by rw [hr1', hst.reg, hreg]
  have hc1 : lookupKey r1.counters (name, keysOf tags) = none := by rw [hr1', hst.counters, hcs]; exact hc
  have hv := counterVecD_conflict r1 r.reg f name (keysOf tags) d' hreg1 hn (by rw [hfd]; rfl) (by rw [hfd]; rfl) hc1
  have hu : useMetric cfg r1 (.counterAsD d') name tags' = finishRegister (counterVecD r1 name (keysOf tags) d') tags' := by
    rw [← hkeys]; rfl
  have hh : f.help = d := by rw [hfd]; rfl
  rw [hu, hv, hh]
  refine ⟨rfl, fun e => ?_, fun e => ?_⟩
  · simp [finishRegister, e]
  · have : ¬ d = d' := fun e' => e e'.symm
    simp [finishRegister, this]

/-- with tally's default texts (`counterAs`, then `gaugeAs`: `name+" counter"` against
`name+" gauge"`) the second registration is therefore always the "previously registered" error -/
theorem register_default_help_other_kind_is_inconsistent (cfg : Cfg) (r : Reporter) (name : Bytes) (tags tags' : Tags)
    (k : SeriesKey) (hkeys : keysOf tags' = keysOf tags)
    (hc : lookupKey r.counters (name, keysOf tags) = none) (hg : lookupKey r.gauges (name, keysOf tags) = none)
    (h : (useMetric cfg r .counterAs name tags).2 = .usable k) :
    ∀ r1, r1 = (useMetric cfg r .counterAs name tags).1 →
      useMetric cfg r1 .gaugeAs name tags' = (r1, .regError .inconsistent) := by
  intro r1 hr1
  rw [← counterAs_is_counterAsD_default] at h hr1
  obtain ⟨h1, _, h3⟩ := register_same_help_other_kind_is_already cfg r name tags tags' (name ++ helpSuffix .counter)
    (name ++ helpSuffix .gauge) k hkeys hc hg h r1 hr1
  have hne : name ++ helpSuffix .gauge ≠ name ++ helpSuffix .counter := by
    intro e
    exact absurd (List.append_cancel_left e) (by decide)
  rw [← gaugeAs_is_gaugeAsD_default]
  exact Prod.ext h1 (h3 hne)

/-- **register_same_help_other_kind_in_history** — the same inside a history: after any `pre` that
does not mention `name`, `RegisterCounter(name, keys, d)` + `With(tags)` is usable, and a
`RegisterGauge(name, keys, d')` right after it leaves the reporter as it was, hands the caller
nothing (`Metric.dead`) and is recorded with the returned error's class and zero callback
invocations — `already` for the same text, `inconsistent` for another one -/
theorem register_same_help_other_kind_in_history (cfg : Cfg) (pre : List Ev) (name : Bytes) (tags tags' : Tags)
    (d d' : Bytes) (hkeys : keysOf tags' = keysOf tags) (hn : ∀ u ∈ usesOf pre, u.2.1 ≠ name) :
    ∀ w1, w1 = run cfg (pre ++ [.use (.counterAsD d) name tags]) →
      Usable cfg pre (.counterAsD d) name tags
      ∧ (run cfg (pre ++ [.use (.counterAsD d) name tags] ++ [.use (.gaugeAsD d') name tags'])).rep = w1.rep
      ∧ (run cfg (pre ++ [.use (.counterAsD d) name tags] ++ [.use (.gaugeAsD d') name tags'])).metrics = w1.metrics ++ [.dead]
      ∧ (run cfg (pre ++ [.use (.counterAsD d) name tags] ++ [.use (.gaugeAsD d') name tags'])).trace
          = w1.trace ++ [{ kind := .gaugeAsD d', outcome := .regError (if d' = d then .already else .inconsistent),
                           callbacks := 0 }] := by
  intro w1 hw1
  have hu : Usable cfg pre (.counterAsD d) name tags := fresh_usable cfg pre (.counterAsD d) name tags hn
  obtain ⟨k, hk⟩ := hu
  obtain ⟨_, hc, hg⟩ := fresh_misses cfg pre name (keysOf tags) hn
  have hrep : w1.rep = (useMetric cfg (run cfg pre).rep (.counterAsD d) name tags).1 := by
    rw [hw1, run_append]; rfl
  obtain ⟨h1, h2, h3⟩ := register_same_help_other_kind_is_already cfg (run cfg pre).rep name tags tags' d d' k hkeys hc hg hk
    w1.rep hrep
  have ho : (useMetric cfg w1.rep (.gaugeAsD d') name tags').2 = .regError (if d' = d then .already else .inconsistent) := by
    by_cases e : d' = d
    · rw [h2 e]; simp [e]
    · rw [h3 e]; simp [e]
  refine ⟨⟨k, hk⟩, ?_⟩
  rw [run_append, ← hw1]
  simp only [List.foldl_cons, List.foldl_nil, step]
  rw [show useMetric cfg w1.rep (.gaugeAsD d') name tags' = (w1.rep, .regError (if d' = d then .already else .inconsistent)) from
    Prod.ext h1 ho]
  simp

/-- non-vacuity of `register_same_help_other_kind_is_already` — on the initial reporter, under a
PANICKING callback: `RegisterCounter("m", [], "h")` + `With` is usable; `RegisterGauge("m", [], "h")`
(same text) comes back with `AlreadyRegisteredError`, `RegisterGauge("m", [], "i")` (another text)
with the "previously registered" error; the callback is never invoked, the registry keeps its one
family … -/
example : ((run { cbPanics := true } [.use (.counterAsD [104]) [109] [], .use (.gaugeAsD [104]) [109] [],
      .use (.gaugeAsD [105]) [109] []]).trace.map fun t => (t.outcome, t.callbacks))
    = [(.usable ⟨[109], []⟩, 0), (.regError .already, 0), (.regError .inconsistent, 0)] := by decide

example : (run { cbPanics := true } [.use (.counterAsD [104]) [109] [], .use (.gaugeAsD [104]) [109] [],
      .use (.gaugeAsD [105]) [109] []]).rep.reg
    = [{ name := [109], help := [104], labels := [], kind := .counter, bounds := [] }] := by decide

/-- … the theorem instantiated there (the hypotheses hold), with other tag values for the gauge … -/
example : ∀ r1, r1 = (useMetric {} {} (.counterAsD [104]) [109] [([97], [120])]).1 →
    (useMetric {} r1 (.gaugeAsD [104]) [109] [([97], [121])]).2 = .regError .already := fun r1 hr1 =>
  (register_same_help_other_kind_is_already {} {} [109] [([97], [120])] [([97], [121])] [104] [104] ⟨[109], [([97], [120])]⟩
    (by decide) (by decide) (by decide) (by decide) r1 hr1).2.1 rfl

/-- … with tally's own texts (`rc` then `rg`) the same history ends in "previously registered" … -/
example : ((run {} [.use .counterAs [109] [], .use .gaugeAs [109] []]).trace.map fun t => (t.outcome, t.callbacks))
    = [(.usable ⟨[109], []⟩, 0), (.regError .inconsistent, 0)] := by decide

/-- … and `Gather()` shows the caller's help text: `RegisterCounter("m", [], "h")`, two `Add`s -/
example : finalGather {} [.use (.counterAsD [104]) [109] [], .op 0 (.inc 3), .op 0 (.inc 4)]
    = [{ key := ⟨[109], []⟩, help := [104], val := .counter 7 }] := by
  have h : entriesOf (run {} ([.use (.counterAsD [104]) [109] [], .op 0 (.inc 3), .op 0 (.inc 4)] ++ [.pass])).rep
      = [{ key := ⟨[109], []⟩, help := [104], val := .counter 7 }] := by decide
  unfold finalGather gather
  rw [h, List.mergeSort_singleton]

/-- a cache hit ignores the text: `AllocateCounter` (default text) first, then
`RegisterCounter(…, "h")` of the same name and tag keys is usable and shares the series; a
`RegisterGauge(…, "h")` after that meets the DEFAULT counter text in the registry, hence
"previously registered" — the cache-miss hypothesis of the theorem is needed -/
example : ((run {} [.use .counter [109] [], .use (.counterAsD [104]) [109] [], .use (.gaugeAsD [104]) [109] []]).trace.map
      fun t => (t.outcome, t.callbacks))
    = [(.usable ⟨[109], []⟩, 0), (.usable ⟨[109], []⟩, 0), (.regError .inconsistent, 0)] := by decide

end Tally.Props.C17
