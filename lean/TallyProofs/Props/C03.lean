import Tally.Model.Buckets
import Tally.Spec.C03
import TallyProofs.Lemmas.Search
import TallyProofs.Lemmas.ListAux
/-!
# C03 — each histogram sample lands in the one correct bucket; buckets tile the line

Property theorems only.  The oracle predicates `Spec.C03.placed`, `Spec.C03.tiles`,
`Spec.C03.placedNonFinite` are the ones the driver evaluates on the implementation's output.
-/
namespace Tally.Props.C03
open Tally Tally.Buckets Tally.ListAux

/-! ### sorted lists make the search predicate monotone -/

theorem mono_of_sorted (us : List Int) (hs : us.Pairwise (· ≤ ·)) (v : Int) :
    MonoOn us.length (fun i => decide (us.getD i 0 ≥ v)) := by
  intro a b hab hb ha
  simp only [decide_eq_true_eq] at *
  have ha' : a < us.length := by omega
  rw [getD_eq_getElem _ _ ha'] at ha
  rw [getD_eq_getElem _ _ hb]
  rcases Nat.lt_or_ge a b with h | h
  · have := (List.pairwise_iff_getElem.mp hs) a b ha' hb h
    omega
  · have : a = b := by omega
    subst this; exact ha

/-- **placement (generic)**: for non-decreasing upper bounds whose last element is `≥ v`, the
index chosen by the `sort.Search` loop of `RecordDuration` / `RecordValue` satisfies the oracle:
in range, upper bound `≥ v`, every earlier upper bound `< v` (so it is the one smallest such). -/
theorem placeKey_placed (us : List Int) (hs : us.Pairwise (· ≤ ·)) (v : Int)
    (hlast : ∃ m, us.getLast? = some m ∧ v ≤ m) :
    Spec.C03.placed us v (placeKey us v) = true := by
  obtain ⟨m, hm, hvm⟩ := hlast
  have hne : us ≠ [] := by intro h; simp [h] at hm
  have hlen : 0 < us.length := List.length_pos_iff.mpr hne
  obtain ⟨h1, h2, h3⟩ := search_least us.length _ (mono_of_sorted us hs v)
  -- the last index satisfies the predicate, so the search result is in range
  have hlastIdx : (fun i => decide (us.getD i 0 ≥ v)) (us.length - 1) = true := by
    simp only [decide_eq_true_eq]
    rw [getD_eq_getElem _ _ (by omega)]
    have : us.getLast? = some us[us.length - 1] := by
      rw [List.getLast?_eq_getElem?]; simp
    rw [this] at hm; injection hm with hm; omega
  have hr : search us.length (fun i => decide (us.getD i 0 ≥ v)) < us.length := by
    rcases Nat.lt_or_ge (search us.length (fun i => decide (us.getD i 0 ≥ v))) us.length with h | h
    · exact h
    · have := h2 (us.length - 1) (by omega)
      simp only at hlastIdx
      rw [hlastIdx] at this; cases this
  unfold placeKey Spec.C03.placed
  simp only [show ¬ (search us.length (fun i => decide (us.getD i 0 ≥ v)) ≥ us.length) by omega, if_false]
  simp only [Bool.and_eq_true, decide_eq_true_eq, List.all_eq_true, List.mem_range]
  refine ⟨⟨hr, ?_⟩, ?_⟩
  · have := h3 _ (Nat.le_refl _) hr
    simpa using this
  · intro j hj
    have := h2 j hj
    simp only [decide_eq_false_iff_not] at this
    omega

/-- the chosen index is always in range — `RecordDuration` / `RecordValue` never index out of
range, for *any* list of upper bounds and any sample (this is the no-panic clause). -/
theorem placeKey_in_range (us : List Int) (hne : us ≠ []) (v : Int) : placeKey us v < us.length := by
  have hlen : 0 < us.length := List.length_pos_iff.mpr hne
  unfold placeKey
  simp only
  split <;> omega

theorem placeValue_in_range (us : List F64) (hne : us ≠ []) (v : F64) : placeValue us v < us.length := by
  have hlen : 0 < us.length := List.length_pos_iff.mpr hne
  unfold placeValue
  simp only
  split <;> omega

/-! ### durations -/

theorem sortByKey_perm (key : α → Int) (l : List α) : (sortByKey key l).Perm l :=
  List.mergeSort_perm _ _

theorem sortByKey_sorted (key : α → Int) (l : List α) :
    (sortByKey key l).Pairwise (fun a b => key a ≤ key b) := by
  have := List.pairwise_mergeSort (le := fun a b => decide (key a ≤ key b))
    (by intro a b c; simp only [decide_eq_true_eq]; omega)
    (by intro a b; simp only [Bool.or_eq_true, decide_eq_true_eq]; omega) l
  simpa [sortByKey] using this

/-- **tiling (durations)**: the stored upper bounds are a sorted permutation of the spec followed
by `MaxInt64`; they never decrease; lower bound 0 is `MinInt64` and each later lower bound is the
previous upper bound. Holds for every spec of int64 values (any order, duplicates, negatives,
empty). -/
theorem tiling_duration (spec : List Int) (hr : ∀ x ∈ spec, x ≤ maxInt64) :
    (durationUppers spec).length = spec.length + 1
    ∧ (durationUppers spec).dropLast.Perm spec
    ∧ (durationUppers spec).getLast? = some maxInt64
    ∧ (durationUppers spec).Pairwise (· ≤ ·)
    ∧ durationLower (durationUppers spec) 0 = minInt64
    ∧ ∀ i, i + 1 < (durationUppers spec).length →
        durationLower (durationUppers spec) (i + 1) = (durationUppers spec).getD i 0 := by
  have hp := sortByKey_perm id spec
  refine ⟨?_, ?_, ?_, ?_, ?_, ?_⟩
  · simp [durationUppers, hp.length_eq]
  · simpa [durationUppers] using hp
  · simp [durationUppers]
  · unfold durationUppers
    rw [List.pairwise_append]
    refine ⟨by simpa using sortByKey_sorted id spec, by simp, ?_⟩
    intro a ha b hb
    simp at hb; subst hb
    exact hr a (hp.mem_iff.mp ha)
  · simp [durationLower]
  · intro i _; simp [durationLower]

/-- **placement (durations)**: every int64 sample is counted in exactly the bucket the oracle
demands. -/
theorem placement_duration (spec : List Int) (hr : ∀ x ∈ spec, x ≤ maxInt64) (v : Int) (hv : v ≤ maxInt64) :
    Spec.C03.placed (durationUppers spec) v (placeKey (durationUppers spec) v) = true := by
  obtain ⟨_, _, hl, hs, _, _⟩ := tiling_duration spec hr
  exact placeKey_placed _ hs v ⟨maxInt64, hl, hv⟩

/-! ### values -/

/-- `F64.ge` on non-NaN floats is `≥` on keys -/
theorem ge_iff_key (a b : F64) (ha : F64.isNaN a = false) (hb : F64.isNaN b = false) :
    F64.ge a b = decide (F64.key a ≥ F64.key b) := by
  simp [F64.ge, F64.le, ha, hb]

theorem placeValue_eq_placeKey (us : List F64) (v : F64) (hus : ∀ x ∈ us, F64.isNaN x = false)
    (hv : F64.isNaN v = false) :
    placeValue us v = placeKey (us.map F64.key) (F64.key v) := by
  unfold placeValue placeKey search
  simp only [List.length_map]
  have hf : ∀ i j, searchFrom (fun i => F64.ge (us.getD i 0) v) i j
      = searchFrom (fun i => decide ((us.map F64.key).getD i 0 ≥ F64.key v)) i j := by
    intro i j
    induction h : j - i using Nat.strongRecOn generalizing i j with
    | _ d ih =>
      rw [searchFrom, searchFrom.eq_def (fun i => decide ((us.map F64.key).getD i 0 ≥ F64.key v))]
      split
      · next hlt =>
        have hm : (i + j) / 2 < j := by omega
        have e : F64.ge (us.getD ((i + j) / 2) 0) v
            = decide ((us.map F64.key).getD ((i + j) / 2) 0 ≥ F64.key v) := by
          by_cases hin : (i + j) / 2 < us.length
          · rw [getD_eq_getElem _ _ hin, getD_eq_getElem _ _ (by simpa using hin)]
            simp only [List.getElem_map]
            exact ge_iff_key _ _ (hus _ (List.getElem_mem hin)) hv
          · have h1 : us.getD ((i + j) / 2) 0 = 0 := by
              rw [getD_eq_default]; omega
            have h2 : (us.map F64.key).getD ((i + j) / 2) 0 = 0 := by
              rw [getD_eq_default]; simp; omega
            rw [h1, h2]
            have h0 : F64.isNaN (0 : F64) = false := by decide
            rw [ge_iff_key _ _ h0 hv]
            have : F64.key (0 : F64) = 0 := by decide
            rw [this]
        simp only [e]
        split
        · exact ih _ (by omega) _ _ rfl
        · exact ih _ (by omega) _ _ rfl
      · rfl
  rw [hf]

theorem key_le_max_of_finite (x : F64) (h : F64.isFinite x = true) : F64.key x ≤ F64.key F64.maxFloat := by
  have hm : F64.key F64.maxFloat = 0x7FEFFFFFFFFFFFFF := by decide
  rw [hm]
  unfold F64.isFinite F64.expInf at h
  unfold F64.key
  simp only [decide_eq_true_eq] at h
  split <;> omega

theorem finite_not_nan (x : F64) (h : F64.isFinite x = true) : F64.isNaN x = false := by
  unfold F64.isFinite at h; unfold F64.isNaN
  simp only [decide_eq_true_eq, decide_eq_false_iff_not] at *; omega

/-- **tiling (values)**: as for durations, over the float key order, for every spec of finite
floats. -/
theorem tiling_value (spec : List F64) (hr : ∀ x ∈ spec, F64.isFinite x = true) :
    (valueUppers spec).length = spec.length + 1
    ∧ (valueUppers spec).dropLast.Perm spec
    ∧ (valueUppers spec).getLast? = some F64.maxFloat
    ∧ ((valueUppers spec).map F64.key).Pairwise (· ≤ ·)
    ∧ (∀ x ∈ valueUppers spec, F64.isFinite x = true)
    ∧ valueLower (valueUppers spec) 0 = F64.negMaxFloat
    ∧ ∀ i, i + 1 < (valueUppers spec).length →
        valueLower (valueUppers spec) (i + 1) = (valueUppers spec).getD i 0 := by
  have hp := sortByKey_perm F64.key spec
  refine ⟨?_, ?_, ?_, ?_, ?_, ?_, ?_⟩
  · simp [valueUppers, hp.length_eq]
  · simpa [valueUppers] using hp
  · simp [valueUppers]
  · unfold valueUppers
    rw [List.map_append, List.pairwise_append]
    refine ⟨?_, by simp, ?_⟩
    · rw [List.pairwise_map]; exact sortByKey_sorted F64.key spec
    · intro a ha b hb
      simp at hb; subst hb
      obtain ⟨x, hx, rfl⟩ := List.mem_map.mp ha
      exact key_le_max_of_finite x (hr x (hp.mem_iff.mp hx))
  · intro x hx
    simp only [valueUppers, List.mem_append, List.mem_singleton] at hx
    rcases hx with hx | hx
    · exact hr x (hp.mem_iff.mp hx)
    · subst hx; decide
  · simp [valueLower]
  · intro i _; simp [valueLower]

/-- **placement (values)**: every finite sample is counted in exactly the bucket the oracle
demands (least upper bound `≥` the sample in IEEE order). -/
theorem placement_value (spec : List F64) (hr : ∀ x ∈ spec, F64.isFinite x = true)
    (v : F64) (hv : F64.isFinite v = true) :
    Spec.C03.placed ((valueUppers spec).map F64.key) (F64.key v) (placeValue (valueUppers spec) v) = true := by
  obtain ⟨_, _, hl, hs, hfin, _, _⟩ := tiling_value spec hr
  rw [placeValue_eq_placeKey _ _ (fun x hx => finite_not_nan x (hfin x hx)) (finite_not_nan v hv)]
  apply placeKey_placed _ hs
  refine ⟨F64.key F64.maxFloat, ?_, key_le_max_of_finite v hv⟩
  rw [List.getLast?_map, hl]; rfl

/-- NaN compares false with everything: the search returns `len`, the clamp puts the sample in
the last bucket. -/
theorem nan_last (us : List F64) (v : F64) (hv : F64.isNaN v = true) :
    placeValue us v = us.length - 1 := by
  have hf : (fun i => F64.ge (us.getD i 0) v) = fun _ => false := by
    funext i; simp [F64.ge, F64.le, hv]
  have hs : ∀ n i j, j - i = n → searchFrom (fun _ => false) i j = if i < j then j else i := by
    intro n
    induction n using Nat.strongRecOn with
    | _ n ih =>
      intro i j h
      rw [searchFrom]
      split
      · next hlt =>
        simp only [Bool.false_eq_true, if_false]
        rw [ih (j - ((i + j) / 2 + 1)) (by omega) _ _ rfl]
        split <;> omega
      · rfl
  unfold placeValue search
  rw [hf, hs _ 0 us.length rfl]
  split <;> simp <;> omega

/-- **non-finite samples**: `+Inf` goes to the last bucket, `-Inf` to the first, a NaN to exactly
one bucket (the last); never out of range. -/
theorem nonfinite_value (spec : List F64) (hr : ∀ x ∈ spec, F64.isFinite x = true)
    (v : F64) (hv : F64.isFinite v = false) :
    Spec.C03.placedNonFinite (valueUppers spec).length v (placeValue (valueUppers spec) v) = true := by
  obtain ⟨hlen, _, hl, hs, hfin, _, _⟩ := tiling_value spec hr
  have hne : valueUppers spec ≠ [] := by intro h; simp [h] at hlen
  have hrange := placeValue_in_range (valueUppers spec) hne v
  unfold Spec.C03.placedNonFinite
  by_cases hn : F64.isNaN v = true
  · simp [hn, hrange]
  · simp only [hn, Bool.false_eq_true, if_false]
    have hn' : F64.isNaN v = false := by simpa using hn
    have hnan : ∀ x ∈ valueUppers spec, F64.isNaN x = false := fun x hx => finite_not_nan x (hfin x hx)
    rw [placeValue_eq_placeKey _ _ hnan hn']
    -- v is ±Inf: its key is beyond every finite key
    have hmag : F64.mag v = F64.expInf := by
      unfold F64.isFinite at hv; unfold F64.isNaN at hn'
      simp only [decide_eq_false_iff_not] at hv hn'; omega
    have hkeys : ∀ k ∈ (valueUppers spec).map F64.key, -(0x7FEFFFFFFFFFFFFF : Int) ≤ k ∧ k ≤ 0x7FEFFFFFFFFFFFFF := by
      intro k hk
      obtain ⟨x, hx, rfl⟩ := List.mem_map.mp hk
      have := hfin x hx
      unfold F64.isFinite F64.expInf at this
      simp only [decide_eq_true_eq] at this
      unfold F64.key; split <;> omega
    have hklen : ((valueUppers spec).map F64.key).length = (valueUppers spec).length := by simp
    generalize (valueUppers spec).map F64.key = ks at hs hkeys hklen ⊢
    obtain ⟨h1, h2, h3⟩ := search_least ks.length _ (mono_of_sorted ks hs (F64.key v))
    split
    · next hp =>
      -- +Inf : no key is ≥, search returns len, clamp to len - 1
      have hv' : v = F64.posInf := by simpa using hp
      have hk : F64.key v = 0x7FF0000000000000 := by subst hv'; decide
      have hall : ∀ i, i < ks.length → (fun i => decide (ks.getD i 0 ≥ F64.key v)) i = false := by
        intro i hi
        simp only [decide_eq_false_iff_not]
        rw [getD_eq_getElem _ _ hi, hk]
        have := (hkeys _ (List.getElem_mem hi)).2; omega
      have : search ks.length (fun i => decide (ks.getD i 0 ≥ F64.key v)) = ks.length := by
        rcases Nat.lt_or_ge (search ks.length (fun i => decide (ks.getD i 0 ≥ F64.key v))) ks.length with h | h
        · have a := h3 _ (Nat.le_refl _) h
          have b := hall _ h
          simp only at b
          rw [a] at b; cases b
        · omega
      unfold placeKey
      simp only [this]
      simp; omega
    · split
      · next hp hq =>
        have hv' : v = F64.negInf := by simpa using hq
        have hk : F64.key v = -0x7FF0000000000000 := by subst hv'; decide
        have h0 : (fun i => decide (ks.getD i 0 ≥ F64.key v)) 0 = true := by
          simp only [decide_eq_true_eq]
          rw [getD_eq_getElem _ _ (by omega), hk]
          have := (hkeys _ (List.getElem_mem (show 0 < ks.length by omega))).1; omega
        have : search ks.length (fun i => decide (ks.getD i 0 ≥ F64.key v)) = 0 := by
          rcases Nat.eq_zero_or_pos (search ks.length (fun i => decide (ks.getD i 0 ≥ F64.key v))) with h | h
          · exact h
          · have a := h2 0 h
            simp only at h0
            rw [h0] at a; cases a
        have hpos : ¬ (0 ≥ ks.length) := by omega
        unfold placeKey
        simp only [this, hpos, if_false]
        simp
      · rfl

/-! ### non-vacuity: concrete specs and samples meeting the hypotheses -/

/-- the hypotheses of `placement_duration` are met by an unsorted spec with a duplicate and a
sample equal to the duplicated bound -/
example : Spec.C03.placed (durationUppers [5, 1, 3, 3]) 3 (placeKey (durationUppers [5, 1, 3, 3]) 3) = true :=
  placement_duration [5, 1, 3, 3] (by decide) 3 (by decide)

/-- … and of `placement_value` / `nonfinite_value` by the spec `{2.0, -0.0, 1.0}` with the
samples `1.0` and `+Inf` -/
example : Spec.C03.placed ((valueUppers [0x4000000000000000, 0x8000000000000000, 0x3FF0000000000000]).map F64.key)
    (F64.key 0x3FF0000000000000)
    (placeValue (valueUppers [0x4000000000000000, 0x8000000000000000, 0x3FF0000000000000]) 0x3FF0000000000000) = true :=
  placement_value _ (by decide) _ (by decide)

example : Spec.C03.placedNonFinite (valueUppers [0x4000000000000000, 0x8000000000000000]).length F64.posInf
    (placeValue (valueUppers [0x4000000000000000, 0x8000000000000000]) F64.posInf) = true :=
  nonfinite_value _ (by decide) _ (by decide)

end Tally.Props.C03
