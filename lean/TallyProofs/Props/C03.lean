import Tally.Model.Buckets
import Tally.Spec.C03
import TallyProofs.Lemmas.Search
import TallyProofs.Lemmas.ListAux
import TallyProofs.Lemmas.ScopeConservationInst
import TallyProofs.Lemmas.ScopeLiveReg
/-!
# C03 — each histogram sample lands in the one correct bucket; buckets tile the line

Property theorems only.  The oracle predicates `Spec.C03.placed`, `Spec.C03.tiles`,
`Spec.C03.placedNonFinite` are the ones the driver evaluates on the implementation's output.
-/
namespace Tally.Props.C03
open Tally Tally.Buckets Tally.ListAux

/-! ### sorted lists make the search predicate monotone -/

theorem mono_of_sorted (us : List Int) (hs : us.Pairwise (· ≤ ·)) (v : Int) :
    MonoOn us.length (fun i => decide (us.getD i 0 ≥ v)) := by
  intro a b hab hb ha
  simp only [decide_eq_true_eq] at *
  have ha' : a < us.length := by omega
  rw [getD_eq_getElem _ _ ha'] at ha
  rw [getD_eq_getElem _ _ hb]
  rcases Nat.lt_or_ge a b with h | h
  · have := (List.pairwise_iff_getElem.mp hs) a b ha' hb h
    omega
  · have : a = b := by omega
    subst this; exact ha

/-- **placement (generic)**: for non-decreasing upper bounds whose last element is `≥ v`, the
index chosen by the `sort.Search` loop of `RecordDuration` / `RecordValue` satisfies the oracle:
in range, upper bound `≥ v`, every earlier upper bound `< v` (so it is the one smallest such). -/
theorem placeKey_placed (us : List Int) (hs : us.Pairwise (· ≤ ·)) (v : Int)
    (hlast : ∃ m, us.getLast? = some m ∧ v ≤ m) :
    Spec.C03.placed us v (placeKey us v) = true := by
  obtain ⟨m, hm, hvm⟩ := hlast
  have hne : us ≠ [] := by intro h; simp [h] at hm
  have hlen : 0 < us.length := List.length_pos_iff.mpr hne
  obtain ⟨h1, h2, h3⟩ := search_least us.length _ (mono_of_sorted us hs v)
  -- the last index satisfies the predicate, so the search result is in range
  have hlastIdx : (fun i => decide (us.getD i 0 ≥ v)) (us.length - 1) = true := by
    simp only [decide_eq_true_eq]
    rw [getD_eq_getElem _ _ (by omega)]
    have : us.getLast? = some us[us.length - 1] := by
      rw [List.getLast?_eq_getElem?]; simp
    rw [this] at hm; injection hm with hm; omega
  have hr : search us.length (fun i => decide (us.getD i 0 ≥ v)) < us.length := by
    rcases Nat.lt_or_ge (search us.length (fun i => decide (us.getD i 0 ≥ v))) us.length with h | h
    · exact h
    · have := h2 (us.length - 1) (by omega)
      simp only at hlastIdx
      rw [hlastIdx] at this; cases this
  unfold placeKey Spec.C03.placed
  simp only [show ¬ (search us.length (fun i => decide (us.getD i 0 ≥ v)) ≥ us.length) by omega, if_false]
  simp only [Bool.and_eq_true, decide_eq_true_eq, List.all_eq_true, List.mem_range]
  refine ⟨⟨hr, ?_⟩, ?_⟩
  · have := h3 _ (Nat.le_refl _) hr
    simpa using this
  · intro j hj
    have := h2 j hj
    simp only [decide_eq_false_iff_not] at this
    omega

/-- the chosen index is always in range — `RecordDuration` / `RecordValue` never index out of
range, for *any* list of upper bounds and any sample (this is the no-panic clause). -/
theorem placeKey_in_range (us : List Int) (hne : us ≠ []) (v : Int) : placeKey us v < us.length := by
  have hlen : 0 < us.length := List.length_pos_iff.mpr hne
  unfold placeKey
  simp only
  split <;> omega

theorem placeValue_in_range (us : List F64) (hne : us ≠ []) (v : F64) : placeValue us v < us.length := by
  have hlen : 0 < us.length := List.length_pos_iff.mpr hne
  unfold placeValue
  simp only
  split <;> omega

/-! ### durations -/

theorem sortByKey_perm (key : α → Int) (l : List α) : (sortByKey key l).Perm l :=
  List.mergeSort_perm _ _

theorem sortByKey_sorted (key : α → Int) (l : List α) :
    (sortByKey key l).Pairwise (fun a b => key a ≤ key b) := by
  have := List.pairwise_mergeSort (le := fun a b => decide (key a ≤ key b))
    (by intro a b c; simp only [decide_eq_true_eq]; omega)
    (by intro a b; simp only [Bool.or_eq_true, decide_eq_true_eq]; omega) l
  simpa [sortByKey] using this

/-- **tiling (durations)**: the stored upper bounds are a sorted permutation of the spec followed
by `MaxInt64`; they never decrease; lower bound 0 is `MinInt64` and each later lower bound is the
previous upper bound. Holds for every spec of int64 values (any order, duplicates, negatives,
empty). -/
theorem tiling_duration (spec : List Int) (hr : ∀ x ∈ spec, x ≤ maxInt64) :
    (durationUppers spec).length = spec.length + 1
    ∧ (durationUppers spec).dropLast.Perm spec
    ∧ (durationUppers spec).getLast? = some maxInt64
    ∧ (durationUppers spec).Pairwise (· ≤ ·)
    ∧ durationLower (durationUppers spec) 0 = minInt64
    ∧ ∀ i, i + 1 < (durationUppers spec).length →
        durationLower (durationUppers spec) (i + 1) = (durationUppers spec).getD i 0 := by
  have hp := sortByKey_perm id spec
  refine ⟨?_, ?_, ?_, ?_, ?_, ?_⟩
  · simp [durationUppers, hp.length_eq]
  · simpa [durationUppers] using hp
  · simp [durationUppers]
  · unfold durationUppers
    rw [List.pairwise_append]
    refine ⟨by simpa using sortByKey_sorted id spec, by simp, ?_⟩
    intro a ha b hb
    simp at hb; subst hb
    exact hr a (hp.mem_iff.mp ha)
  · simp [durationLower]
  · intro i _; simp [durationLower]

/-- **placement (durations)**: every int64 sample is counted in exactly the bucket the oracle
demands. -/
theorem placement_duration (spec : List Int) (hr : ∀ x ∈ spec, x ≤ maxInt64) (v : Int) (hv : v ≤ maxInt64) :
    Spec.C03.placed (durationUppers spec) v (placeKey (durationUppers spec) v) = true := by
  obtain ⟨_, _, hl, hs, _, _⟩ := tiling_duration spec hr
  exact placeKey_placed _ hs v ⟨maxInt64, hl, hv⟩

/-! ### values -/

/-- `F64.ge` on non-NaN floats is `≥` on keys -/
theorem ge_iff_key (a b : F64) (ha : F64.isNaN a = false) (hb : F64.isNaN b = false) :
    F64.ge a b = decide (F64.key a ≥ F64.key b) := by
  simp [F64.ge, F64.le, ha, hb]

theorem placeValue_eq_placeKey (us : List F64) (v : F64) (hus : ∀ x ∈ us, F64.isNaN x = false)
    (hv : F64.isNaN v = false) :
    placeValue us v = placeKey (us.map F64.key) (F64.key v) := by
  unfold placeValue placeKey search
  simp only [List.length_map]
  have hf : ∀ i j, searchFrom (fun i => F64.ge (us.getD i 0) v) i j
      = searchFrom (fun i => decide ((us.map F64.key).getD i 0 ≥ F64.key v)) i j := by
    intro i j
    induction h : j - i using Nat.strongRecOn generalizing i j with
    | _ d ih =>
      rw [searchFrom, searchFrom.eq_def (fun i => decide ((us.map F64.key).getD i 0 ≥ F64.key v))]
      split
      · next hlt =>
        have hm : (i + j) / 2 < j := by omega
        have e : F64.ge (us.getD ((i + j) / 2) 0) v
            = decide ((us.map F64.key).getD ((i + j) / 2) 0 ≥ F64.key v) := by
          by_cases hin : (i + j) / 2 < us.length
          · rw [getD_eq_getElem _ _ hin, getD_eq_getElem _ _ (by simpa using hin)]
            simp only [List.getElem_map]
            exact ge_iff_key _ _ (hus _ (List.getElem_mem hin)) hv
          · have h1 : us.getD ((i + j) / 2) 0 = 0 := by
              rw [getD_eq_default]; omega
            have h2 : (us.map F64.key).getD ((i + j) / 2) 0 = 0 := by
              rw [getD_eq_default]; simp; omega
            rw [h1, h2]
            have h0 : F64.isNaN (0 : F64) = false := by decide
            rw [ge_iff_key _ _ h0 hv]
            have : F64.key (0 : F64) = 0 := by decide
            rw [this]
        simp only [e]
        split
        · exact ih _ (by omega) _ _ rfl
        · exact ih _ (by omega) _ _ rfl
      · rfl
  rw [hf]

theorem key_le_max_of_finite (x : F64) (h : F64.isFinite x = true) : F64.key x ≤ F64.key F64.maxFloat := by
  have hm : F64.key F64.maxFloat = 0x7FEFFFFFFFFFFFFF := by decide
  rw [hm]
  unfold F64.isFinite F64.expInf at h
  unfold F64.key
  simp only [decide_eq_true_eq] at h
  split <;> omega

theorem finite_not_nan (x : F64) (h : F64.isFinite x = true) : F64.isNaN x = false := by
  unfold F64.isFinite at h; unfold F64.isNaN
  simp only [decide_eq_true_eq, decide_eq_false_iff_not] at *; omega

/-- **tiling (values)**: as for durations, over the float key order, for every spec of finite
floats. -/
theorem tiling_value (spec : List F64) (hr : ∀ x ∈ spec, F64.isFinite x = true) :
    (valueUppers spec).length = spec.length + 1
    ∧ (valueUppers spec).dropLast.Perm spec
    ∧ (valueUppers spec).getLast? = some F64.maxFloat
    ∧ ((valueUppers spec).map F64.key).Pairwise (· ≤ ·)
    ∧ (∀ x ∈ valueUppers spec, F64.isFinite x = true)
    ∧ valueLower (valueUppers spec) 0 = F64.negMaxFloat
    ∧ ∀ i, i + 1 < (valueUppers spec).length →
        valueLower (valueUppers spec) (i + 1) = (valueUppers spec).getD i 0 := by
  have hp := sortByKey_perm F64.key spec
  refine ⟨?_, ?_, ?_, ?_, ?_, ?_, ?_⟩
  · simp [valueUppers, hp.length_eq]
  · simpa [valueUppers] using hp
  · simp [valueUppers]
  · unfold valueUppers
    rw [List.map_append, List.pairwise_append]
    refine ⟨?_, by simp, ?_⟩
    · rw [List.pairwise_map]; exact sortByKey_sorted F64.key spec
    · intro a ha b hb
      simp at hb; subst hb
      obtain ⟨x, hx, rfl⟩ := List.mem_map.mp ha
      exact key_le_max_of_finite x (hr x (hp.mem_iff.mp hx))
  · intro x hx
    simp only [valueUppers, List.mem_append, List.mem_singleton] at hx
    rcases hx with hx | hx
    · exact hr x (hp.mem_iff.mp hx)
    · subst hx; decide
  · simp [valueLower]
  · intro i _; simp [valueLower]

/-- **placement (values)**: every finite sample is counted in exactly the bucket the oracle
demands (least upper bound `≥` the sample in IEEE order). -/
theorem placement_value (spec : List F64) (hr : ∀ x ∈ spec, F64.isFinite x = true)
    (v : F64) (hv : F64.isFinite v = true) :
    Spec.C03.placed ((valueUppers spec).map F64.key) (F64.key v) (placeValue (valueUppers spec) v) = true := by
  obtain ⟨_, _, hl, hs, hfin, _, _⟩ := tiling_value spec hr
  rw [placeValue_eq_placeKey _ _ (fun x hx => finite_not_nan x (hfin x hx)) (finite_not_nan v hv)]
  apply placeKey_placed _ hs
  refine ⟨F64.key F64.maxFloat, ?_, key_le_max_of_finite v hv⟩
  rw [List.getLast?_map, hl]; rfl

/-- NaN compares false with everything: the search returns `len`, the clamp puts the sample in
the last bucket. -/
theorem nan_last (us : List F64) (v : F64) (hv : F64.isNaN v = true) :
    placeValue us v = us.length - 1 := by
  have hf : (fun i => F64.ge (us.getD i 0) v) = fun _ => false := by
    funext i; simp [F64.ge, F64.le, hv]
  have hs : ∀ n i j, j - i = n → searchFrom (fun _ => false) i j = if i < j then j else i := by
    intro n
    induction n using Nat.strongRecOn with
    | _ n ih =>
      intro i j h
      rw [searchFrom]
      split
      · next hlt =>
        simp only [Bool.false_eq_true, if_false]
        rw [ih (j - ((i + j) / 2 + 1)) (by omega) _ _ rfl]
        split <;> omega
      · rfl
  unfold placeValue search
  rw [hf, hs _ 0 us.length rfl]
  split <;> simp <;> omega

/-- **non-finite samples**: `+Inf` goes to the last bucket, `-Inf` to the first, a NaN to exactly
one bucket (the last); never out of range. -/
theorem nonfinite_value (spec : List F64) (hr : ∀ x ∈ spec, F64.isFinite x = true)
    (v : F64) (hv : F64.isFinite v = false) :
    Spec.C03.placedNonFinite (valueUppers spec).length v (placeValue (valueUppers spec) v) = true := by
  obtain ⟨hlen, _, hl, hs, hfin, _, _⟩ := tiling_value spec hr
  have hne : valueUppers spec ≠ [] := by intro h; simp [h] at hlen
  have hrange := placeValue_in_range (valueUppers spec) hne v
  unfold Spec.C03.placedNonFinite
  by_cases hn : F64.isNaN v = true
  · simp [hn, hrange]
  · simp only [hn, Bool.false_eq_true, if_false]
    have hn' : F64.isNaN v = false := by simpa using hn
    have hnan : ∀ x ∈ valueUppers spec, F64.isNaN x = false := fun x hx => finite_not_nan x (hfin x hx)
    rw [placeValue_eq_placeKey _ _ hnan hn']
    -- v is ±Inf: its key is beyond every finite key
    have hmag : F64.mag v = F64.expInf := by
      unfold F64.isFinite at hv; unfold F64.isNaN at hn'
      simp only [decide_eq_false_iff_not] at hv hn'; omega
    have hkeys : ∀ k ∈ (valueUppers spec).map F64.key, -(0x7FEFFFFFFFFFFFFF : Int) ≤ k ∧ k ≤ 0x7FEFFFFFFFFFFFFF := by
      intro k hk
      obtain ⟨x, hx, rfl⟩ := List.mem_map.mp hk
      have := hfin x hx
      unfold F64.isFinite F64.expInf at this
      simp only [decide_eq_true_eq] at this
      unfold F64.key; split <;> omega
    have hklen : ((valueUppers spec).map F64.key).length = (valueUppers spec).length := by simp
    generalize (valueUppers spec).map F64.key = ks at hs hkeys hklen ⊢
    obtain ⟨h1, h2, h3⟩ := search_least ks.length _ (mono_of_sorted ks hs (F64.key v))
    split
    · next hp =>
      -- +Inf : no key is ≥, search returns len, clamp to len - 1
      have hv' : v = F64.posInf := by simpa using hp
      have hk : F64.key v = 0x7FF0000000000000 := by subst hv'; decide
      have hall : ∀ i, i < ks.length → (fun i => decide (ks.getD i 0 ≥ F64.key v)) i = false := by
        intro i hi
        simp only [decide_eq_false_iff_not]
        rw [getD_eq_getElem _ _ hi, hk]
        have := (hkeys _ (List.getElem_mem hi)).2; omega
      have : search ks.length (fun i => decide (ks.getD i 0 ≥ F64.key v)) = ks.length := by
        rcases Nat.lt_or_ge (search ks.length (fun i => decide (ks.getD i 0 ≥ F64.key v))) ks.length with h | h
        · have a := h3 _ (Nat.le_refl _) h
          have b := hall _ h
          simp only at b
          rw [a] at b; cases b
        · omega
      unfold placeKey
      simp only [this]
      simp; omega
    · split
      · next hp hq =>
        have hv' : v = F64.negInf := by simpa using hq
        have hk : F64.key v = -0x7FF0000000000000 := by subst hv'; decide
        have h0 : (fun i => decide (ks.getD i 0 ≥ F64.key v)) 0 = true := by
          simp only [decide_eq_true_eq]
          rw [getD_eq_getElem _ _ (by omega), hk]
          have := (hkeys _ (List.getElem_mem (show 0 < ks.length by omega))).1; omega
        have : search ks.length (fun i => decide (ks.getD i 0 ≥ F64.key v)) = 0 := by
          rcases Nat.eq_zero_or_pos (search ks.length (fun i => decide (ks.getD i 0 ≥ F64.key v))) with h | h
          · exact h
          · have a := h2 0 h
            simp only at h0
            rw [h0] at a; cases a
        have hpos : ¬ (0 ≥ ks.length) := by omega
        unfold placeKey
        simp only [this, hpos, if_false]
        simp
      · rfl

/-! ### non-vacuity: concrete specs and samples meeting the hypotheses -/

/-- the hypotheses of `placement_duration` are met by an unsorted spec with a duplicate and a
sample equal to the duplicated bound -/
example : Spec.C03.placed (durationUppers [5, 1, 3, 3]) 3 (placeKey (durationUppers [5, 1, 3, 3]) 3) = true :=
  placement_duration [5, 1, 3, 3] (by decide) 3 (by decide)

/-- … and of `placement_value` / `nonfinite_value` by the spec `{2.0, -0.0, 1.0}` with the
samples `1.0` and `+Inf` -/
example : Spec.C03.placed ((valueUppers [0x4000000000000000, 0x8000000000000000, 0x3FF0000000000000]).map F64.key)
    (F64.key 0x3FF0000000000000)
    (placeValue (valueUppers [0x4000000000000000, 0x8000000000000000, 0x3FF0000000000000]) 0x3FF0000000000000) = true :=
  placement_value _ (by decide) _ (by decide)

example : Spec.C03.placedNonFinite (valueUppers [0x4000000000000000, 0x8000000000000000]).length F64.posInf
    (placeValue (valueUppers [0x4000000000000000, 0x8000000000000000]) F64.posInf) = true :=
  nonfinite_value _ (by decide) _ (by decide)

/-! ## clause (iv): conservation over whole histories (counters: C01 (iv), histograms: C03 (iv))

Sequential scope model `Tally.Scope.step`.  `Cons.runEv st ops` runs `ops` from `st` and returns the final
state and the concatenation of all reporter events.  Setting of every theorem:

* `hmet : MetInv st` — metric ids are unique and below `nextMetric`; holds in every reachable state
  (`Scope.reach_metInv`), the `_reach` corollaries take `Reach …` instead;
* metric `m` is in the metric list of scope `sid` of `st` (`hs`, `hm`);
* `Cons.Live final sid` — at the END of the history scope `sid` is not closed and the root has not been
  closed; closing is irreversible (`Cons.Live.back`), so this says that neither was closed at any time;
* attribution: reporter events carry no metric id, only (full name, tags).  `Cons.SoleOwner kind nm tg sid m`
  says that in a state every metric of that kind with full name `nm` and tags `tg` is metric `m` of scope
  `sid`; it is assumed in every state of the history (`Cons.Always`), which excludes a second metric with
  the same identity on another scope object (`root.SubScope("a").Counter("b")` vs `root.Counter("a.b")`);
* for the statements about a final `report`: a reporter is configured (`cfg.kind ≠ .none`) and scope `sid`
  has a registry entry in `st` (it keeps it: `Cons.RegKeep`).

Counters are int64 with wrap-around in the model (`wrap64`), so counter conservation is an equation
between `wrap64` of both sides (congruence modulo 2^64); if both sides are in the int64 range it is an
equation (`counter_conservation_exact`).  Histogram bucket counts are unbounded integers: exact equations. -/
section Conservation
open Tally.Scope Tally.Cons Tally.KeyGen

/-! ### counters -/

/-- sum of the values of the `Event.counter` events with full name `nm` and tags `tg` -/
def counterDelivered (nm : Bytes) (tg : TagMap) (es : List Event) : Int := (es.map (cw nm tg id)).sum

theorem counter_matches (st : St) (s : ScopeS) (n : Bytes) (u : Int) (ω φ : Int → Int) :
    Matches (counterMeas (fqn st.sep s.pfx n) s.tags ω φ) st.sep s (.counter n u) := ⟨rfl, rfl, rfl⟩

/-- **counter conservation, invariant form**: at the end of any history during which the counter's scope
and the root stay open, (sum of all delivered values of `m`'s identity) + (what is still unreported)
= (what was unreported at the start) + (sum of all `inc m v`), modulo 2^64. -/
theorem counter_conservation_inv (st : St) (hmet : MetInv st) (sid m : Nat) (s : ScopeS) (n : Bytes) (u : Int)
    (hs : getScope st sid = some s) (hm : (m, Metric.counter n u) ∈ s.metrics) (ops : List Op)
    (hsole : Always (SoleOwner "counter" (fqn st.sep s.pfx n) s.tags sid m) st ops)
    (hlive : Live (runEv st ops).1 sid) :
    ∃ s' u', getScope (runEv st ops).1 sid = some s' ∧ (m, Metric.counter n u') ∈ s'.metrics ∧
      wrap64 (counterDelivered (fqn st.sep s.pfx n) s.tags (runEv st ops).2 + u')
        = wrap64 (u + incTotal m ops) := by
  obtain ⟨s', x', hs', hx', ⟨u', rfl⟩, hw⟩ :=
    core_inv (counterMeas (fqn st.sep s.pfx n) s.tags id id) (counterMeas_lawful _ _ _ _ weights_id) sid m two64
      (IsCounter n) (incOf m) (fun _ => True) (isCounter_apply m n) (isCounter_reset n)
      (fun x op _ h => counter_gain m n x op h) st hmet s _ hs hm (counter_matches st s n u id id) ⟨u, rfl⟩ ops
      (fun _ _ => trivial) hsole hlive
  exact ⟨s', u', hs', hx', wrap64_eq_of_cong hw⟩

/-- **`counter_conservation`**: a history followed by one final `report`: the sum of all delivered values
of `m`'s identity = what was unreported at the start + the sum of all `inc m v` (modulo 2^64), and nothing is
left unreported. -/
theorem counter_conservation (st : St) (hmet : MetInv st) (sid m : Nat) (s : ScopeS) (n : Bytes) (u : Int)
    (hs : getScope st sid = some s) (hm : (m, Metric.counter n u) ∈ s.metrics) (ops : List Op)
    (hsole : Always (SoleOwner "counter" (fqn st.sep s.pfx n) s.tags sid m) st (ops ++ [.report]))
    (hlive : Live (runEv st (ops ++ [.report])).1 sid)
    (hk : st.cfg.kind ≠ .none) (hreg : ∃ e ∈ st.reg, e.2 = sid) :
    wrap64 (counterDelivered (fqn st.sep s.pfx n) s.tags (runEv st (ops ++ [.report])).2)
        = wrap64 (u + incTotal m ops) ∧
    ∃ s', getScope (runEv st (ops ++ [.report])).1 sid = some s' ∧ (m, Metric.counter n 0) ∈ s'.metrics := by
  obtain ⟨s', x', hs', hx', ⟨u', rfl⟩, hw⟩ :=
    core_flush (counterMeas (fqn st.sep s.pfx n) s.tags id id) (counterMeas_lawful _ _ _ _ weights_id) sid m two64
      (IsCounter n) (incOf m) (fun _ => True) (isCounter_apply m n) (isCounter_reset n)
      (fun x op _ h => counter_gain m n x op h) st hmet s _ hs hm (counter_matches st s n u id id) ⟨u, rfl⟩ ops
      (fun _ _ => trivial) hsole hlive hk hreg
  exact ⟨wrap64_eq_of_cong hw, s', hs', hx'⟩

/-- … as an equation of integers when neither side leaves the int64 range -/
theorem counter_conservation_exact (st : St) (hmet : MetInv st) (sid m : Nat) (s : ScopeS) (n : Bytes) (u : Int)
    (hs : getScope st sid = some s) (hm : (m, Metric.counter n u) ∈ s.metrics) (ops : List Op)
    (hsole : Always (SoleOwner "counter" (fqn st.sep s.pfx n) s.tags sid m) st (ops ++ [.report]))
    (hlive : Live (runEv st (ops ++ [.report])).1 sid)
    (hk : st.cfg.kind ≠ .none) (hreg : ∃ e ∈ st.reg, e.2 = sid)
    (h1 : inInt64 (counterDelivered (fqn st.sep s.pfx n) s.tags (runEv st (ops ++ [.report])).2) = true)
    (h2 : inInt64 (u + incTotal m ops) = true) :
    counterDelivered (fqn st.sep s.pfx n) s.tags (runEv st (ops ++ [.report])).2 = u + incTotal m ops := by
  have h := (counter_conservation st hmet sid m s n u hs hm ops hsole hlive hk hreg).1
  unfold inInt64 minInt64 maxInt64 two63 at h1 h2
  simp only [Bool.and_eq_true, decide_eq_true_eq] at h1 h2
  unfold wrap64 two64 two63 at h
  simp only at h
  split at h <;> split at h <;> omega

theorem cw_one_nonneg (nm : Bytes) (tg : TagMap) (e : Event) : 0 ≤ cw nm tg one e := by
  cases e <;> simp only [cw] <;> first | (split <;> simp [one]) | exact Int.le_refl 0

theorem cμ_nz_nonneg (x : Metric) : 0 ≤ cμ nz x := by
  cases x <;> simp only [cμ, nz] <;> first | (split <;> simp) | exact Int.le_refl 0

theorem no_counter_event {nm : Bytes} {tg : TagMap} {e : Event} (h : cw nm tg one e = 0) (v : Int) :
    e ≠ .counter nm tg v := by
  rintro rfl
  simp [cw, one] at h

/-- a counter with nothing unreported, a history with no operation through its handle: no counter event of
its identity is delivered at all, whatever else happens (reports, other metrics, subscopes, closes of other
scopes) -/
theorem counter_silent_of_zero (st : St) (hmet : MetInv st) (sid m : Nat) (s : ScopeS) (n : Bytes)
    (hs : getScope st sid = some s) (hm : (m, Metric.counter n 0) ∈ s.metrics) (ops : List Op)
    (hidle : ∀ op ∈ ops, ScopeRec.target op ≠ some m)
    (hsole : Always (SoleOwner "counter" (fqn st.sep s.pfx n) s.tags sid m) st ops)
    (hlive : Live (runEv st ops).1 sid) :
    ∀ e ∈ (runEv st ops).2, ∀ v, e ≠ .counter (fqn st.sep s.pfx n) s.tags v := by
  intro e he
  exact no_counter_event (core_silent (counterMeas (fqn st.sep s.pfx n) s.tags one nz)
    (counterMeas_lawful _ _ _ _ weights_count) (cw_one_nonneg _ _) cμ_nz_nonneg sid m (IsCounter n)
    (isCounter_apply m n) (isCounter_reset n) st hmet s _ hs hm (counter_matches st s n 0 one nz) ⟨0, rfl⟩ rfl
    ops hidle hsole hlive e he)

/-- **`idle_pass_silent`** (counter): `report`, then any operations none of which goes through handle `m`,
then `report` again: nothing after the first report — in particular the second pass — produces a counter
event of `m`'s identity. -/
theorem counter_idle_pass_silent (st : St) (hmet : MetInv st) (sid m : Nat) (s : ScopeS) (n : Bytes) (u : Int)
    (hs : getScope st sid = some s) (hm : (m, Metric.counter n u) ∈ s.metrics) (mid : List Op)
    (hidle : ∀ op ∈ mid, ScopeRec.target op ≠ some m)
    (hsole : Always (SoleOwner "counter" (fqn st.sep s.pfx n) s.tags sid m) st (.report :: (mid ++ [.report])))
    (hlive : Live (runEv st (.report :: (mid ++ [.report]))).1 sid)
    (hk : st.cfg.kind ≠ .none) (hreg : ∃ e ∈ st.reg, e.2 = sid) :
    ∀ e ∈ (runEv (step st .report).1 (mid ++ [.report])).2, ∀ v, e ≠ .counter (fqn st.sep s.pfx n) s.tags v := by
  intro e he
  exact no_counter_event (core_idle (counterMeas (fqn st.sep s.pfx n) s.tags one nz)
    (counterMeas_lawful _ _ _ _ weights_count) (cw_one_nonneg _ _) cμ_nz_nonneg sid m (IsCounter n)
    (isCounter_apply m n) (isCounter_reset n) st hmet s _ hs hm (counter_matches st s n u one nz) ⟨u, rfl⟩
    mid hidle hsole hlive hk hreg e he)

/-! ### value histograms

`RecordValue(v)` increments bucket `placeValue us v` (`us` = the stored upper bounds, `valueUppers spec`,
never empty).  A NaN sample is NOT dropped: `placeValue us NaN = us.length - 1` (`nan_last`), it is counted
in the last bucket — the same clamp as the repaired Go code — so every `recv m _` is one sample.
`recd` on a value histogram changes nothing (`samplesV` only collects `recv`). -/

/-- sum of the sample counts `n` of the `Event.hval` events with full name `nm`, tags `tg` and bounds
`(lo, hi)` selected by `p` -/
def histValueDelivered (nm : Bytes) (tg : TagMap) (p : F64 → F64 → Bool) (es : List Event) : Int :=
  (es.map (hvw nm tg p id)).sum

/-- unreported samples in the buckets of `us` whose bounds `(lower, upper)` are selected by `p` -/
def valueMass (p : F64 → F64 → Bool) (us : List F64) (cs : List Int) : Int := bsum (hvTerm p id us cs) cs.length

/-- is `v` placed (by `placeValue`) into a bucket whose bounds are selected by `p`? -/
def valueSel (p : F64 → F64 → Bool) (us : List F64) (v : F64) : Bool :=
  p (valueLower us (placeValue us v)) (us.getD (placeValue us v) 0)

theorem valueMass_zero (p : F64 → F64 → Bool) (us : List F64) (k : Nat) :
    valueMass p us (List.replicate k 0) = 0 := by
  apply bsum_zero
  intro i _
  simp only [hvTerm, List.getD_eq_getElem?_getD, List.getElem?_replicate]
  split
  · split <;> rfl
  · rfl

theorem histV_matches (st : St) (s : ScopeS) (n : Bytes) (h : Hist) (p : F64 → F64 → Bool) (ω φ : Int → Int) :
    Matches (histVMeas (fqn st.sep s.pfx n) s.tags p ω φ) st.sep s (.hist n h) := ⟨rfl, rfl, rfl⟩

/-- **value-histogram conservation, invariant form, for any selection `p` of buckets by their bounds**:
(delivered sample counts in selected buckets) + (unreported in selected buckets) = (unreported at the
start) + (number of `recv m v` whose bucket is selected). -/
theorem histogram_value_conservation_inv (p : F64 → F64 → Bool) (st : St) (hmet : MetInv st) (sid m : Nat)
    (s : ScopeS) (n : Bytes) (dU : List Int) (us : List F64) (cs : List Int) (hne : us ≠ [])
    (hlen : cs.length = us.length)
    (hs : getScope st sid = some s) (hm : (m, Metric.hist n ⟨false, dU, us, cs⟩) ∈ s.metrics) (ops : List Op)
    (hsole : Always (SoleOwner "hist" (fqn st.sep s.pfx n) s.tags sid m) st ops)
    (hlive : Live (runEv st ops).1 sid) :
    ∃ s' cs', getScope (runEv st ops).1 sid = some s' ∧ (m, Metric.hist n ⟨false, dU, us, cs'⟩) ∈ s'.metrics ∧
      cs'.length = us.length ∧
      histValueDelivered (fqn st.sep s.pfx n) s.tags p (runEv st ops).2 + valueMass p us cs'
        = valueMass p us cs + (((ScopeRec.samplesV m ops).filter (valueSel p us)).length : Int) := by
  obtain ⟨s', x', hs', hx', ⟨cs', rfl, hl'⟩, hw⟩ :=
    core_inv (histVMeas (fqn st.sep s.pfx n) s.tags p id id) (histVMeas_lawful _ _ _ _ _ weights_id) sid m 0
      (IsHistV n dU us) (recvOf m us p) (fun _ => True) (isHistV_apply m n dU us) (isHistV_reset n dU us)
      (fun x op _ h => histV_gain m n dU us hne p x op h) st hmet s _ hs hm (histV_matches st s n _ p id id)
      ⟨cs, rfl, hlen⟩ ops (fun _ _ => trivial) hsole hlive
  refine ⟨s', cs', hs', hx', hl', ?_⟩
  have := hw.zero
  rw [sum_recvOf] at this
  exact this

/-- **the same after a final `report`**: everything recorded has been delivered, all buckets are `0` -/
theorem histogram_value_conservation (p : F64 → F64 → Bool) (st : St) (hmet : MetInv st) (sid m : Nat)
    (s : ScopeS) (n : Bytes) (dU : List Int) (us : List F64) (cs : List Int) (hne : us ≠ [])
    (hlen : cs.length = us.length)
    (hs : getScope st sid = some s) (hm : (m, Metric.hist n ⟨false, dU, us, cs⟩) ∈ s.metrics) (ops : List Op)
    (hsole : Always (SoleOwner "hist" (fqn st.sep s.pfx n) s.tags sid m) st (ops ++ [.report]))
    (hlive : Live (runEv st (ops ++ [.report])).1 sid)
    (hk : st.cfg.kind ≠ .none) (hreg : ∃ e ∈ st.reg, e.2 = sid) :
    histValueDelivered (fqn st.sep s.pfx n) s.tags p (runEv st (ops ++ [.report])).2
        = valueMass p us cs + (((ScopeRec.samplesV m ops).filter (valueSel p us)).length : Int) ∧
    ∃ (s' : ScopeS) (cs' : List Int), getScope (runEv st (ops ++ [.report])).1 sid = some s' ∧
      (m, Metric.hist n ⟨false, dU, us, cs'.map fun _ => 0⟩) ∈ s'.metrics := by
  obtain ⟨s', x', hs', hx', ⟨cs', rfl, _⟩, hw⟩ :=
    core_flush (histVMeas (fqn st.sep s.pfx n) s.tags p id id) (histVMeas_lawful _ _ _ _ _ weights_id) sid m 0
      (IsHistV n dU us) (recvOf m us p) (fun _ => True) (isHistV_apply m n dU us) (isHistV_reset n dU us)
      (fun x op _ h => histV_gain m n dU us hne p x op h) st hmet s _ hs hm (histV_matches st s n _ p id id)
      ⟨cs, rfl, hlen⟩ ops (fun _ _ => trivial) hsole hlive hk hreg
  refine ⟨?_, s', cs', hs', hx'⟩
  have := hw.zero
  rw [sum_recvOf] at this
  exact this

/-- **`histogram_conservation`** (value histogram): the sum of the sample counts of all delivered `hval`
events of `m`'s identity = what was unreported at the start + the number of `recv m _` operations
(NaN included, `recd m _` not counted). -/
theorem histogram_conservation_value (st : St) (hmet : MetInv st) (sid m : Nat)
    (s : ScopeS) (n : Bytes) (dU : List Int) (us : List F64) (cs : List Int) (hne : us ≠ [])
    (hlen : cs.length = us.length)
    (hs : getScope st sid = some s) (hm : (m, Metric.hist n ⟨false, dU, us, cs⟩) ∈ s.metrics) (ops : List Op)
    (hsole : Always (SoleOwner "hist" (fqn st.sep s.pfx n) s.tags sid m) st (ops ++ [.report]))
    (hlive : Live (runEv st (ops ++ [.report])).1 sid)
    (hk : st.cfg.kind ≠ .none) (hreg : ∃ e ∈ st.reg, e.2 = sid) :
    histValueDelivered (fqn st.sep s.pfx n) s.tags (fun _ _ => true) (runEv st (ops ++ [.report])).2
        = valueMass (fun _ _ => true) us cs + ((ScopeRec.samplesV m ops).length : Int) := by
  have h := (histogram_value_conservation (fun _ _ => true) st hmet sid m s n dU us cs hne hlen hs hm ops hsole
    hlive hk hreg).1
  have e : (ScopeRec.samplesV m ops).filter (valueSel (fun _ _ => true) us) = ScopeRec.samplesV m ops := by
    apply List.filter_eq_self.mpr
    intro v _; rfl
  rw [e] at h
  exact h

/-- **`histogram_bucket_conservation`** (value histogram): for every pair of bounds `(lo, hi)`, the delivered
count of the `hval … lo hi` events = what was unreported in the buckets with these bounds + the number of
recorded samples that `placeValue` (the placement function of C03) puts into a bucket with these bounds. -/
theorem histogram_bucket_conservation_value (lo hi : F64) (st : St) (hmet : MetInv st) (sid m : Nat)
    (s : ScopeS) (n : Bytes) (dU : List Int) (us : List F64) (cs : List Int) (hne : us ≠ [])
    (hlen : cs.length = us.length)
    (hs : getScope st sid = some s) (hm : (m, Metric.hist n ⟨false, dU, us, cs⟩) ∈ s.metrics) (ops : List Op)
    (hsole : Always (SoleOwner "hist" (fqn st.sep s.pfx n) s.tags sid m) st (ops ++ [.report]))
    (hlive : Live (runEv st (ops ++ [.report])).1 sid)
    (hk : st.cfg.kind ≠ .none) (hreg : ∃ e ∈ st.reg, e.2 = sid) :
    histValueDelivered (fqn st.sep s.pfx n) s.tags (fun a b => a == lo && b == hi) (runEv st (ops ++ [.report])).2
        = valueMass (fun a b => a == lo && b == hi) us cs
          + (((ScopeRec.samplesV m ops).filter fun v =>
              valueLower us (placeValue us v) == lo && us.getD (placeValue us v) 0 == hi).length : Int) :=
  (histogram_value_conservation (fun a b => a == lo && b == hi) st hmet sid m s n dU us cs hne hlen hs hm ops hsole
    hlive hk hreg).1

theorem hvw_one_nonneg (nm : Bytes) (tg : TagMap) (p : F64 → F64 → Bool) (e : Event) : 0 ≤ hvw nm tg p one e := by
  cases e <;> simp only [hvw] <;> first | (split <;> simp [one]) | exact Int.le_refl 0

theorem hvμ_nz_nonneg (p : F64 → F64 → Bool) (x : Metric) : 0 ≤ hvμ p nz x := by
  cases x with
  | hist n h =>
    simp only [hvμ]
    split <;> first
      | exact Int.le_refl 0
      | (apply bsum_nonneg; intro i; simp only [hvTerm, nz]; split <;> (try split) <;> simp)
  | _ => exact Int.le_refl 0

theorem no_hval_event {nm : Bytes} {tg : TagMap} {e : Event} (h : hvw nm tg (fun _ _ => true) one e = 0)
    (lo hi : F64) (c : Int) : e ≠ .hval nm tg lo hi c := by
  rintro rfl
  simp [hvw, one] at h

/-- **`idle_pass_silent`** (value histogram): `report`, then operations none of which goes through handle `m`,
then `report`: nothing after the first report produces an `hval` event of `m`'s identity. -/
theorem histogram_idle_pass_silent_value (st : St) (hmet : MetInv st) (sid m : Nat)
    (s : ScopeS) (n : Bytes) (dU : List Int) (us : List F64) (cs : List Int) (hlen : cs.length = us.length)
    (hs : getScope st sid = some s) (hm : (m, Metric.hist n ⟨false, dU, us, cs⟩) ∈ s.metrics) (mid : List Op)
    (hidle : ∀ op ∈ mid, ScopeRec.target op ≠ some m)
    (hsole : Always (SoleOwner "hist" (fqn st.sep s.pfx n) s.tags sid m) st (.report :: (mid ++ [.report])))
    (hlive : Live (runEv st (.report :: (mid ++ [.report]))).1 sid)
    (hk : st.cfg.kind ≠ .none) (hreg : ∃ e ∈ st.reg, e.2 = sid) :
    ∀ e ∈ (runEv (step st .report).1 (mid ++ [.report])).2, ∀ lo hi c,
      e ≠ .hval (fqn st.sep s.pfx n) s.tags lo hi c := by
  intro e he
  exact no_hval_event (core_idle (histVMeas (fqn st.sep s.pfx n) s.tags (fun _ _ => true) one nz)
    (histVMeas_lawful _ _ _ _ _ weights_count) (hvw_one_nonneg _ _ _) (hvμ_nz_nonneg _) sid m (IsHistV n dU us)
    (isHistV_apply m n dU us) (isHistV_reset n dU us) st hmet s _ hs hm (histV_matches st s n _ _ one nz)
    ⟨cs, rfl, hlen⟩ mid hidle hsole hlive hk hreg e he)

/-! ### duration histograms

`RecordDuration(d)` increments bucket `placeKey us d` (`us` = `durationUppers spec`, never empty); `recv` on
a duration histogram changes nothing (`samplesD` only collects `recd`). -/

/-- sum of the sample counts `n` of the `Event.hdur` events with full name `nm`, tags `tg` and bounds
`(lo, hi)` selected by `p` -/
def histDurationDelivered (nm : Bytes) (tg : TagMap) (p : Int → Int → Bool) (es : List Event) : Int :=
  (es.map (hdw nm tg p id)).sum

/-- unreported samples in the buckets of `us` whose bounds `(lower, upper)` are selected by `p` -/
def durationMass (p : Int → Int → Bool) (us : List Int) (cs : List Int) : Int := bsum (hdTerm p id us cs) cs.length

/-- is `v` placed (by `placeKey`) into a bucket whose bounds are selected by `p`? -/
def durationSel (p : Int → Int → Bool) (us : List Int) (v : Int) : Bool :=
  p (durationLower us (placeKey us v)) (us.getD (placeKey us v) 0)

theorem durationMass_zero (p : Int → Int → Bool) (us : List Int) (k : Nat) :
    durationMass p us (List.replicate k 0) = 0 := by
  apply bsum_zero
  intro i _
  simp only [hdTerm, List.getD_eq_getElem?_getD, List.getElem?_replicate]
  split
  · split <;> rfl
  · rfl

theorem histD_matches (st : St) (s : ScopeS) (n : Bytes) (h : Hist) (p : Int → Int → Bool) (ω φ : Int → Int) :
    Matches (histDMeas (fqn st.sep s.pfx n) s.tags p ω φ) st.sep s (.hist n h) := ⟨rfl, rfl, rfl⟩

/-- **duration-histogram conservation, invariant form, for any selection `p` of buckets by their bounds**:
(delivered sample counts in selected buckets) + (unreported in selected buckets) = (unreported at the
start) + (number of `recd m d` whose bucket is selected). -/
theorem histogram_duration_conservation_inv (p : Int → Int → Bool) (st : St) (hmet : MetInv st) (sid m : Nat)
    (s : ScopeS) (n : Bytes) (vU : List F64) (us : List Int) (cs : List Int) (hne : us ≠ [])
    (hlen : cs.length = us.length)
    (hs : getScope st sid = some s) (hm : (m, Metric.hist n ⟨true, us, vU, cs⟩) ∈ s.metrics) (ops : List Op)
    (hsole : Always (SoleOwner "hist" (fqn st.sep s.pfx n) s.tags sid m) st ops)
    (hlive : Live (runEv st ops).1 sid) :
    ∃ s' cs', getScope (runEv st ops).1 sid = some s' ∧ (m, Metric.hist n ⟨true, us, vU, cs'⟩) ∈ s'.metrics ∧
      cs'.length = us.length ∧
      histDurationDelivered (fqn st.sep s.pfx n) s.tags p (runEv st ops).2 + durationMass p us cs'
        = durationMass p us cs + (((ScopeRec.samplesD m ops).filter (durationSel p us)).length : Int) := by
  obtain ⟨s', x', hs', hx', ⟨cs', rfl, hl'⟩, hw⟩ :=
    core_inv (histDMeas (fqn st.sep s.pfx n) s.tags p id id) (histDMeas_lawful _ _ _ _ _ weights_id) sid m 0
      (IsHistD n vU us) (recdOf m us p) (fun _ => True) (isHistD_apply m n vU us) (isHistD_reset n vU us)
      (fun x op _ h => histD_gain m n vU us hne p x op h) st hmet s _ hs hm (histD_matches st s n _ p id id)
      ⟨cs, rfl, hlen⟩ ops (fun _ _ => trivial) hsole hlive
  refine ⟨s', cs', hs', hx', hl', ?_⟩
  have := hw.zero
  rw [sum_recdOf] at this
  exact this

/-- **the same after a final `report`**: everything recorded has been delivered, all buckets are `0` -/
theorem histogram_duration_conservation (p : Int → Int → Bool) (st : St) (hmet : MetInv st) (sid m : Nat)
    (s : ScopeS) (n : Bytes) (vU : List F64) (us : List Int) (cs : List Int) (hne : us ≠ [])
    (hlen : cs.length = us.length)
    (hs : getScope st sid = some s) (hm : (m, Metric.hist n ⟨true, us, vU, cs⟩) ∈ s.metrics) (ops : List Op)
    (hsole : Always (SoleOwner "hist" (fqn st.sep s.pfx n) s.tags sid m) st (ops ++ [.report]))
    (hlive : Live (runEv st (ops ++ [.report])).1 sid)
    (hk : st.cfg.kind ≠ .none) (hreg : ∃ e ∈ st.reg, e.2 = sid) :
    histDurationDelivered (fqn st.sep s.pfx n) s.tags p (runEv st (ops ++ [.report])).2
        = durationMass p us cs + (((ScopeRec.samplesD m ops).filter (durationSel p us)).length : Int) ∧
    ∃ (s' : ScopeS) (cs' : List Int), getScope (runEv st (ops ++ [.report])).1 sid = some s' ∧
      (m, Metric.hist n ⟨true, us, vU, cs'.map fun _ => 0⟩) ∈ s'.metrics := by
  obtain ⟨s', x', hs', hx', ⟨cs', rfl, _⟩, hw⟩ :=
    core_flush (histDMeas (fqn st.sep s.pfx n) s.tags p id id) (histDMeas_lawful _ _ _ _ _ weights_id) sid m 0
      (IsHistD n vU us) (recdOf m us p) (fun _ => True) (isHistD_apply m n vU us) (isHistD_reset n vU us)
      (fun x op _ h => histD_gain m n vU us hne p x op h) st hmet s _ hs hm (histD_matches st s n _ p id id)
      ⟨cs, rfl, hlen⟩ ops (fun _ _ => trivial) hsole hlive hk hreg
  refine ⟨?_, s', cs', hs', hx'⟩
  have := hw.zero
  rw [sum_recdOf] at this
  exact this

/-- **`histogram_conservation`** (duration histogram): the sum of the sample counts of all delivered `hdur`
events of `m`'s identity = what was unreported at the start + the number of `recd m _` operations
(`recv m _` not counted). -/
theorem histogram_conservation_duration (st : St) (hmet : MetInv st) (sid m : Nat)
    (s : ScopeS) (n : Bytes) (vU : List F64) (us : List Int) (cs : List Int) (hne : us ≠ [])
    (hlen : cs.length = us.length)
    (hs : getScope st sid = some s) (hm : (m, Metric.hist n ⟨true, us, vU, cs⟩) ∈ s.metrics) (ops : List Op)
    (hsole : Always (SoleOwner "hist" (fqn st.sep s.pfx n) s.tags sid m) st (ops ++ [.report]))
    (hlive : Live (runEv st (ops ++ [.report])).1 sid)
    (hk : st.cfg.kind ≠ .none) (hreg : ∃ e ∈ st.reg, e.2 = sid) :
    histDurationDelivered (fqn st.sep s.pfx n) s.tags (fun _ _ => true) (runEv st (ops ++ [.report])).2
        = durationMass (fun _ _ => true) us cs + ((ScopeRec.samplesD m ops).length : Int) := by
  have h := (histogram_duration_conservation (fun _ _ => true) st hmet sid m s n vU us cs hne hlen hs hm ops hsole
    hlive hk hreg).1
  have e : (ScopeRec.samplesD m ops).filter (durationSel (fun _ _ => true) us) = ScopeRec.samplesD m ops := by
    apply List.filter_eq_self.mpr
    intro v _; rfl
  rw [e] at h
  exact h

/-- **`histogram_bucket_conservation`** (duration histogram): for every pair of bounds `(lo, hi)`, the delivered
count of the `hdur … lo hi` events = what was unreported in the buckets with these bounds + the number of
recorded samples that `placeKey` (the placement function of C03) puts into a bucket with these bounds. -/
theorem histogram_bucket_conservation_duration (lo hi : Int) (st : St) (hmet : MetInv st) (sid m : Nat)
    (s : ScopeS) (n : Bytes) (vU : List F64) (us : List Int) (cs : List Int) (hne : us ≠ [])
    (hlen : cs.length = us.length)
    (hs : getScope st sid = some s) (hm : (m, Metric.hist n ⟨true, us, vU, cs⟩) ∈ s.metrics) (ops : List Op)
    (hsole : Always (SoleOwner "hist" (fqn st.sep s.pfx n) s.tags sid m) st (ops ++ [.report]))
    (hlive : Live (runEv st (ops ++ [.report])).1 sid)
    (hk : st.cfg.kind ≠ .none) (hreg : ∃ e ∈ st.reg, e.2 = sid) :
    histDurationDelivered (fqn st.sep s.pfx n) s.tags (fun a b => a == lo && b == hi) (runEv st (ops ++ [.report])).2
        = durationMass (fun a b => a == lo && b == hi) us cs
          + (((ScopeRec.samplesD m ops).filter fun v =>
              durationLower us (placeKey us v) == lo && us.getD (placeKey us v) 0 == hi).length : Int) :=
  (histogram_duration_conservation (fun a b => a == lo && b == hi) st hmet sid m s n vU us cs hne hlen hs hm ops hsole
    hlive hk hreg).1

theorem hdw_one_nonneg (nm : Bytes) (tg : TagMap) (p : Int → Int → Bool) (e : Event) : 0 ≤ hdw nm tg p one e := by
  cases e <;> simp only [hdw] <;> first | (split <;> simp [one]) | exact Int.le_refl 0

theorem hdμ_nz_nonneg (p : Int → Int → Bool) (x : Metric) : 0 ≤ hdμ p nz x := by
  cases x with
  | hist n h =>
    simp only [hdμ]
    split <;> first
      | exact Int.le_refl 0
      | (apply bsum_nonneg; intro i; simp only [hdTerm, nz]; split <;> (try split) <;> simp)
  | _ => exact Int.le_refl 0

theorem no_hdur_event {nm : Bytes} {tg : TagMap} {e : Event} (h : hdw nm tg (fun _ _ => true) one e = 0)
    (lo hi : Int) (c : Int) : e ≠ .hdur nm tg lo hi c := by
  rintro rfl
  simp [hdw, one] at h

/-- **`idle_pass_silent`** (duration histogram): `report`, then operations none of which goes through handle `m`,
then `report`: nothing after the first report produces an `hdur` event of `m`'s identity. -/
theorem histogram_idle_pass_silent_duration (st : St) (hmet : MetInv st) (sid m : Nat)
    (s : ScopeS) (n : Bytes) (vU : List F64) (us : List Int) (cs : List Int) (hlen : cs.length = us.length)
    (hs : getScope st sid = some s) (hm : (m, Metric.hist n ⟨true, us, vU, cs⟩) ∈ s.metrics) (mid : List Op)
    (hidle : ∀ op ∈ mid, ScopeRec.target op ≠ some m)
    (hsole : Always (SoleOwner "hist" (fqn st.sep s.pfx n) s.tags sid m) st (.report :: (mid ++ [.report])))
    (hlive : Live (runEv st (.report :: (mid ++ [.report]))).1 sid)
    (hk : st.cfg.kind ≠ .none) (hreg : ∃ e ∈ st.reg, e.2 = sid) :
    ∀ e ∈ (runEv (step st .report).1 (mid ++ [.report])).2, ∀ lo hi c,
      e ≠ .hdur (fqn st.sep s.pfx n) s.tags lo hi c := by
  intro e he
  exact no_hdur_event (core_idle (histDMeas (fqn st.sep s.pfx n) s.tags (fun _ _ => true) one nz)
    (histDMeas_lawful _ _ _ _ _ weights_count) (hdw_one_nonneg _ _ _) (hdμ_nz_nonneg _) sid m (IsHistD n vU us)
    (isHistD_apply m n vU us) (isHistD_reset n vU us) st hmet s _ hs hm (histD_matches st s n _ _ one nz)
    ⟨cs, rfl, hlen⟩ mid hidle hsole hlive hk hreg e he)

/-! ### the same from a reachable state

`Reach cfg pfx sep tags st` (some program leads from the root to `st`) supplies `MetInv st`; the configured
reporter kind is that of the root; and scope `sid`, being open while the root is open, has a registry entry
(`Cons.reach_registered`: invariant `Cons.LR`, any sanitizer, any shards). -/

theorem reach_hyps {cfg : Cfg} {pfx0 sep0 : Bytes} {tags0 : TagMap} {st : St}
    (hreach : Reach cfg pfx0 sep0 tags0 st) (hk : cfg.kind ≠ .none) {sid : Nat} {s : ScopeS}
    (hs : getScope st sid = some s) (ops : List Op) (hlive : Live (runEv st ops).1 sid) :
    MetInv st ∧ st.cfg.kind ≠ .none ∧ ∃ e ∈ st.reg, e.2 = sid := by
  have hmet := reach_metInv hreach
  obtain ⟨⟨s0, hs0, hc⟩, hrc⟩ := live_init hmet hs ops hlive
  rw [hs] at hs0; cases hs0
  exact ⟨hmet, by rw [reach_cfg hreach]; exact hk, reach_registered hreach hrc hs hc⟩

/-- **`counter_conservation`** from a reachable state -/
theorem counter_conservation_reach {cfg : Cfg} {pfx0 sep0 : Bytes} {tags0 : TagMap} (st : St)
    (hreach : Reach cfg pfx0 sep0 tags0 st) (hk : cfg.kind ≠ .none) (sid m : Nat) (s : ScopeS) (n : Bytes) (u : Int)
    (hs : getScope st sid = some s) (hm : (m, Metric.counter n u) ∈ s.metrics) (ops : List Op)
    (hsole : Always (SoleOwner "counter" (fqn st.sep s.pfx n) s.tags sid m) st (ops ++ [.report]))
    (hlive : Live (runEv st (ops ++ [.report])).1 sid) :
    wrap64 (counterDelivered (fqn st.sep s.pfx n) s.tags (runEv st (ops ++ [.report])).2)
        = wrap64 (u + incTotal m ops) ∧
    ∃ s', getScope (runEv st (ops ++ [.report])).1 sid = some s' ∧ (m, Metric.counter n 0) ∈ s'.metrics := by
  obtain ⟨h1, h2, h3⟩ := reach_hyps hreach hk hs _ hlive
  exact counter_conservation st h1 sid m s n u hs hm ops hsole hlive h2 h3

theorem counter_idle_pass_silent_reach {cfg : Cfg} {pfx0 sep0 : Bytes} {tags0 : TagMap} (st : St)
    (hreach : Reach cfg pfx0 sep0 tags0 st) (hk : cfg.kind ≠ .none) (sid m : Nat) (s : ScopeS) (n : Bytes) (u : Int)
    (hs : getScope st sid = some s) (hm : (m, Metric.counter n u) ∈ s.metrics) (mid : List Op)
    (hidle : ∀ op ∈ mid, ScopeRec.target op ≠ some m)
    (hsole : Always (SoleOwner "counter" (fqn st.sep s.pfx n) s.tags sid m) st (.report :: (mid ++ [.report])))
    (hlive : Live (runEv st (.report :: (mid ++ [.report]))).1 sid) :
    ∀ e ∈ (runEv (step st .report).1 (mid ++ [.report])).2, ∀ v, e ≠ .counter (fqn st.sep s.pfx n) s.tags v := by
  obtain ⟨h1, h2, h3⟩ := reach_hyps hreach hk hs _ hlive
  exact counter_idle_pass_silent st h1 sid m s n u hs hm mid hidle hsole hlive h2 h3

/-- … from a reachable state -/
theorem histogram_conservation_value_reach {cfg : Cfg} {pfx0 sep0 : Bytes} {tags0 : TagMap} (st : St)
    (hreach : Reach cfg pfx0 sep0 tags0 st) (hk : cfg.kind ≠ .none) (sid m : Nat)
    (s : ScopeS) (n : Bytes) (dU : List Int) (us : List F64) (cs : List Int) (hne : us ≠ [])
    (hlen : cs.length = us.length)
    (hs : getScope st sid = some s) (hm : (m, Metric.hist n ⟨false, dU, us, cs⟩) ∈ s.metrics) (ops : List Op)
    (hsole : Always (SoleOwner "hist" (fqn st.sep s.pfx n) s.tags sid m) st (ops ++ [.report]))
    (hlive : Live (runEv st (ops ++ [.report])).1 sid) :
    histValueDelivered (fqn st.sep s.pfx n) s.tags (fun _ _ => true) (runEv st (ops ++ [.report])).2
        = valueMass (fun _ _ => true) us cs + ((ScopeRec.samplesV m ops).length : Int) := by
  obtain ⟨h1, h2, h3⟩ := reach_hyps hreach hk hs _ hlive
  exact histogram_conservation_value st h1 sid m s n dU us cs hne hlen hs hm ops hsole hlive h2 h3

theorem histogram_bucket_conservation_value_reach {cfg : Cfg} {pfx0 sep0 : Bytes} {tags0 : TagMap} (lo hi : F64)
    (st : St) (hreach : Reach cfg pfx0 sep0 tags0 st) (hk : cfg.kind ≠ .none) (sid m : Nat)
    (s : ScopeS) (n : Bytes) (dU : List Int) (us : List F64) (cs : List Int) (hne : us ≠ [])
    (hlen : cs.length = us.length)
    (hs : getScope st sid = some s) (hm : (m, Metric.hist n ⟨false, dU, us, cs⟩) ∈ s.metrics) (ops : List Op)
    (hsole : Always (SoleOwner "hist" (fqn st.sep s.pfx n) s.tags sid m) st (ops ++ [.report]))
    (hlive : Live (runEv st (ops ++ [.report])).1 sid) :
    histValueDelivered (fqn st.sep s.pfx n) s.tags (fun a b => a == lo && b == hi) (runEv st (ops ++ [.report])).2
        = valueMass (fun a b => a == lo && b == hi) us cs
          + (((ScopeRec.samplesV m ops).filter fun v =>
              valueLower us (placeValue us v) == lo && us.getD (placeValue us v) 0 == hi).length : Int) := by
  obtain ⟨h1, h2, h3⟩ := reach_hyps hreach hk hs _ hlive
  exact histogram_bucket_conservation_value lo hi st h1 sid m s n dU us cs hne hlen hs hm ops hsole hlive h2 h3

theorem histogram_idle_pass_silent_value_reach {cfg : Cfg} {pfx0 sep0 : Bytes} {tags0 : TagMap} (st : St)
    (hreach : Reach cfg pfx0 sep0 tags0 st) (hk : cfg.kind ≠ .none) (sid m : Nat)
    (s : ScopeS) (n : Bytes) (dU : List Int) (us : List F64) (cs : List Int) (hlen : cs.length = us.length)
    (hs : getScope st sid = some s) (hm : (m, Metric.hist n ⟨false, dU, us, cs⟩) ∈ s.metrics) (mid : List Op)
    (hidle : ∀ op ∈ mid, ScopeRec.target op ≠ some m)
    (hsole : Always (SoleOwner "hist" (fqn st.sep s.pfx n) s.tags sid m) st (.report :: (mid ++ [.report])))
    (hlive : Live (runEv st (.report :: (mid ++ [.report]))).1 sid) :
    ∀ e ∈ (runEv (step st .report).1 (mid ++ [.report])).2, ∀ lo hi c,
      e ≠ .hval (fqn st.sep s.pfx n) s.tags lo hi c := by
  obtain ⟨h1, h2, h3⟩ := reach_hyps hreach hk hs _ hlive
  exact histogram_idle_pass_silent_value st h1 sid m s n dU us cs hlen hs hm mid hidle hsole hlive h2 h3

/-- … from a reachable state -/
theorem histogram_conservation_duration_reach {cfg : Cfg} {pfx0 sep0 : Bytes} {tags0 : TagMap} (st : St)
    (hreach : Reach cfg pfx0 sep0 tags0 st) (hk : cfg.kind ≠ .none) (sid m : Nat)
    (s : ScopeS) (n : Bytes) (vU : List F64) (us : List Int) (cs : List Int) (hne : us ≠ [])
    (hlen : cs.length = us.length)
    (hs : getScope st sid = some s) (hm : (m, Metric.hist n ⟨true, us, vU, cs⟩) ∈ s.metrics) (ops : List Op)
    (hsole : Always (SoleOwner "hist" (fqn st.sep s.pfx n) s.tags sid m) st (ops ++ [.report]))
    (hlive : Live (runEv st (ops ++ [.report])).1 sid) :
    histDurationDelivered (fqn st.sep s.pfx n) s.tags (fun _ _ => true) (runEv st (ops ++ [.report])).2
        = durationMass (fun _ _ => true) us cs + ((ScopeRec.samplesD m ops).length : Int) := by
  obtain ⟨h1, h2, h3⟩ := reach_hyps hreach hk hs _ hlive
  exact histogram_conservation_duration st h1 sid m s n vU us cs hne hlen hs hm ops hsole hlive h2 h3

theorem histogram_bucket_conservation_duration_reach {cfg : Cfg} {pfx0 sep0 : Bytes} {tags0 : TagMap} (lo hi : Int)
    (st : St) (hreach : Reach cfg pfx0 sep0 tags0 st) (hk : cfg.kind ≠ .none) (sid m : Nat)
    (s : ScopeS) (n : Bytes) (vU : List F64) (us : List Int) (cs : List Int) (hne : us ≠ [])
    (hlen : cs.length = us.length)
    (hs : getScope st sid = some s) (hm : (m, Metric.hist n ⟨true, us, vU, cs⟩) ∈ s.metrics) (ops : List Op)
    (hsole : Always (SoleOwner "hist" (fqn st.sep s.pfx n) s.tags sid m) st (ops ++ [.report]))
    (hlive : Live (runEv st (ops ++ [.report])).1 sid) :
    histDurationDelivered (fqn st.sep s.pfx n) s.tags (fun a b => a == lo && b == hi) (runEv st (ops ++ [.report])).2
        = durationMass (fun a b => a == lo && b == hi) us cs
          + (((ScopeRec.samplesD m ops).filter fun v =>
              durationLower us (placeKey us v) == lo && us.getD (placeKey us v) 0 == hi).length : Int) := by
  obtain ⟨h1, h2, h3⟩ := reach_hyps hreach hk hs _ hlive
  exact histogram_bucket_conservation_duration lo hi st h1 sid m s n vU us cs hne hlen hs hm ops hsole hlive h2 h3

theorem histogram_idle_pass_silent_duration_reach {cfg : Cfg} {pfx0 sep0 : Bytes} {tags0 : TagMap} (st : St)
    (hreach : Reach cfg pfx0 sep0 tags0 st) (hk : cfg.kind ≠ .none) (sid m : Nat)
    (s : ScopeS) (n : Bytes) (vU : List F64) (us : List Int) (cs : List Int) (hlen : cs.length = us.length)
    (hs : getScope st sid = some s) (hm : (m, Metric.hist n ⟨true, us, vU, cs⟩) ∈ s.metrics) (mid : List Op)
    (hidle : ∀ op ∈ mid, ScopeRec.target op ≠ some m)
    (hsole : Always (SoleOwner "hist" (fqn st.sep s.pfx n) s.tags sid m) st (.report :: (mid ++ [.report])))
    (hlive : Live (runEv st (.report :: (mid ++ [.report]))).1 sid) :
    ∀ e ∈ (runEv (step st .report).1 (mid ++ [.report])).2, ∀ lo hi c,
      e ≠ .hdur (fqn st.sep s.pfx n) s.tags lo hi c := by
  obtain ⟨h1, h2, h3⟩ := reach_hyps hreach hk hs _ hlive
  exact histogram_idle_pass_silent_duration st h1 sid m s n vU us cs hlen hs hm mid hidle hsole hlive h2 h3

/-! ### non-vacuity: a concrete two-pass history through the hypotheses -/

/-- plain reporter, no sanitizer, one shard -/
def cfgP : Cfg := { san := none, kind := .plain, closable := false, shards := 1, defaultBuckets := none }

/-- the state after `h := root.Histogram("h", ValueBuckets{1.0, 2.0})` (metric id 0) -/
def stH : St := Scope.runOps (mkRoot cfgP [] [] [])
  [.hist 0 [104] (some (false, [], [0x3FF0000000000000, 0x4000000000000000]))]

/-- the same state written out, as a function of the histogram's state -/
def stOf (h : Hist) : St :=
  { mkRoot cfgP [] [] [] with
    scopes := [{ pfx := [], tags := [], closed := false, isRoot := true, metrics := [(0, .hist [104] h)] }],
    nextMetric := 1 }

/-- stored bounds `1.0, 2.0, MaxFloat64`, all counts `0` -/
def hExp : Hist := ⟨false, [], [0x3FF0000000000000, 0x4000000000000000, F64.maxFloat], [0, 0, 0]⟩

theorem newHist_exp : newHist (false, [], [0x3FF0000000000000, 0x4000000000000000]) = hExp := by
  have : valueUppers [0x3FF0000000000000, 0x4000000000000000]
      = [0x3FF0000000000000, 0x4000000000000000, F64.maxFloat] := by
    simp [valueUppers, sortByKey, List.mergeSort, List.MergeSort.Internal.splitInTwo, List.merge]
    decide
  simp [newHist, this, hExp]

theorem stH_eq : stH = stOf hExp := by rw [← newHist_exp]; rfl

theorem metInv_stH : MetInv (stOf hExp) := stH_eq ▸ reach_metInv ⟨_, rfl⟩

/-- first pass: samples on the bounds `1.0` and `2.0`; second pass: `2.0` again, a NaN, a duration (ignored);
in between another metric, a subscope with a counter of its own, and the close of that subscope -/
def opsH : List Op :=
  [.recv 0 0x3FF0000000000000, .recv 0 0x4000000000000000, .report,
   .recv 0 0x4000000000000000, .recv 0 0x7FF8000000000000, .recd 0 5,
   .counter 0 [99], .inc 1 3, .sub 0 [97] 0, .counter 1 [104], .inc 2 1, .close 1]

/-- the per-bucket theorem applies to this history, for the bucket `(1.0, 2.0]` … -/
theorem exH_bucket :
    histValueDelivered [104] [] (fun a b => a == 0x3FF0000000000000 && b == 0x4000000000000000)
        (runEv (stOf hExp) (opsH ++ [.report])).2
      = valueMass (fun a b => a == 0x3FF0000000000000 && b == 0x4000000000000000) hExp.vUppers [0, 0, 0]
        + (((ScopeRec.samplesV 0 opsH).filter fun v =>
            valueLower hExp.vUppers (placeValue hExp.vUppers v) == 0x3FF0000000000000
              && hExp.vUppers.getD (placeValue hExp.vUppers v) 0 == 0x4000000000000000).length : Int) :=
  histogram_bucket_conservation_value 0x3FF0000000000000 0x4000000000000000 (stOf hExp) metInv_stH 0 0
    _ [104] [] hExp.vUppers [0, 0, 0] (by decide) rfl rfl List.mem_cons_self opsH
    (always_of_B (fun _ => soleOwner_of_B) (by decide +kernel)) (live_of_B (by decide +kernel)) (by decide)
    (reg_of_B (by decide +kernel))

/-- … and both sides are `2` (the two samples `2.0`; `1.0` is in the first bucket, NaN in the last) -/
example : histValueDelivered [104] [] (fun a b => a == 0x3FF0000000000000 && b == 0x4000000000000000)
    (runEv (stOf hExp) (opsH ++ [.report])).2 = 2 := by decide +kernel

example : ((ScopeRec.samplesV 0 opsH).filter fun v =>
    valueLower hExp.vUppers (placeValue hExp.vUppers v) == 0x3FF0000000000000
      && hExp.vUppers.getD (placeValue hExp.vUppers v) 0 == 0x4000000000000000).length = 2 := by
  decide +kernel

/-- the total (`histogram_conservation_value`): four `recv` (NaN included), the `recd` is not counted -/
example : histValueDelivered [104] [] (fun _ _ => true) (runEv (stOf hExp) (opsH ++ [.report])).2
    = valueMass (fun _ _ => true) hExp.vUppers [0, 0, 0] + ((ScopeRec.samplesV 0 opsH).length : Int) :=
  histogram_conservation_value (stOf hExp) metInv_stH 0 0
    _ [104] [] hExp.vUppers [0, 0, 0] (by decide) rfl rfl List.mem_cons_self opsH
    (always_of_B (fun _ => soleOwner_of_B) (by decide +kernel)) (live_of_B (by decide +kernel)) (by decide)
    (reg_of_B (by decide +kernel))

example : histValueDelivered [104] [] (fun _ _ => true) (runEv (stOf hExp) (opsH ++ [.report])).2 = 4 := by
  decide +kernel
example : (ScopeRec.samplesV 0 opsH).length = 4 := by decide

/-- the second pass of `report, (nothing on h), report` is silent for `h` -/
example := histogram_idle_pass_silent_value (stOf hExp) metInv_stH 0 0 _ [104] [] hExp.vUppers [0, 0, 0] rfl rfl
  List.mem_cons_self [.counter 0 [99], .inc 1 3] (by decide)
  (always_of_B (fun _ => soleOwner_of_B) (by decide +kernel)) (live_of_B (by decide +kernel)) (by decide)
  (reg_of_B (by decide +kernel))

/-- the `_reach` form on the same history: no registry / reporter-kind / `MetInv` side conditions left -/
example := histogram_bucket_conservation_value_reach (cfg := cfgP) (pfx0 := []) (sep0 := []) (tags0 := [])
  0x3FF0000000000000 0x4000000000000000 (stOf hExp) (stH_eq ▸ ⟨_, rfl⟩) (by decide) 0 0
  _ [104] [] hExp.vUppers [0, 0, 0] (by decide) rfl rfl List.mem_cons_self opsH
  (always_of_B (fun _ => soleOwner_of_B) (by decide +kernel)) (live_of_B (by decide +kernel))

/-! #### a counter: `c := root.Counter("c")`, two passes, other metrics and a subscope in between -/

def stC : St := Scope.runOps (mkRoot cfgP [] [] []) [.counter 0 [99]]

def opsC : List Op :=
  [.inc 0 5, .report, .inc 0 7, .sub 0 [97] 0, .counter 1 [99], .inc 1 100, .inc 0 (-2), .gauge 0 [103], .upd 2 1]

example := counter_conservation_reach (cfg := cfgP) (pfx0 := []) (sep0 := []) (tags0 := []) stC ⟨_, rfl⟩
  (by decide) 0 0 { pfx := [], tags := [], closed := false, isRoot := true, metrics := [(0, .counter [99] 0)] }
  [99] 0 rfl List.mem_cons_self opsC
  (always_of_B (fun _ => soleOwner_of_B) (by decide +kernel)) (live_of_B (by decide +kernel))

/-- both sides are `10`; the `100` of the counter `a.c` on the subscope is not attributed to `c` -/
example : counterDelivered [99] [] (runEv stC (opsC ++ [.report])).2 = 10 ∧ 0 + incTotal 0 opsC = 10 := by
  decide +kernel

example := counter_idle_pass_silent_reach (cfg := cfgP) (pfx0 := []) (sep0 := []) (tags0 := []) stC ⟨_, rfl⟩
  (by decide) 0 0 { pfx := [], tags := [], closed := false, isRoot := true, metrics := [(0, .counter [99] 0)] }
  [99] 0 rfl List.mem_cons_self [.sub 0 [97] 0, .counter 1 [99], .inc 1 100] (by decide)
  (always_of_B (fun _ => soleOwner_of_B) (by decide +kernel)) (live_of_B (by decide +kernel))

/-! #### the `SoleOwner` hypothesis cannot be dropped

`root.SubScope("a").Counter("b")` (id 0) and `root.Counter("a.b")` (id 1) are two counters with the same
full name `a.b` and the same (empty) tags: the delivered sum of that identity is the sum over BOTH (3), not
the increments of either handle (1 resp. 2), and `soleOwnerB` rejects the state. -/

def stShared : St := Scope.runOps (mkRoot cfgP [] [] []) [.sub 0 [97] 0, .counter 1 [98], .counter 0 [97, 46, 98]]

example : counterDelivered [97, 46, 98] [] (runEv stShared [.inc 0 1, .inc 1 2, .report]).2 = 3
    ∧ incTotal 0 [.inc 0 1, .inc 1 2, .report] = 1 ∧ incTotal 1 [.inc 0 1, .inc 1 2, .report] = 2
    ∧ soleOwnerB "counter" [97, 46, 98] [] 1 0 stShared = false := by decide +kernel

/-! #### after `Close` of the scope conservation stops (why `Live` is assumed)

A closed scope is reported once more and then cleared; an increment through the old handle after that is
lost (in Go: it lands in a counter nobody reports any more). -/

example : counterDelivered [97, 46, 98] []
      (runEv (Scope.runOps (mkRoot cfgP [] [] []) [.sub 0 [97] 0, .counter 1 [98]])
        [.inc 0 1, .close 1, .report, .inc 0 5, .report]).2 = 1 := by decide +kernel

/-! #### a duration histogram with buckets `{10ns, 20ns}`: samples on the bounds, two passes -/

def hExpD : Hist := ⟨true, [10, 20, maxInt64], [], [0, 0, 0]⟩

def stOfD (h : Hist) : St :=
  { mkRoot cfgP [] [] [] with
    scopes := [{ pfx := [], tags := [], closed := false, isRoot := true, metrics := [(0, .hist [100] h)] }],
    nextMetric := 1 }

theorem newHist_expD : newHist (true, [10, 20], []) = hExpD := by
  have : durationUppers [10, 20] = [10, 20, maxInt64] := by
    simp [durationUppers, sortByKey, List.mergeSort, List.MergeSort.Internal.splitInTwo]
  simp [newHist, this, hExpD]

theorem reach_stD : Reach cfgP [] [] [] (stOfD hExpD) := by
  refine ⟨[.hist 0 [100] (some (true, [10, 20], []))], ?_⟩
  rw [← newHist_expD]; rfl

def opsD : List Op := [.recd 0 10, .recd 0 11, .report, .recd 0 20, .recd 0 21, .recv 0 0x3FF0000000000000]

example := histogram_bucket_conservation_duration_reach (cfg := cfgP) (pfx0 := []) (sep0 := []) (tags0 := [])
  10 20 (stOfD hExpD) reach_stD (by decide) 0 0
  _ [100] [] hExpD.dUppers [0, 0, 0] (by decide) rfl rfl List.mem_cons_self opsD
  (always_of_B (fun _ => soleOwner_of_B) (by decide +kernel)) (live_of_B (by decide +kernel))

/-- bucket `(10, 20]` gets `11` and `20`; `10` is in the first, `21` in the last bucket; total 4, `recv` ignored -/
example : histDurationDelivered [100] [] (fun a b => a == 10 && b == 20) (runEv (stOfD hExpD) (opsD ++ [.report])).2 = 2
    ∧ histDurationDelivered [100] [] (fun _ _ => true) (runEv (stOfD hExpD) (opsD ++ [.report])).2 = 4
    ∧ (ScopeRec.samplesD 0 opsD).length = 4 := by decide +kernel

end Conservation

end Tally.Props.C03
