import Tally.Model.Scope
import Tally.Model.Instrument
import TallyProofs.Lemmas.ScopeRecLemmas
import TallyProofs.Props.C11
/-!
# C10 — timers deliver synchronously, exactly once; stopwatches; instrumented calls

Model: `Tally.Scope` (sequential scope tree).  A timer handle is the metric id returned by a
`.timer sid n` operation; the handle table `St.timers` is what a `*timer` object holds in Go
(its full name, its tags and the reporter).  All theorems are over every program (`List Op`).
-/
namespace Tally.Props.C10
open Tally Tally.KeyGen Tally.Scope Tally.ScopeRec

/-- run a program, keep the final state (own copy; definitionally the one of the lemma file) -/
def runOps (st : St) : List Op → St := fun ops => ops.foldl (fun s op => (step s op).1) st

theorem runOps_eq : @runOps = @ScopeRec.runOps := rfl

/-- run a program and collect the outputs of all operations in order -/
def runOut (st : St) : List Op → St × List Out
  | [] => (st, [])
  | op :: ops => ((runOut (step st op).1 ops).1, (step st op).2 :: (runOut (step st op).1 ops).2)

theorem runOut_eq : @runOut = @ScopeRec.runOut := by
  funext st ops
  induction ops generalizing st with
  | nil => rfl
  | cons op ops ih => simp [runOut, ScopeRec.runOut, ih]

theorem runOut_fst (st : St) (ops : List Op) : (runOut st ops).1 = runOps st ops := by
  rw [runOut_eq, runOps_eq]; exact ScopeRec.runOut_fst st ops

/-- all reporter events of a run, in order -/
def eventsOf (outs : List Out) : List Event := outs.flatMap outEvents

/-! ## a. `Record` delivers once, synchronously, under the creation-time name and tags -/

/-- **a (delivery).** In every state with a reporter, `Record(d)` on a handle of the handle table
returns — as the output *of that very operation* — exactly one event, the timer event carrying
`d` with the handle's name and tags, and changes nothing (nothing is buffered). -/
theorem record_delivers (st : St) (hk : st.cfg.kind ≠ .none) (m : Nat) (nm : Bytes) (tg : TagMap) (d : Int)
    (h : st.timers.lookup m = some (nm, tg)) :
    step st (.record m d) = (st, .events [Event.timer nm tg d]) := by
  have : (st.cfg.kind == RKind.none) = false := by
    cases hkk : st.cfg.kind <;> first | rfl | exact absurd hkk hk
  simp only [step, this, h]
  rfl

/-- **a (identity).** The handle returned by `Timer(n)` on scope `sid` is entered in the handle
table under the scope's full name `fqn sep pfx (sanName n)` and the scope's tags. -/
theorem timer_handle_name (cfg : Cfg) (pfx sep : Bytes) (tags : TagMap) (ops : List Op)
    (sid : Nat) (n : Bytes) (st' : St) (m : Nat) (evs : List Event)
    (hstep : step (runOps (mkRoot cfg pfx sep tags) ops) (.timer sid n) = (st', .metric m evs)) :
    ∃ sc, getScope (runOps (mkRoot cfg pfx sep tags) ops) sid = some sc ∧
      st'.timers.lookup m = some (fqn (mkRoot cfg pfx sep tags).sep sc.pfx (sanName cfg n), sc.tags) := by
  rw [runOps_eq] at *
  have hinv := inv_runOps _ (inv_mkRoot cfg pfx sep tags) ops
  have hc := runOps_cfg_sep (mkRoot cfg pfx sep tags) ops
  have hcfg : (ScopeRec.runOps (mkRoot cfg pfx sep tags) ops).cfg = cfg := hc.1
  rcases step_timer_cases _ hinv sid n with ⟨_, h⟩ | ⟨s, id, hg, _, hl, h⟩ | ⟨s, hg, _, h⟩
  · rw [h] at hstep; cases hstep
  · rw [h] at hstep
    simp only [Prod.mk.injEq, Out.metric.injEq] at hstep
    obtain ⟨rfl, rfl, _⟩ := hstep
    exact ⟨s, hg, by rw [hl, hc.2, hcfg]⟩
  · rw [h] at hstep
    simp only [Prod.mk.injEq, Out.metric.injEq] at hstep
    obtain ⟨rfl, rfl, _⟩ := hstep
    refine ⟨s, hg, ?_⟩
    simp only [List.lookup_cons, beq_self_eq_true]
    rw [hc.2, hcfg]

/-- **a. `record_delivers_once_sync`.**  For a root with a reporter, every program `ops₁`, every
handle `m` returned by `Timer(n)` on scope `sid` (whose state then is `sc`), every continuation
`ops₂` — including `Close` of the scope, report passes that clear it, and `Close` of the root —
and every duration `d`: `Record(d)` returns exactly the one timer event carrying `d`, the full
name and the tags the scope had at creation, synchronously, and leaves the state unchanged. -/
theorem record_delivers_once_sync (cfg : Cfg) (hk : cfg.kind ≠ .none) (pfx sep : Bytes) (tags : TagMap)
    (ops₁ : List Op) (sid : Nat) (n : Bytes) (st₁ : St) (m : Nat) (evs : List Event)
    (hstep : step (runOps (mkRoot cfg pfx sep tags) ops₁) (.timer sid n) = (st₁, .metric m evs))
    (ops₂ : List Op) (d : Int) :
    ∃ sc, getScope (runOps (mkRoot cfg pfx sep tags) ops₁) sid = some sc ∧
      step (runOps st₁ ops₂) (.record m d) =
        (runOps st₁ ops₂,
         .events [Event.timer (fqn (mkRoot cfg pfx sep tags).sep sc.pfx (sanName cfg n)) sc.tags d]) := by
  obtain ⟨sc, hg, hl⟩ := timer_handle_name cfg pfx sep tags ops₁ sid n st₁ m evs hstep
  refine ⟨sc, hg, ?_⟩
  have hst₁ : st₁ = (step (runOps (mkRoot cfg pfx sep tags) ops₁) (.timer sid n)).1 := by rw [hstep]
  have hcfg : (runOps st₁ ops₂).cfg = cfg := by
    rw [hst₁]
    exact ((runOps_cfg_sep _ ops₂).1.trans (step_cfg_sep _ _).1).trans (runOps_cfg_sep _ ops₁).1
  apply record_delivers _ (by rw [hcfg]; exact hk)
  rw [runOps_eq]
  exact runOps_timers_stable st₁ ops₂ m _ hl

/-! ## b. report passes never emit timer values; the timer stream is the stream of `Record`s -/

/-- **b. `report_pass_emits_no_timer`**: a report pass (hence every `.report` and the final pass of
the root's `Close`) produces no timer event, in every state. -/
theorem report_pass_emits_no_timer (st : St) : timerEvs (reportPass st).2 = [] :=
  timerEvs_of_noTimer (reportPass_spec st).2

/-- `.record` is the only operation that can produce a timer event (this covers `.report`,
`.close` — also of the root —, subscope creation with its clean-up of closed scopes, metric
creation, and all other updates). -/
theorem only_record_emits_timer (st : St) (op : Op) (h : isRecord op = false) :
    timerEvs (outEvents (step st op).2) = [] :=
  timerEvs_of_noTimer (step_noTimer st op h)

/-- the delivery a `Record` makes through a handle table -/
def recDelivery (tbl : List (Nat × (Bytes × TagMap))) : Op → List Event
  | .record m d => match tbl.lookup m with
    | some (nm, tg) => [Event.timer nm tg d]
    | none => []
  | _ => []

/-- the deliveries of the `Record` operations of a program, each through the handle table of the
moment (a table entry never changes, see `handle_stable`) -/
def deliveries (st : St) : List Op → List Event
  | [] => []
  | op :: ops => recDelivery st.timers op ++ deliveries (step st op).1 ops

theorem handle_stable (st : St) (ops : List Op) (m : Nat) (x : Bytes × TagMap)
    (h : st.timers.lookup m = some x) : (runOps st ops).timers.lookup m = some x := by
  rw [runOps_eq]; exact runOps_timers_stable st ops m x h

/-- **b (stream).** With a reporter, the timer events in the event stream of *any* program are, in
order, exactly the deliveries of its `Record` operations: one per `Record` on a known handle,
none from anything else, nothing repeated, nothing deferred. -/
theorem timer_stream (st : St) (hk : st.cfg.kind ≠ .none) (ops : List Op) :
    timerEvs (eventsOf (runOut st ops).2) = deliveries st ops := by
  induction ops generalizing st with
  | nil => rfl
  | cons op ops ih =>
    have hk' : (step st op).1.cfg.kind ≠ .none := by rw [(step_cfg_sep st op).1]; exact hk
    simp only [runOut, eventsOf, List.flatMap_cons, timerEvs_append, deliveries]
    have := ih (step st op).1 hk'
    simp only [eventsOf] at this
    rw [this]
    congr 1
    cases op with
    | record m d =>
      have hkb : (st.cfg.kind == RKind.none) = false := by
        cases hkk : st.cfg.kind <;> first | rfl | exact absurd hkk hk
      simp only [step, hkb, recDelivery]
      cases st.timers.lookup m with
      | none => rfl
      | some x => rfl
    | _ => exact only_record_emits_timer st _ rfl

/-- every `Record` of the program addresses a handle that `Timer` has already returned -/
def handlesKnown (st : St) : List Op → Prop
  | [] => True
  | op :: ops => (∀ m d, op = .record m d → (st.timers.lookup m).isSome = true) ∧ handlesKnown (step st op).1 ops

/-- the event a `Record` must produce, read off a (final) handle table -/
def recordEvent (tbl : List (Nat × (Bytes × TagMap))) : Op → Option Event
  | .record m d => (tbl.lookup m).map fun x => Event.timer x.1 x.2 d
  | _ => none

/-- **b (one-to-one, order preserving).** In a program that records only on handles it has
obtained, the timer events are in one-to-one, order-preserving correspondence with the `.record`
operations: the `i`-th timer event is the `i`-th `Record`'s duration under that handle's name and
tags (read from the final table — entries never change). -/
theorem timer_stream_bijective (st : St) (hk : st.cfg.kind ≠ .none) (ops : List Op) (hw : handlesKnown st ops) :
    (timerEvs (eventsOf (runOut st ops).2)).map some
      = (ops.filter isRecord).map (recordEvent (runOps st ops).timers) := by
  rw [timer_stream st hk]
  induction ops generalizing st with
  | nil => rfl
  | cons op ops ih =>
    have hk' : (step st op).1.cfg.kind ≠ .none := by rw [(step_cfg_sep st op).1]; exact hk
    simp only [deliveries, List.map_append]
    have := ih (step st op).1 hk' hw.2
    rw [this]
    cases op with
    | record m d =>
      have hs := hw.1 m d rfl
      cases hl : st.timers.lookup m with
      | none => simp [hl] at hs
      | some x =>
        have hfin : (runOps st (Op.record m d :: ops)).timers.lookup m = some x := handle_stable st _ m x hl
        simp only [List.filter_cons, isRecord, if_true, List.map_cons, recordEvent, hfin, recDelivery, hl]
        rfl
    | _ => rw [List.filter_cons_of_neg (by simp [isRecord])]; rfl

/-- … in particular the number of timer deliveries is the number of `Record` calls -/
theorem timer_count (st : St) (hk : st.cfg.kind ≠ .none) (ops : List Op) (hw : handlesKnown st ops) :
    (timerEvs (eventsOf (runOut st ops).2)).length = (ops.filter isRecord).length := by
  have := congrArg List.length (timer_stream_bijective st hk ops hw)
  simpa using this

/-! ## c. reporter-less test scopes keep the values -/

/-- on a test scope tree no operation of any program emits a timer event -/
theorem no_reporter_no_timer_event (st : St) (hk : st.cfg.kind = .none) (ops : List Op) :
    timerEvs (eventsOf (runOut st ops).2) = [] := by
  induction ops generalizing st with
  | nil => rfl
  | cons op ops ih =>
    have hk' : (step st op).1.cfg.kind = .none := by rw [(step_cfg_sep st op).1]; exact hk
    simp only [runOut, eventsOf, List.flatMap_cons, timerEvs_append]
    have := ih (step st op).1 hk'
    simp only [eventsOf] at this
    rw [this, List.append_nil]
    cases op with
    | record m d =>
      have hkb : (st.cfg.kind == RKind.none) = true := by rw [hk]; rfl
      simp only [step, hkb, if_true]
      exact timerEvs_of_noTimer (updMetric_spec st m _ (tame_record d)).2
    | _ => exact only_record_emits_timer st _ rfl

/-- **c.** In a reachable state of a test scope tree, `Record(d)` on a timer whose stored values
are `vs` returns no event and leaves the timer with `vs ++ [d]`, in the same scope. -/
theorem record_no_reporter (cfg : Cfg) (hk : cfg.kind = .none) (pfx sep : Bytes) (tags : TagMap) (ops : List Op)
    (m i : Nat) (p : Bytes) (t : TagMap) (n : Bytes) (vs : List Int) (d : Int)
    (hl : Loc (runOps (mkRoot cfg pfx sep tags) ops) m i p t (.timer n vs)) :
    (step (runOps (mkRoot cfg pfx sep tags) ops) (.record m d)).2 = .events []
    ∧ Loc (step (runOps (mkRoot cfg pfx sep tags) ops) (.record m d)).1 m i p t (.timer n (vs ++ [d])) := by
  rw [runOps_eq] at *
  have hg := good_runOps _ (good_mkRoot cfg hk pfx sep tags) ops
  constructor
  · rcases (step_none_cases _ hg.kind hg.inv hg.tinv (.record m d) : StepCases _ _) with
      ⟨h, _⟩ | ⟨_, _, _, _, _, h, _⟩ | ⟨_, _, _, h⟩ | ⟨_, _, _, _, _, _, _, h⟩
    · cases h
    · cases h
    · rw [h]
    · rw [h]
  · have := loc_step _ hg.kind hg.inv hg.tinv (.record m d) m i p t _ hl
    simpa [applyOp, target, effect] using this

/-- **c (snapshot).** The values of a timer in the snapshot are the durations recorded through its
handle, in order (C11's timer clause). -/
theorem record_no_reporter_snapshot (cfg : Cfg) (hk : cfg.kind = .none) (pfx sep : Bytes) (tags : TagMap)
    (ops₁ : List Op) (sid : Nat) (n : Bytes) (m : Nat) (evs : List Event)
    (hout : (step (runOps (mkRoot cfg pfx sep tags) ops₁) (.timer sid n)).2 = .metric m evs)
    (hfresh : (runOps (mkRoot cfg pfx sep tags) ops₁).nextMetric ≤ m) (ops₂ : List Op) :
    ∃ sc, getScope (runOps (mkRoot cfg pfx sep tags) ops₁) sid = some sc ∧
      let nm := fqn (mkRoot cfg pfx sep tags).sep sc.pfx (sanName cfg n)
      (m, SnapEntry.timer (key nm [sc.tags]) nm sc.tags (recorded m ops₂))
        ∈ snapIds (runOps (mkRoot cfg pfx sep tags) (ops₁ ++ .timer sid n :: ops₂)) :=
  C11.snapshot_timer cfg hk pfx sep tags ops₁ sid n m evs hout hfresh ops₂

/-! ## d. stopwatches and instrumented calls -/

open Tally.Instrument

/-- **d. `stopwatch_elapsed`**: a stopwatch started (from a timer or a duration histogram) when the
clock had been read `w₀.tick` times and stopped in any later world `w` performs exactly one scope
operation: `Record` resp. `RecordDuration` of `now(t₁) - now(t₀)` — the time elapsed between the
two clock readings `t₀ = w₀.tick` (in `Start`) and `t₁ = w.tick` (in `Stop`) — on its recorder;
each of `Start` and `Stop` reads the clock exactly once. -/
theorem stopwatch_elapsed (now : Nat → Int) (r : Recorder) (w₀ w : World) :
    (start now r w₀).2 = { w₀ with tick := w₀.tick + 1 }
    ∧ stop now (start now r w₀).1 w
        = doOp { w with tick := w.tick + 1 } (recOp r (wrap64 (now w.tick - now w₀.tick))) := ⟨rfl, rfl⟩

/-- with a reporter, stopping a timer stopwatch delivers exactly one timer event carrying the
elapsed time under the timer's name and tags -/
theorem stopwatch_timer_delivery (now : Nat → Int) (m : Nat) (w₀ w : World) (hk : w.st.cfg.kind ≠ .none)
    (nm : Bytes) (tg : TagMap) (h : w.st.timers.lookup m = some (nm, tg)) :
    (stop now (start now (.timer m) w₀).1 w).outs
        = w.outs ++ [.events [Event.timer nm tg (wrap64 (now w.tick - now w₀.tick))]]
    ∧ (stop now (start now (.timer m) w₀).1 w).st = w.st := by
  have := record_delivers w.st hk m nm tg (wrap64 (now w.tick - now w₀.tick)) h
  simp [stop, start, globalNow, doOp, recOp, this]

/-- the counter `Exec` increments -/
def chosen (c : Call) (f : Fn) : Nat := if f.result.isSome then c.err else c.success

/-- **d. `exec_once`**: `Exec(f)` invokes `f` exactly once, returns its error unchanged, and
performs exactly two scope operations, in this order: one `Record` on the timing timer of the time
elapsed between the clock reading before and the one after `f`, and one `Inc(1)` on exactly one of
the two counters — `err` if `f` failed, `success` otherwise. -/
theorem exec_once (now : Nat → Int) (c : Call) (f : Fn) (w : World) :
    (exec now c f w).1 = f.result
    ∧ (exec now c f w).2.calls = w.calls + 1
    ∧ (exec now c f w).2.trace
        = w.trace ++ [.record c.timing (wrap64 (now (w.tick + 1 + f.ticks) - now w.tick)), .inc (chosen c f) 1]
    ∧ (exec now c f w).2.st
        = runOps w.st [.record c.timing (wrap64 (now (w.tick + 1 + f.ticks) - now w.tick)), .inc (chosen c f) 1]
    ∧ (exec now c f w).2.tick = w.tick + 1 + f.ticks + 1 := by
  cases hf : f.result with
  | none => simp [exec, callFn, start, stop, globalNow, doOp, recOp, hf, chosen, runOps]
  | some e => simp [exec, callFn, start, stop, globalNow, doOp, recOp, hf, chosen, runOps]

/-- with a reporter, `Exec` delivers exactly one timer event (the latency) -/
theorem exec_one_latency (now : Nat → Int) (c : Call) (f : Fn) (w : World) (hk : w.st.cfg.kind ≠ .none)
    (nm : Bytes) (tg : TagMap) (h : w.st.timers.lookup c.timing = some (nm, tg)) :
    timerEvs (eventsOf ((exec now c f w).2.outs.drop w.outs.length))
      = [Event.timer nm tg (wrap64 (now (w.tick + 1 + f.ticks) - now w.tick))] := by
  have hrec := record_delivers w.st hk c.timing nm tg (wrap64 (now (w.tick + 1 + f.ticks) - now w.tick)) h
  have hinc : ∀ x, timerEvs (outEvents (step w.st (.inc x 1)).2) = [] := fun x => only_record_emits_timer _ _ rfl
  cases hf : f.result with
  | none =>
    simp [exec, callFn, start, stop, globalNow, doOp, recOp, hf, hrec, eventsOf, timerEvs_append, hinc]
    rfl
  | some e =>
    simp [exec, callFn, start, stop, globalNow, doOp, recOp, hf, hrec, eventsOf, timerEvs_append, hinc]
    rfl

/-- on a test scope tree the effect of `Exec` on the three metrics can be read off: the timing
timer gets the latency appended, the chosen counter goes up by one (int64), the other counter is
untouched -/
theorem exec_values (now : Nat → Int) (c : Call) (f : Fn) (w : World) (hg : Good w.st)
    (hne : c.success ≠ c.err)
    (iT iS iE : Nat) (pT pS pE : Bytes) (tT tS tE : TagMap) (nT nS nE : Bytes) (vs : List Int) (uS uE : Int)
    (hT : Loc w.st c.timing iT pT tT (.timer nT vs))
    (hS : Loc w.st c.success iS pS tS (.counter nS uS))
    (hE : Loc w.st c.err iE pE tE (.counter nE uE)) :
    let d := wrap64 (now (w.tick + 1 + f.ticks) - now w.tick)
    Loc (exec now c f w).2.st c.timing iT pT tT (.timer nT (vs ++ [d]))
    ∧ Loc (exec now c f w).2.st c.success iS pS tS (.counter nS (if f.result.isSome then uS else wrap64 (uS + 1)))
    ∧ Loc (exec now c f w).2.st c.err iE pE tE (.counter nE (if f.result.isSome then wrap64 (uE + 1) else uE)) := by
  intro d
  obtain ⟨_, _, _, hst, _⟩ := exec_once now c f w
  rw [hst, runOps_eq]
  have key : ∀ m i p t x, Loc w.st m i p t x →
      Loc (ScopeRec.runOps w.st [.record c.timing d, .inc (chosen c f) 1]) m i p t
        (applyOp m (applyOp m x (.record c.timing d)) (.inc (chosen c f) 1)) := by
    intro m i p t x hl
    exact loc_runOps w.st hg _ m i p t x hl
  have hTS : c.timing ≠ c.success := fun e => by
    obtain ⟨_, _, _, h⟩ := hg.tinv.loc_unique (e ▸ hT) hS; cases h
  have hTE : c.timing ≠ c.err := fun e => by
    obtain ⟨_, _, _, h⟩ := hg.tinv.loc_unique (e ▸ hT) hE; cases h
  refine ⟨?_, ?_, ?_⟩
  · have := key _ _ _ _ _ hT
    cases hf : f.result <;> simpa [applyOp, target, effect, chosen, hf, hTS, hTE, Ne.symm hTS, Ne.symm hTE] using this
  · have := key _ _ _ _ _ hS
    cases hf : f.result <;> simpa [applyOp, target, effect, chosen, hf, hTS, hne, Ne.symm hne, Ne.symm hTS] using this
  · have := key _ _ _ _ _ hE
    cases hf : f.result <;> simpa [applyOp, target, effect, chosen, hf, hTE, hne, Ne.symm hne, Ne.symm hTE] using this

/-! ## non-vacuity: concrete programs meeting the hypotheses -/

/-- root with a plain, closable reporter, two shards, no sanitizer -/
def cfgR : Cfg := { san := none, kind := .plain, closable := true, shards := 2, defaultBuckets := none }

/-- `t := root.SubScope("a").Timer("b")`; then the subscope is closed, a report pass clears and
unregisters it, the root is closed — and `t.Record(5)` still delivers exactly `a.b 5` -/
example : ∃ sc, getScope (runOps (mkRoot cfgR [] [] []) [.sub 0 [97] 0]) 1 = some sc ∧
    step (runOps (step (runOps (mkRoot cfgR [] [] []) [.sub 0 [97] 0]) (.timer 1 [98])).1 [.close 1, .report, .close 0])
        (.record 0 5) =
      (runOps (step (runOps (mkRoot cfgR [] [] []) [.sub 0 [97] 0]) (.timer 1 [98])).1 [.close 1, .report, .close 0],
       .events [Event.timer (fqn (mkRoot cfgR [] [] []).sep sc.pfx (sanName cfgR [98])) sc.tags 5]) :=
  record_delivers_once_sync cfgR (by decide) [] [] [] [.sub 0 [97] 0] 1 [98] _ 0 [] rfl [.close 1, .report, .close 0] 5

/-- the scope in question is `a` without tags, so the event is `a.b`, no tags, `5` -/
example : getScope (runOps (mkRoot cfgR [] [] []) [.sub 0 [97] 0]) 1
    = some { pfx := [97], tags := [], closed := false, isRoot := false, metrics := [] } := by rfl

/-- a program whose `Record`s are all on handles it obtained: two timer events for two `Record`s,
none from the two report passes in between and after -/
example : (timerEvs (eventsOf (runOut (mkRoot cfgR [] [] []) [.timer 0 [116], .record 0 1, .report, .record 0 2, .report]).2)).length
    = ([Op.timer 0 [116], .record 0 1, .report, .record 0 2, .report].filter isRecord).length :=
  timer_count (mkRoot cfgR [] [] []) (by decide) _ (by
    simp only [handlesKnown]
    refine ⟨?_, ?_, ?_, ?_, ?_, trivial⟩ <;> intro m d h <;> cases h <;> rfl)

/-- a stopwatch on a timer with a reporter: the clock is read at tick 3 in `Start` and at tick 9 in
`Stop`; one timer event with `now 9 - now 3` -/
example (now : Nat → Int) :
    let st := (step (mkRoot cfgR [] [] []) (.timer 0 [116])).1
    let w₀ : World := { st := st, tick := 3, calls := 0, trace := [], outs := [] }
    let w : World := { st := st, tick := 9, calls := 0, trace := [], outs := [] }
    (stop now (start now (.timer 0) w₀).1 w).outs = [.events [Event.timer [116] [] (wrap64 (now 9 - now 3))]] := by
  intro st w₀ w
  exact (stopwatch_timer_delivery now 0 w₀ w (by decide) [116] [] rfl).1

/-- an instrumented call on a test scope tree: `f` fails with error 7 -/
example (now : Nat → Int) :
    let st := runOps (mkRoot C11.cfgT [] [] []) [.counter 0 [111], .counter 0 [101], .timer 0 [108]]
    let w : World := { st := st, tick := 0, calls := 0, trace := [], outs := [] }
    (exec now ⟨0, 1, 2⟩ ⟨some 7, 4⟩ w).1 = some 7 ∧ (exec now ⟨0, 1, 2⟩ ⟨some 7, 4⟩ w).2.calls = 1
    ∧ (exec now ⟨0, 1, 2⟩ ⟨some 7, 4⟩ w).2.trace = [.record 2 (wrap64 (now 5 - now 0)), .inc 1 1] := by
  intro st w
  obtain ⟨h1, h2, h3, _⟩ := exec_once now ⟨0, 1, 2⟩ ⟨some 7, 4⟩ w
  exact ⟨h1, h2, h3⟩

end Tally.Props.C10
