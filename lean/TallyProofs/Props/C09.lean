import Tally.Model.GetOrCreate
import Tally.Spec.C09
import TallyProofs.Props.C07
/-!
# C09 — concurrent first use creates one metric per identity

For every interleaving of any number of threads calling the same getter.  (Child scopes: the registry's
get-or-create with its re-acquire paths is `Model.Registry`; the two theorems at the end of this file restate
what C07 proves about it in C09's terms.  Deliveries through the
unique object: `Tally.Props.C01`.  Data-race freedom in the sense of the Go memory model is not
expressible here; the thorough tier runs the scenario under `-race`.)
-/
namespace Tally.Props.C09
open Tally Tally.GetOrCreate

theorem lookup_upd_same (pcs : List (Nat × Pc)) (t : Nat) (p : Pc) : lookupPc (updPcs pcs t p) t = p := by
  simp [lookupPc, updPcs, List.lookup]

theorem lookup_filter_other (pcs : List (Nat × Pc)) (t u : Nat) (h : u ≠ t) :
    (pcs.filter (·.1 != t)).lookup u = pcs.lookup u := by
  induction pcs with
  | nil => rfl
  | cons a l ih =>
    obtain ⟨k, v⟩ := a
    by_cases hk : k = t
    · subst hk
      have h1 : ((k, v).1 != k) = false := by simp
      have h2 : (u == k) = false := by simp [h]
      simp only [List.filter, h1, List.lookup, h2, ih]
    · have h1 : ((k, v).1 != t) = true := by simp [hk]
      simp only [List.filter, h1, List.lookup]
      split
      · rfl
      · exact ih

theorem lookup_upd_other (pcs : List (Nat × Pc)) (t u : Nat) (p : Pc) (h : u ≠ t) :
    lookupPc (updPcs pcs t p) u = lookupPc pcs u := by
  have hne : (u == t) = false := by simp [h]
  simp only [lookupPc, updPcs, List.lookup, hne, lookup_filter_other pcs t u h]

structure Inv (s : State) : Prop where
  results_slot : ∀ r ∈ s.results, s.slot = some r.2
  returned_slot : ∀ t id, lookupPc s.pcs t = .returned id → s.slot = some id
  allocs_le : s.allocs ≤ 1
  allocs_zero : s.slot = none → s.allocs = 0
  allocs_one : s.slot ≠ none → s.allocs = 1

theorem inv_init : Inv init := by
  constructor <;> simp [init, lookupPc]

/-- updating one thread's pc to a non-`returned` value, or to `returned` of the slot's object, keeps the pc clause -/
theorem returned_slot_upd (pcs : List (Nat × Pc)) (slot : Option Nat) (t : Nat) (p : Pc)
    (h : ∀ u id, lookupPc pcs u = .returned id → slot = some id)
    (hp : ∀ id, p = .returned id → slot = some id) :
    ∀ u id, lookupPc (updPcs pcs t p) u = .returned id → slot = some id := by
  intro u id hu
  by_cases hut : u = t
  · subst hut; rw [lookup_upd_same] at hu; exact hp id hu
  · rw [lookup_upd_other _ _ _ _ hut] at hu; exact h u id hu

theorem inv_step (s s' : State) (e : Ev) (h : Inv s) (hs : step s e = some s') : Inv s' := by
  obtain ⟨slot, allocs, nextId, pcs, results⟩ := s
  obtain ⟨h1, h2, h3, h4, h5⟩ := h
  simp only at h1 h2 h3 h4 h5
  cases e with
  | probe t =>
    simp only [step] at hs
    split at hs
    · cases hs
    · cases slot with
      | some id =>
        simp only [Option.some.injEq] at hs; subst hs
        refine ⟨?_, ?_, h3, ?_, ?_⟩
        · intro r hr
          rcases List.mem_cons.mp hr with rfl | hr
          · rfl
          · exact h1 r hr
        · exact returned_slot_upd _ _ _ _ h2 (by intro id' he; injection he with he; subst he; rfl)
        · intro hn; cases hn
        · intro _; exact h5 (by simp)
      | none =>
        simp only [Option.some.injEq] at hs; subst hs
        exact ⟨h1, returned_slot_upd _ _ _ _ h2 (by intro id' he; cases he), h3, h4, h5⟩
  | create t =>
    simp only [step] at hs
    split at hs
    · cases hs
    · cases slot with
      | some id =>
        simp only [Option.some.injEq] at hs; subst hs
        refine ⟨?_, ?_, h3, ?_, ?_⟩
        · intro r hr
          rcases List.mem_cons.mp hr with rfl | hr
          · rfl
          · exact h1 r hr
        · exact returned_slot_upd _ _ _ _ h2 (by intro id' he; injection he with he; subst he; rfl)
        · intro hn; cases hn
        · intro _; exact h5 (by simp)
      | none =>
        simp only [Option.some.injEq] at hs; subst hs
        have h0 := h4 rfl
        refine ⟨?_, ?_, ?_, ?_, ?_⟩
        · intro r hr
          rcases List.mem_cons.mp hr with rfl | hr
          · rfl
          · have := h1 r hr; cases this
        · apply returned_slot_upd _ _ _ _ _ (by intro id' he; injection he with he; subst he; rfl)
          intro u id' hu
          have := h2 u id' hu; cases this
        · simp only; omega
        · intro hn; cases hn
        · intro _; simp only; omega
  | finish t =>
    simp only [step] at hs
    split at hs
    · simp only [Option.some.injEq] at hs; subst hs
      exact ⟨h1, returned_slot_upd _ _ _ _ h2 (by intro id' he; cases he), h3, h4, h5⟩
    · cases hs

theorem inv_run (s s' : State) (es : List Ev) (h : Inv s) (hr : run s es = some s') : Inv s' := by
  induction es generalizing s with
  | nil => simp only [run, Option.some.injEq] at hr; subst hr; exact h
  | cons e es ih =>
    simp only [run] at hr
    cases h1 : step s e with
    | none => simp [h1] at hr
    | some s1 => simp only [h1] at hr; exact ih s1 (inv_step s s1 e h h1) hr

/-- **one object per name**: for every interleaving of any number of threads, all calls return the same
object, and the cached reporter's Allocate is called at most once. -/
theorem one_object_per_name (es : List Ev) (s : State) (hr : run init es = some s) :
    (∀ r₁ ∈ s.results, ∀ r₂ ∈ s.results, r₁.2 = r₂.2) ∧ s.allocs ≤ 1 := by
  have h := inv_run init s es inv_init hr
  refine ⟨?_, h.allocs_le⟩
  intro r₁ h₁ r₂ h₂
  have a := h.results_slot r₁ h₁
  have b := h.results_slot r₂ h₂
  rw [a] at b; injection b

/-- the oracle's first two clauses hold of the model's trace -/
theorem spec_holds (es : List Ev) (s : State) (hr : run init es = some s) (n : Int) :
    Spec.C09.holds (s.results.map (·.2)) s.allocs n n = none := by
  obtain ⟨hres, hal⟩ := one_object_per_name es s hr
  have h1 : ((s.results.map (·.2)).all fun r => some r == (s.results.map (·.2)).head?) = true := by
    rw [List.all_eq_true]
    intro r hr'
    obtain ⟨x, hx, rfl⟩ := List.mem_map.mp hr'
    cases hl : s.results with
    | nil => rw [hl] at hx; cases hx
    | cons y l =>
      simp only [List.map_cons, List.head?_cons, beq_iff_eq, Option.some.injEq]
      exact hres x hx y (by rw [hl]; simp)
  have h2 : ¬ (s.allocs > 1) := by omega
  unfold Spec.C09.holds
  rw [h1]
  simp [h2]

/-- an allocation happens exactly when the slot is filled -/
theorem allocated_iff_created (es : List Ev) (s : State) (hr : run init es = some s) :
    (s.slot = none → s.allocs = 0) ∧ (s.slot ≠ none → s.allocs = 1) :=
  let h := inv_run init s es inv_init hr
  ⟨h.allocs_zero, h.allocs_one⟩

/-! non-vacuity: two threads both miss, then both create -/
example : run init [.probe 1, .probe 2, .create 2, .create 1, .finish 1, .probe 1]
    = some { slot := some 0, allocs := 1, nextId := 1, pcs := [(1, .returned 0), (2, .returned 0)],
             results := [(1, 0), (1, 0), (2, 0)] } := by decide

/-! ## child scopes (`registry.Subscope`): one live scope per identity

`Model.Registry` (concurrent shard, raw and sanitized keys, report passes, Close, re-acquire of closed
scopes).  For every interleaving of any number of threads: -/

/-- all callers that asked — with any raw spellings of one identity — and whose results are still live
received the very same scope -/
theorem one_child_scope_per_identity {san : Nat → Nat} {s0 s : Registry.State} {es : List Registry.Ev}
    (hsan : ∀ k, san (san k) = san k) (h0 : C07.Start san s0) (hr : Registry.run san s0 es = some s)
    {t1 t2 r1 r2 sid1 sid2 : Nat} (hd1 : Registry.pcOf s t1 = .obtDone r1 sid1) (hd2 : Registry.pcOf s t2 = .obtDone r2 sid2)
    (hsame : san r1 = san r2) {x1 x2 : Registry.ScopeS}
    (hx1 : Registry.scopeOf s sid1 = some x1) (hl1 : x1.closed = false)
    (hx2 : Registry.scopeOf s sid2 = some x2) (hl2 : x2.closed = false) : sid1 = sid2 :=
  C07.obtain_same_identity_same_live_scope hsan h0 hr hd1 hd2 hsame hx1 hl1 hx2 hl2

/-- … and what was recorded through any handle is never lost: every token is in exactly one of delivered,
a scope's cell, a thread's pending delivery, dropped — and nothing recorded before the scope's Close is dropped -/
theorem recorded_through_any_child_handle_is_kept {san : Nat → Nat} {s0 s : Registry.State} {es : List Registry.Ev}
    (hsan : ∀ k, san (san k) = san k) (h0 : C07.Start san s0) (hr : Registry.run san s0 es = some s) :
    ((s.delivered ++ Registry.allCells s ++ Registry.allPending s ++ s.dropped).map (·.id)).Nodup ∧
    (s.delivered ++ Registry.allCells s ++ Registry.allPending s ++ s.dropped).length = s.nextToken ∧
    ∀ tok ∈ s.dropped, tok.pre = false :=
  ⟨(C07.token_conservation hsan h0 hr).1, (C07.token_conservation hsan h0 hr).2.2, C07.no_pre_token_dropped hsan h0 hr⟩

end Tally.Props.C09
