import Tally.Model.HistPass
/-!
# The driver's scheduling step is a run of model events

`Tally.HistPass.walk` is what the lock-step driver (`Tally/Drv/HistPass.lean`, line `advance`) uses to move a
pass thread from one reporter call to the next: it is not a further primitive of the model but a list of `swap`
events that the model accepts one after the other (`walk_is_run`).  So every state the driver reaches is a state `run` reaches, and the theorems of
`Props/C09HistPass` (conservation, delivered_in_own_bucket, …) apply to it.
-/
namespace Tally.Props.C09HistWalk
open Tally Tally.HistPass

theorem run_append_single (s s' s'' : State) (es : List Ev) (e : Ev)
    (h1 : run s es = some s') (h2 : step s' e = some s'') : run s (es ++ [e]) = some s'' := by
  induction es generalizing s with
  | nil =>
    simp only [run] at h1
    cases h1
    simp [run, h2]
  | cons x xs ih =>
    simp only [run, List.cons_append] at h1 ⊢
    cases hx : step s x with
    | none => simp [hx] at h1
    | some s1 =>
      simp only [hx] at h1 ⊢
      exact ih s1 h1

/-- generalised over the events accumulated so far -/
theorem walk_is_run_aux (t : Nat) : ∀ (fuel : Nat) (s0 s : State) (b : Nat) (acc : List Ev)
    (s' : State) (evs : List Ev) (b' : Nat) (wh : Option Nat),
    run s0 acc = some s → walk t fuel s b acc = some (s', evs, b', wh) → run s0 evs = some s' := by
  intro fuel
  induction fuel with
  | zero => intro s0 s b acc s' evs b' wh _ h; simp [walk] at h
  | succ n ih =>
    intro s0 s b acc s' evs b' wh hacc h
    unfold walk at h
    split at h
    · cases hs : step s (.swap t b) with
      | none => simp [hs] at h
      | some s1 =>
        simp only [hs] at h
        have hrun : run s0 (acc ++ [.swap t b]) = some s1 := run_append_single s0 s s1 acc _ hacc hs
        split at h
        · exact ih s0 s1 (b + 1) _ s' evs b' wh hrun h
        · simp only [Option.some.injEq, Prod.mk.injEq] at h
          obtain ⟨rfl, rfl, _, _⟩ := h
          exact hrun
    · simp only [Option.some.injEq, Prod.mk.injEq] at h
      obtain ⟨rfl, rfl, _, _⟩ := h
      exact hacc

/-- **walk_is_run** — the state the driver's `advance` reaches is reached by `run` on the events it lists -/
theorem walk_is_run (t fuel : Nat) (s : State) (b : Nat) (s' : State) (evs : List Ev) (b' : Nat) (wh : Option Nat)
    (h : walk t fuel s b [] = some (s', evs, b', wh)) : run s evs = some s' :=
  walk_is_run_aux t fuel s s b [] s' evs b' wh (by simp [run]) h

example : ∃ s' evs, walk 1 5 { cells := [0, 2, 0], pending := [], delivered := [], recorded := [1, 1] } 0 []
      = some (s', evs, 2, some 1) ∧ evs = [.swap 1 0, .swap 1 1]
      ∧ run { cells := [0, 2, 0], pending := [], delivered := [], recorded := [1, 1] } evs = some s' := by
  refine ⟨_, _, rfl, rfl, ?_⟩
  decide

end Tally.Props.C09HistWalk
